/-
C14 — Until a client's address is validated, a server sends towards it at most three times the bytes
received from it, plus at most the single packet that was already permitted when the limit was reached;
tokens prove only the address they were issued for, only within their lifetime; a mangled token is
treated as absent or invalid, never as proof of address.

Property theorems only (helper lemmas: Uquic/Proofs/Amp*.lean).

Models: Uquic/Model/Amp/Limit.lean (accounting slice of sentPacketHandler), SendLoop.lean (connection.go's
sending loop), Token.lean (token generator / protector / validateToken / the token part of handleInitialImpl).
The observable statement is `Uquic.Spec.AmpMon.wireOk` on the wire trace.

"Received bytes" are the bytes of EVERY datagram attributed to the connection (`ReceivedBytes` is called by
`handleOnePacket` before parsing): datagrams that later fail to decrypt count as well, as in RFC 9000 §8.1.
-/
import Uquic.Proofs.AmpWire
import Uquic.Proofs.AmpToken
import Uquic.Generated.AmpShape

namespace Uquic.Props.C14
open Uquic.Model.Amp Uquic.Spec.AmpMon Uquic.Proofs.Amp

/-! ## 1. the amplification limit of the sent-packet handler -/

/-- `amplification_bound`.  For EVERY history `ops` of the server handler (arrivals of any sizes, processed
packets of any level, SendMode consultations with an arbitrary environment, datagrams of arbitrary coalesced
packets) in which every datagram is sent only after a `SendMode ≠ SendNone` answer computed after the previous
datagram (`disciplined`), at EVERY prefix `pre` at which the address is not yet validated:
  * the handler's counters are exactly the bytes handed to it (every sent packet counts, every received
    datagram counts),
  * `bytesSent ≤ 3·bytesReceived + size of the last datagram`, and
  * if `pre` is followed by a send, then `bytesSent < 3·bytesReceived` held immediately before it. -/
theorem amplification_bound (cav : Bool) (ops : List Op)
    (hd : (run .server cav ops).disciplined = true) :
    ∀ pre suf, ops = pre ++ suf → (run .server cav pre).h.validated = false →
      (run .server cav pre).h.bytesSent = (run .server cav pre).wireOut ∧
      (run .server cav pre).h.bytesReceived = (run .server cav pre).wireIn ∧
      (run .server cav pre).wireOut ≤ 3 * (run .server cav pre).wireIn + (run .server cav pre).last ∧
      (∀ sizes rest, suf = .sent sizes :: rest → (run .server cav pre).wireOut < 3 * (run .server cav pre).wireIn) := by
  intro pre suf hops hv
  subst hops
  have inv := Inv.run .server cav pre
  have hdp := disciplined_prefix _ _ _ _ hd
  refine ⟨inv.out.symm, inv.inn.symm, ?_, ?_⟩
  · rw [inv.out, inv.inn]; exact inv.bound hv hdp
  · intro sizes rest hs
    subst hs
    have hd2 : (run .server cav (pre ++ [.sent sizes])).disciplined = true :=
      disciplined_prefix .server cav (pre ++ [.sent sizes]) rest (by simpa [List.append_assoc] using hd)
    rw [run_append] at hd2
    simp only [List.foldl_cons, List.foldl_nil, St.step, Bool.and_eq_true] at hd2
    rw [inv.out, inv.inn]; exact inv.strict hv hd2.2

/-- the hypotheses are satisfiable by a non-trivial history: a padded Initial arrives, three full-size
datagrams and one more byte-sized one are each sent after a consultation, then the handler blocks -/
example :
    let ops : List Op := [.rcvBytes 1200, .mode .any, .sent [1200], .mode .any, .sent [700, 500], .mode .ptoInitial,
                          .sent [1199], .mode .any, .sent [1200], .mode .any]
    (run .server false ops).disciplined = true ∧ (run .server false ops).h.validated = false ∧
    (run .server false ops).wireOut = 4799 ∧ (run .server false ops).permitted = false := by decide

/-- the observable form: the wire trace of every disciplined handler history satisfies `wireOk` (no datagram
leaves an unvalidated server unless strictly fewer than 3× the received bytes were sent before it), and
therefore the running inequality holds on the wire. -/
theorem amplification_bound_wire (cav : Bool) (ops : List Op)
    (hd : (run .server cav ops).disciplined = true) :
    wireOk (H.new .server cav).validated (wireOfCalls (H.new .server cav) ops) = true :=
  wireOk_of_disciplined .server cav ops hd

/-- what `wireOk` buys: on any wire trace that satisfies it, while unvalidated,
`out ≤ 3·in + last datagram` -/
theorem wireOk_running_inequality (v0 : Bool) (evs : List WireEv) (h : wireOk v0 evs = true)
    (hv : (wireRun v0 evs).validated = false) :
    (wireRun v0 evs).outB ≤ 3 * (wireRun v0 evs).inB + (wireRun v0 evs).last :=
  wireOk_bound v0 evs h hv

/-- at or above the limit an unvalidated handler answers SendNone, whatever PTO / congestion / pacing want
(PTO probes and ACK-only packets are blocked too) -/
theorem limited_blocks_every_mode (h : H) (wants : Mode) (hv : h.validated = false)
    (hl : 3 * h.bytesReceived ≤ h.bytesSent) : h.sendMode wants = .none :=
  sendMode_none_of_limited h wants hv hl

/-- `validated_only_by_handshake_or_token`: a server handler counts the address as validated only if it
was constructed with a validated token / Retry (`clientAddressValidated`) or a Handshake-level packet was
processed; and validation is never undone. -/
theorem validated_only_by_handshake_or_token (cav : Bool) (ops : List Op)
    (hv : (run .server cav ops).h.validated = true) :
    cav = true ∨ Op.rcvPacket .handshake ∈ ops := by
  unfold Uquic.Model.Amp.run at hv
  suffices ∀ (s : St), (ops.foldl St.step s).h.validated = true →
      s.h.validated = true ∨ Op.rcvPacket .handshake ∈ ops by
    rcases this _ hv with h | h
    · left; simpa [St.init, H.new] using h
    · right; exact h
  clear hv
  induction ops with
  | nil => intro s h; exact Or.inl h
  | cons op ops ih =>
    intro s h
    rcases ih (s.step op) h with h1 | h1
    · cases hs : s.h.validated with
      | true => exact Or.inl rfl
      | false =>
        right
        cases op with
        | rcvBytes n => simp [St.step, H.receivedBytes, hs] at h1
        | rcvPacket l =>
          have := receivedPacket_validates s.h l hs (by simpa [St.step] using h1)
          rw [this.2]; exact List.mem_cons_self ..
        | mode w => simp [St.step, hs] at h1
        | sent sizes => simp [St.step, hs] at h1
    · exact Or.inr (List.mem_cons_of_mem _ h1)

theorem validated_monotone (pers : Persp) (cav : Bool) (pre suf : List Op)
    (hv : (run pers cav pre).h.validated = true) : (run pers cav (pre ++ suf)).h.validated = true := by
  rw [run_append]; exact foldl_validated_mono suf hv

example : (run .server false [.rcvBytes 1200, .rcvPacket .initial, .rcvPacket .oneRTT]).h.validated = false ∧
    (run .server false [.rcvBytes 1200, .rcvPacket .handshake]).h.validated = true ∧
    (run .client false []).h.validated = true := by decide

/-! ## 2. the send loop -/

/-- `send_loop_consults_mode`: for EVERY run of the connection's sending loop (arrivals, processed packets,
`triggerSending` calls with arbitrary environments — SendAny, ACK-only, pacing-limited, PTO probes with their
recursion, before and after handshake confirmation — and local closes), the sequence of calls the loop makes
on the handler is a disciplined history: every datagram handed to `SentPacket` is preceded by a `SendMode`
answer ≠ SendNone computed after the previous datagram; and the loop's handler is the one that history
produces. -/
theorem send_loop_consults_mode (pers : Persp) (cav : Bool) (lops : List LoopOp) :
    (run pers cav (runLoop pers cav lops).calls).disciplined = true ∧
    (run pers cav (runLoop pers cav lops).calls).h = (runLoop pers cav lops).h := by
  have inv := loop_refines pers cav lops
  refine ⟨inv.disc, ?_⟩
  rw [inv.h]; unfold Uquic.Model.Amp.run; rw [foldl_h]; rfl

example :
    let L := runLoop .server false [.arrive 1200,
      .trigger false [⟨.any, [1200]⟩, ⟨.any, []⟩], .trigger false [⟨.ptoInitial, [1200]⟩, ⟨.ptoInitial, [1200]⟩, ⟨.any, [1200]⟩]]
    L.h.bytesSent = 3600 ∧ L.calls.length = 9 := by decide

/-- `datagram_credited_once`: for EVERY datagram that `handleOnePacket` handles — any size, any number and kind of
coalesced packets (processed at any level, skipped, or ending the walk) — the received-bytes counter grows by
exactly the datagram's size, once; the sent-bytes counter is untouched; and on the wire trace the calls amount to
exactly one arrival of that size (plus possibly the validation mark). Crediting per coalesced packet, or crediting
the remaining bytes again in each iteration, would break this. -/
theorem datagram_credited_once (h : H) (size : Nat) (pkts : List Pkt) :
    ((handleOnePacketCalls size pkts).foldl H.apply h).bytesReceived = h.bytesReceived + size ∧
    ((handleOnePacketCalls size pkts).foldl H.apply h).bytesSent = h.bytesSent ∧
    ∃ rest, wireOfCalls h (handleOnePacketCalls size pkts) = .inn size :: rest ∧ ∀ ev ∈ rest, ev = WireEv.validate := by
  have hw := walkCalls_counters pkts (h.receivedBytes size)
  refine ⟨?_, ?_, ?_⟩
  · simpa [handleOnePacketCalls, H.apply, H.receivedBytes] using hw.1
  · simpa [handleOnePacketCalls, H.apply, H.receivedBytes] using hw.2
  · refine ⟨wireOfCalls (h.receivedBytes size) (walkCalls pkts), ?_, walkCalls_wire_no_inn pkts _⟩
    simp [handleOnePacketCalls, wireOfCalls, opWire, H.apply]

example : ((handleOnePacketCalls 1182 [.processed .initial, .processed .initial, .skipped, .processed .initial, .stop,
    .processed .handshake]).foldl H.apply (H.new .server false)).bytesReceived = 1182 := by decide

/-- bytes the loop's events bring in -/
def arrived : LoopOp → Nat
  | .arrive n => n
  | .datagram size _ => size
  | _ => 0

/-- … and over a whole run of the loop: the handler's `bytesReceived` is exactly the sum of the sizes of the
datagrams that arrived — each credited once, whatever was sent in between. -/
theorem loop_credits_each_datagram_once (pers : Persp) (cav : Bool) (lops : List LoopOp) :
    (runLoop pers cav lops).h.bytesReceived = (lops.map arrived).sum := by
  unfold runLoop
  suffices ∀ (L : LoopSt), (lops.foldl LoopSt.step L).h.bytesReceived = L.h.bytesReceived + (lops.map arrived).sum by
    rw [this]; simp [H.new]
  induction lops with
  | nil => intro L; simp
  | cons op lops ih =>
    intro L
    simp only [List.foldl_cons, List.map_cons, List.sum_cons]
    rw [ih]
    cases op with
    | arrive n => simp [LoopSt.step, arrived, H.receivedBytes, Nat.add_assoc]
    | processed l => simp [LoopSt.step, arrived, (receivedPacket_counts L.h l).2.1]
    | trigger c envs => simp [LoopSt.step, arrived, triggerSending_bytesReceived]
    | closeLocal n => simp [LoopSt.step, arrived]
    | datagram size pkts =>
      simp only [LoopSt.step, arrived]
      rw [(datagram_credited_once L.h size pkts).1, Nat.add_assoc]

/-- the shape of connection.go that `SendLoop.lean` relies on, regenerated from the source (name-based call
graph of the file).  The compared fact `outsideSends` is SEMANTIC — it contains no helper name, so extracting or
renaming helpers is not an alarm: it lists every way to register a packet with the handler or to put one on the
wire WITHOUT passing through `triggerSending` (the gate that consults `SendMode`), as `<where>:<what>`:
  * `recv1rtt:wire:SendProbe` + `recv1rtt:register` — on the receive path of `handleShortHeaderPacket` (through
    any chain of helpers) a 1-RTT packet from a new remote address is answered with ONE path-probe packet, sent
    with `sendQueue.SendProbe` and registered (possible only with 1-RTT keys, i.e. after the handshake completed
    and the original address was validated; the amplification rule for NEW paths, RFC 9000 §8.2.1, is outside
    this property's model);
  * `other:wire:Write` — one direct `conn.Write`, not on a receive path: the CONNECTION_CLOSE datagram (the known
    finding `send_loop_wire_bound_witness`).
Anything else — a `sendQueue.Send` / `conn.Write` / `SentPacket` in a frame handler, a call of a sending function
from the receive path or from a timer — adds an element, makes this theorem, and with it the check, fail. -/
theorem send_loop_shape :
    Uquic.Gen.AmpShape.outsideSends = ["other:wire:Write", "recv1rtt:register", "recv1rtt:wire:SendProbe"] := by decide

/-- the observable statement for the loop, FULL form: every datagram the connection writes while the
client's address is unvalidated leaves strictly below the limit.  FALSE for the unchanged code, because
`sendConnectionClose` (connection.go, via handleCloseError) writes a CONNECTION_CLOSE datagram without
consulting `SendMode` and without `SentPacket` accounting. -/
def send_loop_wire_bound_full : Prop :=
  ∀ (cav : Bool) (lops : List LoopOp),
    wireOk (H.new .server cav).validated (runLoop .server cav lops).wire = true

/-- PARTIAL form: it holds for every run without a local close. -/
theorem send_loop_wire_bound_partial (cav : Bool) (lops : List LoopOp)
    (hc : ∀ op ∈ lops, op.isClose = false) :
    wireOk (H.new .server cav).validated (runLoop .server cav lops).wire = true := by
  rw [loop_wire_no_close .server cav lops hc]
  exact wireOk_of_disciplined .server cav _ (loop_refines .server cav lops).disc

/-- negation witness: a 1200-byte Initial arrives, three 1200-byte datagrams exhaust the budget (3600 = 3·1200,
`SendMode` now answers SendNone), then the server closes the connection locally (handshake failure, refused
connection, server shutdown): 100 more bytes leave at the limit. -/
theorem send_loop_wire_bound_witness : ¬ send_loop_wire_bound_full := by
  intro h
  have := h false [.arrive 1200, .trigger false [⟨.any, [1200]⟩], .trigger false [⟨.any, [1200]⟩],
    .trigger false [⟨.any, [1200]⟩], .trigger false [⟨.any, [1200]⟩], .closeLocal 100]
  revert this; decide

/-! ## 3. tokens -/

open Uquic.Model.Tok Uquic.Proofs.Tok

/-- `token_address_and_age`: if `validateToken` accepts a token for remote address `a` at time `now`, then the
address encoded in the token is the encoding of `a` — which pins the IP bytes of a UDP address (NOT its port
or zone: `encodeRemoteAddr` deliberately leaves them out) or the `String()` of any other address, and never
confuses the two kinds — and the token's age is within the limit for its kind. A nil token never validates. -/
theorem token_address_and_age (t : Token) (a : Addr) (now maxTokenAge maxRetryAge : Int)
    (h : validateToken (some t) a now maxTokenAge maxRetryAge = true) :
    t.encodedRemoteAddr = encodeRemoteAddr a ∧
    (∀ b, t.encodedRemoteAddr = encodeRemoteAddr b → SameHost a b) ∧
    (t.isRetryToken = true → now - t.sentTime ≤ maxRetryAge) ∧
    (t.isRetryToken = false → now - t.sentTime ≤ maxTokenAge) := by
  obtain ⟨ha, hr, hn⟩ := validate_true t a now maxTokenAge maxRetryAge h
  exact ⟨ha.symm, fun b hb => encode_injective a b (ha.trans hb), hr, hn⟩

theorem nil_token_never_validates (a : Addr) (now x y : Int) : validateToken none a now x y = false := rfl

/-- the Retry-token lifetime of config.go: `maxRetryTokenAge = handshakeTimeout = 2 · HandshakeIdleTimeout`
(regenerated from the source) -/
theorem retry_age_is_twice_idle (idle : Int) : maxRetryTokenAge idle = 2 * idle := by
  simp [maxRetryTokenAge, Uquic.Gen.AmpToken.maxRetryTokenAgeIsHandshakeTimeout, Uquic.Gen.AmpToken.handshakeTimeoutFactor]

example : validateToken (some { isRetryToken := true, sentTime := 100, encodedRemoteAddr := encodeRemoteAddr (.udp [10, 0, 0, 1] 443 []) })
      (.udp [10, 0, 0, 1] 50000 []) 150 1000 50 = true ∧
    validateToken (some { isRetryToken := true, sentTime := 100, encodedRemoteAddr := encodeRemoteAddr (.udp [10, 0, 0, 1] 443 []) })
      (.udp [10, 0, 0, 2] 443 []) 150 1000 50 = false ∧
    validateToken (some { isRetryToken := true, sentTime := 100, encodedRemoteAddr := encodeRemoteAddr (.udp [10, 0, 0, 1] 443 []) })
      (.udp [10, 0, 0, 1] 443 []) 151 1000 50 = false := by decide

/-- `retry_token_roundtrip`: decoding a Retry token under the key it was issued with returns exactly the
connection IDs, address encoding and issue time it was made with (AES-GCM correctness and the ASN.1 round trip
are the trusted hypotheses; connection IDs are at most 20 bytes, as `protocol.ConnectionID` guarantees). -/
theorem retry_token_roundtrip (E : Crypto) (C : Codec) (hc : E.Correct) (hr : C.RoundTrip)
    (secret nonce : Bytes) (a : Addr) (odcid rscid : Bytes) (now : Int)
    (hn : nonce.length = tokenNonceSize) (ho : odcid.length ≤ maxConnectionIDLen) (hs : rscid.length ≤ maxConnectionIDLen) :
    decodeToken E C secret (newRetryToken E C secret nonce a odcid rscid now) =
      .ok { isRetryToken := true, sentTime := now, encodedRemoteAddr := encodeRemoteAddr a, odcid := odcid, rscid := rscid } := by
  unfold decodeToken newRetryToken
  rw [if_neg (protect_length E _ _ _ hn), unprotect_protect E hc _ _ _ hn]
  simp only [hr _]
  rw [if_neg (by simp; omega)]
  simp [Token.ofFields]

/-- … and the server then accepts it for the same host within the Retry lifetime, restoring exactly the
original destination connection ID and the Retry source connection ID -/
theorem retry_token_accepted (E : Crypto) (C : Codec) (hc : E.Correct) (hr : C.RoundTrip)
    (secret nonce hdrDCID : Bytes) (a a' : Addr) (odcid rscid : Bytes) (issued now maxTokenAge maxRetryAge : Int) (wantsRetry : Bool)
    (hn : nonce.length = tokenNonceSize) (ho : odcid.length ≤ maxConnectionIDLen) (hs : rscid.length ≤ maxConnectionIDLen)
    (hsame : SameHost a' a) (hage : now - issued ≤ maxRetryAge) :
    handleInitial E C secret (newRetryToken E C secret nonce a odcid rscid issued) hdrDCID a' now maxTokenAge maxRetryAge wantsRetry =
      .proceed true odcid (some rscid) 0 := by
  unfold handleInitial
  have hlen : (newRetryToken E C secret nonce a odcid rscid issued).length > 0 :=
    Nat.pos_of_ne_zero (protect_length E _ _ _ hn)
  rw [if_pos hlen, retry_token_roundtrip E C hc hr secret nonce a odcid rscid issued hn ho hs]
  have henc := sameHost_encode a' a hsame
  have hnot : ¬ (now - issued > maxRetryAge) := by omega
  simp [validateToken, Token.validateRemoteAddr, henc, hnot]

/-- NEW_TOKEN tokens round-trip as well (address, issue time, RTT in µs granularity) -/
theorem new_token_roundtrip (E : Crypto) (C : Codec) (hc : E.Correct) (hr : C.RoundTrip)
    (secret nonce : Bytes) (a : Addr) (rttMicros now : Int) (hn : nonce.length = tokenNonceSize) :
    decodeToken E C secret (newToken E C secret nonce a rttMicros now) =
      .ok { isRetryToken := false, sentTime := now, encodedRemoteAddr := encodeRemoteAddr a, rtt := rttMicros * 1000 } := by
  unfold decodeToken newToken
  rw [if_neg (protect_length E _ _ _ hn), unprotect_protect E hc _ _ _ hn]
  simp [hr _, Token.ofFields]

/-- `mangled_token_is_absent` (IDEAL AEAD): a byte string that is not an output of the token protector under
this server's key — truncated, bit-flipped, extended, spliced, random, or sealed under another key — decodes to
an error (to "absent" only when it is empty), and the server treats it exactly like a missing token: it sends a
Retry if it wants one, otherwise it proceeds WITHOUT address validation, with the packet's own destination
connection ID.  It is never proof of address. -/
theorem mangled_token_is_absent (E : Crypto) (C : Codec) (hi : E.Ideal) (secret b hdrDCID : Bytes)
    (hmangled : ∀ nonce data, nonce.length = tokenNonceSize → b ≠ protect E secret nonce data)
    (remote : Addr) (now maxTokenAge maxRetryAge : Int) (wantsRetry : Bool) :
    decodeToken E C secret b = (if b.length = 0 then .absent else .err) ∧
    handleInitial E C secret b hdrDCID remote now maxTokenAge maxRetryAge wantsRetry =
      (if wantsRetry then .retry else .proceed false hdrDCID none 0) := by
  have hdec : decodeToken E C secret b = (if b.length = 0 then .absent else .err) := by
    by_cases hl : b.length = 0
    · simp [decodeToken, hl]
    · rw [if_neg hl]
      cases hd : decodeToken E C secret b with
      | absent => simp [decodeToken, hl] at hd; split at hd <;> (try split at hd) <;> (try split at hd) <;> cases hd
      | err => rfl
      | panic =>
        obtain ⟨nonce, data, hn, hp⟩ := decode_panic_was_sealed E C hi secret b hd
        exact absurd hp (hmangled nonce data hn)
      | ok t =>
        obtain ⟨nonce, data, f, hn, hp, _, _⟩ := decode_ok_was_sealed E C hi secret b t hd
        exact absurd hp (hmangled nonce data hn)
  refine ⟨hdec, ?_⟩
  unfold handleInitial
  by_cases hl : b.length = 0
  · have : ¬ b.length > 0 := by omega
    simp [this]
  · have : b.length > 0 := by omega
    simp only [this, if_true, hdec, hl, if_false]

/-- sealing under another key is one way of being mangled, given that the AEAD separates keys -/
theorem foreign_key_token_is_mangled (E : Crypto)
    (hsep : ∀ s s' n d d', E.aeadSeal s n d = E.aeadSeal s' n d' → s = s')
    (secret other nonce data : Bytes) (hne : other ≠ secret) (hn : nonce.length = tokenNonceSize) :
    ∀ nonce' data', nonce'.length = tokenNonceSize → protect E other nonce data ≠ protect E secret nonce' data' := by
  intro nonce' data' hn' heq
  unfold protect at heq
  have := List.append_inj heq (by rw [hn, hn'])
  rw [← this.1] at this
  exact hne (hsep _ _ _ _ _ this.2)

/-- `token_foreign_instance_rejected`: a token sealed by ANOTHER server instance, or offline under any other key
(the all-zero key included) — i.e. protected under a secret different from this server's — is treated exactly like
a missing token by this server, for every address and time. (Each `Transport` without an explicit
`TokenGeneratorKey` draws its own 32 random bytes in `Transport.init`; that the draw really lands in the key the
server uses is observed by the token driver's `dkey`/`dinitial` operations — monitor `default_key_is_random`.) -/
theorem token_foreign_instance_rejected (E : Crypto) (C : Codec) (hi : E.Ideal)
    (hsep : ∀ s s' n d d', E.aeadSeal s n d = E.aeadSeal s' n d' → s = s')
    (secret other nonce data hdrDCID : Bytes) (hne : other ≠ secret) (hn : nonce.length = tokenNonceSize)
    (remote : Addr) (now maxTokenAge maxRetryAge : Int) (wantsRetry : Bool) :
    handleInitial E C secret (protect E other nonce data) hdrDCID remote now maxTokenAge maxRetryAge wantsRetry =
      (if wantsRetry then .retry else .proceed false hdrDCID none 0) :=
  (mangled_token_is_absent E C hi secret _ hdrDCID
    (foreign_key_token_is_mangled E hsep secret other nonce data hne hn) remote now maxTokenAge maxRetryAge wantsRetry).2

/-- the converse direction of "never proof of address": whenever the server proceeds WITH address validation,
the token bytes are literally an output of the protector under this key, whose sealed struct carries the
encoding of the packet's remote address and an issue time within the lifetime for its kind. -/
theorem address_proof_requires_issued_token (E : Crypto) (C : Codec) (hi : E.Ideal) (secret tok hdrDCID : Bytes)
    (remote : Addr) (now maxTokenAge maxRetryAge : Int) (wantsRetry : Bool) (o : Bytes) (r : Option Bytes) (rtt : Int)
    (h : handleInitial E C secret tok hdrDCID remote now maxTokenAge maxRetryAge wantsRetry = .proceed true o r rtt) :
    ∃ nonce data f, nonce.length = tokenNonceSize ∧ tok = protect E secret nonce data ∧ C.dec data = some f ∧
      f.remoteAddr = encodeRemoteAddr remote ∧
      now - f.timestamp ≤ (if f.isRetryToken then maxRetryAge else maxTokenAge) ∧
      (f.isRetryToken = true → o = f.odcid ∧ r = some f.rscid) := by
  unfold handleInitial at h
  by_cases hl : tok.length > 0
  · simp only [hl, if_true] at h
    cases hd : decodeToken E C secret tok with
    | absent => rw [hd] at h; simp only [] at h; split at h <;> cases h
    | err => rw [hd] at h; simp only [] at h; split at h <;> cases h
    | panic => rw [hd] at h; cases h
    | ok t =>
      rw [hd] at h
      simp only [] at h
      obtain ⟨nonce, data, f, hn, hp, hf, ht⟩ := decode_ok_was_sealed E C hi secret tok t hd
      by_cases hv : validateToken (some t) remote now maxTokenAge maxRetryAge = true
      · obtain ⟨ha, hr, hnr⟩ := validate_true t remote now maxTokenAge maxRetryAge hv
        simp only [hv, if_true, InitialOutcome.proceed.injEq, true_and] at h
        refine ⟨nonce, data, f, hn, hp, hf, ?_, ?_, ?_⟩
        · rw [← ofFields_addr f, ← ht]; exact ha.symm
        · rw [← ofFields_time f, ← ofFields_retry f, ← ht]
          cases hrt : t.isRetryToken with
          | true => simpa using hr hrt
          | false => simpa using hnr hrt
        · intro hfr
          have htr : t.isRetryToken = true := by rw [ht, ofFields_retry]; exact hfr
          simp only [htr, if_true] at h
          have hto : t.odcid = f.odcid ∧ t.rscid = f.rscid := by
            rw [ht]; unfold Token.ofFields; simp [hfr]
          exact ⟨by rw [← h.1, hto.1], by rw [← h.2.1, hto.2]⟩
      · rw [if_neg hv] at h
        split at h
        · cases h
        · split at h <;> cases h
  · simp only [hl, if_false] at h
    split at h <;> cases h

end Uquic.Props.C14
