/-
Tie theorems, idle / keep-alive / handshake timer arithmetic (property C17; the same functions in the connection
timer model of Uquic/Model/Conn/Timer.lean): the model functions EQUAL the definitions regenerated from connection.go
(`idleTimeoutStartTime`, `nextIdleTimeoutTime`, `nextKeepAliveTime`) and config.go (`handshakeTimeout`) by the
source-to-Lean translator (gofacts/trans.go → Uquic.Generated.TransIdle) on every run.

`c.rttStats.PTO(true)` is an opaque input `pto_true` of the translation (listed as such in gofacts/x_trans_cong.go),
like the model's `pto` argument.  Range hypotheses (Go: monotime.Time and Duration are int64): `0 ≤ pto` for
`nextKeepAliveTime` (Go's `pto*3/2` truncates, the model floors; they agree for a non-negative PTO, and
`RTTStats_PTO_ge_granularity` shows the PTO is positive).  No other; sums of times are assumed not to overflow int64.
-/
import Uquic.Generated.TransIdle
import Uquic.Model.Close.Idle
import Uquic.Model.Conn.Timer
import Uquic.Proofs.TransLemmas

namespace Uquic.Props.TransIdle
open Uquic.Proofs.Trans
open Uquic.Gen.TransIdle

section close
open Uquic.Model.Idle

theorem Conn_idleTimeoutStartTime_model_is_source (s : St) :
    s.idleStart = Conn_idleTimeoutStartTime s.firstAESent s.lastPacketReceivedTime := by
  unfold St.idleStart Conn_idleTimeoutStartTime; tie_arith

theorem Conn_nextIdleTimeoutTime_model_is_source (s : St) (pto : Int) :
    s.nextIdle pto = Conn_nextIdleTimeoutTime s.firstAESent s.idleTimeout s.lastPacketReceivedTime pto := by
  unfold St.nextIdle St.idlePeriod Conn_nextIdleTimeoutTime
  rw [← Conn_idleTimeoutStartTime_model_is_source]
  all_goals omega

theorem Conn_nextKeepAliveTime_model_is_source (s : St) (pto : Int) (h : 0 ≤ pto) :
    s.nextKeepAlive pto = Conn_nextKeepAliveTime s.keepAlivePeriod s.keepAliveInterval s.keepAlivePingSent s.lastPacketReceivedTime pto := by
  unfold St.nextKeepAlive Conn_nextKeepAliveTime
  tdiv_norm
  all_goals (cases s.keepAlivePingSent <;> tie_arith)

/-- outside the range hypothesis the two roundings differ (a negative PTO never occurs: `RTTStats_PTO_ge_granularity`) -/
theorem Conn_nextKeepAliveTime_differs_negative :
    ({ lastPacketReceivedTime := 0, idleTimeout := 0, keepAlivePeriod := 1 } : St).nextKeepAlive (-1) ≠
      Conn_nextKeepAliveTime 1 (-5) false 0 (-1) := by decide

theorem Config_handshakeTimeout_model_is_source (s : St) :
    s.handshakeTimeout = Config_handshakeTimeout s.handshakeIdleTimeout := by
  unfold St.handshakeTimeout Config_handshakeTimeout; rfl

end close

section timer
open Uquic.Model.Conn.Timer

/-- the connection-timer model keeps `firstAckElicitingPacketAfterIdleSentTime` as an `Option` (`none` = zero time) -/
theorem Conn_idleTimeoutStartTime_timer_model_is_source (i : Input) (h : i.firstAE ≠ some 0) :
    idleStart i = Conn_idleTimeoutStartTime (i.firstAE.getD 0) i.lastRecv := by
  unfold idleStart Conn_idleTimeoutStartTime
  cases hf : i.firstAE with
  | none => simp
  | some t =>
    have : t ≠ 0 := by intro e; apply h; rw [hf, e]
    simp only [Option.getD_some]; tie_arith

theorem Conn_nextIdleTimeoutTime_timer_model_is_source (i : Input) (h : i.firstAE ≠ some 0) :
    nextIdle i = Conn_nextIdleTimeoutTime (i.firstAE.getD 0) i.idleTimeout i.lastRecv i.pto := by
  unfold nextIdle Conn_nextIdleTimeoutTime
  rw [← Conn_idleTimeoutStartTime_timer_model_is_source i h]
  all_goals omega

theorem Conn_nextKeepAliveTime_timer_model_is_source (i : Input) (h : 0 ≤ i.pto) :
    (nextKeepAlive i).getD 0 = Conn_nextKeepAliveTime i.keepAlivePeriod i.keepAliveInterval i.keepAlivePingSent i.lastRecv i.pto := by
  unfold nextKeepAlive Conn_nextKeepAliveTime
  tdiv_norm
  all_goals (cases i.keepAlivePingSent <;> by_cases hk : i.keepAlivePeriod = 0 <;> simp [hk] <;> omega)

end timer

example : Conn_nextKeepAliveTime 1 5 false 100 7 = 110 := by decide

end Uquic.Props.TransIdle
