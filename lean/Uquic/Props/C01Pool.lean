/-
Property C01, pool hygiene of STREAM frames (round 5).

Stream bytes travel in pooled frame objects on both sides: `SendStream` takes one per popped frame
(`wire.GetStreamFrame`) and hands it back when the frame is acknowledged or dropped; the frame parser takes one per
received frame with ≥ `MinStreamFrameBufferSize` bytes and the receive stream's frame sorter hands it back when the
bytes were read, superseded or copied. C01's text ("every byte read is the byte written at that offset") silently
relies on each such object having ONE owner at a time: an object that is handed back twice is given to two owners by
the pool, and one stream's bytes overwrite another's.

`Model.Stream.FramePool` is the pool with its users; `step` reports whether an op was *disciplined* (a `put` / `write`
only by a holder that currently holds the object). Over ALL disciplined histories, all pool orders (`get` may take any
element) and all holders:

* `pool_exclusive`          no object has two holders, no held object is in the pool, the pool holds no object twice;
* `holder_data_stable`      what a holder stored in an object it holds is still there after any disciplined activity
                            of anybody else (and of itself on other objects) — the bytes queued in the receive
                            stream / in flight in a STREAM frame do not change under it;
* `disciplined_prefix`      discipline of a history is discipline of every step (what the monitor checks op by op).

Negative witness (kernel `decide`): `double_put_shares_object` — ONE extra `put` of an object already handed back and
the pool hands that object to two holders, the second of which overwrites the first one's bytes; so the monitor's
condition is not only sufficient but the very thing that protects the property.

Tie to the code: the sstream / spair drivers sweep the real pool after every op (hooks internal/wire/verif_c01pool.go,
sscore/pool.go: poisoned pool, quarantine of released objects); the oracle replays the observed hand-outs and releases
through `Pool.step` (monitors pool_release_once, pool_exclusive, pool_release_in_flight). The sorter's own release
logic is modelled branch for branch in C03 (`Props.C03.buffers`: no buffer id released twice over all sorter histories).
-/
import Uquic.Model.Stream.FramePool

namespace Uquic.Props.C01Pool

open Uquic.Model.Stream.FramePool

/-- the objects currently held by somebody -/
def heldBufs (p : Pool) : List Nat := p.held.map (·.2)

/-- every object made so far is in exactly one place: with one holder, or once in the pool -/
structure Inv (p : Pool) : Prop where
  nodup : (heldBufs p ++ p.free).Nodup
  bound : ∀ b ∈ heldBufs p ++ p.free, b < p.next

theorem inv_init : Inv ({} : Pool) := ⟨by simp [heldBufs], by simp [heldBufs]⟩

private theorem holds_iff (p : Pool) (h b : Nat) : holds p h b = true ↔ (h, b) ∈ p.held := by
  simp [holds]

private theorem heldBufs_perm_erase {p : Pool} {h b : Nat} (hm : (h, b) ∈ p.held) :
    (heldBufs p).Perm (b :: (p.held.erase (h, b)).map (·.2)) := by
  have := (List.perm_cons_erase hm).map (·.2)
  simpa [heldBufs] using this

private theorem step_get_nil {p : Pool} (h pick : Nat) (hf : p.free = []) :
    (p.step (.get h pick)).1 = { p with next := p.next + 1, held := (h, p.next) :: p.held } := by
  simp [Pool.step, hf]

private theorem step_get_cons {p : Pool} (h pick : Nat) {f : Nat} {fs : List Nat} (hf : p.free = f :: fs) :
    (p.step (.get h pick)).1 = { p with free := (f :: fs).erase (if pick ∈ f :: fs then pick else f),
                                        held := (h, if pick ∈ f :: fs then pick else f) :: p.held } := by
  simp [Pool.step, hf]

/-- one disciplined step keeps the invariant -/
theorem step_inv {p : Pool} (hi : Inv p) (op : Op) (hd : (p.step op).2 = true) : Inv (p.step op).1 := by
  cases op with
  | get h pick =>
    cases hf : p.free with
    | nil =>
      have hn := hi.nodup; have hb := hi.bound
      simp only [hf, List.append_nil] at hn hb
      rw [step_get_nil h pick hf]
      refine ⟨?_, ?_⟩
      · simp only [hf, heldBufs, List.map_cons, List.append_nil, List.nodup_cons]
        exact ⟨fun hm => Nat.lt_irrefl _ (hb _ hm), hn⟩
      · intro b hm
        simp only [hf, heldBufs, List.map_cons, List.append_nil, List.mem_cons] at hm
        show b < p.next + 1
        rcases hm with rfl | hm
        · exact Nat.lt_succ_self _
        · exact Nat.lt_succ_of_lt (hb _ hm)
    | cons f fs =>
      have hmem : (if pick ∈ f :: fs then pick else f) ∈ f :: fs := by
        split
        · assumption
        · exact List.mem_cons_self
      have hperm : (heldBufs p ++ p.free).Perm
          ((if pick ∈ f :: fs then pick else f) :: (heldBufs p ++ (f :: fs).erase (if pick ∈ f :: fs then pick else f))) := by
        rw [hf]
        exact (List.Perm.append_left _ (List.perm_cons_erase hmem)).trans List.perm_middle
      rw [step_get_cons h pick hf]
      refine ⟨?_, ?_⟩
      · simp only [heldBufs, List.map_cons, List.cons_append]
        exact hperm.nodup_iff.mp hi.nodup
      · intro b hm
        simp only [heldBufs, List.map_cons, List.cons_append] at hm
        exact hi.bound b (hperm.mem_iff.mpr hm)
  | put h b =>
    have hm : (h, b) ∈ p.held := (holds_iff p h b).mp hd
    have hperm : (heldBufs p ++ p.free).Perm ((p.held.erase (h, b)).map (·.2) ++ b :: p.free) :=
      ((heldBufs_perm_erase hm).append_right _).trans List.perm_middle.symm
    refine ⟨?_, ?_⟩
    · simp only [Pool.step, heldBufs]
      exact hperm.nodup_iff.mp hi.nodup
    · intro x hx
      simp only [Pool.step, heldBufs] at hx
      exact hi.bound x (hperm.mem_iff.mpr hx)
  | write h b data => exact ⟨hi.nodup, hi.bound⟩

/-- discipline of a history is discipline of its first step and of the rest -/
theorem disciplined_prefix (p : Pool) (op : Op) (ops : List Op) :
    (p.run (op :: ops)).2 = true ↔ (p.step op).2 = true ∧ ((p.step op).1.run ops).2 = true := by
  simp [Pool.run]

theorem run_inv : ∀ (ops : List Op) {p : Pool}, Inv p → (p.run ops).2 = true → Inv (p.run ops).1
  | [], _, hi, _ => hi
  | op :: ops, p, hi, hd => by
    have h := (disciplined_prefix p op ops).mp hd
    exact run_inv ops (step_inv hi op h.1) h.2

private theorem snd_inj_of_nodup : ∀ {l : List (Nat × Nat)}, (l.map (·.2)).Nodup →
    ∀ {x y : Nat × Nat}, x ∈ l → y ∈ l → x.2 = y.2 → x = y
  | [], _, _, _, hx, _, _ => by cases hx
  | a :: l, hn, x, y, hx, hy, he => by
    simp only [List.map_cons, List.nodup_cons] at hn
    rcases List.mem_cons.mp hx with rfl | hx' <;> rcases List.mem_cons.mp hy with rfl | hy'
    · rfl
    · exact absurd (he ▸ List.mem_map_of_mem (f := (·.2)) hy') hn.1
    · exact absurd (he ▸ List.mem_map_of_mem (f := (·.2)) hx') hn.1
    · exact snd_inj_of_nodup hn.2 hx' hy' he

/-- **exclusive ownership.** After any disciplined history from the empty pool — any holders, any order in which the
pool hands its objects out — no object has two holders, no held object is in the pool, and the pool holds no
object twice. -/
theorem pool_exclusive (ops : List Op) (hd : (({} : Pool).run ops).2 = true) :
    (∀ h1 h2 b, (h1, b) ∈ (({} : Pool).run ops).1.held → (h2, b) ∈ (({} : Pool).run ops).1.held → h1 = h2) ∧
    (∀ h b, (h, b) ∈ (({} : Pool).run ops).1.held → b ∉ (({} : Pool).run ops).1.free) ∧
    (({} : Pool).run ops).1.free.Nodup := by
  have hi := run_inv ops inv_init hd
  have hn := List.nodup_append.mp hi.nodup
  refine ⟨?_, ?_, hn.2.1⟩
  · intro h1 h2 b m1 m2
    have := snd_inj_of_nodup hn.1 m1 m2 rfl
    exact congrArg Prod.fst this
  · intro h b m hf
    exact hn.2.2 b (List.mem_map_of_mem (f := (·.2)) m) b hf rfl

/-- `op` is not holder `h` releasing or overwriting object `b` -/
def Leaves (h b : Nat) : Op → Prop
  | .put h' b' => ¬ (h' = h ∧ b' = b)
  | .write h' b' _ => ¬ (h' = h ∧ b' = b)
  | .get _ _ => True

instance (h b : Nat) (op : Op) : Decidable (Leaves h b op) := by
  cases op <;> unfold Leaves <;> infer_instance

private theorem step_stable {p : Pool} (hi : Inv p) {h b : Nat} (hm : (h, b) ∈ p.held) (op : Op)
    (hd : (p.step op).2 = true) (hl : Leaves h b op) :
    (h, b) ∈ (p.step op).1.held ∧ (p.step op).1.mem b = p.mem b := by
  cases op with
  | get h' pick =>
    cases hf : p.free with
    | nil => rw [step_get_nil h' pick hf]; exact ⟨List.mem_cons_of_mem _ hm, rfl⟩
    | cons f fs => rw [step_get_cons h' pick hf]; exact ⟨List.mem_cons_of_mem _ hm, rfl⟩
  | put h' b' =>
    refine ⟨?_, rfl⟩
    simp only [Pool.step]
    have hne : (h, b) ≠ (h', b') := by
      intro he
      exact hl ⟨(congrArg Prod.fst he).symm, (congrArg Prod.snd he).symm⟩
    exact (List.mem_erase_of_ne hne).mpr hm
  | write h' b' data =>
    refine ⟨hm, ?_⟩
    have hm' : (h', b') ∈ p.held := (holds_iff p h' b').mp hd
    have hne : b ≠ b' := by
      intro he
      subst he
      have hn := (List.nodup_append.mp hi.nodup).1
      have := snd_inj_of_nodup hn hm' hm rfl
      exact hl ⟨congrArg Prod.fst this, rfl⟩
    simp [Pool.step, hne]

/-- **contents are stable.** Holder `h` holds object `b`. Whatever disciplined history follows — other holders taking,
filling and releasing objects in any order, `h` itself working on other objects — as long as `h` does not release or
overwrite `b`, it still holds `b` and `b` contains what it contained. -/
theorem holder_data_stable : ∀ (ops : List Op) {p : Pool} {h b : Nat}, Inv p → (h, b) ∈ p.held →
    (p.run ops).2 = true → (∀ op ∈ ops, Leaves h b op) →
    (h, b) ∈ (p.run ops).1.held ∧ (p.run ops).1.mem b = p.mem b
  | [], _, _, _, _, hm, _, _ => ⟨hm, rfl⟩
  | op :: ops, p, h, b, hi, hm, hd, hl => by
    have hd' := (disciplined_prefix p op ops).mp hd
    have h1 := step_stable hi hm op hd'.1 (hl op List.mem_cons_self)
    have h2 := holder_data_stable ops (step_inv hi op hd'.1) h1.1 hd'.2 (fun o ho => hl o (List.mem_cons_of_mem _ ho))
    exact ⟨h2.1, h2.2.trans h1.2⟩

/-! ### the hypotheses are satisfiable, the statements are not vacuous -/

/-- a receive stream (holder 1) queues a frame, a send stream (holder 2) takes, fills, releases and re-takes objects -/
def calmOps : List Op :=
  [.get 1 0, .write 1 0 [10, 11, 12], .get 2 0, .write 2 1 [20], .put 2 1, .get 3 1, .write 3 1 [30, 31]]

example : (({} : Pool).run calmOps).2 = true := by decide
example : (({} : Pool).run calmOps).1.mem 0 = [10, 11, 12] := by decide
example : ∀ op ∈ calmOps.drop 2, Leaves 1 0 op := by decide

/-! ### negative witness: one `put` too many -/

/-- the frame sorter copies the rest of a cut frame and hands the object back (`put 1 0`), but keeps the callback and
hands it back AGAIN when the entry is consumed (second `put 1 0`): the pool now holds object 0 twice … -/
def doublePutOps : List Op :=
  [.get 1 0, .write 1 0 [10, 11, 12], .put 1 0, .put 1 0, .get 2 0, .write 2 0 [20, 21, 22], .get 3 0, .write 3 0 [66]]

/-- … the history is not disciplined (exactly what the monitor reports), two holders own object 0, and holder 3 has
overwritten the bytes holder 2 is about to deliver -/
theorem double_put_shares_object :
    (({} : Pool).run doublePutOps).2 = false ∧
    (2, 0) ∈ (({} : Pool).run doublePutOps).1.held ∧ (3, 0) ∈ (({} : Pool).run doublePutOps).1.held ∧
    (({} : Pool).run doublePutOps).1.mem 0 = [66] := by decide

/-- every step of the bad history but the second `put` is disciplined -/
example : (({} : Pool).run (doublePutOps.take 3)).2 = true ∧
    ((({} : Pool).run (doublePutOps.take 3)).1.step (.put 1 0)).2 = false := by decide

end Uquic.Props.C01Pool
