/-
Property C14 — the GLUE between the token decision and the connection (round 4).

`Props.C14` proves what `DecodeToken` / `validateToken` / `handleInitial` compute for ONE packet, and what a sent
packet handler does once it was constructed with a given `clientAddressValidated`.  The theorems here are about
`Model.RetryGlue`: a server that handles ANY sequence of Initial packets (any tokens, addresses, clocks, Retry
policy answers — i.e. any interleaving of any number of clients), creates connections with the real hand-over
(`origDestConnID` by value, `retrySrcConnID` as a POINTER into the decoded `*Token`, `clientAddressValidated` into
`NewSentPacketHandler`), and whose connections read their transport parameters LATER, after the server has decoded
arbitrarily many other tokens.

* `retry_cids_history_independent`  at the end of every packet sequence, what each connection would put into its
                                    transport parameters (original_destination_connection_id,
                                    retry_source_connection_id) and its validated flag are a function of ITS OWN
                                    packet alone: the list over all connections equals the per-packet pure decisions;
* `later_packets_change_nothing`    … in particular the connections of a prefix read the same after any suffix;
* `issued_retry_cids_at_use`        composition with `C14.retry_token_accepted`: the connection created for an issued
                                    Retry token reads exactly the connection IDs the token was issued with, whatever
                                    was decoded before and after it;
* `scratch_rewrite_breaks_it`       kernel-checked witness that the statement is FALSE for the allocation-free
                                    rewrite of DecodeToken (`Alloc.scratch`): two Retry handshakes, the first
                                    connection reads the second client's retry_source_connection_id;
* `conn_starts_as_decided`          every connection's handler is `NewSentPacketHandler(clientAddressValidated :=
                                    the pure decision's flag)`: validated iff the decision was `proceed true`;
* `validated_conn_has_address_proof` (ideal AEAD) a connection that STARTS validated was created for a packet whose
                                    token is an output of the protector under this key, sealed for the packet's own
                                    remote address, within the lifetime of its kind;
* `unvalidated_conn_starts_limited` a connection that starts unvalidated answers SendNone to every mode before a byte
                                    is credited, and every disciplined history of its handler satisfies the wire
                                    form of the 3x bound (composition with `C14.amplification_bound_wire`).

Tie to the code: token driver ops `cinit` (real Transport/baseServer.handleInitialImpl + the REAL newConnection,
observed by the hook `quic.VerifAmpOnNewConn`: arguments and the new handler's behaviour) and `decode2` (two
DecodeToken calls, first result re-read); driver `retrye2e` (real server, several real clients, handshakes paused
at the ClientHello so that other tokens are decoded in between; clients report the transport parameters they got).
Helper lemmas: Uquic/Proofs/RetryGlue.lean.
-/
import Uquic.Props.C14
import Uquic.Proofs.RetryGlue

namespace Uquic.Props.C14Glue

open Uquic.Model.Tok Uquic.Model.Amp Uquic.Model.RetryGlue Uquic.Proofs.RetryGlue Uquic.Spec.AmpMon

abbrev grun := Uquic.Model.RetryGlue.run

/-- (odcid, retry_source_connection_id, validated) of every connection, read in the FINAL server state -/
def finalViews (al : Alloc) (cfg : Cfg) (pkts : List IPkt) : List (Bytes × Option Bytes × Bool) :=
  (grun al cfg pkts).conns.map fun c => ((paramsAtUse (grun al cfg pkts) c).1, (paramsAtUse (grun al cfg pkts) c).2, c.av)

theorem finalViews_eq (al : Alloc) (cfg : Cfg) (pkts : List IPkt) :
    finalViews al cfg pkts = (grun al cfg pkts).conns.map (view (grun al cfg pkts).heap) := rfl

/-- `retry_cids_history_independent` -/
theorem retry_cids_history_independent (cfg : Cfg) (pkts : List IPkt) :
    finalViews .fresh cfg pkts = pureConns cfg pkts := by
  rw [finalViews_eq]; exact (inv_run cfg pkts).views

/-- `later_packets_change_nothing`: the connections created while `pre` was handled read, after ANY further
packets `suf`, exactly what they read right after `pre` (and they are still the first connections) -/
theorem later_packets_change_nothing (cfg : Cfg) (pre suf : List IPkt) :
    finalViews .fresh cfg (pre ++ suf) = finalViews .fresh cfg pre ++ finalViews .fresh cfg suf := by
  simp only [retry_cids_history_independent, pureConns, List.filterMap_append]

/-- the hypotheses of the next theorem are satisfiable, and the statement is not about empty lists: with a toy
protector (identity "encryption", a codec that reads the connection IDs out of the plaintext) two Retry clients
are served and each connection reads its own IDs at the end -/
def toyCodec : Codec where
  enc := fun f => f.odcid ++ f.rscid
  dec := fun d => some { isRetryToken := true, remoteAddr := encodeRemoteAddr (.udp [10, 0, 0, 1] 0 []), timestamp := 0, rtt := 0,
                         odcid := d.take 1, rscid := d.drop 1 }

def toyCfg : Cfg :=
  { E := { aeadSeal := fun _ _ d => d, aeadOpen := fun _ _ c => some c }, C := toyCodec, secret := [], maxTokenAge := 10, maxRetryAge := 10 }

def toyNonce : Bytes := List.replicate 32 0

def toyPkt (odcid rscid : UInt8) : IPkt :=
  { hdrToken := toyNonce ++ [odcid, rscid], hdrDCID := [9], remote := .udp [10, 0, 0, 1] 4242 [], now := 5, wantsRetry := true }

example : finalViews .fresh toyCfg [toyPkt 1 2, toyPkt 3 4] = [([1], some [2], true), ([3], some [4], true)] := by decide

/-- `scratch_rewrite_breaks_it`: with a DecodeToken that decodes into a generator-owned Token and returns a pointer
to it, the FIRST client's connection reads the SECOND client's retry_source_connection_id — the model tells the two
implementations apart, so `retry_cids_history_independent` is a statement about the allocation in DecodeToken -/
theorem scratch_rewrite_breaks_it :
    finalViews .scratch toyCfg [toyPkt 1 2, toyPkt 3 4] = [([1], some [4], true), ([3], some [4], true)] ∧
    finalViews .scratch toyCfg [toyPkt 1 2, toyPkt 3 4] ≠ pureConns toyCfg [toyPkt 1 2, toyPkt 3 4] := by decide

/-- `issued_retry_cids_at_use`: a Retry token issued by this server for `a` with (odcid, rscid), presented from the
same host within the Retry lifetime as the `k`-th accepted packet, among ANY other packets before and after it:
the connection created for it is the `k`-th, starts validated, and at the end of the whole sequence still reads
exactly (odcid, rscid). -/
theorem issued_retry_cids_at_use (cfg : Cfg) (hc : cfg.E.Correct) (hr : cfg.C.RoundTrip)
    (pre suf : List IPkt) (p : IPkt) (nonce : Bytes) (a : Addr) (odcid rscid : Bytes) (issued : Int)
    (hn : nonce.length = tokenNonceSize) (ho : odcid.length ≤ maxConnectionIDLen) (hs : rscid.length ≤ maxConnectionIDLen)
    (htok : p.hdrToken = newRetryToken cfg.E cfg.C cfg.secret nonce a odcid rscid issued)
    (hsame : Uquic.Proofs.Tok.SameHost p.remote a) (hage : p.now - issued ≤ cfg.maxRetryAge) :
    (finalViews .fresh cfg (pre ++ p :: suf))[(pureConns cfg pre).length]? = some (odcid, some rscid, true) := by
  rw [retry_cids_history_independent]
  have hp : decide1 cfg p = .proceed true odcid (some rscid) 0 := by
    unfold decide1; rw [htok]
    exact Uquic.Props.C14.retry_token_accepted cfg.E cfg.C hc hr cfg.secret nonce p.hdrDCID a p.remote odcid rscid issued p.now
      cfg.maxTokenAge cfg.maxRetryAge p.wantsRetry hn ho hs hsame hage
  have : pureConns cfg (pre ++ p :: suf) = pureConns cfg pre ++ (odcid, some rscid, true) :: pureConns cfg suf := by
    simp [pureConns, List.filterMap_append, hp, pureConn]
  rw [this, List.getElem?_append_right (Nat.le_refl _)]
  simp

/-- `conn_starts_as_decided`: the handler of every connection is the constructor's result for the decision's flag;
a server connection is validated at creation iff `handleInitialImpl` passed `clientAddressValidated = true` -/
theorem conn_starts_as_decided (cfg : Cfg) (pkts : List IPkt) :
    ∀ c ∈ (grun .fresh cfg pkts).conns, c.h = H.new .server c.av ∧ c.h.validated = c.av ∧
      c.h.bytesSent = 0 ∧ c.h.bytesReceived = 0 := by
  intro c hc
  have := (inv_run cfg pkts).handlers c hc
  rw [this]
  simp [H.new]

/-- every connection corresponds to a packet whose pure decision was `proceed` with the connection's flag -/
theorem conn_has_packet (cfg : Cfg) (pkts : List IPkt) :
    ∀ c ∈ (grun .fresh cfg pkts).conns, ∃ p ∈ pkts, ∃ o r rtt, decide1 cfg p = .proceed c.av o r rtt := by
  intro c hc
  have hv := (inv_run cfg pkts).views
  have hmem : view (grun .fresh cfg pkts).heap c ∈ pureConns cfg pkts := by
    rw [← hv]; exact List.mem_map_of_mem hc
  unfold pureConns at hmem
  rw [List.mem_filterMap] at hmem
  obtain ⟨p, hp, hpc⟩ := hmem
  refine ⟨p, hp, ?_⟩
  cases hd : decide1 cfg p with
  | proceed av o r rtt =>
    rw [hd] at hpc
    simp only [pureConn, Option.some.injEq] at hpc
    have : av = c.av := by
      have := congrArg (fun t => t.2.2) hpc
      simpa [view] using this
    exact ⟨o, r, rtt, by rw [this]⟩
  | invalidToken => rw [hd] at hpc; simp [pureConn] at hpc
  | retry => rw [hd] at hpc; simp [pureConn] at hpc
  | panic => rw [hd] at hpc; simp [pureConn] at hpc

/-- `validated_conn_has_address_proof` (IDEAL AEAD): a connection whose handler starts out validated — i.e. without
the 3x limit — exists only for a packet whose token bytes are an output of the protector under this server's key,
whose sealed struct carries the encoding of THAT packet's remote address, and whose issue time lies within the
lifetime of its kind at the packet's arrival.  A Retry token for another address, an expired one, a NEW_TOKEN token
for another host, a mangled or foreign-key token never give a validated connection, whatever the Retry policy
answered for the packet. -/
theorem validated_conn_has_address_proof (cfg : Cfg) (hi : cfg.E.Ideal) (pkts : List IPkt) :
    ∀ c ∈ (grun .fresh cfg pkts).conns, c.h.validated = true →
      ∃ p ∈ pkts, ∃ nonce data f, nonce.length = tokenNonceSize ∧ p.hdrToken = protect cfg.E cfg.secret nonce data ∧
        cfg.C.dec data = some f ∧ f.remoteAddr = encodeRemoteAddr p.remote ∧
        p.now - f.timestamp ≤ (if f.isRetryToken then cfg.maxRetryAge else cfg.maxTokenAge) := by
  intro c hc hv
  have hav : c.av = true := by rw [← (conn_starts_as_decided cfg pkts c hc).2.1]; exact hv
  obtain ⟨p, hp, o, r, rtt, hd⟩ := conn_has_packet cfg pkts c hc
  rw [hav] at hd
  obtain ⟨nonce, data, f, hn, htok, hdec, haddr, hage, _⟩ :=
    Uquic.Props.C14.address_proof_requires_issued_token cfg.E cfg.C hi cfg.secret p.hdrToken p.hdrDCID p.remote p.now
      cfg.maxTokenAge cfg.maxRetryAge p.wantsRetry o r rtt hd
  exact ⟨p, hp, nonce, data, f, hn, htok, hdec, haddr, hage⟩

/-- `unvalidated_conn_starts_limited`: a connection created without address proof may not send anything before a
byte is credited to it (every SendMode answer is SendNone: PTO probes and ACK-only packets included), and EVERY
disciplined history of its handler keeps the wire within the 3x rule. -/
theorem unvalidated_conn_starts_limited (cfg : Cfg) (pkts : List IPkt) :
    ∀ c ∈ (grun .fresh cfg pkts).conns, c.av = false →
      c.h.isAmplificationLimited = true ∧ (∀ wants, c.h.sendMode wants = .none) ∧
      (∀ ops, (Uquic.Model.Amp.run .server c.av ops).disciplined = true → wireOk c.h.validated (wireOfCalls c.h ops) = true) := by
  intro c hc hav
  obtain ⟨hh, hv, hs, hr⟩ := conn_starts_as_decided cfg pkts c hc
  have hlim : c.h.isAmplificationLimited = true := by
    unfold H.isAmplificationLimited; rw [hv, hav, hs, hr]; simp
  refine ⟨hlim, ?_, ?_⟩
  · intro wants; unfold H.sendMode; rw [hlim]; rfl
  · intro ops hd
    rw [hh]
    exact Uquic.Props.C14.amplification_bound_wire c.av ops hd

/-- the two cooperating edits of a seeded change (validated whenever a Retry source connection ID is present;
stale Retry tokens ignored instead of refused) are outside this model: here the flag is the decision's flag -/
example : (finalViews .fresh toyCfg [{ toyPkt 1 2 with remote := .udp [10, 0, 0, 2] 4242 [] , wantsRetry := false }]) = [] := by decide

end Uquic.Props.C14Glue
