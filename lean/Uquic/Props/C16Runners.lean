/-
Property C16, continued — a connection that is registered with SEVERAL transports.

"… packets are routed to the connection for precisely its issued and not yet expired connection IDs, and after the
connection closes every one of its connection IDs is removed once the closing period ends" was proved in `Props.C16`
(`routing_exact`, `clean_after_close`) for the transport the connection was set up on.  A client that probes or migrates
to another path (`Conn.AddPath` → `connIDGenerator.AddConnRunner`, connection.go / conn_id_generator.go) is registered
with more transports; `connRunners` fans every AddConnectionID / RemoveConnectionID / ReplaceWithClosed callback out to
all of them, and a transport added late never hears of the IDs that were retired before (they are still in
`connIDsToRetire` and reach it with RemoveConnectionID / in the ReplaceWithClosed list all the same).

Model: `Model.ConnID.Runners` (generator + a list of runners, each with its own `Routing` table; the slice of
`ReplaceWithClosed` as a window on ONE backing array that every runner is handed and keeps for its timer).
The theorems quantify over ALL histories of generator operations (issuing, RETIRE_CONNECTION_ID, handshake completion,
sweeps of expired IDs), `AddConnRunner` calls for any transport, and time passing, in any order:

* `runner_routing`               on EVERY transport a packet reaches the connection only for an issued, unexpired ID;
                                 on every transport the connection is registered with, every ID in use (not retired)
                                 reaches it; a transport it is not registered with routes nothing to it;
* `first_runner_exact`           the first transport routes exactly the generator's IDs (= `C16.routing_exact`);
* `all_runners_clean_after_close` RemoveAll leaves no entry on any transport; ReplaceWithClosed leaves only closed
                                 stand-ins (no packet reaches a connection on any transport) and after the closing period
                                 NO transport holds any entry or pending timer — whatever was retired before or after which
                                 path was added;
* `replace_fanout_pointwise`, `shared_list_untouched`, `fan_order_irrelevant`
                                 the faithful ReplaceWithClosed only reads the caller's slice: every runner is handed,
                                 installs and later removes exactly the generator's list, so the (random) order in which
                                 Go walks the `connRunners` map does not matter;
* `compacting_rewrite_leaks`     kernel-checked witness that the model tells the faithful implementation from the
                                 tempting rewrite "keep only the IDs this transport routes, filtered in place
                                 (`ids[:0]`)": there one transport's compaction overwrites the list another transport
                                 keeps for its timer, and that transport routes a retired ID for ever.

Tie to the code: driver `cidmr` (real connIDGenerator, 2..4 real packetHandlerMaps wired as Conn.AddPath does, fake time;
every order of retire / add-path / sweep / close enumerated, plus random histories) with the monitors of
`Spec.CidRunnersMon`; end to end: driver `cide2e` scenarios with a second client transport (AddPath, Probe, Switch).
Helper lemmas: Uquic/Proofs/ConnIDRunners.lean.
-/
import Uquic.Props.C16
import Uquic.Proofs.ConnIDRunners

namespace Uquic.Props.C16Runners
open Uquic.Model.ConnID Uquic.Proofs.ConnID Uquic.Props.C16

theorem start_table (initial : Bytes) (cd : Option Bytes) :
    (initial :: cd.toList).foldl Routing.add ({} : Routing) = initialRouting initial cd := by
  cases cd <;> rfl

/-- connection setup satisfies the invariant -/
theorem start_minv (mk : Nat → Bytes) (idLen : Nat) (initial : Bytes) (cd : Option Bytes) (n : Nat) (hne : cd ≠ some initial) :
    MInv mk (initial :: cd.toList) (MSys.new idLen initial cd n) := by
  refine ⟨⟨_, _, rfl, rfl, ?_⟩, ?_⟩
  · simp only [MSys.new]
    rw [start_table]
    exact initial_rinv mk idLen initial cd hne
  · intro r hr
    simp only [MSys.new, List.mem_cons, List.mem_replicate] at hr
    have h0 := initial_rinv mk idLen initial cd hne
    rcases hr with rfl | ⟨_, rfl⟩
    · simp only [start_table]
      refine ⟨h0.map, fun x hx => (h0.exact x).mp hx, by intro h; simp at h, ?_⟩
      intro _ x hx
      exact (h0.exact x).mpr (currentIDs_sub_allIDs _ x hx)
    · refine ⟨⟨by simp, by simp [keysOf], rfl⟩, by simp [keysOf], fun _ => rfl, by intro h; simp at h⟩

/-- the state after a history -/
def after (mk : Nat → Bytes) (idLen : Nat) (initial : Bytes) (cd : Option Bytes) (n : Nat) (ops : List MOp) : MSys :=
  (MSys.new idLen initial cd n).run mk ops

theorem after_minv (mk : Nat → Bytes) (idLen : Nat) (initial : Bytes) (cd : Option Bytes) (n : Nat) (hne : cd ≠ some initial)
    (hf : FreshGen mk (initial :: cd.toList)) (ops : List MOp) :
    MInv mk (initial :: cd.toList) (after mk idLen initial cd n ops) :=
  run_minv hf ops (start_minv mk idLen initial cd n hne)

theorem deliver_conn_of_key {r : Routing} (hm : MapOK r) {id : Bytes} (hk : id ∈ keysOf r) :
    (r.deliver id).2 = Delivery.conn 0 := by
  obtain ⟨kv, hkv, rfl⟩ := List.mem_map.mp hk
  have hconn := hm.allConn kv hkv
  have hl : lookupH kv.1 r.handlers = some (Handler.conn 0) := by
    apply lookupH_of_mem hm.nodup
    rw [← hconn]
    exact hkv
  unfold Routing.deliver
  rw [hl]

theorem key_of_deliver_conn {r : Routing} {id : Bytes} {c : Nat} (hd : (r.deliver id).2 = Delivery.conn c) :
    id ∈ keysOf r := by
  unfold Routing.deliver at hd
  split at hd
  · cases hd
  · rename_i hl
    exact List.mem_map.mpr ⟨_, lookupH_some_mem hl, rfl⟩
  · cases hd
  · cases hd

/-- Routing with several transports, for every history (generator operations, `AddConnRunner` for any transport, time
    passing — in any order): on every transport of the application a packet is handed to the connection only if its
    destination connection ID is one the generator still answers for (issued, not yet expired — never a foreign or an
    expired one); on every transport the connection is registered with, a packet for any connection ID that is in use
    (the client's original destination ID until the handshake completes, every issued and not retired ID) IS handed to
    it — in particular on a path added after IDs were retired and replaced; and a transport the connection is not
    registered with hands it nothing. -/
theorem runner_routing (mk : Nat → Bytes) (idLen : Nat) (initial : Bytes) (cd : Option Bytes) (n : Nat) (hne : cd ≠ some initial)
    (hf : FreshGen mk (initial :: cd.toList)) (ops : List MOp) :
    let s := after mk idLen initial cd n ops
    ∀ r ∈ s.runners, ∀ id,
      (∀ c, (r.table.deliver id).2 = Delivery.conn c → c = 0 ∧ id ∈ s.g.allIDs) ∧
      (r.registered = true → id ∈ s.g.currentIDs → (r.table.deliver id).2 = Delivery.conn 0) ∧
      (r.registered = false → (r.table.deliver id).2 = Delivery.none) := by
  intro s r hr id
  have ok := (after_minv mk idLen initial cd n hne hf ops).all r hr
  refine ⟨?_, ?_, ?_⟩
  · intro c hd
    have hk := key_of_deliver_conn hd
    have := deliver_conn_of_key ok.map hk
    rw [this] at hd
    exact ⟨by cases hd; rfl, ok.sub id hk⟩
  · intro hreg hid
    exact deliver_conn_of_key ok.map (ok.cur hreg id hid)
  · intro hreg
    exact (unregistered_stays_empty (ok.unreg hreg) ok.map.noTimers 0).2.2 id

/-- The transport the connection was set up on keeps routing exactly the generator's connection IDs, whatever happens
    on the other transports. -/
theorem first_runner_exact (mk : Nat → Bytes) (idLen : Nat) (initial : Bytes) (cd : Option Bytes) (n : Nat) (hne : cd ≠ some initial)
    (hf : FreshGen mk (initial :: cd.toList)) (ops : List MOp) :
    let s := after mk idLen initial cd n ops
    ∃ r0 rest, s.runners = r0 :: rest ∧ r0.registered = true ∧
      ∀ id, (r0.table.deliver id).2 = Delivery.conn 0 ↔ id ∈ s.g.allIDs := by
  intro s
  obtain ⟨r0, rest, hrs, hreg, h0⟩ := (after_minv mk idLen initial cd n hne hf ops).first
  refine ⟨r0, rest, hrs, hreg, ?_⟩
  intro id
  constructor
  · intro hd; exact (h0.exact id).mp (key_of_deliver_conn hd)
  · intro hin; exact deliver_conn_of_key h0.map ((h0.exact id).mpr hin)

/-- The faithful `ReplaceWithClosed` fan-out is a pointwise map: every registered runner performs its own
    `replaceWithClosed` with exactly the list the generator built. -/
theorem replace_fanout_pointwise (s : MSys) (localClose : Bool) (expiry : Int) :
    s.replaceWithClosed .faithful localClose expiry =
      (s.g.allIDs, s.runners.map (mapTable fun t => t.replaceWithClosed s.g.allIDs localClose expiry)) :=
  fanReplace_faithful localClose expiry s.g.allIDs s.runners

/-- No runner writes to the slice it is handed: after the fan-out it reads what the generator put there, and the timer
    of every registered runner was armed with — and will at expiry remove — exactly that list. -/
theorem shared_list_untouched (s : MSys) (localClose : Bool) (expiry : Int) :
    (s.replaceWithClosed .faithful localClose expiry).1 = s.g.allIDs ∧
    ∀ r ∈ s.runners, r.registered = true → ∃ r' ∈ (s.replaceWithClosed .faithful localClose expiry).2,
      r'.table.timers = r.table.timers ++ [(r.table.now + expiry, s.g.allIDs, closedHandler r.table localClose)] := by
  rw [replace_fanout_pointwise]
  refine ⟨rfl, ?_⟩
  intro r hr hreg
  refine ⟨_, List.mem_map.mpr ⟨r, hr, rfl⟩, ?_⟩
  simp [mapTable, hreg, Routing.replaceWithClosed, closedHandler]

/-- Go walks the `connRunners` map in random order; for the faithful implementation the order is irrelevant. -/
theorem fan_order_irrelevant (ids : List Bytes) (rs rs' : List Runner) (hp : rs'.Perm rs) (localClose : Bool) (expiry : Int) :
    (fanReplace .faithful localClose expiry ids rs').1 = (fanReplace .faithful localClose expiry ids rs).1 ∧
    (fanReplace .faithful localClose expiry ids rs').2.Perm (fanReplace .faithful localClose expiry ids rs).2 := by
  rw [fanReplace_faithful, fanReplace_faithful]
  exact ⟨rfl, hp.map _⟩

/-- After the connection closes, EVERY transport it was ever registered with forgets it: for every history (any order of
    RETIRE_CONNECTION_ID frames, added paths, sweeps; any number of transports)
    * `RemoveAll` (immediate close) leaves no entry on any transport;
    * `ReplaceWithClosed` (closing / draining period): on every transport no packet reaches a connection any more, every
      connection ID of the connection — also those a late transport never routed — maps to the closed stand-in on every
      registered transport, and once the closing period is over NO transport holds an entry or a pending timer. -/
theorem all_runners_clean_after_close (mk : Nat → Bytes) (idLen : Nat) (initial : Bytes) (cd : Option Bytes) (n : Nat)
    (hne : cd ≠ some initial) (hf : FreshGen mk (initial :: cd.toList)) (ops : List MOp) (localClose : Bool) (expiry : Int) :
    let s := after mk idLen initial cd n ops
    let closed := (s.replaceWithClosed .faithful localClose expiry).2
    (∀ r ∈ s.removeAll, r.table.handlers = []) ∧
    (∀ r ∈ closed, ∀ id c, (r.table.deliver id).2 ≠ Delivery.conn c) ∧
    (∀ r ∈ s.runners, r.registered = true → ∀ id ∈ s.g.allIDs,
        lookupH id (r.table.replaceWithClosed s.g.allIDs localClose expiry).handlers = some (closedHandler r.table localClose)) ∧
    (∀ d, expiry ≤ d → ∀ r ∈ advanceAll d closed, r.table.handlers = [] ∧ r.table.timers = []) := by
  intro s closed
  have inv := after_minv mk idLen initial cd n hne hf ops
  have hclosed : closed = s.runners.map (mapTable fun t => t.replaceWithClosed s.g.allIDs localClose expiry) := by
    simp only [closed, replace_fanout_pointwise]
  refine ⟨?_, ?_, ?_, ?_⟩
  · intro r' hr'
    simp only [MSys.removeAll, fanAll_eq] at hr'
    obtain ⟨r, hr, rfl⟩ := List.mem_map.mp hr'
    exact removeAll_runner_clean (inv.all r hr)
  · intro r' hr' id c
    rw [hclosed] at hr'
    obtain ⟨r, hr, rfl⟩ := List.mem_map.mp hr'
    have ok := inv.all r hr
    by_cases hreg : r.registered = true
    · simp only [mapTable, hreg, ↓reduceIte]
      exact (replace_clean_sub ok.map s.g.allIDs ok.sub localClose expiry).2.1 id c
    · have hreg' : r.registered = false := by simpa using hreg
      simp only [mapTable, hreg', Bool.false_eq_true, ↓reduceIte]
      rw [(unregistered_stays_empty (ok.unreg hreg') ok.map.noTimers 0).2.2 id]
      simp
  · intro r hr _ id hid
    have ok := inv.all r hr
    exact (replace_clean_sub ok.map s.g.allIDs ok.sub localClose expiry).1 id hid
  · intro d hd r'' hr''
    simp only [advanceAll] at hr''
    obtain ⟨r', hr', rfl⟩ := List.mem_map.mp hr''
    rw [hclosed] at hr'
    obtain ⟨r, hr, rfl⟩ := List.mem_map.mp hr'
    have ok := inv.all r hr
    by_cases hreg : r.registered = true
    · simp only [mapTable, hreg, ↓reduceIte]
      exact (replace_clean_sub ok.map s.g.allIDs ok.sub localClose expiry).2.2 d hd
    · have hreg' : r.registered = false := by simpa using hreg
      simp only [mapTable, hreg', Bool.false_eq_true, ↓reduceIte]
      have := unregistered_stays_empty (ok.unreg hreg') ok.map.noTimers d
      exact ⟨this.1, this.2.1⟩

/-! ## the hypotheses are satisfiable, the situations are reachable, and the model can tell a broken fan-out -/

def sampleMk : Nat → Bytes := fun k => [100 + k]

/-- the peer retires ID 1, the application adds a path on transport 1, the peer retires ID 2 -/
def sampleOps : List MOp :=
  [.gen (.setMax 4), .gen (.retire 1 [1] 100), .addRunner 1, .gen (.retire 2 [1] 200), .addRunner 2, .addRunner 1]

example : FreshGen sampleMk [[1]] :=
  ⟨by intro a b h; simp [sampleMk] at h; omega, by intro k; simp [sampleMk]; omega⟩

/-- reachable: a registered transport that never routed a connection ID the generator still answers for -/
example : ((after sampleMk 4 [1] none 2 sampleOps).runners.map fun r => (r.registered, keysOf r.table)) =
    [(true, [[1], [100], [101], [102], [103], [104]]), (true, [[1], [101], [102], [103], [104]]), (true, [[1], [102], [103], [104]])] := by
  decide

example : (after sampleMk 4 [1] none 2 sampleOps).g.allIDs = [[1], [102], [103], [104], [100], [101]] := by decide

/-- with the faithful implementation every transport is clean after the closing period (an instance of the theorem) -/
example : (advanceAll 500 ((after sampleMk 4 [1] none 2 sampleOps).replaceWithClosed .faithful true 500).2).map
    (fun r => r.table.handlers) = [[], [], []] := by decide

/-- The same history with the in-place compaction.  The generator's list is `[1], [102], [103], [104], [100], [101]`.
    Transport 0 routes all of it.  Transport 1 was added after `[100]` had been retired: it compacts the SHARED array to
    `[1], [102], [103], [104], [101], [101]` (window of 5).  Transport 0's timer was armed with the window of 6 on the same
    array, so at expiry it removes `[101]` twice and `[100]` never: transport 0 routes the retired connection ID `[100]`
    to the closed stand-in for ever.  So `all_runners_clean_after_close` does distinguish the two implementations. -/
theorem compacting_rewrite_leaks :
    ∃ r ∈ advanceAll 500 ((after sampleMk 4 [1] none 2 sampleOps).replaceWithClosed .compacting true 500).2,
      r.table.handlers ≠ [] := by
  decide

/-- … and the slice does not come back as it was handed out -/
theorem compacting_rewrite_modifies_shared_list :
    ((after sampleMk 4 [1] none 2 sampleOps).replaceWithClosed .compacting true 500).1 ≠
      (after sampleMk 4 [1] none 2 sampleOps).g.allIDs := by
  decide

end Uquic.Props.C16Runners
