/-
C13, round 4 — the glue between the packet gate and the rest of the connection.

1. Initial keys (`Uquic.Model.Handshake.KeyLife`: connection.go `sendPackedCoalescedPacket`,
   `handleUnpackedLongHeaderPacket`, `handleHandshakeConfirmed`): a client that has put a Handshake packet
   on the wire — at ANY position of a coalesced datagram — no longer has Initial keys, and from then on the
   gate drops every Initial packet, whoever sealed it (the Initial keys are public): a forged Initial
   packet cannot change the outcome of the handshake any more.  Same for a server that has unpacked a
   Handshake packet.
2. Retry and early data (`Uquic.Model.Handshake.RetryReset`: sent_packet_handler.go `ResetForRetry`):
   accepting a Retry hands every frame of every packet in flight — control frames AND STREAM frames, of
   Initial and of 0-RTT packets — back to its owner exactly as often as it was carried, and forgets the
   packets, so that early data sent before the Retry is sent again (once) afterwards.

Property theorems only; the models are tied to the code by the `gate` driver (every datagram the client
sends is fed to `sendDatagram`, whose prediction of the Initial key state must match what the real crypto
setup answers; resumption scenarios with Retry check the delivery of the early data end to end).
-/
import Uquic.Model.Handshake.KeyLife
import Uquic.Model.Handshake.RetryReset

namespace Uquic.Props.C13Glue
open Uquic.Model.Handshake Uquic.Model.Handshake.KeyLife

/-! ## 1. Initial keys -/

theorem sentLong_mono (s : KeySt) (l : Level) (h : s.droppedInitial = true) : (sentLong s l).droppedInitial = true := by
  unfold sentLong; split <;> simp_all

theorem sentLong_perspective (s : KeySt) (l : Level) : (sentLong s l).perspective = s.perspective := by
  unfold sentLong; split <;> rfl

theorem sendDatagram_mono (s : KeySt) (ls : List Level) (h : s.droppedInitial = true) :
    (sendDatagram s ls).droppedInitial = true := by
  induction ls generalizing s with
  | nil => exact h
  | cons l rest ih =>
    unfold sendDatagram
    apply ih
    split
    · exact h
    · exact sentLong_mono s l h

theorem sendDatagram_perspective (s : KeySt) (ls : List Level) : (sendDatagram s ls).perspective = s.perspective := by
  induction ls generalizing s with
  | nil => rfl
  | cons l rest ih =>
    unfold sendDatagram
    rw [ih]
    split
    · rfl
    · exact sentLong_perspective s l

theorem step_mono (s : KeySt) (e : Ev) (h : s.droppedInitial = true) : (step s e).droppedInitial = true := by
  cases e with
  | send ls => exact sendDatagram_mono s ls h
  | unpacked l =>
    show (unpackedLong s l).droppedInitial = true
    unfold unpackedLong; split <;> simp_all
  | confirmed => rfl

theorem step_perspective (s : KeySt) (e : Ev) : (step s e).perspective = s.perspective := by
  cases e with
  | send ls => exact sendDatagram_perspective s ls
  | unpacked l =>
    show (unpackedLong s l).perspective = s.perspective
    unfold unpackedLong; split <;> rfl
  | confirmed => rfl

/-- Initial keys never come back. -/
theorem initial_keys_never_return (s : KeySt) (es : List Ev) (h : s.droppedInitial = true) :
    (run s es).droppedInitial = true := by
  induction es generalizing s with
  | nil => exact h
  | cons e es ih => exact ih _ (step_mono s e h)

theorem run_perspective (s : KeySt) (es : List Ev) : (run s es).perspective = s.perspective := by
  induction es generalizing s with
  | nil => rfl
  | cons e es ih => unfold run; rw [ih, step_perspective]

/-- A client datagram that contains a Handshake packet — first, last or in the middle, behind Initial
packets or alone — leaves the client without Initial keys. -/
theorem client_datagram_with_handshake_drops_initial_keys (s : KeySt) (ls : List Level)
    (hc : s.perspective = .client) (h : Level.handshake ∈ ls) : (sendDatagram s ls).droppedInitial = true := by
  induction ls generalizing s with
  | nil => cases h
  | cons l rest ih =>
    unfold sendDatagram
    rcases List.mem_cons.mp h with e | e
    · subst e
      apply sendDatagram_mono
      simp only [reduceCtorEq, ↓reduceIte]
      unfold sentLong
      by_cases hd : s.droppedInitial = true
      · simp [hd]
      · simp [hc, hd]
    · apply ih _ _ e
      split
      · exact hc
      · rw [sentLong_perspective]; exact hc

example : (sendDatagram {} [.initial, .handshake]).droppedInitial = true := by decide
example : (sendDatagram {} [.initial, .zeroRTT]).droppedInitial = false := by decide

/-- RFC 9001 §4.9.1, client: once ANY datagram with a Handshake packet was sent, the Initial keys are gone,
whatever is sent, received or confirmed before and after. -/
theorem initial_keys_dropped_once_handshake_sent (s : KeySt) (es : List Ev) (hc : s.perspective = .client)
    (h : ∃ ls, Ev.send ls ∈ es ∧ Level.handshake ∈ ls) : (run s es).droppedInitial = true := by
  induction es generalizing s with
  | nil => obtain ⟨_, h, _⟩ := h; cases h
  | cons e es ih =>
    obtain ⟨ls, hm, hh⟩ := h
    rcases List.mem_cons.mp hm with e1 | e1
    · subst e1
      exact initial_keys_never_return _ es (client_datagram_with_handshake_drops_initial_keys s ls hc hh)
    · exact ih (step s e) (by rw [step_perspective]; exact hc) ⟨ls, e1, hh⟩

/-- RFC 9001 §4.9.1, server: once a Handshake packet was unpacked, the Initial keys are gone. -/
theorem initial_keys_dropped_once_handshake_received (s : KeySt) (es : List Ev) (hs : s.perspective = .server)
    (h : Ev.unpacked .handshake ∈ es) : (run s es).droppedInitial = true := by
  induction es generalizing s with
  | nil => cases h
  | cons e es ih =>
    rcases List.mem_cons.mp h with e1 | e1
    · subst e1
      refine initial_keys_never_return (unpackedLong s .handshake) es ?_
      unfold unpackedLong
      by_cases hd : s.droppedInitial = true
      · simp [hd]
      · simp [hs, hd]
    · exact ih (step s e) (by rw [step_perspective]; exact hs) e1

/-- Without Initial keys the gate drops EVERY Initial packet and its state does not move — whether the
packet's AEAD would open (`opens`, a forger who derived the public Initial keys), whatever its connection
IDs, version and packet number are. -/
theorem initial_packet_inert_without_keys (g : GateState) (p : PacketSummary) (k : KeySt)
    (hk : k.droppedInitial = true) (hi : p.kind = .initial) (hp : p.keys = initialKeys k) :
    (gate g p).1 = g ∧ ∃ r, (gate g p).2 = .drop r := by
  have hkeys : p.keys = .dropped := by rw [hp]; unfold initialKeys; simp [hk]
  unfold gate
  rw [hi]
  simp only
  unfold gateLong
  split
  · exact ⟨rfl, _, rfl⟩
  · unfold handleLong
    rw [if_neg (by rw [hi]; decide)]
    split
    · exact ⟨rfl, _, rfl⟩
    · rw [if_neg (by rw [hi]; simp)]
      unfold unpack
      rw [hkeys]
      exact ⟨rfl, _, rfl⟩

example : ∃ (g : GateState) (p : PacketSummary) (k : KeySt), k.droppedInitial = true ∧ p.kind = .initial ∧
    p.keys = initialKeys k ∧ p.opens = true ∧ p.srcConnID = g.handshakeDestConnID ∧ g.receivedFirstPacket = true :=
  ⟨{ receivedFirstPacket := true }, { kind := .initial, keys := .dropped, opens := true }, { droppedInitial := true },
   rfl, rfl, rfl, rfl, rfl, rfl⟩

/-- The property-level statement: after the client has sent its first Handshake packet (anywhere in a
datagram), no sequence of Initial packets — genuine, replayed or forged with the public Initial keys — is
processed or moves the gate state. -/
theorem no_initial_processed_after_first_handshake_packet (k0 : KeySt) (hc : k0.perspective = .client) (es : List Ev)
    (h : ∃ ls, Ev.send ls ∈ es ∧ Level.handshake ∈ ls) (g : GateState) (ps : List PacketSummary)
    (hall : ∀ p ∈ ps, p.kind = .initial ∧ p.keys = initialKeys (run k0 es)) :
    (runPackets g ps).1 = g ∧ ∀ a ∈ (runPackets g ps).2, ∃ r, a = .drop r := by
  have hd := initial_keys_dropped_once_handshake_sent k0 es hc h
  induction ps generalizing g with
  | nil => exact ⟨rfl, fun a ha => by cases ha⟩
  | cons p ps ih =>
    obtain ⟨hi, hp⟩ := hall p (List.mem_cons_self ..)
    obtain ⟨h1, r, h2⟩ := initial_packet_inert_without_keys g p _ hd hi hp
    have ih' := ih (gate g p).1 (fun q hq => hall q (List.mem_cons_of_mem _ hq))
    unfold runPackets
    simp only
    rw [h1] at ih'
    rw [h1]
    refine ⟨ih'.1, ?_⟩
    intro a ha
    rcases List.mem_cons.mp ha with e | e
    · exact ⟨r, by rw [e, h2]⟩
    · exact ih'.2 a e

/-- Why the loop must look at every packet of the datagram: a rule that takes the level of the FIRST packet
for the level of the datagram keeps the Initial keys when the first Handshake packet travels behind the
Initial packet that acknowledges the ServerHello (the usual case). -/
theorem first_packet_rule_keeps_keys :
    ∃ ls, Level.handshake ∈ ls ∧ (sendDatagramFirstOnly {} ls).droppedInitial = false ∧
      (sendDatagram {} ls).droppedInitial = true :=
  ⟨[.initial, .handshake], by decide, by decide, by decide⟩

/-! ## 2. Retry with packets in flight (early data) -/

open Uquic.Model.Handshake.RetryReset

theorem requeue_eq (p : Packet) : requeue p = queueFrames p := by
  unfold requeue Packet.isAckEliciting queueFrames
  cases hf : p.frames <;> cases hs : p.streamFrames <;> simp

/-- Accepting a Retry hands back every frame of every Initial and 0-RTT packet in flight, each exactly as
often as it was carried, in order — nothing is skipped because of the kind of frame. -/
theorem retry_hands_back_every_frame (s : Sent) :
    s.resetForRetry.lost = s.lost ++ (s.initial ++ s.appData).flatMap queueFrames := by
  have e : requeue = queueFrames := funext requeue_eq
  unfold Sent.resetForRetry
  simp only [e, List.flatMap_append, List.append_assoc]

/-- … and forgets the packets: no acknowledgement or loss detection can hand a frame back a second time. -/
theorem retry_forgets_every_packet (s : Sent) :
    s.resetForRetry.initial = [] ∧ s.resetForRetry.appData = [] ∧ s.resetForRetry.bytesInFlight = 0 :=
  ⟨rfl, rfl, rfl⟩

/-- In particular the STREAM frames of 0-RTT packets (early data written before the Retry arrived) go back
to their streams. -/
theorem zero_rtt_stream_frame_handed_back (s : Sent) (p : Packet) (f : Nat) (hp : p ∈ s.appData)
    (hf : f ∈ p.streamFrames) : f ∈ s.resetForRetry.lost := by
  rw [retry_hands_back_every_frame]
  apply List.mem_append_right
  rw [List.mem_flatMap]
  exact ⟨p, List.mem_append_right _ hp, by unfold queueFrames; exact List.mem_append_right _ hf⟩

example : ({ appData := [{ pn := 1, streamFrames := [7] }] } : Sent).resetForRetry.lost = [7] := by decide

/-- Deciding "nothing to retransmit" by the control-frame slice alone loses early data: a 0-RTT packet
that carries only STREAM frames is forgotten without its frames being handed back. -/
theorem control_only_rule_loses_early_data :
    ∃ (s : Sent) (p : Packet) (f : Nat), p ∈ s.appData ∧ f ∈ p.streamFrames ∧ f ∉ s.resetForRetryControlOnly.lost :=
  ⟨{ appData := [{ pn := 1, streamFrames := [7] }] }, { pn := 1, streamFrames := [7] }, 7, by decide, by decide, by decide⟩

end Uquic.Props.C13Glue
