/-
C09, continued — Initial CRYPTO framing always carries the complete ClientHello at true offsets.

Property theorems that close gaps left by Uquic/Props/C09.lean (helper lemmas:
Uquic/Proofs/FramesMore*.lean):

1. `randomFrames_counts_in_bounds` — the frame COUNTS of QUICRandomFrames (PING / CRYPTO / PADDING)
   lie in the configured intervals after the documented clamping, for every parameterisation, every
   ClientHello slice, every draw and every shuffle; the monitor `countsOk` (rf_counts / mf_counts) is a
   consequence.
2. `layoutTiles_iff_TilesAt` — the monitor's executable `layoutTiles` is the theorem hypothesis
   `TilesAt` (plus the representability side conditions `TilesAt` also carries), and
   `layoutTiles_carries` states what the monitor `qf_carries` checks, for its whole firing domain.
3. `scrambler_carries_interleaved` — Writes interleaved with pops while scrambling.
-/
import Uquic.Props.C09
import Uquic.Proofs.FramesMoreCounts
import Uquic.Proofs.FramesMoreTiles
import Uquic.Proofs.FramesMoreStream

namespace Uquic.Props.C09More
open Uquic.Spec.Framing Uquic.Spec.FramingMon Uquic.Model.UQuic.Frames
open Uquic.Proofs.Frames Uquic.Proofs.FramesMore Uquic.Props.C09

/-! ## 1. frame counts of QUICRandomFrames / QUICMultiDatagramFrames -/

/-- The documented intervals. `pings`, `cryptos`: frames of that type on the wire. `pads`: PADDING
    entries of the plan (on the wire a PADDING entry of `l` bytes is `l` one-byte PADDING frames and
    adjacent entries merge, so the number of entries is a fact about the plan); `padBytes`: PADDING
    bytes on the wire; `dryLen`: length of the dry run (PING + CRYPTO frames at base offset 0).

    * PING: `numPING` is drawn from `[MinPING, MaxPING)` (`= MinPING` for a degenerate range).
    * CRYPTO: `numCRYPTO` is drawn from `[MinCRYPTO, MaxCRYPTO)` and clamped to `[1, len(cryptoData)]`
      ("every CRYPTO frame needs at least one byte"); an empty slice gives the single frame `{0,0}`.
    * PADDING: none if `Length` is already reached by the dry run; otherwise `numPADDING` is drawn from
      `[MinPADDING, MaxPADDING)` and clamped to `[1, Length - dryLen]`, and the PADDING bytes make up
      exactly the difference. -/
structure CountsInBounds (c : RFCfg) (n pings cryptos pads padBytes dryLen : Nat) : Prop where
  ping : c.minPing ≤ pings ∧ pings ≤ c.maxPing ∧ (pings < c.maxPing ∨ pings = c.minPing)
  cryptoEmpty : n = 0 → cryptos = 1
  crypto : 0 < n → min (max c.minCrypto 1) n ≤ cryptos ∧ cryptos ≤ min (max c.maxCrypto 1) n ∧
    (cryptos ≤ min (max (c.maxCrypto - 1) 1) n ∨ cryptos = min (max c.minCrypto 1) n)
  noPad : c.length ≤ dryLen → pads = 0 ∧ padBytes = 0
  pad : dryLen < c.length →
    min (max c.minPad 1) (c.length - dryLen) ≤ pads ∧ pads ≤ min (max c.maxPad 1) (c.length - dryLen) ∧
      padBytes = c.length - dryLen

theorem ping_arith {mn mx v : Nat} (h : InDraw mn mx v) (hb : mn ≤ mx) :
    mn ≤ v ∧ v ≤ mx ∧ (v < mx ∨ v = mn) := by
  unfold InDraw at h; omega

theorem crypto_arith {mn mx nc n k : Nat} (h : InDraw mn mx nc) (hb : mn ≤ mx)
    (hk : k = min (max nc 1) n - 1 + 1) :
    (n = 0 → k = 1) ∧ (0 < n → min (max mn 1) n ≤ k ∧ k ≤ min (max mx 1) n ∧
      (k ≤ min (max (mx - 1) 1) n ∨ k = min (max mn 1) n)) := by
  unfold InDraw at h; omega

theorem pad_arith {mn mx np L k : Nat} (h : InDraw mn mx np) (hb : mn ≤ mx) (hk : k = min (max np 1) L) :
    min (max mn 1) L ≤ k ∧ k ≤ min (max mx 1) L := by
  unfold InDraw at h; omega

theorem countsInBounds_of_plan {c : RFCfg} {data : List UInt8} {fl : List QFrame}
    (hcb : checkBounds c = none) (h : PlanCounts c data fl) :
    ∃ dry, qfBuild (fl.filter (fun f => !isPaddingQ f)) data 0 = .ok dry ∧
      (∀ f ∈ fl, ∀ l : Int, f = QFrame.padding l → 1 ≤ l) ∧
      CountsInBounds c data.length (fl.filter isPingQ).length (fl.filter isCryptoQ).length
        (fl.filter isPaddingQ).length (padBytesQ fl) dry.length := by
  obtain ⟨numPing, nc, dry, hp, hc, e1, e2, hdry, hpos, hno, hpad⟩ := h.numbers
  obtain ⟨b1, b2, b3, b4⟩ := (checkBounds_none_iff c).mp hcb
  refine ⟨dry, hdry, hpos, ?_⟩
  have hcr := crypto_arith hc b3 e2
  refine ⟨by rw [e1]; exact ping_arith hp b1, hcr.1, hcr.2, hno, ?_⟩
  intro hlt
  obtain ⟨np, hnp, h1, h2⟩ := hpad hlt
  have hb : c.minPad ≤ c.maxPad := by
    rcases b4 with h0 | h0
    · rw [h0] at hlt; exact absurd hlt (Nat.not_lt_zero _)
    · exact h0.2
  have := pad_arith hnp hb h1
  exact ⟨this.1, this.2, h2⟩

/-- **Frame counts of QUICRandomFrames.** For every parameterisation `c`, every ClientHello slice,
    every base offset (representable as a varint), every scripted crypto/rand draw and every shuffle
    witness: whenever `buildInternal` returns a payload, the reference reader parses it into frames
    whose numbers of PING and CRYPTO frames lie in the configured intervals after the documented
    clamping, the plan holds a number of PADDING entries (each at least one byte long) in its interval,
    and the PADDING bytes on the wire are exactly `Length - dryLen` (none if the dry run already reaches
    `Length`). In particular the monitor predicate `countsOk` holds of the emitted bytes. -/
theorem randomFrames_counts_in_bounds (c : RFCfg) (data : List UInt8) (base : Nat) (d : Draws)
    (perm : List Nat) (p : List UInt8) (hrep : base + data.length ≤ maxVarInt8)
    (h : rfBuild c data base d perm = .ok p) :
    ∃ fl d' fs dry,
      rfPlan c data d = .ok (fl, d') ∧ readFrames p = some fs ∧
      qfBuild (fl.filter (fun f => !isPaddingQ f)) data 0 = .ok dry ∧
      (∀ f ∈ fl, ∀ l : Int, f = QFrame.padding l → 1 ≤ l) ∧
      CountsInBounds c data.length (fs.filter isPing).length (cryptoOf fs).length
        (fl.filter isPaddingQ).length (fs.filter isPadding).length dry.length ∧
      countsOk c data.length fs = true := by
  unfold rfBuild at h
  have hspec := rfPlan_spec c data d (by omega)
  cases hplan : rfPlan c data d with
  | ok v =>
    obtain ⟨fl, d'⟩ := v
    rw [hplan] at h hspec
    simp only [good_ok] at hspec
    simp only [] at h
    cases hperm : permute fl perm with
    | none => rw [hperm] at h; simp at h
    | some fl' =>
      rw [hperm] at h
      simp only [] at h
      have hcb : checkBounds c = none := by
        unfold rfPlan at hplan
        cases hcb : checkBounds c with
        | none => rfl
        | some e => rw [hcb] at hplan; simp at hplan
      -- the shuffled plan still tiles the data, so it serialises into exactly its frames
      have plan' : PlanOk fl' data.length := hspec.congr (permute_mem hperm)
      obtain ⟨p0, hp0, hr0⟩ := buildAll_frames (low := 0) (data := data) (base := base) fl' (plan'.tiles hrep).frames
      have hq : qfBuild fl' data base = .ok p0 := by simp [qfBuild, plan'.ne_nil, plan'.lowest, hp0]
      rw [hq] at h
      obtain rfl : p0 = p := by simpa using h
      obtain ⟨k1, k2, k3⟩ := count_frames 0 data base fl'
      have hP := permute_perm hperm
      have q1 : (fl'.filter isPingQ).length = (fl.filter isPingQ).length := (hP.filter _).length_eq
      have q2 : (fl'.filter isCryptoQ).length = (fl.filter isCryptoQ).length := (hP.filter _).length_eq
      have q3 : padBytesQ fl' = padBytesQ fl := padBytesQ_perm hP
      obtain ⟨dry, hdry, hpos, hcnt⟩ := countsInBounds_of_plan hcb (rfPlan_counts hplan)
      rw [← q1, ← q2, ← q3, ← k1, ← k2, ← k3] at hcnt
      refine ⟨fl, d', _, dry, rfl, hr0, hdry, hpos, hcnt, ?_⟩
      -- the monitor predicate
      obtain ⟨⟨a1, a2, a3⟩, c0, c1, _, _⟩ := hcnt
      unfold countsOk
      simp only [Bool.and_eq_true, Bool.or_eq_true, decide_eq_true_eq, beq_iff_eq]
      refine ⟨⟨a1, a3⟩, ?_⟩
      by_cases hn : data.length = 0
      · rw [if_pos hn]; simpa using c0 hn
      · rw [if_neg hn]
        have := c1 (by omega)
        obtain ⟨b1, b2, b3, b4⟩ := (checkBounds_none_iff c).mp hcb
        simp only [Bool.and_eq_true, decide_eq_true_eq]
        split <;> omega
  | err e => rw [hplan] at h; simp at h
  | panic => rw [hplan] at h; simp at h
  | wrap => rw [hplan] at h; simp at h

/-- lifted to QUICMultiDatagramFrames: the counts of datagram `idx` lie in the intervals of the entry
    that `BuildForDatagram` selects for it (the last entry repeats) -/
theorem multiDatagram_counts_in_bounds (per : List RFCfg) (idx : Int) (c : RFCfg) (data : List UInt8)
    (base : Nat) (d : Draws) (perm : List Nat) (p : List UInt8) (hrep : base + data.length ≤ maxVarInt8)
    (hsel : mfSelect per idx = .ok c) (h : rfBuild c data base d perm = .ok p) :
    c ∈ per ∧ ∃ fs, readFrames p = some fs ∧ countsOk c data.length fs = true := by
  refine ⟨?_, ?_⟩
  · unfold mfSelect at hsel
    by_cases he : per.isEmpty = true
    · rw [if_pos he] at hsel; simp at hsel
    · rw [if_neg he] at hsel
      simp only [] at hsel
      generalize (if idx ≥ per.length then (per.length : Int) - 1 else idx) = i at hsel
      split at hsel
      · simp at hsel
      · split at hsel
        · rename_i c' hc'
          obtain rfl : c' = c := by simpa using hsel
          exact List.mem_of_getElem? hc'
        · simp at hsel
  · obtain ⟨_, _, fs, _, _, hr, _, _, _, hc⟩ := randomFrames_counts_in_bounds c data base d perm p hrep h
    exact ⟨fs, hr, hc⟩

/-- non-vacuity: the Chrome-like configuration {PING 1..3, CRYPTO 2..4, PADDING 1..2, Length 30} on a
    5-byte slice with an all-zero reader: 1 PING, 2 CRYPTO frames, one PADDING entry of 14 bytes -/
example : rfBuild ⟨1, 3, 2, 4, 1, 2, 30⟩ [10, 11, 12, 13, 14] 7 ⟨[], true⟩ [3, 1, 0, 2] =
    .ok ([0, 0, 0, 0, 0, 0, 0, 0, 0, 0, 0, 0, 0, 0, 0, 0, 0, 0, 6, 7, 1, 10, 1, 6, 8, 4, 11, 12, 13, 14]) := by decide

example : CountsInBounds ⟨1, 3, 2, 4, 1, 2, 30⟩ 5 1 2 1 18 12 :=
  ⟨by decide, by decide, by decide, by decide, by decide⟩

/-! ## 2. the monitor predicate `layoutTiles` is the theorem hypothesis `TilesAt` -/

/-- `layoutOf` of C09 is the layout the monitor folds over -/
theorem layoutOf_eq (qfs : List QFrame) : layoutOf qfs = layoutOf' qfs := rfl

/-- the offset the monitor rebases on is the model's `lowestOffset` of the layout -/
theorem layoutLowest_eq_lowestOffset (qfs : List QFrame) : layoutLowest qfs = lowestOffset (layoutOf qfs) :=
  layoutLowest_eq qfs

/-- **`layoutTiles` ⇔ `TilesAt`.** The executable predicate the oracle evaluates on a QUICFrames layout
    and a share length `n` — together with the three side conditions that `TilesAt` also contains and
    that the monitor checks separately (the rebasing offset is non-negative; share length and wire
    offsets are representable as varints) — is exactly the hypothesis `TilesAt` of `quicFrames_carries`,
    for every base offset. -/
theorem layoutTiles_iff_TilesAt (qfs : List QFrame) (n base : Nat) :
    (layoutTiles qfs n = true ∧ 0 ≤ layoutLowest qfs ∧ n ≤ maxVarInt8 ∧
      ∀ off len, QFrame.crypto off len ∈ layoutOf qfs → off + (base : Int) ≤ maxVarInt8) ↔
    TilesAt (lowestOffset (layoutOf qfs)) (layoutOf qfs) n base := by
  rw [layoutTiles_iff, layoutLowest_eq, ← layoutOf_eq]
  generalize hL : layoutOf qfs = L
  have hlow : ∀ off len, QFrame.crypto off len ∈ L → lowestOffset L ≤ off := fun off len hm =>
    (foldl_low_le L 65535).2.1 _ hm
  constructor
  · rintro ⟨⟨hent, hcov⟩, hl0, hn8, hrep⟩
    refine ⟨hl0, ?_, ?_, ?_⟩
    · intro f hf
      have he := hent f hf
      cases f with
      | crypto off len =>
        simp only [EntryOk] at he
        exact ⟨hlow _ _ hf, he.2.1, by have := hlow _ _ hf; omega, hrep _ _ hf, by omega⟩
      | padding l => exact he
      | ping => trivial
    · intro off len hm
      have he := hent _ hm
      simp only [EntryOk] at he
      exact he.2.2
    · intro i hi
      obtain ⟨r, hr, h1, h2⟩ := hcov i hi
      obtain ⟨off, len, hm, rfl⟩ := mem_flatMap_rangeOf.mp hr
      have he := hent _ hm
      simp only [EntryOk] at he
      have hst : rstart (lowestOffset L) n off = off - lowestOffset L := by unfold rstart; omega
      refine ⟨off, len, hm, by rw [hst]; simp only [] at h1; omega, ?_⟩
      simp only [rlen, hst]
      simp only [] at h1 h2
      split at h2 <;> rename_i hc <;> simp only [hc, if_true, if_false] <;> omega
  · intro h
    refine ⟨⟨?_, ?_⟩, h.lowNonneg, ?_, ?_⟩
    · intro f hf
      have ok := h.frames f hf
      cases f with
      | crypto off len =>
        simp only [FrameOk] at ok
        exact ⟨by omega, ok.2.1, h.inSlice _ _ hf⟩
      | padding l => exact ok
      | ping => trivial
    · intro i hi
      obtain ⟨off, len, hm, h1, h2⟩ := h.cover i hi
      have ok := h.frames _ hm
      simp only [FrameOk] at ok
      have hin := h.inSlice _ _ hm
      have hst : rstart (lowestOffset L) n off = off - lowestOffset L := by unfold rstart; omega
      obtain ⟨hl0, hln⟩ := rlen_bounds (n := n) ok.1 ok.2.1
      refine ⟨_, mem_flatMap_rangeOf.mpr ⟨off, len, hm, rfl⟩, by simp only []; omega, ?_⟩
      simp only [rlen, hst] at h2 hl0
      simp only []
      split at h2 <;> rename_i hc <;> simp only [hc, if_true, if_false] at hl0 ⊢ <;> omega
    · by_cases hn : n = 0
      · omega
      · obtain ⟨off, len, hm, _, _⟩ := h.cover 0 (by omega)
        have ok := h.frames _ hm
        simp only [FrameOk] at ok
        omega
    · intro off len hm
      have ok := h.frames _ hm
      simp only [FrameOk] at ok
      exact ok.2.2.2.1

/-- **What the monitor `qf_carries` checks, proved for its whole firing domain** (rebasing offset of
    either sign: a layout with negative offsets is rebased on them): a layout that `layoutTiles` accepts
    for the share, handed a base offset such that the share's true offset `base + lowest` is
    non-negative and everything is representable, never panics and builds a payload that carries the
    share at `base + lowest`. -/
theorem layoutTiles_carries (qfs : List QFrame) (data : List UInt8) (base : Nat)
    (ht : layoutTiles qfs data.length = true) (hbl : 0 ≤ (base : Int) + layoutLowest qfs)
    (hn8 : data.length ≤ maxVarInt8)
    (hrep : ∀ off len, QFrame.crypto off len ∈ layoutOf qfs → off + (base : Int) ≤ maxVarInt8) :
    ∃ p, qfBuild qfs data base = .ok p ∧
      carries data ((base : Int) + layoutLowest qfs).toNat [p] = true :=
  layoutTiles_build qfs data base ht hbl hn8 hrep

/-- … with the representability condition exactly as the oracle evaluates it before it judges
    `qf_carries` (`base + 65535 + |share| ≤ 2^62-1`): the monitor never fires outside the theorem -/
theorem layoutTiles_carries_monitor_domain (qfs : List QFrame) (data : List UInt8) (base : Nat)
    (ht : layoutTiles qfs data.length = true) (hbl : 0 ≤ (base : Int) + layoutLowest qfs)
    (hb : base + 65535 + data.length ≤ maxVarInt8) :
    ∃ p, qfBuild qfs data base = .ok p ∧
      carries data ((base : Int) + layoutLowest qfs).toNat [p] = true := by
  apply layoutTiles_carries qfs data base ht hbl (by omega)
  intro off len hm
  have hent := ((layoutTiles_iff qfs data.length).mp ht).1 _ hm
  simp only [EntryOk] at hent
  have hlow : layoutLowest qfs ≤ 65535 := by
    rw [layoutLowest_eq]; exact (foldl_low_le (layoutOf' qfs) 65535).1
  omega

/-- non-vacuity: a two-frame layout out of order, rebased on offset 3, tiles a 5-byte share (a PING or PADDING entry
    would pull the rebasing offset to 0: `CryptoFrameInfo` reports offset 0 for them) -/
example : layoutTiles [.crypto 5 0, .crypto 3 2] 5 = true ∧ layoutLowest [.crypto 5 0, .crypto 3 2] = 3 := by
  decide

example : TilesAt (lowestOffset (layoutOf [.crypto 5 0, .crypto 3 2])) (layoutOf [.crypto 5 0, .crypto 3 2]) 5 100 :=
  (layoutTiles_iff_TilesAt _ 5 100).mp ⟨by decide, by decide, by decide, by
    intro off len hm
    have : off = 5 ∨ off = 3 := by
      simp [layoutOf] at hm
      omega
    rw [maxVarInt8_eq]; omega⟩

/-- a layout with a negative offset: accepted by the monitor, outside `TilesAt`, inside `layoutTiles_carries` -/
example : layoutTiles [.crypto (-2) 0] 3 = true ∧ layoutLowest [.crypto (-2) 0] = -2 ∧
    qfBuild [.crypto (-2) 0] [7, 8, 9] 12 = .ok [6, 10, 3, 7, 8, 9] := by decide

/-! ## 3. the scrambler with Writes interleaved with pops -/

section Interleaved
open Uquic.Model.UQuic.Scrambler Uquic.Proofs.Stream Uquic.Proofs.StreamMore

/-- while the ClientHello is incomplete `HasData` is false, so the packer does not pop (if it did, the
    pop would release nothing and switch scrambling off: `pre_pop`) -/
theorem waiting_hasData_false (W : List UInt8) : hasData (preState W) = false := by
  simp [hasData, preState, invalid_eq]

/-- **Scrambler, any interleaving.** `CH` is the ClientHello, `envCH` findSNIAndECH's answer on it
    (inside the buffer: `EnvSane`). For EVERY history of Writes and PopCryptoFrame calls on a fresh client
    Initial stream — the ClientHello arriving in any number of chunks, further handshake data written
    before, between or after pops, Writes that re-run the analysis because the first cut has just been
    used up, pops before the ClientHello is complete, any budgets — in which findSNIAndECH behaves as its
    length check dictates (`EnvDiscipline`: ErrUnexpectedEOF unless the buffer is exactly `|CH|` bytes,
    then `envCH`): no pop panics; every released frame carries the written bytes of its offset; and
    whenever scrambling is over, everything below the write offset has been released — all of what was
    written (hence the whole ClientHello, at its true offsets) once the buffer is drained. -/
theorem scrambler_carries_interleaved (CH : List UInt8) (envCH : Sni) (hsane : EnvSane CH envCH)
    (ops : List SOp) (hd : EnvDiscipline CH.length envCH 0 ops) :
    ∃ s' frames, runOps (newInitial true) ops [] = some (s', frames) ∧
      (∀ f ∈ frames, Truthful (written ops) f) ∧
      (s'.scramble = false →
        (∀ i, 0 ≤ i → i < s'.writeOffset → Covered frames i) ∧
        (s'.buf = [] → ∀ i : Int, 0 ≤ i → i < (written ops).length → Covered frames i)) := by
  have h0 : Phase CH.length envCH (newInitial true) [] [] := Phase.pre newInitial_eq rfl
  obtain ⟨s', frames, hrun, hph⟩ := phase_run (saneN_of_envSane hsane) ops (newInitial true) [] [] h0 (by simpa using hd)
  rw [List.nil_append] at hph
  refine ⟨s', frames, hrun, ?_, ?_⟩
  · cases hph with
    | pre hs ha => subst ha; intro f hf; simp at hf
    | scr hinv _ _ => exact hinv.truthful
    | plain hr => exact hr.truthful
  · intro hs
    cases hph with
    | pre hs' ha => rw [hs'] at hs; simp [preState] at hs
    | scr hinv _ _ => have := hinv.scramble; rw [hs] at this; simp at this
    | plain hr =>
      refine ⟨hr.cover, ?_⟩
      intro he i hi0 hi
      have := hr.inv.drained he
      exact hr.cover i hi0 (by omega)

/-- … in the words of the property: if what was written is the ClientHello followed by further
    handshake data, and the history ends with scrambling over and the buffer drained, every byte of the
    ClientHello has been released in a frame that carries exactly the written bytes of its offset -/
theorem scrambler_interleaved_clienthello (CH rest : List UInt8) (envCH : Sni) (hsane : EnvSane CH envCH)
    (ops : List SOp) (hw : written ops = CH ++ rest) (hd : EnvDiscipline CH.length envCH 0 ops) :
    ∃ s' frames, runOps (newInitial true) ops [] = some (s', frames) ∧
      (∀ f ∈ frames, Truthful (CH ++ rest) f) ∧
      (s'.scramble = false → s'.buf = [] → ∀ i : Int, 0 ≤ i → i < CH.length → Covered frames i) := by
  obtain ⟨s', frames, h1, h2, h3⟩ := scrambler_carries_interleaved CH envCH hsane ops hd
  rw [hw] at h2 h3
  refine ⟨s', frames, h1, h2, ?_⟩
  intro hs hb i hi0 hi
  exact (h3 hs).2 hb i hi0 (by simp; omega)

/-- non-vacuity: a 40-byte ClientHello (SNI cut [15,20), ECH cut [21,37)) written in two chunks, a pop, 5
    more bytes of handshake data, pops (one with a small budget), an empty Write (ignored: `cuts[0]` is
    set), pops that drain everything: [0,15) [20,21) [37,40) first, then the cuts [15,20) [21,37), then the
    tail [40,45) -/
def demoEnv : Sni := ⟨10, 10, 20, 0⟩
def demoOps : List SOp :=
  [.write (List.replicate 25 7) ⟨0, 0, 0, 1⟩, .write (List.replicate 15 7) demoEnv, .pop 12,
   .write (List.replicate 5 9) ⟨0, 0, 0, 1⟩, .pop 100, .pop 100, .pop 8, .write [] ⟨0, 0, 0, 1⟩, .pop 100, .pop 100, .pop 100]

example : EnvSane (List.replicate 40 7) demoEnv :=
  ⟨rfl, Or.inr (by rw [List.length_replicate]; decide), Or.inr (by rw [List.length_replicate]; decide)⟩

example : EnvDiscipline 40 demoEnv 0 demoOps := by
  simp [EnvDiscipline, demoOps]

example : (runOps (newInitial true) demoOps []).map
    (fun r => (r.1.scramble, r.1.buf.length, r.2.map (fun f => (f.1, f.2.length)))) =
    some (false, 0, [(0, 9), (9, 6), (20, 1), (37, 3), (15, 5), (21, 16), (40, 5)]) := by decide

/-- a history in which the analysis is re-run with success: the ClientHello is complete, the first cut
    has been used up, an empty Write makes `Write` choose both cuts again (the SNI part is re-sent) -/
def demoOps2 : List SOp :=
  [.write (List.replicate 40 7) demoEnv, .pop 100, .pop 100, .pop 100, .pop 100, .write [] demoEnv,
   .pop 100, .pop 100, .pop 100]

example : EnvDiscipline 40 demoEnv 0 demoOps2 := by
  simp [EnvDiscipline, demoOps2]

example : (runOps (newInitial true) demoOps2 []).map
    (fun r => (r.1.scramble, r.1.buf.length, r.2.map (fun f => (f.1, f.2.length)))) =
    some (false, 0, [(0, 15), (20, 1), (37, 3), (15, 5), (15, 5), (21, 16)]) := by decide

end Interleaved

end Uquic.Props.C09More
