/-
Property C02, "completes the handshake … also when Initial-flight datagrams … have to be retransmitted", for handshakes
that restart inside one connection: a server that answers the ClientHello with a HelloRetryRequest makes the client
write a SECOND ClientHello onto the same Initial CRYPTO stream — after the first one went out through the per-datagram
path (`PopCryptoFrame`) or was taken as a whole by a flight builder (`PopAllCryptoData`, u_packet_packer.go
`planInitialFlight`). The server reassembles the stream by offset, so the second message must go out at the offset the
first one ended at.

Model: `Uquic.Model.UQuic.Scrambler` (crypto_stream.go's send side; tied to the code by property C09's `frames` driver),
here for the stream of a spec-driven client (scrambling disabled). The statements are over ALL histories of writes,
frame pops with arbitrary budgets and take-all calls. On real connections the `dial` driver judges the same thing on
the wire (`stls=hrr`, monitor `crypto_stream_consistent`: no stream offset ever carries two different bytes, no hole
when the handshake completed).
-/
import Uquic.Proofs.DialHello

namespace Uquic.Props.C02Hello
open Uquic.Model.UQuic.Frames Uquic.Model.UQuic.Scrambler Uquic.Proofs.Stream Uquic.Proofs.DialHello

/-- Every piece of the Initial CRYPTO stream that leaves it — a CRYPTO frame or the bytes a flight builder takes —
    carries exactly the bytes that were written at its offset, whatever was written, popped or taken before; no call
    panics. -/
theorem pieces_carry_their_offset (ops : List HOp) :
    ∃ s acc, runH specStream ops [] = some (s, acc) ∧ ∀ f ∈ acc, Truthful (writtenH ops) f := by
  obtain ⟨s, acc, h1, h2⟩ := baseRun_hops ops 0 specStream [] [] specStream_run
  exact ⟨s, acc, h1, by simpa using h2.truthful⟩

/-- … and once the stream has nothing queued, every byte of every handshake message written so far has left it. -/
theorem drained_stream_fully_sent (ops : List HOp) (s : CS) (acc : List Piece)
    (h : runH specStream ops [] = some (s, acc)) (hd : s.buf = []) :
    ∀ i : Int, 0 ≤ i → i < (writtenH ops).length → Covered acc i := by
  obtain ⟨s', acc', h1, h2⟩ := baseRun_hops ops 0 specStream [] [] specStream_run
  rw [h] at h1
  simp only [Option.some.injEq, Prod.mk.injEq] at h1
  obtain ⟨rfl, rfl⟩ := h1
  intro i h0 hi
  have hw := h2.inv.drained hd
  simp only [List.nil_append] at hw h2
  exact h2.cover i h0 (by omega)

/-- The HelloRetryRequest case spelled out: the first ClientHello is taken by a flight builder (or popped frame by
    frame: `first`), then the second one is written and popped with any budgets. Every frame of the second message
    starts at or after the end of the first and carries the second message's bytes of that position. -/
theorem second_hello_follows_first (ch1 ch2 : List UInt8) (env1 env2 : Sni) (first : List HOp) (budgets : List Int)
    (hfirst : writtenH first = [])
    (s1 : CS) (acc1 : List Piece) (h1 : runH specStream (.write ch1 env1 :: first) [] = some (s1, acc1))
    (hdrained : s1.buf = []) :
    ∃ s2 acc2, runH s1 (.write ch2 env2 :: budgets.map HOp.pop) acc1 = some (s2, acc2) ∧
      ∀ f ∈ acc2, Truthful (ch1 ++ ch2) f ∧
        (f ∉ acc1 → (ch1.length : Int) ≤ f.1) := by
  obtain ⟨s', acc', e1, r1⟩ := baseRun_hops (.write ch1 env1 :: first) 0 specStream [] [] specStream_run
  rw [h1] at e1
  simp only [Option.some.injEq, Prod.mk.injEq] at e1
  obtain ⟨rfl, rfl⟩ := e1
  simp only [writtenH, hfirst, List.nil_append, List.append_nil] at r1
  have hwo : s1.writeOffset = ch1.length := r1.inv.drained hdrained
  -- from here on, everything below |ch1| is "somebody else's business": restart the cover bookkeeping there
  have r1' : BaseRun (ch1.length : Int) s1 ch1 acc1 := ⟨r1.inv, r1.truthful, by intro i a b; omega⟩
  obtain ⟨s2, acc2, e2, r2⟩ := baseRun_hops (.write ch2 env2 :: budgets.map HOp.pop) _ s1 ch1 acc1 r1'
  have hw : writtenH (HOp.write ch2 env2 :: budgets.map HOp.pop) = ch2 := by
    simp only [writtenH]
    have : ∀ l : List Int, writtenH (l.map HOp.pop) = [] := by
      intro l; induction l with
      | nil => rfl
      | cons a l ih => simpa [writtenH] using ih
    rw [this]; simp
  rw [hw] at r2
  refine ⟨s2, acc2, e2, fun f hf => ⟨r2.truthful f hf, ?_⟩⟩
  intro hnot
  exact new_pieces_start_after (.write ch2 env2 :: budgets.map HOp.pop) s1 acc1 s2 acc2 e2
    (by rw [hwo]; omega) r1.inv.plain f hf hnot
where
  /-- pieces added by a run start at or after the write offset the run started from (plain stream) -/
  new_pieces_start_after : ∀ (ops : List HOp) (s : CS) (acc : List Piece) (s' : CS) (acc' : List Piece),
      runH s ops acc = some (s', acc') → ∀ {lo : Int}, lo ≤ s.writeOffset → (!s.initial || !s.scramble) = true →
      ∀ f ∈ acc', f ∉ acc → lo ≤ f.1 := by
    intro ops
    induction ops with
    | nil =>
      intro s acc s' acc' h lo _ _ f hf hn
      simp only [runH, Option.some.injEq, Prod.mk.injEq] at h
      obtain ⟨_, rfl⟩ := h
      exact absurd hf hn
    | cons op ops ih =>
      intro s acc s' acc' h lo hlo hp f hf hn
      cases op with
      | write p env =>
        simp only [runH] at h
        have e : write s p env = ({ s with buf := s.buf ++ p }, false) := by
          unfold write; simp only []; rw [if_pos hp]
        rw [e] at h
        exact ih _ _ _ _ h (lo := lo) (by simpa using hlo) (by simpa using hp) f hf hn
      | pop m =>
        simp only [runH] at h
        rw [pop_plain hp] at h
        rcases basePop_cases s m with he | ⟨n, hn0, he⟩
        · rw [he] at h
          simp only [] at h
          exact ih _ _ _ _ h hlo hp f hf hn
        · rw [he] at h
          simp only [] at h
          by_cases hfn : f = (s.writeOffset, s.buf.take n.toNat)
          · rw [hfn]; exact hlo
          · refine ih _ _ _ _ h (lo := lo) (by simp only []; omega) (by simpa using hp) f hf ?_
            intro hmem
            rcases List.mem_append.mp hmem with hm | hm
            · exact hn hm
            · simp only [List.mem_singleton] at hm; exact hfn hm
      | popAll =>
        simp only [runH] at h
        unfold Uquic.Model.UQuic.Scrambler.popAll at h
        by_cases hs : s.scramble = true
        · rw [if_pos hs] at h
          simp only [] at h
          exact ih _ _ _ _ h hlo hp f hf hn
        · rw [if_neg hs] at h
          simp only [] at h
          by_cases hb : s.buf = []
          · rw [if_pos hb] at h
            exact ih _ _ _ _ h (lo := lo) (by simp only []; omega) (by simpa using hp) f hf hn
          · rw [if_neg hb] at h
            by_cases hfn : f = (s.writeOffset, s.buf)
            · rw [hfn]; exact hlo
            · refine ih _ _ _ _ h (lo := lo) (by simp only []; omega) (by simpa using hp) f hf ?_
              intro hmem
              rcases List.mem_append.mp hmem with hm | hm
              · exact hn hm
              · simp only [List.mem_singleton] at hm; exact hfn hm

/-- the hypotheses are met by the flight-builder case itself: write, take all, drained -/
example : ∃ s acc, runH specStream [.write [1, 2, 3] ⟨-1, 0, -1, 0⟩, .popAll] [] = some (s, acc) ∧ s.buf = [] ∧
    acc = [(0, [1, 2, 3])] := ⟨_, _, rfl, rfl, rfl⟩

/-! ### why the write offset has to move when the whole stream is taken -/

/-- a take-all that hands the bytes out but leaves the write offset where it was -/
def popAllStale (s : CS) : CS × Option (List UInt8) :=
  if s.scramble then (s, none) else ({ s with buf := [] }, some s.buf)

/-- With such a stream the second ClientHello leaves at offset 0, on top of the first one: the frame does NOT carry
    the stream's bytes of its offset (the server drops it as a retransmission and the handshake never completes). -/
theorem stale_offset_witness :
    let s1 := (popAllStale (write specStream [1, 2, 3] ⟨-1, 0, -1, 0⟩).1).1
    let s2 := (write s1 [7, 8] ⟨-1, 0, -1, 0⟩).1
    (basePop s2 100).2 = some (0, [7, 8]) ∧ ¬ Truthful [1, 2, 3, 7, 8] (0, [7, 8]) := by
  refine ⟨by decide, ?_⟩
  intro h
  have := h.2.2.2
  revert this
  decide

end Uquic.Props.C02Hello
