import Uquic.Model.UQuic.Limits
namespace Uquic.Props.C12
theorem stub : True := trivial
end Uquic.Props.C12
