/-
C12 — a spec-driven client never raises a locally generated transport error against a peer that stays within
the transport parameters the client itself put on the wire; a peer can use the advertised values to the full;
the connection's own record of its parameters equals the bytes it sent.

Property theorems only (helpers: Uquic/Proofs/Limits.lean, Uquic/Proofs/LimitsWire.lean). Model:
Uquic/Model/UQuic/Limits.lean (`advertised`, `enforced`, `LimitsCovered`, `PeerEvent.within/fires`).

STATE OF THE CODE (after the repairs fixes/C12-enforce-advertised.diff, fixes/C12-record-max-udp-payload-size.diff,
/repo ad4f2a6 and fixes/C12-window-above-advertised-stalls.diff = /repo c32d004):
newUClientConnection recomputes its Config from the advertised transport parameters before preSetup (generated
shape fact `specConfigCoversAdvertised = true`), so the full statement holds for every spec that lists a
max_idle_timeout (`no_error_within_advertised`), for every user Config. The stream counts, the connection window
and the per-kind stream windows are EXACTLY the advertised ones (module `Uquic.Props.C12Glue`).
-/
import Uquic.Proofs.Limits
import Uquic.Proofs.LimitsWire

namespace Uquic.Props.C12
open Uquic.Gen Uquic.Model.UQuic.Limits Uquic.Proofs.Limits Uquic.Proofs.LimitsWire

/-! ## 1. coverage is decidable -/

/-- `LimitsCovered` (advertised ≤ enforced, componentwise) is exactly the executable test -/
theorem covered_iff (adv enf : Limits) : LimitsCovered adv enf ↔ coveredB adv enf = true :=
  (coveredB_iff adv enf).symm

example : LimitsCovered (specAdvertised Limits.specParams_QUICChrome_146_IPv4)
    (specEnforced Limits.specParams_QUICChrome_146_IPv4
      { initialConnectionReceiveWindow := 15728640, initialStreamReceiveWindow := 6291456,
        maxIncomingUniStreams := 103, enableDatagrams := true }) := by decide

/-! ## 2. no local error within the advertised limits -/

/-- PARTIAL (guarded) form, for arbitrary advertised/enforced limits: when advertised ≤ enforced componentwise,
    no check fires on any peer history within the advertised limits. -/
theorem no_error_within_advertised_partial (adv enf : Limits) (hc : LimitsCovered adv enf)
    (evs : List PeerEvent) (hw : ∀ ev ∈ evs, ev.within adv) : ∀ ev ∈ evs, ev.fires enf = false :=
  fun ev hev => event_no_fire hc ev (hw ev hev)

/-- … instantiated for a spec-driven client -/
theorem spec_no_error_when_covered (ps : ParamList) (user : Config) (hc : SpecCovered ps user)
    (evs : List PeerEvent) (hw : ∀ ev ∈ evs, ev.within (specAdvertised ps)) :
    ∀ ev ∈ evs, ev.fires (specEnforced ps user) = false :=
  no_error_within_advertised_partial _ _ hc evs hw

/-- the hypotheses are satisfiable by a non-trivial history at the boundary -/
example : let adv := specAdvertised Limits.specParams_QUICFirefox_116A
    ∀ ev ∈ [PeerEvent.connData 25165824, .streamData .bidiLocal 12582912, .openStream true 16, .newConnID 7,
            .datagram 1200, .silence 29999 600000 0], ev.within adv := by decide

/-- The repair (fixes/C12-enforce-advertised.diff) is sound in the model: ONCE the generated shape fact says that
    newUClientConnection recomputes its Config from the advertised parameters before preSetup, every spec
    that lists a max_idle_timeout is covered for every user Config — the full statement then holds for it.
    (On the unchanged tree the hypothesis is false and the witnesses of §7 hold instead.) -/
theorem spec_client_covered_after_repair (h : Limits.specConfigCoversAdvertised = true)
    (ps : ParamList) (user : Config) (hidle : 0 < (populate ps).maxIdleTimeout) : SpecCovered ps user := by
  unfold SpecCovered specAdvertised specEnforced specConfig
  rw [h, if_pos rfl]
  refine cover_config_covers _ _ _ ?_ hidle
  unfold specStreamAdv
  split
  · exact Or.inr rfl
  · exact Or.inl rfl

/-- e.g. the Chrome 115 list against the default Config, recomputed -/
example : LimitsCovered (advertised (populate Limits.specParams_QUICChrome_115_IPv4))
    (enforced (coverConfig (populateConfig {}) (populate Limits.specParams_QUICChrome_115_IPv4))
      (some (populate Limits.specParams_QUICChrome_115_IPv4))
      (populate Limits.specParams_QUICChrome_115_IPv4).activeConnectionIDLimit) := by decide

/-- the repair function itself covers, whatever the shape fact says -/
theorem cover_config_no_error (c : Config) (p : OwnParams) (adv : Option OwnParams) (hadv : adv = none ∨ adv = some p)
    (hidle : 0 < p.maxIdleTimeout) (evs : List PeerEvent) (hw : ∀ ev ∈ evs, ev.within (advertised p)) :
    ∀ ev ∈ evs, ev.fires (enforced (coverConfig c p) adv p.activeConnectionIDLimit) = false :=
  no_error_within_advertised_partial _ _ (cover_config_covers c p adv hadv hidle) evs hw

/-- FULL statement (for specs that list a max_idle_timeout, as every built-in one does): for every user Config
    and every peer history within what the client advertised, none of the client's enforcing checks fires. -/
theorem no_error_within_advertised (ps : ParamList) (user : Config) (hidle : 0 < (populate ps).maxIdleTimeout)
    (evs : List PeerEvent) (hw : ∀ ev ∈ evs, ev.within (specAdvertised ps)) :
    ∀ ev ∈ evs, ev.fires (specEnforced ps user) = false :=
  spec_no_error_when_covered ps user (spec_client_covered_after_repair (by decide) ps user hidle) evs hw

/-- every built-in spec is covered, for every user Config -/
theorem builtin_specs_covered (user : Config) : ∀ ps ∈ Limits.builtinParamLists, SpecCovered ps user := by
  intro ps hps
  have : ∀ ps ∈ Limits.builtinParamLists, 0 < (populate ps).maxIdleTimeout := by decide
  exact spec_client_covered_after_repair (by decide) ps user (this ps hps)

/-! ## 3. the plain client is consistent -/

/-- the plain client advertises what it enforces: both come from the same populated Config -/
theorem plain_client_consistent (user : Config) (hv : user.Valid) :
    LimitsCovered (plainAdvertised user) (plainEnforced user) := by
  have hidle := populated_idle_pos user hv
  unfold plainAdvertised plainEnforced
  generalize populateConfig user = c at hidle ⊢
  refine ⟨Int.le_refl _, Int.le_refl _, Int.le_refl _, Int.le_refl _, Int.le_refl _, Int.le_refl _, ?_, ?_, ?_⟩
  · simp only [advertised, plainParams, enforced, Protocol.MaxActiveConnectionIDs,
      Protocol.DefaultActiveConnectionIDLimit]
    omega
  · cases hdg : c.enableDatagrams <;>
      simp [advertised, plainParams, enforced, receivable, Limits.MaxDatagramSize, Protocol.MaxPacketBufferSize, hdg] <;>
      omega
  · have h2 : ¬ c.maxIdleTimeout ≤ 0 := by omega
    have e : (advertised (plainParams c)).idle = c.maxIdleTimeout := by
      show (if c.maxIdleTimeout ≤ 0 then 0 else c.maxIdleTimeout) = _
      rw [if_neg h2]
    rw [e]; exact ⟨hidle, Int.le_refl _⟩

/-- hence the plain client never raises a local error against a peer within its transport parameters -/
theorem plain_client_no_error (user : Config) (hv : user.Valid) (evs : List PeerEvent)
    (hw : ∀ ev ∈ evs, ev.within (plainAdvertised user)) : ∀ ev ∈ evs, ev.fires (plainEnforced user) = false :=
  no_error_within_advertised_partial _ _ (plain_client_consistent user hv) evs hw

example : ({ maxIncomingStreams := -1, enableDatagrams := true, maxIdleTimeout := 5000 } : Config).Valid := by decide

/-! ## 4. idle timeout -/

/-- the silence after which the client gives up is `effectiveIdle` (applyTransportParameters: min(Config, peer's);
    run loop: at least 3·PTO). A peer may count on `promisedIdle advertised peer's` (RFC 9000 §10.1).
    The client waits at least as long as promised, for every peer value and every PTO, iff it advertised a
    timeout and Config.MaxIdleTimeout is not below it. -/
theorem idle_timeout_respects_advertised (advIdle cfgIdle : Int) (hcfg : 0 < cfgIdle) :
    (∀ peerIdle pto3 : Int, 0 ≤ peerIdle → 0 ≤ pto3 →
        match promisedIdle advIdle peerIdle with
        | some t => t ≤ effectiveIdle cfgIdle peerIdle pto3
        | none => False)
      ↔ (0 < advIdle ∧ advIdle ≤ cfgIdle) := by
  constructor
  · intro h
    have h0 := h 0 0 (Int.le_refl _) (Int.le_refl _)
    unfold promisedIdle effectiveIdle at h0
    by_cases ha : advIdle > 0
    · rw [if_pos ha, if_neg (by omega), if_neg (by omega)] at h0
      have h0' : advIdle ≤ max cfgIdle 0 := h0
      exact ⟨ha, by omega⟩
    · rw [if_neg ha, if_neg (by omega)] at h0
      exact absurd h0 (by simp)
  · rintro ⟨ha, hle⟩ peerIdle pto3 _ _
    unfold promisedIdle effectiveIdle
    rw [if_pos ha]
    by_cases hp : peerIdle > 0
    · rw [if_pos hp, if_pos hp]
      show min advIdle peerIdle ≤ max (min cfgIdle peerIdle) pto3
      omega
    · rw [if_neg hp, if_neg hp]
      show advIdle ≤ max cfgIdle pto3
      omega

/-- both sides of the equivalence are inhabited: Config 30 s covers an advertised 30 s, Config 10 s does not -/
example : (0 < (30000 : Int) ∧ (30000 : Int) ≤ 30000) ∧ ¬ (0 < (30000 : Int) ∧ (30000 : Int) ≤ 10000) := by decide

/-- Chrome 146 advertises 30 s; with Config.MaxIdleTimeout = 10 s the client now waits 30 s -/
example :
    let adv := (specAdvertised Limits.specParams_QUICChrome_146_IPv4).idle
    let cfg := (specEnforced Limits.specParams_QUICChrome_146_IPv4 { maxIdleTimeout := 10000 }).idle
    promisedIdle adv 0 = some 30000 ∧ effectiveIdle cfg 0 0 = 30000 := by decide

/-! ## 5. the record equals the bytes -/

/-- FULL statement: decoding the marshalled parameter list the way a peer does gives the connection's own
    record. Holds for every list of recognised ids (`record_equals_bytes_when_recognised`), in particular for
    every built-in spec (`builtin_spec_ids_recognised`); not for ids no uTLS parameter type expresses
    (ack_delay_exponent), which PopulateFromUQUIC has no case for. -/
def record_equals_bytes_full : Prop :=
  ∀ ps : List (Nat × Nat), WellFormed ps → recordOfBytes (marshal ps) = some (populate (toInts ps))

/-- PARTIAL: the record equals the bytes on every parameter `PopulateFromUQUIC` recognises (generated fact
    `populateRecognises`), for every well-formed list of integer parameters (ids and values below 2^62, in any
    order, with repetitions: the last occurrence wins on both sides). -/
theorem record_equals_bytes (ps : List (Nat × Nat)) (hwf : WellFormed ps) :
    recordOfBytesWith Limits.populateRecognises (marshal ps) = some (populate (toInts ps)) :=
  record_of_marshal Limits.populateRecognises ps hwf

/-- a non-trivial well-formed list (Chrome's values, all four varint lengths) and its bytes -/
example : WellFormed [(4, 15728640), (1, 30000), (3, 1472), (8, 100), (32, 65536), (7, 4611686018427387903)] := by decide
example : marshal [(1, 30000), (8, 100)] = [1, 4, 128, 0, 117, 48, 8, 2, 64, 100] := by decide
example : parseInts [1, 4, 128, 0, 117, 48, 8, 2, 64, 100] = some [(1, 30000), (8, 100)] := by decide

/-- … and it is the FULL reading of the bytes for every list that only uses recognised parameter ids -/
theorem record_equals_bytes_when_recognised (ps : List (Nat × Nat)) (hwf : WellFormed ps)
    (hrec : ∀ iv ∈ toInts ps, Limits.populateRecognises.contains iv.1 = true) :
    recordOfBytes (marshal ps) = some (populate (toInts ps)) := by
  simp only [recordOfBytes, parse_marshal ps hwf, Option.map_some, populate]
  rw [populateWith_eq_recordAll _ _ hrec]

example : ∀ iv ∈ Limits.specParams_QUICFirefox_116A, Limits.populateRecognises.contains iv.1 = true := by decide

/-- the bytes themselves lose nothing: they parse back to exactly the listed (id, value) pairs -/
theorem bytes_parse_back (ps : List (Nat × Nat)) (hwf : WellFormed ps) :
    (parseInts (marshal ps)) = some ps := parse_marshal ps hwf

/-- every built-in spec only lists ids PopulateFromUQUIC recognises -/
theorem builtin_spec_ids_recognised :
    ∀ ps ∈ Limits.builtinParamLists, ∀ iv ∈ ps, Limits.populateRecognises.contains iv.1 = true := by decide

/-! ## 6. connection IDs (after /repo 06daca1) -/

/-- for every spec and Config the connIDManager's bound max(MaxActiveConnectionIDs, advertised) is at least
    what the peer was told (RFC default 2 when the spec lists nothing) -/
theorem connid_limit_covered (ps : ParamList) (user : Config) :
    (specAdvertised ps).cids ≤ (specEnforced ps user).cids := by
  simp only [specAdvertised, specEnforced, advertised, enforced, Protocol.DefaultActiveConnectionIDLimit,
    Protocol.MaxActiveConnectionIDs]
  split <;> omega

/-- so no NEW_CONNECTION_ID within the advertised limit is answered with CONNECTION_ID_LIMIT_ERROR -/
theorem connid_no_error (ps : ParamList) (user : Config) (queued : Int)
    (hw : (PeerEvent.newConnID queued).within (specAdvertised ps)) :
    (PeerEvent.newConnID queued).fires (specEnforced ps user) = false := by
  have := connid_limit_covered ps user
  simp only [PeerEvent.within] at hw
  simp only [PeerEvent.fires, decide_eq_false_iff_not]; omega

example : (specAdvertised Limits.specParams_QUICFirefox_116A).cids = 8 ∧
    (specEnforced Limits.specParams_QUICFirefox_116A {}).cids = 8 := by decide

/-! ## 7. datagram size -/

/-- with EnableDatagrams the advertised size is covered although Chrome's 65536 exceeds wire.MaxDatagramSize:
    no receivable packet carries a frame that large -/
theorem datagram_covered_when_enabled :
    ∀ ps ∈ Limits.builtinParamLists,
      (specAdvertised ps).datagram ≤ (specEnforced ps { enableDatagrams := true }).datagram := by decide

end Uquic.Props.C12
