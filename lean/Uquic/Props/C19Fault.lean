/-
C19 (round 5) — ERROR PATHS and the state they leave behind.

Property theorems only. Models: Uquic/Model/H3/TrailerGate.lean (Stream.Read's trailer gate, the
parseTrailer closures of handleRequestStream / openRequestStream) and Uquic/Model/H3/RespFault.lean
(responseWriter's header-section bookkeeping when stream writes fail, the end of handleRequestStream).
Tie: the h3g driver — `srv` / `cli` ops with frames AFTER the trailer section and a consumer that reads
again after the error; `rsp` ops: a real http3.Server whose handler lets the write deadline expire and
extends it again — with the monitors of Uquic/Spec/H3GlueMon.lean.

1. A message whose trailer section is rejected is malformed for good: whatever follows on the stream and
   however often the body is read again, nothing more is delivered and no other section is accepted
   (C19: "anything else is rejected as malformed").
2. Whatever the handler does and whenever its writes fail, what the response writer has put on the wire
   is a prefix of a response: the header section first — never DATA or trailers without it — and the
   header section is not lost when writes work again (C19: "everything the writers emit … is accepted
   by the parser").
-/
import Uquic.Props.C19Glue
import Uquic.Proofs.TrailerGate
import Uquic.Proofs.RespFault
import Uquic.Proofs.ReqLockFault

namespace Uquic.Props.C19Fault
open Uquic.Model.H3.Fields Uquic.Model.H3.Glue
open Uquic.Spec.H3Fields (TrailersWellFormed)

/-! ## 1. the trailer gate -/
section Gate
open Uquic.Model.H3.TrailerGate Uquic.Proofs.TrailerGate

/-- the state after ANY sequence of Reads (any buffer sizes, continued after every error) -/
abbrev after (ext : List Nat → Bool) (lim : Int) (evs : List Ev) (ws : List Nat) : St := (reads .markFirst ext lim {} evs ws).1

/-- `no_body_after_trailers`: the reader never gets more than the DATA bytes in front of the first
    HEADERS frame — whatever that frame's fate, DATA frames behind it are never delivered. -/
theorem no_body_after_trailers (ext : List Nat → Bool) (lim : Int) (evs : List Ev) (ws : List Nat) :
    (after ext lim evs ws).delivered ≤ bodyBefore evs := by
  have := (reads_gate_open ext lim ws {} evs rfl).1
  simpa using this

/-- `trailers_from_first_section_only`: whatever ends up in req.Trailer / rsp.Trailer was decoded from
    the FIRST HEADERS frame of the body, that frame was within the limit and its section well formed;
    the closure stored trailers at most once. -/
theorem trailers_from_first_section_only (ext : List Nat → Bool) (lim : Int) (hlim : 0 ≤ lim) (evs : List Ev) (ws : List Nat)
    (h : Headers) (ht : (after ext lim evs ws).trailers = some h) :
    (∃ tenc tfs, firstHeaders evs = some (tenc, tfs) ∧ decodeTrailers ext lim tenc tfs = some h ∧
      tenc ≤ lim ∧ TrailersWellFormed lim tfs) ∧ (after ext lim evs ws).sets = 1 := by
  have hs := (reads_gate_open ext lim ws {} evs rfl).2
  rcases hs with ⟨h1, _⟩ | ⟨h1, h2, _⟩
  · rw [ht] at h1; cases h1
  · refine ⟨?_, by simpa using h2⟩
    rw [ht] at h1
    unfold expectedTrailers at h1
    split at h1
    · rename_i tenc tfs hf
      have hd : decodeTrailers ext lim tenc tfs = some h := h1.symm
      obtain ⟨a, b⟩ := Uquic.Props.C19Glue.trailers_only_wellformed ext lim tenc hlim tfs h hd
      exact ⟨tenc, tfs, hf, hd, a, b⟩
    · cases h1

/-- `rejected_trailers_stay_rejected`: if the trailer section of the message (the first HEADERS frame
    of the body) is over the limit or malformed, then NOTHING is ever stored as trailers — not from a
    second HEADERS frame, not after any number of further Reads — and no byte behind it is delivered. -/
theorem rejected_trailers_stay_rejected (ext : List Nat → Bool) (lim : Int) (hlim : 0 ≤ lim) (evs : List Ev) (ws : List Nat)
    (tenc : Int) (tfs : List Field) (hf : firstHeaders evs = some (tenc, tfs))
    (hbad : tenc > lim ∨ ¬ TrailersWellFormed lim tfs) :
    (after ext lim evs ws).trailers = none ∧ (after ext lim evs ws).sets = 0 ∧ (after ext lim evs ws).delivered ≤ bodyBefore evs := by
  refine ⟨?_, ?_, no_body_after_trailers ext lim evs ws⟩
  · cases ht : (after ext lim evs ws).trailers with
    | none => rfl
    | some h =>
      obtain ⟨⟨tenc', tfs', hf', _, h1, h2⟩, _⟩ := trailers_from_first_section_only ext lim hlim evs ws h ht
      rw [hf] at hf'
      cases hf'
      rcases hbad with hb | hb
      · omega
      · exact absurd h2 hb
  · have hs := (reads_gate_open ext lim ws {} evs rfl).2
    rcases hs with ⟨_, h2⟩ | ⟨h1, _, h3⟩
    · simpa using h2
    · exfalso
      have hd : expectedTrailers ext lim evs = decodeTrailers ext lim tenc tfs := by simp [expectedTrailers, hf]
      rw [hd] at h3
      cases hdec : decodeTrailers ext lim tenc tfs with
      | none => rw [hdec] at h3; cases h3
      | some h =>
        obtain ⟨a, b⟩ := Uquic.Props.C19Glue.trailers_only_wellformed ext lim tenc hlim tfs h hdec
        rcases hbad with hb | hb
        · omega
        · exact absurd b hb

/-- `closed_gate_reads_fail`: once a HEADERS frame was met, every further Read returns an error or EOF
    and changes nothing, whatever the rest of the stream parses to. -/
theorem closed_gate_reads_fail (ext : List Nat → Bool) (lim : Int) (s : St) (evs : List Ev) (ws : List Nat)
    (hg : s.gate = true) (hr : s.rem = 0) :
    (reads .markFirst ext lim s evs ws).1 = s ∧ ∀ r ∈ (reads .markFirst ext lim s evs ws).2.2, r = .err ∨ r = .eof :=
  reads_gate_closed .markFirst ext lim ws s evs hg hr

/-- `observed_message_sound`: what the h3g driver's handler / RoundTrip caller reports (io.ReadAll, `again`
    further io.ReadAll calls, then the trailers) obeys the same two statements. -/
theorem observed_message_sound (ext : List Nat → Bool) (lim : Int) (hlim : 0 ≤ lim) (evs : List Ev) (again : Nat) :
    let o := readMessage .markFirst ext lim evs again
    o.bytes + o.againBytes ≤ bodyBefore evs ∧
    (o.trailers = [] ∨ ∃ tenc tfs, firstHeaders evs = some (tenc, tfs) ∧ decodeTrailers ext lim tenc tfs = some o.trailers ∧
      tenc ≤ lim ∧ TrailersWellFormed lim tfs) := by
  obtain ⟨ws, h1, h2⟩ := readMessage_is_reads .markFirst ext lim evs again
  simp only []
  refine ⟨by rw [h2]; exact no_body_after_trailers ext lim evs ws, ?_⟩
  rw [h1]
  cases ht : (reads .markFirst ext lim {} evs ws).1.trailers with
  | none => left; rfl
  | some h =>
    right
    obtain ⟨⟨tenc, tfs, a, b, c, d⟩, _⟩ := trailers_from_first_section_only ext lim hlim evs ws h ht
    exact ⟨tenc, tfs, a, by simpa using b, c, d⟩

/-- without frames behind the trailer section and without a second look this is round 4's `readBody` -/
theorem plain_message_is_readBody (ext : List Nat → Bool) (lim : Int) (dlen : Option Nat) (trl : Option (Int × List Field)) :
    (readMessage .markFirst ext lim (events dlen trl []) 0).bytes = (readBody ext lim dlen trl).bytes ∧
    (readMessage .markFirst ext lim (events dlen trl []) 0).failed = (readBody ext lim dlen trl).failed ∧
    (readMessage .markFirst ext lim (events dlen trl []) 0).trailers = (readBody ext lim dlen trl).trailers := by
  have := readMessage_plain ext lim dlen trl
  simp only [] at this
  exact ⟨this.1, this.2.1, this.2.2.1⟩

/-- the discipline matters: closing the gate only when the section was ACCEPTED lets a peer replace a
    rejected trailer section (`connection: close`) by a second one and smuggle DATA in between -/
theorem mark_on_success_unsafe :
    let evs := [Ev.data 5, Ev.headers 20 [(B "connection", B "close")], Ev.data 8, Ev.headers 20 [(B "x-checksum", B "forged")]]
    decodeTrailers (fun _ => true) 1024 20 [(B "connection", B "close")] = none ∧
    (readMessage .markOnSuccess (fun _ => true) 1024 evs 2).trailers ≠ [] ∧
    (readMessage .markOnSuccess (fun _ => true) 1024 evs 2).againBytes = 8 ∧
    (readMessage .markFirst (fun _ => true) 1024 evs 2).trailers = [] ∧
    (readMessage .markFirst (fun _ => true) 1024 evs 2).againBytes = 0 := by
  decide

end Gate

/-! ## 2. the response writer when stream writes fail -/
section Resp
open Uquic.Model.H3.RespFault Uquic.Proofs.RespFault

/-- `response_header_section_first`: for EVERY handler script — any order of WriteHeader / Write / Flush,
    the write deadline expiring and being extended at any points — what handleRequestStream leaves on the
    wire is laid out as a response: interim header sections, then THE header section, then DATA frames,
    then at most one trailer section; in particular never a DATA frame or a trailer section that no
    header section precedes, and never two header sections. -/
theorem response_header_section_first (acts : List Act) : (layout (serve .markAfter acts).1.wire).isSome = true := by
  unfold serve
  rcases hh : handler .markAfter {} acts with ⟨s, os⟩
  have hi := inv_handler acts {} inv_init
  rw [hh] at hi
  exact (finish_layout s hi).1

/-- `response_header_not_lost`: if stream writes work when the handler returns (it never let the
    deadline expire, or it extended it again), the header section IS on the wire, however many writes
    failed before. -/
theorem response_header_not_lost (acts : List Act) (h : (handler .markAfter {} acts).1.expired = false) :
    layout (serve .markAfter acts).1.wire = some 1 ∨ layout (serve .markAfter acts).1.wire = some 2 := by
  unfold serve
  rcases hh : handler .markAfter {} acts with ⟨s, os⟩
  have hi := inv_handler acts {} inv_init
  rw [hh] at hi h
  exact (finish_layout s hi).2 h

/-- `failed_header_write_not_marked`: at every point of every script, `headerWritten` is set exactly
    when the header section is on the wire — a failed attempt leaves it unset. -/
theorem failed_header_write_not_marked (acts : List Act) :
    let s := (handler .markAfter {} acts).1
    layout s.wire = some (if s.headerWritten then 1 else 0) :=
  (inv_handler acts {} inv_init).lay

/-- the discipline matters: with `headerWritten` set BEFORE the attempt, one failed write of the header
    section loses it (an empty response although writes work again) or puts DATA on the wire without it -/
theorem mark_before_write_unsafe :
    (serve .markBefore [.deadline true, .write 5000, .deadline false]).1.wire = [] ∧
    layout (serve .markBefore [.deadline true, .write 5000, .deadline false, .write 5000]).1.wire = none ∧
    layout (serve .markBefore [.write 10, .deadline true, .flush, .deadline false]).1.wire = none ∧
    layout (serve .markAfter [.deadline true, .write 5000, .deadline false, .write 5000]).1.wire = some 1 := by
  decide

example : (serve .markAfter [.writeHeader 103, .deadline true, .write 5000, .deadline false, .write 10, .setTrailer]).1.wire =
    [.hdr 103 none, .hdr 200 (some 5010), .data 10, .trl] := by decide

end Resp

/-! ## 3. the shared request writer when a write fails -/
section Req
open Uquic.Model.H3.ReqLockFault
open Uquic.Model.H3.ReqLock (expected)

/-- `failed_request_leaves_writer_clean`: whichever writeHeaders calls fail at whichever of their two
    writes, under EVERY schedule every call that finishes has written the length of ITS OWN header
    block followed by ITS OWN header block — the early return resets the shared buffer and releases the
    mutex (deferred), so a failed request leaves nothing behind. -/
theorem failed_request_leaves_writer_clean (blocks : Nat → List Nat) (fails : Nat → Nat) (sched : List Nat) (i : Nat)
    (hdone : ((run .resetAlways (init blocks fails) sched).w i).pc = 5) :
    ((run .resetAlways (init blocks fails) sched).w i).out = expected (blocks i) :=
  Uquic.Proofs.ReqLockFault.finished_writes_own_block blocks fails sched i hdone

/-- the discipline matters: resetting the buffer on the success path only makes the request after a
    failed one announce 6 bytes and send the failed request's block in front of its own -/
theorem reset_on_success_unsafe :
    let st := run .resetOnSuccess (init (fun i => if i = 0 then [1, 2, 3] else [7, 8, 9]) (fun i => if i = 0 then 1 else 0))
      [0, 0, 0, 1, 1, 1, 1, 1]
    (st.w 0).pc = 6 ∧ (st.w 1).pc = 5 ∧ (st.w 1).out = [6, 1, 2, 3, 7, 8, 9] ∧ (st.w 1).out ≠ expected [7, 8, 9] := by
  decide

/-- the scripted requests of the h3g driver: a failed call is reported as failed, every other call
    emits its own block -/
theorem conc_faults_own_block :
    emittedBlocks 2 [1, 0] = [3, 1] ∧ emittedBlocks 2 [2, 0] = [3, 1] ∧ emittedBlocks 3 [0, 2, 0] = [0, 4, 2] ∧
    emittedBlocks 3 [1, 1, 0] = [4, 4, 2] := by
  decide

end Req

end Uquic.Props.C19Fault
