/-
C02, flight plans — "the same holds for every successive dial made with the same spec value" for the flight planners of
u_flight_frames.go (`QUICFlightFrames`, `QUICRandomFlightFrames`): the plan VALUE inside the caller's spec is asked for a
flight once per connection, with ClientHellos of different lengths.

Model: Uquic/Model/UQuic/FlightPlan.lean (`resolve`, `buildFlight` = value afterwards × stream intervals per datagram,
`runBuilds` = successive connections on one value). Whether a build writes into the plan is a parameter of the model,
instantiated with the write-effect facts regenerated from the tree (`Uquic.Gen.FlightPlan`). The documented meaning of a
range / a plan as written is `Uquic.Spec.FlightMon.docBounds` / `docFlight` (what the `flightplan` driver's monitor
`plan_serves_every_dial` judges the real builders against).
-/
import Uquic.Proofs.FlightPlan

namespace Uquic.Props.C02Flight
open Uquic.Model.UQuic.FlightPlan Uquic.Spec.FlightMon Uquic.Proofs.FlightPlan

/-! ### the tie to the current tree -/

/-- neither planner's `BuildFlight` / `Build` (nor anything they call on what they reach from the receiver) assigns into
    the plan value -/
theorem tree_builds_do_not_write_plan :
    Uquic.Gen.FlightPlan.randomFlightBuildWritesPlan = false ∧ Uquic.Gen.FlightPlan.fixedFlightBuildWritesPlan = false := by
  decide

theorem treeWB_false (p : Plan) : treeWB p = false := by
  unfold treeWB; split <;> simp [tree_builds_do_not_write_plan.1, tree_builds_do_not_write_plan.2]

/-! ### 1. `resolve` -/

/-- a resolved range lies inside the stream -/
theorem resolve_bounds (r : Range) (n s e : Nat) (h : resolve r n = .ok (s, e)) : s ≤ e ∧ e ≤ n := by
  unfold resolve at h
  split at h
  · cases h
  · split at h
    · cases h
    · injection h with h; injection h with h1 h2
      omega

/-- `resolve` implements the documented meaning of a `QUICCryptoRange` (negative Offset: from the end; Length 0: to the
    end; negative Length: that far short of the end), and rejects exactly the ranges that do not fit the stream -/
theorem resolve_matches_doc (r : Range) (n : Nat) :
    (match resolve r n with | .ok se => some se | .err _ => none) = docBounds r n :=
  resolve_doc r n

/-! ### 2. a build leaves the plan as it was (current tree) -/

/-- `build_leaves_plan`: without write-back, `BuildFlight` returns the plan value it was given -/
theorem build_leaves_plan (p : Plan) (n : Nat) : (buildFlight false p n).1 = p := by
  unfold buildFlight
  split
  · rfl
  · simp [buildDGs_leaves]

/-- … and so does `Build` (the fallback for Initial packets outside the planned flight) -/
theorem buildFirst_leaves_plan (p : Plan) (n : Nat) : (buildFirst false p n).1 = p := by
  unfold buildFirst
  split
  · rfl
  · next d ds h => cases p; simp_all [buildDG_leaves]

/-- `rebuild_independent_of_history`: the flight of the k-th connection on one plan value is the flight a fresh copy of
    the plan gives for that connection's ClientHello — for ALL plans and ALL sequences of ClientHello lengths -/
theorem rebuild_independent_of_history (p : Plan) (ns : List Nat) :
    runBuilds false p ns = ns.map fun n => (buildFlight false p n).2 := by
  induction ns with
  | nil => rfl
  | cons n ns ih => simp [runBuilds, build_leaves_plan, ih]

/-- the same for the current tree's builders -/
theorem tree_rebuild_independent_of_history (p : Plan) (ns : List Nat) :
    runBuilds (treeWB p) p ns = ns.map fun n => (buildTree p n).2 := by
  simp [buildTree, treeWB_false, rebuild_independent_of_history]

/-! ### 3. the model builds what the plan as written says -/

/-- `build_matches_doc`: if the plan AS WRITTEN serves a ClientHello of `n` bytes (every range fits, every byte is
    carried), the build succeeds with exactly the layout written, and leaves the plan alone -/
theorem build_matches_doc (p : Plan) (n : Nat) (ivs : List (List (Nat × Nat))) (h : docFlight p n = some ivs) :
    buildFlight false p n = (p, .ok ivs) := by
  unfold docFlight at h
  dsimp only at h
  split at h
  · cases h
  · next hc =>
    simp only [Bool.or_eq_true, Bool.not_eq_true', not_or, Bool.not_eq_true, Bool.not_eq_false] at hc
    split at h
    · injection h with h
      have h1 := build_leaves_plan p n
      have h2 : (buildFlight false p n).2 = .ok ivs := by
        unfold buildFlight
        simp [hc.1, buildDGs_matches_doc p.random n p.dgs hc.2, h]
      exact Prod.ext h1 h2
    · cases h

/-- `redial_flight_served` (current tree): on ONE plan value, for ALL sequences of ClientHello lengths, the k-th
    connection whose length the plan as written serves gets exactly the flight written — whatever the lengths of the
    connections before it were -/
theorem redial_flight_served (p : Plan) (ns : List Nat) (k n : Nat) (ivs : List (List (Nat × Nat)))
    (hk : ns[k]? = some n) (hd : docFlight p n = some ivs) :
    (runBuilds (treeWB p) p ns)[k]? = some (.ok ivs) := by
  rw [tree_rebuild_independent_of_history]
  simp [hk, buildTree, treeWB_false, build_matches_doc p n ivs hd]

/-! ### 4. the documented way to write a plan serves every length -/

/-- tail first, then the head; the middle in a second datagram (Chrome's scatter, as in the documentation of
    `QUICFlightFrames` / `QUICRandomFlightFrames`): all positions relative to the start and the end of the stream -/
def headTail (random : Bool) (h t : Nat) : Plan :=
  { random := random,
    dgs := [{ ranges := [⟨-(t : Int), 0⟩, ⟨0, (h : Int)⟩] }, { ranges := [⟨(h : Int), -(t : Int)⟩] }] }

theorem headTail_flight (random : Bool) (h t n : Nat) (hh : 0 < h) (ht : 0 < t) (hn : h + t < n) :
    buildFlight false (headTail random h t) n =
      (headTail random h t, .ok [[(n - t, n), (0, h)], [(h, n - t)]]) := by
  refine Prod.ext (build_leaves_plan _ _) ?_
  have r1 : resolve ⟨-(t : Int), 0⟩ n = .ok (n - t, n) := by
    have := resolve_of ⟨-(t : Int), 0⟩ n ((n : Int) - t) n
      (by unfold startOf; dsimp only; split <;> omega)
      (by unfold endOf startOf; dsimp only; repeat' split
          all_goals omega) (by omega) (by omega) (by omega)
    rw [this]; congr 2 <;> omega
  have r2 : resolve ⟨0, (h : Int)⟩ n = .ok (0, h) := by
    have := resolve_of ⟨0, (h : Int)⟩ n 0 h
      (by unfold startOf; dsimp only; split <;> omega)
      (by unfold endOf startOf; dsimp only; repeat' split
          all_goals omega) (by omega) (by omega) (by omega)
    rw [this]; congr 2 <;> omega
  have r3 : resolve ⟨(h : Int), -(t : Int)⟩ n = .ok (h, n - t) := by
    have := resolve_of ⟨(h : Int), -(t : Int)⟩ n h ((n : Int) - t)
      (by unfold startOf; dsimp only; split <;> omega)
      (by unfold endOf startOf; dsimp only; repeat' split
          all_goals omega) (by omega) (by omega) (by omega)
    rw [this]; congr 2 <;> omega
  have a1 : 0 < n - t := by omega
  have a2 : n - t < n := by omega
  have a3 : h < n - t := by omega
  cases random <;>
    simp [buildFlight, headTail, buildDGs, buildDG, resolveAll, r1, r2, r3, a2, hh, a3]

/-- that flight can be sent: every byte of the ClientHello is carried, nothing reaches past its end -/
theorem headTail_sendable (h t n : Nat) (hh : 0 < h) (ht : 0 < t) (hn : h + t < n) :
    Sendable [[(n - t, n), (0, h)], [(h, n - t)]] n := by
  constructor
  · intro i hi
    unfold Carried
    by_cases c1 : i < h
    · exact ⟨_, List.mem_cons_self, (0, h), by simp, by simp, c1⟩
    · by_cases c2 : i < n - t
      · exact ⟨[(h, n - t)], by simp, (h, n - t), by simp, by simp; omega, c2⟩
      · exact ⟨_, List.mem_cons_self, (n - t, n), by simp, by simp; omega, hi⟩
  · intro d hd iv hiv
    simp only [List.mem_cons, List.mem_nil_iff, or_false] at hd
    rcases hd with rfl | rfl <;> simp only [List.mem_cons, List.mem_nil_iff, or_false] at hiv
    · rcases hiv with rfl | rfl <;> simp <;> omega
    · subst hiv; simp; omega

/-- `headTail_redial` (current tree): a plan written relative to both ends of the stream serves dial after dial — for ALL
    head/tail sizes and ALL sequences of ClientHello lengths above `h + t`, every connection gets a sendable flight -/
theorem headTail_redial (random : Bool) (h t : Nat) (hh : 0 < h) (ht : 0 < t) (ns : List Nat)
    (hns : ∀ n ∈ ns, h + t < n) :
    runBuilds (treeWB (headTail random h t)) (headTail random h t) ns =
        ns.map (fun n => .ok [[(n - t, n), (0, h)], [(h, n - t)]]) ∧
      ∀ n ∈ ns, Sendable [[(n - t, n), (0, h)], [(h, n - t)]] n := by
  refine ⟨?_, fun n hn => headTail_sendable h t n hh ht (hns n hn)⟩
  rw [tree_rebuild_independent_of_history]
  apply List.map_congr_left
  intro n hn
  simp [buildTree, treeWB_false, headTail_flight random h t n hh ht (hns n hn)]

/-- the hypotheses are satisfiable: Chrome-like head 40 / tail 100, three connections with different ClientHello lengths;
    and the plan as written serves them (the monitor's reading agrees with the theorem's) -/
example : ∀ n ∈ [300, 331, 280], 40 + 100 < n := by decide
example : docFlight (headTail true 40 100) 331 = some [[(231, 331), (0, 40)], [(40, 231)]] := by decide
example : docFlight (headTail false 40 100) 140 = some [[(40, 140), (0, 40)], []] := by decide

/-! ### 5. what goes wrong when a build stores its result in the plan -/

/-- `frozen_plan_witness`: with a resolve that rewrites the range it is called on (the first connection's absolute
    positions stay in the plan), the SAME head/tail plan fails for the second connection as soon as its ClientHello has
    another length: a longer one leaves its last bytes unsent, a shorter one does not resolve at all — although the plan
    as written serves both lengths -/
theorem frozen_plan_witness :
    runBuilds true (headTail true 40 100) [300, 331] =
        [.ok [[(200, 300), (0, 40)], [(40, 200)]], .ok [[(200, 300), (0, 40)], [(40, 200)]]] ∧
      coversAll [[(200, 300), (0, 40)], [(40, 200)]] 331 = false ∧
      runBuilds true (headTail true 40 100) [300, 280] =
        [.ok [[(200, 300), (0, 40)], [(40, 200)]], .err .rangeOOB] ∧
      (docFlight (headTail true 40 100) 331).isSome = true ∧ (docFlight (headTail true 40 100) 280).isSome = true := by
  decide

/-- `redial_flight_verdict`: "every connection on one plan value gets the flight the plan as written lays out for its
    ClientHello" holds exactly for builders that do not write into the plan -/
theorem redial_flight_verdict (wb : Bool) :
    (∀ (p : Plan) (ns : List Nat) (k n : Nat) (ivs : List (List (Nat × Nat))),
        ns[k]? = some n → docFlight p n = some ivs → (runBuilds wb p ns)[k]? = some (.ok ivs)) ↔ wb = false := by
  constructor
  · intro h
    cases wb
    · rfl
    · exfalso
      have := h (headTail true 40 100) [300, 280] 1 280 [[(180, 280), (0, 40)], [(40, 180)]] (by decide) (by decide)
      revert this
      decide
  · rintro rfl p ns k n ivs hk hd
    rw [rebuild_independent_of_history]
    simp [hk, build_matches_doc p n ivs hd]

end Uquic.Props.C02Flight
