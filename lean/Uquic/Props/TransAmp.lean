/-
Tie theorem, anti-amplification limit (property C14): `H.isAmplificationLimited` of Uquic/Model/Amp/Limit.lean
EQUALS the definition regenerated from internal/ackhandler/sent_packet_handler.go (`isAmplificationLimited`) by the
source-to-Lean translator (gofacts/trans.go → Uquic.Generated.TransAck) on every run.
Range hypotheses: none (byte counters are `Nat` in the model; Go: ByteCount int64, `3*bytesReceived` does not
overflow below 2^61 received bytes).
-/
import Uquic.Generated.TransAck
import Uquic.Model.Amp.Limit
import Uquic.Proofs.TransLemmas

namespace Uquic.Props.TransAmp
open Uquic.Proofs.Trans Uquic.Model.Amp
open Uquic.Gen.TransAck

theorem sentPacketHandler_isAmplificationLimited_model_is_source (h : H) :
    h.isAmplificationLimited = sentPacketHandler_isAmplificationLimited h.bytesReceived h.bytesSent h.validated := by
  have c : amplificationFactor = 3 := by decide
  unfold H.isAmplificationLimited sentPacketHandler_isAmplificationLimited
  rw [c]
  cases h.validated <;> bool_tie

example : sentPacketHandler_isAmplificationLimited 100 300 false = true := by decide

end Uquic.Props.TransAmp
