/-
Property C14 — token lifetime / key / Retry policy of a RE-USED Transport (round 5).

`Props.C14` proves what `validateToken` / `handleInitial` accept for GIVEN `maxTokenAge`, key and Retry policy.
Where those three come from is glue in transport.go: `Transport.init` runs once per Transport, `createServer` runs at
every `Listen`.  `Model.Reuse` is that glue for ANY life of a Transport (fields written, `WriteTo` /
`ReadNonQUICPacket` / `Dial`, `Listen`, `Listener.Close`, in any order and number).

* `listener_uses_config_at_listen`      whatever happened to the Transport before, the listener opened now was given
                                        exactly the configuration the application has WRITTEN LAST (lifetime 0 → the
                                        regenerated 24 h default, nil key → the Transport's random key);
* `use_history_is_irrelevant`           two lives that wrote the same last values give the same listener;
* `reused_transport_rejects_stale_token` composition with `C14.token_address_and_age`: on such a listener a NEW_TOKEN
                                        token older than the lifetime written last is not proof of address, however
                                        long the lifetime of an earlier listener / the default was;
* `reused_transport_old_key_rejected`   (ideal AEAD) after the key was replaced, a token sealed under the old key is
                                        treated as absent;
* `cached_lifetime_breaks_it`           kernel-checked witness: FALSE for a Transport that defaults and caches the
                                        lifetime in `init` (the listener keeps the lifetime of the first use).

Tie to the code: token driver op `reuse` (ONE real quic.Transport lives through a generated script, the Initial is shown
to its last listener; compared with `handleInitial` under `Model.Reuse.run`'s listener parameters; monitor
`expired_token_accepted` / `mangled_token_accepted` judge it against the configuration written last, computed from the
op text alone).
-/
import Uquic.Props.C14
import Uquic.Model.Amp.Reuse

namespace Uquic.Props.C14Reuse

open Uquic.Model.Reuse Uquic.Model.Tok

/-- what `init` and the uses preserve: the written lifetime and policy, and the key up to the random default -/
private def Agree (t : T) (f : Cfg) : Prop :=
  t.f.maxTokenAge = f.maxTokenAge ∧ t.f.verify = f.verify ∧ t.f.key.getD randomKey = f.key.getD randomKey

private theorem agree_effective {t : T} {f : Cfg} (h : Agree t f) : effective t.f = effective f := by
  obtain ⟨h1, h2, h3⟩ := h
  simp [effective, h1, h2, h3]

private theorem agree_init {t : T} {f : Cfg} (h : Agree t f) : Agree t.init f := by
  unfold T.init
  split
  · exact h
  · obtain ⟨h1, h2, h3⟩ := h
    exact ⟨h1, h2, by simpa using h3⟩

private theorem init_srv (t : T) : t.init.srv = t.srv := by
  unfold T.init; split <;> rfl

private theorem agree_foldl (ops : List Op) : ∀ (t : T) (f : Cfg), Agree t f →
    Agree (ops.foldl T.step t) (written ops f) := by
  induction ops with
  | nil => intro t f h; exact h
  | cons op ops ih =>
    intro t f h
    obtain ⟨h1, h2, h3⟩ := h
    cases op with
    | setKey k => exact ih _ _ ⟨h1, h2, rfl⟩
    | setAge a => exact ih _ _ ⟨rfl, h2, h3⟩
    | setVerify b => exact ih _ _ ⟨h1, rfl, h3⟩
    | use => exact ih _ _ (agree_init ⟨h1, h2, h3⟩)
    | listen =>
      refine ih _ _ ?_
      simp only [T.step]
      split
      · exact ⟨h1, h2, h3⟩
      · exact agree_init ⟨h1, h2, h3⟩
    | closeListener => exact ih _ _ ⟨h1, h2, h3⟩

/-- `listener_uses_config_at_listen`: for EVERY life `pre` of a Transport after which no listener is open, the
listener that `Listen` opens now was made from the configuration written last — not from anything an earlier use,
an earlier listener or `init` saw. -/
theorem listener_uses_config_at_listen (pre : List Op) (hfree : (run pre).srv = none) :
    (run (pre ++ [.listen])).srv = some (effective (written pre {})) := by
  have hag : Agree (run pre) (written pre {}) := agree_foldl pre {} {} ⟨rfl, rfl, rfl⟩
  have : run (pre ++ [.listen]) = (run pre).step .listen := by simp [run, List.foldl_append]
  rw [this]
  simp only [T.step, hfree, Option.isSome_none, Bool.false_eq_true, if_false]
  rw [agree_effective (agree_init hag)]

example : (run [.setAge 5, .use, .listen, .closeListener, .setAge 7, .setKey 1, .listen]).srv =
    some { key := some 1, maxTokenAge := 7, verify := false } := by decide

/-- two lives that wrote the same last values open the same listener, whatever they did in between -/
theorem use_history_is_irrelevant (p q : List Op) (hp : (run p).srv = none) (hq : (run q).srv = none)
    (hw : written p {} = written q {}) : (run (p ++ [.listen])).srv = (run (q ++ [.listen])).srv := by
  rw [listener_uses_config_at_listen p hp, listener_uses_config_at_listen q hq, hw]

/-- the lifetime written last, defaulted -/
def currentMaxTokenAge (pre : List Op) : Int := (effective (written pre {})).maxTokenAge

/-- `reused_transport_rejects_stale_token`: on the listener of a re-used Transport, `validateToken` does not accept
a NEW_TOKEN token that is older than the lifetime configured NOW (and, by `token_address_and_age`, no token for
another host), whatever lifetime an earlier listener of this Transport ran with. -/
theorem reused_transport_rejects_stale_token (pre : List Op) (hfree : (run pre).srv = none)
    (srv : Cfg) (hs : (run (pre ++ [.listen])).srv = some srv)
    (t : Token) (a : Addr) (now retryAge : Int) (hk : t.isRetryToken = false)
    (hold : now - t.sentTime > currentMaxTokenAge pre) :
    validateToken (some t) a now srv.maxTokenAge retryAge = false := by
  rw [listener_uses_config_at_listen pre hfree] at hs
  cases hs
  cases hv : validateToken (some t) a now (effective (written pre {})).maxTokenAge retryAge with
  | false => rfl
  | true =>
    have := (Uquic.Props.C14.token_address_and_age t a now _ retryAge hv).2.2.2 hk
    unfold currentMaxTokenAge at hold
    omega

example : currentMaxTokenAge [.setAge 0, .use, .setAge 20] = 20 ∧ currentMaxTokenAge [.setAge 20, .use, .setAge 0] = 86400000000000 := by
  decide

/-- the key the listener runs with is the one written last (the random one if none ever was) -/
theorem reused_transport_key (pre : List Op) (hfree : (run pre).srv = none) (k : Nat) (rest : List Op)
    (hpre : pre = rest ++ [.setKey k]) :
    ∃ srv, (run (pre ++ [.listen])).srv = some srv ∧ srv.key = some k := by
  refine ⟨_, listener_uses_config_at_listen pre hfree, ?_⟩
  subst hpre
  have : ∀ (ops : List Op) (f : Cfg), (written (ops ++ [.setKey k]) f).key = some k := by
    intro ops
    induction ops with
    | nil => intro f; rfl
    | cons op ops ih => intro f; cases op <;> exact ih _
  simp [effective, this]

/-- `reused_transport_old_key_rejected`: under the ideal-AEAD hypothesis, a token that is not an output of the
protector under the key configured NOW (e.g. one sealed under the key of an earlier listener of this Transport)
is treated by `handleInitial` exactly like an absent token: Retry or an unverified connection. -/
theorem reused_transport_old_key_rejected (E : Crypto) (C : Codec) (hI : E.Ideal)
    (pre : List Op) (hfree : (run pre).srv = none) (k : Nat) (rest : List Op) (hpre : pre = rest ++ [.setKey k])
    (secretOf : Nat → Bytes) (tok dcid : Bytes) (a : Addr) (now retryAge : Int)
    (hforeign : ∀ nonce data, nonce.length = tokenNonceSize → tok ≠ protect E (secretOf k) nonce data) :
    ∃ srv, (run (pre ++ [.listen])).srv = some srv ∧ srv.key = some k ∧
      handleInitial E C (secretOf k) tok dcid a now srv.maxTokenAge retryAge srv.verify =
        (if srv.verify then .retry else .proceed false dcid none 0) := by
  obtain ⟨srv, hs, hk⟩ := reused_transport_key pre hfree k rest hpre
  exact ⟨srv, hs, hk, (Uquic.Props.C14.mangled_token_is_absent E C hI (secretOf k) tok dcid hforeign a now _ retryAge _).2⟩

/-- `cached_lifetime_breaks_it`: the statement is FALSE for a Transport whose `init` defaults and caches the lifetime:
first use, then `MaxTokenAge = 20`, then `Listen` — the listener runs with the 24 h default. -/
theorem cached_lifetime_breaks_it :
    ∃ pre, (runCached pre).srv = none ∧
      (runCached (pre ++ [.listen])).srv ≠ some (effective (written pre {})) :=
  ⟨[.use, .setAge 20], by decide, by decide⟩

end Uquic.Props.C14Reuse
