/-
Property C17, round 5: "the connection context is cancelled with that cause" on the server when the application
supplies Transport.ConnContext. Model: Uquic.Model.Close.Ctx; tied to server.go by the regenerated facts
`Uquic.Gen.CloseTr.connCtxConstructors` / `connCtxCancelArgs` and end to end by the closee scenarios cc=1..3
(monitors all_same_cause / context_cause_matches on Conn.Context() and on a stream's context).

* `conn_context_wiring_matches`: the tree's wiring hands the cause to both cancel functions.
* `conn_context_cancelled_with_cause`: whatever context ConnContext returns - derived from the one it was given
  or not - Conn.Context() and EVERY context below it (stream contexts, the application's own children) end up
  cancelled with exactly the recorded cause.
* `plain_second_cancel_loses_cause`: with a plain CancelFunc for the connection's own context the cause survives
  only when the application's context happens to be derived from the server's; a fresh one reads context.Canceled.
-/
import Uquic.Model.Close.Ctx
import Uquic.Generated.CloseTr

namespace Uquic.Props.C17Ctx
open Uquic.Model.Close.Ctx

theorem conn_context_wiring_matches :
    wiringOf Uquic.Gen.CloseTr.connCtxConstructors Uquic.Gen.CloseTr.connCtxCancelArgs = ⟨true⟩ := by decide

/-- every context below the connection's own context (id 2) that was not cancelled before carries the cause
    afterwards, in ANY forest of contexts, wherever the application's context hangs -/
theorem conn_context_cancelled_with_cause (f : Forest) (c : Cause) (n : Node) (hn : n ∈ f)
    (hfresh : n.cause = none) (hbelow : n.chain.contains 2 = true) :
    ∃ m ∈ connCancel (wiringOf Uquic.Gen.CloseTr.connCtxConstructors Uquic.Gen.CloseTr.connCtxCancelArgs) f c,
      m.chain = n.chain ∧ m.cause = some c := by
  rw [conn_context_wiring_matches]
  refine ⟨cancelNode 2 c (cancelNode 1 c n), ?_, ?_, ?_⟩
  · unfold connCancel cancel
    simp only [if_true, List.map_map, List.mem_map]
    exact ⟨n, hn, rfl⟩
  · unfold cancelNode; split <;> split <;> rfl
  · have hb : 2 ∈ n.chain := by simpa using hbelow
    unfold cancelNode
    by_cases h1 : 1 ∈ n.chain
    · simp [hfresh, h1]
    · simp [hfresh, h1, hb]

/-- Conn.Context() itself, for the three contexts of handleInitialImpl -/
theorem conn_context_cause (u : List Nat) (c : Cause) :
    causeOf (connCancel (wiringOf Uquic.Gen.CloseTr.connCtxConstructors Uquic.Gen.CloseTr.connCtxCancelArgs) (connCtx u) c) 2 = some c := by
  rw [conn_context_wiring_matches]
  by_cases h1 : 1 ∈ u
  · simp [causeOf, connCancel, cancel, connCtx, cancelNode, h1]
  · simp [causeOf, connCancel, cancel, connCtx, cancelNode, h1]

/-- hypotheses satisfiable both ways: an application context derived from the server's, and a fresh one -/
example : causeOf (connCancel ⟨true⟩ (connCtx [7, 1]) (.err 3)) 2 = some (.err 3)
    ∧ causeOf (connCancel ⟨true⟩ (connCtx [7]) (.err 3)) 2 = some (.err 3) := by decide

theorem plain_second_cancel_loses_cause :
    causeOf (connCancel ⟨false⟩ (connCtx []) (.err 3)) 2 = some .canceled
    ∧ causeOf (connCancel ⟨false⟩ (connCtx [1]) (.err 3)) 2 = some (.err 3)
    ∧ wiringOf ["WithCancelCause", "WithCancel"] ["cause", "none"] = ⟨false⟩ := by decide

end Uquic.Props.C17Ctx
