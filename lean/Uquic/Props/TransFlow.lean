/-
Tie theorems, flow-control window arithmetic (property C04): the integer functions of `Base` in
Uquic/Model/FlowControl.lean EQUAL the definitions regenerated from internal/flowcontrol/base_flow_controller.go by
the source-to-Lean translator (gofacts/trans.go → Uquic.Generated.TransFlow) on every run: `SendWindowSize`,
`IsNewlyBlocked` (both results and the written field), `UpdateSendWindow`, `AddBytesSent`, `addBytesRead`,
`checkFlowControlViolation`.  (`hasWindowUpdate`, `getWindowUpdate`, `maybeAdjustWindowSize` use float64 and are
outside the translated subset; the model emulates them bit-exactly, tied by the flow driver.)

Range hypotheses: none — model and translation are both over `Int` (Go: ByteCount int64; sums of byte counts are
assumed not to overflow int64: offsets are below 2^62).
-/
import Uquic.Generated.TransFlow
import Uquic.Model.FlowControl
import Uquic.Proofs.TransLemmas

namespace Uquic.Props.TransFlow
open Uquic.Proofs.Trans Uquic.Model.FlowControl
open Uquic.Gen.TransFlow

theorem baseFlowController_SendWindowSize_model_is_source (c : Base) :
    c.sendWindowSize = baseFlowController_SendWindowSize c.bytesSent c.sendWindow := by
  unfold Base.sendWindowSize baseFlowController_SendWindowSize; tie_arith

theorem baseFlowController_IsNewlyBlocked_model_is_source (c : Base) :
    (c.isNewlyBlocked.2.1, c.isNewlyBlocked.2.2) = baseFlowController_IsNewlyBlocked c.bytesSent c.lastBlockedAt c.sendWindow ∧
    c.isNewlyBlocked.1.lastBlockedAt = baseFlowController_IsNewlyBlocked_set_lastBlockedAt c.bytesSent c.lastBlockedAt c.sendWindow := by
  unfold Base.isNewlyBlocked baseFlowController_IsNewlyBlocked baseFlowController_IsNewlyBlocked_set_lastBlockedAt
  rw [← baseFlowController_SendWindowSize_model_is_source]
  generalize c.sendWindowSize = w
  constructor <;> (repeat' split) <;> first | rfl | omega | (simp_all <;> omega) | simp_all

theorem baseFlowController_UpdateSendWindow_model_is_source (c : Base) (offset : Int) :
    (c.updateSendWindow offset).2 = baseFlowController_UpdateSendWindow offset c.sendWindow ∧
    (c.updateSendWindow offset).1.sendWindow = baseFlowController_UpdateSendWindow_set_sendWindow offset c.sendWindow := by
  unfold Base.updateSendWindow baseFlowController_UpdateSendWindow baseFlowController_UpdateSendWindow_set_sendWindow
  constructor <;> (repeat' split) <;> first | rfl | omega | (simp_all <;> omega) | simp_all

theorem baseFlowController_AddBytesSent_model_is_source (c : Base) (n : Int) :
    (c.addBytesSent n).bytesSent = baseFlowController_AddBytesSent_set_bytesSent n c.bytesSent := by
  unfold Base.addBytesSent baseFlowController_AddBytesSent_set_bytesSent; (try simp only []) <;> omega

theorem baseFlowController_addBytesRead_model_is_source (c : Base) (n : Int) :
    (c.addBytesRead n).bytesRead = baseFlowController_addBytesRead_set_bytesRead n c.bytesRead := by
  unfold Base.addBytesRead baseFlowController_addBytesRead_set_bytesRead; (try simp only []) <;> omega

theorem baseFlowController_checkFlowControlViolation_model_is_source (c : Base) :
    c.checkFlowControlViolation = baseFlowController_checkFlowControlViolation c.highestReceived c.receiveWindow := by
  have op : Uquic.Gen.Flowcontrol.violationCmpOp = 2 := by decide
  unfold Base.checkFlowControlViolation baseFlowController_checkFlowControlViolation cmp
  rw [op]
  bool_tie

example : baseFlowController_IsNewlyBlocked 100 50 100 = (true, 100) := by decide

end Uquic.Props.TransFlow
