/-
Property C08, "every value the encoders can produce parses back to an equal value" — for the one encoder that
is handed a slice its CALLER keeps using: `wire.ComposeVersionNegotiation(dest, src, versions)`.

A server's Transport composes a Version Negotiation packet for every packet with an unsupported version, each
time from the same `versions` slice (assembled by the application, usually with `append`, so with spare
capacity), and with connection IDs that are windows on a receive buffer.  The list with the greased (reserved)
version comes from `protocol.GetGreasedVersions`, a helper outside the anchored files.  `Props.C08.
version_negotiation_roundtrip` says a packet parses back to the list it was composed FROM; whether that list is
still the supported versions at the hundredth packet is a question about which memory the helper writes.

The theorems are about the memory model `Model.Wire.VNHeap` (slices as windows on backing arrays; Go's
`make`, `copy`), over ALL heaps, ALL `versions` slices (any offset, length and SPARE CAPACITY), ALL sequences
of requests with arbitrary random positions, reserved versions and first bytes:

* `caller_memory_untouched`         no array that existed before the first packet is written by any compose:
                                    the versions read the same, so do the cells behind them up to the
                                    capacity, so do the connection IDs' buffers (no hypothesis at all);
* `packets_are_as_specified`        packet `i` is `composeVersionNegotiation` of request `i`'s connection IDs
                                    and of the ORIGINAL supported versions with `reserved_i` at `pos_i`;
* `every_packet_parses_to_supported` … hence packet `i` parses (`Props.C08.version_negotiation_roundtrip`) to
                                    request `i`'s connection IDs and that list;
* `listed_versions_are_supported`   … and removing the entry at `pos_i` — or, when no supported version is
                                    itself reserved, dropping the reserved entries — leaves exactly the
                                    supported versions, in order.

Negative witnesses (kernel `decide`): for the rewrite of the helper with `slices.Insert(supported, pos,
reserved)` the statements are FALSE as soon as the slice has spare capacity (`insert_rewrite_corrupts_caller_
list`, `insert_rewrite_second_packet_wrong`), and indistinguishable without — so the model tells the two apart,
and the driver must (and does) use slices with spare capacity.

Tie to the code: ops `vnc` of driver `wire` (real `ComposeVersionNegotiation` / `GetGreasedVersions` sequences
on one slice with canary cells in front and behind; the oracle runs this model with the random draws recovered
from the output, DESIGN §3.3; monitors `caller_memory_untouched`, `vn_lists_supported`).
Helper lemmas: Uquic/Proofs/VNHeap.lean.
-/
import Uquic.Props.C08
import Uquic.Proofs.VNHeap

namespace Uquic.Props.C08Alias

open Uquic.Model.TokenHeap Uquic.Model.Wire Uquic.Model.Wire.VNHeap Uquic.Proofs.TokenHeap Uquic.Proofs.VNHeap

/-- the state before the first packet: the caller's heap, nothing sent -/
def start (h0 : Heap) : Srv := { heap := h0 }

/-- the `versions` slice lies inside an array of the caller's heap -/
def SupInHeap (h0 : Heap) (sup : Slice) : Prop := sup.arr < h0.length ∧ (bytesOf h0 sup).length = sup.len

/-- No compose writes to anything the caller owns: every array of the caller's heap — the backing array of
    `versions` with its spare capacity, the receive buffers the connection IDs point into, anything else — is
    cell for cell what it was.  For ALL positions (even illegal ones), capacities and slices. -/
theorem caller_memory_untouched (h0 : Heap) (sup : Slice) (qs : List Req) :
    (∀ a, a < h0.length → readArr (serve sup (start h0) qs).heap a = readArr h0 a) ∧
    (∀ s : Slice, s.arr < h0.length →
      bytesOf (serve sup (start h0) qs).heap s = bytesOf h0 s ∧ slack (serve sup (start h0) qs).heap s = slack h0 s) := by
  have k := (serve_keeps h0 sup qs (start h0) ⟨Nat.le_refl _, fun _ _ => rfl⟩).2
  exact ⟨k, fun s hs => ⟨read_congr _ _ _ (k _ hs), slack_congr _ _ _ (k _ hs)⟩⟩

theorem serve_inv (h0 : Heap) (sup : Slice) (qs : List Req) (hs : SupInHeap h0 sup) (hq : ∀ q ∈ qs, ReqOK h0 sup q) :
    Inv h0 sup (serve sup (start h0) qs) qs := by
  simpa using inv_serve h0 sup qs hs.1 hs.2 hq (start h0) [] (inv_init h0 sup)

/-- every packet is composed from the ORIGINAL supported versions, however many packets went before -/
theorem packets_are_as_specified (h0 : Heap) (sup : Slice) (qs : List Req) (hs : SupInHeap h0 sup)
    (hq : ∀ q ∈ qs, ReqOK h0 sup q) :
    (serve sup (start h0) qs).pkts = qs.map (specPkt h0 sup) :=
  (serve_inv h0 sup qs hs hq).pkts

/-- versions and connection IDs have wire-representable sizes -/
def Sizes (h0 : Heap) (sup : Slice) (q : Req) : Prop :=
  (bytesOf h0 q.dest).length < 256 ∧ (bytesOf h0 q.src).length < 256 ∧ q.reserved < 2 ^ 32 ∧ ∀ v ∈ bytesOf h0 sup, v < 2 ^ 32

/-- packet `i` parses to request `i`'s connection IDs and to the supported versions — as they were before
    the first packet — with request `i`'s reserved version at its position -/
theorem every_packet_parses_to_supported (h0 : Heap) (sup : Slice) (qs : List Req) (hs : SupInHeap h0 sup)
    (hq : ∀ q ∈ qs, ReqOK h0 sup q) (hz : ∀ q ∈ qs, Sizes h0 sup q) (i : Nat) (hi : i < qs.length) :
    ∃ pkt, (serve sup (start h0) qs).pkts[i]? = some pkt ∧
      Hdr.parseVersionNegotiation pkt =
        .ok (toBytes (bytesOf h0 (qs[i]).dest), toBytes (bytesOf h0 (qs[i]).src),
             insertAt (bytesOf h0 sup) (qs[i]).pos (qs[i]).reserved) := by
  refine ⟨specPkt h0 sup qs[i], ?_, ?_⟩
  · rw [packets_are_as_specified h0 sup qs hs hq, List.getElem?_map, List.getElem?_eq_getElem hi]; rfl
  · have z := hz qs[i] (List.getElem_mem hi)
    unfold specPkt
    apply Uquic.Props.C08.version_negotiation_roundtrip
    · simpa [toBytes] using z.1
    · simpa [toBytes] using z.2.1
    · exact insertAt_ne_nil _ _ _
    · intro v hv
      rcases insertAt_mem _ _ _ _ hv with h | h
      · rw [h]; exact z.2.2.1
      · exact z.2.2.2 v h

/-- what the client learns from such a list: removing the entry at the drawn position gives the supported
    versions back, in order; the entry there is the reserved one; and when no supported version is itself of
    the reserved form, dropping the reserved entries gives exactly the supported versions -/
theorem listed_versions_are_supported (supported : List Nat) (pos reserved : Nat) (hp : pos ≤ supported.length) :
    (insertAt supported pos reserved).eraseIdx pos = supported ∧
    (insertAt supported pos reserved)[pos]? = some reserved ∧
    (insertAt supported pos reserved).length = supported.length + 1 ∧
    (isReserved reserved = true → (∀ v ∈ supported, isReserved v = false) →
      (insertAt supported pos reserved).filter (fun v => !isReserved v) = supported) := by
  refine ⟨insertAt_eraseIdx _ _ _ hp, insertAt_getElem _ _ _ hp, insertAt_length _ _ _, ?_⟩
  intro hr hsup
  exact insertAt_filter _ _ _ _ (by simp [hr]) (fun x hx => by simp [hsup x hx])

/-! ### the hypotheses are satisfiable, the statements are not vacuous -/

/-- `versions := make([]Version, 0, 8); append(v2); append(v1)` followed by a receive buffer holding two
    connection IDs -/
def appHeap : Heap := [[0x6b3343cf, 1, 0xc5, 0xc5, 0xc5, 0xc5, 0xc5, 0xc5], [1, 2, 3, 4, 5, 6, 7, 8, 9, 10, 11, 12]]
def appSup : Slice := { arr := 0, off := 0, len := 2, cap := 8 }
def reqA : Req := { dest := ⟨1, 0, 8, 12⟩, src := ⟨1, 8, 4, 4⟩, pos := 0, reserved := 0x1a2a3a4a, first := 7 }
def reqB : Req := { dest := ⟨1, 0, 8, 12⟩, src := ⟨1, 8, 4, 4⟩, pos := 1, reserved := 0xfafafafa, first := 200 }

example : SupInHeap appHeap appSup := ⟨by decide, by decide⟩
example : ∀ q ∈ [reqA, reqB], ReqOK appHeap appSup q := by
  intro q hq
  rcases List.mem_cons.mp hq with rfl | hq
  · exact ⟨by decide, by decide, by decide⟩
  · rcases List.mem_cons.mp hq with rfl | hq
    · exact ⟨by decide, by decide, by decide⟩
    · cases hq
example : isReserved reqA.reserved = true ∧ isReserved reqB.reserved = true ∧ ∀ v ∈ bytesOf appHeap appSup, isReserved v = false := by decide

example : bytesOf (getGreased appHeap appSup 1 0xfafafafa).1 (getGreased appHeap appSup 1 0xfafafafa).2 = [0x6b3343cf, 0xfafafafa, 1] := by
  decide

/-! ### negative witnesses: `slices.Insert(supported, pos, reserved)` -/

/-- with spare capacity behind `versions`, already the first packet rewrites the caller's list: version 2 is
    gone, a reserved version is "supported" … -/
theorem insert_rewrite_corrupts_caller_list :
    bytesOf (serveInsert appSup (start appHeap) [reqA]).heap appSup = [0x1a2a3a4a, 0x6b3343cf] ∧
    bytesOf (serveInsert appSup (start appHeap) [reqA]).heap appSup ≠ bytesOf appHeap appSup := by decide

/-- … and the list the second call returns is no longer the supported versions plus one entry -/
theorem insert_rewrite_second_packet_wrong :
    bytesOf (getGreasedInsert (serveInsert appSup (start appHeap) [reqA]).heap appSup reqB.pos reqB.reserved).1
            (getGreasedInsert (serveInsert appSup (start appHeap) [reqA]).heap appSup reqB.pos reqB.reserved).2
      = [0x1a2a3a4a, 0xfafafafa, 0x6b3343cf] ∧
    ∀ pos, (bytesOf (getGreasedInsert (serveInsert appSup (start appHeap) [reqA]).heap appSup reqB.pos reqB.reserved).1
            (getGreasedInsert (serveInsert appSup (start appHeap) [reqA]).heap appSup reqB.pos reqB.reserved).2).eraseIdx pos
      ≠ bytesOf appHeap appSup := by
  refine ⟨by decide, ?_⟩
  have e : bytesOf (getGreasedInsert (serveInsert appSup (start appHeap) [reqA]).heap appSup reqB.pos reqB.reserved).1
            (getGreasedInsert (serveInsert appSup (start appHeap) [reqA]).heap appSup reqB.pos reqB.reserved).2
      = [0x1a2a3a4a, 0xfafafafa, 0x6b3343cf] := by decide
  rw [e]
  intro pos
  match pos with
  | 0 => decide
  | 1 => decide
  | 2 => decide
  | n + 3 => simp only [List.eraseIdx_cons_succ, List.eraseIdx_nil]; decide

/-- the code itself, on the same inputs: both lists are right -/
example : bytesOf (serve appSup (start appHeap) [reqA, reqB]).heap appSup = [0x6b3343cf, 1] := by decide

/-- without spare capacity (a slice literal, `protocol.SupportedVersions`) the rewrite is indistinguishable —
    which is why the defect class needs slices WITH spare capacity to be seen at all -/
example : bytesOf (serveInsert { arr := 0, off := 0, len := 2, cap := 2 } (start [[0x6b3343cf, 1]]) [reqA, reqB]).heap
      { arr := 0, off := 0, len := 2, cap := 2 } = [0x6b3343cf, 1] := by decide

end Uquic.Props.C08Alias
