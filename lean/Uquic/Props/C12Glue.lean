/-
C12 (round 4) — the glue between what a client advertised and the components that enforce it.

Model: Uquic/Model/UQuic/LimitsGlue.lean (idle timer, handleFrames, the limit check of connIDManager.Add, the
receive side of the flow controllers) and Uquic/Model/UQuic/Limits.lean (`enforced`, now with the per-kind
stream windows of `Conn.newFlowController`). Helpers: Uquic/Proofs/LimitsGlue.lean. Tied to the Go code by the
`limglue` driver (a real client connection built by a hook; every op is compared with this model) and by the
regenerated shape facts `specStreamCountsExact`, `specConnWindowExact`, `streamWindowPerKind`.

1. EXACT: a spec-driven client enforces exactly the stream counts, the connection window and the per-kind stream
   windows it advertised (after /repo ad4f2a6 and c32d004), for every spec and every user Config.
2. credit: a limit once announced is never taken back; a peer within the credit it holds never gets
   FLOW_CONTROL_ERROR; the window update is due no later than the advertised credit is used up (with the stall of
   the single-window configuration before c32d004 as a witness).
3. idle: the idle period starts where RFC 9000 §10.1 says, for every history; every received packet restarts it.
4. connection IDs: the limit is judged after the whole NEW_CONNECTION_ID frame; a peer that issues in order and
   never has more than the advertised number of connection IDs active is never refused.
-/
import Uquic.Proofs.Limits
import Uquic.Proofs.LimitsGlue

namespace Uquic.Props.C12Glue
open Uquic.Gen Uquic.Model.UQuic.Limits Uquic.Model.UQuic.LimitsGlue Uquic.Proofs.Limits Uquic.Proofs.LimitsGlue

/-! ## 1. enforced = advertised -/

/-- FULL: for every spec and every user Config, the connection window, the window of every kind of stream and both
    stream-count limits the components are built with EQUAL the advertised transport parameters. (The remaining
    components — connection IDs, DATAGRAM size, idle timeout — cover the advertised values, `Uquic.Props.C12`.) -/
theorem spec_enforced_eq_advertised (ps : ParamList) (user : Config) :
    (specEnforced ps user).connData = (specAdvertised ps).connData ∧
    (∀ k, (specEnforced ps user).stream k = (specAdvertised ps).stream k) ∧
    (∀ b, (specEnforced ps user).streams b = (specAdvertised ps).streams b) := by
  have f1 : Limits.specConfigCoversAdvertised = true := by decide
  have f2 : Limits.specStreamCountsExact = true := by decide
  have f3 : Limits.specConnWindowExact = true := by decide
  have f4 : Limits.streamWindowPerKind = true := by decide
  simp only [specEnforced, specAdvertised, specConfig, specStreamAdv, f1, f2, f3, f4, if_true, Bool.and_self,
    enforced, advertised, coverConfig, streamWindow]
  refine ⟨trivial, ?_, ?_⟩
  · intro k; cases k <;> rfl
  · intro b; cases b <;> rfl

example : (specEnforced Limits.specParams_QUICFirefox_116A { initialStreamReceiveWindow := 9000000, maxIncomingStreams := 1000 }).streamUni = 1048576 ∧
    (specEnforced Limits.specParams_QUICFirefox_116A { initialStreamReceiveWindow := 9000000, maxIncomingStreams := 1000 }).streamBidiLocal = 12582912 ∧
    (specEnforced Limits.specParams_QUICFirefox_116A { initialStreamReceiveWindow := 9000000, maxIncomingStreams := 1000 }).streamsBidi = 16 := by decide

/-- hence a stream beyond the advertised count is refused, and one within it is not: STREAM_LIMIT_ERROR fires
    exactly above the advertised value -/
theorem stream_limit_exact (ps : ParamList) (user : Config) (bidi : Bool) (num : Int) :
    (PeerEvent.openStream bidi num).fires (specEnforced ps user) = true ↔ num > (specAdvertised ps).streams bidi := by
  rw [← (spec_enforced_eq_advertised ps user).2.2 bidi]
  simp [PeerEvent.fires]

/-- … in the glue model of the streams map's check -/
theorem open_fires_iff (ps : ParamList) (user : Config) (bidi : Bool) (num : Int) :
    openFires ((specEnforced ps user).streams bidi) num = true ↔ num > (specAdvertised ps).streams bidi := by
  rw [(spec_enforced_eq_advertised ps user).2.2 bidi]
  simp [openFires]

/-- the cap of auto-tuning is never below the window a stream starts with (a cap below the window would leave the
    tuner no value it may pick) — for every Config and every record -/
theorem stream_window_cap_covers (c : Config) (p : OwnParams) (k : StreamKind) :
    streamWindow c (some p) k ≤ streamWindowCap c (some p) k := by
  simp only [streamWindow, streamWindowCap]
  omega

/-! ## 2. credit -/

/-- a limit once announced is never taken back: `getWindowUpdate` never lowers `receiveWindow`, the value it
    returns IS the new limit, and the window size never shrinks — for every state between two announcements,
    every time and every RTT -/
theorem window_never_revoked (c : RW) (now rtt : Int) (h : RWInv c) :
    c.window ≤ (c.update now rtt).1.window ∧ c.size ≤ (c.update now rtt).1.size ∧
    ((c.update now rtt).2 = 0 ∨ (c.update now rtt).2 = (c.update now rtt).1.window) := by
  obtain ⟨h1, _, _, _, h5, h6⟩ := update_spec c now rtt h
  refine ⟨h1, h5, ?_⟩
  rcases h6 with ⟨e, _⟩ | ⟨e, _⟩
  · exact Or.inl e
  · exact Or.inr e

/-- the invariant is not vacuous: a fresh controller, and one after reads and an update -/
example : RWInv (RW.new 1048576 6291456) := new_inv _ _ (by decide)

/-- FULL, histories: one stream and its connection, started with windows `ws`, `wc` (what the peer was told),
    any interleaving of data, reads and window updates at any times: as long as the peer stays within the
    largest limits it was ever told, no FLOW_CONTROL_ERROR is raised. -/
theorem no_flow_error_within_credit (ws caps wc capc : Int) (hs : 0 ≤ ws) (hc : 0 ≤ wc) (ops : List FlowOp)
    (hconf : Conformant { st := RW.new ws caps, conn := RW.new wc capc, cs := ws, cc := wc } ops) :
    (FS.run { st := RW.new ws caps, conn := RW.new wc capc, cs := ws, cc := wc } ops).err = false :=
  (run_inv _ ops ⟨new_inv ws caps hs, new_inv wc capc hc, Int.le_refl _, Int.le_refl _⟩ hconf rfl).2

/-- a history at the boundary: the whole window, a read of 60 %, an update, data up to the new limit -/
example : Conformant { st := RW.new 1000 4000, conn := RW.new 3000 8000, cs := 1000, cc := 3000 }
    [.recv 1000 1, .read 600, .supd 2 100, .recv 2600 3, .read 1000, .cupd 4 100, .supd 4 100] := by decide

/-- … instantiated: a spec-driven client's stream of kind `k` starts with exactly the advertised window, so a peer
    within the advertised value and every later MAX_STREAM_DATA / MAX_DATA is never answered with
    FLOW_CONTROL_ERROR -/
theorem spec_no_flow_error_within_credit (ps : ParamList) (user : Config) (k : StreamKind) (caps capc : Int)
    (hs : 0 ≤ (specAdvertised ps).stream k) (hc : 0 ≤ (specAdvertised ps).connData) (ops : List FlowOp)
    (hconf : Conformant { st := RW.new ((specEnforced ps user).stream k) caps, conn := RW.new (specEnforced ps user).connData capc,
                          cs := (specAdvertised ps).stream k, cc := (specAdvertised ps).connData } ops) :
    (FS.run { st := RW.new ((specEnforced ps user).stream k) caps, conn := RW.new (specEnforced ps user).connData capc,
              cs := (specAdvertised ps).stream k, cc := (specAdvertised ps).connData } ops).err = false := by
  obtain ⟨e1, e2, _⟩ := spec_enforced_eq_advertised ps user
  rw [e1, e2 k] at hconf ⊢
  exact no_flow_error_within_credit _ caps _ capc hs hc ops hconf

/-- credit is renewed no later than it is used up: once the application has consumed everything up to the
    announced limit, a window update is due — whatever the window size -/
theorem credit_renewed (c : RW) (hsize : 0 ≤ c.size) (hused : c.bytesRead = c.window) : c.hasUpdate = true := by
  rw [hasUpdate_iff]
  have := updateThreshold_nonneg c.size hsize
  omega

/-- … and the update raises the limit (by at least the window size) -/
theorem credit_renewed_raises (c : RW) (now rtt : Int) (h : RWInv c) (hpos : 0 < c.size) (hused : c.bytesRead = c.window) :
    c.window < (c.update now rtt).2 := by
  have hu := credit_renewed c h.size hused
  obtain ⟨_, _, h3, _, h5, h6⟩ := update_spec c now rtt h
  rcases h6 with ⟨_, e⟩ | ⟨_, e2⟩
  · -- "nothing to announce" is impossible here
    exfalso
    unfold RW.update at e
    rw [hu] at e
    simp only [Bool.not_true, Bool.false_eq_true, if_false] at e
    have hw : ({ c.adjust now rtt with window := (c.adjust now rtt).bytesRead + (c.adjust now rtt).size } : RW).window = c.window := by
      rw [e]
    obtain ⟨a1, _, _, a4, _⟩ := adjust_spec c now rtt
    simp only [] at hw
    omega
  · rw [e2]; omega

/-- with the EXACT windows of a spec-driven client the peer's credit is the client's limit: when the peer has sent
    all it was told for a stream of kind `k` and the application has read it, the MAX_STREAM_DATA is due
    (threshold reached no later than the advertised credit is exhausted); the same for the connection -/
theorem spec_credit_renewed_when_exhausted (ps : ParamList) (user : Config) (k : StreamKind) (cap : Int)
    (hw : 0 ≤ (specAdvertised ps).stream k) :
    ({ RW.new ((specEnforced ps user).stream k) cap with
        highest := (specAdvertised ps).stream k, bytesRead := (specAdvertised ps).stream k } : RW).hasUpdate = true := by
  apply credit_renewed
  · show 0 ≤ (specEnforced ps user).stream k
    rw [(spec_enforced_eq_advertised ps user).2.1 k]; exact hw
  · show (specAdvertised ps).stream k = (specEnforced ps user).stream k
    rw [(spec_enforced_eq_advertised ps user).2.1 k]

theorem spec_conn_credit_renewed_when_exhausted (ps : ParamList) (user : Config) (cap : Int)
    (hw : 0 ≤ (specAdvertised ps).connData) :
    ({ RW.new (specEnforced ps user).connData cap with
        highest := (specAdvertised ps).connData, bytesRead := (specAdvertised ps).connData } : RW).hasUpdate = true := by
  apply credit_renewed
  · show 0 ≤ (specEnforced ps user).connData
    rw [(spec_enforced_eq_advertised ps user).1]; exact hw
  · show (specAdvertised ps).connData = (specEnforced ps user).connData
    rw [(spec_enforced_eq_advertised ps user).1]

/-- WITNESS of the defect repaired by /repo c32d004 (fixes/C12-window-above-advertised-stalls.diff): with ONE
    12 MiB window for all kinds (Firefox: max of 12 MiB / 1 MiB / 1 MiB) a server that has used up the 1 MiB it
    was told for a unidirectional stream, all of it read, is owed no window update — it stalls; with the
    advertised window the update is due -/
theorem stall_before_repair_witness :
    ({ RW.new 12582912 12582912 with highest := 1048576, bytesRead := 1048576 } : RW).hasUpdate = false ∧
    ({ RW.new 1048576 12582912 with highest := 1048576, bytesRead := 1048576 } : RW).hasUpdate = true := by decide

/-- the general shape of that defect (`Uquic.Spec.LimitsMon.starves`): a local window `w` above the credit `adv`
    the peer holds starves it exactly when `w - adv > ⌊0.75·w⌋` -/
theorem starves_iff (w adv cap : Int) :
    ({ RW.new w cap with highest := adv, bytesRead := adv } : RW).hasUpdate = false ↔ w - adv > (3 * w) / 4 := by
  show decide (w - adv ≤ (3 * w) / 4) = false ↔ _
  rw [decide_eq_false_iff_not]
  omega

/-! ## 3. idle timer -/

/-- FULL: for every history of packets received and sent, `idleTimeoutStartTime` is where RFC 9000 §10.1 puts it:
    the last packet received, or the first ack-eliciting packet sent after it, whichever is later -/
theorem idle_start_is_rfc9000_10_1 (evs : List IdleEv) : (Idle.run {} evs).start = specStart 0 none evs :=
  start_eq_spec {} evs

/-- every received packet restarts the idle period — ack-eliciting or not, whatever was sent before — and nothing
    the client sends afterwards moves the start before it -/
theorem idle_restarts_on_every_received_packet (before : List IdleEv) (t : Int) (sents : List IdleEv)
    (hs : ∀ e ∈ sents, ∃ t' ae, e = .sent t' ae) :
    t ≤ (Idle.run {} (before ++ [.recv t] ++ sents)).start := by
  rw [List.append_assoc, run_append, run_append]
  have h1 := start_ge_lastRecv ((((Idle.run {} before).run [.recv t])).run sents)
  rw [run_sents_lastRecv _ sents hs] at h1
  exact h1

/-- with a clock that does not run backwards the idle period never starts in the future -/
theorem idle_start_not_in_future (evs : List IdleEv) (hm : Monotone 0 evs) :
    (Idle.run {} evs).start ≤ lastTime 0 evs :=
  start_le_now {} 0 evs hm (Int.le_refl _) (by intro t h; cases h)

example : Monotone 0 [.sent 5 true, .recv 20 , .sent 25 false, .sent 30 true, .sent 40 true] ∧
    (Idle.run {} [.sent 5 true, .recv 20, .sent 25 false, .sent 30 true, .sent 40 true]).start = 30 := by decide

/-- hence: when the client advertised an idle timeout that its Config covers, it does not close the connection
    before (last packet received + the timeout the peer may count on), whatever it sent in between, for every
    peer value and every PTO -/
theorem no_idle_close_before_promised (advIdle cfgIdle peerIdle pto3 t : Int) (before sents : List IdleEv)
    (hs : ∀ e ∈ sents, ∃ t' ae, e = .sent t' ae) (ha : 0 < advIdle) (hc : advIdle ≤ cfgIdle) :
    match promisedIdle advIdle peerIdle with
    | some p => t + p ≤ (Idle.run {} (before ++ [.recv t] ++ sents)).deadline
                  (if peerIdle > 0 then min cfgIdle peerIdle else cfgIdle) pto3
    | none => False := by
  have hstart := idle_restarts_on_every_received_packet before t sents hs
  unfold promisedIdle Idle.deadline
  rw [if_pos ha]
  by_cases hp : peerIdle > 0
  · simp only [hp, if_true]
    omega
  · simp only [hp, if_false]
    omega

/-! ## 4. connection IDs -/

/-- the limit of `connIDManager.Add` is judged on the state AFTER the whole frame: a frame after which the client
    holds at most `adv ≤ max(MaxActiveConnectionIDs, connIDLimit)` connection IDs is never refused -/
theorem connid_limit_after_whole_frame (m : Cid) (seq rpt adv : Nat) (hadv : adv ≤ cidBound (m.add seq rpt).1)
    (hcount : (m.add seq rpt).1.inUse.length ≤ adv) : (m.addFrame seq rpt).2.2 = false := by
  simp only [Cid.addFrame, Cid.inUse, List.length_cons, decide_eq_false_iff_not] at hcount ⊢
  omega

/-- what a peer sends that issues connection IDs in order (sequence numbers n+1, n+2, … as RFC 9000 §5.1.1
    requires), each frame with its Retire Prior To; the result: was the frame refused? -/
def issue (m : Cid) (n : Nat) : List Nat → List Bool
  | [] => []
  | r :: rs => (m.addFrame (n + 1) r).2.2 :: issue (m.addFrame (n + 1) r).1 (n + 1) rs

/-- the peer never has more than `L` connection IDs active: after the frame with sequence number s and Retire
    Prior To r it counts r..s, i.e. s + 1 - r -/
def PeerWithin (L n : Nat) : List Nat → Prop
  | [] => True
  | r :: rs => r ≤ n + 1 ∧ (n + 1) + 1 - r ≤ L ∧ PeerWithin L (n + 1) rs

/-- (decidability of the hypotheses, so that the examples below are checked by evaluation) -/
def PeerWithin.dec (L : Nat) : (n : Nat) → (rs : List Nat) → Decidable (PeerWithin L n rs)
  | _, [] => isTrue trivial
  | n, r :: rs =>
    match (inferInstance : Decidable (r ≤ n + 1)), (inferInstance : Decidable ((n + 1) + 1 - r ≤ L)), PeerWithin.dec L (n + 1) rs with
    | isTrue a, isTrue b, isTrue c => isTrue ⟨a, b, c⟩
    | isFalse a, _, _ => isFalse (fun h => a h.1)
    | _, isFalse b, _ => isFalse (fun h => b h.2.1)
    | _, _, isFalse c => isFalse (fun h => c h.2.2)
instance (L n : Nat) (rs : List Nat) : Decidable (PeerWithin L n rs) := PeerWithin.dec L n rs

theorem issue_never_refused (m : Cid) (n r0 L : Nat) (rs : List Nat) (h : CidInv m n r0) (hL : L ≤ cidBound m)
    (hp : PeerWithin L n rs) : ∀ e ∈ issue m n rs, e = false := by
  induction rs generalizing m n r0 with
  | nil => intro e he; cases he
  | cons r rs ih =>
    obtain ⟨h1, h2, h3⟩ := hp
    obtain ⟨inv', hlim⟩ := add_inv m n r0 r h h1
    have hb : cidBound (m.add (n + 1) r).1 = cidBound m := by simp only [cidBound, hlim]
    have hlen : (m.add (n + 1) r).1.inUse.length ≤ (n + 1) + 1 - r :=
      asc_length_le _ r (n + 1) inv'.asc (fun x hx => ⟨inv'.ge x hx, inv'.le x hx⟩)
    have hno : (m.addFrame (n + 1) r).2.2 = false :=
      connid_limit_after_whole_frame m (n + 1) r L (by rw [hb]; exact hL) (by omega)
    intro e he
    simp only [issue, List.mem_cons] at he
    rcases he with rfl | he
    · exact hno
    · exact ih (m.addFrame (n + 1) r).1 (n + 1) r inv' (by show L ≤ cidBound (m.add (n + 1) r).1; rw [hb]; exact hL) h3 e he

/-- FULL (in-order delivery): a client that advertised `L ≤ max(MaxActiveConnectionIDs, connIDLimit)` never answers
    a peer that issues connection IDs in order and never has more than `L` of them active with
    CONNECTION_ID_LIMIT_ERROR — in particular not when the peer is AT the limit and rotates with a NEW_CONNECTION_ID
    whose Retire Prior To retires the connection ID in use -/
theorem conformant_peer_never_limit_error (limit L : Nat) (rs : List Nat)
    (hL : L ≤ max Protocol.MaxActiveConnectionIDs.toNat limit) (hp : PeerWithin L 0 rs) :
    ∀ e ∈ issue { limit := limit } 0 rs, e = false :=
  issue_never_refused { limit := limit } 0 0 L rs
    ⟨trivial, by simp, by simp, by simp, by simp⟩ hL hp

/-- Firefox's 8: seven more connection IDs, then rotation at the limit, one and two at a time -/
example : PeerWithin 8 0 [0, 0, 0, 0, 0, 0, 0, 1, 2, 4, 4, 5] := by decide
example : issue { limit := 8 } 0 [0, 0, 0, 0, 0, 0, 0, 1, 2, 4, 4, 5] = List.replicate 12 false := by decide

/-- the order matters: judging the limit right after queueing the new connection ID, BEFORE Retire Prior To is
    applied to the one in use, refuses the same conformant peer (8 held, frame 8 retires number 0) -/
example : (decide (((Cid.addFrame { limit := 8, queue := [1, 2, 3, 4, 5, 6, 7] } 8 1).1.queue.length + 1 ≥ 8)) = true) ∧
    (Cid.addFrame { limit := 8, queue := [1, 2, 3, 4, 5, 6, 7] } 8 1).2.2 = false := by decide

/-! ## 5. handleFrames -/

/-- a received packet restarts the idle timer before its frames are looked at, and no frame handler touches it:
    whatever the frames do (even an error), the idle state afterwards is "received at `t`" -/
theorem packet_restarts_idle (g : Glue) (t : Int) (fs : List Frame) : (g.packet t fs).1.idle = g.idle.recv t := by
  have hframe : ∀ (g : Glue) (f : Frame), (g.frame t f).1.idle = g.idle := by
    intro g f
    have hset : ∀ (g : Glue) (sid : Int) (st : RW), (g.setStream sid st).idle = g.idle := by
      intro g sid st; unfold Glue.setStream; split <;> rfl
    cases f with
    | ping => rfl
    | ncid seq rpt => simp only [Glue.frame]; split <;> rfl
    | strm sid off len fin =>
      have hcc : ∀ (g : Glue) (sid : Int), (g.checkCompleted sid).idle = g.idle := by
        intro g sid; unfold Glue.checkCompleted; split <;> (try split) <;> rfl
      have hab : ∀ (g : Glue) (sid : Int), (g.abandon sid).idle = g.idle := by
        intro g sid; unfold Glue.abandon; split
        · rfl
        · rw [hcc]; simp only [hset]
      have hacc : ∀ (g : Glue), (g.accept t sid off len fin).1.idle = g.idle := by
        intro g
        simp only [Glue.accept]
        split <;> (try split) <;> (try split) <;> (try split) <;> (try split) <;> (try split) <;>
          (try rw [hab]) <;> simp only [hset]
      have hsrv : ∀ (uni : Bool), (g.strmServer uni t sid off len fin).1.idle = g.idle := by
        intro uni
        simp only [Glue.strmServer]
        split <;> (try rw [hacc]) <;> (try rfl)
      simp only [Glue.frame]
      split <;> (try split) <;> (try split) <;> (try simp only [hacc]) <;> (try simp only [hsrv])
    | dgram len => simp only [Glue.frame]; split <;> (try split) <;> rfl
  have hframes : ∀ (fs : List Frame) (g : Glue), (g.frames t fs).1.idle = g.idle := by
    intro fs
    induction fs with
    | nil => intro g; rfl
    | cons f fs ih =>
      intro g
      simp only [Glue.frames]
      split
      · simp only [ih, hframe]
      · exact hframe g f
  unfold Glue.packet
  simp only []
  split
  · rw [hframes]
  · show (Glue.frames _ t fs).1.idle = _
    rw [hframes]

end Uquic.Props.C12Glue
