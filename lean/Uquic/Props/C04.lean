/-
Property C04 — flow control: senders within credit, receivers enforce it.

All theorems are about `Uquic.Model.FlowControl` (one connection controller + its stream
controllers, every Go method one atomic step) and quantify over *all* histories: `Reach s` is any
state reachable from a fresh connection by any interleaving of operations that respect the caller
contract `Pre` (non-negative offsets; `AddBytesRead` only for bytes that were received;
`AddBytesSent` only up to `SendWindowSize()`), with arbitrary times, RTTs and callback answers.
`ReachOk` additionally says that no fatal error (FLOW_CONTROL_ERROR, FINAL_SIZE_ERROR, panic) has
occurred yet, i.e. the connection is still open.

The theorems depend on the regenerated facts `Uquic.Gen.Flowcontrol.*` (comparison operators of
the window checks, nil-guard shape facts, tuning constants) through the model.
-/
import Uquic.Proofs.FlowMono
import Uquic.Proofs.FlowOk
import Uquic.Proofs.FlowAux
import Uquic.Model.FlowInit

set_option linter.unusedVariables false

namespace Uquic.Props.C04
open Uquic.Model.FlowControl Uquic.Proofs.Flow

/-! ## 1. the sender stays within the credit the peer advertised -/

/-- Per stream and summed over the connection, the bytes sent never exceed the send window
    (which is the largest limit the peer ever advertised, see `send_window_is_largest_seen`), and
    the connection counter is exactly the sum of the stream counters. -/
theorem sender_within_credit {s : State} (h : Reach s) :
    (∀ st ∈ s.streams, 0 ≤ st.base.bytesSent ∧ st.base.bytesSent ≤ st.base.sendWindow) ∧
    s.conn.bytesSent = sumBy (·.base.bytesSent) s.streams ∧
    s.conn.bytesSent ≤ s.conn.sendWindow := by
  have hi := h.inv
  exact ⟨fun st hst => ⟨(hi.streams st hst).bs0, (hi.streams st hst).bs⟩, hi.sent, hi.conn.bs⟩

/-- MAX_STREAM_DATA / MAX_DATA frames — in any order, duplicated or stale — never decrease a send
    window: a frame sets it to the maximum of the old limit and the frame's value, and no other
    operation (except the 0-RTT-rejection reset, which discards all streams) moves it. -/
theorem send_window_monotone {s : State} (h : Reach s) (op : Op) (hp : Pre s op) (hr : op ≠ .reset) :
    s.conn.sendWindow ≤ (step s op).1.conn.sendWindow ∧
    (∀ v, op = .cmax v → (step s op).1.conn.sendWindow = max s.conn.sendWindow v) ∧
    ((∀ v, op ≠ .cmax v) → (step s op).1.conn.sendWindow = s.conn.sendWindow) ∧
    ∀ id st, s.streams[id]? = some st → ∃ st', (step s op).1.streams[id]? = some st' ∧
      st.base.sendWindow ≤ st'.base.sendWindow ∧
      (∀ v, op = .smax id v → st'.base.sendWindow = max st.base.sendWindow v) ∧
      ((∀ v, op ≠ .smax id v) → st'.base.sendWindow = st.base.sendWindow) := by
  have hno : (step s op).2 ≠ .resetOk := fun e => hr (resetOk_only_reset e)
  have c := conn_step op h.inv hp
  refine ⟨(c.send hno).sw, c.swMax, fun hne => c.swFrame hne hno, ?_⟩
  intro id st hs
  obtain ⟨st', h1, h2⟩ := stream_step op h.inv hp hs hno
  exact ⟨st', h1, h2.send.sw, h2.swMax, h2.swFrame⟩

/-- the largest MAX_DATA value seen in a history, starting from limit `w` -/
def largestMaxData (w : Int) : List Op → Int
  | [] => w
  | .cmax v :: ops => largestMaxData (max w v) ops
  | _ :: ops => largestMaxData w ops

/-- After any history (without a 0-RTT reset) the connection send window is exactly the largest
    MAX_DATA the peer ever sent — reordering and duplication are irrelevant. -/
theorem send_window_is_largest_seen {s : State} (h : Reach s) (ops : List Op) (hv : ValidFrom s ops)
    (hn : ∀ op ∈ ops, op ≠ .reset) :
    (run s ops).conn.sendWindow = largestMaxData s.conn.sendWindow ops := by
  induction ops generalizing s with
  | nil => rfl
  | cons op ops ih =>
    have hr : op ≠ .reset := hn op (by simp)
    obtain ⟨_, m1, m2, _⟩ := send_window_monotone h op hv.1 hr
    have ih' := ih (Reach.step op h hv.1) hv.2 (fun o ho => hn o (by simp [ho]))
    simp only [run]
    rw [ih']
    cases op with
    | cmax v => simp only [largestMaxData]; rw [m1 v rfl]
    | _ => simp only [largestMaxData]; rw [m2 (by intro v; simp)]

/-! ## 2. "newly blocked" is reported at most once per limit -/

/-- the offsets reported by `connFlowController.IsNewlyBlocked() = (true, offset)` along a history -/
def connBlockedReports (s : State) : List Op → List Int
  | [] => []
  | op :: ops =>
    (match op, (step s op).2 with
     | .cblocked, .blocked true off => [off]
     | _, _ => []) ++ connBlockedReports (step s op).1 ops

/-- the limits (`sendWindow` at the time of the call) at which stream `id` reported
    `IsNewlyBlocked() = true` along a history -/
def streamBlockedReports (id : Nat) (s : State) : List Op → List Int
  | [] => []
  | op :: ops =>
    (match op, (step s op).2, s.streams[id]? with
     | .sblocked i, .blocked true _, some st => if i = id then [st.base.sendWindow] else []
     | _, _, _ => []) ++ streamBlockedReports id (step s op).1 ops

theorem conn_blocked_aux {s : State} (h : Reach s) (ops : List Op) (hv : ValidFrom s ops)
    (hn : ∀ op ∈ ops, op ≠ .reset) :
    (∀ x ∈ connBlockedReports s ops, s.conn.lastBlockedAt < x) ∧
    (connBlockedReports s ops).Pairwise (· < ·) := by
  induction ops generalizing s with
  | nil => simp [connBlockedReports]
  | cons op ops ih =>
    have hr : op ≠ .reset := hn op (by simp)
    have hno : (step s op).2 ≠ .resetOk := fun e => hr (resetOk_only_reset e)
    have c := conn_step op h.inv hv.1
    have lbm := (c.send hno).lb
    obtain ⟨ih1, ih2⟩ := ih (Reach.step op h hv.1) hv.2 (fun o ho => hn o (by simp [ho]))
    simp only [connBlockedReports]
    by_cases hcb : op = .cblocked
    · subst hcb
      have hlb := h.inv.conn.lb
      obtain ⟨u1, u2, u3, u4, u5, u6, u7, u8⟩ := blocked_spec s.conn
      simp only [step, stepT] at ih1 ih2 lbm ⊢
      rcases u8 with ⟨e1, e2⟩ | ⟨e1, e2, e3, e4, e5⟩
      · simp only [e1]
        simp only [List.nil_append]
        exact ⟨fun x hx => by have := ih1 x hx; omega, ih2⟩
      · simp only [e1, e2]
        simp only [List.singleton_append, List.mem_cons, List.pairwise_cons]
        refine ⟨?_, ?_, ih2⟩
        · intro x hx
          rcases hx with hx | hx
          · omega
          · have := ih1 x hx; omega
        · intro x hx; have := ih1 x hx; omega
    · have : (match op, (step s op).2 with
              | .cblocked, .blocked true off => [off]
              | _, _ => ([] : List Int)) = [] := by
        cases op <;> first | rfl | exact absurd rfl hcb
      rw [this]
      simp only [List.nil_append]
      exact ⟨fun x hx => by have := ih1 x hx; omega, ih2⟩

/-- **blocked_once (connection).** Along any history the offsets for which the connection reports
    "newly blocked" are strictly increasing: no limit is ever reported twice, for any interleaving
    of sends, MAX_DATA frames (also stale ones) and queries. -/
theorem blocked_once {s : State} (h : Reach s) (ops : List Op) (hv : ValidFrom s ops)
    (hn : ∀ op ∈ ops, op ≠ .reset) : (connBlockedReports s ops).Pairwise (· < ·) :=
  (conn_blocked_aux h ops hv hn).2

theorem stream_blocked_aux (id : Nat) {s : State} (h : Reach s) (ops : List Op) (hv : ValidFrom s ops)
    (hn : ∀ op ∈ ops, op ≠ .reset) :
    (∀ st, s.streams[id]? = some st → ∀ x ∈ streamBlockedReports id s ops, st.base.lastBlockedAt < x) ∧
    (streamBlockedReports id s ops).Pairwise (· < ·) := by
  induction ops generalizing s with
  | nil => simp [streamBlockedReports]
  | cons op ops ih =>
    have hr : op ≠ .reset := hn op (by simp)
    have hno : (step s op).2 ≠ .resetOk := fun e => hr (resetOk_only_reset e)
    obtain ⟨ih1, ih2⟩ := ih (Reach.step op h hv.1) hv.2 (fun o ho => hn o (by simp [ho]))
    simp only [streamBlockedReports]
    cases hs : s.streams[id]? with
    | none =>
      have : (match op, (step s op).2, (none : Option Stream) with
              | .sblocked i, .blocked true _, some st => if i = id then [st.base.sendWindow] else []
              | _, _, _ => ([] : List Int)) = [] := by
        split <;> simp_all
      rw [this]
      exact ⟨fun st hst => (by cases hst), (by simpa using ih2)⟩
    | some st =>
      obtain ⟨st', hs', rel⟩ := stream_step op h.inv hv.1 hs hno
      have lbm := rel.send.lb
      have ih1' := ih1 st' hs'
      by_cases hcb : op = .sblocked id
      · subst hcb
        have hlb := (h.inv.streams st (mem_of_getElem? hs)).lb
        obtain ⟨u1, u2, u3, u4, u5, u6, u7, u8⟩ := blocked_spec st.base
        have hst' : st' = (st.isNewlyBlocked).1 := by
          simp only [step, stepT, hs] at hs'
          have hlt : id < s.streams.length := by
            rcases Nat.lt_or_ge id s.streams.length with hh | hh
            · exact hh
            · rw [List.getElem?_eq_none hh] at hs; cases hs
          rw [List.getElem?_set_self hlt] at hs'
          cases hs'; rfl
        have hout : (step s (.sblocked id)).2 = .blocked (st.isNewlyBlocked).2 0 := by
          simp only [step, stepT, hs]
        simp only [Stream.isNewlyBlocked] at hst' hout
        rw [hout]
        rcases u8 with ⟨e1, e2⟩ | ⟨e1, e2, e3, e4, e5⟩
        · simp only [e1]
          refine ⟨fun st0 hst0 x hx => ?_, by simpa using ih2⟩
          cases hst0
          simp only [List.nil_append] at hx
          have := ih1' x hx
          subst hst'
          simp only [] at this
          omega
        · simp only [e1, if_true]
          simp only [List.singleton_append, List.mem_cons, List.pairwise_cons]
          refine ⟨?_, ?_, ih2⟩
          · intro st0 hst0 x hx
            cases hst0
            rcases hx with hx | hx
            · omega
            · have := ih1' x hx
              subst hst'
              simp only [] at this
              omega
          · intro x hx
            have := ih1' x hx
            subst hst'
            simp only [] at this
            omega
      · have : (match op, (step s op).2, some st with
                | .sblocked i, .blocked true _, some st => if i = id then [st.base.sendWindow] else []
                | _, _, _ => ([] : List Int)) = [] := by
          cases op with
          | sblocked i =>
            have hne : i ≠ id := fun e => hcb (by rw [e])
            split <;> simp_all
          | _ => rfl
        rw [this]
        simp only [List.nil_append]
        refine ⟨fun st0 hst0 x hx => ?_, ih2⟩
        cases hst0
        have := ih1' x hx
        omega

/-- **blocked_once (streams).** The limits at which a stream reports "newly blocked" are strictly
    increasing along any history. -/
theorem blocked_once_stream (id : Nat) {s : State} (h : Reach s) (ops : List Op) (hv : ValidFrom s ops)
    (hn : ∀ op ∈ ops, op ≠ .reset) : (streamBlockedReports id s ops).Pairwise (· < ·) :=
  (stream_blocked_aux id h ops hv hn).2

/-! ## 3. the receiver enforces exactly the limits it advertised -/

/-- final-size inconsistency of a STREAM/RESET_STREAM offset w.r.t. what the stream knows -/
def finalSizeViolation (st : Stream) (off : Int) (fin : Bool) : Prop :=
  (st.receivedFinalOffset = true ∧ ((fin = true ∧ off ≠ st.base.highestReceived) ∨ off > st.base.highestReceived)) ∨
  (fin = true ∧ off < st.base.highestReceived)

/-- the frame carries the stream's highest offset beyond a limit: the stream's own receive window,
    or — counting the increment at connection level — the connection's -/
def beyondLimits (st : Stream) (c : Base) (off : Int) : Prop :=
  off > st.base.highestReceived ∧
    (off > st.base.receiveWindow ∨ c.highestReceived + (off - st.base.highestReceived) > c.receiveWindow)

/-- **receiver_exact.** `UpdateHighestReceived` answers FLOW_CONTROL_ERROR iff the new highest
    offset exceeds the stream's receive window or makes the connection total exceed the connection's
    receive window (and the offset is consistent with the final size); it answers FINAL_SIZE_ERROR iff
    the offset contradicts the final size; otherwise it accepts.  In particular all data within the
    limits is accepted and the first byte beyond them is refused.  (`receiveWindow` is the last
    value announced, see `advertised_monotone_and_honest`; on an open connection
    `c.highestReceived` is the sum of the streams' highest offsets, see `credit_conserved`.) -/
theorem receiver_exact (st : Stream) (c : Base) (off : Int) (fin : Bool) (now : Int) :
    let r := (st.updateHighestReceived c off fin now).2.2.1
    (r = .finalSize ↔ finalSizeViolation st off fin) ∧
    (r = .flowControl ↔ ¬ finalSizeViolation st off fin ∧ beyondLimits st c off) ∧
    (r = .ok ↔ ¬ finalSizeViolation st off fin ∧ ¬ beyondLimits st c off) := by
  simp only [recv_outcome]
  unfold recvOutcome finalSizeViolation beyondLimits
  cases hf : st.receivedFinalOffset <;> cases fin <;> simp only [Bool.false_eq_true, false_and, and_false, false_or, or_false, true_and, if_false, if_true]
  all_goals (repeat' split)
  all_goals (simp at *)
  all_goals (try omega)

/-- the same statement for the operation on a connection state -/
theorem receiver_exact_step {s : State} {id : Nat} {st : Stream} (hs : s.streams[id]? = some st)
    (off : Int) (fin : Bool) (now : Int) :
    ∃ r, (step s (.recv id off fin now)).2 = .recv r ∧
      (r = .finalSize ↔ finalSizeViolation st off fin) ∧
      (r = .flowControl ↔ ¬ finalSizeViolation st off fin ∧ beyondLimits st s.conn off) ∧
      (r = .ok ↔ ¬ finalSizeViolation st off fin ∧ ¬ beyondLimits st s.conn off) := by
  refine ⟨(st.updateHighestReceived s.conn off fin now).2.2.1, ?_, receiver_exact st s.conn off fin now⟩
  simp only [step, stepT, hs]

/-! ## 4. advertised limits: monotone, honest, and the ones enforced -/

/-- **advertised_monotone_and_honest (stream).** For every operation the stream's enforced limit
    `receiveWindow` never decreases, and it moves only in the stream's own `GetWindowUpdate`.  There,
    the answer `v` is either the new enforced limit and equals `bytesRead + receiveWindowSize`
    (consumed bytes plus the current window), or it is 0 and the limit is unchanged. -/
theorem advertised_monotone_and_honest {s : State} (h : Reach s) (op : Op) (hp : Pre s op) (hr : op ≠ .reset)
    {id : Nat} {st : Stream} (hs : s.streams[id]? = some st) :
    ∃ st', (step s op).1.streams[id]? = some st' ∧
      st.base.receiveWindow ≤ st'.base.receiveWindow ∧
      ((∀ now allow, op ≠ .supd id now allow) → st'.base.receiveWindow = st.base.receiveWindow) ∧
      (∀ now allow v calls, op = .supd id now allow → (step s op).2 = .upd v calls →
        (v = st'.base.receiveWindow ∧ v = st'.base.bytesRead + st'.base.receiveWindowSize ∧
          st'.base.bytesRead = st.base.bytesRead) ∨
        (v = 0 ∧ st'.base.receiveWindow = st.base.receiveWindow)) := by
  have hno : (step s op).2 ≠ .resetOk := fun e => hr (resetOk_only_reset e)
  obtain ⟨st', h1, rel⟩ := stream_step op h.inv hp hs hno
  refine ⟨st', h1, rel.recv.rw, rel.rwFrame, ?_⟩
  intro now allow v calls hop hout
  subst hop
  have hlt : id < s.streams.length := by
    rcases Nat.lt_or_ge id s.streams.length with hh | hh
    · exact hh
    · rw [List.getElem?_eq_none hh] at hs; cases hs
  have sp := supd_rel st s.conn now s.rtt (s.allowOf allow)
  simp only [] at sp
  obtain ⟨sp1, _, _⟩ := sp
  simp only [step, stepT, hs] at h1 hout
  split at hout
  · cases hout
  · rename_i hnp
    simp only [Out.upd.injEq] at hout
    obtain ⟨hv, _⟩ := hout
    split at h1
    · rename_i hpp; exact absurd hpp hnp
    · simp only [] at h1
      rw [List.getElem?_set_self hlt] at h1
      cases h1
      subst hv
      rcases sp1 with u | ⟨hpanic, _⟩ | ⟨e, e0⟩
      · rcases u.rw with ⟨e1, e2⟩ | ⟨e1, e2⟩
        · exact Or.inr ⟨e1, e2⟩
        · exact Or.inl ⟨e1, e1.trans e2, u.br⟩
      · exact absurd hpanic hnp
      · exact Or.inr ⟨e0, by rw [e]⟩

/-- **advertised_monotone_and_honest (connection).** -/
theorem advertised_monotone_and_honest_conn {s : State} (h : Reach s) (op : Op) (hp : Pre s op) :
    s.conn.receiveWindow ≤ (step s op).1.conn.receiveWindow ∧
    ((∀ now allow, op ≠ .cupd now allow) → (step s op).1.conn.receiveWindow = s.conn.receiveWindow) ∧
    (∀ now allow v calls, op = .cupd now allow → (step s op).2 = .upd v calls →
      (v = (step s op).1.conn.receiveWindow ∧
        v = (step s op).1.conn.bytesRead + (step s op).1.conn.receiveWindowSize ∧
        (step s op).1.conn.bytesRead = s.conn.bytesRead) ∨
      (v = 0 ∧ (step s op).1.conn.receiveWindow = s.conn.receiveWindow)) := by
  have c := conn_step op h.inv hp
  refine ⟨c.recv.rw, c.rwFrame, ?_⟩
  intro now allow v calls hop hout
  subst hop
  have u := getWindowUpdate_rel s.conn now s.rtt (s.allowOf allow)
  simp only [step, stepT] at hout ⊢
  split at hout
  · cases hout
  · rename_i hnp
    simp only [Out.upd.injEq] at hout
    obtain ⟨hv, _⟩ := hout
    subst hv
    simp only [hnp]
    rcases u.rw with ⟨e1, e2⟩ | ⟨e1, e2⟩
    · exact Or.inr ⟨e1, e2⟩
    · exact Or.inl ⟨e1, e1.trans e2, u.br⟩

/-! ## 5. the window size only grows, and only up to its maximum -/

/-- **window_size_bounded.** For every operation and every controller: `receiveWindowSize` never
    shrinks, never exceeds the larger of its previous value and `maxReceiveWindowSize`, and the
    maximum itself never changes — whatever the times, RTTs and callback answers are. -/
theorem window_size_bounded {s : State} (h : Reach s) (op : Op) (hp : Pre s op) :
    (s.conn.receiveWindowSize ≤ (step s op).1.conn.receiveWindowSize ∧
     (step s op).1.conn.receiveWindowSize ≤ max s.conn.receiveWindowSize s.conn.maxReceiveWindowSize ∧
     (step s op).1.conn.maxReceiveWindowSize = s.conn.maxReceiveWindowSize) ∧
    (op ≠ .reset → ∀ (id : Nat) (st : Stream), s.streams[id]? = some st → ∃ st' : Stream, (step s op).1.streams[id]? = some st' ∧
      st.base.receiveWindowSize ≤ st'.base.receiveWindowSize ∧
      st'.base.receiveWindowSize ≤ max st.base.receiveWindowSize st.base.maxReceiveWindowSize ∧
      st'.base.maxReceiveWindowSize = st.base.maxReceiveWindowSize) := by
  have c := conn_step op h.inv hp
  refine ⟨⟨c.recv.rws, c.recv.hi, c.recv.mx⟩, ?_⟩
  intro hr id st hs
  have hno : (step s op).2 ≠ .resetOk := fun e => hr (resetOk_only_reset e)
  obtain ⟨st', h1, rel⟩ := stream_step op h.inv hp hs hno
  exact ⟨st', h1, rel.recv.rws, rel.recv.hi, rel.recv.mx⟩

/-- Over a whole history: the connection's window size stays between its initial value and the
    larger of the initial value and the configured maximum. -/
theorem window_size_bounded_run {s : State} (h : Reach s) (ops : List Op) (hv : ValidFrom s ops) :
    s.conn.receiveWindowSize ≤ (run s ops).conn.receiveWindowSize ∧
    (run s ops).conn.receiveWindowSize ≤ max s.conn.receiveWindowSize s.conn.maxReceiveWindowSize ∧
    (run s ops).conn.maxReceiveWindowSize = s.conn.maxReceiveWindowSize := by
  induction ops generalizing s with
  | nil => simp [run]; omega
  | cons op ops ih =>
    obtain ⟨⟨a, b, c⟩, _⟩ := window_size_bounded h op hv.1
    obtain ⟨d, e, f⟩ := ih (Reach.step op h hv.1) hv.2
    simp only [run]
    omega

/-! ## 6. connection-level credit is returned exactly once -/

/-- **credit_conserved.** In every reachable state the connection's `bytesRead` (the credit it
    returns through MAX_DATA) is exactly the sum over the streams of bytes consumed or abandoned, and
    no stream has consumed more than it received.  On an open connection the connection's
    `highestReceived` is exactly the sum of the streams' highest offsets, so the returned credit
    never exceeds what was received, and once every stream is finished (`bytesRead =
    highestReceived` — fully read or abandoned) every received byte has been returned, once. -/
theorem credit_conserved {s : State} (h : Reach s) :
    s.conn.bytesRead = sumBy (·.base.bytesRead) s.streams ∧
    (∀ st ∈ s.streams, 0 ≤ st.base.bytesRead ∧ st.base.bytesRead ≤ st.base.highestReceived) := by
  have hi := h.inv
  exact ⟨hi.read, fun st hst => ⟨(hi.streams st hst).br0, (hi.streams st hst).br⟩⟩

theorem credit_conserved_open {s : State} (h : ReachOk s) :
    s.conn.highestReceived = sumBy (·.base.highestReceived) s.streams ∧
    s.conn.bytesRead ≤ s.conn.highestReceived ∧
    ((∀ st ∈ s.streams, st.base.bytesRead = st.base.highestReceived) → s.conn.bytesRead = s.conn.highestReceived) := by
  have hi := h.reach.inv
  have he : s.conn.highestReceived = sumBy (·.base.highestReceived) s.streams := h.hreq
  refine ⟨he, ?_, ?_⟩
  · rw [he, hi.read]; exact sumBy_le (fun st hst => (hi.streams st hst).br)
  · intro hall; rw [he, hi.read]; exact sumBy_congr hall

/-- `Abandon` credits exactly the bytes received but not yet consumed, to the stream and to the
    connection alike; a second `Abandon` therefore credits nothing. -/
theorem abandon_credits_unread {s : State} (h : Reach s) {id : Nat} {st : Stream} (hs : s.streams[id]? = some st) :
    ∃ st', (step s (.abandon id)).1.streams[id]? = some st' ∧
      st'.base.bytesRead = st.base.highestReceived ∧ st'.base.highestReceived = st.base.highestReceived ∧
      (step s (.abandon id)).1.conn.bytesRead = s.conn.bytesRead + (st.base.highestReceived - st.base.bytesRead) := by
  have hlt : id < s.streams.length := by
    rcases Nat.lt_or_ge id s.streams.length with hh | hh
    · exact hh
    · rw [List.getElem?_eq_none hh] at hs; cases hs
  have hbr := (h.inv.streams st (mem_of_getElem? hs)).br
  refine ⟨(st.abandon s.conn).1, ?_, ?_, ?_, ?_⟩
  · simp only [step, stepT, hs]; exact List.getElem?_set_self hlt
  · simp only [Stream.abandon]; split <;> rfl
  · simp only [Stream.abandon]; split <;> rfl
  · simp only [step, stepT, hs, Stream.abandon, Conn.addBytesRead, Base.addBytesRead]
    split <;> simp <;> omega

/-! ## 6b. a new stream starts with the limits the two endpoints advertised for its kind -/

open Uquic.Model.FlowInit in
/-- **initial_windows_match_parameters.** For every stream id and either perspective, the send
    window `Conn.newFlowController` seeds is the peer parameter RFC 9000 §18.2 assigns to that kind
    of stream (we opened it: the peer's `…_bidi_remote`; the peer opened it: the peer's
    `…_bidi_local`; unidirectional: `…_uni`), `streamsMap.HandleTransportParameters` applies the same
    parameters to outgoing streams that are already open, and the receive window it seeds is the
    parameter we advertised for that kind of stream.  (Depends on the regenerated facts about which
    field each branch of the closure reads.) -/
theorem initial_windows_match_parameters (weAreClient : Bool) (peer : Params) (cfg : Config) (id : Nat) :
    newFlowControllerSendWindow weAreClient peer id = rfcSendLimit weAreClient peer id ∧
    (byClient id = weAreClient → isUni id = false →
      peer.field Uquic.Gen.Flowcontrol.smapOutgoingBidiField = rfcSendLimit weAreClient peer id) ∧
    (byClient id = weAreClient → isUni id = true →
      peer.field Uquic.Gen.Flowcontrol.smapOutgoingUniField = rfcSendLimit weAreClient peer id) ∧
    ∃ ours rw, advertised cfg = some ours ∧ newFlowControllerReceiveWindow cfg none weAreClient id = some rw ∧
      rw.1 = rfcReceiveLimit weAreClient ours id ∧ ours.maxData = cfg.initialConnectionReceiveWindow := by
  have h4 : id % 4 = 0 ∨ id % 4 = 1 ∨ id % 4 = 2 ∨ id % 4 = 3 := by omega
  refine ⟨?_, ?_, ?_, ?_⟩
  · unfold newFlowControllerSendWindow rfcSendLimit isUni byClient Params.field
    simp only [Uquic.Gen.Flowcontrol.newFCOwnBidiField, Uquic.Gen.Flowcontrol.newFCPeerBidiField,
      Uquic.Gen.Flowcontrol.newFCUniField]
    cases weAreClient <;> rcases h4 with h | h | h | h <;>
      (have h2 : id % 2 = 0 ∨ id % 2 = 1 := by omega) <;> rcases h2 with h2 | h2 <;>
      first | omega | simp [h, h2]
  · unfold rfcSendLimit isUni byClient Params.field
    simp only [Uquic.Gen.Flowcontrol.smapOutgoingBidiField]
    cases weAreClient <;> rcases h4 with h | h | h | h <;>
      (have h2 : id % 2 = 0 ∨ id % 2 = 1 := by omega) <;> rcases h2 with h2 | h2 <;>
      first | omega | simp [h, h2]
  · unfold rfcSendLimit isUni byClient Params.field
    simp only [Uquic.Gen.Flowcontrol.smapOutgoingUniField]
    cases weAreClient <;> rcases h4 with h | h | h | h <;>
      (have h2 : id % 2 = 0 ∨ id % 2 = 1 := by omega) <;> rcases h2 with h2 | h2 <;>
      first | omega | simp [h, h2]
  · refine ⟨_, _, by simp [advertised, Uquic.Gen.Flowcontrol.advertisedWindowsFromConfig]; rfl,
      by simp [newFlowControllerReceiveWindow, newFlowControllerReceiveWindowS, Uquic.Gen.Flowcontrol.newFCReceiveWindowFromConfig]; rfl, ?_, rfl⟩
    unfold rfcReceiveLimit
    simp only []
    repeat' split
    all_goals rfl

open Uquic.Model.FlowInit in
/-- **covering_config_is_pointwise_max.** For a spec-driven client (the QUICSpec's transport
    parameters `adv` go on the wire; `newUClientConnection` runs `configCoveringAdvertised(config, adv)`
    and remembers the advertised stream windows): for every stream id the receive window a new stream
    starts with EQUALS the limit advertised for *its* kind of stream (RFC 9000 §18.2: bidirectional
    opened by us = bidi_local, opened by the peer = bidi_remote, unidirectional = uni); the connection
    window EQUALS the advertised `initial_max_data`; and only the MAXIMUM window sizes (the bound of the
    auto-tuner) are the pointwise maximum of the configured maximum and the initial window, so they are
    never below the window in force nor below the configured maxima.  (`Uquic.Props.C04Spec` derives
    the per-kind FLOW_CONTROL_ERROR boundary and the absence of a stall, and keeps the witness that the
    one-window-for-all-kinds shape of earlier revisions violates both.) -/
theorem covering_config_is_pointwise_max (cfg : Config) (adv : Params) (id : Nat) :
    ∃ rw, newFlowControllerReceiveWindow (enforcedConfig cfg (some adv)) (some adv) true id = some rw ∧
      rw.1 = rfcReceiveLimit true adv id ∧ rw.1 ≤ rw.2 ∧
      cfg.initialStreamReceiveWindow ≤ rw.2 ∧ cfg.maxStreamReceiveWindow ≤ rw.2 ∧
      (enforcedConfig cfg (some adv)).initialConnectionReceiveWindow = adv.maxData ∧
      cfg.maxConnectionReceiveWindow ≤ (enforcedConfig cfg (some adv)).maxConnectionReceiveWindow ∧
      (enforcedConfig cfg (some adv)).initialConnectionReceiveWindow ≤ (enforcedConfig cfg (some adv)).maxConnectionReceiveWindow := by
  have h4 : id % 4 = 0 ∨ id % 4 = 1 ∨ id % 4 = 2 ∨ id % 4 = 3 := by omega
  refine ⟨_, by simp [newFlowControllerReceiveWindow, newFlowControllerReceiveWindowS, Shape.current,
      Uquic.Gen.Flowcontrol.newFCReceiveWindowFromConfig, Uquic.Gen.Flowcontrol.newFCSpecOverride]; rfl, ?_⟩
  simp only [enforcedConfig, enforcedConfigS, coveringConfigS, Shape.current, pick, forStreamS, Params.field, isUni, byClient,
    Uquic.Gen.Flowcontrol.coverAppliedInUClient,
    Uquic.Gen.Flowcontrol.coverConnMode, Uquic.Gen.Flowcontrol.coverStreamOuterIsMax,
    Uquic.Gen.Flowcontrol.coverStreamInnerIsMax, Uquic.Gen.Flowcontrol.coverMaxWindowsFollow,
    Uquic.Gen.Flowcontrol.advForStreamUniField, Uquic.Gen.Flowcontrol.advForStreamOwnBidiField,
    Uquic.Gen.Flowcontrol.advForStreamPeerBidiField, if_true]
  refine ⟨?_, ?_, ?_, ?_, ?_, ?_, ?_⟩
  · unfold rfcReceiveLimit
    rcases h4 with h | h | h | h <;>
      (have h2 : id % 2 = 0 ∨ id % 2 = 1 := by omega) <;> rcases h2 with h2 | h2 <;>
      first | omega | simp [h, h2]
  all_goals (repeat' split)
  all_goals first | trivial | omega

/-! ## 7. no panic with the callback the connection installs -/

/-- connection.go always passes a function literal as `allowWindowIncrease` (regenerated fact). -/
theorem conn_callback_never_nil : Uquic.Gen.Flowcontrol.connCallbackNeverNil = true := rfl

/-- With a non-nil callback no operation panics (with a nil callback `EnsureMinimumWindowSize`
    would call it unguarded, see `Uquic.Gen.Flowcontrol.ensureMinCallbackNilGuarded`). -/
theorem no_panic {s : State} (hcb : s.cbNil = false) (op : Op) : ∀ calls, (step s op).2 ≠ .panic calls := by
  intro calls
  have ha : ∀ b, s.allowOf b = some b := by intro b; simp [State.allowOf, hcb]
  cases op <;> simp only [step, stepT, ha, getWindowUpdate_nopanic, stream_getWindowUpdate_nopanic]
  all_goals (try split)
  all_goals (first | (simp; done) | simp_all)

/-- Witness for the shape fact `ensureMinCallbackNilGuarded = false`: with a nil callback, a stream
    whose window auto-tuning grows makes `EnsureMinimumWindowSize` call the nil function (the Go code
    panics there; not reachable from connection.go, see `conn_callback_never_nil`). -/
theorem nil_callback_panic_witness :
    (step (run { State.init 100 4000 true with rtt := 100000000 }
            [.newStream 100 400 0, .recv 0 100 false 1000, .read 0 80]) (.supd 0 1001 true)).2 = .panic [] := by
  decide

/-! ## examples: the hypotheses are satisfiable by non-trivial histories -/

/-- two streams; MAX_DATA / MAX_STREAM_DATA in order, stale and duplicated; sends up to the window;
    data, a FIN, a read, an abandon; blocked queries -/
def exInit : State := { State.init 1200 6000 false with rtt := 100000000 }
def exOps : List Op :=
  [.newStream 500 2000 500, .newStream 1000 1000 0, .cmax 800, .smax 0 700, .cmax 600, .sent 0 300, .smax 0 400,
   .recv 0 400 false 10, .recv 1 200 true 11, .read 0 100, .abandon 1, .sent 0 400, .sblocked 0, .cblocked,
   .read 0 300, .supd 0 12 true, .cupd 13 true]

theorem exValid : ValidFrom exInit exOps := by
  simp [ValidFrom, Pre, exInit, exOps, step, stepT, State.init, Conn.new, Stream.new,
    Stream.updateHighestReceived, Conn.incrementHighestReceived, Base.startNewAutoTuningEpoch,
    Base.checkFlowControlViolation, cmp, Uquic.Gen.Flowcontrol.violationCmpOp,
    Stream.addBytesSent, Base.addBytesSent, Base.updateSendWindow, Stream.sendWindowSize, Base.sendWindowSize,
    Stream.addBytesRead, Base.addBytesRead, Conn.addBytesRead, Stream.abandon, Stream.isNewlyBlocked,
    Base.isNewlyBlocked]
  omega

theorem exReach : Reach (run exInit exOps) :=
  (Reach.init 1200 6000 false 100000000 (by omega)).run exOps exValid

/-- the example state is not trivial: bytes were sent up to the stream limit, credit was returned,
    the stream reported blocked exactly at its limit 700, the auto-tuner doubled the stream window
    (update 400 + 1000) and raised the connection window to 1.5 × 1000 after asking the callback for 300 -/
example : (run exInit exOps).conn.bytesSent = 700 ∧ (run exInit exOps).conn.sendWindow = 800 ∧
    (run exInit exOps).conn.bytesRead = 600 ∧ (run exInit exOps).conn.highestReceived = 600 ∧
    (run exInit exOps).streams.length = 2 ∧
    streamBlockedReports 0 exInit exOps = [700] ∧ connBlockedReports exInit exOps = [] ∧
    (trace exInit exOps).drop 15 = [.upd 1400 [300], .upd 2100 []] ∧
    (run exInit exOps).conn.receiveWindowSize = 1500 := by decide

example := sender_within_credit exReach
example := credit_conserved exReach
example := send_window_is_largest_seen (Reach.init 1200 6000 false 100000000 (by omega)) exOps exValid (by decide)
example := blocked_once (Reach.init 1200 6000 false 100000000 (by omega)) exOps exValid (by decide)
example := blocked_once_stream 0 (Reach.init 1200 6000 false 100000000 (by omega)) exOps exValid (by decide)
example := window_size_bounded_run (Reach.init 1200 6000 false 100000000 (by omega)) exOps exValid

end Uquic.Props.C04
