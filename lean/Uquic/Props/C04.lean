/-
Property C04 — flow control: senders within credit, receivers enforce it.

All theorems are about `Uquic.Model.FlowControl` (one connection controller + its stream
controllers, every Go method one atomic step) and quantify over *all* histories: `Reach s` is any
state reachable from a fresh connection by any interleaving of operations that respect the caller
contract `Pre` (non-negative offsets; `AddBytesRead` only for bytes that were received;
`AddBytesSent` only up to `SendWindowSize()`), with arbitrary times, RTTs and callback answers.
`ReachOk` additionally says that no fatal error (FLOW_CONTROL_ERROR, FINAL_SIZE_ERROR, panic) has
occurred yet, i.e. the connection is still open.

The theorems depend on the regenerated facts `Uquic.Gen.Flowcontrol.*` (comparison operators of
the window checks, nil-guard shape facts, tuning constants) through the model.
-/
import Uquic.Proofs.FlowMono
import Uquic.Proofs.FlowOk

set_option linter.unusedVariables false

namespace Uquic.Props.C04
open Uquic.Model.FlowControl Uquic.Proofs.Flow

/-! ## 1. the sender stays within the credit the peer advertised -/

/-- Per stream and summed over the connection, the bytes sent never exceed the send window
    (which is the largest limit the peer ever advertised, see `send_window_is_largest_seen`), and
    the connection counter is exactly the sum of the stream counters. -/
theorem sender_within_credit {s : State} (h : Reach s) :
    (∀ st ∈ s.streams, 0 ≤ st.base.bytesSent ∧ st.base.bytesSent ≤ st.base.sendWindow) ∧
    s.conn.bytesSent = sumBy (·.base.bytesSent) s.streams ∧
    s.conn.bytesSent ≤ s.conn.sendWindow := by
  have hi := h.inv
  exact ⟨fun st hst => ⟨(hi.streams st hst).bs0, (hi.streams st hst).bs⟩, hi.sent, hi.conn.bs⟩

theorem resetOk_only_reset {s : State} {op : Op} (h : (step s op).2 = .resetOk) : op = .reset := by
  cases op <;> simp only [step, stepT] at h
  all_goals (first | rfl | (repeat' split at h) <;> simp at h)

/-- MAX_STREAM_DATA / MAX_DATA frames — in any order, duplicated or stale — never decrease a send
    window: a frame sets it to the maximum of the old limit and the frame's value, and no other
    operation (except the 0-RTT-rejection reset, which discards all streams) moves it. -/
theorem send_window_monotone {s : State} (h : Reach s) (op : Op) (hp : Pre s op) (hr : op ≠ .reset) :
    s.conn.sendWindow ≤ (step s op).1.conn.sendWindow ∧
    (∀ v, op = .cmax v → (step s op).1.conn.sendWindow = max s.conn.sendWindow v) ∧
    ((∀ v, op ≠ .cmax v) → (step s op).1.conn.sendWindow = s.conn.sendWindow) ∧
    ∀ id st, s.streams[id]? = some st → ∃ st', (step s op).1.streams[id]? = some st' ∧
      st.base.sendWindow ≤ st'.base.sendWindow ∧
      (∀ v, op = .smax id v → st'.base.sendWindow = max st.base.sendWindow v) ∧
      ((∀ v, op ≠ .smax id v) → st'.base.sendWindow = st.base.sendWindow) := by
  have hno : (step s op).2 ≠ .resetOk := fun e => hr (resetOk_only_reset e)
  have c := conn_step op h.inv hp
  refine ⟨(c.send hno).sw, c.swMax, fun hne => c.swFrame hne hno, ?_⟩
  intro id st hs
  obtain ⟨st', h1, h2⟩ := stream_step op h.inv hp hs hno
  exact ⟨st', h1, h2.send.sw, h2.swMax, h2.swFrame⟩

/-- the largest MAX_DATA value seen in a history, starting from limit `w` -/
def largestMaxData (w : Int) : List Op → Int
  | [] => w
  | .cmax v :: ops => largestMaxData (max w v) ops
  | _ :: ops => largestMaxData w ops

/-- After any history (without a 0-RTT reset) the connection send window is exactly the largest
    MAX_DATA the peer ever sent — reordering and duplication are irrelevant. -/
theorem send_window_is_largest_seen {s : State} (h : Reach s) (ops : List Op) (hv : ValidFrom s ops)
    (hn : ∀ op ∈ ops, op ≠ .reset) :
    (run s ops).conn.sendWindow = largestMaxData s.conn.sendWindow ops := by
  induction ops generalizing s with
  | nil => rfl
  | cons op ops ih =>
    have hr : op ≠ .reset := hn op (by simp)
    obtain ⟨_, m1, m2, _⟩ := send_window_monotone h op hv.1 hr
    have ih' := ih (Reach.step op h hv.1) hv.2 (fun o ho => hn o (by simp [ho]))
    simp only [run]
    rw [ih']
    cases op with
    | cmax v => simp only [largestMaxData]; rw [m1 v rfl]
    | _ => simp only [largestMaxData]; rw [m2 (by intro v; simp)]

/-! ## 2. "newly blocked" is reported at most once per limit -/

/-- the offsets reported by `connFlowController.IsNewlyBlocked() = (true, offset)` along a history -/
def connBlockedReports (s : State) : List Op → List Int
  | [] => []
  | op :: ops =>
    (match op, (step s op).2 with
     | .cblocked, .blocked true off => [off]
     | _, _ => []) ++ connBlockedReports (step s op).1 ops

/-- the limits (`sendWindow` at the time of the call) at which stream `id` reported
    `IsNewlyBlocked() = true` along a history -/
def streamBlockedReports (id : Nat) (s : State) : List Op → List Int
  | [] => []
  | op :: ops =>
    (match op, (step s op).2, s.streams[id]? with
     | .sblocked i, .blocked true _, some st => if i = id then [st.base.sendWindow] else []
     | _, _, _ => []) ++ streamBlockedReports id (step s op).1 ops

theorem conn_blocked_aux {s : State} (h : Reach s) (ops : List Op) (hv : ValidFrom s ops)
    (hn : ∀ op ∈ ops, op ≠ .reset) :
    (∀ x ∈ connBlockedReports s ops, s.conn.lastBlockedAt < x) ∧
    (connBlockedReports s ops).Pairwise (· < ·) := by
  induction ops generalizing s with
  | nil => simp [connBlockedReports]
  | cons op ops ih =>
    have hr : op ≠ .reset := hn op (by simp)
    have hno : (step s op).2 ≠ .resetOk := fun e => hr (resetOk_only_reset e)
    have c := conn_step op h.inv hv.1
    have lbm := (c.send hno).lb
    obtain ⟨ih1, ih2⟩ := ih (Reach.step op h hv.1) hv.2 (fun o ho => hn o (by simp [ho]))
    simp only [connBlockedReports]
    by_cases hcb : op = .cblocked
    · subst hcb
      have hlb := h.inv.conn.lb
      obtain ⟨u1, u2, u3, u4, u5, u6, u7, u8⟩ := blocked_spec s.conn
      simp only [step, stepT] at ih1 ih2 lbm ⊢
      rcases u8 with ⟨e1, e2⟩ | ⟨e1, e2, e3, e4, e5⟩
      · simp only [e1]
        simp only [List.nil_append]
        exact ⟨fun x hx => by have := ih1 x hx; omega, ih2⟩
      · simp only [e1, e2]
        simp only [List.singleton_append, List.mem_cons, List.pairwise_cons]
        refine ⟨?_, ?_, ih2⟩
        · intro x hx
          rcases hx with hx | hx
          · omega
          · have := ih1 x hx; omega
        · intro x hx; have := ih1 x hx; omega
    · have : (match op, (step s op).2 with
              | .cblocked, .blocked true off => [off]
              | _, _ => ([] : List Int)) = [] := by
        cases op <;> first | rfl | exact absurd rfl hcb
      rw [this]
      simp only [List.nil_append]
      exact ⟨fun x hx => by have := ih1 x hx; omega, ih2⟩

/-- **blocked_once (connection).** Along any history the offsets for which the connection reports
    "newly blocked" are strictly increasing: no limit is ever reported twice, for any interleaving
    of sends, MAX_DATA frames (also stale ones) and queries. -/
theorem blocked_once {s : State} (h : Reach s) (ops : List Op) (hv : ValidFrom s ops)
    (hn : ∀ op ∈ ops, op ≠ .reset) : (connBlockedReports s ops).Pairwise (· < ·) :=
  (conn_blocked_aux h ops hv hn).2

theorem stream_blocked_aux (id : Nat) {s : State} (h : Reach s) (ops : List Op) (hv : ValidFrom s ops)
    (hn : ∀ op ∈ ops, op ≠ .reset) :
    (∀ st, s.streams[id]? = some st → ∀ x ∈ streamBlockedReports id s ops, st.base.lastBlockedAt < x) ∧
    (streamBlockedReports id s ops).Pairwise (· < ·) := by
  induction ops generalizing s with
  | nil => simp [streamBlockedReports]
  | cons op ops ih =>
    have hr : op ≠ .reset := hn op (by simp)
    have hno : (step s op).2 ≠ .resetOk := fun e => hr (resetOk_only_reset e)
    obtain ⟨ih1, ih2⟩ := ih (Reach.step op h hv.1) hv.2 (fun o ho => hn o (by simp [ho]))
    simp only [streamBlockedReports]
    cases hs : s.streams[id]? with
    | none =>
      have : (match op, (step s op).2, (none : Option Stream) with
              | .sblocked i, .blocked true _, some st => if i = id then [st.base.sendWindow] else []
              | _, _, _ => ([] : List Int)) = [] := by
        split <;> simp_all
      rw [this]
      exact ⟨fun st hst => (by cases hst), (by simpa using ih2)⟩
    | some st =>
      obtain ⟨st', hs', rel⟩ := stream_step op h.inv hv.1 hs hno
      have lbm := rel.send.lb
      have ih1' := ih1 st' hs'
      by_cases hcb : op = .sblocked id
      · subst hcb
        have hlb := (h.inv.streams st (mem_of_getElem? hs)).lb
        obtain ⟨u1, u2, u3, u4, u5, u6, u7, u8⟩ := blocked_spec st.base
        have hst' : st' = (st.isNewlyBlocked).1 := by
          simp only [step, stepT, hs] at hs'
          have hlt : id < s.streams.length := by
            rcases Nat.lt_or_ge id s.streams.length with hh | hh
            · exact hh
            · rw [List.getElem?_eq_none hh] at hs; cases hs
          rw [List.getElem?_set_self hlt] at hs'
          cases hs'; rfl
        have hout : (step s (.sblocked id)).2 = .blocked (st.isNewlyBlocked).2 0 := by
          simp only [step, stepT, hs]
        simp only [Stream.isNewlyBlocked] at hst' hout
        rw [hout]
        rcases u8 with ⟨e1, e2⟩ | ⟨e1, e2, e3, e4, e5⟩
        · simp only [e1]
          refine ⟨fun st0 hst0 x hx => ?_, by simpa using ih2⟩
          cases hst0
          simp only [List.nil_append] at hx
          have := ih1' x hx
          subst hst'
          simp only [] at this
          omega
        · simp only [e1, if_true]
          simp only [List.singleton_append, List.mem_cons, List.pairwise_cons]
          refine ⟨?_, ?_, ih2⟩
          · intro st0 hst0 x hx
            cases hst0
            rcases hx with hx | hx
            · omega
            · have := ih1' x hx
              subst hst'
              simp only [] at this
              omega
          · intro x hx
            have := ih1' x hx
            subst hst'
            simp only [] at this
            omega
      · have : (match op, (step s op).2, some st with
                | .sblocked i, .blocked true _, some st => if i = id then [st.base.sendWindow] else []
                | _, _, _ => ([] : List Int)) = [] := by
          cases op with
          | sblocked i =>
            have hne : i ≠ id := fun e => hcb (by rw [e])
            split <;> simp_all
          | _ => rfl
        rw [this]
        simp only [List.nil_append]
        refine ⟨fun st0 hst0 x hx => ?_, ih2⟩
        cases hst0
        have := ih1' x hx
        omega

/-- **blocked_once (streams).** The limits at which a stream reports "newly blocked" are strictly
    increasing along any history. -/
theorem blocked_once_stream (id : Nat) {s : State} (h : Reach s) (ops : List Op) (hv : ValidFrom s ops)
    (hn : ∀ op ∈ ops, op ≠ .reset) : (streamBlockedReports id s ops).Pairwise (· < ·) :=
  (stream_blocked_aux id h ops hv hn).2

end Uquic.Props.C04
