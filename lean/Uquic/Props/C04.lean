import Uquic.Model.FlowControl
namespace Uquic.Props.C04
open Uquic.Model.FlowControl
theorem placeholder : (1 : Nat) = 1 := rfl
end Uquic.Props.C04
