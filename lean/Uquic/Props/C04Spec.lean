/-
C04, spec-driven client (round 4): the receive windows of a connection whose transport parameters
come from a QUICSpec.

After /repo c32d004 `newUClientConnection` starts every stream with EXACTLY the window the QUICSpec
advertised for that kind of stream (`uAdvertisedStreamData.forStream`) and the connection with
EXACTLY the advertised `initial_max_data`.  Consequences proved here, for every stream id, every
Config and every advertised parameter set:

* `spec_flow_control_error_exactly_beyond_advertised`: the first byte beyond the limit advertised
  for the stream's kind is answered with FLOW_CONTROL_ERROR, everything up to it is accepted
  (connection window permitting); the same for the connection window and `initial_max_data`;
* `window_update_due_within_advertised_credit`: once the application has consumed what the peer was
  told it may send, a MAX_STREAM_DATA / MAX_DATA update is due — the peer cannot run out of credit
  with no update ever becoming due (no stall);
* `old_shape_accepts_beyond_advertised`, `old_shape_stalls`: kernel-checked witnesses that the shape
  of earlier revisions (one stream window = the largest advertised value for all kinds,
  `max(Config, advertised)` connection window) violates both, with Firefox's parameters.
-/
import Uquic.Model.FlowControl
import Uquic.Model.FlowInit

namespace Uquic.Props.C04Spec
open Uquic.Model.FlowControl Uquic.Model.FlowInit
open Uquic.Gen.Flowcontrol

/-- the windows of a new stream of a spec-driven client with the checked-out source's shape -/
theorem spec_stream_window (cfg : Config) (adv : Params) (id : Nat) :
    newFlowControllerReceiveWindow (enforcedConfig cfg (some adv)) (some adv) true id =
      some (rfcReceiveLimit true adv id,
            max (enforcedConfig cfg (some adv)).maxStreamReceiveWindow (rfcReceiveLimit true adv id)) := by
  have h4 : id % 4 = 0 ∨ id % 4 = 1 ∨ id % 4 = 2 ∨ id % 4 = 3 := by omega
  have hfs : forStreamS Shape.current true adv id = rfcReceiveLimit true adv id := by
    simp only [Shape.current, forStreamS, Params.field, isUni, byClient, rfcReceiveLimit,
      advForStreamUniField, advForStreamOwnBidiField, advForStreamPeerBidiField]
    rcases h4 with h | h | h | h <;>
      (have h2 : id % 2 = 0 ∨ id % 2 = 1 := by omega) <;> rcases h2 with h2 | h2
    all_goals first | omega | simp [h, h2]
  have hov : Shape.current.specOverride = true := rfl
  simp only [newFlowControllerReceiveWindow, newFlowControllerReceiveWindowS, newFCReceiveWindowFromConfig, hov, hfs]
  rfl

/-- the connection window of a spec-driven client is the advertised `initial_max_data` -/
theorem spec_conn_window (cfg : Config) (adv : Params) :
    (enforcedConfig cfg (some adv)).initialConnectionReceiveWindow = adv.maxData := rfl

/-- **spec_flow_control_error_exactly_beyond_advertised.**  A spec-driven client, any Config, any
    advertised parameters, any stream id: on a new stream the first STREAM data beyond the limit
    advertised for that KIND of stream is answered with FLOW_CONTROL_ERROR, and data up to that limit
    is accepted whenever the connection window has room; on a new connection the first byte beyond the
    advertised `initial_max_data` is a connection-level violation and everything up to it is not. -/
theorem spec_flow_control_error_exactly_beyond_advertised (cfg : Config) (adv : Params) (id : Nat)
    (sw : Int) (conn : Base) (offset now : Int) (hoff : 0 < offset) :
    ∃ rw, newFlowControllerReceiveWindow (enforcedConfig cfg (some adv)) (some adv) true id = some rw ∧
      (rfcReceiveLimit true adv id < offset →
        ((Stream.new rw.1 rw.2 sw).updateHighestReceived conn offset false now).2.2.1 = .flowControl) ∧
      (offset ≤ rfcReceiveLimit true adv id → conn.highestReceived + offset ≤ conn.receiveWindow →
        ((Stream.new rw.1 rw.2 sw).updateHighestReceived conn offset false now).2.2.1 = .ok) ∧
      ((Conn.incrementHighestReceived (Conn.new (enforcedConfig cfg (some adv)).initialConnectionReceiveWindow
          (enforcedConfig cfg (some adv)).maxConnectionReceiveWindow) offset now).2 = decide (adv.maxData < offset)) := by
  refine ⟨_, spec_stream_window cfg adv id, ?_, ?_, ?_⟩
  · intro h
    have h0 : ¬ offset = 0 := by omega
    have h1 : ¬ offset < 0 := by omega
    simp [Stream.new, Stream.updateHighestReceived, Base.startNewAutoTuningEpoch, Base.checkFlowControlViolation,
      cmp, violationCmpOp, h0, h1, h]
  · intro h hc
    have h0 : ¬ offset = 0 := by omega
    have h1 : ¬ offset < 0 := by omega
    have h2 : ¬ rfcReceiveLimit true adv id < offset := by omega
    have h3 : ¬ conn.receiveWindow < conn.highestReceived + offset := by omega
    simp [Stream.new, Stream.updateHighestReceived, Base.startNewAutoTuningEpoch, Base.checkFlowControlViolation,
      Conn.incrementHighestReceived, cmp, violationCmpOp, h0, h1, h2]
    split <;> simp_all
  · rw [spec_conn_window]
    simp [Conn.new, Conn.incrementHighestReceived, Base.startNewAutoTuningEpoch, Base.checkFlowControlViolation,
      cmp, violationCmpOp]

/-- `updateThreshold` of a non-negative window size is non-negative unless the float64 → int64
    conversion overflowed (the product is ≥ 2^63, which no window size a varint can carry reaches;
    see `updateThreshold_nonneg_at`). -/
theorem updateThreshold_nonneg_or_overflow (size : Int) (h : 0 ≤ size) :
    0 ≤ updateThreshold size ∨ updateThreshold size = int64Min := by
  have hn : ¬ size < 0 := by omega
  simp only [updateThreshold, scaleTrunc, toInt64, hn, decide_false, Bool.false_eq_true, if_false]
  split
  · right; rfl
  · left; exact Int.natCast_nonneg _

/-- no overflow at the largest value a transport parameter can carry (2^62-1) nor at the windows the
    built-in QUICSpecs advertise (Firefox 1 MiB / 12 MiB / 24 MiB, Chrome 6 MiB / 15 MiB) -/
theorem updateThreshold_nonneg_at :
    0 ≤ updateThreshold MaxByteCount ∧ 0 ≤ updateThreshold 0 ∧ 0 ≤ updateThreshold 1 ∧
    updateThreshold 1048576 = 786432 ∧ updateThreshold 12582912 = 9437184 ∧ updateThreshold 25165824 = 18874368 ∧
    updateThreshold 6291456 = 4718592 ∧ updateThreshold 15728640 = 11796480 := by decide

/-- a fresh controller with window `w`, after the application consumed `r` bytes: an update is due
    exactly when the unconsumed part of the window is at most the threshold -/
theorem fresh_hasWindowUpdate (w maxw r : Int) :
    ((Conn.new w maxw).addBytesRead r).hasWindowUpdate = decide (w - r ≤ updateThreshold w) := by
  simp [Conn.new, Base.addBytesRead, Base.hasWindowUpdate, cmp, hasWindowUpdateCmpOp]

/-- **window_update_due_within_advertised_credit.**  (No stall.)  A spec-driven client, any Config,
    any advertised parameters, any stream id.  Let `told` be the limit the peer was told for this kind
    of stream (resp. `initial_max_data` for the connection): the peer can never deliver more than
    `told` bytes before it needs an update.  Then a window update IS due at the latest when the
    application has consumed those `told` bytes (in fact as soon as `told - consumed` is at most the
    threshold of the window) — the window-update threshold lies within the advertised credit.  The
    only escape is the int64 overflow of the threshold computation, impossible for windows a varint
    can carry (`updateThreshold_nonneg_at`). -/
theorem window_update_due_within_advertised_credit (cfg : Config) (adv : Params) (id : Nat) (sw : Int)
    (hs : 0 ≤ rfcReceiveLimit true adv id) (hc : 0 ≤ adv.maxData) :
    ∃ rw, newFlowControllerReceiveWindow (enforcedConfig cfg (some adv)) (some adv) true id = some rw ∧
      -- the stream
      (∀ r, (((Stream.new rw.1 rw.2 sw).base.addBytesRead r).hasWindowUpdate =
              decide (rfcReceiveLimit true adv id - r ≤ updateThreshold (rfcReceiveLimit true adv id)))) ∧
      ((((Stream.new rw.1 rw.2 sw).base.addBytesRead (rfcReceiveLimit true adv id)).hasWindowUpdate = true) ∨
        updateThreshold (rfcReceiveLimit true adv id) = int64Min) ∧
      -- the connection
      ((((Conn.new (enforcedConfig cfg (some adv)).initialConnectionReceiveWindow
            (enforcedConfig cfg (some adv)).maxConnectionReceiveWindow).addBytesRead adv.maxData).hasWindowUpdate = true) ∨
        updateThreshold adv.maxData = int64Min) := by
  refine ⟨_, spec_stream_window cfg adv id, ?_, ?_, ?_⟩
  · intro r
    simp [Stream.new, Base.addBytesRead, Base.hasWindowUpdate, cmp, hasWindowUpdateCmpOp]
  · rcases updateThreshold_nonneg_or_overflow _ hs with h | h
    · left
      simp [Stream.new, Base.addBytesRead, Base.hasWindowUpdate, cmp, hasWindowUpdateCmpOp, h]
    · right; exact h
  · rw [spec_conn_window]
    rcases updateThreshold_nonneg_or_overflow _ hc with h | h
    · left; rw [fresh_hasWindowUpdate]; simp [h]
    · right; exact h

/-! ### the shape of earlier revisions violates both (kernel-checked witnesses) -/

/-- what Firefox's QUICSpec advertises -/
def firefox : Params := { maxData := 25165824, bidiLocal := 12582912, bidiRemote := 1048576, uni := 1048576 }
/-- the default Config (512 KiB / 6 MiB stream, 768 KiB / 15 MiB connection) -/
def defaultConfig : Config := ⟨524288, 6291456, 786432, 15728640⟩

/-- With the old shape a server-initiated bidirectional stream (id 1; the peer was told 1 MiB) starts
    with a 12 MiB window: the byte at offset 1 MiB + 1 is ACCEPTED instead of FLOW_CONTROL_ERROR. -/
theorem old_shape_accepts_beyond_advertised :
    rfcReceiveLimit true firefox 1 = 1048576 ∧
    newFlowControllerReceiveWindowS Shape.old (enforcedConfigS Shape.old defaultConfig (some firefox)) (some firefox) true 1
      = some (12582912, 12582912) ∧
    ((Stream.new 12582912 12582912 0).updateHighestReceived (Conn.new 25165824 25165824) (1048576 + 1) false 7).2.2.1 = .ok := by
  decide

/-- … and it stalls: after the peer has sent everything it was told it may send (1 MiB) and the
    application has consumed all of it, still no MAX_STREAM_DATA is due (11 MiB of the 12 MiB window
    remain, the threshold is 9 MiB) — and the peer cannot send another byte.  Likewise for the
    connection when the Config's window is more than 4 times the advertised `initial_max_data`. -/
theorem old_shape_stalls :
    (((Stream.new 12582912 12582912 0).base.addBytesRead (rfcReceiveLimit true firefox 1)).hasWindowUpdate = false) ∧
    (let cfg : Config := ⟨524288, 6291456, 5 * 25165824, 5 * 25165824⟩
     let e := enforcedConfigS Shape.old cfg (some firefox)
     e.initialConnectionReceiveWindow = 5 * 25165824 ∧
     ((Conn.new e.initialConnectionReceiveWindow e.maxConnectionReceiveWindow).addBytesRead firefox.maxData).hasWindowUpdate = false) := by
  decide

/-- the current shape on the same inputs: window = what was told, update due once it is consumed -/
example :
    newFlowControllerReceiveWindow (enforcedConfig defaultConfig (some firefox)) (some firefox) true 1 = some (1048576, 12582912) ∧
    newFlowControllerReceiveWindow (enforcedConfig defaultConfig (some firefox)) (some firefox) true 0 = some (12582912, 12582912) ∧
    newFlowControllerReceiveWindow (enforcedConfig defaultConfig (some firefox)) (some firefox) true 3 = some (1048576, 12582912) ∧
    (((Stream.new 1048576 12582912 0).base.addBytesRead 1048576).hasWindowUpdate = true) ∧
    ((Stream.new 1048576 12582912 0).updateHighestReceived (Conn.new 25165824 25165824) (1048576 + 1) false 7).2.2.1 = .flowControl := by
  decide

example := window_update_due_within_advertised_credit defaultConfig firefox 1 0 (by decide) (by decide)

end Uquic.Props.C04Spec
