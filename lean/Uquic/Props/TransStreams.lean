/-
Tie theorems, stream-id arithmetic (property C15): the model functions of Uquic/Model/Streams/Basic.lean EQUAL
the definitions regenerated from internal/protocol/stream.go by the source-to-Lean translator
(gofacts/trans.go → Uquic.Generated.TransStreams) on every run.

Encodings: `STyp.code` / `perspCode` are Go's `StreamType` / `Perspective` constants (regenerated).
Range hypotheses (Go: StreamID, StreamNum int64; translation over unbounded Int):
* `StreamNum.StreamID`: none for the equality; `4*(s-1)` does not overflow int64 for `s ≤ MaxStreamCount = 2^60`.
* `StreamID.InitiatedBy`: none (`s%2 == 0` agrees for truncated and Euclidean remainder).
* `StreamID.Type`, `StreamID.StreamNum`: `0 ≤ s` — for a NEGATIVE id Go's truncated `%`/`/` and the model's
  Euclidean ones differ (witnesses below); every caller passes ids decoded from varints (≥ 0).
-/
import Uquic.Generated.TransStreams
import Uquic.Model.Streams.Basic
import Uquic.Proofs.TransLemmas

namespace Uquic.Props.TransStreams
open Uquic.Model.Streams Uquic.Proofs.Trans
open Uquic.Gen.TransStreams

/-- Go's `protocol.Perspective` value of the model's `Persp` -/
def perspCode : Persp → Int
  | .client => Uquic.Gen.Protocol.PerspectiveClient
  | .server => Uquic.Gen.Protocol.PerspectiveServer

theorem StreamNum_StreamID_model_is_source (n : Int) (t : STyp) (p : Persp) :
    numToID n t p = StreamNum_StreamID n t.code (perspCode p) := by
  unfold numToID StreamNum_StreamID invalidStreamID
  cases t <;> cases p <;>
    simp only [STyp.code, perspCode, Uquic.Gen.Protocol.StreamTypeUni, Uquic.Gen.Protocol.StreamTypeBidi,
      Uquic.Gen.Protocol.PerspectiveClient, Uquic.Gen.Protocol.PerspectiveServer, Uquic.Gen.Protocol.InvalidStreamID] <;>
    tie_arith

theorem StreamID_InitiatedBy_model_is_source (id : Int) :
    perspCode (initiatedBy id) = StreamID_InitiatedBy id := by
  unfold initiatedBy StreamID_InitiatedBy
  have h : Int.tmod id 2 = 0 ↔ id % 2 = 0 := by
    rw [Int.tmod_eq_emod]; split <;> omega
  by_cases h0 : id % 2 = 0 <;> simp [h, h0, perspCode, Uquic.Gen.Protocol.PerspectiveClient, Uquic.Gen.Protocol.PerspectiveServer]

theorem StreamID_Type_model_is_source (id : Int) (h0 : 0 ≤ id) :
    (typeOf id).code = StreamID_Type id := by
  unfold typeOf StreamID_Type
  rw [Int.tmod_eq_emod_of_nonneg h0]
  by_cases h : id % 4 ≥ 2 <;> simp [h, STyp.code, Uquic.Gen.Protocol.StreamTypeUni, Uquic.Gen.Protocol.StreamTypeBidi]

/-- outside the range hypothesis model and source differ: a negative id (never produced by a varint) -/
theorem StreamID_Type_differs_negative : (typeOf (-2)).code ≠ StreamID_Type (-2) := by decide

theorem StreamID_StreamNum_model_is_source (id : Int) (h0 : 0 ≤ id) :
    idToNum id = StreamID_StreamNum id := by
  unfold idToNum StreamID_StreamNum
  rw [Int.tdiv_eq_ediv_of_nonneg h0]

theorem StreamID_StreamNum_differs_negative : idToNum (-2) ≠ StreamID_StreamNum (-2) := by decide

example : StreamNum_StreamID 3 STyp.uni.code (perspCode .server) = 11 := by decide

end Uquic.Props.TransStreams
