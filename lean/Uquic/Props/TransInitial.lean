/-
Tie theorems, first packet number of a uQUIC Initial flight (property C10): `initialPN` and `defaultPnLen` of
Uquic/Model/UQuic/Initial.lean EQUAL the definitions regenerated from u_initial_packet_spec.go (`initialPN`) and
internal/protocol/packet_number.go (`PacketNumberLengthForHeader` with `largestAcked = InvalidPacketNumber`, as
`firstPNLen` / `PeekPacketNumber` call it) by the source-to-Lean translator (gofacts/trans.go →
Uquic.Generated.TransInitial, Uquic.Generated.TransProtocol) on every run.

Range hypotheses (Go: `InitPacketNumber uint64`, result `PacketNumber` int64): none for the equality — the model's
`initPN : Nat` is non-negative by type; the narrowing conversion `protocol.PacketNumber(ps.InitPacketNumber)` is
applied below 2^62 only (`InitialPacketSpec_initialPN_no_wrap`).
-/
import Uquic.Generated.TransInitial
import Uquic.Generated.TransProtocol
import Uquic.Model.UQuic.Initial
import Uquic.Proofs.TransLemmas

namespace Uquic.Props.TransInitial
open Uquic.Proofs.Trans Uquic.Model.Initial
open Uquic.Gen.TransInitial

theorem InitialPacketSpec_initialPN_model_is_source (spec : Spec) :
    ((initialPN spec : Nat) : Int) = InitialPacketSpec_initialPN spec.initPN := by
  have c : maxPN = 4611686018427387903 := by decide
  unfold initialPN InitialPacketSpec_initialPN
  tie_arith

theorem InitialPacketSpec_initialPN_no_wrap (n : Int) : InitialPacketSpec_initialPN_safe n := by
  unfold InitialPacketSpec_initialPN_safe; omega

/-- the result is always a legal packet number -/
theorem InitialPacketSpec_initialPN_range (n : Int) (h : 0 ≤ n) :
    0 ≤ InitialPacketSpec_initialPN n ∧ InitialPacketSpec_initialPN n < 2 ^ 62 := by
  unfold InitialPacketSpec_initialPN; tie_arith

theorem defaultPnLen_model_is_source (pn : Nat) :
    ((defaultPnLen pn : Nat) : Int) = Uquic.Gen.TransProtocol.PacketNumberLengthForHeader pn (-1) := by
  unfold defaultPnLen Uquic.Gen.TransProtocol.PacketNumberLengthForHeader
  tie_arith

example : InitialPacketSpec_initialPN 4611686018427387904 = 0 := by decide

end Uquic.Props.TransInitial
