import Uquic.Model.H3.Fields
namespace Uquic.Props.C19
theorem placeholder : True := trivial
end Uquic.Props.C19
