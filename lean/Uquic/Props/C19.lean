/-
C19 — only well-formed HTTP/3 field sections are accepted; writers and parser agree.

Property theorems only. Model: Uquic/Model/H3/Fields.lean (http3/headers.go) and
Uquic/Model/H3/Writer.lean (request_writer.go encodeHeaders, headers.go writeTrailers); reference
predicate: Uquic/Spec/H3FieldsWF.lean (RFC 9114 §4.2–4.3). Every theorem quantifies over ALL field
lists `fs` (arbitrary bytes in names and values, any length), all limits, both directions, and all
answers `ext` of `strings.ToLower` on non-ASCII names.
-/
import Uquic.Proofs.FieldsParse
import Uquic.Proofs.FieldsTrailers

namespace Uquic.Props.C19
open Uquic.Model.H3.Fields Uquic.Gen.H3Fields Uquic.Proofs.Fields
open Uquic.Spec.H3Fields (WellFormed WellFormedG PseudoUnique ClNumeric)
open Uquic.Spec.H3FieldsMon (requestRules responseRules)

abbrev Field := List Nat × List Nat

/-! ## 1. accept_sound -/

/-- `accept_sound_partial`: every header section parseHeaders accepts satisfies every clause of the
    reference predicate, except that a Content-Length field may have an EMPTY value (finding
    C19-empty-content-length: the unchanged code accepts and drops it). Uniqueness of pseudo-header
    fields is included at full strength (the defect repaired by /repo commit 9602041). -/
theorem accept_sound_partial (ext : List Nat → Bool) (isReq : Bool) (lim : Int) (hlim : 0 ≤ lim) (fs : List Field) (h : Hdr)
    (hp : parseHeaders ext isReq lim fs = .ok h) : WellFormedG true isReq lim fs := by
  obtain ⟨s, inv, _, hf⟩ := parse_ok_inv ext isReq lim fs false h hp
  refine ⟨inv.names, inv.values, inv.noconn, inv.te, inv.known, inv.first, ?_, ?_, ?_, ?_⟩
  · unfold PseudoUnique; rw [← inv.seen]; exact inv.nodup
  · intro f hf' g hg hfn hgn
    cases hr : s.readCL with
    | false => exact absurd hfn ((inv.clNone hr).1 f hf')
    | true => rw [inv.clSome hr f hf' hfn, inv.clSome hr g hg hgn]
  · intro f hf' hfn
    refine ⟨Or.inr rfl, ?_⟩
    cases hr : s.readCL with
    | false => exact absurd hfn ((inv.clNone hr).1 f hf')
    | true =>
      rw [inv.clSome hr f hf' hfn]
      rcases finish_cl s h hf with he | ⟨_, hd⟩
      · rw [he]; simp
      · exact hd
  · show Uquic.Spec.H3Fields.sectionSize fs ≤ lim
    by_cases hfs : fs = []
    · subst hfs; simpa [Uquic.Spec.H3Fields.sectionSize] using hlim
    · have := inv.nonneg hfs
      have := inv.lim
      omega

/-- `accept_sound`: with no empty Content-Length value in the section, acceptance implies the full
    reference predicate `WellFormed`. -/
theorem accept_sound (ext : List Nat → Bool) (isReq : Bool) (lim : Int) (hlim : 0 ≤ lim) (fs : List Field) (h : Hdr)
    (hcl : ∀ f ∈ fs, f.1 = nContentLength → f.2 ≠ [])
    (hp : parseHeaders ext isReq lim fs = .ok h) : WellFormed isReq lim fs := by
  have w := accept_sound_partial ext isReq lim hlim fs h hp
  exact { w with cl_numeric := fun f hf hn => ⟨Or.inl (hcl f hf hn), (w.cl_numeric f hf hn).2⟩ }

/-- the statement at full strength … -/
def accept_sound_full : Prop :=
  ∀ (ext : List Nat → Bool) (isReq : Bool) (lim : Int), 0 ≤ lim → ∀ (fs : List Field) (h : Hdr),
    parseHeaders ext isReq lim fs = .ok h → WellFormed isReq lim fs

/-- … is false of the unchanged code: `content-length: ""` is accepted (known finding). -/
theorem accept_sound_full_witness : ¬ accept_sound_full := by
  intro H
  have := H (fun _ => true) true 1000 (by decide) [(nContentLength, [])] _ rfl
  exact absurd this.cl_numeric (by decide)

/-- pseudo-header fields of an accepted section are pairwise distinct — at full strength. -/
theorem pseudo_unique (ext : List Nat → Bool) (isReq : Bool) (lim : Int) (fs : List Field) (h : Hdr)
    (hp : parseHeaders ext isReq lim fs = .ok h) : PseudoUnique fs := by
  obtain ⟨s, inv, _, _⟩ := parse_ok_inv ext isReq lim fs false h hp
  unfold PseudoUnique; rw [← inv.seen]; exact inv.nodup

/-- the witness of the repaired defect (`:path ""` then `:path /x`) is not accepted, whatever `ext` says … -/
theorem old_witness_rejected (ext : List Nat → Bool) :
    ∃ e, parseHeaders ext true 100000
      [(nMethod, B "GET"), (nScheme, B "https"), (nAuthority, B "a"), (nPath, []), (nPath, B "/x")] = .error e := by
  cases hp : parseHeaders ext true 100000
      [(nMethod, B "GET"), (nScheme, B "https"), (nAuthority, B "a"), (nPath, []), (nPath, B "/x")] with
  | error e => exact ⟨e, rfl⟩
  | ok h => exact absurd (pseudo_unique ext true _ _ h hp) (by decide)

/-- rejection class of a result (`none` = accepted) -/
def errOf {α} : Except Err α → Option Err
  | .error e => some e
  | .ok _ => none

/-- … and the class is "duplicate pseudo header" -/
example : errOf (parseHeaders (fun _ => true) true 100000
      [(nMethod, B "GET"), (nScheme, B "https"), (nAuthority, B "a"), (nPath, []), (nPath, B "/x")])
      = some .dupPseudo := by decide

set_option maxRecDepth 8000 in
/-- hypotheses of `accept_sound` are satisfiable by a non-trivial section -/
example : ∃ h, parseHeaders (fun _ => true) true 1000
    [(nMethod, B "POST"), (nScheme, B "https"), (nAuthority, B "example.com"), (nPath, B "/a"),
     (B "cookie", B "a=b"), (nContentLength, B "12"), (nTe, vTrailers), (nContentLength, B "12")] = .ok h ∧ h.contentLength = 12 :=
  ⟨_, rfl, rfl⟩

/-- "anything else is rejected": a section violating the (weakened) reference predicate is rejected -/
theorem malformed_rejected (ext : List Nat → Bool) (isReq : Bool) (lim : Int) (hlim : 0 ≤ lim) (fs : List Field)
    (hbad : ¬ WellFormedG true isReq lim fs) : ∃ e, parseHeaders ext isReq lim fs = .error e := by
  cases hp : parseHeaders ext isReq lim fs with
  | error e => exact ⟨e, rfl⟩
  | ok h => exact absurd (accept_sound_partial ext isReq lim hlim fs h hp) hbad

/-! ## 2. reject_maps_to_error -/

/-- RFC 9114 §8.1 / RFC 9204 §6 code points -/
def H3_MESSAGE_ERROR : Int := 0x010e
def H3_EXCESSIVE_LOAD : Int := 0x0107
def QPACK_DECOMPRESSION_FAILED : Int := 0x0200

/-- Every rejection class maps to the error the caller sends. Server (handleRequestStream): a QPACK
    decoding error resets the stream with QPACK_DECOMPRESSION_FAILED, an oversized section stops reading
    with H3_EXCESSIVE_LOAD and is answered by a 431 response, every other (malformed) class resets the
    stream with H3_MESSAGE_ERROR. Client (ReadResponse): QPACK_DECOMPRESSION_FAILED for a decoding
    error, H3_MESSAGE_ERROR for everything else, including an oversized section.
    (RFC 9204 §2.2 makes a decoding failure a CONNECTION error; the code resets the stream only — noted.) -/
theorem reject_maps_to_error (e : Err) :
    (e = .qpack → serverReaction e = ⟨QPACK_DECOMPRESSION_FAILED, false⟩ ∧ clientReaction e = ⟨QPACK_DECOMPRESSION_FAILED, false⟩) ∧
    (e = .tooLarge → serverReaction e = ⟨H3_EXCESSIVE_LOAD, true⟩ ∧ clientReaction e = ⟨H3_MESSAGE_ERROR, false⟩) ∧
    (e ≠ .qpack → e ≠ .tooLarge → serverReaction e = ⟨H3_MESSAGE_ERROR, false⟩ ∧ clientReaction e = ⟨H3_MESSAGE_ERROR, false⟩) ∧
    cliTooLargeSpecial = false := by
  cases e <;> decide

/-- every rejection of parseHeaders is one of: a decoding error (only when the decoder reported one), an
    oversized section, or a malformed-section class -/
theorem parse_error_classes (ext : List Nat → Bool) (isReq : Bool) (lim : Int) (fs : List Field) (q : Bool) (e : Err)
    (h : parseHeadersQ ext isReq lim fs q = .error e) : (e = .qpack ∧ q = true) ∨ e ∈ loopErrors ∨ e = .clInvalid := by
  unfold parseHeadersQ at h
  split at h
  · rename_i e' hr; cases h; exact Or.inr (Or.inl (runFields_err ext isReq fs _ _ hr))
  · split at h
    · rename_i hq; cases h; exact Or.inl ⟨rfl, hq⟩
    · unfold finish at h
      repeat' split at h
      all_goals first | (cases h; exact Or.inr (Or.inr rfl)) | cases h

/-- a malformed request section is answered with a stream error (H3_MESSAGE_ERROR, or the
    H3_EXCESSIVE_LOAD + 431 handling when it is over the limit), never accepted -/
theorem malformed_request_stream_error (ext urlOK : List Nat → Bool) (lim : Int) (hlim : 0 ≤ lim) (fs : List Field)
    (hbad : ¬ WellFormedG true true lim fs) :
    ∃ e, requestFromHeaders ext urlOK lim fs false = .error e ∧
      (serverReaction e = ⟨H3_MESSAGE_ERROR, false⟩ ∨ serverReaction e = ⟨H3_EXCESSIVE_LOAD, true⟩) := by
  obtain ⟨e, he⟩ := malformed_rejected ext true lim hlim fs hbad
  refine ⟨e, ?_, ?_⟩
  · simp only [requestFromHeaders]
    simp only [parseHeaders] at he
    rw [he]
  · have hq : e ≠ .qpack := by
      rcases parse_error_classes ext true lim fs false e he with ⟨_, hq⟩ | hl | hc
      · cases hq
      · intro hq; subst hq; revert hl; decide
      · intro hq; subst hq; cases hc
    have := reject_maps_to_error e
    by_cases ht : e = .tooLarge
    · exact Or.inr (this.2.1 ht).1
    · exact Or.inl (this.2.2.1 hq ht).1

/-! ## 3. request_rules / response_rules -/

/-- Every request section requestFromHeaders accepts is well formed (as in `accept_sound_partial`) and
    satisfies the pseudo-header rules the code enforces (`Spec.H3FieldsMon.requestRules`):
    extended CONNECT (CONNECT with a non-empty :protocol) has non-empty :scheme, :path and :authority;
    CONNECT has a non-empty :authority and no (or an empty) :path; every other request has non-empty
    :method, :path, :authority and no :protocol value.
    Where the code is weaker than RFC 9114 (documented, not part of the fixed statement): a missing
    :scheme is accepted for non-CONNECT requests (§4.3.1 requires it), and a :scheme or an empty :path
    field is tolerated on CONNECT (§4.4 requires them to be omitted) — see the two examples below. -/
theorem request_rules (ext urlOK : List Nat → Bool) (lim : Int) (hlim : 0 ≤ lim) (fs : List Field) (q : Bool) (r : Req)
    (hp : requestFromHeaders ext urlOK lim fs q = .ok r) :
    requestRules fs = true ∧ WellFormedG true true lim fs ∧ q = false := by
  refine ⟨request_rules_of_ok ext urlOK lim fs q r hp, ?_⟩
  unfold requestFromHeaders at hp
  split at hp
  · cases hp
  rename_i hdr hparse
  obtain ⟨_, _, hq, _⟩ := parse_ok_inv ext true lim fs q hdr hparse
  subst hq
  exact ⟨accept_sound_partial ext true lim hlim fs hdr hparse, rfl⟩

/-- the rules are satisfiable: an ordinary request, a CONNECT and an extended CONNECT are accepted -/
example : (errOf (requestFromHeaders (fun _ => true) (fun _ => true) 1000
      [(nMethod, B "GET"), (nScheme, B "https"), (nAuthority, B "a"), (nPath, B "/x")] false) = none) ∧
    (errOf (requestFromHeaders (fun _ => true) (fun _ => true) 1000 [(nMethod, mConnect), (nAuthority, B "a:443")] false) = none) ∧
    (errOf (requestFromHeaders (fun _ => true) (fun _ => true) 1000
      [(nMethod, mConnect), (nProtocol, B "websocket"), (nScheme, B "https"), (nAuthority, B "a"), (nPath, B "/x")] false) = none) := by
  decide

/-- leniency 1 (observation): a request without :scheme is accepted -/
example : errOf (requestFromHeaders (fun _ => true) (fun _ => true) 1000
    [(nMethod, B "GET"), (nAuthority, B "a"), (nPath, B "/x")] false) = none := by decide

/-- leniency 2 (observation): CONNECT with a :scheme field is accepted; :protocol without CONNECT is not -/
example : errOf (requestFromHeaders (fun _ => true) (fun _ => true) 1000
    [(nMethod, mConnect), (nAuthority, B "a:443"), (nScheme, B "https")] false) = none ∧
    errOf (requestFromHeaders (fun _ => true) (fun _ => true) 1000
    [(nMethod, B "GET"), (nScheme, B "https"), (nAuthority, B "a"), (nPath, B "/x"), (nProtocol, B "websocket")] false) = some .protocol := by
  decide

/-- Every response section updateResponseFromHeaders accepts is well formed and has a non-empty,
    optionally signed decimal :status (strconv.Atoi — a sign or a value outside 100..999 is NOT rejected;
    observation, the fixed statement does not constrain the status value). -/
theorem response_rules (ext : List Nat → Bool) (lim : Int) (hlim : 0 ≤ lim) (fs : List Field) (q : Bool) (r : Resp)
    (hp : updateResponseFromHeaders ext lim fs q = .ok r) :
    responseRules fs = true ∧ WellFormedG true false lim fs ∧ q = false := by
  refine ⟨response_rules_of_ok ext lim fs q r hp, ?_⟩
  unfold updateResponseFromHeaders at hp
  split at hp
  · cases hp
  rename_i hdr hparse
  obtain ⟨_, _, hq, _⟩ := parse_ok_inv ext false lim fs q hdr hparse
  subst hq
  exact ⟨accept_sound_partial ext false lim hlim fs hdr hparse, rfl⟩

example : errOf (updateResponseFromHeaders (fun _ => true) 1000 [(nStatus, B "200"), (B "server", B "x")] false) = none ∧
    errOf (updateResponseFromHeaders (fun _ => true) 1000 [(nStatus, B "-5")] false) = none ∧
    errOf (updateResponseFromHeaders (fun _ => true) 1000 [(B "server", B "x")] false) = some .noStatus := by decide

/-! ## 5. trailers_sound -/

/-- Every trailer section parseTrailers accepts has no pseudo-header field, only lower-case token names,
    no forbidden value byte, no connection-specific field, no name that RFC 9110 §6.5.1 forbids in
    trailers, and is within the size limit; a decoding error is never ignored. -/
theorem trailers_sound (ext : List Nat → Bool) (lim : Int) (hlim : 0 ≤ lim) (fs : List Field) (q : Bool) (h : Headers)
    (hp : parseTrailersQ ext lim fs q = .ok h) : Uquic.Spec.H3Fields.TrailersWellFormed lim fs ∧ q = false :=
  trailers_sound_of_ok ext lim hlim fs q h hp

example : errOf (parseTrailers (fun _ => true) 1000 [(B "x-checksum", B "abc"), (B "etag", B "1")]) = none ∧
    errOf (parseTrailers (fun _ => true) 1000 [(nStatus, B "200")]) = some .trlPseudo ∧
    errOf (parseTrailers (fun _ => true) 1000 [(B "content-length", B "1")]) = some .trlName := by decide

end Uquic.Props.C19
