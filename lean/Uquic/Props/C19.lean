/-
C19 — only well-formed HTTP/3 field sections are accepted; writers and parser agree.

Property theorems only. Model: Uquic/Model/H3/Fields.lean (http3/headers.go) and
Uquic/Model/H3/Writer.lean (request_writer.go encodeHeaders, headers.go writeTrailers); reference
predicate: Uquic/Spec/H3FieldsWF.lean (RFC 9114 §4.2–4.3). Every theorem quantifies over ALL field
lists `fs` (arbitrary bytes in names and values, any length), all limits, both directions, and all
answers `ext` of `strings.ToLower` on non-ASCII names.
-/
import Uquic.Proofs.FieldsWriter3
import Uquic.Proofs.FieldsTrailerWriter
import Uquic.Proofs.FieldsRespWriter

namespace Uquic.Props.C19
open Uquic.Model.H3.Fields Uquic.Model.H3.Writer Uquic.Gen.H3Fields Uquic.Proofs.Fields
open Uquic.Spec.H3Fields (WellFormed PseudoUnique ClNumeric isPseudoName)
open Uquic.Spec.H3FieldsMon (requestRules responseRules)

abbrev Field := List Nat × List Nat

/-- every source shape the generated facts depend on was recognised by gofacts (a changed shape leaves
    a fallback value and a message here, and this theorem fails) -/
theorem facts_extracted : extractionProblems = [] := by decide

/-! ## 1. accept_sound -/

/-- rejection class of a result (`none` = accepted) -/
def errOf {α} : Except Err α → Option Err
  | .error e => some e
  | .ok _ => none

/-- `accept_sound` (full strength): every header section parseHeaders accepts satisfies the reference
    predicate `WellFormed` — names lower-case valid tokens, values without forbidden bytes, no
    connection-specific field, TE only "trailers", pseudo-fields known / of the right kind / ahead of
    regular fields / UNIQUE (defect repaired by /repo commit 9602041), Content-Length single-valued and
    numeric — an empty value is rejected since /repo commit 258b529 —, size within the limit. -/
theorem accept_sound (ext : List Nat → Bool) (isReq : Bool) (lim : Int) (hlim : 0 ≤ lim) (fs : List Field) (h : Hdr)
    (hp : parseHeaders ext isReq lim fs = .ok h) : WellFormed isReq lim fs := by
  obtain ⟨s, inv, _, hf⟩ := parse_ok_inv ext isReq lim fs false h hp
  refine ⟨inv.names, inv.values, inv.noconn, inv.te, inv.known, inv.first, ?_, ?_, ?_, ?_, ?_⟩
  · unfold PseudoUnique; rw [← inv.seen]; exact inv.nodup
  · intro f hf' g hg hfn hgn
    cases hr : s.readCL with
    | false => exact absurd hfn ((inv.clNone hr).1 f hf')
    | true => rw [inv.clSome hr f hf' hfn, inv.clSome hr g hg hgn]
  · intro f hf' hfn
    cases hr : s.readCL with
    | false => exact absurd hfn ((inv.clNone hr).1 f hf')
    | true =>
      rw [inv.clSome hr f hf' hfn]
      rcases finish_cl s h hf with he | ⟨_, hne, hd, _⟩
      · rw [hr] at he; cases he
      · exact ⟨hne, hd⟩
  · exact fits_of_ok ext isReq lim fs h hp
  · show Uquic.Spec.H3Fields.sectionSize fs ≤ lim
    by_cases hfs : fs = []
    · subst hfs; simpa [Uquic.Spec.H3Fields.sectionSize] using hlim
    · have := inv.nonneg hfs
      have := inv.lim
      omega

/-- the witness of the defect repaired by /repo commit 258b529 (`content-length: ""` was accepted and
    silently dropped) is rejected as an invalid Content-Length -/
theorem empty_content_length_rejected (ext : List Nat → Bool) (isReq : Bool) (lim : Int) (hlim : 0 ≤ lim)
    (pre post : List Field) : ∃ e, parseHeaders ext isReq lim (pre ++ (nContentLength, []) :: post) = .error e := by
  cases hp : parseHeaders ext isReq lim (pre ++ (nContentLength, []) :: post) with
  | error e => exact ⟨e, rfl⟩
  | ok h =>
    have := (accept_sound ext isReq lim hlim _ h hp).cl_numeric (nContentLength, []) (by simp) rfl
    exact absurd rfl this.1

example : errOf (parseHeaders (fun _ => true) true 1000 [(nContentLength, [])]) = some .clInvalid := by decide

/-- pseudo-header fields of an accepted section are pairwise distinct — at full strength. -/
theorem pseudo_unique (ext : List Nat → Bool) (isReq : Bool) (lim : Int) (fs : List Field) (h : Hdr)
    (hp : parseHeaders ext isReq lim fs = .ok h) : PseudoUnique fs := by
  obtain ⟨s, inv, _, _⟩ := parse_ok_inv ext isReq lim fs false h hp
  unfold PseudoUnique; rw [← inv.seen]; exact inv.nodup

/-- the witness of the repaired defect (`:path ""` then `:path /x`) is not accepted, whatever `ext` says … -/
theorem old_witness_rejected (ext : List Nat → Bool) :
    ∃ e, parseHeaders ext true 100000
      [(nMethod, B "GET"), (nScheme, B "https"), (nAuthority, B "a"), (nPath, []), (nPath, B "/x")] = .error e := by
  cases hp : parseHeaders ext true 100000
      [(nMethod, B "GET"), (nScheme, B "https"), (nAuthority, B "a"), (nPath, []), (nPath, B "/x")] with
  | error e => exact ⟨e, rfl⟩
  | ok h => exact absurd (pseudo_unique ext true _ _ h hp) (by decide)

/-- … and the class is "duplicate pseudo header" -/
example : errOf (parseHeaders (fun _ => true) true 100000
      [(nMethod, B "GET"), (nScheme, B "https"), (nAuthority, B "a"), (nPath, []), (nPath, B "/x")])
      = some .dupPseudo := by decide

set_option maxRecDepth 8000 in
/-- hypotheses of `accept_sound` are satisfiable by a non-trivial section -/
example : ∃ h, parseHeaders (fun _ => true) true 1000
    [(nMethod, B "POST"), (nScheme, B "https"), (nAuthority, B "example.com"), (nPath, B "/a"),
     (B "cookie", B "a=b"), (nContentLength, B "12"), (nTe, vTrailers), (nContentLength, B "12")] = .ok h ∧ h.contentLength = 12 :=
  ⟨_, rfl, rfl⟩

/-- "anything else is rejected": a section violating the (weakened) reference predicate is rejected -/
theorem malformed_rejected (ext : List Nat → Bool) (isReq : Bool) (lim : Int) (hlim : 0 ≤ lim) (fs : List Field)
    (hbad : ¬ WellFormed isReq lim fs) : ∃ e, parseHeaders ext isReq lim fs = .error e := by
  cases hp : parseHeaders ext isReq lim fs with
  | error e => exact ⟨e, rfl⟩
  | ok h => exact absurd (accept_sound ext isReq lim hlim fs h hp) hbad

/-! ## 1b. completeness: the accepted sections are characterised exactly -/

/-- parseHeaders accepts EXACTLY the sections that satisfy the reference predicate (which includes:
    Content-Length fits a non-negative int64). -/
theorem accept_iff (ext : List Nat → Bool) (isReq : Bool) (lim : Int) (hlim : 0 ≤ lim) (fs : List Field) :
    (∃ h, parseHeaders ext isReq lim fs = .ok h) ↔ WellFormed isReq lim fs := by
  constructor
  · rintro ⟨h, hp⟩
    exact accept_sound ext isReq lim hlim fs h hp
  · exact accept_complete_of_wf ext isReq lim fs

/-- every well-formed section is accepted -/
theorem accept_complete (ext : List Nat → Bool) (isReq : Bool) (lim : Int) (fs : List Field)
    (wf : WellFormed isReq lim fs) : ∃ h, parseHeaders ext isReq lim fs = .ok h :=
  accept_complete_of_wf ext isReq lim fs wf

/-- the Content-Length handed to net/http is the decimal value of the field and a non-negative int64
    (or -1 when there is no such field) — never a wrapped negative number -/
theorem content_length_faithful (ext : List Nat → Bool) (isReq : Bool) (lim : Int) (fs : List Field) (h : Hdr)
    (hp : parseHeaders ext isReq lim fs = .ok h) :
    (∀ f ∈ fs, f.1 = nContentLength → h.contentLength = (decVal f.2 : Int) ∧ 0 ≤ h.contentLength ∧ h.contentLength < 2 ^ 63) ∧
    ((∀ f ∈ fs, f.1 ≠ nContentLength) → h.contentLength = -1) := by
  obtain ⟨s, inv, _, hf⟩ := parse_ok_inv ext isReq lim fs false h hp
  constructor
  · intro f hfm hfn
    have hr : s.readCL = true := by
      cases hr : s.readCL with
      | true => rfl
      | false => exact absurd hfn ((inv.clNone hr).1 f hfm)
    have hall : ∀ g ∈ fs, g.1 = nContentLength → g.2 = f.2 := by
      intro g hg hgn; rw [inv.clSome hr g hg hgn, inv.clSome hr f hfm hfn]
    have hv := ((parse_cl_result ext isReq lim fs h hp f.2 hall).1 ⟨f, hfm, hfn⟩).1
    have hfit := fits_of_ok ext isReq lim fs h hp f hfm hfn
    refine ⟨hv, by rw [hv]; omega, ?_⟩
    rw [hv]; exact_mod_cast hfit
  · intro hno
    have hr : s.readCL = false := by
      cases hr : s.readCL with
      | false => rfl
      | true => obtain ⟨g, hg, hg1, _⟩ := inv.clWitness hr; exact absurd hg1 (hno g hg)
    unfold finish at hf
    simp only [hr, Bool.false_eq_true, if_false] at hf
    cases hf; rfl

/-- the hypotheses of `accept_complete` are satisfiable by a non-trivial section -/
example : WellFormed true 1000 [(nMethod, B "POST"), (nScheme, B "https"), (nAuthority, B "a"), (nPath, B "/x"),
      (B "cookie", B "a=b"), (nContentLength, B "12"), (nTe, vTrailers)] ∧
    errOf (parseHeaders (fun _ => true) true 1000 [(nContentLength, B "9223372036854775808")]) = some .clInvalid :=
  ⟨⟨by decide, by decide, by decide, by decide, by decide, by decide, by decide, by decide, by decide, by decide, by decide⟩,
   by decide⟩

/-! ## 4. writer_parser_agree -/

/-- For every request the writer's own validation accepts (`encodeHeaders ua w = ok fs`) and that is a
    valid net/http message (`ValidRequest`: token method, URL parts without control bytes, token
    trailer keys, int64 Content-Length — header names and values are checked by the writer itself, TE
    values other than "trailers" and connection-specific headers are dropped by it), the emitted section
    is well formed (full reference predicate), the parser accepts it under every limit ≥ its size, and it
    decodes to the same fields: method, authority (= punycoded host), path, scheme, protocol,
    Content-Length, and the regular fields exactly as emitted with canonicalised keys. QPACK is a
    parameter: `fs` is what the encoder is given and what the decoder must return (round-trip contract,
    sampled by the driver). -/
theorem writer_parser_agree (ext : List Nat → Bool) (ua : List Nat) (w : WReq) (fs : List Field)
    (hv : ValidRequest ua w) (hw : encodeHeaders ua w = .ok fs) (lim : Int)
    (hlim : Uquic.Spec.H3Fields.sectionSize fs ≤ lim) :
    WellFormed true lim fs ∧
    ∃ h host, parseHeaders ext true lim fs = .ok h ∧ w.puny = some host ∧
      h.method = w.method ∧ h.authority = host ∧
      h.path = (if needPath w then emittedPath w host else []) ∧
      h.scheme = (if needPath w then w.scheme else []) ∧
      h.protocol = (if isExtendedConnect w then w.proto else []) ∧
      h.status = [] ∧
      (shouldSendCL w.method w.contentLength = true →
        h.contentLength = w.contentLength ∧
        h.headers = hdrSet (decodedHeaders (regularPart ua w)) kContentLength (fmtNat w.contentLength.toNat)) ∧
      (shouldSendCL w.method w.contentLength = false →
        h.contentLength = -1 ∧ h.headers = decodedHeaders (regularPart ua w)) := by
  obtain ⟨host, hpuny, hvh, hhdr, _, rfl⟩ := encode_decompose ua w fs hw
  obtain ⟨hP1, hP2⟩ := pseudoPart_ok w host (emittedPath w host) (host_value host hvh) (token_value _ hv.method)
    (emittedPath_bytes w host hv.uri) (value_bytes_of_valid _ hv.scheme) (value_bytes_of_valid _ hv.proto)
  have hR := regularPart_ok ua w hv hhdr
  obtain ⟨f1, f2, f3⟩ := fmtNat_spec w.contentLength.toNat
  have hdig : ∀ b ∈ fmtNat w.contentLength.toNat, Uquic.Spec.H3Fields.isDigitByte b = true :=
    fun b hb => List.all_eq_true.mp f2 b hb
  have hclfit : decVal (fmtNat w.contentLength.toNat) < 2 ^ 63 := by
    rw [f3]; have := hv.cl; omega
  have wf : WellFormed true lim (pseudoPart w host (emittedPath w host) ++ regularPart ua w) :=
    wf_of_parts true lim _ _ (fmtNat w.contentLength.toNat) hP1 hP2 hR ⟨f1, hdig⟩ hclfit hlim
  -- every Content-Length field of the section is the emitted one
  have hall : ∀ f ∈ pseudoPart w host (emittedPath w host) ++ regularPart ua w, f.1 = nContentLength →
      f.2 = fmtNat w.contentLength.toNat := by
    intro f hf hn
    rcases List.mem_append.mp hf with hf | hf
    · exact absurd hn (pseudo_not_cl _ (hP1 f hf).1)
    · rcases hR f hf with h | ⟨_, h⟩
      · exact absurd hn h.2.2.2.2.2.2
      · exact h
  obtain ⟨h, hp⟩ := accept_complete ext true lim _ wf
  refine ⟨wf, h, host, hp, hpuny, ?_⟩
  obtain ⟨vp, vm, va, vpr, vs, vst⟩ := parse_pseudo_values ext true lim _ false h hp
  have hRnp : ∀ g ∈ regularPart ua w, isPseudoName g.1 = false := by
    intro g hg; rcases hR g hg with h | ⟨h, _⟩
    · exact h.1
    · rw [h]; exact cl_name_facts.1
  have noR : ∀ n, isPseudoName n = true → ∀ g ∈ regularPart ua w, g.1 ≠ n := by
    intro n hn g hg heq; rw [← heq, hRnp g hg] at hn; cases hn
  obtain ⟨q1, q2, q3, q4, q5⟩ := pseudoPart_values w host (emittedPath w host)
  have names := pseudo_names_facts
  have hstatus : fieldValue (pseudoPart w host (emittedPath w host) ++ regularPart ua w) nStatus = [] := by
    apply fieldValue_none
    intro g hg heq
    rcases List.mem_append.mp hg with hg | hg
    · have := (hP1 g hg).2.1
      rw [heq] at this; revert this; decide
    · exact noR nStatus (by decide) g hg heq
  refine ⟨?_, ?_, ?_, ?_, ?_, ?_, ?_, ?_⟩
  · rw [vm, fieldValue_append_left _ _ _ (noR _ names.2.1), q1]
  · rw [va, fieldValue_append_left _ _ _ (noR _ names.1), q2]
  · rw [vp, fieldValue_append_left _ _ _ (noR _ names.2.2.1), q3]
  · rw [vs, fieldValue_append_left _ _ _ (noR _ names.2.2.2.1), q4]
  · rw [vpr, fieldValue_append_left _ _ _ (noR _ names.2.2.2.2.1), q5]
  · rw [vst, hstatus]
  · intro hsend
    have hex : ∃ f ∈ pseudoPart w host (emittedPath w host) ++ regularPart ua w, f.1 = nContentLength :=
      ⟨(nContentLength, fmtNat w.contentLength.toNat), by simp [regularPart, hsend], rfl⟩
    obtain ⟨r1, r2⟩ := (parse_cl_result ext true lim _ h hp _ hall).1 hex
    rw [decodedHeaders_parts _ _ (fun f hf => (hP1 f hf).1)] at r2
    refine ⟨?_, r2⟩
    rw [r1, f3]
    have : 0 ≤ w.contentLength := by
      simp only [shouldSendCL] at hsend
      split at hsend
      · omega
      · split at hsend
        · cases hsend
        · omega
    omega
  · intro hsend
    have hno : ∀ f ∈ pseudoPart w host (emittedPath w host) ++ regularPart ua w, f.1 ≠ nContentLength := by
      intro f hf hn
      rcases List.mem_append.mp hf with hf | hf
      · exact pseudo_not_cl _ (hP1 f hf).1 hn
      · have hreg := regularPart_ok ua w hv hhdr f hf
        rcases hreg with h | ⟨_, _⟩
        · exact h.2.2.2.2.2.2 hn
        · -- the content-length entry is absent when shouldSendCL is false
          simp only [regularPart, hsend, Bool.false_eq_true, if_false, List.append_nil, List.mem_append] at hf
          obtain ⟨t1, t2, t3, t4, t5, t6, t7, t8, t9, t10, t11, t12, _⟩ := const_names
          rcases hf with ((hf | hf) | hf) | hf
          · split at hf
            · simp only [List.mem_singleton] at hf; subst hf; exact t10 hn
            · simp at hf
          · obtain ⟨kv, _, h1, _, h3, _⟩ := headerFields_mem w.headers f hf
            exact h3 (h1 ▸ hn ▸ cl_in_skipped)
          · split at hf
            · simp only [List.mem_singleton] at hf; subst hf; exact t11 hn
            · simp at hf
          · split at hf
            · simp only [List.mem_singleton] at hf; subst hf; exact t12 hn
            · simp at hf
    obtain ⟨r1, r2⟩ := (parse_cl_result ext true lim _ h hp _ hall).2 hno
    rw [decodedHeaders_parts _ _ (fun f hf => (hP1 f hf).1)] at r2
    exact ⟨r1, r2⟩

/-- hypotheses of `writer_parser_agree` are satisfiable: a POST with headers, a cookie pair and a trailer -/
example : ∃ fs, encodeHeaders defaultUserAgent
    { method := B "POST", proto := B "HTTP/1.1", puny := some (B "example.com"), reqURI := B "/a?b=c", scheme := B "https",
      headers := [(B "Cookie", [B "a=1", B "b=2"]), (B "Connection", [B "close"]), (B "Te", [B "trailers"])],
      trailerKeys := [B "X-Checksum"], contentLength := 42, gzip := true } = .ok fs ∧ fs.length = 11 := ⟨_, rfl, rfl⟩

/-- the witness of the defect repaired by /repo commit 82b9144: `TE: gzip` is no longer emitted (only
    "trailers" values survive), so the emitted section is accepted -/
theorem writer_te_filtered : ∃ fs, encodeHeaders defaultUserAgent
      { method := B "GET", proto := B "HTTP/1.1", puny := some (B "example.com"), reqURI := B "/", scheme := B "https",
        headers := [(B "Te", [B "gzip", B "trailers"])], trailerKeys := [], contentLength := 0, gzip := false } = .ok fs ∧
    fs.filter (fun f => f.1 = nTe) = [(nTe, vTrailers)] ∧
    errOf (parseHeaders (fun _ => true) true 100000 fs) = none :=
  ⟨_, rfl, by decide, by decide⟩

/-- For every trailer map of a valid net/http message (token keys, values without forbidden bytes, no
    connection-specific key — `Upgrade` is the one such key httpguts.ValidTrailerHeader lets through,
    see the witness below), whatever writeTrailers emits is accepted by parseTrailers under every limit
    ≥ its size, is a well-formed trailer section, and decodes to exactly the emitted fields with
    canonicalised keys. -/
theorem trailer_writer_parser_agree (ext : List Nat → Bool) (t : List (List Nat × List (List Nat))) (fs : List Field)
    (hv : ValidTrailers t) (hw : writeTrailers t = some fs) (lim : Int)
    (hlim : Uquic.Spec.H3Fields.sectionSize fs ≤ lim) :
    parseTrailers ext lim fs = .ok (fs.map (fun f => (canonKey f.1, f.2))) ∧
    Uquic.Spec.H3Fields.TrailersWellFormed lim fs := by
  have hok := writeTrailers_ok ext t fs hw hv
  have hrun := runTrailers_ok ext fs { limit := lim } hok hlim
  have hp : parseTrailers ext lim fs = .ok (fs.map (fun f => (canonKey f.1, f.2))) := by
    simp only [parseTrailers, parseTrailersQ, hrun, Bool.false_eq_true, if_false, List.nil_append]
  have h0 : 0 ≤ lim := by have := sectionSize_nonneg fs; omega
  exact ⟨hp, (trailers_sound_of_ok ext lim h0 fs false _ hp).1⟩

example : writeTrailers [(B "X-Checksum", [B "abc"]), (B "Content-Length", [B "3"]), (B "Etag", [])]
    = some [(B "x-checksum", B "abc")] := by decide

/-- observation behind the hypothesis "no connection-specific key": a trailer `Upgrade` is emitted
    (it is not in httpguts' badTrailer list) and rejected by parseTrailers -/
example : ∃ fs, writeTrailers [(B "Upgrade", [B "x"])] = some fs ∧
    errOf (parseTrailers (fun _ => true) 1000 fs) = some .forbiddenName := ⟨_, rfl, by decide⟩

/-- For every response header map of a valid net/http message (`ValidResponse`: status 100..999, token
    keys, values without forbidden bytes, one numeric Content-Length at most — connection-specific keys
    and TE values other than "trailers" are dropped by the writer), what responseWriter.writeHeader emits
    is a well-formed response section, updateResponseFromHeaders accepts it under every limit ≥ its
    size, and the status decodes to the same code. (Keys are ASCII; the model of writeHeader is tied by
    the `resphdr` op.) -/
theorem response_writer_parser_agree (ext : List Nat → Bool) (st : Int) (hs : List (List Nat × List (List Nat)))
    (clv : List Nat) (hv : ValidResponse st hs clv) (lim : Int)
    (hlim : Uquic.Spec.H3Fields.sectionSize (responseFields st hs) ≤ lim) :
    WellFormed false lim (responseFields st hs) ∧
    ∃ r, updateResponseFromHeaders ext lim (responseFields st hs) false = .ok r ∧ r.status = st :=
  response_agree ext st hs clv hv lim hlim

/-- the witness of the defect repaired by /repo commit 122b789: `Connection: close` (and every other
    connection-specific key, and `TE: gzip`) set by a handler is no longer emitted -/
theorem response_connection_filtered :
    responseFields 200 [(B "Connection", [B "close"]), (B "Keep-Alive", [B "x"]), (B "Te", [B "gzip", B "trailers"]),
        (B "Upgrade", [B "h2c"]), (B "Server", [B "s"])]
      = [(nStatus, B "200"), (nTe, vTrailers), (B "server", B "s")] ∧
    errOf (updateResponseFromHeaders (fun _ => true) 100000 (responseFields 200 [(B "Connection", [B "close"])]) false) = none := by
  decide

example : responseFields 200 [(B "Content-Type", [B "text/plain"]), (B "Trailer", [B "X-T"]), (B "X-T", [B "v"]),
      (B "Trailer:X-U", [B "w"])]
    = [(nStatus, B "200"), (B "content-type", B "text/plain"), (B "trailer", B "X-T")] := by decide

/-! ## 2. reject_maps_to_error -/

/-- RFC 9114 §8.1 / RFC 9204 §6 code points -/
def H3_MESSAGE_ERROR : Int := 0x010e
def H3_EXCESSIVE_LOAD : Int := 0x0107
def QPACK_DECOMPRESSION_FAILED : Int := 0x0200

/-- Every rejection class maps to the error the caller sends. Server (handleRequestStream): a QPACK
    decoding error resets the stream with QPACK_DECOMPRESSION_FAILED, an oversized section stops reading
    with H3_EXCESSIVE_LOAD and is answered by a 431 response, every other (malformed) class resets the
    stream with H3_MESSAGE_ERROR. Client (ReadResponse): QPACK_DECOMPRESSION_FAILED for a decoding
    error, H3_MESSAGE_ERROR for everything else, including an oversized section.
    (RFC 9204 §2.2 makes a decoding failure a CONNECTION error; the code resets the stream only — noted.) -/
theorem reject_maps_to_error (e : Err) :
    (e = .qpack → serverReaction e = ⟨QPACK_DECOMPRESSION_FAILED, false⟩ ∧ clientReaction e = ⟨QPACK_DECOMPRESSION_FAILED, false⟩) ∧
    (e = .tooLarge → serverReaction e = ⟨H3_EXCESSIVE_LOAD, true⟩ ∧ clientReaction e = ⟨H3_MESSAGE_ERROR, false⟩) ∧
    (e ≠ .qpack → e ≠ .tooLarge → serverReaction e = ⟨H3_MESSAGE_ERROR, false⟩ ∧ clientReaction e = ⟨H3_MESSAGE_ERROR, false⟩) ∧
    cliTooLargeSpecial = false := by
  cases e <;> decide

/-- every rejection of parseHeaders is one of: a decoding error (only when the decoder reported one), an
    oversized section, or a malformed-section class -/
theorem parse_error_classes (ext : List Nat → Bool) (isReq : Bool) (lim : Int) (fs : List Field) (q : Bool) (e : Err)
    (h : parseHeadersQ ext isReq lim fs q = .error e) : (e = .qpack ∧ q = true) ∨ e ∈ loopErrors ∨ e = .clInvalid := by
  unfold parseHeadersQ at h
  split at h
  · rename_i e' hr; cases h; exact Or.inr (Or.inl (runFields_err ext isReq fs _ _ hr))
  · split at h
    · rename_i hq; cases h; exact Or.inl ⟨rfl, hq⟩
    · unfold finish at h
      repeat' split at h
      all_goals first | (cases h; exact Or.inr (Or.inr rfl)) | cases h

/-- a malformed request section is answered with a stream error (H3_MESSAGE_ERROR, or the
    H3_EXCESSIVE_LOAD + 431 handling when it is over the limit), never accepted -/
theorem malformed_request_stream_error (ext urlOK : List Nat → Bool) (lim : Int) (hlim : 0 ≤ lim) (fs : List Field)
    (hbad : ¬ WellFormed true lim fs) :
    ∃ e, requestFromHeaders ext urlOK lim fs false = .error e ∧
      (serverReaction e = ⟨H3_MESSAGE_ERROR, false⟩ ∨ serverReaction e = ⟨H3_EXCESSIVE_LOAD, true⟩) := by
  obtain ⟨e, he⟩ := malformed_rejected ext true lim hlim fs hbad
  refine ⟨e, ?_, ?_⟩
  · simp only [requestFromHeaders]
    simp only [parseHeaders] at he
    rw [he]
  · have hq : e ≠ .qpack := by
      rcases parse_error_classes ext true lim fs false e he with ⟨_, hq⟩ | hl | hc
      · cases hq
      · intro hq; subst hq; revert hl; decide
      · intro hq; subst hq; cases hc
    have := reject_maps_to_error e
    by_cases ht : e = .tooLarge
    · exact Or.inr (this.2.1 ht).1
    · exact Or.inl (this.2.2.1 hq ht).1

/-! ## 3. request_rules / response_rules -/

/-- Every request section requestFromHeaders accepts is well formed (as in `accept_sound`) and
    satisfies the pseudo-header rules the code enforces (`Spec.H3FieldsMon.requestRules`):
    extended CONNECT (CONNECT with a non-empty :protocol) has non-empty :scheme, :path and :authority;
    CONNECT has a non-empty :authority and no (or an empty) :path; every other request has non-empty
    :method, :path, :authority and no :protocol value.
    Where the code is weaker than RFC 9114 (documented, not part of the fixed statement): a missing
    :scheme is accepted for non-CONNECT requests (§4.3.1 requires it), and a :scheme or an empty :path
    field is tolerated on CONNECT (§4.4 requires them to be omitted) — see the two examples below. -/
theorem request_rules (ext urlOK : List Nat → Bool) (lim : Int) (hlim : 0 ≤ lim) (fs : List Field) (q : Bool) (r : Req)
    (hp : requestFromHeaders ext urlOK lim fs q = .ok r) :
    requestRules fs = true ∧ WellFormed true lim fs ∧ q = false := by
  refine ⟨request_rules_of_ok ext urlOK lim fs q r hp, ?_⟩
  unfold requestFromHeaders at hp
  split at hp
  · cases hp
  rename_i hdr hparse
  obtain ⟨_, _, hq, _⟩ := parse_ok_inv ext true lim fs q hdr hparse
  subst hq
  exact ⟨accept_sound ext true lim hlim fs hdr hparse, rfl⟩

/-- the rules are satisfiable: an ordinary request, a CONNECT and an extended CONNECT are accepted -/
example : (errOf (requestFromHeaders (fun _ => true) (fun _ => true) 1000
      [(nMethod, B "GET"), (nScheme, B "https"), (nAuthority, B "a"), (nPath, B "/x")] false) = none) ∧
    (errOf (requestFromHeaders (fun _ => true) (fun _ => true) 1000 [(nMethod, mConnect), (nAuthority, B "a:443")] false) = none) ∧
    (errOf (requestFromHeaders (fun _ => true) (fun _ => true) 1000
      [(nMethod, mConnect), (nProtocol, B "websocket"), (nScheme, B "https"), (nAuthority, B "a"), (nPath, B "/x")] false) = none) := by
  decide

/-- leniency 1 (observation): a request without :scheme is accepted -/
example : errOf (requestFromHeaders (fun _ => true) (fun _ => true) 1000
    [(nMethod, B "GET"), (nAuthority, B "a"), (nPath, B "/x")] false) = none := by decide

/-- leniency 2 (observation): CONNECT with a :scheme field is accepted; :protocol without CONNECT is not -/
example : errOf (requestFromHeaders (fun _ => true) (fun _ => true) 1000
    [(nMethod, mConnect), (nAuthority, B "a:443"), (nScheme, B "https")] false) = none ∧
    errOf (requestFromHeaders (fun _ => true) (fun _ => true) 1000
    [(nMethod, B "GET"), (nScheme, B "https"), (nAuthority, B "a"), (nPath, B "/x"), (nProtocol, B "websocket")] false) = some .protocol := by
  decide

/-- Every response section updateResponseFromHeaders accepts is well formed and has a non-empty,
    optionally signed decimal :status (strconv.Atoi — a sign or a value outside 100..999 is NOT rejected;
    observation, the fixed statement does not constrain the status value). -/
theorem response_rules (ext : List Nat → Bool) (lim : Int) (hlim : 0 ≤ lim) (fs : List Field) (q : Bool) (r : Resp)
    (hp : updateResponseFromHeaders ext lim fs q = .ok r) :
    responseRules fs = true ∧ WellFormed false lim fs ∧ q = false := by
  refine ⟨response_rules_of_ok ext lim fs q r hp, ?_⟩
  unfold updateResponseFromHeaders at hp
  split at hp
  · cases hp
  rename_i hdr hparse
  obtain ⟨_, _, hq, _⟩ := parse_ok_inv ext false lim fs q hdr hparse
  subst hq
  exact ⟨accept_sound ext false lim hlim fs hdr hparse, rfl⟩

example : errOf (updateResponseFromHeaders (fun _ => true) 1000 [(nStatus, B "200"), (B "server", B "x")] false) = none ∧
    errOf (updateResponseFromHeaders (fun _ => true) 1000 [(nStatus, B "-5")] false) = none ∧
    errOf (updateResponseFromHeaders (fun _ => true) 1000 [(B "server", B "x")] false) = some .noStatus := by decide

/-! ## 5. trailers_sound -/

/-- Every trailer section parseTrailers accepts has no pseudo-header field, only lower-case token names,
    no forbidden value byte, no connection-specific field, no name that RFC 9110 §6.5.1 forbids in
    trailers, and is within the size limit; a decoding error is never ignored. -/
theorem trailers_sound (ext : List Nat → Bool) (lim : Int) (hlim : 0 ≤ lim) (fs : List Field) (q : Bool) (h : Headers)
    (hp : parseTrailersQ ext lim fs q = .ok h) : Uquic.Spec.H3Fields.TrailersWellFormed lim fs ∧ q = false :=
  trailers_sound_of_ok ext lim hlim fs q h hp

example : errOf (parseTrailers (fun _ => true) 1000 [(B "x-checksum", B "abc"), (B "etag", B "1")]) = none ∧
    errOf (parseTrailers (fun _ => true) 1000 [(nStatus, B "200")]) = some .trlPseudo ∧
    errOf (parseTrailers (fun _ => true) 1000 [(B "content-length", B "1")]) = some .trlName := by decide

end Uquic.Props.C19
