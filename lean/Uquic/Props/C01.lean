/-
C01 — stream data intact, in order, exactly once under any network faults.

Property theorems only (helpers: Uquic/Proofs/Send*.lean). Models: Uquic/Model/Stream/Send.lean
(SendStream data path, wire.StreamFrame splitting) and Uquic/Model/Stream/Dgram.lean (datagramQueue).
Every statement quantifies over ALL op histories (`Uquic.Spec.SendRun.Op`: Write / the parked Write's
wake-ups / Close / popStreamFrame with any budget, window and IsNewlyBlocked answer / OnAcked / OnLost /
CancelWrite / STOP_SENDING / closeForShutdown / SetReliableBoundary / control-frame traffic) and, for the
composition, over all delivery schedules and read sequences (`Uquic.Spec.StreamPipe.PipeOp`).

Side condition of the full-strength theorems (`sent_frames_faithful`, `read_is_prefix`, `read_complete`):
`NoBoundaryAfterReset` — SetReliableBoundary is never called on a stream that was already reset. Without it
the statement is false of the code (`boundary_after_reset_witness`: this API misuse sends bytes of a later
Write at the offset of bytes dropped by the reset). They cover classic RESET_STREAM and RESET_STREAM_AT
(CancelWrite with a reliable offset) alike; the FIN/EOF clause holds there since the two fixes
a7958da (no FIN on new data of a stream that is being reset) and f4bf60c (a frame cut to the
reliable size loses its FIN) — findings C01-fin-after-reset-at / C01-fin-on-truncated-retransmission.
The `_partial` theorems are the same statements under `Classic` (peer without RESET_STREAM_AT, or no
SetReliableBoundary at all), where a boundary call after a reset is harmless; `no_byte_forgotten` is
stated for classic semantics.

The liveness sentence of the property ("transfers complete while the path is not dead for longer than the
idle timeout") is NOT a theorem: it needs timers and goroutines. `no_byte_forgotten` is its safety core.
-/
import Uquic.Proofs.SendCompose
import Uquic.Proofs.SendDgram
import Uquic.Proofs.SendRefReasm
import Uquic.Proofs.SendResetAt
import Uquic.Proofs.SendFin
import Uquic.Proofs.SendFramer
import Uquic.Proofs.SendTimer

namespace Uquic.Props.C01
open Uquic.Model.Stream.Send Uquic.Spec.SendRun Uquic.Spec.StreamPipe Uquic.Proofs.Send

/-! ## 1. `MaybeSplitOffFrame` -/

/-- `split_preserves`: when `MaybeSplitOffFrame` splits, the two frames are non-empty, their data
    concatenates to the original at the right offsets, the FIN stays on the second, and the first fits
    the budget; otherwise the frame is unchanged. (`len ≤ 16383`: frames never exceed a packet, 1452;
    beyond 16383 the Go slice arithmetic can go out of range.) -/
theorem split_preserves (sid : Nat) (f : Frame) (maxSize : Nat) (hlen : f.data.length ≤ maxVarInt2) :
    match f.maybeSplitOff sid maxSize with
    | (some new, f', _) =>
        new.offset = f.offset ∧ f'.offset = f.offset + new.data.length ∧ new.data ++ f'.data = f.data ∧
        new.data ≠ [] ∧ f'.data ≠ [] ∧ new.fin = false ∧ f'.fin = f.fin ∧
        (maxSize ≤ maxVarInt2 → new.length sid ≤ maxSize)
    | (none, f', _) => f' = f := by
  rcases h : f.maybeSplitOff sid maxSize with ⟨new, f', b⟩
  cases new with
  | none => exact maybeSplitOff_none h
  | some new =>
    obtain ⟨_, hfit, hn, hnew, hf'⟩ := maybeSplitOff_some h
    have hlt := maxDataLen_lt_of_not_fit hlen hfit hn
    subst hnew hf'
    simp only [List.length_take, List.take_append_drop, ne_eq, List.take_eq_nil_iff, List.drop_eq_nil_iff, true_and]
    refine ⟨by omega, ?_, by omega, fun hm => split_fits hm hn⟩
    intro h
    rcases h with h | h
    · exact hn h
    · simp [h] at hlt

example : (Frame.maybeSplitOff 4 { offset := 100, data := List.replicate 50 7, fin := true } 30).1.isSome = true := by decide

/-! ## 2. every frame the sender ever hands out is faithful -/

/-- full-strength statement: after EVERY history, every STREAM frame ever returned by `popStreamFrame`
    (new, retransmitted, split any number of times) carries `written[off, off+len)`, and has FIN only if
    the stream was closed and the frame ends at the final size. -/
def sent_frames_faithful_full : Prop :=
  ∀ (sid : Nat) (sup : Bool) (ops : List Op), ∀ f ∈ (run (init sid sup) ops).emitted, Faithful (run (init sid sup) ops) f

/-- `sent_frames_faithful` for classic reset semantics. -/
theorem sent_frames_faithful_partial (sid : Nat) (sup : Bool) (ops : List Op) (hc : Classic sup ops) :
    ∀ f ∈ (run (init sid sup) ops).emitted, Faithful (run (init sid sup) ops) f :=
  (inv_run sid sup ops hc).emitted_faith

/-- `emitted` is exactly the list of frames returned by `pop`: each call appends what it returns. -/
theorem pop_frame_is_recorded (sid : Nat) (sup : Bool) (ops : List Op) (hc : Classic sup ops)
    (mb w : Nat) (nb : Bool) (hmb : mb ≤ maxPacketBufferSize) :
    (pop (run (init sid sup) ops) mb w nb).1.emitted =
      (run (init sid sup) ops).emitted ++ (pop (run (init sid sup) ops) mb w nb).2.frame.toList :=
  pop_records (inv_run sid sup ops hc) mb w nb hmb

/-- offsets of new data are contiguous: a returned frame is a retransmission / the FIN-only frame
    (`writeOffset` unchanged) or starts at `writeOffset` and advances it by its length. -/
theorem new_data_contiguous (sid : Nat) (sup : Bool) (ops : List Op) (hc : Classic sup ops)
    (mb w : Nat) (nb : Bool) (hmb : mb ≤ maxPacketBufferSize) (f : Frame)
    (hf : (pop (run (init sid sup) ops) mb w nb).2.frame = some f) :
    (pop (run (init sid sup) ops) mb w nb).1.writeOffset = (run (init sid sup) ops).writeOffset ∨
    (f.offset = (run (init sid sup) ops).writeOffset ∧
      (pop (run (init sid sup) ops) mb w nb).1.writeOffset = (run (init sid sup) ops).writeOffset + f.data.length) :=
  pop_contiguous (inv_run sid sup ops hc) mb w nb hmb hf

/-- `sent_frames_faithful` at full strength, for all reset semantics incl. RESET_STREAM_AT: after every
    history in which SetReliableBoundary is never called on an already reset stream, every frame ever
    returned by `popStreamFrame` carries `written[off, off+len)` and has FIN only if the stream was closed
    and the frame ends at the final size. -/
theorem sent_frames_faithful (sid : Nat) (sup : Bool) (ops : List Op)
    (hc : NoBoundaryAfterReset (init sid sup) ops) :
    ∀ f ∈ (run (init sid sup) ops).emitted, Faithful (run (init sid sup) ops) f :=
  let h := rf_run_from (rinv_init sid sup) (finv_init sid sup) ops hc
  faithful_of h.1 h.2

instance (s : State) (f : Frame) : Decidable (Faithful s f) := by unfold Faithful; exact inferInstance
instance (s : State) : Decidable (Live s) := by unfold Live; exact inferInstance

/-- regressions for the two FIN findings (both false before the fixes): Close then CancelWrite with a
    reliable boundary below the bytes written — FIN neither on the last reliable frame of new data nor on
    a FIN frame that is cut to the reliable size when it is lost / was queued -/
def finRegressionOps1 : List Op :=
  [.write [0, 1, 2, 3, 4, 5, 6, 7, 8, 9], .boundary, .write [10, 11, 12, 13, 14], .close, .cancel 7,
   .pop 1200 1048576 false]
def finRegressionOps2 : List Op :=
  [.write [0, 1, 2, 3, 4, 5, 6, 7, 8, 9], .boundary, .write [10, 11, 12, 13, 14], .close,
   .pop 1200 1048576 false, .cancel 7, .lost 0, .pop 1200 1048576 false]
def finRegressionOps3 : List Op :=
  [.write [0, 1, 2, 3, 4, 5, 6, 7, 8, 9], .boundary, .write [10, 11, 12, 13, 14], .close,
   .pop 1200 1048576 false, .lost 0, .cancel 7, .pop 1200 1048576 false]
example : ∀ f ∈ (run (init 4 true) finRegressionOps1).emitted, Faithful (run (init 4 true) finRegressionOps1) f := by decide
example : ∀ f ∈ (run (init 4 true) finRegressionOps2).emitted, Faithful (run (init 4 true) finRegressionOps2) f := by decide
example : ∀ f ∈ (run (init 4 true) finRegressionOps3).emitted, Faithful (run (init 4 true) finRegressionOps3) f := by decide
example : (run (init 4 true) finRegressionOps2).emitted.length = 2 := by decide

-- non-vacuity: a classic history with a blocked Write, a split retransmission and a FIN
example : ∃ ops, Classic false ops ∧ (run (init 4 false) ops).emitted.length = 4 ∧ Live (run (init 4 false) ops) :=
  ⟨[.write (List.replicate 40 1), .pop 30 1000 false, .lost 0, .pop 12 1000 false, .close, .pop 100 1000 true, .pop 100 1000 false],
   .inl rfl, by decide, by decide⟩

/-- `sent_data_faithful`: the data clause for ALL reset semantics, RESET_STREAM_AT included (CancelWrite
    with a reliable offset keeps sending and retransmitting the reliable part, truncating frames at the
    reliable size): after every history in which SetReliableBoundary is never called on an already reset
    stream, every frame ever returned by `popStreamFrame` carries exactly `written[off, off+len)`. -/
theorem sent_data_faithful (sid : Nat) (sup : Bool) (ops : List Op)
    (hc : NoBoundaryAfterReset (init sid sup) ops) :
    ∀ f ∈ (run (init sid sup) ops).emitted, f.data <+: (run (init sid sup) ops).written.drop f.offset :=
  (rinv_run_from (rinv_init sid sup) ops hc).em

/-- The side condition is needed: SetReliableBoundary *after* CancelWrite (API misuse) makes the code send
    bytes of a later Write at the offset of bytes that were dropped by the reset. -/
def boundaryMisuseOps : List Op :=
  [.write [1, 2, 3], .write (List.replicate 1450 9), .cancel 0, .wake, .boundary, .pop 20 1000 false]

set_option maxRecDepth 200000 in
theorem boundary_after_reset_witness :
    ∃ f ∈ (run (init 0 true) boundaryMisuseOps).emitted,
      ¬ (f.data <+: (run (init 0 true) boundaryMisuseOps).written.drop f.offset) := by
  decide

/-- hence the unconditional statement is false: the side condition of `sent_frames_faithful` is needed -/
theorem sent_frames_faithful_full_witness : ¬ sent_frames_faithful_full := by
  intro h
  obtain ⟨f, hf, hnot⟩ := boundary_after_reset_witness
  exact hnot (h 0 true boundaryMisuseOps f hf).1

-- non-vacuity: a RESET_STREAM_AT history (boundary, more data, CancelWrite, the reliable part still goes out, is lost, is retransmitted)
example : NoBoundaryAfterReset (init 4 true) [.write [1, 2, 3, 4, 5, 6], .boundary, .write [7, 8, 9], .cancel 5, .pop 11 1000 false, .lost 0, .pop 100 1000 false] ∧
    (run (init 4 true) [.write [1, 2, 3, 4, 5, 6], .boundary, .write [7, 8, 9], .cancel 5, .pop 11 1000 false, .lost 0, .pop 100 1000 false]).emitted.length = 2 := by
  refine ⟨?_, by decide⟩
  intro pre post h
  have : pre = [.write [1, 2, 3, 4, 5, 6]] := by
    match pre, h with
    | [], h => simp at h
    | [_], h => simp at h; simp [h.1]
    | _ :: _ :: [], h => simp at h
    | _ :: _ :: _ :: [], h => simp at h
    | _ :: _ :: _ :: _ :: [], h => simp at h
    | _ :: _ :: _ :: _ :: _ :: [], h => simp at h
    | _ :: _ :: _ :: _ :: _ :: _ :: [], h => simp at h
    | _ :: _ :: _ :: _ :: _ :: _ :: _ :: _, h => simp at h
  subst this; decide

/-! ## 3. nothing written is ever forgotten -/

/-- `no_byte_forgotten`: while the stream is neither reset nor shut down, after every history every
    byte below `writeOffset` is acknowledged, or inside a frame the ackhandler still has to report on
    — and `numOutstandingFrames` counts exactly those frames —, or inside a frame queued for
    retransmission; the same holds for the FIN once it was sent; every byte accepted by `Write` is below
    `writeOffset`, in `nextFrame` or in `dataForWriting`; and no step has panicked. Together with C06
    (each outstanding frame is reported acked xor lost exactly once) a lost byte is always re-queued. -/
theorem no_byte_forgotten (sid : Nat) (sup : Bool) (ops : List Op) (hc : Classic sup ops)
    (hl : Live (run (init sid sup) ops)) :
    let s := run (init sid sup) ops
    (∀ i, i < s.writeOffset → Accounted s i) ∧
    (s.finSent = true → FinAccounted s) ∧
    s.numOutstanding = s.outstanding.length ∧
    s.written.length = s.writeOffset + nfLen s + s.dataForWriting.length ∧
    s.dead = false := by
  have L := (inv_run sid sup ops hc).live hl
  refine ⟨L.acct, L.fin_acct, L.count, ?_, L.not_dead⟩
  have h1 := congrArg List.length L.tail_eq
  simp only [tail, nfData, List.length_append, List.length_drop] at h1
  have h2 := L.wo_le
  have : (nfDataOf (run (init sid sup) ops).nextFrame).length = nfLen (run (init sid sup) ops) := by
    unfold nfDataOf nfLen; cases (run (init sid sup) ops).nextFrame <;> rfl
  omega

example : ∃ ops, Classic false ops ∧ Live (run (init 0 false) ops) ∧ (run (init 0 false) ops).retransQ ≠ [] ∧
    (run (init 0 false) ops).outstanding ≠ [] :=
  ⟨[.write (List.replicate 40 1), .pop 30 1000 false, .pop 30 1000 false, .lost 0], .inl rfl, by decide, by decide, by decide⟩

/-! ## 4. composition with the (abstract) receive side -/

/-- `read_is_prefix`: for every sender history, every delivery schedule (any emitted frame any number of
    times, in any order, or never) and every sequence of reads, the concatenation of the bytes read is a
    prefix of the bytes written, and EOF is reported only after the stream was closed and every byte
    written has been read. -/
theorem read_is_prefix_partial (A : Reassembler) (C : ReassemblyContract A) (sid : Nat) (sup : Bool)
    (ops : List PipeOp) (hc : Classic sup (sndOps ops)) :
    let p := pipeRun (pipeInit A sid sup) ops
    A.out p.r <+: p.s.written ∧
    (p.eofSeen = true → p.s.finishedWriting = true ∧ A.out p.r = p.s.written) := by
  have h := pipeInv_run C (pipeInv_init A C sid sup) ops hc
  exact ⟨out_prefix C h.reach h.consistent, h.eof⟩

/-- `read_is_prefix` at full strength, for all reset semantics incl. RESET_STREAM_AT: whatever the sender
    history (without SetReliableBoundary on an already reset stream), the delivery schedule and the reads,
    the bytes read are a prefix of the bytes written, and EOF is reported only after the stream was closed
    and every byte written has been read. -/
theorem read_is_prefix (A : Reassembler) (C : ReassemblyContract A) (sid : Nat) (sup : Bool)
    (ops : List PipeOp) (hc : NoBoundaryAfterReset (init sid sup) (sndOps ops)) :
    let p := pipeRun (pipeInit A sid sup) ops
    A.out p.r <+: p.s.written ∧
    (p.eofSeen = true → p.s.finishedWriting = true ∧ A.out p.r = p.s.written) := by
  have h := pipeInvF_run C (pipeInvF_init A C sid sup) ops hc
  exact ⟨out_prefix C h.reach h.consistent, h.eof⟩

/-- `read_complete` at full strength (same side condition): if the delivered frames cover every byte
    written and a FIN frame was delivered, a `read n` returns the next `min n remaining` bytes, one read with
    a large enough buffer leaves nothing unread, and once nothing is unread the next read reports EOF. -/
theorem read_complete (A : Reassembler) (C : ReassemblyContract A) (sid : Nat) (sup : Bool)
    (ops : List PipeOp) (hc : NoBoundaryAfterReset (init sid sup) (sndOps ops)) :
    let p := pipeRun (pipeInit A sid sup) ops
    CoveredUpTo (A.segs p.r) p.s.written.length → (∃ x ∈ A.segs p.r, x.fin = true) →
    ∀ n, 0 < n →
      (A.read p.r n).2.1 = (p.s.written.drop (A.out p.r).length).take (min n (p.s.written.length - (A.out p.r).length)) ∧
      (p.s.written.length - (A.out p.r).length ≤ n → A.out (A.read p.r n).1 = p.s.written) ∧
      (A.out p.r = p.s.written → (A.read p.r n).2.2 = true) := by
  intro p hcov hfin n hn
  have h : PipeInvF p := pipeInvF_run C (pipeInvF_init A C sid sup) ops hc
  have hpre : A.out p.r <+: p.s.written := out_prefix C h.reach h.consistent
  have hle := hpre.length_le
  have h' : PipeInvF (pipeStep p (.read n)) := pipeInvF_step C h (.read n) (fun hh => by cases hh)
  have hpre' : A.out (A.read p.r n).1 <+: p.s.written := out_prefix C h'.reach h'.consistent
  have hout' := C.out_read p.r n h.reach
  have hprog := C.progress p.r n p.s.written p.s.written.length h.reach h.consistent hcov hle
  have hrl := C.read_len p.r n h.reach
  have hle' := hpre'.length_le
  rw [hout', List.length_append] at hle'
  have hlen : (A.read p.r n).2.1.length = min n (p.s.written.length - (A.out p.r).length) := by omega
  have hbytes : (A.read p.r n).2.1 = (p.s.written.drop (A.out p.r).length).take (A.read p.r n).2.1.length := by
    obtain ⟨t, ht⟩ := hpre'
    rw [hout'] at ht
    have : p.s.written.drop (A.out p.r).length = (A.read p.r n).2.1 ++ t := by
      rw [← ht, List.append_assoc, List.drop_left]
    rw [this, List.take_left]
  refine ⟨by rw [← hlen]; exact hbytes, fun hbig => ?_, fun hall => ?_⟩
  · exact hpre'.eq_of_length (by rw [hout', List.length_append]; omega)
  · obtain ⟨x, hx, hxf⟩ := hfin
    obtain ⟨f, hf, rfl⟩ := h.segs_emitted x hx
    have := h.finv.fem f hf hxf
    exact C.eof_complete p.r n p.s.written h.reach h.consistent hn (by rw [hall]) ⟨segOf f, hx, hxf, by rw [hall]; exact this.2⟩

/-- `read_complete` under `Classic`: if (after any history) the delivered frames cover every byte written and a FIN
    frame was delivered, then reading obtains every byte: a `read n` returns the next
    `min n remaining` bytes of the stream, one read with a large enough buffer leaves nothing unread,
    and once nothing is unread the next read reports EOF. -/
theorem read_complete_partial (A : Reassembler) (C : ReassemblyContract A) (sid : Nat) (sup : Bool)
    (ops : List PipeOp) (hc : Classic sup (sndOps ops)) :
    let p := pipeRun (pipeInit A sid sup) ops
    CoveredUpTo (A.segs p.r) p.s.written.length → (∃ x ∈ A.segs p.r, x.fin = true) →
    ∀ n, 0 < n →
      (A.read p.r n).2.1 = (p.s.written.drop (A.out p.r).length).take (min n (p.s.written.length - (A.out p.r).length)) ∧
      (p.s.written.length - (A.out p.r).length ≤ n → A.out (A.read p.r n).1 = p.s.written) ∧
      (A.out p.r = p.s.written → (A.read p.r n).2.2 = true) := by
  intro p hcov hfin n hn
  have h : PipeInv sup p := pipeInv_run C (pipeInv_init A C sid sup) ops hc
  have hpre : A.out p.r <+: p.s.written := out_prefix C h.reach h.consistent
  have hle := hpre.length_le
  -- the state after the read
  have h' : PipeInv sup (pipeStep p (.read n)) := pipeInv_step C h (.read n) (fun hh => by cases hh)
  have hpre' : A.out (A.read p.r n).1 <+: p.s.written := out_prefix C h'.reach h'.consistent
  have hout' := C.out_read p.r n h.reach
  have hprog := C.progress p.r n p.s.written p.s.written.length h.reach h.consistent hcov hle
  have hrl := C.read_len p.r n h.reach
  have hle' := hpre'.length_le
  rw [hout', List.length_append] at hle'
  have hlen : (A.read p.r n).2.1.length = min n (p.s.written.length - (A.out p.r).length) := by omega
  -- the bytes are the next bytes of the stream
  have hbytes : (A.read p.r n).2.1 = (p.s.written.drop (A.out p.r).length).take (A.read p.r n).2.1.length := by
    obtain ⟨t, ht⟩ := hpre'
    rw [hout'] at ht
    have : p.s.written.drop (A.out p.r).length = (A.read p.r n).2.1 ++ t := by
      rw [← ht, List.append_assoc, List.drop_left]
    rw [this, List.take_left]
  refine ⟨by rw [← hlen]; exact hbytes, fun hbig => ?_, fun hall => ?_⟩
  · exact hpre'.eq_of_length (by rw [hout', List.length_append]; omega)
  · obtain ⟨x, hx, hxf⟩ := hfin
    obtain ⟨f, hf, rfl⟩ := h.segs_emitted x hx
    have := (h.inv.emitted_faith f hf).2 hxf
    exact C.eof_complete p.r n p.s.written h.reach h.consistent hn (by rw [hall]) ⟨segOf f, hx, hxf, by rw [hall]; exact this.2⟩

/-- The contract is satisfiable (non-vacuity of the two theorems above): a naive reference reassembler
    that keeps every segment and reads byte by byte meets it. The real receive side (frame_sorter.go,
    receive_stream.go) is property C03, whose theorem is to discharge `ReassemblyContract`. -/
theorem reassembly_contract_satisfiable : ∃ A : Reassembler, ReassemblyContract A :=
  ⟨Uquic.Proofs.RefReasm.ref, Uquic.Proofs.RefReasm.ref_contract⟩

-- and with it a concrete end-to-end run: write, pop in two pieces, deliver them out of order (one twice), read
example :
    let p := pipeRun (pipeInit Uquic.Proofs.RefReasm.ref 0 false)
      [.snd (.write [1, 2, 3, 4, 5, 6, 7, 8, 9, 10, 11, 12]), .snd .close, .snd (.pop 10 1000 false), .snd (.pop 100 1000 false),
       .deliver 1, .read 4, .deliver 0, .deliver 1, .read 100]
    Uquic.Proofs.RefReasm.ref.out p.r = [1, 2, 3, 4, 5, 6, 7, 8, 9, 10, 11, 12] ∧ p.eofSeen = true := by decide

/-! ## 4b. the glue between the stream core and the connection (round 3) -/

/-- `stream_answers_more_while_pending`: on a live stream `popStreamFrame` answers "no more data" only when
    nothing is left to send — no buffered data, no queued retransmission, no unsent FIN — for every budget,
    flow-control window and `IsNewlyBlocked` answer (in particular with a window of 0 it answers "more"). -/
theorem stream_answers_more_while_pending (sid : Nat) (sup : Bool) (ops : List Op) (mb win : Nat) (nb : Bool)
    (hl : Live (run (init sid sup) ops))
    (hm : (pop (run (init sid sup) ops) mb win nb).2.hasMore = false) :
    ¬ Pending (pop (run (init sid sup) ops) mb win nb).1 :=
  pop_hasMore_sound _ mb win nb hl hm

open Uquic.Model.Stream.Framer Uquic.Proofs.Framer in
/-- `framer_keeps_stream_with_more_data`: in every history of the framer's bookkeeping (AddActiveStream,
    RemoveActiveStream, getNextStreamFrame with arbitrary answers of the streams), every registered stream is
    in the round-robin queue, and a registered stream that is not removed and answers "more data" whenever it is
    polled stays registered and queued — whatever happens to the other streams, whether or not its poll
    produced a frame. With the theorem above: a stream with something left to send is never dropped. -/
theorem framer_keeps_stream_with_more_data (ops1 ops2 : List FOp) (k : Nat)
    (hk : k ∈ (frun {} ops1).active)
    (hops : ∀ op ∈ ops2, op ≠ .remove k ∧ ∀ ans, op = .next ans → ans k = true) :
    (∀ id, id ∈ (frun {} (ops1 ++ ops2)).active → id ∈ (frun {} (ops1 ++ ops2)).queue) ∧
    k ∈ (frun {} (ops1 ++ ops2)).active ∧ k ∈ (frun {} (ops1 ++ ops2)).queue := by
  have q0 : QInv ({} : FState) := fun id h => by simp at h
  have q1 := qinv_run q0 ops1
  have hrun : frun {} (ops1 ++ ops2) = frun (frun {} ops1) ops2 := by simp [frun, List.foldl_append]
  rw [hrun]
  exact ⟨qinv_run q1 ops2, registered_stays q1 hk ops2 hops⟩

example : (Uquic.Proofs.Framer.frun {} [.add 1, .add 2, .next (fun _ => true), .next (fun id => id == 1)]).active = [1] := by decide

open Uquic.Model.Conn.Timer Uquic.Proofs.Timer in
/-- `timer_covers_every_due_deadline`: the deadline `maybeResetTimer` arms is never later than the
    handshake/keep-alive/idle deadline; unless the connection is hard-blocked it is never later than the ACK
    alarm nor than the loss-detection/PTO deadline (also when congestion limited: probes and loss detection
    bypass the congestion window); and when not blocked at all, never later than the pacing deadline. -/
theorem timer_covers_every_due_deadline (i : Input) :
    deadline i ≤ baseDeadline i ∧
    (i.blocked ≠ .hardBlocked → ∀ t, i.loss = some t → deadline i ≤ t) ∧
    (i.blocked ≠ .hardBlocked → ∀ t, i.ackAlarm = some t → deadline i ≤ t) ∧
    (i.blocked = .none → ∀ t, i.pacing = some t → deadline i ≤ t) :=
  ⟨deadline_le_base i, fun hb t h => deadline_le_loss i hb t h, fun hb t h => deadline_le_ack i hb t h,
   fun hb t h => deadline_le_pacing i hb t h⟩

/-! ## 5. application datagrams -/

open Uquic.Model.Stream.Dgram in
/-- `datagram_at_most_once_unmodified`: after every history of the datagram queue (frames handed in,
    Receive calls that park and wake up, Close, and the send-side traffic), the payloads returned by
    `Receive`, followed by those still queued, are an in-order SUB-SEQUENCE of the payloads handed to
    `HandleDatagramFrame`: each is returned at most once, byte for byte (a frame arriving while
    `maxDatagramRcvQueueLen` are queued is dropped), and the queue never exceeds its cap. -/
theorem datagram_at_most_once_unmodified (ops : List Uquic.Spec.DgramRun.Op) :
    ((Uquic.Spec.DgramRun.run ops).returned ++ (Uquic.Spec.DgramRun.run ops).rcvQueue).Sublist (Uquic.Spec.DgramRun.run ops).handed ∧
    (Uquic.Spec.DgramRun.run ops).rcvQueue.length ≤ rcvCap :=
  Uquic.Proofs.Dgram.run_inv ops

example : (Uquic.Spec.DgramRun.run [.handle [1], .handle [2], .recv, .handle [3]]).returned = [[1]] := by decide

end Uquic.Props.C01
