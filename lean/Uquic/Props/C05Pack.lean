/-
C05, round 5 — the packer glue between the 1-RTT sealer and the wire (model: Uquic/Model/Crypto/PackGlue.lean,
tied to packet_packer.go / u_packet_packer.go by the `pack` op of driver keyphase, which runs all eight
methods of the `packer` interface on a real packetPacker and a real uPacketPacker with a real updatableAEAD
as the sealer and compares every state field of the sealer and the packet's key-phase bit after every call):

* EVERY path that emits a short header packet is exactly `KeyPhase()` followed by `Seal` — the step the
  history theorems of `Uquic.Props.C05` (`key_update_local_needs_peer`, `generation_lockstep`, …) are stated
  about — and writes the key-phase bit of the very generation that sealed the packet;
* so the peer opens it whenever it is in that generation, and follows when it is one behind;
* the bit is NECESSARY: a packet of the receiver's current generation that carries the other bit is never
  opened, in any receiver state (the defect class "a path forgets to ask for the key phase": the packet
  that closes the connection is lost in every odd key phase).

Property theorems only.
-/
import Uquic.Props.C05
import Uquic.Model.Crypto.PackGlue

namespace Uquic.Props.C05Pack
open Uquic.Model.KeyPhase Uquic.Model.PackGlue Uquic.Spec.KeyPhaseRun Uquic.Spec.KeyPhaseSys

/-- `pack_is_seal_or_kp`: on EVERY path, in every sealer state and for whatever the frame sources hold, a
    call of the packer acts on the sealer as one of the three history steps — `seal` (= `KeyPhase()` +
    `Seal`, when a packet is emitted), `kp` (`KeyPhase()` alone: PackCoalescedPacket / PackPTOProbePacket
    found nothing to send) or nothing at all. -/
theorem pack_is_seal_or_kp (p : Path) (v : Avail) (a : KA) (e : Env) (pn last : Int) :
    (p.hasPayload v = true → (pack p v a e pn).1 = (RS.step e ⟨a, last⟩ (.seal pn)).a ∧ (pack p v a e pn).2.isSome = true) ∧
    (p.hasPayload v = false → p.asksFirst = true →
        (pack p v a e pn).1 = (RS.step e ⟨a, last⟩ .kp).a ∧ (pack p v a e pn).2 = none) ∧
    (p.hasPayload v = false → p.asksFirst = false → pack p v a e pn = (a, none)) := by
  refine ⟨fun h => ?_, fun h h2 => ?_, fun h h2 => ?_⟩
  · simp [pack, h, RS.step]
  · simp [pack, h, RS.step, h2]
  · simp [pack, h, h2]

/-- `pack_emitting_is_sealPkt`: in the two-party system of `generation_lockstep` an emitting pack call is
    the action `sealPkt`: same sealer state, and the packet recorded as sent carries the generation the
    packer's packet was sealed with. Hence `generation_lockstep` and `opened_were_sealed` hold for ALL
    histories in which packets leave through any mixture of the eight paths. -/
theorem pack_emitting_is_sealPkt (p : Path) (v : Avail) (x : Side) (e : Env) (pn : Int) (h : p.hasPayload v = true) :
    (Act.apply e x (.sealPkt pn)).ka = (pack p v x.ka e pn).1 ∧
    ∃ q, (pack p v x.ka e pn).2 = some q ∧ (Act.apply e x (.sealPkt pn)).sent = (q.gen, q.pn) :: x.sent := by
  have hs := (Uquic.Props.C05.key_phase_stable (x.ka.keyPhaseBit e).1 pn).2.2.2
  simp [pack, h, Act.apply, hs]

/-- `pack_bit_is_sealing_generation`: whatever path produced the packet, the key-phase bit in its header is
    the bit of the generation whose key sealed it, that generation is the sealer's generation after the call,
    and the call moved the sealer by at most one generation — by one only if a key update was allowed
    (`key_update_local`). -/
theorem pack_bit_is_sealing_generation (p : Path) (v : Avail) (a : KA) (e : Env) (pn : Int) (q : Packed)
    (h : (pack p v a e pn).2 = some q) :
    q.bit = bit q.gen ∧ q.gen = (pack p v a e pn).1.keyPhase ∧ q.pn = pn ∧
    (q.gen = a.keyPhase ∨ (q.gen = a.keyPhase + 1 ∧ a.updateAllowed = true)) := by
  unfold pack at h ⊢
  by_cases hp : p.hasPayload v = true
  · simp only [hp, if_true, Option.some.injEq] at h ⊢
    subst h
    have hs := (Uquic.Props.C05.key_phase_stable (a.keyPhaseBit e).1 pn)
    simp only
    refine ⟨?_, by rw [hs.1, hs.2.2.2], trivial, ?_⟩
    · rw [hs.2.2.2]; simp [KA.keyPhaseBit]
    · rw [hs.2.2.2]
      by_cases hk : (a.keyPhaseBit e).1.keyPhase = a.keyPhase
      · exact Or.inl hk
      · exact Or.inr ((Uquic.Props.C05.key_update_discipline a e).1 hk)
  · simp only [hp] at h
    by_cases hq : p.asksFirst = true <;> simp [hq] at h

/-- `packed_opens_at_peer`: a packet any path produced, delivered untampered (in any order, any number of
    times, at any time) to a peer whose receive keys are in the generation that sealed it, is opened; and a
    peer one generation behind accepts it as a key update and follows — provided it is not older than what
    that peer already received with its current key and the peer has itself sent in its current phase
    (RFC 9001 §6.2; otherwise KEY_UPDATE_ERROR, `key_update_too_quick`). -/
theorem packed_opens_at_peer (p : Path) (v : Avail) (a : KA) (e : Env) (pn : Int) (q : Packed)
    (h : (pack p v a e pn).2 = some q) (b : KA) (t : Int) :
    (b.keyPhase = q.gen → (b.open e t q.pn q.bit ⟨q.gen, true⟩).2 = .ok) ∧
    (b.keyPhase + 1 = q.gen → (b.dropExpired t).isOld q.pn = false →
       ¬ (b.keyPhase > 0 ∧ b.firstSentWithCurrentKey = Uquic.Model.KeyPhase.invalidPN) →
       (b.open e t q.pn q.bit ⟨q.gen, true⟩).2 = .ok ∧ (b.open e t q.pn q.bit ⟨q.gen, true⟩).1.keyPhase = q.gen) := by
  obtain ⟨hb, _⟩ := pack_bit_is_sealing_generation p v a e pn q h
  have hc := Uquic.Props.C05.key_open_complete b e t q.pn q.bit ⟨q.gen, true⟩ rfl
  refine ⟨fun hg => hc.1 hg.symm (by rw [hb, hg]), fun hg hold hq => ?_⟩
  have hne : q.bit ≠ bit b.keyPhase := by
    rw [hb, ← hg]; unfold bit; omega
  have := hc.2.1 hg.symm hne hold hq
  exact ⟨this.1, by rw [this.2, hg]⟩

/-- `wrong_bit_never_opens`: the bit is necessary. An authentic packet sealed with the receiver's CURRENT
    generation but carrying the other key-phase bit is not opened in ANY receiver state, at any time: the
    receiver tries the previous or the next key instead. -/
theorem wrong_bit_never_opens (b : KA) (e : Env) (t pn kp : Int) (hk : kp ≠ bit b.keyPhase) :
    (b.open e t pn kp ⟨b.keyPhase, true⟩).2 ≠ .ok := by
  intro hc
  rcases (Uquic.Props.C05.key_open_sound b e t pn kp ⟨b.keyPhase, true⟩ hc).2 with ⟨_, h⟩ | ⟨h, _⟩ | ⟨h, _⟩
  · exact hk h
  · simp at h; omega
  · simp at h; omega

/-- `forgetful_path_loses_packet_in_odd_phase`: a path that seals without asking for the key phase
    (`packForgetful`: header bit 0) produces, in EVERY odd key phase of the sender, a packet that a peer in
    the same generation — i.e. a peer in perfect lockstep — never opens; in even phases the bit happens to be
    right. This is why every path must be the `seal` step of `pack_is_seal_or_kp`. -/
theorem forgetful_path_loses_packet_in_odd_phase (a b : KA) (e : Env) (t pn : Int)
    (hsync : b.keyPhase = a.keyPhase) :
    (a.keyPhase % 2 = 1 →
      (b.open e t (packForgetful a pn).2.pn (packForgetful a pn).2.bit ⟨(packForgetful a pn).2.gen, true⟩).2 ≠ .ok) ∧
    (a.keyPhase % 2 = 0 →
      (b.open e t (packForgetful a pn).2.pn (packForgetful a pn).2.bit ⟨(packForgetful a pn).2.gen, true⟩).2 = .ok) := by
  have hg : (packForgetful a pn).2.gen = b.keyPhase := by
    rw [hsync]; exact (Uquic.Props.C05.key_phase_stable a pn).2.2.2
  have hbit : (packForgetful a pn).2.bit = 0 := rfl
  rw [hg, hbit]
  constructor
  · intro hodd
    exact wrong_bit_never_opens b e t _ 0 (by unfold bit; omega)
  · intro heven
    exact (Uquic.Props.C05.key_open_complete b e t _ 0 ⟨b.keyPhase, true⟩ rfl).1 rfl (by unfold bit; omega)

-- non-trivial instances: after one key update (confirmed, one packet sent, first interval 1) a connection
-- close leaves in generation 1 with bit 1 and is opened by a peer in generation 1; the forgetful variant
-- carries bit 0 and is answered with a decryption failure
def exEnv : Env := { pto3 := 90, keyUpdateInterval := 100, firstKeyUpdateInterval := 1, invalidPacketLimit := 10 }
def exA : KA := (pack .append ⟨true, false, false⟩ (({} : KA).setHandshakeConfirmed) exEnv 0).1
def exPeer : KA := { keyPhase := 1, prevPresent := true }
example : (pack .connClose ⟨false, false, false⟩ exA exEnv 1).2 = some ⟨1, 1, 1⟩ := by decide
example : (exPeer.open exEnv 5 1 1 ⟨1, true⟩).2 = .ok := by decide
example : (packForgetful ((exA.keyPhaseBit exEnv).1) 1).2 = ⟨0, 1, 1⟩ := by decide
example : (exPeer.open exEnv 5 1 0 ⟨1, true⟩).2 = .decryptionFailed := by decide
example : (pack .coalesced ⟨true, false, true⟩ exA exEnv 1) = ((exA.keyPhaseBit exEnv).1, none) := by decide

end Uquic.Props.C05Pack
