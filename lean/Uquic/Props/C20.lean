import Uquic.Model.Cong.Sender
namespace Uquic.Props.C20
theorem placeholder : (1 : Nat) = 1 := rfl
end Uquic.Props.C20
