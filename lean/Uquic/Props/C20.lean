/-
Property C20 — congestion window and pacing stay within their bounds for every event history.

All theorems are about the model `Uquic.Model.Cong` (Reno sender + hybrid slow start + pacer +
the SendMode decision), over arbitrary operation histories (`List Op`: packet sent / acked / lost /
MaybeExitSlowStart / SetMaxDatagramSize / RTT-estimator output / idle, with arbitrary times, sizes,
packet numbers and RTT values) unless a hypothesis is stated.  The model is tied to /repo by the
regenerated constants (`Uquic.Gen.*`), the call-site facts below and the `cong` correspondence driver.
-/
import Uquic.Model.Cong.Sender
import Uquic.Proofs.CongArith
import Uquic.Proofs.CongInv
import Uquic.Proofs.CongStep
import Uquic.Proofs.CongPacer
import Uquic.Proofs.CongTrace
import Uquic.Proofs.CongOverflow
import Uquic.Proofs.CongGlue
import Uquic.Model.Cong.Glue

namespace Uquic.Props.C20

open Uquic.Model.Cong Uquic.Proofs.Cong

/-! ### tie: call-site facts regenerated from /repo -/

/-- every production call of `NewCubicSender` passes `reno = true` (the model covers Reno only) -/
theorem tie_reno_everywhere : Uquic.Gen.Congestion.renoEverywhere = true := by decide

/-- `OnRetransmissionTimeout` / `OnConnectionMigration` have no production call site (left out of `Op`) -/
theorem tie_unused_methods :
    Uquic.Gen.Congestion.rtoCallSites = 0 ∧ Uquic.Gen.Congestion.migrationCallSites = 0 := by decide

/-- `renoBeta` is the binary64 value `renoBetaMant · 2^-53` with a 53-bit significand -/
theorem tie_renoBeta_normal :
    Uquic.Gen.Congestion.renoBetaExp = -53 ∧ 2 ^ 52 ≤ renoBetaMant ∧ renoBetaMant < 2 ^ 53 := by decide

/-! ### (1) window bounds -/

/-- one operation preserves `2·MDS ≤ cwnd ≤ MaxCongestionWindowPackets·MDS + MDS` (for the datagram
size after the operation), from any state -/
theorem cwnd_bounds_step (s : Sender) (op : Op)
    (h : 2 * s.mds ≤ s.cwnd ∧ s.cwnd ≤ maxCwndPackets * s.mds + s.mds) :
    2 * (s.step op).1.mds ≤ (s.step op).1.cwnd ∧
    (s.step op).1.cwnd ≤ maxCwndPackets * (s.step op).1.mds + (s.step op).1.mds :=
  inv_step s op h

example : ∃ s : Sender, (2 * s.mds ≤ s.cwnd ∧ s.cwnd ≤ maxCwndPackets * s.mds + s.mds) ∧ s.cwnd = 2629 ∧ s.mds = 1252 :=
  ⟨(Sender.new 1252 Rtt.default).run
      [.lost 1 0 0, .lost 2 0 0, .lost 3 0 0, .lost 4 0 0, .lost 5 0 0, .lost 6 0 0, .lost 7 0 0, .lost 8 0 0,
       .acked 9 1252 2504 0, .acked 10 1252 2504 0, .lost 11 1252 2504], by decide⟩

/-- Full strength: after any history from `NewCubicSender(…, mds0, reno=true, …)`, for any initial
RTT state, the window is at least two full-size packets and at most the configured maximum plus
one packet, for the *current* maximum datagram size. -/
theorem cwnd_bounds (mds0 : Nat) (rtt0 : Rtt) (ops : List Op) :
    2 * ((Sender.new mds0 rtt0).run ops).mds ≤ ((Sender.new mds0 rtt0).run ops).cwnd ∧
    ((Sender.new mds0 rtt0).run ops).cwnd ≤
      maxCwndPackets * ((Sender.new mds0 rtt0).run ops).mds + ((Sender.new mds0 rtt0).run ops).mds :=
  inv_run ops _ (inv_new mds0 rtt0)

/-- the configured maximum is 10000 packets and the floor is 2 packets, as the property text says -/
theorem cwnd_bound_constants : minCwndPackets = 2 ∧ maxCwndPackets = 10000 := by decide

-- the old witness history of the defect repaired by /repo 826ca57 now ends above the floor
example :
    let s := (Sender.new 1252 Rtt.default).run
      [.lost 1 0 0, .lost 2 0 0, .lost 3 0 0, .lost 4 0 0, .lost 5 0 0, .lost 6 0 0, .lost 7 0 0, .lost 8 0 0,
       .acked 9 1252 2504 0, .acked 10 1252 2504 0, .lost 11 1252 2504, .setMDS 1452]
    s.cwnd = 2904 ∧ s.mds = 1452 := by decide

/-! ### (2) the back-off; shrinking -/

/-- `ByteCount(float64(w) * renoBeta) ≤ w` for every `w`: the exact integer rendering of the
binary64 multiplication never increases the window -/
theorem renoCut_le (w : Nat) : renoCut w ≤ w := Uquic.Proofs.Cong.renoCut_le w

example : renoCut 3756 = 2629 ∧ renoCut 40064 = 28044 ∧ renoCut 10 = 7 := by decide

/-- The window decreases only in `OnCongestionEvent` for a packet number above
`largestSentAtLastCutback`; the new window is `max(⌊float64(w)·β⌋, 2·MDS)` and the mark moves to
the largest packet sent so far. -/
theorem shrinks_only_on_congestion_event (s : Sender) (op : Op) (h : (s.step op).1.cwnd < s.cwnd) :
    ∃ pn b p, op = .lost pn b p ∧ s.lastCutback < pn ∧
      (s.step op).1.cwnd = Max.max (renoCut s.cwnd) (2 * s.mds) ∧
      (s.step op).1.lastCutback = s.largestSent := by
  obtain ⟨pn, b, p, h1, h2, h3, h4⟩ := step_shrink s op h
  refine ⟨pn, b, p, h1, h2, ?_, h4⟩
  rw [h3, minCwndPackets_eq, Nat.mul_comm]

/-- At most once per window of packets: along any history in which every packet declared lost has a
number not above `largestSentAtLastCutback` (i.e. was sent before the last cut-back), whatever
else happens (sends, acknowledgements, MTU increases, RTT updates, idle periods), the window
never decreases and the mark stays. -/
theorem shrinks_once_per_window (s : Sender) (ops : List Op)
    (h : ∀ op ∈ ops, ∀ pn b p, op = Op.lost pn b p → pn ≤ s.lastCutback) :
    s.cwnd ≤ (s.run ops).cwnd ∧ (s.run ops).lastCutback = s.lastCutback :=
  run_old_loss ops s h

-- a state in recovery (cut-back mark 7) and a history with two more losses from the same window
example :
    let s := (Sender.new 1252 Rtt.default).run [.sent 5 7 1252 true, .lost 3 1252 1252]
    let ops := [Op.lost 5 1252 1252, Op.acked 4 1252 40000 9, Op.lost 7 1252 1252, Op.setMDS 1452]
    s.lastCutback = 7 ∧ s.cwnd = 28044 ∧ (∀ op ∈ ops, ∀ pn b p, op = Op.lost pn b p → pn ≤ s.lastCutback) ∧
      (s.run ops).cwnd = 28044 := by
  refine ⟨by decide, by decide, ?_, by decide⟩
  intro op hop pn b p e
  simp only [List.mem_cons, List.not_mem_nil, or_false] at hop
  rcases hop with h | h | h | h <;> subst h <;> cases e <;> decide

/-- … in particular right after a cut-back: further losses of packets sent no later than the
cut-back (numbers ≤ the largest sent at that moment) do not shrink the window again. -/
theorem shrinks_once_after_cutback (s : Sender) (pn : Int) (b p : Nat) (ops : List Op)
    (hcut : s.lastCutback < pn)
    (h : ∀ op ∈ ops, ∀ pn' b' p', op = Op.lost pn' b' p' → pn' ≤ s.largestSent) :
    (s.step (.lost pn b p)).1.cwnd ≤ ((s.step (.lost pn b p)).1.run ops).cwnd := by
  have hs := onCongestionEvent_spec s pn
  simp only [] at hs
  have hlc : (s.step (.lost pn b p)).1.lastCutback = s.largestSent := by
    rcases hs.2 with ⟨hle, _⟩ | ⟨_, _, hc, _⟩
    · omega
    · exact hc
  exact (run_old_loss ops _ (by rw [hlc]; exact h)).1

example : ∃ s : Sender, ∃ pn, s.lastCutback < pn ∧ (s.step (.lost pn 0 0)).1.cwnd < s.cwnd :=
  ⟨(Sender.new 1252 Rtt.default).run [.sent 5 7 1252 true], 3, by decide⟩

/-- never in response to an acknowledgement -/
theorem no_decrease_on_ack (s : Sender) (pn : Int) (b prior : Nat) (t : Int) :
    s.cwnd ≤ (s.step (.acked pn b prior t)).1.cwnd :=
  (step_old_loss s (.acked pn b prior t) (by intro _ _ _ e; cases e)).1


/-! ### (2') the glue: what sent_packet_handler.go reports to the controller -/

/-- Every congestion event `ReceivedAck` raises is either the ECN-CE event — reported for the ACK
frame's LARGEST ACKNOWLEDGED packet, with 0 lost bytes — or a loss event carrying the number and size
of an outstanding packet (ack-eliciting, no Path MTU probe, no path probe) that loss detection
removed. -/
theorem glue_congestion_event_packet (g : Glue) (ranges : List (Int × Int)) (congested : Bool) (gone : List (Nat × Int)) (sp : Nat) :
    ∀ c ∈ g.ackCalls ranges congested gone sp, ∀ pn b p, c = Call.cong pn b p →
      (congested = true ∧ pn = largestOf ranges ∧ b = 0) ∨
      ∃ q ∈ g.out, q.outstanding = true ∧ q.key ∈ gone ∧ q.pn = pn ∧ q.size = b :=
  ackCalls_cong g ranges congested gone sp

/-- Once per window, through the handler: an ACK frame (in any packet number space) that acknowledges
and reports lost only packets at or below the cut-back mark (packets of the flight that was already
reduced: the mark is the largest ack-eliciting packet sent when the window was cut) does not shrink
the window again, whether or not it carries further CE marks, and leaves the mark in place. -/
theorem glue_ack_once_per_window (g : Glue) (ranges : List (Int × Int)) (congested : Bool) (gone : List (Nat × Int))
    (sp : Nat) (ph : List Int)
    (hce : congested = true → largestOf ranges ≤ g.s.lastCutback)
    (hl : ∀ k ∈ gone, k.2 ≤ g.s.lastCutback) :
    g.s.cwnd ≤ (g.ack ranges congested gone sp ph).1.s.cwnd ∧
    (g.ack ranges congested gone sp ph).1.s.lastCutback = g.s.lastCutback :=
  ack_old_window g ranges congested gone sp ph hce hl

/-- … and the same for losses declared by the loss timer -/
theorem glue_timeout_once_per_window (g : Glue) (gone : List (Nat × Int)) (ph : List Int)
    (hl : ∀ k ∈ gone, k.2 ≤ g.s.lastCutback) :
    g.s.cwnd ≤ (g.timeout gone ph).1.s.cwnd ∧
    (g.timeout gone ph).1.s.lastCutback = g.s.lastCutback :=
  timeout_old_window g gone ph hl

/-- Why the packet number matters (the variant seeded as C20-r2s2): a flight of ten packets, the CE
mark on packet 1 cuts the window once (38400 → 26880, mark 9); three more packets are sent; a CE
mark on packet 2 of the old flight is ignored when reported for the largest ACKED packet (2 ≤ 9),
but cuts the window a second time (→ 18816) when reported for the largest SENT packet (12 > 9). -/
theorem glue_wrong_packet_number_witness :
    let g1 := Glue.sendMany { s := Sender.new 1200 Rtt.default } 1000 1200 [0, 1, 2, 3, 4, 5, 6, 7, 8, 9]
    let g2 := (g1.ack [(0, 1)] true []).1
    let g3 := g2.sendMany 1000 1200 [10, 11, 12]
    g1.s.cwnd = 38400 ∧ g2.s.cwnd = 26880 ∧ g2.s.lastCutback = 9 ∧
    (g3.ack [(0, 2)] true []).1.s.cwnd = 26880 ∧
    (g3.apply (g3.ackCallsWrong [(0, 2)] true [])).s.cwnd = 18816 := by decide

/-! ### (3) growth -/

/-- `isCwndLimited` spelled out -/
theorem isCwndLimited_iff (s : Sender) (prior : Nat) :
    s.isCwndLimited prior = true ↔
      (prior ≥ s.cwnd ∨ (s.cwnd < s.ssthresh ∧ prior > s.cwnd / 2) ∨ s.cwnd - prior ≤ 3 * s.mds) := by
  unfold Sender.isCwndLimited Sender.inSlowStart
  rw [maxBurstPackets_eq]
  by_cases h : prior ≥ s.cwnd
  · simp [h]
  · simp only [h, if_false, Bool.or_eq_true, Bool.and_eq_true, decide_eq_true_eq, false_or]

/-- The window grows only (a) in `OnPacketAcked`, outside recovery, while `isCwndLimited(priorInFlight)`
and below the maximum — by exactly one maximum datagram size — or (b) when `SetMaxDatagramSize(m)`
lifts a window below the new floor to exactly `2·m` (the repair of 826ca57; needed for (1)). -/
theorem grows_only_when_limited (s : Sender) (op : Op) (hlo : 2 * s.mds ≤ s.cwnd)
    (h : s.cwnd < (s.step op).1.cwnd) :
    (∃ pn b prior t, op = .acked pn b prior t ∧
        ¬ (Max.max pn s.largestAcked ≠ invalidPN ∧ Max.max pn s.largestAcked ≤ s.lastCutback) ∧
        s.isCwndLimited prior = true ∧ s.cwnd < maxCwndPackets * s.mds ∧
        (s.step op).1.cwnd = s.cwnd + s.mds) ∨
    (∃ m, op = .setMDS m ∧ s.mds ≤ m ∧ s.cwnd < 2 * m ∧ (s.step op).1.cwnd = 2 * m) := by
  have hlo' : s.mds * minCwndPackets ≤ s.cwnd := by rw [minCwndPackets_eq]; omega
  rcases step_grow s op hlo' h with ⟨pn, b, prior, t, h1, h2, h3, h4, h5⟩ | ⟨m, h1, h2, h3, h4⟩
  · refine Or.inl ⟨pn, b, prior, t, h1, ?_, h3, ?_, h5⟩
    · simp only [Sender.inRecovery, Bool.and_eq_false_iff, decide_eq_false_iff_not] at h2
      intro ⟨ha, hb⟩
      rcases h2 with h2 | h2
      · exact h2 ha
      · exact h2 hb
    · simp only [Sender.maxCwnd] at h4; rw [Nat.mul_comm]; exact h4
  · rw [minCwndPackets_eq] at h3 h4
    exact Or.inr ⟨m, h1, h2, by omega, by omega⟩

example : ∃ s : Sender, 2 * s.mds ≤ s.cwnd ∧ s.cwnd < (s.step (.acked 1 1252 40064 9)).1.cwnd :=
  ⟨Sender.new 1252 Rtt.default, by decide⟩

/-! ### (4) release of new data -/

/-- `CanSend(bytesInFlight)` is exactly `bytesInFlight < cwnd` -/
theorem canSend_iff (s : Sender) (bytesInFlight : Nat) :
    s.canSend bytesInFlight = true ↔ bytesInFlight < s.cwnd := by
  simp [Sender.canSend]

/-- `SendMode` answers `SendAny` or `SendPacingLimited` (the two modes in which the connection packs
new ack-eliciting data) only while the bytes in flight are below the window; everything else is
`SendNone`, `SendAck` (pure ACKs) or a PTO probe mode.  `ptoMode` is only ever `SendNone` or a
PTO mode in sent_packet_handler.go. -/
theorem send_gating (s : Sender) (amp : Bool) (tracked maxTracked maxOutstanding numProbes : Nat)
    (ptoMode : SendMode) (bytesInFlight : Nat) (now : Int)
    (hpto : ptoMode ≠ .any ∧ ptoMode ≠ .pacingLimited)
    (h : sendMode s amp tracked maxTracked maxOutstanding numProbes ptoMode bytesInFlight now = .any ∨
         sendMode s amp tracked maxTracked maxOutstanding numProbes ptoMode bytesInFlight now = .pacingLimited) :
    bytesInFlight < s.cwnd := by
  unfold sendMode at h
  by_cases h1 : amp = true
  · simp [h1] at h
  · by_cases h2 : tracked ≥ maxTracked
    · simp [h1, h2] at h
    · by_cases h3 : numProbes > 0
      · simp only [h1, h2, h3, if_true, if_false, Bool.false_eq_true] at h
        rcases h with h | h
        · exact absurd h hpto.1
        · exact absurd h hpto.2
      · by_cases h4 : s.canSend bytesInFlight = true
        · exact (canSend_iff s bytesInFlight).1 h4
        · simp [h1, h2, h3, h4] at h

example : sendMode (Sender.new 1252 Rtt.default) false 0 25000 20000 0 .none 40063 1 = .any ∧
    sendMode (Sender.new 1252 Rtt.default) false 0 25000 20000 0 .none 40064 1 = .ack ∧
    sendMode (Sender.new 1252 Rtt.default) false 0 25000 20000 1 .ptoAppData 99999 1 = .ptoAppData := by decide

/-! ### (5) pacer -/

/-- `Budget(now)` never exceeds one burst (`maxBurstSize`) -/
theorem pacer_budget_bounded (s : Sender) (now : Int) :
    s.budget now ≤ maxBurstSize s.bw s.pacer.mds :=
  budget_le_burst s.pacer s.bw now

/-- one send: if the packet is no larger than the budget (in particular if `HasPacingBudget` said
yes and the packet is at most one maximum datagram), the bytes leave the bucket exactly; the
bucket never grows by a send; and the budget was at most the previous content plus
`⌊1.25·bw·Δt/10⁹⌋` tokens. -/
theorem pacer_step (s : Sender) (t pn : Int) (b : Nat) (r : Bool)
    (hT : s.pacer.lastSent ≠ 0) (hm : PacerMDSOk s.pacer.mds) :
    let s' := (s.step (.sent t pn b r)).1
    s'.pacer.budgetAtLastSent ≤ s.budget t ∧
    (b ≤ s.budget t → b + s'.pacer.budgetAtLastSent = s.budget t) ∧
    s.budget t ≤ s.pacer.budgetAtLastSent + tokens s.pacer s.bw t := by
  have hp := step_pacer s (.sent t pn b r)
  simp only [] at hp
  have hsp := sentPacket_spec s.pacer s.bw t b
  simp only [] at hsp
  simp only [hp, Sender.budget]
  exact ⟨hsp.2.2.1, hsp.2.2.2, budget_le_tokens s.pacer s.bw t hT hm⟩

/-- Interval bound, by induction over the history: over any stretch of operations that starts with
a send, the bytes of the sends the pacer authorised (`HasPacingBudget` held, packet ≤ MDS) are at
most one burst plus the sum over the later sends of `⌊1.25·bw·Δt/10⁹⌋` — bandwidth and elapsed time
as they are at each send; sends that were not authorised (pure ACKs, probes) only drain the bucket.
Hypotheses: send times are not the "unset" value 0, datagram sizes < 1.8·10⁹. -/
theorem pacer_interval_bound (s : Sender) (t pn : Int) (b : Nat) (r : Bool) (rest : List Op)
    (ht : t ≠ 0) (hm : PacerMDSOk s.pacer.mds) (hyp : PacerHyp rest) :
    authBytes s (.sent t pn b r :: rest) ≤
      maxBurstSize s.bw s.pacer.mds + allowance (s.step (.sent t pn b r)).1 rest :=
  pacer_interval s t pn b r rest ht hm hyp

/-- The property's last sentence: over any interval `[t, t_end]` that starts with a send at `t ≠ 0`,
with non-decreasing send times, if the pacer's bandwidth `⌊1.25·bw⌋` (bytes/s) is at most `W` at
every send of the interval, the authorised bytes are at most one burst plus `⌊W·(t_end − t)/10⁹⌋`. -/
theorem pacer_interval_elapsed (s : Sender) (t pn : Int) (b : Nat) (r : Bool) (rest : List Op) (W : Nat)
    (ht : t ≠ 0) (hm : PacerMDSOk s.pacer.mds) (hyp : PacerHyp rest)
    (hmono : TimesMono t rest) (hbw : BwBounded W (s.step (.sent t pn b r)).1 rest) :
    authBytes s (.sent t pn b r :: rest) ≤
      maxBurstSize s.bw s.pacer.mds + W * (lastSendTime t rest - t).toNat / nsPerSecond := by
  have h1 := pacer_interval s t pn b r rest ht hm hyp
  have hp := step_pacer s (.sent t pn b r)
  simp only [] at hp
  have hT : (s.step (.sent t pn b r)).1.pacer.lastSent = t := by
    rw [hp]; exact (sentPacket_spec s.pacer s.bw t b).1
  have h2 := allowance_le_elapsed W rest (s.step (.sent t pn b r)).1 (by rw [hT]; exact hmono) hbw
  rw [hT] at h2
  omega

-- hypotheses satisfiable: three sends 1 ms apart on a fresh sender (bandwidth 500800 B/s)
example :
    let s := Sender.new 1252 Rtt.default
    let rest := [Op.sent 2000000 2 1252 true, Op.acked 1 1252 2504 2500000, Op.sent 3000000 3 1252 true]
    PacerMDSOk s.pacer.mds ∧ TimesMono 1000000 rest ∧
      BwBounded 600000 (s.step (.sent 1000000 1 1252 true)).1 rest ∧
      authBytes s (.sent 1000000 1 1252 true :: rest) = 3756 := by
  refine ⟨?_, ?_, ?_, by decide⟩
  · simp only [PacerMDSOk]; decide
  · simp only [TimesMono]; decide
  · simp only [BwBounded]; decide


/-- Time stamps that go backwards earn nothing: for a `now` at or before the previous send (any
distance up to 2^63 ns) the budget is at most what was left in the bucket at that send — so the
interval bound above holds with `max(0, Δt)` for time stamps in any order (`tokens` is 0 then). -/
theorem pacer_earlier_stamp_no_credit (s : Sender) (now : Int) (hT : s.pacer.lastSent ≠ 0)
    (hm : PacerMDSOk s.pacer.mds) (h : now ≤ s.pacer.lastSent) (hr : s.pacer.lastSent - now ≤ 2 ^ 63) :
    s.budget now ≤ s.pacer.budgetAtLastSent ∧ tokens s.pacer s.bw now = 0 :=
  ⟨budget_earlier s.pacer s.bw now hT hm h hr, tokens_earlier s.pacer s.bw now h hr⟩

example :
    let s := (Sender.new 1252 Rtt.default).run [.sent 5000000 1 1252 true]
    s.pacer.lastSent ≠ 0 ∧ s.budget 4999000 = 11548 ∧ s.pacer.budgetAtLastSent = 11548 := by decide

/-- the bandwidth the pacer uses is at most 1.25 × the estimate `cwnd·10⁹/srtt` (exact arithmetic);
64-bit wrap-around can only lower it -/
theorem pacer_bandwidth_le (s : Sender) : s.bw ≤ idealAdjBw s.cwnd s.rtt.srtt :=
  adjustedBandwidth_le_ideal s.cwnd s.rtt.srtt

/-- No overflow under the stated ranges (window ≤ 2305843009 bytes — implied by `cwnd_bounds` for
datagram sizes ≤ 65535 —, 0 < srtt, datagram size ≤ 2^30, bucket < 2^62):
the bandwidth is computed exactly, the int64 guard in `Budget` is dead code, `TimeUntilSend` is the
exact ceiling and panics exactly when the bandwidth is 0 with a short bucket. -/
theorem pacer_no_overflow (s : Sender) (now : Int)
    (hc : s.cwnd ≤ 2305843009) (h0 : 0 < s.rtt.srtt) (h1 : s.rtt.srtt < 2 ^ 63)
    (hm : s.pacer.mds ≤ 2 ^ 30) (hT : s.pacer.lastSent ≠ 0) (hB : s.pacer.budgetAtLastSent < 2 ^ 62) :
    s.bw = (s.cwnd * nsPerSecond / s.rtt.srtt.toNat) * 5 / 4 ∧
    s.budget now = Min.min (maxBurstSize s.bw s.pacer.mds)
      (s.pacer.budgetAtLastSent + (if wrapI64 (now - s.pacer.lastSent) > 0
        then timeScaledBandwidth s.bw s.pacer.mds (wrapI64 (now - s.pacer.lastSent)).toNat else 0)) ∧
    s.timeUntilSend =
      (if s.pacer.budgetAtLastSent ≥ s.pacer.mds then some 0
       else if s.bw = 0 then none
       else some (wrapI64 (s.pacer.lastSent + Max.max minPacingDelay
        ((nsPerSecond * (s.pacer.mds - s.pacer.budgetAtLastSent) / s.bw +
          (if nsPerSecond * (s.pacer.mds - s.pacer.budgetAtLastSent) % s.bw > 0 then 1 else 0) : Nat) : Int)))) := by
  have hmok : PacerMDSOk s.pacer.mds := by
    unfold PacerMDSOk; rw [maxBurstSizePackets_eq]; omega
  exact ⟨adjustedBandwidth_exact s.cwnd s.rtt.srtt hc h0 h1,
         budget_no_overflow s.pacer s.bw now hT hB hmok,
         timeUntilSend_exact s.pacer s.bw (by omega)⟩

/-- `TimeUntilSend` does not panic when the smoothed RTT is positive and at most `cwnd·10⁹` ns
(at least one byte per second) -/
theorem timeUntilSend_no_panic (s : Sender) (hc : s.cwnd ≤ 2305843009)
    (h0 : 0 < s.rtt.srtt) (h1 : s.rtt.srtt.toNat ≤ s.cwnd * nsPerSecond) (hm : s.pacer.mds ≤ 2 ^ 32) :
    s.timeUntilSend ≠ none := by
  have hbw : s.bw ≠ 0 := adjustedBandwidth_pos s.cwnd s.rtt.srtt hc h0 h1
  unfold Sender.timeUntilSend
  rw [timeUntilSend_exact s.pacer s.bw hm]
  by_cases hB : s.pacer.budgetAtLastSent ≥ s.pacer.mds
  · rw [if_pos hB]; exact Option.some_ne_none _
  · rw [if_neg hB, if_neg hbw]; exact Option.some_ne_none _

example :
    let s := (Sender.new 1252 Rtt.default).run [.sent 1 1 13000 true]
    s.cwnd ≤ 2305843009 ∧ 0 < s.rtt.srtt ∧ s.rtt.srtt.toNat ≤ s.cwnd * nsPerSecond ∧ s.pacer.mds ≤ 2 ^ 32 ∧
      s.timeUntilSend = some 2555912 := by decide

/-- … and the panic is real outside that range: a smoothed RTT of 50 000 s makes the bandwidth 0 -/
theorem timeUntilSend_panic_witness :
    ((Sender.new 1252 { latest := 1, min := 1, srtt := 50000000000000 }).run
      [.sent 1 1 13000 true]).timeUntilSend = none := by decide

example : ∃ s : Sender, s.cwnd ≤ 2305843009 ∧ 0 < s.rtt.srtt ∧ s.rtt.srtt < 2 ^ 63 ∧ s.pacer.mds ≤ 2 ^ 30 ∧
    s.pacer.lastSent ≠ 0 ∧ s.pacer.budgetAtLastSent < 2 ^ 62 :=
  ⟨(Sender.new 1252 Rtt.default).run [.sent 1000 1 1252 true], by decide⟩

end Uquic.Props.C20
