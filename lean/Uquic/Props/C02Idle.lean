/-
Property C02, "… and then moves stream data in both directions": the idle timers a dialled connection ends up with
(`Uquic.Model.UQuic.DialIdle`: `configCoveringAdvertised` on the client, the receiver's floor on a received
max_idle_timeout, `applyTransportParameters` = `Uquic.Model.Idle.negotiate`).

A derived spec may drop max_idle_timeout (no peer requires it; RFC 9000 §10.1: an endpoint that omits it does not limit
the idle period). The theorems say that the timeout then in force at the peer is the peer's own, that it is positive,
and that a connection left unused for less than every limit an endpoint configured or advertised survives on both
sides — which the `dial` driver checks on real connections (`pause=`, monitor `survives_idle_pause`, and the model's
two-sided prediction of the second echo).
-/
import Uquic.Model.UQuic.DialIdle

namespace Uquic.Props.C02Idle
open Uquic.Model.Idle Uquic.Model.UQuic.DialIdle

theorem minRemote_pos : 0 < minRemoteIdleTimeout := by decide

/-- a peer that did not advertise max_idle_timeout does not shorten the own timeout -/
theorem omitted_limit_is_no_limit (own adv : Int) (h : adv < 0) : inForce own adv = own := by
  unfold inForce negotiate peerSeen
  simp [h]

/-- an advertised value takes part in the minimum, after the receiver's floor -/
theorem in_force_is_min (own adv : Int) (h : 0 ≤ adv) :
    inForce own adv = min own (max minRemoteIdleTimeout (adv * 1000000)) := by
  have hp := minRemote_pos
  unfold inForce negotiate peerSeen peerIdleSeen
  have h1 : ¬ adv < 0 := by omega
  simp only [h1, if_false]
  have h2 : max minRemoteIdleTimeout (adv * 1000000) > 0 := by omega
  simp [h2]

/-- the timeout in force is never zero or negative: a connection is not destroyed the moment it falls idle -/
theorem in_force_positive (own adv : Int) (h : 0 < own) : 0 < inForce own adv := by
  have hp := minRemote_pos
  unfold inForce negotiate peerSeen peerIdleSeen
  by_cases h1 : adv < 0
  · simp [h1, h]
  · simp only [h1, if_false]
    split <;> omega

/-- … and never longer than the own configured one -/
theorem in_force_le_own (own adv : Int) : inForce own adv ≤ own := by
  unfold inForce negotiate
  simp only []
  split <;> omega

/-- a client whose spec drops max_idle_timeout leaves the server with the server's own timeout -/
theorem suppressed_limit_leaves_server_own (e : Ends) (h : e.cAdv < 0) : e.server = e.sOwn :=
  omitted_limit_is_no_limit _ _ h

/-- the spec-driven client does not time out before the idle period it promised the peer has passed
    (`configCoveringAdvertised`), unless the server's advertised limit is shorter -/
theorem client_honours_advertised (e : Ends) (h : 0 ≤ e.cAdv) (hs : 0 ≤ e.sAdv) :
    min (e.cAdv * msNs) (max minRemoteIdleTimeout (e.sAdv * 1000000)) ≤ e.client := by
  unfold Ends.client
  rw [in_force_is_min _ _ hs]
  unfold clientOwn msNs
  have : ¬ e.cAdv < 0 := by omega
  simp only [this, if_false]
  omega

/-- THE statement: an unused period (plus the slack for where it starts) below every limit an endpoint configured or
    advertised ends before either idle timer fires — whether or not the client advertises a limit at all -/
theorem survives_below_every_limit (e : Ends) (p : Int) (hp0 : 0 ≤ p)
    (hc : p * msNs + slack < e.cConf) (hs : p * msNs + slack < e.sOwn) (hsa : p * msNs + slack < e.sAdv * msNs)
    (ha : e.cAdv < 0 ∨ p * msNs + slack < e.cAdv * msNs) :
    survives e p = true := by
  have hp := minRemote_pos
  unfold survives Ends.both Ends.client Ends.server
  simp only [decide_eq_true_eq]
  unfold msNs slack at *
  unfold msNs at *
  have hsa0 : 0 ≤ e.sAdv := by omega
  rw [in_force_is_min _ _ hsa0]
  have hco : p * 1000000 + 1000 * 1000000 < clientOwn e.cConf e.cAdv := by
    unfold clientOwn; omega
  rcases ha with ha | ha
  · rw [omitted_limit_is_no_limit _ _ ha]; omega
  · by_cases h0 : e.cAdv < 0
    · rw [omitted_limit_is_no_limit _ _ h0]; omega
    · rw [in_force_is_min _ _ (by omega)]
      omega

/-- the hypotheses are satisfiable in both shapes the driver generates: Chrome's 30 s against the default server, and
    a spec without max_idle_timeout -/
example : survives { cConf := 30000 * msNs, cAdv := 30000, sOwn := 30000 * msNs } 26000 = true := by decide
example : survives { cConf := 30000 * msNs, cAdv := -1, sOwn := 30000 * msNs } 400 = true := by decide
example : dies { cConf := 30000 * msNs, cAdv := 30000, sOwn := 4000 * msNs } 12000 = true := by decide

/-- Why the guard `peer advertised a limit` matters: an endpoint that folded an absent parameter into the minimum would
    have no idle period left at all — the connection of a spec without max_idle_timeout would not survive a pause that
    the model (and RFC 9000 §10.1) say it survives. -/
def naiveInForce (own peerAdvMs : Int) : Int := min own (peerSeen peerAdvMs)

theorem naive_min_witness :
    ∃ (e : Ends) (p : Int), survives e p = true ∧ ¬ (p * msNs < naiveInForce e.sOwn e.cAdv) :=
  ⟨{ cConf := 30000 * msNs, cAdv := -1, sOwn := 30000 * msNs }, 400, by decide, by decide⟩

end Uquic.Props.C02Idle
