/-
C19 (round 4) — the GLUE around the field-section parsers and the sharing discipline of the request writer.

Property theorems only. Models: Uquic/Model/H3/Glue.lean (RawServerConn.handleRequestStream,
RequestStream.ReadResponse, decodeTrailers) and Uquic/Model/H3/ReqLock.lean (requestWriter.writeHeaders:
one encoder, one header buffer, one mutex shared by all requests of a connection). Reference predicate:
Uquic/Spec/H3FieldsWF.lean. Tie: the h3g driver (real http3.Server / ClientConn against a bare QUIC
peer; scripted interleavings of writeHeaders) with the monitors of Uquic/Spec/H3GlueMon.lean.

Every theorem quantifies over ALL field lists, limits ≥ 0, frame lengths, answers of strings.ToLower
(`ext`) and of url.ParseRequestURI (`urlOK`), and — for the writer — over ALL schedules.
-/
import Uquic.Props.C19
import Uquic.Proofs.FieldsGlue
import Uquic.Proofs.ReqLock
import Uquic.Model.H3.Glue

namespace Uquic.Props.C19Glue
open Uquic.Model.H3.Fields Uquic.Gen.H3Fields Uquic.Proofs.Fields
open Uquic.Model.H3.Glue (SrvOutcome CliOutcome BodyObs handleRequestStream readResponse decodeTrailers readBody)
open Uquic.Spec.H3Fields (WellFormed TrailersWellFormed sectionSize)
open Uquic.Spec.H3FieldsMon (requestRules responseRules)
open Uquic.Props.C19 (H3_MESSAGE_ERROR H3_EXCESSIVE_LOAD QPACK_DECOMPRESSION_FAILED)

/-- RFC 9114 §8.1 -/
def H3_FRAME_ERROR : Int := 0x0106

/-! ## 1. the server hands only well-formed requests to the handler -/

/-- `handler_only_wellformed`: whenever handleRequestStream calls the handler, the HEADERS frame was
    within the limit, the field section satisfies the reference predicate (incl. the cumulative size
    rule) and the request pseudo-header rules, and the decoder reported no error. -/
theorem handler_only_wellformed (ext urlOK : List Nat → Bool) (lim enc : Int) (hlim : 0 ≤ lim) (fs : List Field) (q : Bool)
    (req : Req) (h : handleRequestStream ext urlOK lim enc fs q = .handler req) :
    enc ≤ lim ∧ WellFormed true lim fs ∧ requestRules fs = true ∧ q = false := by
  unfold handleRequestStream at h
  split at h
  · cases h
  rename_i henc
  split at h
  · simp only [] at h
    split at h <;> cases h
  · rename_i r hr
    cases h
    obtain ⟨h1, h2, h3⟩ := Uquic.Props.C19.request_rules ext urlOK lim hlim fs q req hr
    exact ⟨by omega, h2, h1, h3⟩

/-- a decoding error is only ever reported when the decoder reported one -/
theorem request_qpack_error (ext urlOK : List Nat → Bool) (lim : Int) (fs : List Field) (q : Bool)
    (h : requestFromHeaders ext urlOK lim fs q = .error .qpack) : q = true := by
  unfold requestFromHeaders at h
  split at h
  · rename_i e he
    cases h
    rcases Uquic.Props.C19.parse_error_classes ext true lim fs q _ he with ⟨_, hq⟩ | hl | hc
    · exact hq
    · exact absurd hl (by decide)
    · cases hc
  · simp only [] at h
    repeat' split at h
    all_goals cases h

/-- `rejection_signalled`: a request that does not reach the handler is answered in exactly one of three
    ways — 431 response + H3_EXCESSIVE_LOAD, stream reset with H3_MESSAGE_ERROR, or (only when the QPACK
    decoder reported an error) stream reset with QPACK_DECOMPRESSION_FAILED. -/
theorem rejection_signalled (ext urlOK : List Nat → Bool) (lim enc : Int) (fs : List Field) (q : Bool) :
    (∃ req, handleRequestStream ext urlOK lim enc fs q = .handler req) ∨
    handleRequestStream ext urlOK lim enc fs q = .reject431 H3_EXCESSIVE_LOAD ∨
    handleRequestStream ext urlOK lim enc fs q = .reset H3_MESSAGE_ERROR ∨
    (handleRequestStream ext urlOK lim enc fs q = .reset QPACK_DECOMPRESSION_FAILED ∧ q = true) := by
  by_cases henc : enc > lim
  · right; left
    unfold handleRequestStream
    rw [if_pos henc]; rfl
  · cases hr : requestFromHeaders ext urlOK lim fs q with
    | ok r => left; exact ⟨r, by simp [handleRequestStream, henc, hr]⟩
    | error e =>
      have hm := Uquic.Props.C19.reject_maps_to_error e
      by_cases hq : e = .qpack
      · subst hq
        right; right; right
        refine ⟨?_, request_qpack_error ext urlOK lim fs q hr⟩
        simp [handleRequestStream, henc, hr, (hm.1 rfl).1]
      · by_cases ht : e = .tooLarge
        · subst ht
          right; left
          simp [handleRequestStream, henc, hr, (hm.2.1 rfl).1]
        · right; right; left
          simp [handleRequestStream, henc, hr, (hm.2.2.1 hq ht).1]

/-! ## 2. over the limit ⇒ 431 + H3_EXCESSIVE_LOAD -/

/-- `oversized_answered_431`: a request whose HEADERS frame is longer than the limit, or whose field
    section is well formed apart from its size and DECODES to more than the limit (QPACK compresses: the
    frame may be far smaller), is answered with a 431 response and H3_EXCESSIVE_LOAD — never reset as
    malformed, never handed to the handler. -/
theorem oversized_answered_431 (ext urlOK : List Nat → Bool) (lim enc : Int) (hlim : 0 ≤ lim) (fs : List Field) (q : Bool)
    (h : enc > lim ∨ (WellFormed true (sectionSize fs) fs ∧ lim < sectionSize fs)) :
    handleRequestStream ext urlOK lim enc fs q = .reject431 H3_EXCESSIVE_LOAD := by
  unfold handleRequestStream
  split
  · rfl
  rename_i henc
  rcases h with h | ⟨wf, hsz⟩
  · exact absurd h henc
  obtain ⟨hd, hp⟩ := Uquic.Props.C19.accept_complete ext true (sectionSize fs) fs wf
  have hrun : ∃ s, runFields ext true { limit := sectionSize fs } fs = .ok s := by
    unfold parseHeaders parseHeadersQ at hp
    split at hp
    · cases hp
    · rename_i s hs; exact ⟨s, hs⟩
  obtain ⟨s, hs⟩ := hrun
  have hbad := runFields_relimit_tooLarge ext true fs _ s lim hs hlim hsz
  have hparse : parseHeadersQ ext true lim fs q = .error .tooLarge := by
    unfold parseHeadersQ
    have : (relimit { limit := sectionSize fs } lim : PS) = { limit := lim } := rfl
    rw [this] at hbad
    rw [hbad]
  have hreq : requestFromHeaders ext urlOK lim fs q = .error .tooLarge := by
    simp only [requestFromHeaders, hparse]
  rw [hreq]
  have := (Uquic.Props.C19.reject_maps_to_error .tooLarge).2.1 rfl
  simp [this.1]

/-- a section that is over the limit in no way is never answered as "too large" -/
theorem within_limit_not_431 (ext urlOK : List Nat → Bool) (lim enc : Int) (fs : List Field) (q : Bool)
    (henc : enc ≤ lim) (hsz : sectionSize fs ≤ lim) :
    handleRequestStream ext urlOK lim enc fs q ≠ .reject431 H3_EXCESSIVE_LOAD := by
  unfold handleRequestStream
  rw [if_neg (by omega)]
  split
  · rename_i e he
    have hne : e ≠ .tooLarge := by
      intro ht; subst ht
      have hparse : parseHeadersQ ext true lim fs q = .error .tooLarge := by
        unfold requestFromHeaders at he
        split at he
        · rename_i e' he'; cases he; exact he'
        · simp only [] at he
          repeat' split at he
          all_goals cases he
      unfold parseHeadersQ at hparse
      split at hparse
      · rename_i e' hr
        cases hparse
        have := runFields_tooLarge ext true fs _ hr
        simp at this
        omega
      · split at hparse
        · cases hparse
        · unfold finish at hparse
          repeat' split at hparse
          all_goals cases hparse
    have hm := Uquic.Props.C19.reject_maps_to_error e
    by_cases hq : e = .qpack
    · subst hq; simp [(hm.1 rfl).1]
    · simp [(hm.2.2.1 hq hne).1]
  · simp

/-! ## 3. malformed within the limit ⇒ H3_MESSAGE_ERROR -/

/-- `malformed_reset_message_error`: a request that violates the reference predicate while frame and
    decoded section are within the limit (and the decoder reported no error) is reset with
    H3_MESSAGE_ERROR on both directions of the stream; the handler is not called, no 431 is sent. -/
theorem malformed_reset_message_error (ext urlOK : List Nat → Bool) (lim enc : Int) (hlim : 0 ≤ lim) (fs : List Field)
    (henc : enc ≤ lim) (hsz : sectionSize fs ≤ lim) (hbad : ¬ WellFormed true lim fs) :
    handleRequestStream ext urlOK lim enc fs false = .reset H3_MESSAGE_ERROR := by
  rcases rejection_signalled ext urlOK lim enc fs false with ⟨req, h⟩ | h | h | ⟨_, h⟩
  · exact absurd (handler_only_wellformed ext urlOK lim enc hlim fs false req h).2.1 hbad
  · exact absurd h (within_limit_not_431 ext urlOK lim enc fs false henc hsz)
  · exact h
  · cases h

example : handleRequestStream (fun _ => true) (fun _ => true) 1000 60
      [(nMethod, B "GET"), (nScheme, B "https"), (nAuthority, B "a"), (nPath, B "/")] false ≠ .reset H3_MESSAGE_ERROR ∧
    handleRequestStream (fun _ => true) (fun _ => true) 100 60
      [(nMethod, B "GET"), (nScheme, B "https"), (nAuthority, B "a"), (nPath, B "/")] false = .reject431 H3_EXCESSIVE_LOAD ∧
    handleRequestStream (fun _ => true) (fun _ => true) 1000 60
      [(nMethod, B "GET"), (nScheme, B "https"), (nAuthority, B "a"), (nPath, B "/"), (B "Upper", B "x")] false = .reset H3_MESSAGE_ERROR := by
  decide

/-! ## 4. the client -/

/-- `response_only_wellformed`: RoundTrip only ever returns a response whose HEADERS frame was within
    the limit and whose field section satisfies the reference predicate and has a numeric :status. -/
theorem response_only_wellformed (ext : List Nat → Bool) (lim enc : Int) (hlim : 0 ≤ lim) (fs : List Field) (q : Bool)
    (r : Resp) (h : readResponse ext lim enc fs q = .response r) :
    enc ≤ lim ∧ WellFormed false lim fs ∧ responseRules fs = true ∧ q = false := by
  unfold readResponse at h
  split at h
  · cases h
  rename_i henc
  split at h
  · cases h
  · rename_i r' hr
    obtain ⟨h1, h2, h3⟩ := Uquic.Props.C19.response_rules ext lim hlim fs q r' hr
    exact ⟨by omega, h2, h1, h3⟩

theorem response_qpack_error (ext : List Nat → Bool) (lim : Int) (fs : List Field) (q : Bool)
    (h : updateResponseFromHeaders ext lim fs q = .error .qpack) : q = true := by
  unfold updateResponseFromHeaders at h
  split at h
  · rename_i e he
    cases h
    rcases Uquic.Props.C19.parse_error_classes ext false lim fs q _ he with ⟨_, hq⟩ | hl | hc
    · exact hq
    · exact absurd hl (by decide)
    · cases hc
  · simp only [] at h
    repeat' split at h
    all_goals cases h

/-- `response_rejection_signalled`: a response that is not returned stops the stream with
    H3_FRAME_ERROR (only for a HEADERS frame over the limit), H3_MESSAGE_ERROR, or (only when the decoder
    reported an error) QPACK_DECOMPRESSION_FAILED. -/
theorem response_rejection_signalled (ext : List Nat → Bool) (lim enc : Int) (fs : List Field) (q : Bool) (c : Int)
    (h : readResponse ext lim enc fs q = .failed c) :
    (c = H3_FRAME_ERROR ∧ enc > lim) ∨ c = H3_MESSAGE_ERROR ∨ (c = QPACK_DECOMPRESSION_FAILED ∧ q = true) := by
  unfold readResponse at h
  split at h
  · rename_i henc; cases h; left; exact ⟨by decide, henc⟩
  split at h
  · rename_i e he
    cases h
    have hm := Uquic.Props.C19.reject_maps_to_error e
    by_cases hq : e = .qpack
    · subst hq
      right; right
      exact ⟨by rw [(hm.1 rfl).2], response_qpack_error ext lim fs q he⟩
    · right; left
      by_cases ht : e = .tooLarge
      · subst ht; rw [(hm.2.1 rfl).2]
      · rw [(hm.2.2.1 hq ht).2]
  · cases h

/-! ## 5. trailers -/

/-- `trailers_only_wellformed`: trailers reach the request / response only from a HEADERS frame within
    the limit whose section has no pseudo-header field, only lower-case token names, no forbidden value
    byte, no connection-specific or trailer-forbidden name, and a decoded size within the limit. -/
theorem trailers_only_wellformed (ext : List Nat → Bool) (lim tenc : Int) (hlim : 0 ≤ lim) (tfs : List Field) (hd : Headers)
    (h : decodeTrailers ext lim tenc tfs = some hd) : tenc ≤ lim ∧ TrailersWellFormed lim tfs := by
  unfold decodeTrailers at h
  split at h
  · cases h
  rename_i henc
  split at h
  · cases h
  · rename_i h' hp
    exact ⟨by omega, (Uquic.Props.C19.trailers_sound ext lim hlim tfs false h' hp).1⟩

/-- a body whose trailer section is malformed or over the limit fails the read and hands over nothing -/
theorem bad_trailers_fail_the_read (ext : List Nat → Bool) (lim tenc : Int) (hlim : 0 ≤ lim) (tfs : List Field) (dlen : Option Nat)
    (hbad : tenc > lim ∨ ¬ TrailersWellFormed lim tfs) :
    (readBody ext lim dlen (some (tenc, tfs))).failed = true ∧ (readBody ext lim dlen (some (tenc, tfs))).trailers = [] := by
  unfold readBody
  simp only []
  cases hd : decodeTrailers ext lim tenc tfs with
  | none => simp
  | some h =>
    obtain ⟨h1, h2⟩ := trailers_only_wellformed ext lim tenc hlim tfs h hd
    rcases hbad with hb | hb
    · omega
    · exact absurd h2 hb

/-! ## 6. the request writer is shared by all requests of a connection -/

open Uquic.Model.H3.ReqLock in
/-- `own_fields_written`: under the code's discipline (the mutex is held from before encodeHeaders until
    after the header block has been written and the buffer reset) — and also under copy-then-unlock —
    EVERY schedule of any number of concurrent writeHeaders calls makes every finished call write the
    length of ITS OWN header block followed by ITS OWN header block. -/
theorem own_fields_written (d : Discipline) (hd : d = .holdLock ∨ d = .copyThenUnlock) (blocks : Nat → List Nat)
    (sched : List Nat) (i : Nat) (hdone : ((run d (init blocks) sched).w i).pc = 5) :
    ((run d (init blocks) sched).w i).out = expected (blocks i) :=
  Uquic.Proofs.ReqLock.finished_writes_own_block d hd blocks sched i hdone

open Uquic.Model.H3.ReqLock in
/-- the discipline matters: keeping a slice of the shared buffer and releasing the mutex before the
    writes lets a second request overwrite the first one's header block (request 0 announces 3 bytes
    and then sends request 1's block) -/
theorem alias_then_unlock_unsafe :
    ∃ sched, ((run .aliasThenUnlock (init fun i => if i = 0 then [1, 2, 3] else [7, 8, 9]) sched).w 0).pc = 5 ∧
      ((run .aliasThenUnlock (init fun i => if i = 0 then [1, 2, 3] else [7, 8, 9]) sched).w 0).out ≠ expected [1, 2, 3] :=
  ⟨[0, 0, 0, 1, 1, 1, 1, 1, 0, 0], by decide⟩

set_option maxRecDepth 8192 in
open Uquic.Model.H3.ReqLock in
/-- the scripted interleavings of the h3g driver are schedules of this model: whatever `at` values the
    driver picks for two requests (and for two sample choices with three), writer i emits block i -/
theorem forced_schedules_own_block :
    (∀ a0 ∈ [0, 1, 2], ∀ a1 ∈ [0, 1, 2], emittedBlocks 2 [a0, a1] = [0, 1]) ∧
    emittedBlocks 3 [0, 1, 0] = [0, 1, 2] ∧ emittedBlocks 3 [1, 0, 2] = [0, 1, 2] := by
  decide

end Uquic.Props.C19Glue
