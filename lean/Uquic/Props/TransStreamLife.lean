/-
Tie theorem, stream life cycle (property C15): the model's completion predicate of a receive stream,
`Uquic.Model.Streams.RHalf.isNewlyCompleted`, EQUALS the definition regenerated from
receive_stream.go `(ReceiveStream).isNewlyCompleted` by the source-to-Lean translator (gofacts/trans.go →
Uquic.Generated.TransStreamLife) on every run — both the returned bool and the value of the field
`completed` afterwards. Encoding: the model's `finalKnown` is `finalOffset ≠ protocol.MaxByteCount`.
A change of the ORDER of the checks in the source (which matters, see
`Uquic.Props.C15Life.swapped_checks_violate`) changes the generated definition and breaks this proof.
-/
import Uquic.Generated.TransStreamLife
import Uquic.Generated.Protocol
import Uquic.Model.Streams.Life

namespace Uquic.Props.TransStreamLife
open Uquic.Model.Streams
open Uquic.Gen.TransStreamLife

theorem ReceiveStream_isNewlyCompleted_model_is_source (h : RHalf) (finalOffset : Int)
    (hf : h.finalKnown = decide (finalOffset ≠ Uquic.Gen.Protocol.MaxByteCount)) :
    h.isNewlyCompleted.2 = ReceiveStream_isNewlyCompleted h.cancelledLocally h.completed h.errorRead finalOffset ∧
    h.isNewlyCompleted.1 =
      { h with completed := ReceiveStream_isNewlyCompleted_set_completed h.cancelledLocally h.completed h.errorRead finalOffset } := by
  obtain ⟨a, b, c, d, e, f⟩ := h
  simp only at hf
  unfold RHalf.isNewlyCompleted ReceiveStream_isNewlyCompleted ReceiveStream_isNewlyCompleted_set_completed
  by_cases hfo : finalOffset = 4611686018427387903
  · have ha : a = false := by rw [hf]; simp [hfo, Uquic.Gen.Protocol.MaxByteCount]
    subst ha
    cases d <;> cases e <;> cases f <;> simp [hfo]
  · have ha : a = true := by rw [hf]; simp [hfo, Uquic.Gen.Protocol.MaxByteCount]
    subst ha
    cases d <;> cases e <;> cases f <;> simp [hfo]

/-- the variant with the two checks swapped is NOT the source (it differs on a locally cancelled stream whose
    final size is unknown) -/
theorem swapped_is_not_source :
    (RHalf.isNewlyCompletedSwapped { cancelledLocally := true }).2 ≠
      ReceiveStream_isNewlyCompleted true false false Uquic.Gen.Protocol.MaxByteCount := by
  decide

end Uquic.Props.TransStreamLife
