/-
C15, round 5: "further credit is issued … only as streams FULLY COMPLETE", for the composition of the stream
objects' completion logic (ReceiveStream.isNewlyCompleted, Stream.checkIfCompleted), Conn.onStreamCompleted
and the incoming streams map.

The existing theorems (`Uquic.Props.C15.credit_only_on_completion`, `incoming_bounded`) say that credit is
issued only when a stream LEAVES the map, for arbitrary deletions. The theorems here say WHEN a stream leaves
the map of a real connection: only when the peer has finished it (FIN or RESET_STREAM handled), the
application has consumed the end or cancelled, and (bidirectional) its send half has completed — for every
interleaving of peer frames, application calls, send-half completions (an environment input, any moment) and
AcceptStream steps; hence the streams the peer can still send on never exceed the configured limit.
-/
import Uquic.Proofs.StreamsLife

set_option linter.unusedSimpArgs false
set_option linter.unusedVariables false

namespace Uquic.Props.C15Life
open Uquic.Model.Streams Uquic.Proofs.Streams

/-- **recv_half_completes_only_with_final_size.**  Over any sequence of STREAM frames (with or without FIN),
    RESET_STREAM frames, CancelRead and Read calls, a receive half reports completion at most once, and when
    it has completed the final size is known and the application has cancelled or read the end. -/
theorem recv_half_completes_only_with_final_size (ops : List ROp) :
    let r := runHalf {} ops
    (r.1.completed = true → r.1.finalKnown = true ∧ (r.1.cancelledLocally = true ∨ r.1.errorRead = true)) ∧
    r.2.count true ≤ 1 :=
  ⟨runHalf_inv ops {} hinv_fresh, runHalf_once ops {}⟩

example : (runHalf {} [.frame false, .cancelRead, .read, .frame true]).2 = [false, false, false, true] := by decide
example : (runHalf {} [.frame true, .read, .cancelRead, .reset]).2 = [false, true, false, false] := by decide

/-- **recv_half_never_completes_before_peer_finishes.**  Whatever the application does (CancelRead, Read, in any
    order, any number of times) and however much data arrives, as long as the peer has sent neither a FIN nor a
    RESET_STREAM the receive half does not report completion. -/
theorem recv_half_never_completes_before_peer_finishes (ops : List ROp)
    (hno : ∀ op ∈ ops, op ≠ .frame true ∧ op ≠ .reset) :
    (runHalf {} ops).1.finalKnown = false ∧ (runHalf {} ops).1.completed = false ∧ ∀ b ∈ (runHalf {} ops).2, b = false := by
  have gen : ∀ (ops : List ROp) (h : RHalf), HInv h → h.finalKnown = false →
      (∀ op ∈ ops, op ≠ .frame true ∧ op ≠ .reset) →
      (runHalf h ops).1.finalKnown = false ∧ ∀ b ∈ (runHalf h ops).2, b = false := by
    intro ops
    induction ops with
    | nil => intro h _ hf _; exact ⟨hf, by simp [runHalf]⟩
    | cons o os ih =>
      intro h hi hf hno
      have af := apply_facts h o
      have hno' := hno o (by simp)
      have hf' : (h.apply RHalf.isNewlyCompleted o).1.finalKnown = false := by
        cases hx : (h.apply RHalf.isNewlyCompleted o).1.finalKnown with
        | false => rfl
        | true =>
          rcases af.finalBy hx with h1 | h1 | h1
          · rw [hf] at h1; cases h1
          · exact absurd h1 hno'.1
          · exact absurd h1 hno'.2
      have hfire : (h.apply RHalf.isNewlyCompleted o).2.1 = false := by
        cases hx : (h.apply RHalf.isNewlyCompleted o).2.1 with
        | false => rfl
        | true =>
          have := (af.inv hi) (af.fire hx).2
          rw [hf'] at this; cases this.1
      obtain ⟨r1, r2⟩ := ih _ (af.inv hi) hf' (fun op hop => hno op (by simp [hop]))
      refine ⟨r1, ?_⟩
      intro b hb
      simp only [runHalf, List.mem_cons] at hb
      rcases hb with hb | hb
      · rw [hb]; exact hfire
      · exact r2 b hb
  obtain ⟨g1, g2⟩ := gen ops {} hinv_fresh rfl hno
  refine ⟨g1, ?_, g2⟩
  cases hc : (runHalf {} ops).1.completed with
  | false => rfl
  | true =>
    have := (runHalf_inv ops {} hinv_fresh) hc
    rw [g1] at this; cases this.1

/-- the state of a connection's incoming streams of type `t` after a history -/
abbrev after (t : STyp) (p : Persp) (n : Int) (ops : List LOp) : LifeInc :=
  ((LifeInc.new t n p).run RHalf.isNewlyCompleted ops).1

/-- **removed_streams_are_fully_complete.**  After any history (peer frames with arbitrary ids of this map's
    class, application calls on any opened stream at any time, send-half completions at any time,
    AcceptStream steps of any number of callers, CloseWithError), every stream the peer has opened is still live
    in the streams map unless it is fully complete: its receive half has completed — so its final size is known
    and the application has cancelled or consumed the end — and, if bidirectional, both halves have reported
    completion. Together with `Uquic.Props.C15.credit_only_on_completion` (MAX_STREAMS is queued only when a
    stream leaves the map): credit is issued only as streams fully complete. -/
theorem removed_streams_are_fully_complete (t : STyp) (p : Persp) (n : Int) (hn : 0 ≤ n) (ops : List LOp)
    (hw : ∀ op ∈ ops, op.wf (firstIncoming t p)) :
    let s := after t p n ops
    s.inc.dead = false → ∀ j : Nat, firstIncoming t p + 4 * (j : Int) < s.inc.nextOpen →
      lookup s.inc.streams (firstIncoming t p + 4 * (j : Int)) ≠ some false →
      let k := firstIncoming t p + 4 * (j : Int)
      (s.core.half k).completed = true ∧ (s.core.half k).finalKnown = true ∧
      ((s.core.half k).cancelledLocally = true ∨ (s.core.half k).errorRead = true) ∧
      (typeOf k = .bidi → s.core.sendDone k = true ∧ s.core.recvDone k = true) := by
  intro s hd j hj hl k
  have hfr := firstIncoming_range t p
  have inv := lrun_inv _ hfr.1 hfr.2 ops _ (linv_new t p n hn) hw
  rcases inv.live hd j hj with h | h
  · exact absurd h hl
  · have hh := inv.core.half k h.1
    exact ⟨h.1, hh.1, hh.2, h.2⟩

/-- **unfinished_streams_stay_in_map.**  A stream on which the peer has not yet sent FIN or RESET_STREAM (its final
    size is unknown to the receiver) still occupies its slot in the streams map, whatever the application did
    with it (CancelRead included). -/
theorem unfinished_streams_stay_in_map (t : STyp) (p : Persp) (n : Int) (hn : 0 ≤ n) (ops : List LOp)
    (hw : ∀ op ∈ ops, op.wf (firstIncoming t p)) :
    let s := after t p n ops
    s.inc.dead = false → ∀ j : Nat, firstIncoming t p + 4 * (j : Int) < s.inc.nextOpen →
      (s.core.half (firstIncoming t p + 4 * (j : Int))).finalKnown = false →
      lookup s.inc.streams (firstIncoming t p + 4 * (j : Int)) = some false := by
  intro s hd j hj hf
  cases hl : lookup s.inc.streams (firstIncoming t p + 4 * (j : Int)) with
  | some b =>
    cases b with
    | false => rfl
    | true =>
      have := (removed_streams_are_fully_complete t p n hn ops hw hd j hj (by rw [hl]; simp)).2.1
      rw [hf] at this; cases this
  | none =>
    have := (removed_streams_are_fully_complete t p n hn ops hw hd j hj (by rw [hl]; simp)).2.1
    rw [hf] at this; cases this

/-- **peer_open_streams_bounded.**  The statement of the property: after any history, the streams of the peer on which
    it can still send (opened, final size not yet known — in any number `L` of distinct ones) plus the credit
    still outstanding never exceed the configured limit `n`. -/
theorem peer_open_streams_bounded (t : STyp) (p : Persp) (n : Int) (hn : 0 ≤ n) (ops : List LOp)
    (hw : ∀ op ∈ ops, op.wf (firstIncoming t p)) :
    let s := after t p n ops
    s.inc.dead = false → ∀ L : List SID, L.Nodup →
      (∀ k ∈ L, (∃ j : Nat, k = firstIncoming t p + 4 * (j : Int)) ∧ k < s.inc.nextOpen ∧
        (s.core.half k).finalKnown = false) →
      (L.length : Int) + (s.inc.maxStream + 4 - s.inc.nextOpen) / 4 ≤ n := by
  intro s hd L hnd hL
  have hfr := firstIncoming_range t p
  have inv : LInv (firstIncoming t p) s := lrun_inv _ hfr.1 hfr.2 ops _ (linv_new t p n hn) hw
  have hmn : s.inc.maxNum = n := lrun_maxNum _ hfr.1 hfr.2 ops _ (linv_new t p n hn) hw
  have hstay : ∀ j : Nat, firstIncoming t p + 4 * (j : Int) < s.inc.nextOpen →
      (s.core.half (firstIncoming t p + 4 * (j : Int))).finalKnown = false →
      lookup s.inc.streams (firstIncoming t p + 4 * (j : Int)) = some false :=
    fun j => unfinished_streams_stay_in_map t p n hn ops hw hd j
  clear_value s
  have hsub : ∀ k ∈ L, k ∈ keys s.inc.streams := by
    intro k hk
    obtain ⟨⟨j, rfl⟩, h1, h2⟩ := hL k hk
    have := hstay j h1 h2
    exact (lookup_isSome_iff _ _).mp (by rw [this]; rfl)
  have hlen := nodup_sub_keys_length L s.inc.streams hnd hsub
  rcases inv.inc with h | ⟨o, a, h⟩
  · rw [hd] at h; cases h
  · have hopen := h.hopen
    rcases h.credit with ⟨h1, h2, h3, h4⟩ | ⟨c, h1, h2, h3, h4⟩
    · have hl0 : L.length = 0 := by rw [h4] at hlen; simpa using hlen
      omega
    · omega

example :
    let s := after .uni .server 1 [.peer 2 .data, .inner (.accCall 1), .inner (.accLocked 1), .app 2 true]
    lookup s.inc.streams 2 = some false ∧ (s.core.half 2).cancelledLocally = true ∧ s.inc.maxStream = 2 := by
  decide

example :
    let s := after .uni .server 1 [.peer 2 .data, .inner (.accCall 1), .inner (.accLocked 1), .app 2 true, .peer 2 .fin]
    lookup s.inc.streams 2 = none ∧ s.inc.maxStream = 6 := by
  decide

/-- **swapped_checks_violate.**  The statement depends on the ORDER of the checks in `isNewlyCompleted`: with "cancelled
    locally" tested before "final offset known", a CancelRead on a stream the peer has not finished removes it
    from the map and issues credit at once — the peer may then hold two open streams under a limit of one. -/
theorem swapped_checks_violate :
    ∃ ops : List LOp, (∀ op ∈ ops, op.wf (firstIncoming .uni .server)) ∧
      let s := ((LifeInc.new .uni 1 .server).run RHalf.isNewlyCompletedSwapped ops).1
      s.inc.dead = false ∧ 2 < s.inc.nextOpen ∧ (s.core.half 2).finalKnown = false ∧
      lookup s.inc.streams 2 = none ∧ s.inc.maxStream = 6 :=
  ⟨[.peer 2 .data, .inner (.accCall 1), .inner (.accLocked 1), .app 2 true],
   by
     intro op hop
     simp only [List.mem_cons, List.mem_nil_iff, or_false] at hop
     rcases hop with rfl | rfl | rfl | rfl
     · exact ⟨0, by decide⟩
     · trivial
     · trivial
     · exact ⟨0, by decide⟩,
   by decide⟩

end Uquic.Props.C15Life
