/-
Property C16, continued — "… and a retired or foreign ID never reaches the connection": the way of a DATAGRAM.

`Props.C16.routing_exact` is a statement about the transport's handler map: a connection ID is routed to the connection
iff the generator still answers for it. But the transport routes a whole UDP datagram by ONE connection ID - that of its
first packet - and the connection then walks through every QUIC packet coalesced into the datagram
(`Conn.handleOnePacket`, connection.go). A packet addressed to a retired or foreign connection ID that rides behind a
packet with a valid one is kept away from the connection only by the check in that loop.

Model: `Model.ConnID.Receive` (`routeID` = which ID `Transport.handlePacket` routes by; `rxLoop` = the loop of
`handleOnePacket` with `lastConnID`, the drop rules of `handleLongHeaderPacket`; the unpacker's keys as environment).
Theorems, for EVERY datagram (any number of packets, any mix of long and short headers, truncated headers, other
versions, any connection IDs, any connection ID length incl. zero) and every state of the connection:

* `coalesced_same_id`                    every packet handed to the unpacker carries the connection ID the datagram was routed by;
* `reaches_only_routed`                  … hence one the handler map routes to this connection;
* `retired_or_foreign_never_reaches`     composed with `routing_exact`: after ANY history of the connection's generator
                                         (issuing, RETIRE_CONNECTION_ID, handshake completion, expiry sweeps) every packet of
                                         every datagram that reaches the unpacker is addressed to an issued, unexpired ID;
* `unrouted_datagram_reaches_nothing`    a datagram routed elsewhere (foreign / unknown / unparsable ID) reaches nothing;
* `short_header_ends_datagram`           at most one short header packet is processed, and it is the last one;
* `long_only_check_leaks`                kernel-checked witness that the model tells the code from the tempting
                                         'de-duplication' (compare the ID only where a long header was parsed anyway):
                                         there a 1-RTT packet for a foreign ID behind a valid Handshake packet is processed.

Tie to the code: driver `cidrx` (real Transport.handlePacket -> Conn.handlePacket -> handlePackets -> handleOnePacket ->
handleLong/ShortHeaderPacket on real client, spec-driven client and server connections; the unpacker is a recorder)
with the monitors of `Spec.CidRxMon`.
-/
import Uquic.Props.C16
import Uquic.Proofs.ConnIDReceive

namespace Uquic.Props.C16Rx
open Uquic.Model.ConnID Uquic.Proofs.ConnID Uquic.Proofs.ConnIDReceive

/-- Every packet of a datagram that is handed to the unpacker carries the connection ID the transport routed the
    datagram by (the destination connection ID of its first packet). -/
theorem coalesced_same_id (c : RxConn) (pkts : List Pkt) (id : Bytes) (hr : routeID c.idLen pkts = some id) :
    ∀ s ∈ (c.datagram pkts).2, s.dcid = id := by
  intro s hs
  cases pkts with
  | nil => simp [routeID] at hr
  | cons p rest =>
    simp only [routeID] at hr
    unfold RxConn.datagram rxLoop at hs
    simp only [gt_iff_lt, Nat.lt_irrefl, false_and, ↓reduceIte] at hs
    split at hs
    · rename_i hlong
      have hd : p.dcid = id := by
        unfold wireDcid at hr
        simp [hlong] at hr
        exact hr.2
      split at hs
      · simp at hs
      · simp only [List.mem_append] at hs
        rcases hs with hs | hs
        · split at hs
          · simp at hs; rw [hs]; exact hd
          · simp at hs
        · have := rxLoop_same rest (c.longPacket p).1 1 p.dcid (by omega) s hs
          rw [this]; exact hd
    · rw [hr] at hs
      simp at hs
      rw [hs]

/-- what reaches the unpacker of connection 0 when a datagram arrives at a transport with handler map `r`
    (`Transport.handlePacket` hands the datagram to the handler of `routeID`; the transport and the connection read
    short header connection IDs with the same length, the connection's `srcConnIDLen`) -/
def receive (r : Routing) (c : RxConn) (pkts : List Pkt) : List Seen :=
  match routeID c.idLen pkts with
  | none => []
  | some id => if (r.deliver id).2 = Delivery.conn 0 then (c.datagram pkts).2 else []

/-- Everything that reaches the connection is addressed to a connection ID the handler map routes to it. -/
theorem reaches_only_routed (r : Routing) (c : RxConn) (pkts : List Pkt) :
    ∀ s ∈ receive r c pkts, (r.deliver s.dcid).2 = Delivery.conn 0 := by
  intro s hs
  unfold receive at hs
  split at hs
  · simp at hs
  · rename_i id hid
    split at hs
    · rename_i hd
      rw [coalesced_same_id c pkts id hid s hs]; exact hd
    · simp at hs

/-- A datagram whose first packet is addressed to a connection ID that the handler map does not route to the
    connection (another connection's, unknown, retired and expired, unparsable) reaches nothing of it - whatever is
    coalesced behind. -/
theorem unrouted_datagram_reaches_nothing (r : Routing) (c : RxConn) (pkts : List Pkt)
    (h : ∀ id, routeID c.idLen pkts = some id → (r.deliver id).2 ≠ Delivery.conn 0) :
    receive r c pkts = [] := by
  unfold receive
  split
  · rfl
  · rename_i id hid
    simp [h id hid]

/-- A retired (and expired) or foreign connection ID never reaches the connection: after any history of the
    connection's generator - connection IDs issued up to the peer's limit, RETIRE_CONNECTION_ID frames, handshake
    completion, sweeps of expired IDs - EVERY packet of EVERY datagram (any packets, coalesced in any way) that is
    handed to the connection's unpacker is addressed to a connection ID the generator still answers for. -/
theorem retired_or_foreign_never_reaches (mk : Nat → Bytes) (idLen : Nat) (initial : Bytes) (cd : Option Bytes)
    (hne : cd ≠ some initial) (hf : FreshGen mk (initial :: cd.toList)) (ops : List GOp) (c : RxConn) (pkts : List Pkt) :
    let s := runSys mk (Generator.new idLen initial cd) (Uquic.Props.C16.initialRouting initial cd) ops
    ∀ x ∈ receive s.2 c pkts, x.dcid ∈ s.1.allIDs := by
  intro s x hx
  exact (Uquic.Props.C16.routing_exact mk idLen initial cd hne hf ops x.dcid).mp (reaches_only_routed s.2 c pkts x hx)

/-- A short header packet ends the datagram: at most one is processed and nothing is processed after it. -/
theorem short_header_ends_datagram (c : RxConn) (pkts : List Pkt) :
    (shorts (c.datagram pkts).2).length ≤ 1 ∧
    ∀ s ∈ (c.datagram pkts).2, s.long = false → (c.datagram pkts).2.getLast? = some s :=
  rxLoop_short_last pkts c 0 []

/-- The model tells the code from the 'de-duplicated' check (compare the connection ID only where a long header was
    parsed anyway): there, a 1-RTT packet addressed to a foreign connection ID that rides behind a valid Handshake
    packet is handed to the unpacker - for the faithful loop it is not. -/
theorem long_only_check_leaks :
    let c : RxConn := { idLen := 4, server := false, hsDest := [9] }
    let pkts : List Pkt := [{ long := true, typ := 2, dcid := [1, 2, 3, 4], scid := [9] },
                            { long := false, dcid := [0xf0, 0x0f, 0xf0, 0x0f, 0xee, 0xee] }]
    routeID c.idLen pkts = some [1, 2, 3, 4] ∧
    (rxLoopLongOnly c pkts 0 []).2 = [⟨true, 2, [1, 2, 3, 4]⟩, ⟨false, 0, [0xf0, 0x0f, 0xf0, 0x0f]⟩] ∧
    (c.datagram pkts).2 = [⟨true, 2, [1, 2, 3, 4]⟩] := by decide

/-! ## the hypotheses are satisfiable, the statements are not vacuous -/

/-- a server connection, limit 4, sequence number 1 retired and expired: a datagram for the live ID 130 with a valid
    coalesced Handshake packet, a 0-RTT packet, and a 1-RTT packet for the expired ID 128 behind them -/
example :
    let mk : Nat → Bytes := fun k => [128 + k]
    let s := runSys mk (Generator.new 1 [1] (some [2])) (Uquic.Props.C16.initialRouting [1] (some [2]))
      [.setMax 4, .retire 1 [7] 50, .removeRetired 60]
    let c : RxConn := { idLen := 1, server := true, hsDest := [9] }
    s.1.allIDs = [[2], [1], [129], [130], [131]] ∧
    receive s.2 c [{ long := true, typ := 0, dcid := [130], scid := [9] }, { long := true, typ := 2, dcid := [130], scid := [9] },
                   { long := true, typ := 1, dcid := [130], scid := [9] }, { long := false, dcid := [128, 0xee] }]
      = [⟨true, 0, [130]⟩, ⟨true, 2, [130]⟩, ⟨true, 1, [130]⟩] ∧
    receive s.2 c [{ long := false, dcid := [128, 0xee] }] = [] ∧
    receive s.2 c [{ long := true, typ := 2, dcid := [131], scid := [9] }, { long := false, dcid := [131, 0xee] }]
      = [⟨true, 2, [131]⟩, ⟨false, 0, [131]⟩] := by decide

end Uquic.Props.C16Rx
