import Uquic.Proofs.ConnIdle
/-!
C01 (round 4) — the idle period of RFC 9000 10.1, the safety core of "transfers complete while the path is never dead
for longer than the idle timeout": an endpoint restarts its idle timer when it receives a packet AND when it sends the
first ack-eliciting packet after that. Over ALL histories of receive / send events of the model
`Uquic.Model.Conn.Idle` (tied to the real `Conn` by the `cidle` driver):

* `idle_restarts_on_any_receive`            — every received packet (ack-eliciting or not) restarts the idle period;
* `idle_restarts_on_first_ack_eliciting_send` — after a receive followed by anything that is not ack-eliciting (e.g. an
  ACK-only tail and a silence), the first ack-eliciting send restarts the idle period at ITS send time, and nothing sent
  afterwards moves it;
* `idle_quiet_after_receive`                — without such a send the period still starts at the last receive;
* `send_after_silence_survives_outage`      — consequently the deadline armed by `maybeResetTimer` (model
  `Conn.Timer.nextIdle`) is at least `idleTimeout` after that send, however long ago the last packet was received;
* `idle_start_is_last_activity`             — the start is never earlier than the last receive and never later than
  the latest event.
-/
namespace Uquic.Props.C01Idle
open Uquic.Model.Conn Uquic.Model.Conn.Idle Uquic.Proofs.ConnIdle

/-- every received packet restarts the idle period, whatever it carried and whatever was sent before -/
theorem idle_restarts_on_any_receive (s : St) (t : Int) :
    idleStart (step s (.recv t)) = t ∧ (step s (.recv t)).firstAE = none := by
  simp [step, idleStart]

/-- RFC 9000 10.1 over whole histories: after a receive at `tr`, any number of non-ack-eliciting sends (an ACK-only
    tail, a silence), the FIRST ack-eliciting send at `t ≥ tr` restarts the idle period at `t`; later sends do not. -/
theorem idle_restarts_on_first_ack_eliciting_send (s0 : St) (pre mid post : List Op) (tr t : Int)
    (hmid : ∀ op ∈ mid, op.isRecv = false ∧ op.isAESent = false)
    (hpost : ∀ op ∈ post, op.isRecv = false) (hle : tr ≤ t) :
    idleStart (run s0 (pre ++ [.recv tr] ++ mid ++ [.sent t true] ++ post)) = t := by
  rw [run_append, run_append, run_append, run_append]
  have h1 : run (run s0 pre) [.recv tr] = { lastRecv := tr, firstAE := none } := by simp [run, step]
  rw [h1, run_inert _ mid hmid]
  have h2 : run ({ lastRecv := tr, firstAE := none } : St) [.sent t true] = { lastRecv := tr, firstAE := some t } := by
    simp [run, step]
  rw [h2, run_no_recv _ post t rfl hpost]
  simp only [idleStart]
  split <;> omega

/-- without an ack-eliciting send the idle period starts at the last receive -/
theorem idle_quiet_after_receive (s0 : St) (pre post : List Op) (tr : Int)
    (hpost : ∀ op ∈ post, op.isRecv = false ∧ op.isAESent = false) :
    idleStart (run s0 (pre ++ [.recv tr] ++ post)) = tr := by
  rw [run_append, run_append]
  have h1 : run (run s0 pre) [.recv tr] = { lastRecv := tr, firstAE := none } := by simp [run, step]
  rw [h1, run_inert _ post hpost]
  rfl

/-- the armed idle deadline is at least `idleTimeout` after the first ack-eliciting send that follows a receive — no
    matter how long before that send the last packet was received (the silence does not count against the outage) -/
theorem send_after_silence_survives_outage (s0 : St) (pre mid post : List Op) (tr t : Int) (i : Timer.Input)
    (hmid : ∀ op ∈ mid, op.isRecv = false ∧ op.isAESent = false)
    (hpost : ∀ op ∈ post, op.isRecv = false) (hle : tr ≤ t) :
    t + i.idleTimeout ≤ Timer.nextIdle (toTimer (run s0 (pre ++ [.recv tr] ++ mid ++ [.sent t true] ++ post)) i) := by
  have h := idle_restarts_on_first_ack_eliciting_send s0 pre mid post tr t hmid hpost hle
  unfold Timer.nextIdle
  rw [idleStart_toTimer, h]
  have : (toTimer (run s0 (pre ++ [.recv tr] ++ mid ++ [.sent t true] ++ post)) i).idleTimeout = i.idleTimeout := rfl
  rw [this]
  have : i.idleTimeout ≤ max i.idleTimeout ((toTimer (run s0 (pre ++ [.recv tr] ++ mid ++ [.sent t true] ++ post)) i).pto * 3) :=
    Int.le_max_left _ _
  omega

/-- the hypotheses are satisfiable: an upload whose tail is ACK-only, 7 s of silence, a write, probes -/
example : idleStart (run { lastRecv := 0, firstAE := none }
    ([.sent 10 true, .recv 30] ++ [.recv 1000] ++ [.sent 1001 false] ++ [.sent 8000 true] ++ [.sent 8100 true, .sent 8300 true])) = 8000 := by
  decide

/-- all events of a history happen at or before `now`, in order -/
def Timed (now : Int) : List Op → Prop
  | [] => True
  | op :: rest => op.time ≤ now ∧ Timed now rest

/-- the idle period never starts before the last receive, and never after the latest event -/
theorem idle_start_is_last_activity (s : St) (ops : List Op) (now : Int)
    (h0 : s.lastRecv ≤ now ∧ ∀ t, s.firstAE = some t → t ≤ now) (h : Timed now ops) :
    (run s ops).lastRecv ≤ idleStart (run s ops) ∧ idleStart (run s ops) ≤ now := by
  induction ops generalizing s with
  | nil =>
    simp only [run, List.foldl_nil, idleStart]
    cases hf : s.firstAE with
    | none => simp; exact h0.1
    | some t => have := h0.2 t hf; simp; split <;> omega
  | cons op rest ih =>
    have hrun : run s (op :: rest) = run (step s op) rest := rfl
    rw [hrun]
    apply ih (step s op) _ h.2
    have ht := h.1
    cases op with
    | recv t => simp [step]; exact ht
    | sent t ae =>
      simp only [step]
      split
      · refine ⟨h0.1, ?_⟩
        intro t' ht'
        simp at ht'
        simp [Op.time] at ht
        omega
      · exact h0

end Uquic.Props.C01Idle
