/-
C05, round 4 — the glue around the packet-number codec and the key-update gate:

* `uSentPacketHandler.PeekPacketNumber` (uQUIC): only INITIAL packets may carry a pinned packet number
  length; at every other encryption level the length is the standard one, so the peer recovers the number
  (composition with `Uquic.Props.C05.pn_roundtrip_sender`).
* `sentPacketHandler.ReceivedAck` / `Conn.handleAckFrame`: a client confirms the handshake (drops keys,
  opens the key-update gate) only on HANDSHAKE_DONE or when an ACK newly acknowledges a packet that was
  SENT at the 1-RTT level — never because of acknowledged 0-RTT packets, although those live in the same
  packet number space and are acknowledged in 1-RTT packets (RFC 9001 §4.1.2, §6).

Property theorems only.
-/
import Uquic.Props.C05
import Uquic.Proofs.UAck
import Uquic.Spec.RetryKeysMon

namespace Uquic.Props.C05Glue
open Uquic.Model.PN Uquic.Model.PNSpace Uquic.Model.UAck Uquic.Proofs.UAck

/-! ## 1. which packets get a pinned packet number length -/

/-- `upeek_noninitial_standard`: whatever the spec pins (single value, per-packet list, base), at every
    level other than Initial `PeekPacketNumber` answers `PacketNumberLengthForHeader(pn, largestAcked)`. -/
theorem upeek_noninitial_standard (c : Pins) (l : Level) (hl : l ≠ Level.initial) (pn la : Int) :
    uPeekLen c l pn la = pnLenForHeader pn la := by
  unfold uPeekLen
  simp [hl]

example : uPeekLen { single := 1 } Level.oneRTT 300 (-1) = 2 := by decide
example : uPeekLen { list := [1, 1, 4], base := 1 } Level.handshake 2 (-1) = 2 := by decide

/-- `upeek_noninitial_roundtrip`: for EVERY spec, every non-Initial level, every packet number and every
    receiver state `L` between the sender's largest acknowledged number and half a window ahead of `pn`,
    the number written with the length the uQUIC handler chose decodes to `pn` (at most 2^31+1 packets in
    flight beyond the largest acknowledged one, as in `pn_roundtrip_sender`). -/
theorem upeek_noninitial_roundtrip (c : Pins) (l : Level) (hl : l ≠ Level.initial) (pn la L : Int)
    (hpn : 0 ≤ pn ∧ pn < 2 ^ 62) (hla : -1 ≤ la ∧ la < pn) (hflight : pn - la ≤ 2 ^ 31 + 1)
    (hL : la ≤ L) (hahead : L < pn + 2 ^ (8 * uPeekLen c l pn la) / 2 - 1) :
    decodePN (uPeekLen c l pn la) L (truncatePN (uPeekLen c l pn la) pn) = pn := by
  rw [upeek_noninitial_standard c l hl] at hahead ⊢
  exact Uquic.Props.C05.pn_roundtrip_sender pn la L hpn hla hflight hL hahead

example : decodePN (uPeekLen { single := 1 } Level.oneRTT 256 (-1)) (-1)
    (truncatePN (uPeekLen { single := 1 } Level.oneRTT 256 (-1)) 256) = 256 := by decide

/-- the guard is NEEDED: the 1-byte length every Chrome parrot pins for its Initial packets, used at
    another level, loses packet 256 when the peer has processed nothing newer than what it acknowledged
    (here: nothing) — although that situation satisfies every hypothesis of the round-trip theorem. -/
theorem pinned_length_outside_initial_breaks :
    let pn : Int := 256; let la : Int := -1; let L : Int := -1
    (0 ≤ pn ∧ pn < 2 ^ 62) ∧ (-1 ≤ la ∧ la < pn) ∧ pn - la ≤ 2 ^ 31 + 1 ∧ la ≤ L ∧ L < pn ∧
    decodePN 1 L (truncatePN 1 pn) ≠ pn := by
  decide

/-- Initial packets: a per-packet list is indexed from the base and its last entry repeats -/
theorem upeek_initial_list_entry (c : Pins) (i : Nat) (hi : i < c.list.length) (la : Int) :
    uPeekLen c Level.initial (c.base + (i : Int)) la = c.list.getD i 0 := by
  have hne : c.list ≠ [] := by
    intro h; rw [h] at hi; exact Nat.not_lt_zero _ hi
  unfold uPeekLen
  rw [clampIdx_in _ _ hi]
  simp [hne]

theorem upeek_initial_list_member (c : Pins) (hne : c.list ≠ []) (pn la : Int) :
    uPeekLen c Level.initial pn la ∈ c.list := by
  unfold uPeekLen
  simp only [hne, ne_eq, not_false_eq_true, and_self, ↓reduceIte]
  have hlt := clampIdx_lt c.list.length (List.length_pos_iff.mpr hne) (pn - c.base)
  rw [List.getD_eq_getElem?_getD, List.getElem?_eq_getElem hlt]
  exact List.getElem_mem hlt

/-- Initial packets, single-value pin (no list) -/
theorem upeek_initial_single (c : Pins) (hl : c.list = []) (hs : c.single ≠ 0) (pn la : Int) :
    uPeekLen c Level.initial pn la = c.single := by
  unfold uPeekLen
  simp [hl, hs]

/-- what `newUClientConnection` installs: the per-packet list wins over the single value, and is indexed from
    the packet number the flight really starts with -/
theorem pins_of_spec (rawPN single : Nat) (list : List Nat) :
    (list ≠ [] → (Pins.ofSpec rawPN single list).list = list ∧ (Pins.ofSpec rawPN single list).single = 0 ∧
                  (Pins.ofSpec rawPN single list).base = initialPN rawPN) ∧
    (list = [] → (Pins.ofSpec rawPN single list).list = [] ∧ (Pins.ofSpec rawPN single list).single = single) := by
  unfold Pins.ofSpec
  constructor
  · intro h
    have : list.isEmpty = false := by cases list <;> simp_all
    simp [this]
  · intro h
    simp [h]

/-- a pinned Initial packet number still round-trips inside the RFC 9000 A.3 window of its length (the
    first-flight packets meet it: C10) -/
theorem upeek_initial_roundtrip_in_window (c : Pins) (pn la L : Int)
    (hlen : 1 ≤ uPeekLen c Level.initial pn la ∧ uPeekLen c Level.initial pn la ≤ 4)
    (hpn : 0 ≤ pn ∧ pn < 2 ^ 62) (hL : -1 ≤ L)
    (hwin : L + 1 - 2 ^ (8 * uPeekLen c Level.initial pn la) / 2 < pn ∧
            pn ≤ L + 1 + 2 ^ (8 * uPeekLen c Level.initial pn la) / 2) :
    decodePN (uPeekLen c Level.initial pn la) L (truncatePN (uPeekLen c Level.initial pn la) pn) = pn :=
  Uquic.Props.C05.pn_roundtrip _ hlen pn L hpn hL hwin

example : uPeekLen (Pins.ofSpec 1 1 []) Level.initial 1 (-1) = 1 := by decide
example : uPeekLen (Pins.ofSpec 1 1 [1, 2, 4]) Level.initial 2 (-1) = 2 := by decide
example : uPeekLen (Pins.ofSpec 1 1 [1, 2, 4]) Level.initial 77 (-1) = 4 := by decide

/-! ## 2. handshake confirmation and the key-update gate -/

/-- `ack_1rtt_result_iff`: ReceivedAck reports an acknowledged 1-RTT packet exactly when the ACK frame covers
    an outstanding packet that was SENT at the 1-RTT level. -/
theorem ack_1rtt_result_iff (out : List (Int × Level)) (rs : Ranges) :
    acked1RTT (newlyAcked out rs) = true ↔ ∃ p ∈ out, inRanges rs p.1 = true ∧ p.2 = Level.oneRTT :=
  Uquic.Proofs.UAck.acked1RTT_iff out rs

/-- an ACK that covers only 0-RTT (or no) outstanding packets never yields the result, whatever the level
    of the packet that carried the ACK frame -/
theorem ack_of_0rtt_only_is_not_1rtt (out : List (Int × Level)) (rs : Ranges)
    (h : ∀ p ∈ out, inRanges rs p.1 = true → p.2 = Level.zeroRTT) :
    acked1RTT (newlyAcked out rs) = false := by
  cases hc : acked1RTT (newlyAcked out rs) with
  | false => rfl
  | true =>
    obtain ⟨p, hp, hr, hl⟩ := (ack_1rtt_result_iff out rs).1 hc
    have := h p hp hr
    rw [hl] at this
    cases this

example : acked1RTT (newlyAcked [(0, Level.zeroRTT), (1, Level.zeroRTT), (2, Level.oneRTT)] [(1, 0)]) = false := by decide
example : acked1RTT (newlyAcked [(0, Level.zeroRTT), (1, Level.zeroRTT), (2, Level.oneRTT)] [(2, 1)]) = true := by decide

/-- `confirmed_needs_1rtt_ack_or_done`: over ALL histories of a client's application-data space (packets
    sent at the 0-RTT and 1-RTT level, ACK frames with arbitrary ranges, arbitrary loss declarations,
    HANDSHAKE_DONE), the connection is confirmed only if HANDSHAKE_DONE arrived or some ACK frame covered
    a packet that had been sent BEFORE it at the 1-RTT level. -/
theorem confirmed_needs_1rtt_ack_or_done (evs : List Ev) (h : (({} : Conn).run evs).confirmed = true) :
    Ev.done ∈ evs ∨
    ∃ before after rs lost pn, evs = before ++ Ev.ack rs lost :: after ∧
      Ev.send pn Level.oneRTT ∈ before ∧ inRanges rs pn = true := by
  rcases run_confirmed evs {} [] (by intro p hp; cases hp) h with hc | hd | ⟨b, a, rs, lost, pn, heq, hs, hr⟩
  · cases hc
  · left; exact hd
  · right; exact ⟨b, a, rs, lost, pn, heq, by simpa using hs, hr⟩

example : (({} : Conn).run [Ev.send 0 Level.zeroRTT, Ev.send 1 Level.oneRTT, Ev.ack [(1, 1)] []]).confirmed = true := by decide

/-- `zero_rtt_acks_never_confirm`: as long as no packet was sent at the 1-RTT level and no HANDSHAKE_DONE
    arrived, no ACK frame — whatever it acknowledges — confirms the handshake. -/
theorem zero_rtt_acks_never_confirm (evs : List Ev)
    (hno1 : ∀ pn, Ev.send pn Level.oneRTT ∉ evs) (hnd : Ev.done ∉ evs) :
    (({} : Conn).run evs).confirmed = false := by
  cases hc : (({} : Conn).run evs).confirmed with
  | false => rfl
  | true =>
    rcases confirmed_needs_1rtt_ack_or_done evs hc with hd | ⟨b, a, rs, lost, pn, heq, hs, _⟩
    · exact absurd hd hnd
    · exact absurd (by rw [heq]; exact List.mem_append_left _ hs) (hno1 pn)

example : (({} : Conn).run [Ev.send 0 Level.zeroRTT, Ev.send 1 Level.zeroRTT, Ev.ack [(1, 0)] [],
    Ev.send 2 Level.zeroRTT, Ev.ack [(2, 2)] [0]]).confirmed = false := by decide

open Uquic.Model.KeyPhase in
/-- `key_update_needs_confirmation_event`: composition with `key_update_local` — when the 1-RTT AEAD's
    `handshakeConfirmed` flag is the connection's (`handleHandshakeConfirmed` sets both), a locally
    initiated key update happens only after HANDSHAKE_DONE or after an ACK covered a packet sent earlier
    at the 1-RTT level. -/
theorem key_update_needs_confirmation_event (a : KA) (e : Env) (evs : List Ev)
    (hgate : a.handshakeConfirmed = (({} : Conn).run evs).confirmed)
    (h : (a.keyPhaseBit e).1.keyPhase ≠ a.keyPhase) :
    Ev.done ∈ evs ∨
    ∃ before after rs lost pn, evs = before ++ Ev.ack rs lost :: after ∧
      Ev.send pn Level.oneRTT ∈ before ∧ inRanges rs pn = true := by
  have hk := (Uquic.Props.C05.key_update_local a e h).2.1
  rw [hgate] at hk
  exact confirmed_needs_1rtt_ack_or_done evs hk

/-! ## 3. which connection ID the Initial keys derive from (the observer's rule, RFC 9001 §5.2) -/

section InitialKeyCID
open Uquic.Spec.RetryKeysMon

/-- before any Retry: the Destination Connection ID of the client's first Initial -/
theorem key_cid_first_initial (d : Bytes) : (({} : Ghost).onClientInitial d).keyCID = d := rfl

/-- `key_cid_after_retry`: once the client answers a Retry — it sends an Initial whose Destination Connection
    ID is that Retry's Source Connection ID — the keys of both directions derive from the Retry's SCID,
    whatever happened before (several Retries, retransmissions of the original Initial). -/
theorem key_cid_after_retry (g : Ghost) (o r : Bytes) (ho : g.orig = some o) (hne : r ≠ o)
    (hr : r ∈ g.retrySCIDs) : (g.onClientInitial r).keyCID = r := by
  unfold Ghost.onClientInitial Ghost.keyCID
  rw [ho]
  have h1 : (r == o) = false := by simpa using hne
  simp [h1, hr]

/-- later Destination Connection IDs (the server's own connection ID, adopted from its first packet) do not
    change the keys -/
theorem key_cid_sticky (g : Ghost) (o d : Bytes) (ho : g.orig = some o) (hne : d ≠ o)
    (hr : d ∉ g.retrySCIDs) : (g.onClientInitial d).keyCID = g.keyCID := by
  unfold Ghost.onClientInitial Ghost.keyCID
  rw [ho]
  have h1 : (d == o) = false := by simpa using hne
  simp [h1, hr]

/-- over ALL wire histories that start with a client Initial: the key connection ID is always the original
    Destination Connection ID or the Source Connection ID of a Retry seen on the wire — never anything else -/
theorem key_cid_is_orig_or_retry (evs : List WireEv) : ∀ (g : Ghost) (o : Bytes), g.orig = some o →
    (g.cur = o ∨ g.cur ∈ g.retrySCIDs) →
    (g.after evs).orig = some o ∧ ((g.after evs).keyCID = o ∨ (g.after evs).keyCID ∈ (g.after evs).retrySCIDs) := by
  induction evs with
  | nil => intro g o ho hc; exact ⟨ho, hc⟩
  | cons e es ih =>
    intro g o ho hc
    cases e with
    | retry s =>
      apply ih (g.onRetry s) o ho
      rcases hc with hc | hc
      · left; exact hc
      · right; exact List.mem_append_left _ hc
    | clientInitial d =>
      have hstep : (g.onClientInitial d).orig = some o ∧
          ((g.onClientInitial d).cur = o ∨ (g.onClientInitial d).cur ∈ (g.onClientInitial d).retrySCIDs) := by
        unfold Ghost.onClientInitial
        rw [ho]
        by_cases h1 : (d == o) = true
        · simp [h1]
        · by_cases h2 : d ∈ g.retrySCIDs
          · simp [h1, h2]
          · have h1' : (d == o) = false := by simpa using h1
            simp only [h1', h2, Bool.false_eq_true, ↓reduceIte, List.contains_eq_mem, decide_false]
            exact ⟨ho, hc⟩
      exact ih (g.onClientInitial d) o hstep.1 hstep.2

example : ((({} : Ghost).after [.clientInitial [1], .retry [7], .clientInitial [1], .retry [8], .clientInitial [7],
    .clientInitial [9]]).keyCID) = [7] := by decide

end InitialKeyCID

end Uquic.Props.C05Glue
