import Uquic.Proofs.WireMoreTP3

/-! Transport parameters, round trip: the chain of segments for both perspectives. -/

namespace Uquic.Proofs.Wire
open Uquic.Model.Wire Uquic.Model.Wire.Varint Uquic.Model.Wire.TP

/-- the loop state after `unmarshal` has read what `Marshal(server)` wrote -/
