import Uquic.Props.C08
import Uquic.Props.C08More
#check Uquic.Props.C08More.tp_parse_marshal
