import Uquic.Props.C08More
open Uquic.Props.C08More
#print axioms tp_parse_marshal
#print axioms tp_ticket_parse_marshal
#print axioms retry_header_roundtrip
#print axioms parse_connection_id_stable
#print axioms parse_arbitrary_len_connection_ids_stable
#print axioms datagram_max_data_len_fits
#print axioms varint_read_eq_parse
#print axioms tp_marshal_length
#print axioms tp_grease_unknown
