import Uquic.Proofs.WireTP
open Uquic.Model.Wire Uquic.Model.Wire.Varint Uquic.Model.Wire.TP

example (sb fuel : Nat) (b : Bytes) (s : LoopSt) : unmarshalLoop sb (fuel + 1) b s = .ok s := by
  unfold unmarshalLoop
  trace_state
  sorry
