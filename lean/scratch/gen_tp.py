# one-off generator for the chain part of WireMoreTP4.lean
def stages(server):
    S=[]
    # (name, ids, f, o, i, proofterm)
    S.append(("grease","[g]","(fun q => q)","false","false","S_grease _ g gv _ _ hk hg"))
    for nm,idn,fld,rn,extra in [("1","idBidiLocal","initialMaxStreamDataBidiLocal","rn_bidiLocal",""),
                          ("2","idBidiRemote","initialMaxStreamDataBidiRemote","rn_bidiRemote",""),
                          ("3","idUni","initialMaxStreamDataUni","rn_uni",""),
                          ("4","idInitialMaxData","initialMaxData","rn_maxData",""),
                          ("5","idStreamsBidi","maxBidiStreamNum","rn_streamsBidi"," (by have := hv.bidi; omega)"),
                          ("6","idStreamsUni","maxUniStreamNum","rn_streamsUni"," (by have := hv.uni; omega)")]:
        S.append((nm,f"[{idn}]",f"(fun q => {{ q with {fld} := p.{fld} }})","false","false",
                  f"S_num _ {idn} p.{fld} _ _ FARG (by decide) h{nm} (fun rest q => {rn} _ rest (itemsFit_varintParam _ _ h{nm}).2{extra} q)"))
    S.append(("7","[idMaxIdleTimeout]","(fun q => { q with maxIdleTimeout := max minRemoteIdleTimeout (p.maxIdleTimeout / millisecond * millisecond) })","false","false",
              "S_num _ idMaxIdleTimeout (p.maxIdleTimeout / millisecond) _ _ FARG (by decide) h7 (fun rest q => rn_idle _ rest (itemsFit_varintParam _ _ h7).2 (by have := ht.idle; have := Nat.div_mul_le_self p.maxIdleTimeout millisecond; omega) q)"))
    S.append(("8","(if p.maxUDPPayloadSize > 0 then [idMaxUDPPayloadSize] else [])",
              "(fun q => { q with maxUDPPayloadSize := if p.maxUDPPayloadSize > 0 then p.maxUDPPayloadSize else q.maxUDPPayloadSize })","false","false",
              "S_numIf _ idMaxUDPPayloadSize p.maxUDPPayloadSize (p.maxUDPPayloadSize > 0) _ _ FARG (by decide) h8 (fun hc rest q => by rw [rn_udp _ rest (by simp only [if_pos hc] at h8; exact (itemsFit_varintParam _ _ h8).2) (by have := hv.udp; omega) q, if_pos hc]) (fun hc q => by show Params.mk .. = _; rw [if_neg hc])"))
    S.append(("9","(if p.maxAckDelay ≠ defaultMaxAckDelay then [idMaxAckDelay] else [])",
              "(fun q => { q with maxAckDelay := if p.maxAckDelay ≠ defaultMaxAckDelay then p.maxAckDelay / millisecond * millisecond else q.maxAckDelay })","false","false",
              "S_numIf _ idMaxAckDelay (p.maxAckDelay / millisecond) (p.maxAckDelay ≠ defaultMaxAckDelay) _ _ FARG (by decide) h9 (fun hc rest q => by rw [rn_ackDelay _ rest (by simp only [if_pos hc] at h9; exact (itemsFit_varintParam _ _ h9).2) (by have := hv.ackDelay; omega) q, if_pos hc]) (fun hc q => by show Params.mk .. = _; rw [if_neg hc])"))
    S.append(("10","(if p.ackDelayExponent ≠ TP.defaultAckDelayExponent then [idAckDelayExponent] else [])",
              "(fun q => { q with ackDelayExponent := if p.ackDelayExponent ≠ TP.defaultAckDelayExponent then p.ackDelayExponent else q.ackDelayExponent })","false","false",
              "S_numIf _ idAckDelayExponent p.ackDelayExponent (p.ackDelayExponent ≠ TP.defaultAckDelayExponent) _ _ FARG (by decide) h10 (fun hc rest q => by rw [rn_exponent _ rest (by simp only [if_pos hc] at h10; exact (itemsFit_varintParam _ _ h10).2) (by have := hv.exponent; omega) q, if_pos hc]) (fun hc q => by show Params.mk .. = _; rw [if_neg hc])"))
    S.append(("11","(if p.disableActiveMigration then [idDisableActiveMigration] else [])",
              "(fun q => { q with disableActiveMigration := p.disableActiveMigration || q.disableActiveMigration })","false","false",
              "S_dam _ p.disableActiveMigration _ _"))
    if server:
        S.append(("12a","(if p.srt.isSome then [idSRT] else [])","(fun q => { q with srt := match p.srt with | some t => some t | none => q.srt })","false","false",
                  "S_srt _ p.srt _ _ (by decide) ht.srt"))
        S.append(("12b","[idODCID]","(fun q => { q with odcid := p.odcid })","true","false","S_odcid _ p.odcid _ _ (by decide) ht.odcid"))
        S.append(("12c","(if p.preferredAddress.isSome then [idPreferredAddress] else [])",
                  "(fun q => { q with preferredAddress := match p.preferredAddress with | some pa => some (normPA pa) | none => q.preferredAddress })","false","false",
                  "S_pa _ p.preferredAddress _ _ (by decide) ht.pa (hv.paCID rfl)"))
    S.append(("13","(if p.activeConnectionIDLimit ≠ defaultActiveConnectionIDLimit then [idActiveConnectionIDLimit] else [])",
              "(fun q => { q with activeConnectionIDLimit := if p.activeConnectionIDLimit ≠ defaultActiveConnectionIDLimit then p.activeConnectionIDLimit else q.activeConnectionIDLimit })","false","false",
              "S_numIf _ idActiveConnectionIDLimit p.activeConnectionIDLimit (p.activeConnectionIDLimit ≠ defaultActiveConnectionIDLimit) _ _ FARG (by decide) h13 (fun hc rest q => by rw [rn_cidLimit _ rest (by simp only [if_pos hc] at h13; exact (itemsFit_varintParam _ _ h13).2) (by have := hv.cidLimit; omega) q, if_pos hc]) (fun hc q => by show Params.mk .. = _; rw [if_neg hc])"))
    S.append(("14","[idISCID]","(fun q => { q with iscid := p.iscid })","false","true","S_iscid _ p.iscid _ _ ht.iscid"))
    if server:
        S.append(("15","(if p.rscid.isSome then [idRSCID] else [])","(fun q => { q with rscid := match p.rscid with | some c => some c | none => q.rscid })","false","false",
                  "S_rscid _ p.rscid _ _ (by decide) ht.rscid"))
    S.append(("16","(if p.maxDatagramFrameSize.isSome then [idMaxDatagramFrameSize] else [])",
              "(fun q => { q with maxDatagramFrameSize := match p.maxDatagramFrameSize with | some v => some v | none => q.maxDatagramFrameSize })","false","false",
              "S_numOpt _ idMaxDatagramFrameSize p.maxDatagramFrameSize (fun v => v) _ _ FARG (by decide) h16 (fun v hc rest q => by rw [rn_datagram _ rest (by rw [hc] at h16; exact (itemsFit_varintParam _ _ h16).2) q, hc]) (fun hc q => by show Params.mk .. = _; rw [hc])"))
    S.append(("17","(if p.enableResetStreamAt then [idResetStreamAt] else [])",
              "(fun q => { q with enableResetStreamAt := p.enableResetStreamAt || q.enableResetStreamAt })","false","false",
              "S_rsa _ p.enableResetStreamAt _ _"))
    S.append(("18","(if p.minAckDelay.isSome then [idMinAckDelay] else [])",
              "(fun q => { q with minAckDelay := match p.minAckDelay with | some m => some (m / microsecond * microsecond) | none => q.minAckDelay })","false","false",
              "S_numOpt _ idMinAckDelay p.minAckDelay (fun m => m / microsecond) _ _ FARG (by decide) h18 (fun m hc rest q => by rw [rn_minAck _ rest (by rw [hc] at h18; exact (itemsFit_varintParam _ _ h18).2) (by have := ht.minAck; rw [hc] at this; have h2 : m < 2 ^ 63 := this; have := Nat.div_mul_le_self m microsecond; omega) q, hc]) (fun hc q => by show Params.mk .. = _; rw [hc])"))
    return S

def gen(server):
    S=stages(server)
    nm = "Server" if server else "Client"
    pers = "perspectiveServer" if server else "perspectiveClient"
    out=[]
    st="{ p := p0 }"
    lines=[]
    for (n,ids,f,o,i,pf) in S:
        st=f"(upd {st}\n      {ids}\n      {f} {o} {i})"
    out.append(f"/-- the loop state after `unmarshal` has read what `Marshal({'server' if server else 'client'})` wrote -/\ndef st{nm} (p : Params) (g : Nat) : LoopSt :=\n  {st}\n")
    # fits pattern
    pat="h1"
    for k in range(2,19):
        if k==12:
            if server: pat=f"⟨{pat}, ⟨⟨h12a, h12b⟩, h12c⟩⟩"
            else: pat=f"⟨{pat}, h12⟩"
        else:
            pat=f"⟨{pat}, h{k}⟩"
    ifs = "if_pos (rfl : perspectiveServer = perspectiveServer)" if server else "if_neg (by decide : ¬ perspectiveClient = perspectiveServer)"
    out.append(f"""theorem loop{nm} (p : Params) (g : Nat) (gv : Bytes) (hk : isKnownID g = false) (ht : Typed p) (hv : Valid p {pers})
    (hfit : itemsFit ([Item.v g, .v gv.length, .raw gv] ++ marshalItems p {pers}) = true) :
    L {pers} (itemsBytes ([Item.v g, .v gv.length, .raw gv] ++ marshalItems p {pers})) {{ p := p0 }} = .ok (st{nm} p g) := by
  rw [← List.append_nil (itemsBytes _)]
  unfold marshalItems at hfit ⊢
  simp only [{ifs}, itemsFit_append, Bool.and_eq_true, itemsFit_nil, if_true] at hfit
  obtain ⟨hg, {pat}⟩ := hfit
  simp only [{ifs}, itemsBytes_append, itemsBytes_nil, List.append_assoc, List.nil_append, if_true]""")
    for (n,ids,f,o,i,pf) in S:
        out.append(f"  refine ({pf.replace('FARG', f).replace(' _ ', ' PERS ', 1).replace('PERS', pers)}).trans ?_")
    out.append("  exact L_nil _ _\n")
    return "\n".join(out)
import sys
print(gen(True)); print(gen(False))

def gen_ticket():
    S=[]
    for nm,idn,fld,rn,extra in [("1","idBidiLocal","initialMaxStreamDataBidiLocal","rn_bidiLocal",""),
                          ("2","idBidiRemote","initialMaxStreamDataBidiRemote","rn_bidiRemote",""),
                          ("3","idUni","initialMaxStreamDataUni","rn_uni",""),
                          ("4","idInitialMaxData","initialMaxData","rn_maxData",""),
                          ("5","idStreamsBidi","maxBidiStreamNum","rn_streamsBidi"," (by have := hv.bidi; omega)"),
                          ("6","idStreamsUni","maxUniStreamNum","rn_streamsUni"," (by have := hv.uni; omega)"),
                          ("7","idActiveConnectionIDLimit","activeConnectionIDLimit","rn_cidLimit"," (by have := hv.cidLimit; omega)")]:
        f=f"(fun q => {{ q with {fld} := p.{fld} }})"
        S.append((nm,f"[{idn}]",f,"false","false",
                  f"S_num perspectiveServer {idn} p.{fld} _ _ {f} (by decide) h{nm} (fun rest q => {rn} _ rest (itemsFit_varintParam _ _ h{nm}).2{extra} q)"))
    f="(fun q => { q with maxDatagramFrameSize := match p.maxDatagramFrameSize with | some v => some v | none => q.maxDatagramFrameSize })"
    S.append(("8","(if p.maxDatagramFrameSize.isSome then [idMaxDatagramFrameSize] else [])",f,"false","false",
              f"S_numOpt perspectiveServer idMaxDatagramFrameSize p.maxDatagramFrameSize (fun v => v) _ _ {f} (by decide) h8 (fun v hc rest q => by rw [rn_datagram _ rest (by rw [hc] at h8; exact (itemsFit_varintParam _ _ h8).2) q, hc]) (fun hc q => by show Params.mk .. = _; rw [hc])"))
    S.append(("9","(if p.enableResetStreamAt then [idResetStreamAt] else [])",
              "(fun q => { q with enableResetStreamAt := p.enableResetStreamAt || q.enableResetStreamAt })","false","false",
              "S_rsa perspectiveServer p.enableResetStreamAt _ _"))
    st="{ p := p0 }"
    for (n,ids,f,o,i,pf) in S:
        st=f"(upd {st}\n      {ids}\n      {f} {o} {i})"
    out=[]
    out.append(f"/-- the loop state after `UnmarshalFromSessionTicket` has read what `MarshalForSessionTicket` wrote -/\ndef stTicket (p : Params) : LoopSt :=\n  {st}\n")
    pat="h1"
    for k in range(2,10): pat=f"⟨{pat}, h{k}⟩"
    out.append(f"""theorem loopTicket (p : Params) (hv : ValidTicket p)
    (hfit : itemsFit (ticketItems p) = true) :
    ∃ rest, itemsBytes (ticketItems p) = enc marshalingVersion ++ rest ∧
      L perspectiveServer rest {{ p := p0 }} = .ok (stTicket p) := by
  unfold ticketItems at hfit ⊢
  simp only [itemsFit_append, Bool.and_eq_true, itemsFit_nil, itemsFit_v] at hfit
  obtain ⟨⟨hver, _⟩, h9⟩ := hfit
  obtain ⟨{pat.replace('⟨h1, h2⟩','⟨⟨hver, h1⟩, h2⟩',1) if False else pat}⟩ := hver
  sorry""")
    return "\n".join(out), S
