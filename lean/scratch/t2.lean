import Uquic.Proofs.WireMoreTP4
namespace Uquic.Proofs.Wire
open Uquic.Model.Wire Uquic.Model.Wire.Varint Uquic.Model.Wire.TP

set_option maxHeartbeats 400000 in
example (p : Params) (g : Nat) : (stServer p g).p = p := by
  simp only [stServer, upd_p, p0]
  trace_state
  sorry
end Uquic.Proofs.Wire
