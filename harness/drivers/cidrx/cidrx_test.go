//go:build verif

// Package cidrx drives the REAL way of a UDP datagram from the transport's socket to the packet unpacker (property
// C16: "packets are routed to a connection for precisely its issued and not yet expired IDs … a retired or foreign
// ID never reaches the connection"):
//
//	Transport.handlePacket -> Conn.handlePacket -> Conn.handlePackets -> Conn.handleOnePacket
//	  -> handleLongHeaderPacket / handleShortHeaderPacket -> unpacker
//
// One case = one real Transport (routing tables only) and one real connection (client, spec-driven client or server,
// built by the real constructor with the transport's packetHandlerMap as its runner). The connection's own real
// connIDGenerator issues, retires and expires connection IDs in the real table; a second (foreign) connection owns
// other IDs. Datagrams of 1..4 coalesced packets are composed byte by byte; the unpacker is a recorder (hook
// verif_cidrx.go), so "reached the connection" = "the connection asked the unpacker to open the packet".
//
// ops:
//
//	new <client|uclient|server> <idlen> <hexinitial> <hexdest>
//	foreign <hexid>                          another connection registers this ID on the transport
//	limit <n> | retire <seq> <hexdst> <expiry> | hsdone <expiry> | expire <now> | removeall     (the connection's generator)
//	dgram <now> <pkt>/<pkt>/…                a datagram arrives
//	    pkt = L<typ>.<ver>.<hexdcid>.<hexscid>.<trunc>     long header: typ 0 Initial, 1 0-RTT, 2 Handshake; ver 0 = the
//	                                                        connection's, 1 = QUIC v2, 2 = unsupported; trunc 0 = complete,
//	                                                        1 = datagram ends after the DCID, 2 = inside the DCID,
//	                                                        3 = Length announces more bytes than the datagram has
//	        | S.<hex>                                       short header: the bytes after the first byte
//	    (packets behind a truncated or a short header packet are not part of the datagram)
//
// result: <ok|E:…|to=<conn|conn2|none> rx=<L<typ>:<dcid>|S:<dcid>>,… err=<->> | rt=<id>:<kind>/…
package cidrx

import (
	"encoding/hex"
	"errors"
	"fmt"
	"os"
	"runtime/debug"
	"strconv"
	"strings"
	"sync/atomic"
	"testing"
	"time"

	quic "github.com/refraction-networking/uquic"
	"github.com/refraction-networking/uquic/internal/qerr"
	"github.com/refraction-networking/uquic/internal/verifharness/vh"
)

type runner struct {
	v      *quic.VerifRx
	closed bool

	// generator of ops
	script  []string
	kind    string
	idLen   int
	now     int64
	limit   uint64
	highest uint64
	everConn [][]byte // every ID that was ever routed to the connection
	foreign  [][]byte
	scids    [][]byte
}

func hx(b []byte) string {
	if len(b) == 0 {
		return "-"
	}
	return hex.EncodeToString(b)
}

func unhx(s string) []byte {
	if s == "-" || s == "" {
		return []byte{}
	}
	b, err := hex.DecodeString(s)
	if err != nil {
		return []byte{}
	}
	return b
}

// mkID is the application's ConnectionIDGenerator used by the driver (and known to the model); as in driver cid.
func mkID(k, l int) []byte {
	b := make([]byte, l)
	for i := range b {
		if i == 0 {
			b[i] = byte((0x80 + k) % 256)
		} else {
			b[i] = byte((i*17 + k/128) % 256)
		}
	}
	return b
}

func fill(first byte, l int) []byte {
	b := make([]byte, l)
	for i := range b {
		b[i] = first + byte(i)
	}
	return b
}

var caseCounter atomic.Int64

func newRunner(r *vh.Rand) vh.Runner {
	rn := &runner{now: 1_000_000_000}
	c := int(caseCounter.Add(1)) - 1
	if s := scripts(); c < len(s) {
		rn.script = s[c]
	}
	return rn
}

func (rn *runner) Close() {
	if rn.v != nil {
		rn.v.Close()
	}
}

func errClass(err error) string {
	if err == nil {
		return "ok"
	}
	var te *qerr.TransportError
	if errors.As(err, &te) {
		if te.ErrorCode == qerr.ProtocolViolation {
			return "E:PROTOCOL_VIOLATION"
		}
		return "E:transport_other"
	}
	return "E:other"
}

func u64(s string) uint64 { n, _ := strconv.ParseUint(s, 10, 64); return n }

func contains(l [][]byte, x []byte) bool {
	for _, y := range l {
		if string(x) == string(y) {
			return true
		}
	}
	return false
}

func (rn *runner) routes() (connIDs [][]byte, s string) {
	ids, kinds := rn.v.Routes()
	var sb strings.Builder
	sb.WriteString(" | rt=")
	if len(ids) == 0 {
		sb.WriteString("none")
	}
	for i := range ids {
		if i > 0 {
			sb.WriteByte('/')
		}
		sb.WriteString(hx(ids[i]) + ":" + kinds[i])
		if kinds[i] == "conn" {
			connIDs = append(connIDs, ids[i])
			if !contains(rn.everConn, ids[i]) {
				rn.everConn = append(rn.everConn, ids[i])
			}
		}
	}
	return connIDs, sb.String()
}

func (rn *runner) suffix() string {
	_, s := rn.routes()
	return s
}

// ---------------------------------------------------------------- composing datagrams

type pkt struct {
	long       bool
	typ, ver   int
	dcid, scid []byte
	trunc      int
	raw        []byte // short: the bytes after the first byte
}

func parsePkt(s string) (p pkt, ok bool) {
	if strings.HasPrefix(s, "S.") {
		return pkt{raw: unhx(s[2:])}, true
	}
	if !strings.HasPrefix(s, "L") {
		return p, false
	}
	f := strings.Split(s[1:], ".")
	if len(f) != 5 {
		return p, false
	}
	p = pkt{long: true, typ: int(u64(f[0])), ver: int(u64(f[1])), dcid: unhx(f[2]), scid: unhx(f[3]), trunc: int(u64(f[4]))}
	if p.typ > 2 || p.ver > 2 || p.trunc > 3 || len(p.dcid) > 20 || len(p.scid) > 20 {
		return p, false
	}
	return p, true
}

func (p pkt) bytes() []byte {
	if !p.long {
		return append([]byte{0x40}, p.raw...)
	}
	var version []byte
	tb := byte(p.typ) // QUIC v1 type bits
	switch p.ver {
	case 0:
		version = []byte{0, 0, 0, 1}
	case 1:
		version = []byte{0x6b, 0x33, 0x43, 0xcf} // QUIC v2: Initial 1, 0-RTT 2, Handshake 3
		tb = byte(p.typ) + 1
	default:
		version = []byte{0x1a, 0x2a, 0x3a, 0x4a}
	}
	b := []byte{0xc0 | tb<<4}
	b = append(b, version...)
	b = append(b, byte(len(p.dcid)))
	switch p.trunc {
	case 2:
		if len(p.dcid) == 0 {
			return b[:5]
		}
		return append(b, p.dcid[:len(p.dcid)-1]...)
	}
	b = append(b, p.dcid...)
	if p.trunc == 1 {
		return b
	}
	b = append(b, byte(len(p.scid)))
	b = append(b, p.scid...)
	if p.typ == 0 {
		b = append(b, 0) // token length
	}
	b = append(b, 0x40, 20) // Length = 20: packet number (1 byte) + 19 bytes
	n := 20
	if p.trunc == 3 {
		n = 11
	}
	for i := 0; i < n; i++ {
		b = append(b, 0xee)
	}
	return b
}

// ---------------------------------------------------------------- Exec

func (rn *runner) Exec(op string) string {
	if os.Getenv("VH_DEBUG") != "" {
		defer func() {
			if e := recover(); e != nil {
				fmt.Fprintf(os.Stderr, "panic in %q: %v\n%s\n", op, e, debug.Stack())
				panic(e)
			}
		}()
	}
	w := strings.Fields(op)
	if len(w) == 0 {
		return "skip"
	}
	if w[0] == "new" {
		if rn.v != nil || len(w) < 5 {
			return "skip"
		}
		l := int(u64(w[2]))
		initial, dest := unhx(w[3]), unhx(w[4])
		if l > 20 || len(initial) != l || len(dest) > 20 || (w[1] == "server" && (l == 0 || len(dest) == 0 || string(dest) == string(initial))) {
			return "skip"
		}
		v, err := quic.VerifRxNew(w[1], l, initial, dest, mkID)
		if err != nil {
			return "skip"
		}
		rn.v = v
		return "ok" + rn.suffix()
	}
	if rn.v == nil {
		return "skip" // the shrinker removed the first line
	}
	switch w[0] {
	case "foreign":
		if len(w) < 2 {
			return "skip"
		}
		if rn.v.AddForeign(unhx(w[1])) {
			return "ok" + rn.suffix()
		}
		return "refused" + rn.suffix()
	case "limit":
		if len(w) < 2 || rn.closed {
			return "skip"
		}
		return errClass(rn.v.SetMaxActiveConnIDs(u64(w[1]))) + rn.suffix()
	case "retire":
		if len(w) < 4 || rn.closed {
			return "skip"
		}
		return errClass(rn.v.Retire(u64(w[1]), unhx(w[2]), int64(u64(w[3])))) + rn.suffix()
	case "hsdone":
		if len(w) < 2 || rn.closed {
			return "skip"
		}
		rn.v.SetHandshakeComplete(int64(u64(w[1])))
		return "ok" + rn.suffix()
	case "expire":
		if len(w) < 2 || rn.closed {
			return "skip"
		}
		rn.v.RemoveRetiredConnIDs(int64(u64(w[1])))
		return "ok" + rn.suffix()
	case "removeall":
		if rn.closed {
			return "skip"
		}
		rn.closed = true
		rn.v.RemoveAll()
		return "ok" + rn.suffix()
	case "dgram":
		if len(w) < 3 {
			return "skip"
		}
		var data []byte
		for _, s := range strings.Split(w[2], "/") {
			p, ok := parsePkt(s)
			if !ok {
				return "skip"
			}
			data = append(data, p.bytes()...)
			if !p.long || p.trunc != 0 {
				break
			}
		}
		if len(data) == 0 || len(data) > 1200 {
			return "skip"
		}
		stop := vh.Watchdog(op, 20*time.Second)
		to, seen, err := rn.v.Datagram(data, int64(u64(w[1])))
		stop()
		var parts []string
		for _, s := range seen {
			if s.Long {
				parts = append(parts, fmt.Sprintf("L%d:%s", s.Type, hx(s.DCID)))
			} else {
				parts = append(parts, "S:"+hx(s.DCID))
			}
		}
		rx := "none"
		if len(parts) > 0 {
			rx = strings.Join(parts, ",")
		}
		e := "-"
		if err != nil {
			e = strings.ReplaceAll(errClass(err), " ", "_")
		}
		return fmt.Sprintf("to=%s rx=%s err=%s", to, rx, e) + rn.suffix()
	}
	return "skip"
}

// ---------------------------------------------------------------- generator

func (rn *runner) otherLen() int {
	switch rn.idLen {
	case 0:
		return 4
	case 20:
		return 8
	}
	return rn.idLen + 1
}

// pickID: a destination connection ID of the given class:
// 0 routed to the connection now, 1 was routed to the connection once and is not any more (retired and expired),
// 2 of the foreign connection, 3 unknown (right length), 4 unknown (another length), 5 one byte changed
func (rn *runner) pickID(r *vh.Rand, class int, live [][]byte) []byte {
	switch class {
	case 0:
		if len(live) > 0 {
			return live[r.Intn(len(live))]
		}
	case 1:
		var gone [][]byte
		for _, id := range rn.everConn {
			if !contains(live, id) {
				gone = append(gone, id)
			}
		}
		if len(gone) > 0 {
			return gone[r.Intn(len(gone))]
		}
	case 2:
		if len(rn.foreign) > 0 {
			return rn.foreign[r.Intn(len(rn.foreign))]
		}
	case 4:
		return fill(byte(0x30+r.Intn(3)), rn.otherLen())
	case 5:
		if len(live) > 0 && rn.idLen > 0 {
			id := append([]byte{}, live[r.Intn(len(live))]...)
			id[r.Intn(len(id))] ^= byte(1 << r.Intn(8))
			return id
		}
	}
	return fill(byte(0x50+r.Intn(3)), rn.idLen)
}

func (rn *runner) fmtPkt(r *vh.Rand, long bool, dcid []byte, last bool) string {
	if !long {
		pay := 20
		if r.Chance(8) {
			pay = r.Intn(3)
		}
		raw := append([]byte{}, dcid...)
		if r.Chance(4) && len(raw) > 0 {
			raw = raw[:r.Intn(len(raw))] // a datagram that ends inside the connection ID
			pay = 0
		}
		for i := 0; i < pay; i++ {
			raw = append(raw, 0xee)
		}
		return "S." + hx(raw)
	}
	typ := []int{0, 0, 2, 2, 2, 1}[r.Intn(6)]
	ver := 0
	if r.Chance(6) {
		ver = 1 + r.Intn(2)
	}
	scid := rn.scids[0]
	if r.Chance(15) {
		scid = rn.scids[r.Intn(len(rn.scids))]
	}
	trunc := 0
	if last && r.Chance(8) {
		trunc = 1 + r.Intn(3)
	}
	return fmt.Sprintf("L%d.%d.%s.%s.%d", typ, ver, hx(dcid), hx(scid), trunc)
}

func (rn *runner) genDatagram(r *vh.Rand) string {
	live, _ := rn.routes()
	n := 1 + r.Pick(30, 40, 25, 5)
	firstClass := r.Pick(70, 8, 8, 6, 4, 4)
	first := rn.pickID(r, firstClass, live)
	var parts []string
	for i := 0; i < n; i++ {
		last := i == n-1
		long := !last || r.Chance(40)
		id := first
		if i > 0 && r.Chance(45) {
			id = rn.pickID(r, r.Pick(30, 20, 25, 10, 5, 10), live)
		}
		parts = append(parts, rn.fmtPkt(r, long, id, last))
	}
	rn.now += r.Range(0, 2_000_000)
	return fmt.Sprintf("dgram %d %s", rn.now, strings.Join(parts, "/"))
}

func (rn *runner) GenOp(r *vh.Rand, i int) string {
	if rn.script != nil {
		if i < len(rn.script) {
			return rn.script[i]
		}
		return ""
	}
	if i == 0 {
		rn.kind = []string{"client", "client", "uclient", "server", "server"}[r.Intn(5)]
		rn.idLen = []int{0, 4, 4, 8, 8, 16, 20}[r.Intn(7)]
		if rn.kind == "server" && rn.idLen == 0 {
			rn.idLen = 8
		}
		dest := fill(0xd0, []int{8, 8, 12, 20}[r.Intn(4)])
		if rn.kind == "server" && r.Chance(30) {
			dest = fill(0xd0, rn.idLen) // a client whose first destination connection ID has our length
		}
		rn.scids = [][]byte{dest, fill(0xa0, 8), fill(0xb0, 4), {}}
		if rn.kind == "server" {
			rn.scids[0] = []byte{0xc1, 0xc1, 0xc1, 0xc1}
		}
		return fmt.Sprintf("new %s %d %s %s", rn.kind, rn.idLen, hx(fill(0x70, rn.idLen)), hx(dest))
	}
	if rn.closed {
		if r.Chance(70) {
			return rn.genDatagram(r)
		}
		return ""
	}
	switch r.Pick(56, 8, 12, 10, 4, 8, 2) {
	case 0:
		return rn.genDatagram(r)
	case 1:
		if rn.limit == 0 {
			rn.limit = uint64(r.Range(2, 8))
		}
		rn.highest += 8 // upper bound; the exact value is not needed to aim RETIRE_CONNECTION_ID frames
		return fmt.Sprintf("limit %d", rn.limit)
	case 2:
		dst := fill(0x50, rn.idLen)
		live, _ := rn.routes()
		if r.Chance(10) && len(live) > 0 {
			dst = live[r.Intn(len(live))]
		}
		return fmt.Sprintf("retire %d %s %d", r.Intn(10), hx(dst), rn.now+r.Range(1_000_000, 40_000_000))
	case 3:
		rn.now += r.Range(0, 30_000_000)
		return fmt.Sprintf("expire %d", rn.now)
	case 4:
		rn.now += r.Range(0, 1_000_000)
		return fmt.Sprintf("hsdone %d", rn.now+r.Range(1_000_000, 40_000_000))
	case 5:
		live, _ := rn.routes()
		id := rn.pickID(r, r.Pick(5, 25, 0, 70), live)
		rn.foreign = append(rn.foreign, id)
		return "foreign " + hx(id)
	default:
		return "removeall"
	}
}

// scripts: for every kind of connection and connection ID lengths 0, 4, 8 one case that walks through EVERY datagram
// of one or two packets {Initial, Handshake, 1-RTT} x {Initial, Handshake, 0-RTT, 1-RTT} whose first packet is
// addressed to a live connection ID of the connection (the handshake ID / an issued one) and whose second packet is
// addressed to the same ID, another live ID, an ID the connection retired (still routed / expired), an ID of another
// connection, an unknown ID, and an ID of another length.
func scripts() [][]string {
	var out [][]string
	for _, kind := range []string{"client", "uclient", "server"} {
		for _, l := range []int{4, 8, 0} {
			if kind == "server" && l == 0 {
				continue
			}
			initial := fill(0x70, l)
			dest := fill(0xd0, 8)
			peer := dest
			if kind == "server" {
				peer = []byte{0xc1, 0xc1, 0xc1, 0xc1}
			}
			foreign := fill(0x60, l)
			s := []string{
				fmt.Sprintf("new %s %d %s %s", kind, l, hx(initial), hx(dest)),
				"foreign " + hx(foreign),
				"limit 4",
				fmt.Sprintf("retire 1 %s 1005000000", hx(fill(0x50, l))),
				fmt.Sprintf("retire 2 %s 1900000000", hx(fill(0x50, l))),
				"expire 1010000000",
			}
			others := [][]byte{nil, mkID(2, l), mkID(1, l), mkID(0, l), foreign, fill(0x50, l), fill(0x30, l+1)}
			firsts := [][]byte{initial, mkID(2, l)}
			now := int64(1_020_000_000)
			for _, first := range firsts {
				for _, ft := range []string{"L0", "L2", "S"} {
					for oi, other := range others {
						for _, st := range []string{"L0", "L2", "L1", "S"} {
							if oi == 0 && st != "S" {
								continue
							}
							now += 1000
							mk := func(t string, id []byte) string {
								if t == "S" {
									return "S." + hx(append(append([]byte{}, id...), fill(0xee, 20)...))
								}
								return fmt.Sprintf("%s.0.%s.%s.0", t, hx(id), hx(peer))
							}
							d := mk(ft, first)
							if oi > 0 {
								d += "/" + mk(st, other)
							}
							s = append(s, fmt.Sprintf("dgram %d %s", now, d))
						}
					}
				}
			}
			out = append(out, s)
		}
	}
	return out
}

func TestDriver(t *testing.T) {
	vh.Main(t, "cidrx", func(r *vh.Rand) vh.Runner { return newRunner(r) })
}
