//go:build verif

// Driver "flow" (property C04): one real connection flow controller plus several real stream flow
// controllers sharing it and one real utils.RTTStats, driven with explicit times.
//
//	init <rw> <maxrw> <cbnil>        => ok srtt=<ns>
//	s.new <rw> <maxrw> <sw>          => <id>
//	rtt.upd <sendDelta> <ackDelay>   => srtt=<ns>        rtt.init <d> => srtt=<ns>
//	s.recv <id> <off> <fin> <now>    => ok | E:FINAL_SIZE_ERROR | E:FLOW_CONTROL_ERROR | E:other
//	s.read <id> <n>                  => <hasStreamUpd> <hasConnUpd>
//	s.abandon <id>                   => ok
//	s.upd <id> <now> <allow>         => <offset> cb=<delta,..|->   | PANIC cb=..
//	c.upd <now> <allow>              => <offset> cb=<delta,..|->
//	s.sent <id> <n>                  => <SendWindowSize before> <after>
//	s.max <id> <v> | c.max <v>       => 0|1
//	s.win? <id> | c.win?             => <n>
//	s.blocked? <id>                  => 0|1            c.blocked? => 0 0 | 1 <offset>
//	c.reset                          => ok | E:other   (on success the driver drops all streams, as ResetFor0RTT does)
//
// every result is followed by ` | c=<dump>` and, for stream operations, ` s=<dump>` (see VerifDump).
package flow

import (
	"errors"
	"fmt"
	"strconv"
	"strings"
	"testing"
	"time"

	"github.com/refraction-networking/uquic/internal/flowcontrol"
	"github.com/refraction-networking/uquic/internal/monotime"
	"github.com/refraction-networking/uquic/internal/protocol"
	"github.com/refraction-networking/uquic/internal/qerr"
	"github.com/refraction-networking/uquic/internal/utils"
	"github.com/refraction-networking/uquic/internal/verifharness/vh"
)

type connFC interface {
	flowcontrol.ConnectionFlowController
}

type runner struct {
	rtt     *utils.RTTStats
	conn    connFC
	streams []flowcontrol.StreamFlowController
	// callback script
	allow bool
	calls []int64

	// generator state
	now        int64
	style      int // window magnitude: 0 tiny, 1 small, 2 medium, 3 large, 4 huge
	tstyle     int // 0: time steps << rtt, 1: around rtt, 2: >> rtt
	wantStream int
	dead       int // ops left after a flow-control / final-size error was provoked
	errored    bool
	final      map[int]int64
}

func newRunner(r *vh.Rand) vh.Runner {
	return &runner{
		now:        1 + r.Range(0, 1_000_000_000_000),
		style:      r.Pick(15, 30, 35, 15, 5),
		tstyle:     r.Pick(45, 35, 20),
		wantStream: 1 + r.Intn(5),
		final:      map[int]int64{},
	}
}

const maxBC = int64(protocol.MaxByteCount)

func (rn *runner) window(r *vh.Rand) int64 {
	switch rn.style {
	case 0:
		return r.Range(0, 40)
	case 1:
		return r.Range(1, 5000)
	case 2:
		return r.Range(1000, 2_000_000)
	case 3:
		return r.Range(1<<20, 1<<40)
	}
	// huge: around the float64 precision limit and up to the varint maximum
	switch r.Intn(3) {
	case 0:
		return (int64(1) << 53) + r.Range(-3, 3)
	case 1:
		return r.Range(1<<53, 1<<60)
	}
	return maxBC - r.Range(0, 1000)
}

func (rn *runner) maxWindow(r *vh.Rand, rw int64) int64 {
	var m int64
	switch r.Pick(10, 15, 25, 20, 15, 10, 5) {
	case 0:
		m = rw
	case 1:
		m = rw + r.Range(0, rw/2+1)
	case 2:
		m = 2 * rw
	case 3:
		m = 4*rw + r.Range(0, 3)
	case 4:
		m = 64 * rw
	case 5:
		m = r.Range(0, rw) // below the initial window
	default:
		m = 3*rw + 1
	}
	if m > maxBC || m < 0 {
		m = maxBC
	}
	return m
}

// peek reads the real controller's private fields for steering the generator only.
type snap struct{ bs, sw, lb, br, hr, rw, rws, max, et, eo int64 }

func peek(fc any) snap {
	f := strings.Split(flowcontrol.VerifDump(fc), "/")
	g := func(i int) int64 {
		if i < len(f) {
			return vh.Atoi64(f[i])
		}
		return 0
	}
	return snap{g(0), g(1), g(2), g(3), g(4), g(5), g(6), g(7), g(8), g(9)}
}

func (rn *runner) tick(r *vh.Rand) {
	srtt := int64(100_000_000)
	if rn.rtt != nil {
		srtt = int64(rn.rtt.SmoothedRTT())
	}
	if srtt <= 0 {
		srtt = 1000
	}
	switch rn.tstyle {
	case 0:
		rn.now += r.Range(0, srtt/20+1)
	case 1:
		rn.now += r.Range(0, 2*srtt)
	default:
		rn.now += r.Range(0, 20*srtt)
	}
}

// nowNear picks a time on or next to the auto-tuning boundary of the given controller (if it has one).
func (rn *runner) nowFor(r *vh.Rand, fc any) int64 {
	rn.tick(r)
	if !r.Chance(25) || rn.rtt == nil {
		return rn.now
	}
	s := peek(fc)
	if s.rws <= 0 || s.br-s.eo <= s.rws/2 {
		return rn.now
	}
	fraction := float64(s.br-s.eo) / float64(s.rws)
	thr := int64(time.Duration(4 * fraction * float64(rn.rtt.SmoothedRTT())))
	t := s.et + thr + r.Range(-2, 2)
	if t >= rn.now && t < rn.now+(1<<50) {
		rn.now = t
	}
	return rn.now
}

func (rn *runner) GenOp(r *vh.Rand, i int) string {
	if i == 0 {
		rw := rn.window(r)
		if rn.style < 4 && r.Chance(70) {
			rw = rw*3/2 + r.Range(0, 10) // the connection window is usually larger than a stream's
		}
		cbnil := 0
		if r.Chance(6) {
			cbnil = 1
		}
		return fmt.Sprintf("init %d %d %d", rw, rn.maxWindow(r, rw), cbnil)
	}
	if rn.conn == nil {
		return ""
	}
	if rn.errored {
		if rn.dead <= 0 {
			return ""
		}
		rn.dead--
	}
	if len(rn.streams) < rn.wantStream && (len(rn.streams) == 0 || r.Chance(30)) || r.Chance(1) {
		if rn.style == 4 && len(rn.streams) >= 1 {
			// at most one stream with a huge window, so that the connection's int64 sums cannot wrap
			rn.wantStream = len(rn.streams)
		} else {
			rw := rn.window(r)
			var sw int64
			switch r.Pick(20, 60, 20) {
			case 0:
				sw = 0
			case 1:
				sw = r.Range(0, 3000)
			default:
				sw = rn.window(r)
			}
			return fmt.Sprintf("s.new %d %d %d", rw, rn.maxWindow(r, rw), sw)
		}
	}
	if len(rn.streams) == 0 {
		return fmt.Sprintf("c.max %d", r.Range(0, 5000))
	}
	id := r.Intn(len(rn.streams))
	st := rn.streams[id]
	ss := peek(st)
	cs := peek(rn.conn)
	switch r.Pick(24, 18, 3, 9, 7, 14, 6, 5, 2, 2, 4, 3, 2, 1) {
	case 0: // s.recv
		now := rn.nowFor(r, st)
		fin := 0
		var off int64
		if f, ok := rn.final[id]; ok {
			// the final offset is known: mostly consistent retransmissions
			switch r.Pick(60, 30, 4, 6) {
			case 0:
				off = r.Range(0, f)
			case 1:
				off, fin = f, 1
			case 2:
				off, fin = r.Range(0, f+3), 1
			default:
				off = f + r.Range(1, 5)
			}
			return fmt.Sprintf("s.recv %d %d %d %d", id, off, fin, now)
		}
		room := min(ss.rw-ss.hr, cs.rw-cs.hr)
		switch r.Pick(58, 12, 3, 1, 10, 6, 1, 1) {
		case 0: // new data inside both windows
			if room > 0 {
				off = ss.hr + 1 + r.Range(0, min(room-1, max(ss.rws/3, 1)))
			} else {
				off = ss.hr
			}
		case 1: // exactly up to the limit
			off = ss.hr + max(room, 0)
		case 2: // exactly up to the stream limit (may exceed the connection's)
			off = ss.rw
		case 3: // first byte beyond the stream limit
			off = ss.rw + 1
		case 4: // reordered
			off = r.Range(0, ss.hr)
		case 5: // same
			off = ss.hr
		case 6: // first byte beyond the connection limit
			off = ss.hr + max(cs.rw-cs.hr, 0) + 1
		default: // far beyond
			off = ss.rw + r.Range(1, 1000)
		}
		if r.Chance(6) {
			fin = 1
		}
		if off < 0 || off > maxBC {
			off = ss.hr
		}
		return fmt.Sprintf("s.recv %d %d %d %d", id, off, fin, now)
	case 1: // s.read
		unread := ss.hr - ss.br
		var n int64
		switch r.Pick(40, 35, 10, 10, 5) {
		case 0:
			n = unread
		case 1:
			n = r.Range(0, max(unread, 0))
		case 2:
			n = min(unread, 1)
		case 3:
			n = 0
		default:
			if r.Chance(20) {
				n = unread + r.Range(1, 10) // outside the caller's contract (the stream never reads what it did not receive)
			} else {
				n = unread / 2
			}
		}
		if n < 0 {
			n = 0
		}
		return fmt.Sprintf("s.read %d %d", id, n)
	case 2:
		return fmt.Sprintf("s.abandon %d", id)
	case 3: // s.upd
		return fmt.Sprintf("s.upd %d %d %d", id, rn.nowFor(r, st), b2i(r.Chance(80)))
	case 4: // c.upd
		return fmt.Sprintf("c.upd %d %d", rn.nowFor(r, rn.conn), b2i(r.Chance(80)))
	case 5: // s.sent
		w := int64(st.SendWindowSize())
		var n int64
		switch r.Pick(35, 40, 10, 10, 5) {
		case 0:
			n = w
		case 1:
			n = r.Range(0, w)
		case 2:
			n = min(w, 1)
		case 3:
			n = 0
		default:
			if r.Chance(40) {
				n = w + r.Range(1, 20) // outside the caller's contract (popStreamFrame never exceeds SendWindowSize)
			} else {
				n = w / 2
			}
		}
		return fmt.Sprintf("s.sent %d %d", id, n)
	case 6: // s.max
		return fmt.Sprintf("s.max %d %d", id, rn.maxFrame(r, ss))
	case 7: // c.max
		return fmt.Sprintf("c.max %d", rn.maxFrame(r, cs))
	case 8:
		return fmt.Sprintf("s.win? %d", id)
	case 9:
		return "c.win?"
	case 10:
		return fmt.Sprintf("s.blocked? %d", id)
	case 11:
		return "c.blocked?"
	case 12: // rtt
		if r.Chance(10) {
			return fmt.Sprintf("rtt.init %d", r.Range(0, 500_000_000))
		}
		var sd int64
		switch r.Pick(10, 60, 25, 5) {
		case 0:
			sd = r.Range(1, 3000) // sub-microsecond .. few microseconds: the smoothed RTT can become 0
		case 1:
			sd = r.Range(100_000, 300_000_000)
		case 2:
			sd = r.Range(1_000_000, 5_000_000_000)
		default:
			sd = r.Range(-5, 5)
		}
		return fmt.Sprintf("rtt.upd %d %d", sd, r.Range(0, 30_000_000))
	default:
		return "c.reset"
	}
}

// maxFrame: MAX_DATA / MAX_STREAM_DATA values: mostly increasing, with duplicates, reordered (lower) and huge ones.
func (rn *runner) maxFrame(r *vh.Rand, s snap) int64 {
	var v int64
	switch r.Pick(55, 15, 20, 5, 5) {
	case 0:
		v = max(s.sw, s.bs) + r.Range(1, 4000)
	case 1:
		v = s.sw
	case 2:
		v = r.Range(0, s.sw)
	case 3:
		v = s.sw + rn.window(r)
	default:
		v = maxBC - r.Range(0, 5)
	}
	if v < 0 || v > maxBC {
		v = maxBC
	}
	return v
}

func b2i(b bool) int {
	if b {
		return 1
	}
	return 0
}

func errClass(err error) string {
	if err == nil {
		return "ok"
	}
	var te *qerr.TransportError
	if errors.As(err, &te) {
		switch te.ErrorCode {
		case qerr.FlowControlError:
			return "E:FLOW_CONTROL_ERROR"
		case qerr.FinalSizeError:
			return "E:FINAL_SIZE_ERROR"
		}
	}
	return "E:other"
}

func (rn *runner) cb() string {
	if len(rn.calls) == 0 {
		return "cb=-"
	}
	var sb strings.Builder
	sb.WriteString("cb=")
	for i, c := range rn.calls {
		if i > 0 {
			sb.WriteByte(',')
		}
		sb.WriteString(strconv.FormatInt(c, 10))
	}
	return sb.String()
}

func (rn *runner) suffix(id int) string {
	s := " | c=" + flowcontrol.VerifDump(rn.conn)
	if id >= 0 && id < len(rn.streams) {
		s += " s=" + flowcontrol.VerifDump(rn.streams[id])
	}
	return s
}

// lastID is the stream an operation referred to (for the suffix after a panic).
func opStream(f []string) int {
	if len(f) >= 2 && strings.HasPrefix(f[0], "s.") && f[0] != "s.new" {
		return int(vh.Atoi64(f[1]))
	}
	return -1
}

func (rn *runner) AfterPanic(op string) string {
	if rn.conn == nil {
		return "PANIC"
	}
	return "PANIC " + rn.cb() + rn.suffix(opStream(strings.Fields(op)))
}

func (rn *runner) Exec(op string) string {
	f := strings.Fields(op)
	if len(f) == 0 {
		return "skip"
	}
	arg := func(i int) int64 {
		if i < len(f) {
			return vh.Atoi64(f[i])
		}
		return 0
	}
	if f[0] == "init" {
		if rn.conn != nil {
			return "skip"
		}
		rn.rtt = utils.NewRTTStats()
		var cbf func(protocol.ByteCount) bool
		if arg(3) == 0 {
			cbf = func(n protocol.ByteCount) bool {
				rn.calls = append(rn.calls, int64(n))
				return rn.allow
			}
		}
		rn.conn = flowcontrol.NewConnectionFlowController(protocol.ByteCount(arg(1)), protocol.ByteCount(arg(2)), cbf, rn.rtt, utils.DefaultLogger)
		return fmt.Sprintf("ok srtt=%d", int64(rn.rtt.SmoothedRTT())) + rn.suffix(-1)
	}
	if rn.conn == nil {
		return "skip"
	}
	rn.calls = rn.calls[:0]
	id := -1
	var st flowcontrol.StreamFlowController
	if strings.HasPrefix(f[0], "s.") && f[0] != "s.new" {
		id = int(arg(1))
		if len(f) < 2 || id < 0 || id >= len(rn.streams) {
			return "skip"
		}
		st = rn.streams[id]
	}
	var res string
	switch f[0] {
	case "s.new":
		st := flowcontrol.NewStreamFlowController(protocol.StreamID(4*len(rn.streams)), rn.conn,
			protocol.ByteCount(arg(1)), protocol.ByteCount(arg(2)), protocol.ByteCount(arg(3)), rn.rtt, utils.DefaultLogger)
		rn.streams = append(rn.streams, st)
		id = len(rn.streams) - 1
		res = strconv.Itoa(id)
	case "rtt.upd":
		rn.rtt.UpdateRTT(time.Duration(arg(1)), time.Duration(arg(2)))
		res = fmt.Sprintf("srtt=%d", int64(rn.rtt.SmoothedRTT()))
	case "rtt.init":
		rn.rtt.SetInitialRTT(time.Duration(arg(1)))
		res = fmt.Sprintf("srtt=%d", int64(rn.rtt.SmoothedRTT()))
	case "s.recv":
		err := st.UpdateHighestReceived(protocol.ByteCount(arg(2)), arg(3) == 1, monotime.Time(arg(4)))
		res = errClass(err)
		if err != nil && !rn.errored {
			rn.errored, rn.dead = true, 4
		}
		if err == nil && arg(3) == 1 {
			rn.final[id] = arg(2)
		}
	case "s.read":
		hs, hc := st.AddBytesRead(protocol.ByteCount(arg(2)))
		res = fmt.Sprintf("%d %d", b2i(hs), b2i(hc))
	case "s.abandon":
		st.Abandon()
		res = "ok"
	case "s.upd":
		rn.allow = arg(3) == 1
		off := st.GetWindowUpdate(monotime.Time(arg(2)))
		res = fmt.Sprintf("%d %s", int64(off), rn.cb())
	case "c.upd":
		rn.allow = arg(2) == 1
		off := rn.conn.GetWindowUpdate(monotime.Time(arg(1)))
		res = fmt.Sprintf("%d %s", int64(off), rn.cb())
	case "s.sent":
		before := st.SendWindowSize()
		st.AddBytesSent(protocol.ByteCount(arg(2)))
		res = fmt.Sprintf("%d %d", int64(before), int64(st.SendWindowSize()))
	case "s.max":
		res = strconv.Itoa(b2i(st.UpdateSendWindow(protocol.ByteCount(arg(2)))))
	case "c.max":
		res = strconv.Itoa(b2i(rn.conn.UpdateSendWindow(protocol.ByteCount(arg(1)))))
	case "s.win?":
		res = strconv.FormatInt(int64(st.SendWindowSize()), 10)
	case "c.win?":
		res = strconv.FormatInt(int64(rn.conn.SendWindowSize()), 10)
	case "s.blocked?":
		res = strconv.Itoa(b2i(st.IsNewlyBlocked()))
	case "c.blocked?":
		b, off := rn.conn.IsNewlyBlocked()
		res = fmt.Sprintf("%d %d", b2i(b), int64(off))
	case "c.reset":
		if err := rn.conn.Reset(); err != nil {
			res = "E:other"
		} else {
			rn.streams = nil
			rn.final = map[int]int64{}
			res = "ok"
		}
	default:
		return "skip"
	}
	return res + rn.suffix(id)
}

func TestDriver(t *testing.T) { vh.Main(t, "flow", newRunner) }
