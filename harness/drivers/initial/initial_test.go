//go:build verif

// Package initial is the C10 correspondence driver: real UTransport.Dial through the shared e2e
// runner (simnet + synctest), with crypto/rand.Reader replaced by a scripted reader for the
// duration of a dial. Every datagram of the client's first flight is unprotected by an
// INDEPENDENT route (the server-side Initial opener derived from the datagram's own DCID, not
// the client's packer) and handed to the Lean oracle as plaintext header+payload.
//
// op:     dial mode=dead|live id=<builtin|-> ips=<n> scid=<n> dcid=<n> ipn=<u64> pnl1=<n> pnls=<a.b|-> tok=<-|x:hex|p:hex:len>
//              udp=<n> plans=<c/s,c/s|-> fb=<builder> ch=<base>+<pad> script=<hex>
// result: err=<class> L=<clienthello bytes> max=<max packet size> n=<datagrams> [hs=<..> srv=<pn.pn..>] after=<spec as described after the dial> slack=<spare capacity of the spec's slices> | <rawlen>:<status>:<hex> | ...
//
// op:     overlap <same configuration keys> gap=<ms> script=<hex>   — two dials with ONE spec value on a dead path: A at t=0
//              (kept alive through its first PTO retransmissions), B at t=gap from a second client address
// result: err=<A>/<B> tokoffs=<a.b|-> nA=<n> nB=<n> after=<..> slack=<..> | <A|B>:<ms>:<dcid hex|->:<token hex|-> | ...   (every Initial datagram, in order)
package initial

import (
	"bytes"
	"context"
	"crypto/rand"
	"encoding/binary"
	"encoding/hex"
	"errors"
	"fmt"
	"io"
	"net"
	"os"
	"regexp"
	"runtime"
	"sort"
	"strconv"
	"strings"
	"sync"
	"testing"
	"testing/synctest"
	"time"

	quic "github.com/refraction-networking/uquic"
	"github.com/refraction-networking/uquic/internal/handshake"
	"github.com/refraction-networking/uquic/internal/protocol"
	"github.com/refraction-networking/uquic/internal/verifharness/e2e"
	"github.com/refraction-networking/uquic/internal/verifharness/vh"
	"github.com/refraction-networking/uquic/qlog"
	"github.com/refraction-networking/uquic/qlogwriter"
	"github.com/refraction-networking/uquic/testutils/simnet"
	"github.com/refraction-networking/uquic/quicvarint"
	tls "github.com/refraction-networking/utls"
)

var theT *testing.T

// ---------------------------------------------------------------- scripted randomness

// scriptReader replaces crypto/rand.Reader: byte k of the stream is script[k] while k < len(script),
// afterwards a SplitMix64 stream seeded by the script (deterministic, reproducible from the op line).
type scriptReader struct {
	mu     sync.Mutex
	script []byte
	pos    int
	tail   *vh.Rand
	reads  []int
	nreads int
	tokOff int // stream position of the read issued by (*dummyTokenStore).Pop, -1 if none
	tokAll []int // stream positions of every such read, in order (overlapping dials)
}

func newScriptReader(script []byte) *scriptReader {
	var h uint64 = 1469598103934665603
	for _, b := range script {
		h ^= uint64(b)
		h *= 1099511628211
	}
	return &scriptReader{script: script, tail: vh.NewRand(h), tokOff: -1}
}

func (s *scriptReader) Read(p []byte) (int, error) {
	s.mu.Lock()
	defer s.mu.Unlock()
	if s.nreads < 200 && len(s.tokAll) < 4 && calledFromTokenPop() {
		if s.tokOff < 0 {
			s.tokOff = s.pos
		}
		s.tokAll = append(s.tokAll, s.pos)
	}
	s.nreads++
	for i := range p {
		if s.pos < len(s.script) {
			p[i] = s.script[s.pos]
		} else {
			p[i] = byte(s.tail.U64())
		}
		s.pos++
	}
	if len(s.reads) < 64 {
		s.reads = append(s.reads, len(p))
	}
	return len(p), nil
}

// calledFromTokenPop reports whether the current read of the random source was issued by the spec's
// synthesising token store (recovered witness: where in the stream the token's random tail was drawn).
var tokenPopRe = regexp.MustCompile(`^github\.com/refraction-networking/uquic\.\(\*?\w+\)\.Pop$`)

func calledFromTokenPop() bool {
	var pcs [32]uintptr
	n := runtime.Callers(3, pcs[:])
	fr := runtime.CallersFrames(pcs[:n])
	for {
		f, more := fr.Next()
		// any TokenStore of the quic package itself (whatever the synthesising store's type is called); the
		// driver's own explicit store lives in this package and never reads the random source
		if tokenPopRe.MatchString(f.Function) {
			return true
		}
		if !more {
			return false
		}
	}
}

// ---------------------------------------------------------------- config

type plan struct{ c, s int }

type cfg struct {
	mode   string
	id     string
	ips    int
	scid   int
	dcid   int
	ipn    uint64
	pnl1   int
	pnls   []int
	tok    string
	udp    int
	plans  []plan
	fb     string
	ch     string
	shr    bool
	slk    bool // the spec's slices are windows on caller-owned buffers with spare capacity (canaries behind them)
	shs    bool // ONE *QUICSpec serves every dial of the case with this configuration
	gap    int  // overlap op: virtual milliseconds between the start of dial A and of dial B
	script []byte
}

func kv(op string) map[string]string {
	m := map[string]string{}
	for _, f := range strings.Fields(op) {
		if i := strings.IndexByte(f, '='); i > 0 {
			m[f[:i]] = f[i+1:]
		}
	}
	return m
}

func atoi(s string) int { n, _ := strconv.Atoi(s); return n }

func parseCfg(op string) (cfg, error) {
	m := kv(op)
	c := cfg{mode: m["mode"], id: m["id"], ips: atoi(m["ips"]), scid: atoi(m["scid"]), dcid: atoi(m["dcid"]),
		pnl1: atoi(m["pnl1"]), tok: m["tok"], udp: atoi(m["udp"]), fb: m["fb"], ch: m["ch"], shr: m["shr"] == "1",
		slk: m["slk"] == "1", shs: m["shs"] == "1", gap: atoi(m["gap"])}
	var err error
	if c.ipn, err = strconv.ParseUint(m["ipn"], 10, 64); err != nil {
		return c, err
	}
	if s := m["pnls"]; s != "" && s != "-" {
		for _, x := range strings.Split(s, ".") {
			c.pnls = append(c.pnls, atoi(x))
		}
	}
	if s := m["plans"]; s != "" && s != "-" {
		for _, x := range strings.Split(s, ",") {
			ab := strings.Split(x, "/")
			if len(ab) != 2 {
				return c, errors.New("bad plan")
			}
			c.plans = append(c.plans, plan{atoi(ab[0]), atoi(ab[1])})
		}
	}
	if c.script, err = hex.DecodeString(m["script"]); err != nil {
		return c, err
	}
	if c.mode != "dead" && c.mode != "live" {
		return c, errors.New("bad mode")
	}
	if c.gap < 0 || c.gap > 400 {
		return c, errors.New("bad gap")
	}
	return c, nil
}

func parseRF(s string) (quic.QUICRandomFrames, error) {
	f := strings.Split(s, ".")
	if len(f) != 7 {
		return quic.QUICRandomFrames{}, errors.New("bad rf")
	}
	return quic.QUICRandomFrames{MinPING: uint8(atoi(f[0])), MaxPING: uint8(atoi(f[1])), MinCRYPTO: uint8(atoi(f[2])), MaxCRYPTO: uint8(atoi(f[3])),
		MinPADDING: uint8(atoi(f[4])), MaxPADDING: uint8(atoi(f[5])), Length: uint16(atoi(f[6]))}, nil
}

func fmtRF(r quic.QUICRandomFrames) string {
	return fmt.Sprintf("%d.%d.%d.%d.%d.%d.%d", r.MinPING, r.MaxPING, r.MinCRYPTO, r.MaxCRYPTO, r.MinPADDING, r.MaxPADDING, r.Length)
}

func parseFrames(s string) (quic.QUICFrames, error) {
	qf := quic.QUICFrames{}
	if s == "" {
		return qf, nil
	}
	for _, x := range strings.Split(s, ",") {
		switch {
		case x == "G":
			qf = append(qf, quic.QUICFramePing{})
		case strings.HasPrefix(x, "P"):
			qf = append(qf, quic.QUICFramePadding{Length: atoi(x[1:])})
		case strings.HasPrefix(x, "C"):
			ab := strings.Split(x[1:], ".")
			if len(ab) != 2 {
				return nil, errors.New("bad crypto frame")
			}
			qf = append(qf, quic.QUICFrameCrypto{Offset: atoi(ab[0]), Length: atoi(ab[1])})
		default:
			return nil, errors.New("bad frame")
		}
	}
	return qf, nil
}

func fmtFrames(qf quic.QUICFrames) (string, bool) {
	var out []string
	for _, f := range qf {
		switch x := f.(type) {
		case quic.QUICFramePing:
			out = append(out, "G")
		case quic.QUICFramePadding:
			out = append(out, fmt.Sprintf("P%d", x.Length))
		case quic.QUICFrameCrypto:
			out = append(out, fmt.Sprintf("C%d.%d", x.Offset, x.Length))
		default:
			return "", false
		}
	}
	return strings.Join(out, ","), true
}

func parseBuilder(s string) (quic.QUICFrameBuilder, error) {
	switch {
	case s == "nil":
		return nil, nil
	case strings.HasPrefix(s, "qf:"):
		return parseFrames(s[3:])
	case strings.HasPrefix(s, "rf:"):
		r, err := parseRF(s[3:])
		return &r, err
	case strings.HasPrefix(s, "md:"):
		m := &quic.QUICMultiDatagramFrames{}
		for _, x := range strings.Split(s[3:], "|") {
			r, err := parseRF(x)
			if err != nil {
				return nil, err
			}
			m.PerDatagram = append(m.PerDatagram, r)
		}
		return m, nil
	case strings.HasPrefix(s, "ff:"):
		f := &quic.QUICFlightFrames{}
		for _, x := range strings.Split(s[3:], "|") {
			qf, err := parseFrames(x)
			if err != nil {
				return nil, err
			}
			f.Datagrams = append(f.Datagrams, qf)
		}
		return f, nil
	case strings.HasPrefix(s, "rff:"):
		f := &quic.QUICRandomFlightFrames{}
		for _, x := range strings.Split(s[4:], "|") {
			ab := strings.Split(x, "@")
			if len(ab) != 2 {
				return nil, errors.New("bad rff")
			}
			var d quic.QUICRandomFlightDatagram
			for _, rg := range strings.Split(ab[0], ";") {
				ol := strings.Split(rg, ".")
				if len(ol) != 2 {
					return nil, errors.New("bad range")
				}
				d.CryptoRanges = append(d.CryptoRanges, quic.QUICCryptoRange{Offset: atoi(ol[0]), Length: atoi(ol[1])})
			}
			r, err := parseRF(ab[1])
			if err != nil {
				return nil, err
			}
			d.Frames = r
			f.PerDatagram = append(f.PerDatagram, d)
		}
		return f, nil
	}
	return nil, errors.New("bad builder")
}

func fmtBuilder(b quic.QUICFrameBuilder) (string, bool) {
	switch x := b.(type) {
	case nil:
		return "nil", true
	case quic.QUICFrames:
		s, ok := fmtFrames(x)
		return "qf:" + s, ok
	case *quic.QUICRandomFrames:
		return "rf:" + fmtRF(*x), true
	case *quic.QUICMultiDatagramFrames:
		var p []string
		for _, r := range x.PerDatagram {
			p = append(p, fmtRF(r))
		}
		return "md:" + strings.Join(p, "|"), true
	case *quic.QUICFlightFrames:
		var p []string
		for _, d := range x.Datagrams {
			s, ok := fmtFrames(d)
			if !ok {
				return "", false
			}
			p = append(p, s)
		}
		return "ff:" + strings.Join(p, "|"), true
	case *quic.QUICRandomFlightFrames:
		var p []string
		for _, d := range x.PerDatagram {
			var rs []string
			for _, r := range d.CryptoRanges {
				rs = append(rs, fmt.Sprintf("%d.%d", r.Offset, r.Length))
			}
			p = append(p, strings.Join(rs, ";")+"@"+fmtRF(d.Frames))
		}
		return "rff:" + strings.Join(p, "|"), true
	}
	return "", false
}

var builtins = map[string]quic.QUICID{
	"Firefox_116A":    quic.QUICFirefox_116A,
	"Firefox_116B":    quic.QUICFirefox_116B,
	"Firefox_116C":    quic.QUICFirefox_116C,
	"Chrome_115_IPv4": quic.QUICChrome_115_IPv4,
	"Chrome_115_IPv6": quic.QUICChrome_115_IPv6,
	"Chrome_146_IPv4": quic.QUICChrome_146_IPv4,
	"Chrome_146_IPv6": quic.QUICChrome_146_IPv6,
}

var builtinNames = func() []string {
	var n []string
	for k := range builtins {
		n = append(n, k)
	}
	sort.Strings(n)
	return n
}()

// describe renders the header/framing half of a spec in the op-line syntax (the ghost the
// oracle's monitors judge against is exactly this text).
func describe(s *quic.QUICSpec) (string, bool) {
	ip := &s.InitialPacketSpec
	pnls := "-"
	if len(ip.InitPacketNumberLengths) > 0 {
		var p []string
		for _, l := range ip.InitPacketNumberLengths {
			p = append(p, strconv.Itoa(int(l)))
		}
		pnls = strings.Join(p, ".")
	}
	tok := "-"
	if f, isFixed := ip.TokenStore.(*fixedTokenStore); isFixed {
		tok = "x:" + hex.EncodeToString(f.data)
	} else if ip.TokenStore != nil {
		return "", false
	} else if ip.ClientTokenLength != 0 || len(ip.ClientTokenPrefix) != 0 {
		tok = fmt.Sprintf("p:%s:%d", hex.EncodeToString(ip.ClientTokenPrefix), ip.ClientTokenLength)
	}
	plans := "-"
	if len(ip.InitialPackets) > 0 {
		var p []string
		for _, pl := range ip.InitialPackets {
			p = append(p, fmt.Sprintf("%d/%d", pl.CryptoLength, pl.PacketSize))
		}
		plans = strings.Join(p, ",")
	}
	fb, ok := fmtBuilder(ip.FrameBuilder)
	if !ok {
		return "", false
	}
	return fmt.Sprintf("scid=%d dcid=%d ipn=%d pnl1=%d pnls=%s tok=%s udp=%d plans=%s fb=%s",
		ip.SrcConnIDLength, ip.DestConnIDLength, ip.InitPacketNumber, int(ip.InitPacketNumberLength), pnls, tok, s.UDPDatagramMinSize, plans, fb), true
}

type fixedTokenStore struct{ data []byte }

func (f *fixedTokenStore) Pop(string) *quic.ClientToken    { return quic.NewClientToken(f.data) }
func (f *fixedTokenStore) Put(string, *quic.ClientToken) {}

// ---------------------------------------------------------------- caller-owned buffers behind the spec's slices

const canary = 0xc5

var canaryPlan = quic.InitialPacketPlan{CryptoLength: 0xc5c5, PacketSize: 0xc5c5}

// specBufs are the caller's buffers the slices of a spec are windows on: the content, then spare capacity
// filled with a canary. A dial may read the windows; everything behind them (and the windows themselves)
// belongs to the caller and to every other dial with this spec value.
type specBufs struct {
	prefix []byte
	pnls   []quic.PacketNumberLen
	plans  []quic.InitialPacketPlan
	tok    []byte
	npre, npnls, nplans, ntok int
}

// addSlack re-homes every slice of the header half of the spec into a buffer with spare capacity.
func addSlack(s *quic.QUICSpec) *specBufs {
	ip := &s.InitialPacketSpec
	b := &specBufs{}
	if ip.ClientTokenPrefix != nil || ip.ClientTokenLength > 0 {
		b.npre = len(ip.ClientTokenPrefix)
		b.prefix = bytes.Repeat([]byte{canary}, b.npre+80)
		copy(b.prefix, ip.ClientTokenPrefix)
		ip.ClientTokenPrefix = b.prefix[:b.npre]
	}
	if len(ip.InitPacketNumberLengths) > 0 {
		b.npnls = len(ip.InitPacketNumberLengths)
		b.pnls = make([]quic.PacketNumberLen, b.npnls+4)
		for i := range b.pnls {
			b.pnls[i] = canary
		}
		copy(b.pnls, ip.InitPacketNumberLengths)
		ip.InitPacketNumberLengths = b.pnls[:b.npnls]
	}
	if len(ip.InitialPackets) > 0 {
		b.nplans = len(ip.InitialPackets)
		b.plans = make([]quic.InitialPacketPlan, b.nplans+2)
		for i := range b.plans {
			b.plans[i] = canaryPlan
		}
		copy(b.plans, ip.InitialPackets)
		ip.InitialPackets = b.plans[:b.nplans]
	}
	if f, ok := ip.TokenStore.(*fixedTokenStore); ok {
		b.ntok = len(f.data)
		b.tok = bytes.Repeat([]byte{canary}, b.ntok+16)
		copy(b.tok, f.data)
		f.data = b.tok[:b.ntok]
	}
	return b
}

// slackHex renders what is behind the windows now: prefix/pn lengths/plans/explicit token ("-" without slack).
func (b *specBufs) slackHex() string {
	if b == nil {
		return "-"
	}
	var pn, pl []byte
	for _, l := range b.pnls[b.npnls:] {
		pn = append(pn, byte(l))
	}
	for _, p := range b.plans[b.nplans:] {
		if p == canaryPlan {
			pl = append(pl, canary)
		} else {
			pl = append(pl, 0)
		}
	}
	return hex.EncodeToString(b.prefix[b.npre:]) + "/" + hex.EncodeToString(pn) + "/" + hex.EncodeToString(pl) + "/" + hex.EncodeToString(b.tok[b.ntok:])
}

// specFor returns the spec a dial uses: a fresh one, or (shs=1) the case's long-lived value for this
// configuration — the way one UTransport.QUICSpec serves many dials.
func (rn *runner) specFor(c cfg) (*quic.QUICSpec, *specBufs, error) {
	key := fmt.Sprint(c.id, c.scid, c.dcid, c.ipn, c.pnl1, c.pnls, c.tok, c.udp, c.plans, c.fb, c.ch, c.slk)
	if c.shs && rn.spec != nil && rn.specKey == key {
		return rn.spec, rn.bufs, nil
	}
	spec, err := buildSpec(c)
	if err != nil {
		return nil, nil, err
	}
	var bufs *specBufs
	if c.slk {
		bufs = addSlack(spec)
	}
	if c.shs {
		rn.spec, rn.bufs, rn.specKey = spec, bufs, key
	}
	return spec, bufs, nil
}

// afterDial renders the spec as it reads now (op-line syntax, '&' for ' ') and the bytes behind its windows.
func afterDial(spec *quic.QUICSpec, bufs *specBufs) string {
	d, ok := describe(spec)
	if !ok {
		d = "undescribable"
	}
	return fmt.Sprintf("after=%s slack=%s", strings.ReplaceAll(d, " ", "&"), bufs.slackHex())
}

// clientHello returns a fresh ClientHelloSpec: <base>+<pad> where base is one of the built-in
// fingerprints' TLS specs and pad the size of an extra (ignored) extension that scales the
// ClientHello from one to four Initial datagrams.
func clientHello(ch string) (*tls.ClientHelloSpec, error) {
	ab := strings.Split(ch, "+")
	if len(ab) != 2 {
		return nil, errors.New("bad ch")
	}
	var id quic.QUICID
	switch ab[0] {
	case "ff":
		id = quic.QUICFirefox_116A
	case "c115":
		id = quic.QUICChrome_115_IPv4
	case "c146":
		id = quic.QUICChrome_146_IPv4
	default:
		return nil, errors.New("bad ch base")
	}
	s, err := quic.QUICID2Spec(id)
	if err != nil {
		return nil, err
	}
	chs := s.ClientHelloSpec
	if pad := atoi(ab[1]); pad > 0 {
		ext := &tls.GenericExtension{Id: 0x5a5a, Data: make([]byte, pad)}
		// insert in front of the QUIC transport parameters (keeps any trailing padding/PSK extension last)
		var out []tls.TLSExtension
		done := false
		for _, e := range chs.Extensions {
			if _, ok := e.(*tls.QUICTransportParametersExtension); ok && !done {
				out = append(out, ext)
				done = true
			}
			out = append(out, e)
		}
		if !done {
			out = append(out, ext)
		}
		chs.Extensions = out
	}
	return chs, nil
}

func buildSpec(c cfg) (*quic.QUICSpec, error) {
	if c.id != "-" && c.id != "" {
		id, ok := builtins[c.id]
		if !ok {
			return nil, errors.New("unknown builtin")
		}
		s, err := quic.QUICID2Spec(id)
		if err != nil {
			return nil, err
		}
		return &s, nil
	}
	chs, err := clientHello(c.ch)
	if err != nil {
		return nil, err
	}
	fb, err := parseBuilder(c.fb)
	if err != nil {
		return nil, err
	}
	s := &quic.QUICSpec{ClientHelloSpec: chs, UDPDatagramMinSize: c.udp}
	ip := &s.InitialPacketSpec
	ip.SrcConnIDLength, ip.DestConnIDLength = c.scid, c.dcid
	ip.InitPacketNumber = c.ipn
	ip.InitPacketNumberLength = quic.PacketNumberLen(c.pnl1)
	for _, l := range c.pnls {
		ip.InitPacketNumberLengths = append(ip.InitPacketNumberLengths, quic.PacketNumberLen(l))
	}
	switch {
	case c.tok == "-" || c.tok == "":
	case strings.HasPrefix(c.tok, "x:"):
		b, err := hex.DecodeString(c.tok[2:])
		if err != nil {
			return nil, err
		}
		ip.TokenStore = &fixedTokenStore{b}
	case strings.HasPrefix(c.tok, "p:"):
		f := strings.Split(c.tok, ":")
		if len(f) != 3 {
			return nil, errors.New("bad tok")
		}
		b, err := hex.DecodeString(f[1])
		if err != nil {
			return nil, err
		}
		if len(b) > 0 {
			ip.ClientTokenPrefix = b
		}
		ip.ClientTokenLength = atoi(f[2])
	default:
		return nil, errors.New("bad tok")
	}
	for _, p := range c.plans {
		ip.InitialPackets = append(ip.InitialPackets, quic.InitialPacketPlan{CryptoLength: p.c, PacketSize: p.s})
	}
	ip.FrameBuilder = fb
	return s, nil
}

// ---------------------------------------------------------------- independent removal of Initial protection

type unprot struct {
	status string // ok | pnmiss | short | bad | malformed
	plain  []byte // unprotected header ++ plaintext payload (no tag)
	end    int    // end of the QUIC packet inside the datagram according to its Length field (0 if malformed)
}

func readVarint(b []byte, off int) (uint64, int, bool) {
	if off >= len(b) {
		return 0, 0, false
	}
	l := 1 << (b[off] >> 6)
	if off+l > len(b) {
		return 0, 0, false
	}
	v := uint64(b[off] & 0x3f)
	for i := 1; i < l; i++ {
		v = v<<8 | uint64(b[off+i])
	}
	return v, l, true
}

// unprotectInitial removes header and packet protection the way a server receiving the datagram
// would: keys from the wire DCID (server perspective), sample at pnOffset+4, packet number decoded
// against the opener's largest received so far. altPN is tried only when that fails (status pnmiss).
func unprotectInitial(d []byte, openers map[string]handshake.LongHeaderOpener, altPN int64) unprot {
	if len(d) < 7 || d[0]&0x80 == 0 {
		return unprot{status: "malformed"}
	}
	ver := binary.BigEndian.Uint32(d[1:5])
	off := 5
	dl := int(d[off])
	off++
	if dl > 20 || off+dl > len(d) {
		return unprot{status: "malformed"}
	}
	dcid := d[off : off+dl]
	off += dl
	if off >= len(d) {
		return unprot{status: "malformed"}
	}
	sl := int(d[off])
	off++
	if sl > 20 || off+sl > len(d) {
		return unprot{status: "malformed"}
	}
	off += sl
	tl, n, ok := readVarint(d, off)
	if !ok || uint64(off+n)+tl > uint64(len(d)) {
		return unprot{status: "malformed"}
	}
	off += n + int(tl)
	length, n, ok := readVarint(d, off)
	if !ok {
		return unprot{status: "malformed"}
	}
	off += n
	pnOff := off
	if uint64(pnOff)+length > uint64(len(d)) {
		return unprot{status: "malformed"}
	}
	end := pnOff + int(length)
	if end < pnOff+4+16 {
		// RFC 9001 §5.4.2: the sample would reach past the packet; a receiver discards it
		return unprot{status: "short", plain: append([]byte(nil), d[:pnOff]...), end: end}
	}
	key := string(dcid) + fmt.Sprint(ver)
	op := openers[key]
	if op == nil {
		_, op = handshake.NewInitialAEAD(protocol.ParseConnectionID(dcid), protocol.PerspectiveServer, protocol.Version(ver))
		openers[key] = op
	}
	pkt := append([]byte(nil), d[:end]...)
	op.DecryptHeader(pkt[pnOff+4:pnOff+20], &pkt[0], pkt[pnOff:pnOff+4])
	pnLen := int(pkt[0]&3) + 1
	// bytes beyond pnLen were XORed by the 4-byte mask: restore them from the datagram
	copy(pkt[pnOff+pnLen:pnOff+4], d[pnOff+pnLen:pnOff+4])
	var wire int64
	for i := 0; i < pnLen; i++ {
		wire = wire<<8 | int64(pkt[pnOff+i])
	}
	hdr := pkt[:pnOff+pnLen]
	pn := op.DecodePacketNumber(protocol.PacketNumber(wire), protocol.PacketNumberLen(pnLen))
	pt, err := op.Open(nil, pkt[pnOff+pnLen:], pn, hdr)
	if err == nil {
		return unprot{status: "ok", plain: append(append([]byte(nil), hdr...), pt...), end: end}
	}
	if altPN >= 0 && protocol.PacketNumber(altPN) != pn {
		if pt, err := op.Open(nil, pkt[pnOff+pnLen:], protocol.PacketNumber(altPN), hdr); err == nil {
			return unprot{status: "pnmiss", plain: append(append([]byte(nil), hdr...), pt...), end: end}
		}
	}
	return unprot{status: "bad", plain: append([]byte(nil), hdr...), end: end}
}

// ---------------------------------------------------------------- one dial

func errClass(err error) string {
	if err == nil {
		return "ok"
	}
	s := err.Error()
	switch {
	case errors.Is(err, context.DeadlineExceeded):
		return "timeout"
	case strings.Contains(s, "cannot be encoded in the"):
		return "E:pnfit"
	case strings.Contains(s, "does not fit the packet buffer"):
		return "E:nofit"
	case strings.Contains(s, "BuildFlight"):
		return "E:flight"
	case strings.Contains(s, "must be"):
		return "E:bounds"
	}
	s = strings.Map(func(r rune) rune {
		if r == ' ' || r == '|' || r == '=' {
			return '_'
		}
		return r
	}, s)
	if len(s) > 80 {
		s = s[:80]
	}
	return "E:other:" + s
}

// capNet is the simulated path: a perfect router that records every datagram (virtual timestamps)
// and can be a dead path towards the server (capture only). Links carry up to 64 KB so that no
// datagram the client emits is lost before it is recorded.
type capNet struct {
	mu    sync.Mutex
	inner simnet.PerfectRouter
	start time.Time
	dead  bool
	c2s   []capDgram
	s2c   []capDgram
}

type capDgram struct {
	at   time.Duration
	data []byte
}

func (n *capNet) SendPacket(p simnet.Packet) error {
	toServer := p.To.String() == e2e.ServerAddr.String()
	rec := capDgram{at: time.Since(n.start), data: append([]byte(nil), p.Data...)}
	n.mu.Lock()
	if toServer {
		n.c2s = append(n.c2s, rec)
	} else {
		n.s2c = append(n.s2c, rec)
	}
	dead := n.dead && toServer
	n.mu.Unlock()
	if dead {
		return nil
	}
	return n.inner.SendPacket(p)
}
func (n *capNet) AddNode(addr net.Addr, conn simnet.PacketReceiver) { n.inner.AddNode(addr, conn) }
func (n *capNet) RemoveNode(addr net.Addr)                          { n.inner.RemoveNode(addr) }

type qtrace struct{ r *e2e.Recorder }

func (t qtrace) AddProducer() qlogwriter.Recorder { return t.r }
func (t qtrace) SupportsSchemas(string) bool       { return true }

func (rn *runner) dial(c cfg) string {
	spec, bufs, err := rn.specFor(c)
	if err != nil {
		return "bad-op " + err.Error()
	}
	var res string
	synctest.Test(theT, func(t *testing.T) {
		quic.VerifResetLastUClient()
		nw := &capNet{start: time.Now(), dead: c.mode == "dead"}
		sim := &simnet.Simnet{Router: nw}
		link := simnet.NodeBiDiLinkSettings{Latency: 10 * time.Millisecond,
			Downlink: simnet.LinkSettings{MTU: 65535}, Uplink: simnet.LinkSettings{MTU: 65535}}
		cpc := sim.NewEndpoint(e2e.ClientAddr, link)
		spc := sim.NewEndpoint(e2e.ServerAddr, link)
		if err := sim.Start(); err != nil {
			res = "bad-op start " + err.Error()
			return
		}
		srvLog := &e2e.Recorder{}
		sconf := &quic.Config{}
		if c.mode == "live" {
			sconf.Tracer = func(context.Context, bool, quic.ConnectionID) qlogwriter.Trace { return qtrace{srvLog} }
		}
		serverTr := &quic.Transport{Conn: spc}
		ln, err := serverTr.Listen(e2e.ServerTLSConfig(), sconf)
		if err != nil {
			res = "bad-op listen " + err.Error()
			return
		}
		// fixed transport keys: Transport.init then draws nothing, so the scripted stream starts with
		// the dial's own draws (source connection ID first)
		clientTr := &quic.Transport{Conn: cpc, StatelessResetKey: &quic.StatelessResetKey{1}, TokenGeneratorKey: &quic.TokenGeneratorKey{2}}
		ut := &quic.UTransport{Transport: clientTr, QUICSpec: spec}
		sr := newScriptReader(c.script)
		saved := rand.Reader
		rand.Reader = sr
		defer func() { rand.Reader = saved }()

		timeout := 100 * time.Millisecond // below the first PTO: only the first flight is sent
		if c.mode == "live" {
			timeout = 3 * time.Second
			go func() {
				for {
					if _, err := ln.Accept(context.Background()); err != nil {
						return
					}
				}
			}()
		}
		ctx, cancel := context.WithTimeout(context.Background(), timeout)
		// The caller's Config: a fresh one per dial, or (shr=1) ONE long-lived *Config that every dial of the
		// case goes through, whatever its spec — a spec-driven override (token store, …) must never leak into it.
		userConf := &quic.Config{InitialPacketSize: uint16(c.ips)}
		if c.shr {
			if rn.shared == nil {
				rn.shared = userConf
			}
			userConf = rn.shared
			userConf.InitialPacketSize = uint16(c.ips)
		}
		conn, derr := ut.Dial(ctx, e2e.ServerAddr, e2e.ClientTLSConfig(), userConf)
		cancel()
		if conn != nil {
			// Let the client send its Handshake flight (and drop its Initial keys) before closing: closing at the
			// instant the handshake completes makes packConnectionClose pad an Initial packet so that the
			// coalesced CONNECTION_CLOSE fills maxPacketSize exactly while its size estimate omits the 1-RTT
			// packet's AEAD tag; with a maximum packet size near the 1452-byte buffer that overflows the packet
			// buffer and panics in the run loop (upstream packet_packer.go, outside property C10).
			time.Sleep(300 * time.Millisecond)
			conn.CloseWithError(0, "")
		}
		// let in-flight datagrams settle, then tear down
		time.Sleep(50 * time.Millisecond)
		ln.Close()
		clientTr.Close()
		serverTr.Close()
		cpc.Close()
		spc.Close()
		sim.Close()
		synctest.Wait()

		nw.mu.Lock()
		c2s, s2c := nw.c2s, nw.s2c
		nw.mu.Unlock()
		// the first flight: everything the client sent before it heard from the server, and before its first PTO
		limit := 90 * time.Millisecond
		if len(s2c) > 0 && s2c[0].at < limit {
			limit = s2c[0].at
		}
		var flight []capDgram
		for _, d := range c2s {
			if d.at < limit {
				flight = append(flight, d)
			}
		}
		L, maxSize := quic.VerifInitialCryptoWritten()
		var sb strings.Builder
		fmt.Fprintf(&sb, "err=%s L=%d max=%d tokoff=%d n=%d %s", errClass(derr), L, maxSize, sr.tokOff, len(flight), afterDial(spec, bufs))
		if c.mode == "live" {
			var pns []string
			for _, ev := range srvLog.Events {
				if pr, ok := ev.(qlog.PacketReceived); ok && pr.Header.PacketType == qlog.PacketTypeInitial {
					pns = append(pns, strconv.FormatInt(int64(pr.Header.PacketNumber), 10))
				}
			}
			if len(pns) == 0 {
				pns = []string{"-"}
			}
			fmt.Fprintf(&sb, " srv=%s", strings.Join(pns, "."))
		}
		openers := map[string]handshake.LongHeaderOpener{}
		ipn := int64(0)
		if c.ipn <= 1<<62-1 {
			ipn = int64(c.ipn)
		}
		for i, d := range flight {
			u := unprotectInitial(d.data, openers, ipn+int64(i))
			tz := 0
			if u.end > 0 {
				tz = 1
				for _, b := range d.data[u.end:] {
					if b != 0 {
						tz = 0
					}
				}
			}
			fmt.Fprintf(&sb, " | %d:%s:%d:%s", len(d.data), u.status, tz, hex.EncodeToString(u.plain))
		}
		res = sb.String()
		if os.Getenv("VH_DEBUG_READS") != "" {
			res += fmt.Sprintf(" READS=%v", sr.reads)
		}
	})
	return res
}

// ---------------------------------------------------------------- two overlapping dials with one spec value

var clientAddrB = &net.UDPAddr{IP: net.ParseIP("1.0.0.3"), Port: 9003}

// longHeaderFields reads what a long-header packet shows WITHOUT removing any protection: type, connection IDs
// and (Initial) the token. ok is false for anything that is not a version-1 Initial packet.
func longHeaderFields(d []byte) (dcid, token []byte, ok bool) {
	if len(d) < 7 || d[0]&0x80 == 0 || d[0]&0x30 != 0 || binary.BigEndian.Uint32(d[1:5]) != 1 {
		return nil, nil, false
	}
	off := 5
	dl := int(d[off])
	off++
	if dl > 20 || off+dl >= len(d) {
		return nil, nil, false
	}
	dcid = d[off : off+dl]
	off += dl
	sl := int(d[off])
	off++
	if sl > 20 || off+sl > len(d) {
		return nil, nil, false
	}
	off += sl
	tl, n, vok := readVarint(d, off)
	if !vok || uint64(off+n)+tl > uint64(len(d)) {
		return nil, nil, false
	}
	return dcid, d[off+n : off+n+int(tl)], true
}

type ovNet struct {
	mu    sync.Mutex
	start time.Time
	pkts  []ovDgram
}

type ovDgram struct {
	who  byte
	at   time.Duration
	data []byte
}

func (n *ovNet) SendPacket(p simnet.Packet) error {
	who := byte('A')
	if p.From.String() == clientAddrB.String() {
		who = 'B'
	}
	n.mu.Lock()
	if len(n.pkts) < 64 {
		n.pkts = append(n.pkts, ovDgram{who, time.Since(n.start), append([]byte(nil), p.Data...)})
	}
	n.mu.Unlock()
	return nil // a dead path: nothing is delivered
}
func (n *ovNet) AddNode(net.Addr, simnet.PacketReceiver) {}
func (n *ovNet) RemoveNode(net.Addr)                     {}

func hexOrDash(b []byte) string {
	if len(b) == 0 {
		return "-"
	}
	return hex.EncodeToString(b)
}

// overlap: connection A dials at t=0 and is kept alive for 700 ms of virtual time (its Initial flight is
// retransmitted on PTO); connection B dials at t=gap with the SAME *QUICSpec from a second client address and
// gives up after 100 ms. Every Initial datagram of both is reported with the token it shows on the wire.
func (rn *runner) overlap(c cfg) string {
	spec, bufs, err := rn.specFor(c)
	if err != nil {
		return "bad-op " + err.Error()
	}
	var res string
	synctest.Test(theT, func(t *testing.T) {
		nw := &ovNet{start: time.Now()}
		sim := &simnet.Simnet{Router: nw}
		link := simnet.NodeBiDiLinkSettings{Latency: 10 * time.Millisecond,
			Downlink: simnet.LinkSettings{MTU: 65535}, Uplink: simnet.LinkSettings{MTU: 65535}}
		pcA := sim.NewEndpoint(e2e.ClientAddr, link)
		pcB := sim.NewEndpoint(clientAddrB, link)
		if err := sim.Start(); err != nil {
			res = "bad-op start " + err.Error()
			return
		}
		trA := &quic.Transport{Conn: pcA, StatelessResetKey: &quic.StatelessResetKey{1}, TokenGeneratorKey: &quic.TokenGeneratorKey{2}}
		trB := &quic.Transport{Conn: pcB, StatelessResetKey: &quic.StatelessResetKey{3}, TokenGeneratorKey: &quic.TokenGeneratorKey{4}}
		utA := &quic.UTransport{Transport: trA, QUICSpec: spec}
		utB := &quic.UTransport{Transport: trB, QUICSpec: spec}
		sr := newScriptReader(c.script)
		saved := rand.Reader
		rand.Reader = sr
		defer func() { rand.Reader = saved }()

		var errA, errB error
		doneA := make(chan struct{})
		go func() {
			defer close(doneA)
			ctx, cancel := context.WithTimeout(context.Background(), 700*time.Millisecond)
			defer cancel()
			var conn *quic.Conn
			if conn, errA = utA.Dial(ctx, e2e.ServerAddr, e2e.ClientTLSConfig(), &quic.Config{InitialPacketSize: uint16(c.ips)}); conn != nil {
				conn.CloseWithError(0, "")
			}
		}()
		time.Sleep(time.Duration(c.gap) * time.Millisecond)
		ctx, cancel := context.WithTimeout(context.Background(), 100*time.Millisecond)
		conn, errB := utB.Dial(ctx, e2e.ServerAddr, e2e.ClientTLSConfig(), &quic.Config{InitialPacketSize: uint16(c.ips)})
		cancel()
		if conn != nil {
			conn.CloseWithError(0, "")
		}
		<-doneA
		time.Sleep(50 * time.Millisecond)
		trA.Close()
		trB.Close()
		pcA.Close()
		pcB.Close()
		sim.Close()
		synctest.Wait()

		nw.mu.Lock()
		pkts := nw.pkts
		nw.mu.Unlock()
		var nA, nB int
		var body strings.Builder
		for _, d := range pkts {
			dcid, token, ok := longHeaderFields(d.data)
			if !ok {
				continue
			}
			if d.who == 'A' {
				nA++
			} else {
				nB++
			}
			fmt.Fprintf(&body, " | %c:%d:%s:%s", d.who, d.at.Milliseconds(), hexOrDash(dcid), hexOrDash(token))
		}
		offs := "-"
		if len(sr.tokAll) > 0 {
			var o []string
			for _, x := range sr.tokAll {
				o = append(o, strconv.Itoa(x))
			}
			offs = strings.Join(o, ".")
		}
		res = fmt.Sprintf("err=%s/%s tokoffs=%s nA=%d nB=%d %s%s", errClass(errA), errClass(errB), offs, nA, nB, afterDial(spec, bufs), body.String())
	})
	return res
}

// ---------------------------------------------------------------- generator

type runner struct {
	base   string // config part of the op line for this case
	liveP  int
	ovP    int // percentage of overlap ops
	shared *quic.Config // the caller's long-lived *Config, reused by every dial of the case that says shr=1
	// the caller's long-lived *QUICSpec (shs=1) with the buffers its slices are windows on
	spec    *quic.QUICSpec
	bufs    *specBufs
	specKey string
}

var ipnChoices = []uint64{0, 1, 2, 255, 300, 1 << 31, 1<<62 - 1, 1 << 62, 1<<64 - 1}

func genRF(r *vh.Rand, length int) string {
	minPing := r.Intn(3)
	maxPing := minPing + r.Intn(4)
	minC := 1 + r.Intn(6)
	maxC := minC + r.Intn(9)
	minPad, maxPad := 0, 0
	if length > 0 {
		minPad = 1 + r.Intn(3)
		maxPad = minPad + r.Intn(5)
	}
	return fmt.Sprintf("%d.%d.%d.%d.%d.%d.%d", minPing, maxPing, minC, maxC, minPad, maxPad, length)
}

func genQF(r *vh.Rand) string {
	switch r.Intn(6) {
	case 0:
		return "qf:"
	case 1:
		return "qf:C0.0"
	case 2:
		k := 1 + r.Intn(60)
		return fmt.Sprintf("qf:G,C0.%d,P%d,C%d.0", k, 1+r.Intn(20), k)
	case 3:
		k := 1 + r.Intn(100)
		return fmt.Sprintf("qf:C%d.0,G,G,C0.%d,P%d", k, k, 1+r.Intn(200))
	case 4:
		a, b := 1+r.Intn(30), 1+r.Intn(30)
		return fmt.Sprintf("qf:P%d,C0.%d,C%d.%d,G,C%d.0", 1+r.Intn(5), a, a, b, a+b)
	default:
		return "qf:G,C0.0,G"
	}
}

func genFlight(r *vh.Rand, pad int) string {
	switch r.Intn(6) {
	case 0: // tail first, then head; middle in the second datagram
		h, t := 1+r.Intn(80), 1+r.Intn(120)
		return fmt.Sprintf("ff:C-%d.0,C0.%d|C%d.-%d", t, h, h, t)
	case 1: // fixed cuts
		a := 200 + r.Intn(900)
		return fmt.Sprintf("ff:C0.%d,G|C%d.0", a, a)
	case 5: // a plan that leaves a gap in the CRYPTO stream: rejected, nothing may be sent
		a := 50 + r.Intn(100)
		return fmt.Sprintf("ff:C0.%d,G|C%d.0", a, a+1+r.Intn(40))
	case 2: // three datagrams, the last a lone PING (excluded point for short pn lengths)
		a := 100 + r.Intn(900)
		return fmt.Sprintf("ff:C0.%d|C%d.0|G", a, a)
	case 3:
		h, t := 1+r.Intn(80), 1+r.Intn(200)
		return fmt.Sprintf("rff:-%d.0;0.%d@%s|%d.-%d@%s", t, h, genRF(r, []int{0, 0, 900, 1180}[r.Intn(4)]), h, t, genRF(r, 0))
	default:
		a := 300 + r.Intn(800)
		return fmt.Sprintf("rff:0.%d@%s|%d.0@%s", a, genRF(r, 0), a, genRF(r, []int{0, 1100}[r.Intn(2)]))
	}
}

func (rn *runner) genBase(r *vh.Rand) string {
	rn.liveP = 35
	kind := r.Pick(18, 38, 30, 6, 8)
	if kind == 4 {
		return rn.genCapacitySweep(r)
	}
	if kind == 0 {
		name := builtinNames[r.Intn(len(builtinNames))]
		s, _ := quic.QUICID2Spec(builtins[name])
		d, ok := describe(&s)
		if !ok {
			return ""
		}
		ips := []int{0, 0, 0, 1200, 1350, 1452}[r.Intn(6)]
		return fmt.Sprintf("id=%s ips=%d %s ch=id shr=%d", name, ips, d, r.Intn(2))
	}
	ips := []int{0, 0, 0, 1200, 1252, 1350, 1452}[r.Intn(7)]
	// connection ID lengths 0..20 (DCID mostly valid for a server: 0 = library default, or >= 8)
	scid := r.Intn(21)
	var dcid int
	switch r.Pick(20, 70, 10) {
	case 0:
		dcid = 0
	case 1:
		dcid = 8 + r.Intn(13)
	default:
		dcid = 1 + r.Intn(7)
	}
	ipn := ipnChoices[r.Pick(25, 25, 10, 8, 8, 8, 6, 5, 5)]
	pnl1 := []int{0, 0, 1, 2, 3, 4}[r.Intn(6)]
	pnls := [][]int{nil, nil, {1}, {2}, {3}, {4}, {1, 2}, {4, 1}, {2, 1, 4}, {1, 1, 2, 3}}[r.Intn(10)]
	pnlS := "-"
	if len(pnls) > 0 {
		var p []string
		for _, l := range pnls {
			p = append(p, strconv.Itoa(l))
		}
		pnlS = strings.Join(p, ".")
	}
	tok := "-"
	switch r.Pick(40, 20, 40) {
	case 1:
		tok = "x:" + hex.EncodeToString(r.Bytes(1+r.Intn(70)))
	case 2:
		pl := []int{0, 0, 1, 1, 3, 8}[r.Intn(6)]
		tl := []int{0, 1, 2, 8, 16, 70, 63, 64}[r.Intn(8)]
		if pl == 0 && tl == 0 {
			tl = 16
		}
		tok = fmt.Sprintf("p:%s:%d", hex.EncodeToString(r.Bytes(pl)), tl)
	}
	udp := []int{0, 0, 0, 1200, 1250, 1357, 1200, 1357, 1452, 1500, 2000}[r.Intn(11)] // above 1452: capped at the buffer
	chBase := []string{"ff", "ff", "c115", "c146"}[r.Intn(4)]
	pad := []int{0, 0, 300, 900, 1500, 2200, 2900}[r.Intn(7)]
	fb := "nil"
	plans := "-"
	if kind == 1 { // header-focused: simple framing
		if r.Chance(70) {
			fb = genQF(r)
		}
		if r.Chance(25) {
			plans = []string{"0/1200", "0/1250", "0/1350", "400/1200,0/1200", "999/1200,0/1200", "0/0", "700/0"}[r.Intn(7)]
		}
	} else if kind == 2 { // framing/size-focused
		switch r.Pick(30, 15, 35, 20) {
		case 0:
			fb = "rf:" + genRF(r, []int{0, 900, 1150, 1180, 1215, 1195}[r.Intn(6)])
		case 1:
			fb = "md:" + genRF(r, 1180) + "|" + genRF(r, []int{0, 1100}[r.Intn(2)])
		case 2:
			fb = genFlight(r, pad)
		default:
			fb = genQF(r)
		}
		if r.Chance(50) {
			c1 := []int{0, 63, 64, 500, 999, 1100}[r.Intn(6)]
			s1 := []int{0, 1200, 1250, 1300, 1400}[r.Intn(5)]
			s2 := []int{0, 1200, 1232}[r.Intn(3)]
			plans = fmt.Sprintf("%d/%d,0/%d", c1, s1, s2)
			if r.Chance(30) {
				plans = fmt.Sprintf("%d/%d", c1, s1)
			}
		}
	} else { // excluded points of `decryptable`
		switch r.Intn(3) {
		case 0: // lone PING datagram with a 1-byte packet number
			a := 100 + r.Intn(900)
			fb = fmt.Sprintf("ff:C0.%d|C%d.0|G", a, a)
			pnl1, pnlS = 1, "-"
			if r.Bool() {
				pnlS = "2.2.1"
			}
			pad = []int{0, 300}[r.Intn(2)]
			ipn = uint64(r.Intn(2))
		case 1: // first packet number not representable in its encoding
			ipn = []uint64{300, 256, 70000, 1 << 31, 1 << 32, 1<<62 - 1}[r.Intn(6)]
			pnl1, pnlS = []int{1, 2}[r.Intn(2)], "-"
		default: // DCID shorter than 8 bytes
			dcid = 1 + r.Intn(7)
		}
		rn.liveP = 60
	}
	if kind != 3 && r.Chance(3) { // an encoding length no packet number can have: the dial must fail cleanly
		pnl1, pnlS = []int{5, 7}[r.Intn(2)], "-"
	}
	if kind == 2 && strings.HasPrefix(fb, "rf:") && r.Chance(6) { // bounds the builder rejects
		fb = []string{"rf:3.1.1.2.0.0.0", "rf:0.1.0.2.0.0.0", "rf:0.1.4.2.0.0.0", "rf:0.1.1.2.0.3.900", "rf:0.1.1.2.4.2.900"}[r.Intn(5)]
	}
	// (QUICFrames layouts with offsets used to panic in the run loop when a datagram's CRYPTO share was
	// shorter than the layout; since /repo 059c38c build() clamps, so they run on multi-datagram flights too)
	// keep flights short: a CryptoLength that repeats (last plan entry; or the first one on the pass-through
	// path, whose plan index never advances) cuts the ClientHello into est/c datagrams, and more than ~10
	// datagrams at one virtual instant make the pacer spin under synctest's frozen clock
	if plans != "-" {
		est := map[string]int{"ff": 520, "c115": 320, "c146": 1800}[chBase] + pad
		ps := strings.Split(plans, ",")
		rep := atoi(strings.Split(ps[len(ps)-1], "/")[0])
		if fb == "nil" || fb == "qf:" {
			rep = atoi(strings.Split(ps[0], "/")[0])
		}
		if rep > 0 && est/rep > 5 {
			pad = 0
			if chBase == "c146" {
				chBase = "ff"
			}
			if est = map[string]int{"ff": 520, "c115": 320}[chBase]; est/rep > 5 {
				plans = "0/1250"
			}
		}
	}
	return fmt.Sprintf("id=- ips=%d scid=%d dcid=%d ipn=%d pnl1=%d pnls=%s tok=%s udp=%d plans=%s fb=%s ch=%s+%d shr=%d",
		ips, scid, dcid, ipn, pnl1, pnlS, tok, udp, plans, fb, chBase, pad, r.Intn(2))
}

func vlen(v int) int {
	switch {
	case v < 64:
		return 1
	case v < 16384:
		return 2
	}
	return 4
}

// genCapacitySweep: a CryptoLength within +-20 bytes of what ONE maximum-size Initial can carry (the budget
// comparison in PackCoalescedPacket), with a ClientHello long enough to fill it and builders that add nothing.
func (rn *runner) genCapacitySweep(r *vh.Rand) string {
	rn.liveP = 30
	ips := []int{0, 0, 1200, 1252, 1350, 1400}[r.Intn(6)]
	maxSize := ips
	if ips == 0 {
		maxSize = 1280
	}
	scid := []int{0, 0, 3, 8, 20}[r.Intn(5)]
	dcid := 8 + r.Intn(13)
	pnl1 := []int{1, 2, 4}[r.Intn(3)]
	tok, tokLen := "-", 0
	switch r.Intn(4) {
	case 0:
		tokLen = 1 + r.Intn(70)
		tok = "x:" + hex.EncodeToString(r.Bytes(tokLen))
	case 1:
		tokLen = []int{16, 63, 64, 70}[r.Intn(4)]
		tok = fmt.Sprintf("p:00:%d", tokLen)
	}
	hdr := 1 + 4 + 1 + dcid + 1 + scid + pnl1 + 2 + vlen(tokLen) + tokLen
	capacity := maxSize - 16 - hdr - (1 + 1 + 2) // one CRYPTO frame at offset 0 with a 2-byte length
	c := capacity + int(r.Range(-20, 20))
	fb := []string{"nil", "nil", "qf:", "qf:C0.0", "rf:0.0.1.1.0.0.0"}[r.Intn(5)]
	plans := fmt.Sprintf("%d/0", c)
	if r.Bool() {
		plans += ",0/0"
	}
	chBase := []string{"ff", "c115", "c146"}[r.Intn(3)]
	pad := []int{1500, 2200}[r.Intn(2)]
	udp := []int{0, 0, 1357}[r.Intn(3)]
	return fmt.Sprintf("id=- ips=%d scid=%d dcid=%d ipn=%d pnl1=%d pnls=- tok=%s udp=%d plans=%s fb=%s ch=%s+%d shr=%d",
		ips, scid, dcid, r.Intn(2), pnl1, tok, udp, plans, fb, chBase, pad, r.Intn(2))
}

var tokRe = regexp.MustCompile(` tok=\S+`)

func (rn *runner) GenOp(r *vh.Rand, i int) string {
	if i == 0 || rn.base == "" {
		rn.base = rn.genBase(r)
		if rn.base == "" {
			return ""
		}
		// Round 4: the spec's slices are windows on caller-owned buffers with spare capacity (60%), and ONE spec
		// value serves every dial of the case (50%)
		rn.base += fmt.Sprintf(" slk=%d shs=%d", b2i(r.Chance(60)), b2i(r.Bool()))
		rn.ovP = 6
		if strings.Contains(rn.base, " tok=p:") || strings.HasPrefix(rn.base, "id=Chrome") {
			rn.ovP = 14
		}
	}
	mode := "dead"
	if r.Chance(rn.liveP) {
		mode = "live"
	}
	script := r.Bytes(160)
	if r.Chance(15) { // extreme draws: all-ones / all-zeros bytes drive the builders to their bounds
		b := byte(0xff)
		if r.Bool() {
			b = 0
		}
		for k := 48; k < len(script); k++ {
			script[k] = b
		}
	}
	base := rn.base
	if i > 0 && strings.HasPrefix(base, "id=- ") && r.Chance(40) {
		// another spec through the same caller Config: the token setting changes between the dials of a case
		// (token spec, then a spec that specifies NO token, and the other way round)
		if strings.Contains(base, " tok=- ") {
			base = strings.Replace(base, " tok=- ", []string{" tok=p:00:70 ", " tok=p::16 ", " tok=x:a1b2c3d4 "}[r.Intn(3)], 1)
		} else {
			base = tokRe.ReplaceAllString(base, " tok=-")
		}
	}
	if r.Chance(rn.ovP) {
		// two dials with one spec value that OVERLAP: B's token is made while A still has Initial packets to send
		return fmt.Sprintf("overlap mode=dead %s gap=%d script=%s", base, []int{1, 5, 30, 150, 250}[r.Intn(5)], hex.EncodeToString(script))
	}
	return fmt.Sprintf("dial mode=%s %s script=%s", mode, base, hex.EncodeToString(script))
}

func b2i(b bool) int {
	if b {
		return 1
	}
	return 0
}

func (rn *runner) Exec(op string) string {
	if !strings.HasPrefix(op, "dial ") && !strings.HasPrefix(op, "overlap ") {
		return "bad-op"
	}
	if os.Getenv("VH_DEBUG_OPS") != "" {
		fmt.Fprintln(os.Stderr, "OP", op)
	}
	c, err := parseCfg(op)
	if err != nil {
		return "bad-op " + err.Error()
	}
	if c.id != "-" && c.id != "" { // the described fields must be the built-in's (the oracle judges against them)
		s, err := buildSpec(c)
		if err != nil {
			return "bad-op " + err.Error()
		}
		d, ok := describe(s)
		if !ok || !strings.Contains(op, " "+d+" ") {
			return "cfg-mismatch " + d
		}
	}
	// real-time watchdog (outside the bubble): a dial is a few milliseconds of CPU; a run loop that spins
	// under the frozen virtual clock must not hang the check
	done := make(chan struct{})
	go func() {
		select {
		case <-done:
		case <-time.After(90 * time.Second):
			fmt.Fprintln(os.Stderr, "initial driver: watchdog: dial did not finish within 90 s of real time:", op)
			os.Exit(3)
		}
	}()
	defer close(done)
	if strings.HasPrefix(op, "overlap ") {
		return rn.overlap(c)
	}
	return rn.dial(c)
}

func newRunner(r *vh.Rand) vh.Runner { return &runner{} }

func TestDriver(t *testing.T) {
	theT = t
	vh.Main(t, "initial", newRunner)
}

var _ = io.EOF
var _ = quicvarint.Len
