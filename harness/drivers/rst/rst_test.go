//go:build verif

// Package rst is the C13 driver for STATE CARRIED ACROSS A RESET of the connection (round 5).
//
// Framer cases: the real framer (framer.go) under the calls a connection makes on it, with 0-RTT rejections at
// generated points of the history: streams register data (fadd), complete (frm), announce control frames (fctl),
// control frames are queued (fq), the server rejects 0-RTT (frej: the streams are closed, Handle0RTTRejection), a
// packet is packed (fpop: framer.Append with room for everything). Every result ends with the framer's HasData();
// nothing but the framer's methods is used.
//
//	fadd <id> <n> | frm <id> | fctl <id> <n> | fq <kind> <tag> | frej | fpop
//	result: [ctl=<frames|-> str=<stream ids|-> |] has=<0|1>
//
// Spec cases: ONE ClientHelloSpec value whose transport-parameter slice is a window on a caller-owned array with
// spare capacity (canary parameters behind the slice); every sdial is one connection's worth of spec handling (the
// real cloneClientHelloSpecForDial, then suppress + PopulateFromUQUIC on the copy, as newUClientConnection does) and
// reports what that connection would send and what the caller's WHOLE array reads now.
//
//	snew k=<len> cap=<cap> isc=<position|-1> iscval=<xHEX>        result: arr=<params>
//	sdial scid=<xHEX> sup=<ids|->                                result: sent=<params|-> arr=<params>
//	params: <id>:x<hex value>,…
package rst

import (
	"encoding/hex"
	"fmt"
	"strconv"
	"strings"
	"testing"

	quic "github.com/refraction-networking/uquic"
	"github.com/refraction-networking/uquic/internal/verifharness/vh"
	tls "github.com/refraction-networking/utls"
)

type runner struct {
	spec  bool // generator: a spec case (else a framer case)
	fr    *quic.VerifRstFramer
	tag   uint64
	chs   *tls.ClientHelloSpec
	arr   tls.TransportParameters // the caller's whole backing array
	hasIs bool
	nd    int
}

func newRunner(r *vh.Rand) vh.Runner {
	return &runner{spec: r.Chance(30)}
}

var fids = []int64{0, 4, 8, 12, 2, 6}
var kinds = []string{"maxdata", "maxstreamdata", "maxstreams", "datablocked", "streamdatablocked", "streamsblocked", "newtoken", "stopsending", "retirecid", "ping"}

func (rn *runner) GenOp(r *vh.Rand, i int) string {
	if rn.spec {
		if i == 0 || r.Chance(4) {
			k := 1 + r.Intn(6)
			isc := -1
			if r.Chance(85) {
				isc = r.Intn(k)
			}
			val := "x"
			if r.Chance(12) {
				val = "x" + hex.EncodeToString(r.Bytes(1+r.Intn(8)))
			}
			return fmt.Sprintf("snew k=%d cap=%d isc=%d iscval=%s", k, k+r.Pick(30, 30, 20, 20), isc, val)
		}
		sup := "-"
		if r.Chance(35) {
			var ids []string
			for j := r.Pick(0, 60, 30, 10); j > 0; j-- {
				if r.Chance(8) {
					ids = append(ids, "15")
				} else {
					ids = append(ids, strconv.Itoa(0x4000+r.Intn(7)))
				}
			}
			sup = strings.Join(ids, ",")
		}
		return fmt.Sprintf("sdial scid=x%s sup=%s", hex.EncodeToString(r.Bytes(r.Pick(5, 0, 0, 30, 20, 10, 5, 5, 25))), sup)
	}
	id := fids[r.Pick(30, 25, 15, 10, 10, 10)]
	switch r.Pick(34, 6, 8, 14, 12, 26) {
	case 0:
		return fmt.Sprintf("fadd %d %d", id, r.Pick(8, 45, 30, 17))
	case 1:
		return fmt.Sprintf("frm %d", id)
	case 2:
		return fmt.Sprintf("fctl %d %d", id, r.Pick(15, 60, 25))
	case 3:
		rn.tag++
		return fmt.Sprintf("fq %s %d", kinds[r.Intn(len(kinds))], rn.tag)
	case 4:
		return "frej"
	}
	return "fpop"
}

func ids(l []int64) string {
	if len(l) == 0 {
		return "-"
	}
	var s []string
	for _, x := range l {
		s = append(s, strconv.FormatInt(x, 10))
	}
	return strings.Join(s, ",")
}

func strs(l []string) string {
	if len(l) == 0 {
		return "-"
	}
	return strings.Join(l, ",")
}

func (rn *runner) state() string {
	if rn.fr.HasData() {
		return "has=1"
	}
	return "has=0"
}

func params(ps tls.TransportParameters) string {
	if len(ps) == 0 {
		return "-"
	}
	var s []string
	for _, p := range ps {
		if p == nil {
			s = append(s, "nil")
			continue
		}
		s = append(s, fmt.Sprintf("%d:x%s", p.ID(), hex.EncodeToString(p.Value())))
	}
	return strings.Join(s, ",")
}

func kv(f []string) map[string]string {
	m := map[string]string{}
	for _, w := range f {
		if i := strings.IndexByte(w, '='); i > 0 {
			m[w[:i]] = w[i+1:]
		}
	}
	return m
}

func unhex(s string) ([]byte, bool) {
	if !strings.HasPrefix(s, "x") {
		return nil, false
	}
	b, err := hex.DecodeString(s[1:])
	return b, err == nil
}

func (rn *runner) Exec(op string) string {
	f := strings.Fields(op)
	if len(f) == 0 {
		return "bad-op"
	}
	num := func(i int) (int64, bool) {
		if i >= len(f) {
			return 0, false
		}
		n, err := strconv.ParseInt(f[i], 10, 64)
		return n, err == nil && n >= 0 && n < 1<<20
	}
	if strings.HasPrefix(f[0], "f") && rn.fr == nil {
		rn.fr = quic.VerifNewRstFramer()
	}
	switch f[0] {
	case "fadd", "fctl":
		id, ok1 := num(1)
		n, ok2 := num(2)
		if !ok1 || !ok2 || n > 8 {
			return "skip"
		}
		if f[0] == "fadd" {
			rn.fr.AddStream(id, int(n))
		} else {
			rn.fr.AddCtl(id, int(n))
		}
		return rn.state()
	case "frm":
		id, ok := num(1)
		if !ok {
			return "skip"
		}
		rn.fr.RemoveStream(id)
		return rn.state()
	case "fq":
		tag, ok := num(2)
		if !ok || len(f) < 3 || tag > 60000 || !rn.fr.Queue(f[1], uint64(tag)) {
			return "skip"
		}
		return rn.state()
	case "frej":
		rn.fr.Reject()
		return rn.state()
	case "fpop":
		ctl, str := rn.fr.Append()
		return fmt.Sprintf("ctl=%s str=%s | %s", strs(ctl), ids(str), rn.state())
	case "snew":
		m := kv(f[1:])
		k, _ := strconv.Atoi(m["k"])
		c, _ := strconv.Atoi(m["cap"])
		isc, _ := strconv.Atoi(m["isc"])
		val, ok := unhex(m["iscval"])
		if !ok || k < 1 || k > 16 || c < k || c > 32 || isc >= k {
			return "skip"
		}
		rn.arr = make(tls.TransportParameters, c)
		for i := range rn.arr {
			switch {
			case i == isc:
				rn.arr[i] = tls.InitialSourceConnectionID(val)
			case i < k:
				rn.arr[i] = &tls.FakeQUICTransportParameter{Id: uint64(0x4000 + i), Val: []byte{byte(i)}}
			default: // spare capacity behind the spec's slice: canaries
				rn.arr[i] = &tls.FakeQUICTransportParameter{Id: uint64(0x5000 + i), Val: []byte{0xc5}}
			}
		}
		rn.chs = &tls.ClientHelloSpec{Extensions: []tls.TLSExtension{
			&tls.SNIExtension{},
			&tls.QUICTransportParametersExtension{TransportParameters: rn.arr[:k]}, // len k, capacity c
			&tls.ALPNExtension{AlpnProtocols: []string{"h3"}},
		}}
		return "arr=" + params(rn.arr)
	case "sdial":
		if rn.chs == nil {
			return "skip"
		}
		m := kv(f[1:])
		scid, ok := unhex(m["scid"])
		if !ok || len(scid) > 20 {
			return "skip"
		}
		var sup []uint64
		if m["sup"] != "-" && m["sup"] != "" {
			for _, w := range strings.Split(m["sup"], ",") {
				n, err := strconv.ParseUint(w, 10, 32)
				if err != nil {
					return "skip"
				}
				sup = append(sup, n)
			}
		}
		sent := quic.VerifDialSpecCopy(rn.chs, scid, sup)
		return fmt.Sprintf("sent=%s arr=%s", params(sent), params(rn.arr))
	}
	return "bad-op"
}

func TestDriver(t *testing.T) { vh.Main(t, "rst", newRunner) }
