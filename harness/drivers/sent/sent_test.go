//go:build verif

// Package sent drives the real ackhandler.SentPacketHandler (property C06).
//
// Line protocol (all times in ns on a virtual clock the generator advances):
//
//	init client=<0|1> pn=<initialPN> val=<0|1> ecn=<0|1> ql=<0|1> u=<0|1> pl=<n> pls=<a;b|-> base=<n> mad=<ns>
//	send <lvl> <now> <largestAckedInPkt> <size> <mtu> <probe> <frames|->   frames: c<id>/s<id> (Frames/StreamFrames), C/S = nil Handler
//	ack <lvl> <now> <delayNs> <ect0,ect1,ce> r=<lo-hi;…>                  ranges in wire order (highest first)
//	timeout <now> | probe <lvl> | drop <lvl> <now> | retry <now> | migrate <now> <mds>
//	rcvbytes <n> <now> | rcvpkt <lvl> <now> | mode <now> | peek <lvl> | mad <ns>
//
// Result: `<res> | env=<latestRTT>,<smoothedRTT>,<PTO(false)>,<PTO(true)>,<nextToSkip> | <VerifSentState()>`.
package sent

import (
	"crypto/rand"
	"fmt"
	"io"
	"sort"
	"strings"
	"testing"
	"time"

	"github.com/refraction-networking/uquic/internal/ackhandler"
	"github.com/refraction-networking/uquic/internal/monotime"
	"github.com/refraction-networking/uquic/internal/protocol"
	"github.com/refraction-networking/uquic/internal/qerr"
	"github.com/refraction-networking/uquic/internal/utils"
	"github.com/refraction-networking/uquic/internal/verifharness/vh"
	"github.com/refraction-networking/uquic/internal/wire"
	"github.com/refraction-networking/uquic/qlogwriter"
)

type verifHooks interface {
	VerifSentState() string
	VerifAppGen() (next, nextToSkip int64)
	VerifCongestion(now monotime.Time) (canSend, pacingBudget bool)
}

type nullRecorder struct{ n int }

func (r *nullRecorder) RecordEvent(qlogwriter.Event) { r.n++ }
func (r *nullRecorder) Close() error                 { return nil }

// scriptedReader replaces crypto/rand.Reader (used by the skipping packet number generator) so that small
// skip distances occur: mode 1 = always 0..7, mode 2 = half of the draws 0..7, the rest uniform.
type scriptedReader struct {
	mode int
	r    *vh.Rand
}

var realRandReader io.Reader = rand.Reader

func (s *scriptedReader) Read(b []byte) (int, error) {
	if s.mode == 0 {
		return realRandReader.Read(b)
	}
	small := s.mode == 1 || s.r.Bool()
	for i := range b {
		b[i] = byte(s.r.U64())
		if small && i < len(b)-1 {
			b[i] = 0
		}
		if small && i == len(b)-1 {
			b[i] &= 7
		}
	}
	return len(b), nil
}

type ackSpec struct {
	lvl    string
	delay  int64
	ranges string
}

type runner struct {
	h   ackhandler.SentPacketHandler
	vs  verifHooks
	rtt *utils.RTTStats
	evs []string
	ecn bool

	dead bool // a panic escaped an operation: the connection would be gone

	// exec-side knowledge used by the generator
	client  bool
	dropped [2]bool
	hsSent  bool
	sentA   bool // a 1-RTT packet was sent
	bs, br  int64 // bytes sent / received so far (what the amplification limit compares)
	valid   bool  // the peer's address is validated (amplification limit off)
	mtuPNs  map[int64]bool // application-data packet numbers that were Path MTU probes
	sent    [3][]int64 // packet numbers sent per space (since creation / Retry)
	peer    [3][]int64 // those the simulated peer received
	stale   []ackSpec

	// generator state
	now       int64
	nextFrame int
	style     int
	inited    bool
	zeroPhase bool // this client starts with 0-RTT data
	draining  int
	ad        int // style 4: position in the anti-deadlock script (adDone when it is over)
	adVar     int // … and which variant of it
	adLeft    int // … 0-RTT packets still to send
}

const adDone = 100

func (rn *runner) OnAcked(f wire.Frame) { rn.evs = append(rn.evs, "a"+frameID(f)) }
func (rn *runner) OnLost(f wire.Frame)  { rn.evs = append(rn.evs, "l"+frameID(f)) }

func frameID(f wire.Frame) string {
	switch x := f.(type) {
	case *wire.MaxDataFrame:
		return fmt.Sprint(uint64(x.MaximumData))
	case *wire.StreamFrame:
		return fmt.Sprint(uint64(x.StreamID))
	}
	return "?"
}

func (rn *runner) create(client bool, pn int64, val, ecn, ql, u bool, pl int64, pls []protocol.PacketNumberLen, base int64, mad int64, rnd int) {
	rand.Reader = &scriptedReader{mode: rnd, r: vh.NewRand(uint64(pn)*31 + uint64(rnd))}
	rn.rtt = utils.NewRTTStats()
	rn.rtt.SetMaxAckDelay(time.Duration(mad))
	pers := protocol.PerspectiveServer
	if client {
		pers = protocol.PerspectiveClient
	}
	var rec qlogwriter.Recorder
	if ql {
		rec = &nullRecorder{}
	}
	ign := func(p protocol.PacketNumber) { rn.evs = append(rn.evs, fmt.Sprintf("i%d", p)) }
	if u {
		rn.h = ackhandler.NewUAckHandler(protocol.PacketNumber(pn), 1252, rn.rtt, &utils.ConnectionStats{}, val, ecn, ign, pers, rec, utils.DefaultLogger)
		if pl != 0 {
			ackhandler.SetInitialPacketNumberLength(rn.h, protocol.PacketNumberLen(pl))
		}
		if len(pls) > 0 {
			ackhandler.SetInitialPacketNumberLengths(rn.h, protocol.PacketNumber(base), pls)
		}
	} else {
		rn.h = ackhandler.NewSentPacketHandler(protocol.PacketNumber(pn), 1252, rn.rtt, &utils.ConnectionStats{}, val, ecn, ign, pers, rec, utils.DefaultLogger)
	}
	rn.vs = rn.h.(verifHooks)
	rn.ecn = ecn
	rn.client = client
	rn.dropped = [2]bool{}
	rn.hsSent = false
	rn.sentA = false
	rn.bs, rn.br = 0, 0
	rn.valid = client || val
	rn.mtuPNs = map[int64]bool{}
	rn.sent = [3][]int64{}
	rn.peer = [3][]int64{}
	rn.stale = nil
	rn.dead = false
}

func newRunner(r *vh.Rand) vh.Runner {
	rn := &runner{now: 1_000_000_000 + r.Range(0, 1_000_000_000)}
	// default configuration (what the oracle assumes when the `init` line is absent)
	rn.create(true, 0, false, false, false, false, 0, nil, 0, 25_000_000, 0)
	// mixed / PTO storms / server amplification / bulk sending (congestion and pacing limits) / anti-deadlock PTO of a 0-RTT client
	rn.style = r.Pick(40, 22, 13, 13, 12)
	rn.zeroPhase = r.Chance(35)
	if rn.style == 4 {
		rn.zeroPhase = true
	}
	return rn
}

var lvlNames = []string{"I", "H", "Z", "A"}

func lvlOf(s string) protocol.EncryptionLevel {
	switch s {
	case "I":
		return protocol.EncryptionInitial
	case "H":
		return protocol.EncryptionHandshake
	case "Z":
		return protocol.Encryption0RTT
	case "A":
		return protocol.Encryption1RTT
	}
	return protocol.EncryptionLevel(0)
}

func space(l string) int {
	switch l {
	case "I":
		return 0
	case "H":
		return 1
	}
	return 2
}

// ---------------------------------------------------------------- generator

func (rn *runner) tick(r *vh.Rand) {
	if rn.style == 3 && r.Chance(85) {
		rn.now += r.Range(0, 100_000)
		return
	}
	switch r.Pick(60, 25, 10, 5) {
	case 0:
		rn.now += r.Range(0, 2_000_000)
	case 1:
		rn.now += r.Range(2_000_000, 40_000_000)
	case 2:
		rn.now += r.Range(40_000_000, 400_000_000)
	default:
		rn.now += r.Range(400_000_000, 3_000_000_000)
	}
}

func (rn *runner) liveLevel(r *vh.Rand) string {
	for k := 0; k < 8; k++ {
		var l string
		if !rn.dropped[0] || !rn.dropped[1] {
			l = lvlNames[r.Pick(30, 25, 8, 37)]
		} else {
			l = lvlNames[r.Pick(1, 1, 3, 95)]
		}
		if (l == "I" && rn.dropped[0]) || (l == "H" && rn.dropped[1]) {
			if r.Chance(3) { // dropped space: the model predicts the nil dereference
				return l
			}
			continue
		}
		if l == "Z" && (!rn.client || (rn.sentA && !r.Chance(10))) {
			continue // 0-RTT packets come from a client and (nearly always) before the first 1-RTT packet
		}
		if l == "A" && rn.client && !rn.sentA && rn.zeroPhase && r.Chance(85) {
			l = "Z"
		}
		return l
	}
	return "A"
}

func rangesOf(pns []int64, maxRanges int) string {
	if len(pns) == 0 {
		return ""
	}
	s := append([]int64(nil), pns...)
	sort.Slice(s, func(i, j int) bool { return s[i] > s[j] })
	var parts []string
	hi, lo := s[0], s[0]
	for _, p := range s[1:] {
		if p == lo {
			continue
		}
		if p == lo-1 {
			lo = p
			continue
		}
		parts = append(parts, fmt.Sprintf("%d-%d", lo, hi))
		if len(parts) >= maxRanges {
			return strings.Join(parts, ";")
		}
		hi, lo = p, p
	}
	parts = append(parts, fmt.Sprintf("%d-%d", lo, hi))
	return strings.Join(parts, ";")
}

func (rn *runner) genFrames(r *vh.Rand, n int, onlyControl bool) string {
	var fs []string
	withHandler := false
	for i := 0; i < n; i++ {
		rn.nextFrame++
		k := r.Pick(55, 30, 8, 7)
		if onlyControl {
			k = 1
		}
		switch k {
		case 0:
			fs = append(fs, fmt.Sprintf("s%d", rn.nextFrame))
			withHandler = true
		case 1:
			fs = append(fs, fmt.Sprintf("c%d", rn.nextFrame))
			withHandler = true
		case 2:
			fs = append(fs, fmt.Sprintf("S%d", rn.nextFrame))
		default:
			fs = append(fs, fmt.Sprintf("C%d", rn.nextFrame))
		}
	}
	_ = withHandler
	return strings.Join(fs, ",")
}

func (rn *runner) genSend(r *vh.Rand) string {
	l := rn.liveLevel(r)
	la := int64(-1)
	if l == "A" && r.Chance(30) {
		la = r.Range(0, 60)
	}
	switch {
	case l == "A" && r.Chance(5): // path probe: control frames with handlers only (what the path manager sends)
		return fmt.Sprintf("send A %d -1 1200 0 1 %s", rn.now, rn.genFrames(r, 1+r.Intn(2), true))
	case l == "A" && r.Chance(5): // MTU probe
		return fmt.Sprintf("send A %d %d %d 1 0 %s", rn.now, la, r.Range(1253, 1500), rn.genFrames(r, 1, true))
	case r.Chance(15): // not ack-eliciting (ACK only)
		return fmt.Sprintf("send %s %d %d %d 0 0 -", l, rn.now, r.Range(0, 80), r.Range(25, 60))
	}
	lo := int64(25)
	if rn.style == 3 {
		lo = 1200
	}
	size := r.Range(lo, 1452)
	// an unvalidated server often fills its amplification budget exactly (bytesSent == 3 * bytesReceived)
	if room := 3*rn.br - rn.bs; !rn.valid && room >= 20 && room <= 1452 && r.Chance(45) {
		size = room
	}
	return fmt.Sprintf("send %s %d %d %d 0 0 %s", l, rn.now, la, size, rn.genFrames(r, 1+r.Pick(60, 30, 10), false))
}

func (rn *runner) genAck(r *vh.Rand) string {
	// prefer a space in which something was sent
	var l string
	for k := 0; k < 6; k++ {
		l = rn.liveLevel(r)
		if l == "Z" {
			l = "A"
		}
		if len(rn.sent[space(l)]) > 0 {
			break
		}
	}
	sp := space(l)
	delay := r.Range(0, 30_000_000)
	ecn := fmt.Sprintf("%d,%d,%d", r.Intn(20), r.Intn(3), r.Intn(3))
	var rs string
	switch r.Pick(68, 10, 22) {
	case 0: // what a peer would send: ranges over packets it received
		got := rn.peer[sp]
		if len(got) > 0 && r.Chance(40) { // only the most recent ones
			s := append([]int64(nil), got...)
			sort.Slice(s, func(i, j int) bool { return s[i] < s[j] })
			got = s[r.Intn(len(s)):]
		}
		rs = rangesOf(got, 1+r.Intn(12))
		if rs != "" && r.Chance(30) {
			rn.stale = append(rn.stale, ackSpec{l, delay, rs})
			if len(rn.stale) > 6 {
				rn.stale = rn.stale[1:]
			}
		}
	case 1: // an older ACK arriving late (reordered)
		if len(rn.stale) > 0 {
			a := rn.stale[r.Intn(len(rn.stale))]
			l, delay, rs = a.lvl, a.delay, a.ranges
		}
	}
	if rs == "" { // arbitrary well-formed ranges: unsent, skipped and already resolved numbers included
		top := int64(3)
		if n := len(rn.sent[sp]); n > 0 {
			top = rn.sent[sp][n-1] + 3
			if r.Chance(80) {
				top = rn.sent[sp][n-1]
			}
		}
		hi := r.Range(0, top)
		if r.Chance(50) {
			hi = top
		}
		var parts []string
		for k := 1 + r.Intn(5); k > 0 && hi >= 0; k-- {
			lo := hi - r.Range(0, 6)
			if lo < 0 {
				lo = 0
			}
			parts = append(parts, fmt.Sprintf("%d-%d", lo, hi))
			hi = lo - 2 - r.Range(0, 4)
		}
		rs = strings.Join(parts, ";")
	}
	return fmt.Sprintf("ack %s %d %d %s r=%s", l, rn.now, delay, ecn, rs)
}

func (rn *runner) genTimeout(r *vh.Rand) string {
	al := int64(rn.h.GetLossDetectionTimeout())
	switch {
	case al != 0 && al >= rn.now:
		switch r.Pick(55, 25, 20) {
		case 0:
			rn.now = al // exactly at the deadline
		case 1:
			rn.now = al + r.Range(1, 50_000_000)
		default: // early: before the deadline
			rn.now += r.Range(0, al-rn.now)
		}
	default:
		rn.now += r.Range(0, 5_000_000)
	}
	return fmt.Sprintf("timeout %d", rn.now)
}

// genAntiDeadlock scripts the situation of /repo 23a90f5: a client sends its ClientHello and a flight of 0-RTT packets
// that (usually) fills the congestion window; then no Initial/Handshake packet stays outstanding — the Initial packet is
// acknowledged (variant 0), acknowledged and the Initial space dropped when the first Handshake packet goes out (1), or
// declared lost by a PTO probe that is queued but not sent yet (2) — while the ACKs for the 0-RTT packets, which travel
// in 1-RTT packets, do not arrive. The loss-detection alarm (the anti-deadlock PTO) fires at or after its deadline and
// SendMode is asked with the congestion controller saying no. Afterwards the case goes on like a mixed one.
func (rn *runner) genAntiDeadlock(r *vh.Rand) string {
	step := rn.ad
	rn.ad++
	switch {
	case step == 0:
		rn.adVar = r.Pick(50, 25, 25)
		rn.adLeft = 45 // more than the initial window (32 packets) holds
		if r.Chance(25) {
			rn.adLeft = int(r.Range(1, 6)) // or just a few: bytes in flight, not congestion limited
		}
		return fmt.Sprintf("send I %d -1 %d 0 0 %s", rn.now, r.Range(1200, 1252), rn.genFrames(r, 1, true))
	case step == 1: // the 0-RTT flight
		rn.now += r.Range(0, 50_000)
		cs, _ := rn.vs.VerifCongestion(monotime.Time(rn.now))
		if rn.adLeft > 0 && cs {
			rn.adLeft--
			rn.ad = 1
			rn.nextFrame++
			return fmt.Sprintf("send Z %d -1 %d 0 0 s%d", rn.now, r.Range(1200, 1252), rn.nextFrame)
		}
		return fmt.Sprintf("mode %d", rn.now)
	case step == 2:
		rn.now += r.Range(5_000_000, 80_000_000)
		if rn.adVar == 2 { // the PTO for the Initial packet fires …
			return rn.genTimeoutDue(r)
		}
		if len(rn.sent[0]) == 0 {
			return fmt.Sprintf("mode %d", rn.now)
		}
		pn := rn.sent[0][len(rn.sent[0])-1]
		return fmt.Sprintf("ack I %d %d 0,0,0 r=%d-%d", rn.now, r.Range(0, 3_000_000), pn, pn)
	case step == 3:
		switch rn.adVar {
		case 1: // first Handshake packet (an ACK) sent …
			return fmt.Sprintf("send H %d -1 %d 0 0 -", rn.now, r.Range(40, 80))
		case 2: // … and the connection queues the probe: the Initial packet is declared lost
			return "probe I"
		}
		return fmt.Sprintf("mode %d", rn.now)
	case step == 4:
		if rn.adVar == 1 { // … so the Initial keys are dropped
			return fmt.Sprintf("drop I %d", rn.now)
		}
		return fmt.Sprintf("peek I")
	case step == 5: // more early data fills the room the resolved Initial packet left in the window
		rn.now += r.Range(0, 50_000)
		if cs, _ := rn.vs.VerifCongestion(monotime.Time(rn.now)); cs && rn.adLeft > 0 {
			rn.adLeft--
			rn.ad = 5
			rn.nextFrame++
			return fmt.Sprintf("send Z %d -1 %d 0 0 s%d", rn.now, r.Range(1200, 1252), rn.nextFrame)
		}
		return fmt.Sprintf("mode %d", rn.now)
	case step == 6: // the anti-deadlock PTO
		return rn.genTimeoutDue(r)
	case step == 7:
		return fmt.Sprintf("mode %d", rn.now)
	case step == 8 && r.Chance(50): // and once more (PTO backoff)
		return rn.genTimeoutDue(r)
	case step == 9:
		rn.ad = adDone
		return fmt.Sprintf("mode %d", rn.now)
	}
	return ""
}

// genTimeoutDue lets the loss-detection alarm fire at or after its deadline.
func (rn *runner) genTimeoutDue(r *vh.Rand) string {
	if al := int64(rn.h.GetLossDetectionTimeout()); al != 0 && al >= rn.now {
		rn.now = al
		if r.Chance(30) {
			rn.now += r.Range(1, 20_000_000)
		}
	} else {
		rn.now += r.Range(0, 5_000_000)
	}
	return fmt.Sprintf("timeout %d", rn.now)
}

func (rn *runner) genInit(r *vh.Rand) string {
	client := r.Chance(60)
	if rn.style == 2 {
		client = false
	}
	if rn.style == 4 {
		client = true
	}
	pn := int64(0)
	if r.Chance(25) {
		pn = r.Range(1, 1<<20)
	}
	u, pl, pls, base := 0, int64(0), "-", int64(0)
	if r.Bool() {
		u = 1
		if r.Bool() {
			pl = r.Range(1, 4)
		}
		if r.Chance(40) {
			var xs []string
			for k := 1 + r.Intn(3); k > 0; k-- {
				xs = append(xs, fmt.Sprint(r.Range(1, 4)))
			}
			pls = strings.Join(xs, ";")
			base = pn + r.Range(-1, 2)
		}
	}
	val := r.Intn(2)
	if rn.style == 2 && r.Chance(80) {
		val = 0
	}
	return fmt.Sprintf("init client=%d pn=%d val=%d ecn=%d ql=%d u=%d pl=%d pls=%s base=%d mad=%d rnd=%d", b2i(client), pn, val, r.Intn(2), r.Intn(2), u, pl, pls, base,
		[]int64{0, 25_000_000, 1_000_000, 200_000_000}[r.Pick(10, 70, 10, 10)], r.Pick(40, 35, 25))
}

func b2i(b bool) int {
	if b {
		return 1
	}
	return 0
}

func (rn *runner) GenOp(r *vh.Rand, i int) string {
	if !rn.inited {
		rn.inited = true
		return rn.genInit(r)
	}
	if rn.dead {
		return ""
	}
	if rn.style == 4 && rn.ad < adDone {
		if op := rn.genAntiDeadlock(r); op != "" {
			return op
		}
	}
	// voluntary end of the case: acknowledge everything that is outstanding, let probes time out, stop
	if rn.draining == 0 && i > 8 && r.Chance(2) {
		rn.draining = 1
	}
	if rn.draining > 0 {
		st := rn.draining
		rn.draining++
		rn.now += 1_000_000
		switch st {
		case 1: // long silence, then one fresh application-data packet (gives the final ACK a small RTT sample)
			rn.now += 60_000_000_000
			return fmt.Sprintf("send A %d -1 40 0 0 %s", rn.now, rn.genFrames(r, 1, true))
		case 2, 3, 4:
			// acknowledge everything that is outstanding — except the Path MTU probes, which the peer never got:
			// everything sent a minute ago is long overdue, so loss detection has to report them lost
			rn.now += 20_000_000
			sp := st - 2
			l := []string{"I", "H", "A"}[sp]
			var pns []int64
			for _, p := range rn.sent[sp] {
				if sp != 2 || !rn.mtuPNs[p] {
					pns = append(pns, p)
				}
			}
			if (sp <= 1 && rn.dropped[sp]) || len(pns) == 0 {
				return fmt.Sprintf("mode %d", rn.now)
			}
			return fmt.Sprintf("ack %s %d 0 0,0,0 r=%s", l, rn.now, rangesOf(pns, 1<<30))
		case 5:
			rn.now += 2_000_000_000
			return fmt.Sprintf("timeout %d", rn.now)
		case 6:
			return fmt.Sprintf("mode %d", rn.now)
		}
		return ""
	}
	rn.tick(r)
	w := [][]int{
		//        send ack tmo probe drop retry migr rcvb rcvp mode peek mad
		/*mixed*/ {40, 24, 9, 3, 4, 1, 1, 4, 3, 6, 3, 2},
		/*pto*/ {28, 10, 38, 4, 5, 1, 1, 3, 2, 5, 2, 1},
		/*server*/ {36, 20, 10, 3, 4, 0, 1, 14, 6, 4, 1, 1},
		/*bulk*/ {62, 10, 3, 2, 2, 1, 1, 2, 1, 14, 1, 1},
		/*anti-deadlock, after its script*/ {36, 22, 14, 4, 4, 1, 1, 4, 3, 6, 3, 2},
	}[rn.style]
	switch r.Pick(w...) {
	case 0:
		return rn.genSend(r)
	case 1:
		return rn.genAck(r)
	case 2:
		return rn.genTimeout(r)
	case 3:
		return "probe " + rn.liveLevel(r)
	case 4:
		l := "I"
		switch {
		case rn.client && rn.zeroPhase && !rn.sentA && len(rn.sent[2]) > 0 && r.Chance(40):
			l = "Z" // 0-RTT rejected: all application data sent so far was 0-RTT
		case !rn.dropped[0] && r.Chance(60):
			l = "I"
		case !rn.dropped[1] && r.Chance(70):
			l = "H"
		case r.Chance(60):
			l = "Z"
		case r.Chance(10):
			l = "A" // panics; the model has to say so
		default:
			l = lvlNames[r.Intn(2)] // possibly dropped already
		}
		return fmt.Sprintf("drop %s %d", l, rn.now)
	case 5:
		return fmt.Sprintf("retry %d", rn.now)
	case 6:
		return fmt.Sprintf("migrate %d %d", rn.now, r.Range(1200, 1452))
	case 7:
		n := r.Range(1, 1500)
		if !rn.valid && r.Chance(50) {
			n = r.Range(40, 480) // small datagrams: the budget is often used up by the next packet or two
		}
		return fmt.Sprintf("rcvbytes %d %d", n, rn.now)
	case 8:
		if rn.style == 2 {
			return fmt.Sprintf("rcvpkt %s %d", lvlNames[r.Pick(45, 10, 5, 40)], rn.now)
		}
		return fmt.Sprintf("rcvpkt %s %d", lvlNames[r.Pick(30, 40, 5, 25)], rn.now)
	case 9:
		return fmt.Sprintf("mode %d", rn.now)
	case 10:
		return "peek " + rn.liveLevel(r)
	default:
		return fmt.Sprintf("mad %d", r.Range(0, 100_000_000))
	}
}

// ---------------------------------------------------------------- execution

func (rn *runner) suffix() string {
	_, nts := rn.vs.VerifAppGen()
	return fmt.Sprintf(" | env=%d,%d,%d,%d,%d | %s", int64(rn.rtt.LatestRTT()), int64(rn.rtt.SmoothedRTT()),
		int64(rn.rtt.PTO(false)), int64(rn.rtt.PTO(true)), nts, rn.vs.VerifSentState())
}

func (rn *runner) events() string {
	if len(rn.evs) == 0 {
		return "ev=-"
	}
	return "ev=" + strings.Join(rn.evs, ",")
}

func (rn *runner) AfterPanic(op string) string {
	rn.dead = true
	return "PANIC " + rn.events() + rn.suffix()
}

func errClass(err error) string {
	var te *qerr.TransportError
	msg := err.Error()
	if e, ok := err.(*qerr.TransportError); ok {
		te = e
	}
	switch {
	case te != nil && te.ErrorCode == qerr.ProtocolViolation && strings.Contains(te.ErrorMessage, "unsent"):
		return "E:PROTOCOL_VIOLATION:unsent"
	case te != nil && te.ErrorCode == qerr.ProtocolViolation && strings.Contains(te.ErrorMessage, "skipped"):
		return "E:PROTOCOL_VIOLATION:skipped"
	case te != nil:
		return fmt.Sprintf("E:transport:%d", uint64(te.ErrorCode))
	case strings.Contains(msg, "ackedPackets slice not empty"):
		return "E:bug-acked"
	case strings.Contains(msg, "would have acked wrong packet"):
		return "E:bug-wrong"
	case strings.Contains(msg, "not found in sent packet history"):
		return "E:notfound"
	case strings.Contains(msg, "PTO fired, but bytes_in_flight is 0"):
		return "E:bug-pto"
	case strings.Contains(msg, "PTO timer in unexpected encryption level"):
		return "E:pto-level"
	}
	return "E:other"
}

func parseKV(fs []string) map[string]string {
	m := map[string]string{}
	for _, f := range fs {
		if i := strings.IndexByte(f, '='); i > 0 {
			m[f[:i]] = f[i+1:]
		}
	}
	return m
}

func parseRanges(s string) []wire.AckRange {
	var out []wire.AckRange
	for _, p := range strings.Split(s, ";") {
		if p == "" {
			continue
		}
		// lo-hi with non-negative numbers
		i := strings.IndexByte(p, '-')
		if i <= 0 {
			continue
		}
		out = append(out, wire.AckRange{Smallest: protocol.PacketNumber(vh.Atoi64(p[:i])), Largest: protocol.PacketNumber(vh.Atoi64(p[i+1:]))})
	}
	return out
}

func validRanges(rs []wire.AckRange) bool {
	if len(rs) == 0 {
		return false
	}
	for i, r := range rs {
		if r.Smallest > r.Largest || r.Smallest < 0 {
			return false
		}
		if i > 0 && rs[i-1].Smallest <= r.Largest+1 {
			return false
		}
	}
	return true
}

func (rn *runner) Exec(op string) string {
	f := strings.Fields(op)
	rn.evs = rn.evs[:0]
	if rn.dead && f[0] != "init" {
		return "skip"
	}
	res := "bad-op"
	switch f[0] {
	case "init":
		kv := parseKV(f[1:])
		var pls []protocol.PacketNumberLen
		if kv["pls"] != "-" && kv["pls"] != "" {
			for _, x := range strings.Split(kv["pls"], ";") {
				pls = append(pls, protocol.PacketNumberLen(vh.Atoi64(x)))
			}
		}
		rn.create(kv["client"] == "1", vh.Atoi64(kv["pn"]), kv["val"] == "1", kv["ecn"] == "1", kv["ql"] == "1", kv["u"] == "1",
			vh.Atoi64(kv["pl"]), pls, vh.Atoi64(kv["base"]), vh.Atoi64(kv["mad"]), int(vh.Atoi64(kv["rnd"])))
		res = "ok"
	case "send":
		if len(f) < 8 {
			return "skip"
		}
		lvl := lvlOf(f[1])
		sp := space(f[1])
		now := monotime.Time(vh.Atoi64(f[2]))
		probe := f[6] == "1"
		var frames []ackhandler.Frame
		var sframes []ackhandler.StreamFrame
		if f[7] != "-" {
			for _, t := range strings.Split(f[7], ",") {
				id := uint64(vh.Atoi64(t[1:]))
				var hd ackhandler.FrameHandler
				if t[0] == 'c' || t[0] == 's' {
					hd = rn
				}
				if t[0] == 'c' || t[0] == 'C' {
					frames = append(frames, ackhandler.Frame{Frame: &wire.MaxDataFrame{MaximumData: protocol.ByteCount(id)}, Handler: hd})
				} else {
					sframes = append(sframes, ackhandler.StreamFrame{Frame: &wire.StreamFrame{StreamID: protocol.StreamID(id)}, Handler: hd})
				}
				if probe && hd == nil {
					return "skip" // the path manager always sets a handler; detectLostPathProbes relies on it
				}
			}
		}
		if probe && len(sframes) > 0 {
			return "skip"
		}
		before, _ := rn.vs.VerifAppGen()
		pn := rn.h.PopPacketNumber(lvl)
		sk := "-"
		if sp == 2 {
			if int64(pn) == before+1 {
				sk = fmt.Sprint(before)
			}
		}
		ecn := rn.h.ECNMode(f[1] == "A")
		rn.h.SentPacket(now, pn, protocol.PacketNumber(vh.Atoi64(f[3])), sframes, frames, lvl, ecn, protocol.ByteCount(vh.Atoi64(f[4])), f[5] == "1", probe)
		rn.sent[sp] = append(rn.sent[sp], int64(pn))
		rn.bs += vh.Atoi64(f[4])
		if sp == 2 && f[5] == "1" {
			rn.mtuPNs[int64(pn)] = true
		}
		// the simulated peer receives most packets (the case seed decides, so that replays agree)
		if (uint64(pn)*0x9e3779b97f4a7c15+uint64(now))%100 < 85 {
			rn.peer[sp] = append(rn.peer[sp], int64(pn))
		}
		if sp == 1 {
			rn.hsSent = true
		}
		if f[1] == "A" {
			rn.sentA = true
		}
		res = fmt.Sprintf("pn=%d sk=%s", pn, sk)
	case "ack":
		if len(f) < 6 || !strings.HasPrefix(f[5], "r=") || f[1] == "Z" {
			return "skip"
		}
		rs := parseRanges(f[5][2:])
		if !validRanges(rs) { // the wire parser rejects anything else
			return "skip"
		}
		var e0, e1, ce uint64
		fmt.Sscanf(f[4], "%d,%d,%d", &e0, &e1, &ce)
		ack := &wire.AckFrame{AckRanges: rs, DelayTime: time.Duration(vh.Atoi64(f[3])), ECT0: e0, ECT1: e1, ECNCE: ce}
		a1, err := rn.h.ReceivedAck(ack, lvlOf(f[1]), monotime.Time(vh.Atoi64(f[2])))
		if err != nil {
			res = errClass(err) + " " + rn.events()
		} else {
			res = fmt.Sprintf("ok f=%d %s", b2i(a1), rn.events())
		}
	case "timeout":
		before, _ := rn.vs.VerifAppGen()
		err := rn.h.OnLossDetectionTimeout(monotime.Time(vh.Atoi64(f[1])))
		after, _ := rn.vs.VerifAppGen()
		sk := "-"
		if after > before {
			var xs []string
			for p := before; p < after; p++ {
				xs = append(xs, fmt.Sprint(p))
			}
			sk = strings.Join(xs, ";")
		}
		if err != nil {
			res = errClass(err) + " " + rn.events() + " sk=" + sk
		} else {
			res = "ok " + rn.events() + " sk=" + sk
		}
	case "probe":
		res = fmt.Sprintf("%d %s", b2i(rn.h.QueueProbePacket(lvlOf(f[1]))), rn.events())
	case "drop":
		rn.h.DropPackets(lvlOf(f[1]), monotime.Time(vh.Atoi64(f[2])))
		if f[1] == "I" {
			rn.dropped[0] = true
		}
		if f[1] == "H" {
			rn.dropped[1] = true
		}
		res = "ok"
	case "retry":
		// caller contract: only a client, before any Handshake packet was sent, Initial keys still there
		if !rn.client || rn.dropped[0] || rn.hsSent {
			return "skip"
		}
		rn.h.ResetForRetry(monotime.Time(vh.Atoi64(f[1])))
		rn.sent[0], rn.sent[2] = nil, nil
		rn.mtuPNs = map[int64]bool{}
		rn.peer[0], rn.peer[2] = nil, nil
		rn.stale = nil
		res = "ok " + rn.events()
	case "migrate":
		rn.h.MigratedPath(monotime.Time(vh.Atoi64(f[1])), protocol.ByteCount(vh.Atoi64(f[2])))
		res = "ok " + rn.events()
	case "rcvbytes":
		rn.h.ReceivedBytes(protocol.ByteCount(vh.Atoi64(f[1])), monotime.Time(vh.Atoi64(f[2])))
		rn.br += vh.Atoi64(f[1])
		res = "ok"
	case "rcvpkt":
		rn.h.ReceivedPacket(lvlOf(f[1]), monotime.Time(vh.Atoi64(f[2])))
		if f[1] == "H" {
			rn.valid = true
		}
		res = "ok"
	case "mode":
		now := monotime.Time(vh.Atoi64(f[1]))
		cs, pb := rn.vs.VerifCongestion(now)
		res = fmt.Sprintf("%d cs=%d pb=%d", rn.h.SendMode(now), b2i(cs), b2i(pb))
	case "peek":
		pn, l := rn.h.PeekPacketNumber(lvlOf(f[1]))
		res = fmt.Sprintf("%d %d", pn, l)
	case "mad":
		rn.rtt.SetMaxAckDelay(time.Duration(vh.Atoi64(f[1])))
		res = "ok"
	}
	return res + rn.suffix()
}

func TestDriver(t *testing.T) { vh.Main(t, "sent", newRunner) }
