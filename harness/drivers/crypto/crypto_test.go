//go:build verif

// Driver `crypto` (property C03): CRYPTO frames travel the way they do in a connection — serialised
// into a packet buffer that is reused for every packet, parsed by the real frame parser, handed to the
// real cryptoStreamManager, drained with GetCryptoData (the TLS stack copies what it gets) — and the
// packet buffer is overwritten as soon as the packet has been processed.
package crypto

import (
	"errors"
	"fmt"
	"io"
	"strings"
	"testing"
	"time"

	quic "github.com/refraction-networking/uquic"
	"github.com/refraction-networking/uquic/internal/protocol"
	"github.com/refraction-networking/uquic/internal/qerr"
	"github.com/refraction-networking/uquic/internal/verifharness/vh"
	"github.com/refraction-networking/uquic/internal/wire"
)

var lvlNames = []string{"I", "H", "A"}

func lvlOf(s string) protocol.EncryptionLevel {
	switch s {
	case "I":
		return protocol.EncryptionInitial
	case "H":
		return protocol.EncryptionHandshake
	}
	return protocol.Encryption1RTT
}

type seg struct{ off, n int64 }

type lvlGen struct {
	total    int64 // length of this level's handshake message stream
	sent     int64 // next fresh offset
	pending  []seg // sent-but-"lost" or held back segments (to be delivered later / retransmitted)
	history  []seg // everything ever sent
	dropped  bool
	complete bool
}

type runner struct {
	m      *quic.VerifCryptoManager
	parser *wire.FrameParser
	pktBuf []byte // the one packet buffer, reused for every packet
	salt   uint64
	dead   bool

	gen     [3]lvlGen
	planLen int
}

func newRunner(r *vh.Rand) vh.Runner {
	return &runner{m: quic.VerifNewCryptoManager(), parser: wire.NewFrameParser(true, true, true),
		pktBuf: make([]byte, 0, protocol.MaxPacketBufferSize)}
}

func (rn *runner) GenOp(r *vh.Rand, i int) string {
	if i == 0 {
		rn.salt = uint64(r.Intn(1 << 20))
		rn.gen[0].total = r.Range(200, 1800)
		rn.gen[1].total = r.Range(300, 7000)
		rn.gen[2].total = r.Range(0, 900)
		if r.Chance(5) {
			rn.gen[1].total = r.Range(15000, 16384) // fills the crypto buffer limit
		}
		rn.planLen = 6 + r.Intn(60)
		return fmt.Sprintf("init %d", rn.salt)
	}
	if rn.dead || i > rn.planLen {
		return ""
	}
	// levels progress roughly in order, with overlap
	li := r.Pick(40, 45, 15)
	g := &rn.gen[li]
	lvl := lvlNames[li]
	if li < 2 && !g.dropped && (g.sent >= g.total && len(g.pending) == 0 && r.Chance(35) || r.Chance(2)) {
		g.dropped = true
		return "drop " + lvl
	}
	// one packet with 1..3 CRYPTO frames
	nf := r.Pick(70, 22, 8) + 1
	var segs []seg
	budget := int64(1300)
	for k := 0; k < nf && budget > 40; k++ {
		var s seg
		switch {
		case len(g.pending) > 0 && r.Chance(45): // a held-back / lost segment arrives (maybe re-cut)
			j := r.Intn(len(g.pending))
			s = g.pending[j]
			g.pending = append(g.pending[:j], g.pending[j+1:]...)
			if s.n > 2 && r.Chance(30) { // retransmitted with different boundaries
				cut := r.Range(1, s.n-1)
				g.pending = append(g.pending, seg{s.off + cut, s.n - cut})
				s.n = cut
			}
		case len(g.history) > 0 && r.Chance(18): // spurious retransmission of old data, same or other boundaries
			h := g.history[r.Intn(len(g.history))]
			s = h
			if r.Bool() && h.n > 1 {
				s.off = h.off + r.Range(0, h.n-1)
				s.n = r.Range(1, h.off+h.n-s.off)
			} else if r.Chance(30) {
				s.off = max(0, h.off-r.Range(0, 50))
				s.n = h.off + h.n - s.off
			}
		case g.sent < g.total: // fresh data
			n := min(g.total-g.sent, []int64{r.Range(1, 40), r.Range(40, 300), r.Range(300, 1200)}[r.Pick(25, 45, 30)])
			s = seg{g.sent, n}
			g.sent += n
			g.history = append(g.history, s)
			if r.Chance(30) { // lost / reordered: arrives later
				g.pending = append(g.pending, s)
				continue
			}
		default: // the stream is complete: data beyond its end (after Finish: a protocol violation), or empty frames
			switch r.Pick(50, 30, 20) {
			case 0:
				s = seg{g.total, r.Range(1, 30)}
			case 1:
				s = seg{r.Range(0, g.total), 0}
			default:
				s = seg{16384 - r.Range(0, 40), r.Range(0, 80)} // around MaxCryptoStreamOffset
			}
		}
		if s.n > budget {
			if s.n > 0 && s.off+budget < s.off+s.n {
				g.pending = append(g.pending, seg{s.off + budget, s.n - budget})
			}
			s.n = budget
		}
		budget -= s.n + 8
		segs = append(segs, s)
	}
	if len(segs) == 0 {
		return fmt.Sprintf("pkt %s %d:0 0", lvl, r.Range(0, g.total))
	}
	var sb strings.Builder
	for k, s := range segs {
		if k > 0 {
			sb.WriteByte(',')
		}
		fmt.Fprintf(&sb, "%d:%d", s.off, s.n)
	}
	return fmt.Sprintf("pkt %s %s %d", lvl, sb.String(), r.Pick(60, 20, 20))
}

func errText(err error) string {
	if err == nil {
		return "ok"
	}
	var te *qerr.TransportError
	if errors.As(err, &te) {
		return fmt.Sprintf("E:T%d", uint64(te.ErrorCode))
	}
	if strings.Contains(err.Error(), "too many gaps") {
		return "E:gaps"
	}
	return "E:other"
}

func (rn *runner) AfterPanic(op string) string { rn.dead = true; return "PANIC" }

func (rn *runner) Exec(op string) string {
	defer vh.Watchdog(op, 60*time.Second)()
	f := strings.Fields(op)
	if rn.dead && f[0] != "init" {
		return "skip"
	}
	switch f[0] {
	case "init":
		if len(f) > 1 {
			rn.salt = uint64(vh.Atoi64(f[1]))
		}
		return "ok"
	case "drop":
		if len(f) < 2 {
			return "bad-op"
		}
		return errText(rn.m.Drop(lvlOf(f[1])))
	case "pkt":
		if len(f) < 4 {
			return "bad-op"
		}
		lvl := lvlOf(f[1])
		pad := int(vh.Atoi64(f[3]))
		// serialise the packet payload into the reused packet buffer
		b := rn.pktBuf[:0]
		for _, p := range strings.Split(f[2], ",") {
			var off, n int64
			if _, err := fmt.Sscanf(p, "%d:%d", &off, &n); err != nil || n < 0 || n > 1400 {
				return "bad-op"
			}
			switch pad {
			case 1:
				b = append(b, 0, 0, 0) // PADDING
			case 2:
				b = append(b, 0x1) // PING
			}
			var err error
			b, err = (&wire.CryptoFrame{Offset: protocol.ByteCount(off), Data: vh.SrcSeg(rn.salt, 0, off, int(n))}).Append(b, protocol.Version1)
			if err != nil || len(b) > cap(rn.pktBuf) {
				return "bad-op"
			}
		}
		if pad == 1 {
			b = append(b, 0, 0)
		}
		// Conn.handleFrames / Conn.handleCryptoFrame, CRYPTO and PING only
		var res, msgs []string
		data := b
		for len(data) > 0 {
			ft, l, err := rn.parser.ParseType(data, lvl)
			if err != nil {
				if err != io.EOF {
					res = append(res, errText(err))
				}
				break
			}
			data = data[l:]
			fr, l, err := rn.parser.ParseLessCommonFrame(ft, data, protocol.Version1)
			if err != nil {
				res = append(res, errText(err))
				break
			}
			data = data[l:]
			cf, ok := fr.(*wire.CryptoFrame)
			if !ok {
				continue
			}
			if err := rn.m.HandleCryptoFrame(cf, lvl); err != nil {
				res = append(res, errText(err))
				if errText(err) == "E:gaps" {
					rn.dead = true
				}
				break
			}
			res = append(res, "ok")
			for {
				d := rn.m.GetCryptoData(lvl)
				if d == nil {
					break
				}
				msgs = append(msgs, vh.FmtBytes(d)) // the TLS stack copies the message
			}
		}
		// the packet has been processed: its buffer goes back to the pool and is overwritten by the next packet
		vh.Poison(rn.pktBuf)
		d := "-"
		if len(msgs) > 0 {
			d = strings.Join(msgs, ";")
		}
		return "r=" + strings.Join(res, ",") + " d=" + d
	}
	return "bad-op"
}

func TestDriver(t *testing.T) { vh.Main(t, "crypto", newRunner) }
