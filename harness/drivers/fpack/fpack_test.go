//go:build verif

// Package fpack drives the glue between streams and packets: REAL framer + REAL SendStreams with REAL stream and
// connection flow controllers + REAL retransmission/datagram queues + REAL packetPacker.AppendPacket (null sealer),
// wired as Conn wires them. Blocked Writes park in goroutines inside a testing/synctest bubble.
//
//	open k win | write k n | close k | dgram n | maxdata v | maxstream k v | pack size | ack p | lose p
//
// Stream k has id 4k; its bytes are a fixed function of (k, offset), so the harness can tell whether a frame carries
// the right bytes (`ok` flag). Every line ends with the framer's registration state and per-stream progress.
package fpack

import (
	"errors"
	"fmt"
	"sort"
	"strings"
	"testing"
	"testing/synctest"

	quic "github.com/refraction-networking/uquic"
	"github.com/refraction-networking/uquic/internal/ackhandler"
	"github.com/refraction-networking/uquic/internal/protocol"
	"github.com/refraction-networking/uquic/internal/verifharness/vh"
	"github.com/refraction-networking/uquic/internal/wire"
)

var errEnd = errors.New("verif end of case")

func byteAt(k int, off int64) byte { return byte(int64(k)*131 + off*7 + off>>8*13 + 5) }

type stream struct {
	k        int
	s        *quic.SendStream
	want     int64 // bytes handed to Write so far
	wpending bool
	wdone    chan error
	closed   bool
}

type packet struct {
	p      quic.VerifPacket
	open   bool
}

type runner struct {
	t    *testing.T
	cmd  chan string
	res  chan string
	done chan struct{}
	up   bool

	vp      *quic.VerifPack
	streams map[int]*stream
	pkts    []*packet
	ndgram  int
	// generator
	connWin int64
	plan    int
	style   int
}

func (rn *runner) start() {
	rn.cmd, rn.res, rn.done = make(chan string), make(chan string), make(chan struct{})
	rn.up = true
	go func() {
		defer close(rn.done)
		synctest.Test(rn.t, func(t *testing.T) {
			for op := range rn.cmd {
				rn.res <- rn.safeExec(op)
			}
			if rn.vp != nil {
				rn.vp.Shutdown(errEnd)
			}
			synctest.Wait()
		})
	}()
}

func (rn *runner) Exec(op string) string {
	if !rn.up {
		rn.start()
	}
	rn.cmd <- op
	return <-rn.res
}

func (rn *runner) Close() {
	if rn.up {
		close(rn.cmd)
		<-rn.done
		rn.up = false
	}
}

func (rn *runner) safeExec(op string) (res string) {
	defer func() {
		if e := recover(); e != nil {
			res = "PANIC"
		}
	}()
	return rn.exec(op)
}

func (rn *runner) ensure(win int64) {
	if rn.vp == nil {
		rn.vp = quic.VerifNewPack(protocol.ByteCount(win))
		rn.streams = map[int]*stream{}
	}
}

func b01(b bool) string {
	if b {
		return "1"
	}
	return "0"
}

func (rn *runner) state() string {
	act, qlen := rn.vp.Active()
	var as []string
	for _, id := range act {
		as = append(as, fmt.Sprint(id/4))
	}
	a := "-"
	if len(as) > 0 {
		a = strings.Join(as, ",")
	}
	var ks []int
	for k := range rn.streams {
		ks = append(ks, k)
	}
	sort.Ints(ks)
	var sts []string
	for _, k := range ks {
		st := rn.streams[k]
		v := st.s.VerifState()
		pend := v.DataForWriting > 0 || v.NextFrame[0] >= 0 || len(v.RetransQ) > 0 || (v.FinishedWriting && !v.FinSent)
		w := "-"
		if st.wpending {
			select {
			case err := <-st.wdone:
				st.wpending = false
				w = "R"
				if err != nil {
					w = "E"
				}
			default:
				w = "B"
			}
		}
		sts = append(sts, fmt.Sprintf("%d:%d:%s:%s%s%s:%s", k, v.WriteOffset, b01(pend), b01(v.FinishedWriting), b01(v.FinSent), b01(v.Completed), w))
	}
	ss := "-"
	if len(sts) > 0 {
		ss = strings.Join(sts, ",")
	}
	var dn []string
	for _, id := range rn.vp.Done {
		dn = append(dn, fmt.Sprint(id/4))
	}
	ds := "-"
	if len(dn) > 0 {
		ds = strings.Join(dn, ",")
	}
	return fmt.Sprintf("act=%s q=%d cw=%d dq=%d done=%s st=%s", a, qlen, rn.vp.ConnSendWindow(), rn.vp.DatagramQueueLen(), ds, ss)
}

func frameName(f wire.Frame) string {
	switch fr := f.(type) {
	case *wire.DatagramFrame:
		idx := -1
		if len(fr.Data) >= 2 {
			idx = int(fr.Data[0])<<8 | int(fr.Data[1])
		}
		return fmt.Sprintf("DG%d", idx)
	case *wire.StreamDataBlockedFrame:
		return "SDB"
	case *wire.DataBlockedFrame:
		return "DB"
	case *wire.ResetStreamFrame:
		return "RST"
	case *wire.PingFrame:
		return "PING"
	}
	return fmt.Sprintf("%T", f)
}

func (rn *runner) exec(op string) string {
	f := strings.Fields(op)
	if len(f) == 0 {
		return "bad-op"
	}
	if f[0] == "new" && len(f) == 2 {
		if rn.vp != nil {
			return "skip " + rn.state()
		}
		rn.ensure(vh.Atoi64(f[1]))
		return "ok " + rn.state()
	}
	rn.ensure(1 << 20)
	res := "bad-op"
	arg := func(i int) int64 { return vh.Atoi64(f[i]) }
	switch {
	case f[0] == "open" && len(f) == 3:
		k := int(arg(1))
		if _, ok := rn.streams[k]; ok || k < 0 || k > 50 {
			res = "skip"
			break
		}
		rn.streams[k] = &stream{k: k, s: rn.vp.OpenStream(int64(4*k), protocol.ByteCount(arg(2)))}
		res = "ok"
	case f[0] == "write" && len(f) == 3:
		st, ok := rn.streams[int(arg(1))]
		n := arg(2)
		if !ok || st.wpending || st.closed || n <= 0 || n > 1<<20 {
			res = "skip"
			break
		}
		buf := make([]byte, n)
		for i := range buf {
			buf[i] = byteAt(st.k, st.want+int64(i))
		}
		st.want += n
		st.wpending = true
		st.wdone = make(chan error, 1)
		go func(st *stream, buf []byte) {
			_, err := st.s.Write(buf)
			st.wdone <- err
		}(st, buf)
		res = "ok"
	case f[0] == "close" && len(f) == 2:
		st, ok := rn.streams[int(arg(1))]
		if !ok || st.wpending || st.closed {
			res = "skip" // Close must not be called concurrently with Write
			break
		}
		st.closed = true
		st.s.Close()
		res = "ok"
	case f[0] == "dgram" && len(f) == 2:
		n := int(arg(1))
		if rn.vp.DatagramQueueLen() >= 30 || n < 2 || n > 1000 {
			res = "skip" // Add parks when 32 are queued
			break
		}
		b := make([]byte, n)
		b[0], b[1] = byte(rn.ndgram>>8), byte(rn.ndgram)
		rn.ndgram++
		rn.vp.AddDatagram(b)
		res = "ok"
	case f[0] == "maxdata" && len(f) == 2:
		rn.vp.MaxData(protocol.ByteCount(arg(1)))
		res = "ok"
	case f[0] == "maxstream" && len(f) == 3:
		rn.vp.MaxStreamData(4*arg(1), protocol.ByteCount(arg(2)))
		res = "ok"
	case f[0] == "pack" && len(f) == 2:
		size := arg(1)
		if size < 64 || size > 1452 {
			res = "skip"
			break
		}
		p, ok := rn.vp.Pack(protocol.ByteCount(size))
		var polls []string
		for _, pl := range rn.vp.Polls {
			polls = append(polls, fmt.Sprintf("%d:%s:%s", pl.ID/4, b01(pl.HasFrame), b01(pl.HasMore)))
		}
		ps := "-"
		if len(polls) > 0 {
			ps = strings.Join(polls, ",")
		}
		if !ok {
			res = "none polls=" + ps
			break
		}
		rn.pkts = append(rn.pkts, &packet{p: p, open: true})
		var fr, sf []string
		for _, x := range p.Frames {
			fr = append(fr, frameName(x.Frame)+"/h"+b01(x.Handler != nil))
		}
		for _, x := range p.StreamFrames {
			k := int(x.Frame.StreamID / 4)
			good := true
			for i, c := range x.Frame.Data {
				if c != byteAt(k, int64(x.Frame.Offset)+int64(i)) {
					good = false
					break
				}
			}
			sf = append(sf, fmt.Sprintf("%d:%d:%d:%s:%s", k, x.Frame.Offset, len(x.Frame.Data), b01(x.Frame.Fin), b01(good)))
		}
		frs, sfs := "-", "-"
		if len(fr) > 0 {
			frs = strings.Join(fr, ",")
		}
		if len(sf) > 0 {
			sfs = strings.Join(sf, ",")
		}
		res = fmt.Sprintf("p=%d len=%d fr=%s sf=%s polls=%s", len(rn.pkts)-1, p.Length, frs, sfs, ps)
	case (f[0] == "ack" || f[0] == "lose") && len(f) == 2:
		i := int(arg(1))
		if i < 0 || i >= len(rn.pkts) || !rn.pkts[i].open {
			res = "skip"
			break
		}
		pk := rn.pkts[i]
		pk.open = false
		each := func(h ackhandler.FrameHandler, fr wire.Frame) {
			if h == nil {
				return
			}
			if f[0] == "ack" {
				h.OnAcked(fr)
			} else {
				h.OnLost(fr)
			}
		}
		for _, x := range pk.p.Frames {
			each(x.Handler, x.Frame)
		}
		for _, x := range pk.p.StreamFrames {
			each(x.Handler, x.Frame)
		}
		res = "ok"
	}
	synctest.Wait()
	return res + " " + rn.state()
}

// ---------------------------------------------------------------- generator

func (rn *runner) openPkts() []int {
	var out []int
	for i, p := range rn.pkts {
		if p.open {
			out = append(out, i)
		}
	}
	return out
}

func (rn *runner) GenOp(r *vh.Rand, i int) string {
	if i == 0 {
		rn.style = r.Pick(40, 40, 20) // ample windows / connection window is the limit / stream windows are the limit
		rn.connWin = []int64{1 << 20, r.Range(500, 6000), 1 << 20}[rn.style]
		rn.plan = 30 + r.Intn(90)
		return fmt.Sprintf("new %d", rn.connWin)
	}
	nstreams := len(rn.streams)
	if i <= 3 || (nstreams < 4 && r.Chance(6)) {
		win := int64(1 << 20)
		if rn.style == 2 {
			win = r.Range(200, 4000)
		}
		return fmt.Sprintf("open %d %d", nstreams, win)
	}
	pick := func() int { return r.Intn(max(nstreams, 1)) }
	open := rn.openPkts()
	if i > rn.plan {
		// drain: close everything, raise the windows, pack, lose once, ack
		for k := 0; k < nstreams; k++ {
			if st := rn.streams[k]; !st.closed && !st.wpending {
				return fmt.Sprintf("close %d", k)
			}
		}
		if i < rn.plan+12 && r.Chance(50) {
			rn.connWin += r.Range(1000, 20000)
			return fmt.Sprintf("maxdata %d", rn.connWin)
		}
		if len(open) > 0 && r.Chance(45) {
			if r.Chance(25) {
				return fmt.Sprintf("lose %d", open[0])
			}
			return fmt.Sprintf("ack %d", open[0])
		}
		if i > rn.plan+150 {
			return ""
		}
		return fmt.Sprintf("pack %d", r.Range(200, 1452))
	}
	switch r.Pick(24, 30, 4, 8, 8, 5, 11, 10) {
	case 0:
		n := []int64{r.Range(1, 50), r.Range(50, 1400), r.Range(1400, 6000)}[r.Pick(30, 45, 25)]
		return fmt.Sprintf("write %d %d", pick(), n)
	case 1:
		return fmt.Sprintf("pack %d", []int64{r.Range(64, 200), r.Range(200, 1452)}[r.Pick(25, 75)])
	case 2:
		return fmt.Sprintf("close %d", pick())
	case 3:
		return fmt.Sprintf("dgram %d", r.Range(2, 300))
	case 4:
		rn.connWin += []int64{r.Range(1, 300), r.Range(300, 5000)}[r.Intn(2)]
		if r.Chance(10) {
			return fmt.Sprintf("maxdata %d", r.Range(0, rn.connWin)) // stale / reordered MAX_DATA
		}
		return fmt.Sprintf("maxdata %d", rn.connWin)
	case 5:
		return fmt.Sprintf("maxstream %d %d", pick(), r.Range(100, 30000))
	case 6:
		if len(open) > 0 {
			return fmt.Sprintf("ack %d", open[r.Intn(len(open))])
		}
		return fmt.Sprintf("pack %d", r.Range(200, 1452))
	default:
		if len(open) > 0 {
			return fmt.Sprintf("lose %d", open[r.Intn(len(open))])
		}
		return fmt.Sprintf("pack %d", r.Range(200, 1452))
	}
}

func TestDriver(t *testing.T) {
	vh.Main(t, "fpack", func(r *vh.Rand) vh.Runner { return &runner{t: t} })
}
