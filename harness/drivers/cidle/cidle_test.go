//go:build verif

// Package cidle drives the idle-period bookkeeping of a REAL client Conn (RFC 9000 10.1): packets are received
// through the real handleUnpackedShortHeaderPacket / handleUnpackedLongHeaderPacket (real frame bytes: ACK-only,
// PADDING-only, PING, MAX_DATA, ACK+PING), packets are sent through the real registerPackedShortHeaderPacket /
// sendPackedCoalescedPacket, and the deadline is OBSERVED as the virtual time at which the timer armed by the real
// maybeResetTimer fires. The whole driver runs in one testing/synctest bubble; every op first lets <dt> ms pass.
//
//	conf <ownIdleMs> <peerIdleMs> <keepAliveMs> (first op of a case; default 30000 0 0; peerIdleMs 0 = not advertised)
//	recv <dt> <s|l> <pad|ping|pingpad|maxdata|ack|ackping>     => ok | E | skip
//	send <dt> <ae 0|1>                                         => ok
//	sendc <dt> <hs 0|1|2> <short 0|1|2>   (1 ACK-only, 2 ack-eliciting) => ok | E | skip
//	fire <dt> <blocked 0|1>                                    => fire=<ns>|fire>cap pto=<ns>
package cidle

import (
	"fmt"
	"strings"
	"testing"
	"testing/synctest"
	"time"

	quic "github.com/refraction-networking/uquic"
	"github.com/refraction-networking/uquic/internal/verifharness/vh"
)

type runner struct {
	x         *quic.VerifC01Idle
	afterFire bool   // generator: the last op waited for the timer, i.e. the deadline is in the past now
	pending   string // generator: op to emit next
}

func (rn *runner) Close() {
	if rn.x != nil {
		rn.x.Close()
	}
}

func (rn *runner) conn(idle, peer, ka int64) *quic.VerifC01Idle {
	if rn.x == nil {
		rn.x = quic.VerifC01NewIdle(time.Duration(idle)*time.Millisecond, time.Duration(peer)*time.Millisecond, time.Duration(ka)*time.Millisecond)
	}
	return rn.x
}

var kinds = []string{"pad", "ping", "pingpad", "maxdata", "ack", "ackping"}

func dt(r *vh.Rand) int64 {
	return []int64{0, r.Range(1, 40), r.Range(40, 900), r.Range(900, 12000)}[r.Pick(15, 45, 30, 10)]
}

func (rn *runner) GenOp(r *vh.Rand, i int) string {
	if i == 0 {
		idle := []int64{30000, 5000, r.Range(1000, 60000), r.Range(1, 300)}[r.Pick(35, 25, 30, 10)]
		ka := []int64{0, idle / 2, r.Range(1, 40000)}[r.Pick(50, 25, 25)]
		peer := []int64{0, idle, r.Range(1, 60000)}[r.Pick(30, 20, 50)]
		return fmt.Sprintf("conf %d %d %d", idle, peer, ka)
	}
	if rn.pending != "" {
		op := rn.pending
		rn.pending = ""
		return op
	}
	k := r.Pick(32, 28, 12, 28)
	if rn.afterFire && r.Chance(75) {
		k = 0 // a packet arrives: the connection lives on
	}
	rn.afterFire = k == 3
	switch k {
	case 0:
		// the tail of an upload: mostly ACK-only packets
		if r.Chance(45) { // a fresh packet acknowledged one short round trip later (keeps the RTT estimate small)
			rn.pending = fmt.Sprintf("recv %d s %s", r.Range(1, 60), []string{"ack", "ackping"}[r.Pick(80, 20)])
			return fmt.Sprintf("send %d 1", dt(r))
		}
		return fmt.Sprintf("recv %d %s %s", dt(r), []string{"s", "l"}[r.Pick(85, 15)], kinds[r.Pick(12, 14, 8, 12, 40, 14)])
	case 1:
		return fmt.Sprintf("send %d %d", dt(r), r.Pick(35, 65))
	case 2:
		return fmt.Sprintf("sendc %d %d %d", dt(r), r.Intn(3), r.Intn(3))
	}
	return fmt.Sprintf("fire %d %d", dt(r), r.Pick(60, 40))
}

func (rn *runner) Exec(op string) string {
	f := strings.Fields(op)
	if len(f) == 0 {
		return "bad-op"
	}
	if f[0] == "conf" {
		if len(f) != 4 || rn.x != nil {
			return "skip"
		}
		idle, peer, ka := vh.Atoi64(f[1]), vh.Atoi64(f[2]), vh.Atoi64(f[3])
		if idle < 1 || idle > 600000 || peer < 0 || peer > 600000 || ka < 0 || ka > 600000 {
			return "bad-op"
		}
		rn.conn(idle, peer, ka)
		return "ok"
	}
	if len(f) < 3 {
		return "bad-op"
	}
	d := vh.Atoi64(f[1])
	if d < 0 || d > 100000 {
		return "bad-op"
	}
	x := rn.conn(30000, 0, 0)
	time.Sleep(time.Duration(d) * time.Millisecond)
	switch {
	case f[0] == "recv" && len(f) == 4:
		var res string
		var ok bool
		if f[2] == "l" {
			res, ok = x.RecvLong(f[3])
		} else {
			res, ok = x.RecvShort(f[3])
		}
		if !ok {
			return "skip"
		}
		return res
	case f[0] == "send" && len(f) == 3:
		x.SendShort(f[2] == "1")
		return "ok"
	case f[0] == "sendc" && len(f) == 4:
		res, ok := x.SendCoalesced(int(vh.Atoi64(f[2]))%3, int(vh.Atoi64(f[3]))%3)
		if !ok {
			return "skip"
		}
		return res
	case f[0] == "fire" && len(f) == 3:
		fire, pto, capped := x.Fire(f[2] == "1")
		if capped {
			return fmt.Sprintf("fire>cap pto=%d", pto.Nanoseconds())
		}
		return fmt.Sprintf("fire=%d pto=%d", fire.Nanoseconds(), pto.Nanoseconds())
	}
	return "bad-op"
}

func TestDriver(t *testing.T) {
	synctest.Test(t, func(t *testing.T) {
		time.Sleep(100 * time.Hour) // monotime far from its zero value
		vh.Main(t, "cidle", func(r *vh.Rand) vh.Runner { return &runner{} })
	})
}
