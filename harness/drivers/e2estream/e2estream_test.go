//go:build verif

// Package e2estream is the end-to-end SUPPORT driver of C01: a real client (plain Transport or the
// Chrome-115 parrot) and a real server over testutils/simnet inside a testing/synctest bubble, with a
// scripted per-datagram fault schedule (drop / dup / delay / flip / trunc, both directions, handshake
// included). One op line = one complete scenario; its result is the canonical observation.
//
//	run cl=<plain|chrome|firefox> v=<1|2> seed=<n> sc=<nc>,<ns>,<nd>,<maxKiB> faults=<dir>:<idx>:<kind>:<arg>,…|- [x=<cwKiB>,<one>,<boStart>,<boDur>,<dgi>] [y=<idleMs>,<ka>,<quietMs>,<who>,<outDir>,<outMs>] [b=<kinds>,<KiB>,<lagMs>] [h=<mode>]
//	 => dial=<err> c2s=<id>:<len>/<want>:<sha8>/<wantsha8>:<pfx>:<err>;… s2c=… dg=<got>/<sent>:<dups>:<bad> t=<ms> [p2=<obs> conn=<client ctx err>,<server ctx err>]
//
// y= (round 4) is a second phase on the same connection: both endpoints negotiate the idle timeout idleMs (ka=1: with
// keep-alives), and once every phase-1 transfer is complete — so the tail of the traffic is ACK-only — nothing is sent for
// quietMs; then endpoint `who` (0 client, 1 server) opens one more unidirectional stream and writes it, and from that
// very moment the path is dead for outMs in the direction(s) outDir (0 none, 1 only the direction TOWARDS the writer,
// 2 both). The observation adds what the phase-2 reader got and whether both connections are still alive well after
// the outage.
//
// b= (round 5) replaces the sc= streams by BULK transfers that exceed the stream-level receive windows, one stream per
// selected kind (bit 1: bidirectional opened by the client, 2: bidirectional opened by the server, 4: unidirectional
// client->server, 8: unidirectional server->client); every bidirectional stream carries KiB (+ up to 1499 bytes) in
// BOTH directions, and every reader starts reading only lagMs after it got the stream (a sender that is ahead of the
// application by whatever the advertised window allows). Spec-driven clients (Chrome: all stream windows equal;
// Firefox: 12 MiB for streams it opens, 1 MiB for the server's and for unidirectional ones) advertise their windows
// in the QUICSpec, so the window each stream kind really gets has to be the advertised one: a smaller one is a
// spurious FLOW_CONTROL_ERROR, a larger one a transfer that stalls at the advertised limit.
//
// h= (round 5) varies the HANDSHAKE under the same transfers — connection state that is set up twice or thrown away:
// 1 the server answers the first Initial with a Retry; 2 the server only accepts P-384, so the ClientHello is answered
// with a HelloRetryRequest; 3..6 (plain client) the connection is a RESUMPTION with 0-RTT: a first connection fetches a
// session ticket, the second is a DialEarly whose client->server streams are opened and written BEFORE the handshake
// completes — 3: accepted; 4: the server meanwhile lowered its stream limit and must reject 0-RTT; 5: accepted, but
// behind a Retry (the early data is sent again with the token); 6: rejected by TLS because of a HelloRetryRequest
// (mode 6 is accepted by the driver but NOT generated: with the uTLS version /repo builds against, the resumed
// ClientHello sent after a HelloRetryRequest carries a PSK binder computed before the early_data extension was
// removed, the server answers nothing and the handshake times out — fixes/C01-0rtt-hello-retry-psk-binder.ops).
// After a rejection everything sent early is void: the client calls NextConnection and transfers the streams again
// WITH DIFFERENT CONTENTS, so that any frame of the first attempt that survives the reset (retransmission queue,
// framer, stream offsets, flow-control credit) shows up as wrong bytes, a wrong length or a stalled transfer. The
// result adds zr=<0-RTT used>,<rejected>.
//
// Everything about the scenario (stream sizes, contents, Write/Read chunkings) is derived from `seed`.
// Nothing here is a proof: it exercises the liveness sentence of the property and feeds the monitors.
package e2estream

import (
	"bufio"
	"bytes"
	"context"
	"crypto/sha256"
	"encoding/binary"
	"encoding/hex"
	"errors"
	"fmt"
	"io"
	"net"
	"os"
	"os/exec"
	"sort"
	"strings"
	"sync"
	"sync/atomic"
	"testing"
	"testing/synctest"
	"time"

	quic "github.com/refraction-networking/uquic"
	"github.com/refraction-networking/uquic/internal/verifharness/e2e"
	"github.com/refraction-networking/uquic/internal/verifharness/vh"
	tls "github.com/refraction-networking/utls"
)

const (
	enumFirstN  = 12               // thorough tier: every single fault / pair of faults among the first N datagrams per direction
	runDeadline = 90 * time.Second // virtual; far beyond any PTO back-off the schedules can cause
)

var kinds = []string{"drop", "dup", "delay", "flip", "trunc"}

type scenario struct {
	client  string
	version int
	seed    uint64
	nc, ns  int // client->server bidi streams, server->client uni streams
	nd      int // datagrams client->server
	maxKiB  int
	faults  []e2e.Fault
	// round 3 (glue around the stream core); all optional, 0 = off
	cwKiB   int // connection-level receive window of both endpoints (KiB): transfers limited by MAX_DATA
	one     int // 1: every stream is written with ONE Write call followed by Close (nothing re-registers the stream later)
	boStart int // path blackout (both directions) from boStart ms after the start ...
	boDur   int // ... for boDur ms (far below the idle timeout)
	dgi     int // DATAGRAMs are sent one every dgi ms while the streams are being transferred (0: all at once)
	// round 4 (idle timer / keep-alive glue); idleMs = 0: off
	hasY    bool
	idleMs  int // MaxIdleTimeout of both endpoints
	ka      int // 1: KeepAlivePeriod = idleMs/2 on both endpoints
	quietMs int // silence between the end of phase 1 and the phase-2 write
	who     int // phase-2 writer: 0 client, 1 server
	outDir  int // 0 no outage, 1 the direction towards the writer is dead, 2 both directions are dead
	outMs   int // ... for outMs ms from the moment of the phase-2 write
	// round 5 (bulk transfers beyond the stream windows on every stream kind); bKinds = 0: off
	bKinds int // bit 1 client-bidi, 2 server-bidi, 4 client-uni, 8 server-uni
	bKiB   int
	bLagMs int
	// round 5 (handshake variants): 0 plain handshake, 1 Retry, 2 HelloRetryRequest, 3..6 0-RTT resumption (see above)
	hs int
}

func (s scenario) String() string {
	fs := "-"
	if len(s.faults) > 0 {
		var parts []string
		for _, f := range s.faults {
			parts = append(parts, fmt.Sprintf("%d:%d:%s:%d", int(f.Dir), f.Index, f.Kind, f.Arg))
		}
		fs = strings.Join(parts, ",")
	}
	out := fmt.Sprintf("run cl=%s v=%d seed=%d sc=%d,%d,%d,%d faults=%s", s.client, s.version, s.seed, s.nc, s.ns, s.nd, s.maxKiB, fs)
	if s.cwKiB != 0 || s.one != 0 || s.boDur != 0 || s.dgi != 0 {
		out += fmt.Sprintf(" x=%d,%d,%d,%d,%d", s.cwKiB, s.one, s.boStart, s.boDur, s.dgi)
	}
	if s.hasY {
		out += fmt.Sprintf(" y=%d,%d,%d,%d,%d,%d", s.idleMs, s.ka, s.quietMs, s.who, s.outDir, s.outMs)
	}
	if s.bKinds != 0 {
		out += fmt.Sprintf(" b=%d,%d,%d", s.bKinds, s.bKiB, s.bLagMs)
	}
	if s.hs != 0 {
		out += fmt.Sprintf(" h=%d", s.hs)
	}
	return out
}

func parseScenario(op string) (scenario, bool) {
	var s scenario
	f := strings.Fields(op)
	if len(f) < 6 || len(f) > 10 || f[0] != "run" {
		return s, false
	}
	kv := map[string]string{}
	for _, x := range f[1:] {
		if i := strings.IndexByte(x, '='); i > 0 {
			kv[x[:i]] = x[i+1:]
		}
	}
	s.client = kv["cl"]
	s.version = int(vh.Atoi64(kv["v"]))
	fmt.Sscanf(kv["seed"], "%d", &s.seed)
	if n, _ := fmt.Sscanf(kv["sc"], "%d,%d,%d,%d", &s.nc, &s.ns, &s.nd, &s.maxKiB); n != 4 {
		return s, false
	}
	if kv["faults"] != "-" && kv["faults"] != "" {
		for _, p := range strings.Split(kv["faults"], ",") {
			q := strings.Split(p, ":")
			if len(q) != 4 {
				return s, false
			}
			s.faults = append(s.faults, e2e.Fault{Dir: e2e.Dir(vh.Atoi64(q[0])), Index: int(vh.Atoi64(q[1])), Kind: q[2], Arg: int(vh.Atoi64(q[3]))})
		}
	}
	if x, ok := kv["x"]; ok {
		if n, _ := fmt.Sscanf(x, "%d,%d,%d,%d,%d", &s.cwKiB, &s.one, &s.boStart, &s.boDur, &s.dgi); n != 5 {
			return s, false
		}
		if s.cwKiB < 0 || s.cwKiB > 4096 || s.boStart < 0 || s.boDur < 0 || s.boDur > 5000 || s.dgi < 0 || s.dgi > 1000 {
			return s, false
		}
	}
	if y, ok := kv["y"]; ok {
		if n, _ := fmt.Sscanf(y, "%d,%d,%d,%d,%d,%d", &s.idleMs, &s.ka, &s.quietMs, &s.who, &s.outDir, &s.outMs); n != 6 {
			return s, false
		}
		s.hasY = true
		if s.idleMs < 1000 || s.idleMs > 20000 || s.ka < 0 || s.ka > 1 || s.quietMs < 0 || s.quietMs > 60000 ||
			s.who < 0 || s.who > 1 || s.outDir < 0 || s.outDir > 2 || s.outMs < 0 || s.outMs > 20000 {
			return s, false
		}
	}
	if b, ok := kv["b"]; ok {
		if n, _ := fmt.Sscanf(b, "%d,%d,%d", &s.bKinds, &s.bKiB, &s.bLagMs); n != 3 {
			return s, false
		}
		if s.bKinds < 1 || s.bKinds > 15 || s.bKiB < 1 || s.bKiB > 16384 || s.bLagMs < 0 || s.bLagMs > 5000 || s.hasY || s.nc+s.ns+s.nd != 0 {
			return s, false
		}
	}
	if h, ok := kv["h"]; ok {
		s.hs = int(vh.Atoi64(h))
		if s.hs < 1 || s.hs > 6 || (s.hs >= 3 && (s.client != "plain" || s.hasY || s.bKinds != 0 || s.boDur != 0 || s.dgi != 0)) {
			return s, false
		}
	}
	if s.nc < 0 || s.nc > 8 || s.ns < 0 || s.ns > 8 || s.nd < 0 || s.nd > 64 || s.maxKiB < 0 || s.maxKiB > 1024 {
		return s, false
	}
	return s, true
}

// streamData: the bytes stream k (direction d) carries, from the scenario seed only.
func streamPlan(seed uint64, d, k, maxKiB int) (data []byte, chunks *vh.Rand) {
	r := vh.NewRand(seed ^ uint64(d+1)<<40 ^ uint64(k+1)<<48)
	var n int
	switch r.Pick(10, 25, 35, 30) {
	case 0:
		n = 0
	case 1:
		n = int(r.Range(1, 1500))
	case 2:
		n = int(r.Range(1500, 30000))
	default:
		n = int(r.Range(1, int64(maxKiB)*1024))
	}
	if maxKiB >= 256 { // bulk scenarios (connection-window limited / blackout at a full congestion window)
		n = int(r.Range(int64(maxKiB)*512, int64(maxKiB)*1024))
	}
	if n > maxKiB*1024 {
		n = maxKiB * 1024
	}
	data = make([]byte, n)
	// cheap, position-dependent content (any misplaced or duplicated segment changes the hash)
	x := r.U64()
	for i := 0; i+8 <= n; i += 8 {
		x = x*6364136223846793005 + 1442695040888963407
		binary.LittleEndian.PutUint64(data[i:], x)
	}
	for i := n &^ 7; i < n; i++ {
		data[i] = byte(x >> (8 * uint(i&7)))
	}
	return data, r
}

func dgramPayload(seed uint64, i int) []byte {
	r := vh.NewRand(seed ^ 0xd6e8feb86659fd93 ^ uint64(i+1)<<32)
	b := r.Bytes(int(r.Range(4, 900)))
	binary.BigEndian.PutUint32(b, uint32(i))
	return b
}

type streamObs struct {
	id   int64
	got  int
	want int
	sha  string
	wsha string
	pfx  bool
	err  string
}

func sha8(b []byte) string { h := sha256.Sum256(b); return hex.EncodeToString(h[:4]) }

func errClass(err error) string {
	if err == nil {
		return "nil"
	}
	var se *quic.StreamError
	var ae *quic.ApplicationError
	var te *quic.TransportError
	var ie *quic.IdleTimeoutError
	var he *quic.HandshakeTimeoutError
	switch {
	case err == io.EOF:
		return "EOF"
	case errors.As(err, &se):
		return fmt.Sprintf("stream-reset-%d", uint64(se.ErrorCode))
	case errors.As(err, &ae):
		return fmt.Sprintf("app-%d", uint64(ae.ErrorCode))
	case errors.As(err, &te):
		msg := strings.Map(func(r rune) rune {
			if r == ' ' || r == ';' || r == ':' || r == ',' {
				return '_'
			}
			return r
		}, te.ErrorMessage)
		if len(msg) > 80 {
			msg = msg[:80]
		}
		return fmt.Sprintf("transport-%#x(%s)", uint64(te.ErrorCode), msg)
	case errors.As(err, &ie):
		return "idle-timeout"
	case errors.As(err, &he):
		return "handshake-timeout"
	case errors.Is(err, context.DeadlineExceeded), errors.Is(err, os.ErrDeadlineExceeded):
		return "deadline"
	case errors.Is(err, context.Canceled):
		return "canceled"
	}
	return "other(" + strings.ReplaceAll(strings.ReplaceAll(err.Error(), " ", "_"), ";", ",") + ")"
}

type reader interface {
	io.Reader
	SetReadDeadline(time.Time) error
}

// readAll reads with seeded buffer sizes and reports what arrived.
func readAll(s reader, id int64, want []byte, r *vh.Rand, deadline time.Time) streamObs {
	s.SetReadDeadline(deadline)
	var got []byte
	var err error
	for {
		buf := make([]byte, []int64{1, r.Range(1, 64), r.Range(64, 4096), r.Range(4096, 65536)}[r.Pick(3, 17, 50, 30)])
		var n int
		n, err = s.Read(buf)
		got = append(got, buf[:n]...)
		if err != nil || len(got) > len(want)+1<<20 {
			break
		}
	}
	return streamObs{id: id, got: len(got), want: len(want), sha: sha8(got), wsha: sha8(want), pfx: bytes.HasPrefix(want, got), err: errClass(err)}
}

type writer interface {
	io.Writer
	Close() error
	SetWriteDeadline(time.Time) error
}

func writeAll(s writer, data []byte, r *vh.Rand, deadline time.Time, one bool) error {
	s.SetWriteDeadline(deadline)
	if one && len(data) > 0 {
		if _, err := s.Write(data); err != nil {
			return err
		}
		return s.Close()
	}
	for len(data) > 0 {
		n := int([]int64{1, r.Range(1, 100), r.Range(100, 3000), r.Range(3000, 70000)}[r.Pick(3, 17, 45, 35)])
		if n > len(data) {
			n = len(data)
		}
		if _, err := s.Write(data[:n]); err != nil {
			return err
		}
		data = data[n:]
	}
	return s.Close()
}

func fmtObs(o []streamObs) string {
	if len(o) == 0 {
		return "-"
	}
	sort.Slice(o, func(i, j int) bool { return o[i].id < o[j].id })
	var parts []string
	for _, x := range o {
		p := "0"
		if x.pfx {
			p = "1"
		}
		parts = append(parts, fmt.Sprintf("%d:%d/%d:%s/%s:%s:%s", x.id, x.got, x.want, x.sha, x.wsha, p, x.err))
	}
	return strings.Join(parts, ";")
}

// specFor: the QUICSpec of a spec-driven client kind (nil, true for the plain client).
func specFor(client string) (*quic.QUICSpec, bool) {
	var id quic.QUICID
	switch client {
	case "plain":
		return nil, true
	case "chrome":
		id = quic.QUICChrome_115_IPv4
	case "firefox":
		id = quic.QUICFirefox_116
	default:
		return nil, false
	}
	sp, err := quic.QUICID2Spec(id)
	if err != nil {
		return nil, false
	}
	return &sp, true
}

func runScenario(t *testing.T, sc scenario) (res string) {
	if sc.hs >= 3 {
		return runZeroRTT(t, sc)
	}
	if sc.bKinds != 0 {
		return runBulk(t, sc)
	}
	synctest.Test(t, func(t *testing.T) {
		spec, ok := specFor(sc.client)
		if !ok {
			res = "setup-error spec"
			return
		}
		ver := quic.Version1
		if sc.version == 2 {
			ver = quic.Version2
		}
		conf := &quic.Config{EnableDatagrams: true, Versions: []quic.Version{ver}}
		if sc.cwKiB > 0 { // the connection-level window is the limit, the stream-level windows are not
			conf.InitialConnectionReceiveWindow = uint64(sc.cwKiB) << 10
			conf.MaxConnectionReceiveWindow = uint64(sc.cwKiB) << 10
			conf.InitialStreamReceiveWindow = 2 << 20
			conf.MaxStreamReceiveWindow = 2 << 20
		}
		if sc.hasY {
			conf.MaxIdleTimeout = time.Duration(sc.idleMs) * time.Millisecond
			if sc.ka == 1 {
				conf.KeepAlivePeriod = conf.MaxIdleTimeout / 2
			}
		}
		env, err := e2e.Start(handshakeVariant(sc, e2e.Setup{Spec: spec, Faults: sc.faults, ServerConf: conf, ClientConf: conf}))
		if err != nil {
			res = "setup-error start"
			return
		}
		start := time.Now()
		var outage struct { // phase-2 outage window (set by the main goroutine, read by the router)
			sync.Mutex
			dead  [2]bool
			until time.Time
		}
		if sc.boDur > 0 || (sc.hasY && sc.outDir != 0) {
			// a short blackout of the whole path: every datagram sent in the interval is lost
			from, to := time.Duration(sc.boStart)*time.Millisecond, time.Duration(sc.boStart+sc.boDur)*time.Millisecond
			env.Net.Tap = func(d e2e.Dir, _ int, _ []byte) bool {
				if t := time.Since(start); sc.boDur > 0 && t >= from && t < to {
					return false
				}
				outage.Lock()
				defer outage.Unlock()
				return !(outage.dead[d] && time.Now().Before(outage.until))
			}
		}
		deadline := start.Add(runDeadline)
		ctx, cancel := context.WithDeadline(context.Background(), deadline)
		var (
			mu       sync.Mutex
			c2s, s2c []streamObs
			dgGot    = map[int]int{}
			dgBad    int
			werrs    []string
		)
		note := func(err error, what string) {
			if err != nil {
				mu.Lock()
				werrs = append(werrs, what+"="+errClass(err))
				mu.Unlock()
			}
		}
		var wg sync.WaitGroup   // everything that must finish for the transfer to be complete
		var bgwg sync.WaitGroup // datagram receiver: ends when the connection is closed
		serverConn := make(chan *quic.Conn, 1)
		wg.Add(1)
		go func() { // server
			defer wg.Done()
			c, err := env.Listener.Accept(ctx)
			if err != nil {
				note(err, "accept")
				serverConn <- nil
				return
			}
			serverConn <- c
			bgwg.Add(1)
			go func() {
				defer bgwg.Done()
				for {
					b, err := c.ReceiveDatagram(context.Background())
					if err != nil {
						return
					}
					mu.Lock()
					if len(b) >= 4 {
						i := int(binary.BigEndian.Uint32(b))
						if i < sc.nd && bytes.Equal(b, dgramPayload(sc.seed, i)) {
							dgGot[i]++
						} else {
							dgBad++
						}
					} else {
						dgBad++
					}
					mu.Unlock()
				}
			}()
			for k := 0; k < sc.nc; k++ {
				s, err := c.AcceptStream(ctx)
				if err != nil {
					note(err, "acceptstream")
					break
				}
				wg.Add(1)
				go func() {
					defer wg.Done()
					id := int64(s.StreamID())
					want, r := streamPlan(sc.seed, 0, int(id/4), sc.maxKiB)
					s.Close() // this direction of the bidirectional stream carries nothing
					o := readAll(s, id, want, vh.NewRand(r.U64()^1), deadline)
					mu.Lock()
					c2s = append(c2s, o)
					mu.Unlock()
				}()
			}
			for k := 0; k < sc.ns; k++ {
				s, err := c.OpenUniStreamSync(ctx)
				if err != nil {
					note(err, "s-open")
					break
				}
				wg.Add(1)
				go func() {
					defer wg.Done()
					data, r := streamPlan(sc.seed, 1, k, sc.maxKiB)
					note(writeAll(s, data, r, deadline, sc.one == 1), "s-write")
				}()
			}
		}()
		c, derr := env.Dial(ctx)
		if derr == nil {
			for k := 0; k < sc.nc; k++ {
				s, err := c.OpenStreamSync(ctx)
				if err != nil {
					note(err, "c-open")
					break
				}
				wg.Add(2)
				go func() {
					defer wg.Done()
					data, r := streamPlan(sc.seed, 0, k, sc.maxKiB)
					note(writeAll(s, data, r, deadline, sc.one == 1), "c-write")
				}()
				go func() { // the server closes its half immediately: EOF with no bytes
					defer wg.Done()
					s.SetReadDeadline(deadline)
					io.Copy(io.Discard, s)
				}()
			}
			sendDgrams := func() {
				for i := 0; i < sc.nd; i++ {
					if sc.dgi > 0 {
						time.Sleep(time.Duration(sc.dgi) * time.Millisecond)
					}
					if err := c.SendDatagram(dgramPayload(sc.seed, i)); err != nil {
						note(err, "senddatagram")
						break
					}
				}
			}
			if sc.dgi > 0 { // interleaved with the stream transfer, so that DATAGRAM and STREAM frames share packets
				wg.Add(1)
				go func() { defer wg.Done(); sendDgrams() }()
			} else {
				sendDgrams()
			}
			for k := 0; k < sc.ns; k++ {
				s, err := c.AcceptUniStream(ctx)
				if err != nil {
					note(err, "c-accept")
					break
				}
				wg.Add(1)
				go func() {
					defer wg.Done()
					id := int64(s.StreamID())
					want, r := streamPlan(sc.seed, 1, int(id/4), sc.maxKiB)
					o := readAll(s, id, want, vh.NewRand(r.U64()^1), deadline)
					mu.Lock()
					s2c = append(s2c, o)
					mu.Unlock()
				}()
			}
		}
		wg.Wait()
		elapsed := time.Since(start)
		sconn := <-serverConn
		p2 := ""
		if sc.hasY {
			p2 = " p2=- conn=-,-"
			if c != nil && sconn != nil {
				p2 = runPhase2(sc, c, sconn, func(dirs [2]bool, d time.Duration) {
					outage.Lock()
					outage.dead, outage.until = dirs, time.Now().Add(d)
					outage.Unlock()
				}, note)
			}
		} else {
			time.Sleep(300 * time.Millisecond) // let in-flight datagrams and ACKs arrive
		}
		cancel()
		if c != nil {
			c.CloseWithError(0, "")
		}
		if sconn != nil {
			sconn.CloseWithError(0, "")
		}
		bgwg.Wait()
		env.Close()
		synctest.Wait()
		mu.Lock()
		defer mu.Unlock()
		got, dups := 0, 0
		for _, n := range dgGot {
			got++
			if n > 1 {
				dups += n - 1
			}
		}
		sort.Strings(werrs)
		we := "-"
		if len(werrs) > 0 {
			we = strings.Join(werrs, ",")
		}
		res = fmt.Sprintf("dial=%s c2s=%s s2c=%s dg=%d/%d:%d:%d werr=%s t=%d", errClass(derr), fmtObs(c2s), fmtObs(s2c), got, sc.nd, dups, dgBad, we, elapsed.Milliseconds()) + p2
	})
	return res
}

// handshakeVariant applies h= to the endpoints: a Retry for every new connection (modes 1, 5), a server that only
// accepts P-384 key shares and therefore answers the ClientHello with a HelloRetryRequest (modes 2, 6).
func handshakeVariant(sc scenario, s e2e.Setup) e2e.Setup {
	if sc.hs == 1 || sc.hs == 5 {
		s.ServerTransport = func(tr *quic.Transport) { tr.VerifySourceAddress = func(net.Addr) bool { return true } }
	}
	if sc.hs == 2 || sc.hs == 6 {
		c := e2e.ServerTLSConfig()
		c.CurvePreferences = []tls.CurveID{tls.CurveP384}
		s.ServerTLS = c
	}
	return s
}

// runZeroRTT: the h=3..6 scenarios (see the package comment). Plain client only.
func runZeroRTT(t *testing.T, sc scenario) (res string) {
	synctest.Test(t, func(t *testing.T) {
		ver := quic.Version1
		if sc.version == 2 {
			ver = quic.Version2
		}
		var lowered atomic.Bool
		base := &quic.Config{EnableDatagrams: true, Versions: []quic.Version{ver}, Allow0RTT: true}
		if sc.cwKiB > 0 { // a small connection-level window: the early data uses it up, and after a rejection it has to be whole again
			base.InitialConnectionReceiveWindow = uint64(sc.cwKiB) << 10
			base.MaxConnectionReceiveWindow = uint64(sc.cwKiB) << 10
			base.InitialStreamReceiveWindow = 2 << 20
			base.MaxStreamReceiveWindow = 2 << 20
		}
		sconf := base.Clone()
		if sc.hs == 4 {
			sconf.GetConfigForClient = func(*quic.ClientInfo) (*quic.Config, error) {
				c := base.Clone()
				if lowered.Load() {
					c.MaxIncomingStreams = 40 // fewer than the client remembers: the server has to refuse 0-RTT
					c.MaxIncomingUniStreams = 40
				}
				return c, nil
			}
		}
		ctls := e2e.ClientTLSConfig()
		ctls.ClientSessionCache = tls.NewLRUClientSessionCache(4)
		setup := handshakeVariant(sc, e2e.Setup{Faults: sc.faults, ServerConf: sconf, ClientConf: base, ClientTLS: ctls})
		if setup.ServerTLS == nil {
			setup.ServerTLS = e2e.ServerTLSConfig()
		}
		env, err := e2e.Start(setup)
		if err != nil {
			res = "setup-error start"
			return
		}
		// connection 1: fetch a session ticket
		pctx, pcancel := context.WithTimeout(context.Background(), 20*time.Second)
		pre := make(chan *quic.Conn, 1)
		go func() {
			c, _ := env.Listener.Accept(pctx)
			pre <- c
		}()
		c0, derr := env.Dial(pctx)
		if derr == nil {
			time.Sleep(300 * time.Millisecond) // NewSessionTicket
			c0.CloseWithError(0, "")
		}
		if s0 := <-pre; s0 != nil {
			s0.CloseWithError(0, "")
		}
		pcancel()
		time.Sleep(200 * time.Millisecond)
		if derr != nil {
			env.Close()
			synctest.Wait()
			res = fmt.Sprintf("dial=%s c2s=- s2c=- dg=0/%d:0:0 werr=- t=0 zr=0,0", errClass(derr), sc.nd)
			return
		}
		if sc.hs == 4 {
			lowered.Store(true)
		}
		// connection 2: DialEarly; the client->server streams are written right away
		start := time.Now()
		deadline := start.Add(runDeadline)
		ctx, cancel := context.WithDeadline(context.Background(), deadline)
		var (
			mu    sync.Mutex
			c2sB  = map[int64][]byte{} // what the server read, per stream id
			c2sE  = map[int64]string{}
			s2c   []streamObs
			werrs []string
			wg    sync.WaitGroup
		)
		note := func(err error, what string) {
			if err != nil {
				mu.Lock()
				werrs = append(werrs, what+"="+errClass(err))
				mu.Unlock()
			}
		}
		serverConn := make(chan *quic.Conn, 1)
		wg.Add(1)
		go func() {
			defer wg.Done()
			c, err := env.Listener.Accept(ctx)
			if err != nil {
				note(err, "accept")
				serverConn <- nil
				return
			}
			serverConn <- c
			for k := 0; k < sc.nc; k++ {
				s, err := c.AcceptStream(ctx)
				if err != nil {
					note(err, "acceptstream")
					break
				}
				wg.Add(1)
				go func() {
					defer wg.Done()
					s.Close()
					s.SetReadDeadline(deadline)
					b, err := io.ReadAll(io.LimitReader(s, 4<<20))
					mu.Lock()
					c2sB[int64(s.StreamID())] = b
					c2sE[int64(s.StreamID())] = errClass(err)
					if err == nil {
						c2sE[int64(s.StreamID())] = "EOF"
					}
					mu.Unlock()
				}()
			}
			for k := 0; k < sc.ns; k++ {
				s, err := c.OpenUniStreamSync(ctx)
				if err != nil {
					note(err, "s-open")
					break
				}
				wg.Add(1)
				go func() {
					defer wg.Done()
					data, r := streamPlan(sc.seed, 1, k, sc.maxKiB)
					note(writeAll(s, data, r, deadline, false), "s-write")
				}()
			}
		}()
		used, rejected := false, false
		c, derr := env.ClientTr.DialEarly(ctx, e2e.ServerAddr, ctls.Clone(), env.ClientCfg)
		if derr == nil {
			// attempt 1 (possibly 0-RTT): contents of plan 4+k. Errors are not reported: after a rejection they are expected.
			var early sync.WaitGroup
			for k := 0; k < sc.nc; k++ {
				s, err := c.OpenStream()
				if err != nil {
					break
				}
				early.Add(2)
				go func() {
					defer early.Done()
					data, r := streamPlan(sc.seed, 4, k, sc.maxKiB)
					writeAll(s, data, r, deadline, sc.one == 1)
				}()
				go func() {
					defer early.Done()
					s.SetReadDeadline(deadline)
					io.Copy(io.Discard, s)
				}()
			}
			select {
			case <-c.HandshakeComplete():
			case <-c.Context().Done():
			case <-ctx.Done():
			}
			used = c.ConnectionState().Used0RTT
			// after a rejection the streams map answers every call with Err0RTTRejected until NextConnection
			if _, perr := c.OpenUniStream(); errors.Is(perr, quic.Err0RTTRejected) {
				rejected = true
				early.Wait() // every call on a stream of the first attempt has failed by now
				if _, err := c.NextConnection(ctx); err != nil {
					note(err, "nextconnection")
				} else if c.Context().Err() != nil { // NextConnection also returns when the connection died
					note(context.Cause(c.Context()), "nextconnection")
				}
				for k := 0; k < sc.nc; k++ {
					s, err := c.OpenStreamSync(ctx)
					if err != nil {
						note(err, "c-open")
						break
					}
					wg.Add(2)
					go func() {
						defer wg.Done()
						data, r := streamPlan(sc.seed, 0, k, sc.maxKiB)
						note(writeAll(s, data, r, deadline, sc.one == 1), "c-write")
					}()
					go func() {
						defer wg.Done()
						s.SetReadDeadline(deadline)
						io.Copy(io.Discard, s)
					}()
				}
			} else {
				early.Wait()
			}
			for k := 0; k < sc.ns; k++ {
				s, err := c.AcceptUniStream(ctx)
				if err != nil {
					note(err, "c-accept")
					break
				}
				wg.Add(1)
				go func() {
					defer wg.Done()
					id := int64(s.StreamID())
					want, r := streamPlan(sc.seed, 1, int(id/4), sc.maxKiB)
					o := readAll(s, id, want, vh.NewRand(r.U64()^1), deadline)
					mu.Lock()
					s2c = append(s2c, o)
					mu.Unlock()
				}()
			}
		}
		wg.Wait()
		elapsed := time.Since(start)
		sconn := <-serverConn
		time.Sleep(300 * time.Millisecond)
		cancel()
		if c != nil {
			c.CloseWithError(0, "")
		}
		if sconn != nil {
			sconn.CloseWithError(0, "")
		}
		env.Close()
		synctest.Wait()
		mu.Lock()
		defer mu.Unlock()
		// what the server was to read: the first attempt's contents, or — after a rejection — the second attempt's
		var c2s []streamObs
		for id, got := range c2sB {
			d := 4
			if rejected {
				d = 0
			}
			want, _ := streamPlan(sc.seed, d, int(id/4), sc.maxKiB)
			c2s = append(c2s, streamObs{id: id, got: len(got), want: len(want), sha: sha8(got), wsha: sha8(want), pfx: bytes.HasPrefix(want, got), err: c2sE[id]})
		}
		sort.Strings(werrs)
		we := "-"
		if len(werrs) > 0 {
			we = strings.Join(werrs, ",")
		}
		res = fmt.Sprintf("dial=%s c2s=%s s2c=%s dg=0/0:0:0 werr=%s t=%d zr=%s,%s", errClass(derr), fmtObs(c2s), fmtObs(s2c), we, elapsed.Milliseconds(), b01(used), b01(rejected))
	})
	return res
}

func b01(b bool) string {
	if b {
		return "1"
	}
	return "0"
}

// bulkData: what stream kind `kind` carries in direction `dir` (0 c2s, 1 s2c): KiB..KiB+1499 bytes.
func bulkData(seed uint64, kind, dir, KiB int) ([]byte, *vh.Rand) {
	r := vh.NewRand(seed ^ uint64(kind+1)<<36 ^ uint64(dir+1)<<44 ^ 0x6a09e667f3bcc909)
	n := KiB*1024 + int(r.Range(0, 1499))
	data := make([]byte, n)
	x := r.U64()
	for i := 0; i+8 <= n; i += 8 {
		x = x*6364136223846793005 + 1442695040888963407
		binary.LittleEndian.PutUint64(data[i:], x)
	}
	for i := n &^ 7; i < n; i++ {
		data[i] = byte(x >> (8 * uint(i&7)))
	}
	return data, r
}

// runBulk: the b= scenarios (see the package comment).
func runBulk(t *testing.T, sc scenario) (res string) {
	synctest.Test(t, func(t *testing.T) {
		spec, ok := specFor(sc.client)
		if !ok {
			res = "setup-error spec"
			return
		}
		ver := quic.Version1
		if sc.version == 2 {
			ver = quic.Version2
		}
		conf := &quic.Config{Versions: []quic.Version{ver}}
		env, err := e2e.Start(handshakeVariant(sc, e2e.Setup{Spec: spec, Faults: sc.faults, ServerConf: conf, ClientConf: conf}))
		if err != nil {
			res = "setup-error start"
			return
		}
		start := time.Now()
		deadline := start.Add(runDeadline)
		ctx, cancel := context.WithDeadline(context.Background(), deadline)
		var (
			mu       sync.Mutex
			c2s, s2c []streamObs
			werrs    []string
			wg       sync.WaitGroup
		)
		note := func(err error, what string) {
			if err != nil {
				mu.Lock()
				werrs = append(werrs, what+"="+errClass(err))
				mu.Unlock()
			}
		}
		lag := time.Duration(sc.bLagMs) * time.Millisecond
		// one end of one stream: write what this side sends on it (w != nil), read what the other side sends (rd != nil)
		serve := func(kind int, fromClient bool, w writer, rd reader, id int64) {
			sendDir, recvDir := 1, 0 // this side is the server
			if fromClient {
				sendDir, recvDir = 0, 1
			}
			if w != nil {
				wg.Add(1)
				go func() {
					defer wg.Done()
					data, r := bulkData(sc.seed, kind, sendDir, sc.bKiB)
					who := "s-write"
					if fromClient {
						who = "c-write"
					}
					note(writeAll(w, data, r, deadline, false), who)
				}()
			}
			if rd != nil {
				wg.Add(1)
				go func() {
					defer wg.Done()
					want, r := bulkData(sc.seed, kind, recvDir, sc.bKiB)
					time.Sleep(lag)
					o := readAll(rd, id, want, vh.NewRand(r.U64()^1), deadline)
					mu.Lock()
					if recvDir == 0 {
						c2s = append(c2s, o)
					} else {
						s2c = append(s2c, o)
					}
					mu.Unlock()
				}()
			}
		}
		// the kind of an accepted stream follows from its id (RFC 9000 2.1): bit 0 initiator, bit 1 unidirectional
		endpoint := func(c *quic.Conn, isClient bool) {
			ownBidi, ownUni, peerBidi, peerUni := 2, 8, 1, 4
			tag := "s"
			if isClient {
				ownBidi, ownUni, peerBidi, peerUni = 1, 4, 2, 8
				tag = "c"
			}
			if sc.bKinds&ownBidi != 0 {
				s, err := c.OpenStreamSync(ctx)
				if err != nil {
					note(err, tag+"-open")
				} else {
					serve(ownBidi, isClient, s, s, int64(s.StreamID()))
				}
			}
			if sc.bKinds&ownUni != 0 {
				s, err := c.OpenUniStreamSync(ctx)
				if err != nil {
					note(err, tag+"-open")
				} else {
					serve(ownUni, isClient, s, nil, int64(s.StreamID()))
				}
			}
			if sc.bKinds&peerBidi != 0 {
				wg.Add(1)
				go func() {
					defer wg.Done()
					s, err := c.AcceptStream(ctx)
					if err != nil {
						note(err, tag+"-accept")
						return
					}
					serve(peerBidi, isClient, s, s, int64(s.StreamID()))
				}()
			}
			if sc.bKinds&peerUni != 0 {
				wg.Add(1)
				go func() {
					defer wg.Done()
					s, err := c.AcceptUniStream(ctx)
					if err != nil {
						note(err, tag+"-accept")
						return
					}
					serve(peerUni, isClient, nil, s, int64(s.StreamID()))
				}()
			}
		}
		serverConn := make(chan *quic.Conn, 1)
		wg.Add(1)
		go func() {
			defer wg.Done()
			c, err := env.Listener.Accept(ctx)
			if err != nil {
				note(err, "accept")
				serverConn <- nil
				return
			}
			serverConn <- c
			endpoint(c, false)
		}()
		c, derr := env.Dial(ctx)
		if derr == nil {
			endpoint(c, true)
		}
		wg.Wait()
		elapsed := time.Since(start)
		sconn := <-serverConn
		time.Sleep(300 * time.Millisecond)
		cancel()
		if c != nil {
			c.CloseWithError(0, "")
		}
		if sconn != nil {
			sconn.CloseWithError(0, "")
		}
		env.Close()
		synctest.Wait()
		mu.Lock()
		defer mu.Unlock()
		sort.Strings(werrs)
		we := "-"
		if len(werrs) > 0 {
			we = strings.Join(werrs, ",")
		}
		res = fmt.Sprintf("dial=%s c2s=%s s2c=%s dg=0/0:0:0 werr=%s t=%d", errClass(derr), fmtObs(c2s), fmtObs(s2c), we, elapsed.Milliseconds())
	})
	return res
}

// runPhase2: silence, then one more unidirectional stream from `who` while the path (towards the writer, or both
// ways) is dead for outMs; finally, well after the outage, are both connections still alive?
func runPhase2(sc scenario, cconn, sconn *quic.Conn, setOutage func([2]bool, time.Duration), note func(error, string)) string {
	time.Sleep(time.Duration(sc.quietMs) * time.Millisecond)
	wconn, rconn, towardsWriter := cconn, sconn, e2e.ToClient
	if sc.who == 1 {
		wconn, rconn, towardsWriter = sconn, cconn, e2e.ToServer
	}
	outDur := time.Duration(sc.outMs) * time.Millisecond
	var dead [2]bool
	switch sc.outDir {
	case 1:
		dead[towardsWriter] = true
	case 2:
		dead = [2]bool{true, true}
	}
	t2 := time.Now()
	deadline := t2.Add(60 * time.Second)
	ctx, cancel := context.WithDeadline(context.Background(), deadline)
	defer cancel()
	setOutage(dead, outDur)
	data, r := streamPlan(sc.seed, 2+sc.who, 0, 24)
	var wg sync.WaitGroup
	obs := "-"
	wg.Add(2)
	go func() {
		defer wg.Done()
		s, err := wconn.OpenUniStreamSync(ctx)
		if err != nil {
			note(err, "p2-open")
			return
		}
		note(writeAll(s, data, r, deadline, false), "p2-write")
	}()
	go func() {
		defer wg.Done()
		s, err := rconn.AcceptUniStream(ctx)
		if err != nil {
			note(err, "p2-accept")
			return
		}
		o := readAll(s, int64(s.StreamID()), data, vh.NewRand(sc.seed^0x9e3779b97f4a7c15), deadline)
		obs = fmtObs([]streamObs{o})
	}()
	wg.Wait()
	// the writer's first probe after the outage comes (PTO back-off) at most at t2 + 2*outMs + one PTO; its
	// acknowledgement is back one round trip later
	if rest := time.Until(t2.Add(2*outDur + 1500*time.Millisecond)); rest > 0 {
		time.Sleep(rest)
	}
	return fmt.Sprintf(" p2=%s conn=%s,%s", obs, errClass(context.Cause(cconn.Context())), errClass(context.Cause(sconn.Context())))
}

// ---------------------------------------------------------------- runner / generator

type runner struct {
	t *testing.T
}

// enumeration cursor shared by all cases of a thorough run
var enum struct {
	once  sync.Once
	queue []scenario
	pos   int
}

func faultArg(kind string, r *vh.Rand) int {
	switch kind {
	case "delay":
		return int([]int64{r.Range(1, 30), r.Range(30, 400), r.Range(400, 3000)}[r.Pick(40, 40, 20)])
	case "flip":
		return int(r.Range(0, 12000))
	case "trunc":
		return int(r.Range(0, 1400))
	}
	return 0
}

func buildEnum(seed uint64) []scenario {
	r := vh.NewRand(seed ^ 0x5851f42d4c957f2d)
	var out []scenario
	type pos struct{ d, i int }
	var ps []pos
	for d := 0; d < 2; d++ {
		for i := 0; i < enumFirstN; i++ {
			ps = append(ps, pos{d, i})
		}
	}
	mk := func(cl string, v int, fs []e2e.Fault) scenario {
		return scenario{client: cl, version: v, seed: r.U64() >> 1, nc: 1 + r.Intn(2), ns: 1, nd: 2, maxKiB: 24, faults: fs}
	}
	// every single fault, all four client/version combinations
	for _, cfg := range []struct {
		cl string
		v  int
	}{{"plain", 1}, {"plain", 2}, {"chrome", 1}, {"chrome", 2}} {
		for _, p := range ps {
			for _, k := range kinds {
				out = append(out, mk(cfg.cl, cfg.v, []e2e.Fault{{Dir: e2e.Dir(p.d), Index: p.i, Kind: k, Arg: faultArg(k, r)}}))
			}
		}
	}
	// round 5: every single fault under every handshake variant (Retry, HelloRetryRequest with the client kinds in turn;
	// 0-RTT accepted / rejected / behind a Retry with the plain client). For h>=3 the first connection (the one that
	// fetches the ticket) uses the first ~8 datagrams of each direction, so both connections are hit.
	for h := 1; h <= 5; h++ {
		for n, p := range ps {
			for _, k := range kinds {
				cl := "plain"
				if h <= 2 {
					cl = []string{"plain", "firefox", "chrome"}[n%3]
				}
				sc := mk(cl, 1+n%2, []e2e.Fault{{Dir: e2e.Dir(p.d), Index: p.i + (h/3)*r.Intn(2)*9, Kind: k, Arg: faultArg(k, r)}})
				sc.hs = h
				if h >= 3 {
					sc.nd = 0
				}
				out = append(out, sc)
			}
		}
	}
	// every pair of faults (plain client, QUIC v1)
	for a := 0; a < len(ps); a++ {
		for b := a + 1; b < len(ps); b++ {
			for _, k1 := range kinds {
				for _, k2 := range kinds {
					out = append(out, mk("plain", 1, []e2e.Fault{
						{Dir: e2e.Dir(ps[a].d), Index: ps[a].i, Kind: k1, Arg: faultArg(k1, r)},
						{Dir: e2e.Dir(ps[b].d), Index: ps[b].i, Kind: k2, Arg: faultArg(k2, r)}}))
				}
			}
		}
	}
	return out
}

// hdrBytes: the long header of the first datagram of either direction lies within its first hdrBytes bytes
// (flags, version, DCID length + DCID (8 / 4), SCID length + SCID (4 / 0), token length, length, packet number).
const hdrBytes = 28

// header-field corruption (round 4): ONE bit of ONE header byte of the first (second) datagram of a direction is
// flipped. Such a datagram is not simply lost: the receiver parses the unauthenticated header first and may
// create / route / key state from the corrupted field (a connection created for a wrong Source or Destination
// Connection ID, a Version Negotiation answer, a different packet type) before authentication fails, and has to
// recover when the retransmission arrives. Enumerated, not sampled: position k of the cycle is a fixed
// (client, version, direction, datagram, byte); the bit rotates with the run seed (thorough: all 8 bits).
var hdrEnum struct {
	once  sync.Once
	queue []scenario
	pos   int
}

func buildHdrEnum(seed uint64, allBits bool) []scenario {
	r := vh.NewRand(seed ^ 0x2545f4914f6cdd1d)
	var out []scenario
	add := func(cl string, v, d, idx int) {
		for b := 0; b < hdrBytes; b++ {
			bits := []int{int(seed*3+uint64(b*5+v+d)) % 8}
			if allBits {
				bits = []int{0, 1, 2, 3, 4, 5, 6, 7}
			}
			for _, bit := range bits {
				out = append(out, scenario{client: cl, version: v, seed: r.U64() >> 1, nc: 1, ns: 1, nd: 1, maxKiB: 8,
					faults: []e2e.Fault{{Dir: e2e.Dir(d), Index: idx, Kind: "flip", Arg: b*8 + bit}}})
			}
		}
	}
	// most exposed first: the client's very first Initial (non-empty connection IDs: plain client), both versions
	add("plain", 1, 0, 0)
	add("plain", 2, 0, 0)
	add("plain", 1, 1, 0)
	add("plain", 2, 1, 0)
	add("chrome", 1, 0, 0)
	add("chrome", 2, 0, 0)
	add("chrome", 1, 1, 0)
	add("chrome", 2, 1, 0)
	add("plain", 1, 0, 1)
	add("plain", 1, 1, 1)
	return out
}

// bulk transfers (round 5, b=): an enumerated cycle, most exposing first. Every run starts at the beginning, so that a
// quick run always contains: every stream kind in both directions with more bytes than the 1 MiB windows of the Firefox
// parrot (prompt and late readers), more than Chrome's 6 MiB and more than Firefox's 12 MiB windows, and the plain client.
var bulkEnum struct {
	once  sync.Once
	queue []scenario
	pos   int
}

const bulkFirst = 7 // this many entries of the cycle are part of every run

func buildBulkEnum(seed uint64, thorough bool) []scenario {
	r := vh.NewRand(seed ^ 0x9fb21c651e98df25)
	var out []scenario
	add := func(cl string, v, kinds, KiB, lag int, fs ...e2e.Fault) {
		out = append(out, scenario{client: cl, version: v, seed: r.U64() >> 1, bKinds: kinds, bKiB: KiB, bLagMs: lag, faults: fs})
	}
	add("firefox", 1, 15, 1100, 0)
	add("firefox", 1, 15, 1100, 600)
	add("chrome", 1, 15, 6400, 1200)
	add("plain", 1, 15, 1100, 300)
	add("firefox", 2, 15, 12900, 0)
	add("firefox", 1, 3, 12900, 2000)
	add("chrome", 2, 15, 1100, 0)
	for _, cl := range []string{"firefox", "chrome", "plain"} {
		for _, kinds := range []int{1, 2, 4, 8, 3, 12, 15} {
			for _, lag := range []int{0, 150, 900} {
				KiB := []int{600, 1100, 2300}[r.Intn(3)]
				var fs []e2e.Fault
				if r.Chance(50) {
					k := []string{"drop", "dup", "delay"}[r.Intn(3)]
					fs = []e2e.Fault{{Dir: e2e.Dir(r.Intn(2)), Index: int(r.Range(4, 400)), Kind: k, Arg: faultArg(k, r) % 400}}
				}
				add(cl, 1+r.Intn(2), kinds, KiB, lag, fs...)
			}
		}
	}
	if thorough {
		for _, cl := range []string{"firefox", "chrome"} {
			for _, kinds := range []int{1, 2, 4, 8} {
				for _, lag := range []int{0, 2500} {
					add(cl, 1+r.Intn(2), kinds, []int{6400, 12900}[r.Intn(2)], lag)
				}
			}
		}
	}
	return out
}

func nextBulk(thorough bool) string {
	bulkEnum.once.Do(func() { bulkEnum.queue = buildBulkEnum(vh.EnvU64("VH_SEED", 1), thorough) })
	s := bulkEnum.queue[bulkEnum.pos%len(bulkEnum.queue)]
	if bulkEnum.pos >= len(bulkEnum.queue) { // later rounds of the cycle: other contents and chunkings
		s.seed ^= uint64(bulkEnum.pos) * 0x9e3779b97f4a7c15 >> 1
	}
	bulkEnum.pos++
	return s.String()
}

func (rn *runner) GenOp(r *vh.Rand, i int) string {
	thorough := os.Getenv("VH_TIER") == "thorough"
	if thorough {
		enum.once.Do(func() { enum.queue = buildEnum(vh.EnvU64("VH_SEED", 1)) })
		if enum.pos < len(enum.queue) {
			s := enum.queue[enum.pos]
			enum.pos++
			return s.String()
		}
	}
	hdrEnum.once.Do(func() { hdrEnum.queue = buildHdrEnum(vh.EnvU64("VH_SEED", 1), thorough) })
	if i < 2 || (thorough && hdrEnum.pos < len(hdrEnum.queue)) { // the first two scenarios of every case continue the cycle
		s := hdrEnum.queue[hdrEnum.pos%len(hdrEnum.queue)]
		hdrEnum.pos++
		return s.String()
	}
	if i == 2 && bulkEnum.pos < bulkFirst {
		return nextBulk(thorough)
	}
	switch r.Pick(42, 14, 14, 14, 16, 9) {
	case 5:
		return nextBulk(thorough)
	case 4:
		return genIdle(r).String()
	case 1: // connection-window limited: several streams, each handed over with one Write + Close
		return scenario{client: []string{"plain", "chrome"}[r.Pick(70, 30)], version: 1 + r.Pick(60, 40), seed: r.U64() >> 1,
			nc: int(r.Range(2, 4)), ns: int(r.Range(0, 2)), nd: 0, maxKiB: 300,
			cwKiB: []int{16, 24, 48, 96}[r.Intn(4)], one: 1}.String()
	case 2: // bulk transfer with a short blackout while the congestion window is full
		return scenario{client: []string{"plain", "chrome"}[r.Pick(70, 30)], version: 1 + r.Pick(60, 40), seed: r.U64() >> 1,
			nc: int(r.Range(1, 2)), ns: int(r.Range(0, 1)), nd: 0, maxKiB: 600, one: r.Intn(2),
			boStart: int(r.Range(45, 160)), boDur: int([]int64{r.Range(30, 120), r.Range(120, 900)}[r.Intn(2)])}.String()
	case 3: // DATAGRAMs interleaved with bulk stream data; some client datagrams are reordered by a fraction of
		// the RTT: declared lost by the sender (packet threshold) although they arrive — a spurious loss. (Longer
		// delays do not show a duplicate: the receiver then drops the late packet as "below the ACKed range".)
		sc := scenario{client: []string{"plain", "chrome"}[r.Pick(75, 25)], version: 1 + r.Pick(60, 40), seed: r.U64() >> 1,
			nc: int(r.Range(1, 2)), ns: 1, nd: int(r.Range(20, 40)), maxKiB: 300, dgi: 1}
		seen := map[int]bool{}
		for n := int(r.Range(3, 8)); len(sc.faults) < n; {
			idx := int(r.Range(12, 60))
			if seen[idx] {
				continue
			}
			seen[idx] = true
			sc.faults = append(sc.faults, e2e.Fault{Dir: e2e.ToServer, Index: idx, Kind: "delay", Arg: int(r.Range(3, 18))})
		}
		return sc.String()
	}
	// random schedule: 0..4 faults among the first 30 datagrams of either direction
	sc := scenario{client: []string{"plain", "chrome", "firefox"}[r.Pick(55, 30, 15)], version: 1 + r.Pick(60, 40), seed: r.U64() >> 1,
		nc: int(r.Range(1, 3)), ns: int(r.Range(1, 3)), nd: int(r.Range(0, 6)), maxKiB: []int{8, 60, 200}[r.Pick(40, 40, 20)]}
	nf := r.Pick(10, 30, 30, 20, 10)
	seen := map[[2]int]bool{}
	for len(sc.faults) < nf {
		d, idx := r.Intn(2), []int{r.Intn(6), r.Intn(12), r.Intn(30)}[r.Pick(40, 35, 25)]
		if seen[[2]int{d, idx}] {
			continue
		}
		seen[[2]int{d, idx}] = true
		k := kinds[r.Intn(len(kinds))]
		sc.faults = append(sc.faults, e2e.Fault{Dir: e2e.Dir(d), Index: idx, Kind: k, Arg: faultArg(k, r)})
	}
	// handshake variants (round 5): Retry / HelloRetryRequest for every client kind, 0-RTT resumption (accepted,
	// rejected, behind a Retry) for the plain client
	switch h := r.Pick(66, 7, 7, 7, 8, 5); {
	case h >= 3 && sc.client == "plain":
		sc.hs = h
		sc.nd = 0
		if sc.nc == 0 {
			sc.nc = 1
		}
		if r.Chance(45) { // the early data fills a small connection-level window
			sc.cwKiB, sc.one, sc.maxKiB = []int{16, 24, 48}[r.Intn(3)], r.Intn(2), 200
		}
	case h >= 1:
		sc.hs = 1 + h%2
	}
	return sc.String()
}

// genIdle: phase-2 scenarios (y=). Only parameter combinations for which a conforming endpoint MUST keep the
// connection (the oracle re-checks the same inequalities, margin 1 s): without keep-alives the silence is shorter
// than the idle timeout T; an outage of the direction towards the writer lasts at most (T-1s)/2 (the writer restarted
// its idle timer when it sent the first ack-eliciting packet after the silence, RFC 9000 10.1, and its first probe
// after the outage comes at most at 2*outage + PTO because of the PTO back-off); an outage of both directions
// additionally has silence + 2*outage <= T-1s (the reader has heard nothing since the end of phase 1). With
// keep-alives (period T/2) the silence may be several T.
func genIdle(r *vh.Rand) scenario {
	sc := scenario{client: []string{"plain", "chrome"}[r.Pick(70, 30)], version: 1 + r.Pick(60, 40), seed: r.U64() >> 1,
		nc: int(r.Range(0, 2)), ns: int(r.Range(0, 2)), nd: int(r.Range(0, 2)), maxKiB: []int{8, 60}[r.Pick(60, 40)], hasY: true}
	if sc.nc+sc.ns == 0 {
		sc.nc = 1
	}
	T := int(r.Range(4000, 9000))
	const M = 1000
	sc.idleMs, sc.ka, sc.who, sc.outDir = T, r.Pick(65, 35), r.Intn(2), r.Pick(20, 50, 30)
	rng := func(lo, hi int) int {
		if hi <= lo {
			return lo
		}
		return int(r.Range(int64(lo), int64(hi)))
	}
	if sc.ka == 1 {
		sc.quietMs = rng(T, 3*T)
		switch sc.outDir {
		case 1:
			sc.outMs = rng(100, (T-M)/2)
		case 2:
			sc.outMs = rng(100, (T/2-M)/2)
		}
	} else {
		switch sc.outDir {
		case 0:
			sc.quietMs = rng(T/2, T-M)
		case 1:
			if r.Pick(70, 30) == 0 { // silence + outage exceeds T although each is far below it
				sc.outMs = rng(M+300, (T-M)/2)
				sc.quietMs = rng(T-sc.outMs+200, T-M)
			} else {
				sc.outMs = rng(0, (T-M)/2)
				sc.quietMs = rng(0, T-M)
			}
		case 2:
			sc.outMs = rng(100, (T-M)/2-100)
			sc.quietMs = rng(0, T-M-2*sc.outMs)
		}
	}
	if r.Pick(70, 30) == 1 { // one harmless phase-1 fault
		k := []string{"drop", "dup", "flip", "trunc"}[r.Intn(4)]
		sc.faults = []e2e.Fault{{Dir: e2e.Dir(r.Intn(2)), Index: r.Intn(12), Kind: k, Arg: faultArg(k, r)}}
	}
	return sc
}

func (rn *runner) Exec(op string) string {
	sc, ok := parseScenario(op)
	if !ok {
		return "bad-op"
	}
	if os.Getenv("E2E_DRYRUN") != "" { // list the scenarios of a run without executing them
		return "dry"
	}
	if os.Getenv("E2E_INPROC") != "" {
		return runScenario(rn.t, sc)
	}
	return theWorker.exec(op)
}

// ---------------------------------------------------------------- worker process
//
// A panic in a connection's run loop (or any other goroutine of the code under test) cannot be recovered by the
// driver: it ends the process. So that such a crash is an OBSERVATION with a replay (result `crash=<panic>@<function>`,
// monitor e2e_no_crash) instead of a harness failure, the scenarios run in a worker: the same test binary started
// with E2E_WORKER=1, which reads op lines from stdin and answers `R <result>`. When the worker dies, the scenario it
// was running gets the crash result and a new worker is started for the next one.

type worker struct {
	cmd    *exec.Cmd
	in     io.WriteCloser
	out    *bufio.Reader
	stderr *tailBuffer
}

var theWorker worker

// tailBuffer keeps the first 64 KiB written to it (the panic message and the first stacks).
type tailBuffer struct {
	mu sync.Mutex
	b  []byte
}

func (t *tailBuffer) Write(p []byte) (int, error) {
	t.mu.Lock()
	if room := 64<<10 - len(t.b); room > 0 {
		t.b = append(t.b, p[:min(len(p), room)]...)
	}
	t.mu.Unlock()
	return len(p), nil
}

func (w *worker) start() error {
	cmd := exec.Command(os.Args[0], "-test.run", "^TestDriver$", "-test.count=1", "-test.timeout", "0")
	cmd.Env = append(os.Environ(), "E2E_WORKER=1")
	in, err := cmd.StdinPipe()
	if err != nil {
		return err
	}
	out, err := cmd.StdoutPipe()
	if err != nil {
		return err
	}
	w.stderr = &tailBuffer{}
	cmd.Stderr = w.stderr
	if err := cmd.Start(); err != nil {
		return err
	}
	w.cmd, w.in, w.out = cmd, in, bufio.NewReaderSize(out, 1<<20)
	return nil
}

func (w *worker) stop() {
	if w.cmd != nil {
		w.in.Close()
		w.cmd.Wait()
		w.cmd = nil
	}
}

func (w *worker) exec(op string) string {
	if w.cmd == nil {
		if err := w.start(); err != nil {
			return "setup-error worker"
		}
	}
	type reply struct {
		line string
		err  error
	}
	ch := make(chan reply, 1)
	go func() {
		fmt.Fprintln(w.in, op)
		for {
			l, err := w.out.ReadString('\n')
			if err != nil || strings.HasPrefix(l, "R ") {
				ch <- reply{strings.TrimSuffix(strings.TrimPrefix(l, "R "), "\n"), err}
				return
			}
		}
	}()
	var r reply
	select {
	case r = <-ch:
	case <-time.After(10 * time.Minute): // wall clock: a scenario takes well under a second
		w.cmd.Process.Kill()
		r = <-ch
		w.cmd.Wait()
		w.cmd = nil
		return "crash=timeout@-"
	}
	if r.err == nil {
		return r.line
	}
	w.cmd.Wait()
	w.cmd = nil
	w.stderr.mu.Lock()
	defer w.stderr.mu.Unlock()
	return "crash=" + crashSummary(string(w.stderr.b))
}

// crashSummary: `<panic or fatal error line>@<innermost function of the module that is not harness code>`.
func crashSummary(stderr string) string {
	clean := func(s string) string {
		s = strings.Map(func(r rune) rune {
			if r == ' ' || r == '\t' || r == ';' || r == ',' || r == '=' {
				return '_'
			}
			return r
		}, strings.TrimSpace(s))
		if len(s) > 120 {
			s = s[:120]
		}
		return s
	}
	msg, fn := "unknown", "-"
	lines := strings.Split(stderr, "\n")
	at := -1
	for i, l := range lines {
		if strings.HasPrefix(l, "panic: ") || strings.HasPrefix(l, "fatal error: ") {
			msg, at = clean(l), i
			break
		}
	}
	if at >= 0 {
		for _, l := range lines[at+1:] {
			if strings.HasPrefix(l, "github.com/refraction-networking/uquic") && !strings.Contains(l, "/verifharness/") {
				f := strings.TrimPrefix(l, "github.com/refraction-networking/")
				if i := strings.LastIndex(f, "("); i > 0 {
					f = f[:i]
				}
				fn = clean(f)
				break
			}
		}
	}
	return msg + "@" + fn
}

func workerMain(t *testing.T) {
	in := bufio.NewScanner(os.Stdin)
	in.Buffer(make([]byte, 1<<20), 1<<24)
	out := bufio.NewWriter(os.Stdout)
	for in.Scan() {
		res := "bad-op"
		if sc, ok := parseScenario(in.Text()); ok {
			res = runScenario(t, sc)
		}
		fmt.Fprintf(out, "R %s\n", res)
		out.Flush()
	}
}

func TestDriver(t *testing.T) {
	if os.Getenv("E2E_WORKER") != "" {
		workerMain(t)
		return
	}
	defer theWorker.stop()
	vh.Main(t, "e2estream", func(r *vh.Rand) vh.Runner { return &runner{t: t} })
}
