//go:build verif

package e2estream

import (
	"context"
	"io"
	"sync/atomic"
	"testing"
	"testing/synctest"
	"time"

	quic "github.com/refraction-networking/uquic"
	"github.com/refraction-networking/uquic/internal/verifharness/e2e"
)

// TestFinAfterResetAt is the end-to-end replay of finding C01-fin-after-reset-at (not part of TestDriver):
// with RESET_STREAM_AT negotiated, stream B does Write(10) SetReliableBoundary Write(5) Close CancelWrite while a
// bulk stream A keeps the connection congestion-limited, and the one datagram that carries the RESET_STREAM_AT
// frame is lost. The server then reads stream B: a clean io.EOF after 10 of the 15 bytes the client wrote.
// Run: <test binary> -test.run TestFinAfterResetAt -test.v
func TestFinAfterResetAt(t *testing.T) {
	synctest.Test(t, func(t *testing.T) {
		conf := &quic.Config{EnableStreamResetPartialDelivery: true}
		env, err := e2e.Start(e2e.Setup{ServerConf: conf, ClientConf: conf})
		if err != nil {
			t.Fatal(err)
		}
		defer env.Close()
		var dropNext atomic.Bool
		var dropped atomic.Int32
		env.Net.Tap = func(d e2e.Dir, idx int, b []byte) bool {
			if d == e2e.ToServer && dropNext.CompareAndSwap(true, false) {
				dropped.Add(1)
				return false
			}
			return true
		}
		type result struct {
			n   int
			err error
		}
		resB := make(chan result, 1)
		srvDone := make(chan struct{})
		go func() {
			defer close(srvDone)
			c, err := env.Listener.Accept(context.Background())
			if err != nil {
				return
			}
			for i := 0; i < 2; i++ {
				s, err := c.AcceptStream(context.Background())
				if err != nil {
					return
				}
				if s.StreamID() == 0 { // bulk stream A
					go io.Copy(io.Discard, s)
					continue
				}
				go func() {
					s.SetReadDeadline(time.Now().Add(20 * time.Second))
					b, err := io.ReadAll(s)
					resB <- result{len(b), err}
				}()
			}
		}()
		ctx, cancel := context.WithTimeout(context.Background(), 30*time.Second)
		defer cancel()
		c, err := env.Dial(ctx)
		if err != nil {
			t.Fatal(err)
		}
		if !c.ConnectionState().SupportsStreamResetPartialDelivery.Remote {
			t.Skip("RESET_STREAM_AT not negotiated")
		}
		a, _ := c.OpenStreamSync(ctx)
		go a.Write(make([]byte, 400<<10)) // keeps the sender congestion-limited
		synctest.Wait()                  // the first flight is out, the sender waits for ACKs
		b, _ := c.OpenStreamSync(ctx)
		b.Write([]byte("0123456789"))
		b.SetReliableBoundary()
		b.Write([]byte("abcde"))
		b.Close()
		dropNext.Store(true) // lose the next client datagram: it starts with the RESET_STREAM_AT frame
		b.CancelWrite(7)
		r := <-resB
		t.Logf("stream B: client wrote 15 bytes, Close, CancelWrite; server read %d bytes, err=%v (datagrams dropped: %d)", r.n, r.err, dropped.Load())
		if r.err == nil && r.n < 15 {
			t.Logf("FINDING REPRODUCED end to end: clean EOF after %d of 15 bytes", r.n)
		}
		c.CloseWithError(0, "")
		<-srvDone
	})
}
