//go:build verif

// Package h3u is the raw-peer driver of property C18 for the unidirectional side of an HTTP/3
// connection: a real http3.Server (or http3.Transport client) over testutils/simnet inside a
// testing/synctest bubble, facing a bare QUIC peer that opens unidirectional streams of the given
// types one round trip apart (control streams carry an empty SETTINGS frame and stay open).
//
//	uni srv=<1|0> types=<t1,t2,…> => conn=<alive|code> s=<ok|stop:<code>|x>,…
//
// conn: application error code the implementation closed the connection with; per stream: ok (still
// open), stop:<code> (STOP_SENDING received), x (the connection was closed at or before this stream).
package h3u

import (
	"context"
	"crypto/x509"
	"errors"
	"fmt"
	"net"
	"net/http"
	"strconv"
	"strings"
	"sync"
	"testing"
	"testing/synctest"
	"time"

	quic "github.com/refraction-networking/uquic"
	"github.com/refraction-networking/uquic/http3"
	"github.com/refraction-networking/uquic/integrationtests/tools"
	"github.com/refraction-networking/uquic/internal/verifharness/vh"
	"github.com/refraction-networking/uquic/quicvarint"
	"github.com/refraction-networking/uquic/testutils/simnet"
	tls "github.com/refraction-networking/utls"
)

var (
	theT         *testing.T
	srvTLS       *tls.Config
	cliTLS       *tls.Config
	tlsSetupOnce sync.Once
)

func setupTLS() {
	ca, caKey, err := tools.GenerateCA()
	if err != nil {
		panic(err)
	}
	leaf, leafKey, err := tools.GenerateLeafCert(ca, caKey)
	if err != nil {
		panic(err)
	}
	srvTLS = &tls.Config{
		Certificates: []tls.Certificate{{Certificate: [][]byte{leaf.Raw}, PrivateKey: leafKey}},
		NextProtos:   []string{http3.NextProtoH3},
	}
	root := x509.NewCertPool()
	root.AddCert(ca)
	cliTLS = &tls.Config{ServerName: "localhost", RootCAs: root, NextProtos: []string{http3.NextProtoH3}}
}

const lat = 2 * time.Millisecond

// probe opens the streams on the raw peer's connection and reports what the implementation did
func probe(conn *quic.Conn, types []uint64) string {
	connCode := "alive"
	var res []string
	closedNow := func() bool {
		select {
		case <-conn.Context().Done():
			var ae *quic.ApplicationError
			if errors.As(context.Cause(conn.Context()), &ae) {
				connCode = strconv.FormatUint(uint64(ae.ErrorCode), 10)
			} else {
				connCode = "other"
			}
			return true
		default:
			return false
		}
	}
	var strs []*quic.SendStream
	for i, t := range types {
		if closedNow() {
			for range types[i:] {
				res = append(res, "x")
			}
			break
		}
		str, err := conn.OpenUniStream()
		if err != nil {
			res = append(res, "x")
			continue
		}
		b := quicvarint.Append(nil, t)
		if t == 0 {
			b = append(b, 0x04, 0x00) // empty SETTINGS frame
		}
		str.Write(b)
		strs = append(strs, str)
		time.Sleep(6 * lat)
		if closedNow() {
			res = append(res, "x")
			continue
		}
		st := "ok"
		select {
		case <-str.Context().Done():
			var se *quic.StreamError
			if errors.As(context.Cause(str.Context()), &se) {
				st = fmt.Sprintf("stop:%d", uint64(se.ErrorCode))
			} else {
				st = "stop:?"
			}
		default:
		}
		res = append(res, st)
	}
	// streams answered with STOP_SENDING earlier keep that status; a later close turns nothing back
	return fmt.Sprintf("conn=%s s=%s", connCode, strings.Join(res, ","))
}

func runScenario(isServer bool, types []uint64) string {
	out := "conn=setup-failed s=-"
	run := func(t *testing.T) {
		serverAddr := &net.UDPAddr{IP: net.ParseIP("1.0.0.2"), Port: 443}
		settings := simnet.NodeBiDiLinkSettings{Latency: lat}
		n := &simnet.Simnet{Router: &simnet.PerfectRouter{}}
		cconn := n.NewEndpoint(&net.UDPAddr{IP: net.ParseIP("1.0.0.1"), Port: 9001}, settings)
		sconn := n.NewEndpoint(serverAddr, settings)
		if err := n.Start(); err != nil {
			panic(err)
		}
		qconf := &quic.Config{MaxIdleTimeout: 120 * time.Second}
		ctx, cancel := context.WithTimeout(context.Background(), 60*time.Second)
		defer cancel()
		if isServer {
			server := &http3.Server{TLSConfig: srvTLS.Clone(), QUICConfig: qconf.Clone(),
				Handler: http.HandlerFunc(func(w http.ResponseWriter, r *http.Request) {})}
			sdone := make(chan struct{})
			go func() { defer close(sdone); server.Serve(sconn) }()
			ctr := &quic.Transport{Conn: cconn}
			conn, err := ctr.Dial(ctx, serverAddr, cliTLS.Clone(), qconf.Clone())
			if err == nil {
				out = probe(conn, types)
				conn.CloseWithError(0x100, "")
			}
			server.Close()
			<-sdone
			ctr.Close()
		} else {
			str := &quic.Transport{Conn: sconn}
			ln, err := str.Listen(srvTLS.Clone(), qconf.Clone())
			if err != nil {
				panic(err)
			}
			ctr := &quic.Transport{Conn: cconn}
			tr := &http3.Transport{TLSClientConfig: cliTLS.Clone(), QUICConfig: qconf.Clone(),
				Dial: func(ctx context.Context, addr string, tlsCfg *tls.Config, cfg *quic.Config) (*quic.Conn, error) {
					return ctr.DialEarly(ctx, serverAddr, tlsCfg, cfg)
				}}
			rdone := make(chan struct{})
			go func() {
				defer close(rdone)
				req, _ := http.NewRequestWithContext(ctx, "GET", "https://localhost/", nil)
				if res, err := tr.RoundTrip(req); err == nil {
					res.Body.Close()
				}
			}()
			conn, err := ln.Accept(ctx)
			if err == nil {
				select {
				case <-conn.HandshakeComplete():
				case <-ctx.Done():
				}
				out = probe(conn, types)
				conn.CloseWithError(0x100, "")
			}
			<-rdone
			tr.Close()
			ln.Close()
			str.Close()
			ctr.Close()
		}
		cconn.Close()
		sconn.Close()
		n.Close()
	}
	synctest.Test(theT, run)
	return out
}

type runner struct{}

func (rn *runner) Exec(op string) string {
	f := strings.Fields(op)
	if len(f) != 3 || f[0] != "uni" || !strings.HasPrefix(f[1], "srv=") || !strings.HasPrefix(f[2], "types=") {
		return "bad-op"
	}
	var types []uint64
	for _, x := range strings.Split(strings.TrimPrefix(f[2], "types="), ",") {
		v, err := strconv.ParseUint(x, 10, 62)
		if err != nil {
			return "bad-op"
		}
		types = append(types, v)
	}
	if len(types) == 0 || len(types) > 12 {
		return "bad-op"
	}
	return runScenario(f[1] == "srv=1", types)
}

var unknownTypes = []uint64{4, 5, 0x21, 0x40, 0x54, 0x3fff, 0x4000, 0x3fffffff}

func (rn *runner) GenOp(r *vh.Rand, i int) string {
	n := 1 + r.Intn(6)
	var ts []string
	for k := 0; k < n; k++ {
		var t uint64
		switch r.Pick(60, 27, 5, 8) {
		case 0:
			t = []uint64{0, 2, 3}[r.Intn(3)]
		case 1:
			t = unknownTypes[r.Intn(len(unknownTypes))]
		case 2:
			t = 1
		default: // repeat an earlier one
			if len(ts) > 0 {
				t, _ = strconv.ParseUint(ts[r.Intn(len(ts))], 10, 62)
			} else {
				t = 2
			}
		}
		ts = append(ts, strconv.FormatUint(t, 10))
	}
	srv := 1
	if r.Chance(35) {
		srv = 0
	}
	return fmt.Sprintf("uni srv=%d types=%s", srv, strings.Join(ts, ","))
}

func newRunner(r *vh.Rand) vh.Runner { return &runner{} }

func TestDriver(t *testing.T) {
	theT = t
	tlsSetupOnce.Do(setupTLS)
	vh.Main(t, "h3u", newRunner)
}
