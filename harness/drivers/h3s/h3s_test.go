//go:build verif

// Package h3s is the unit-level correspondence driver of property C18: a real http3.Stream,
// body, frameParser and responseWriter over an in-memory QUIC stream stand-in that delivers
// prescribed chunkings and records every write and cancel call.
package h3s

import (
	"bytes"
	"context"
	"encoding/hex"
	"errors"
	"fmt"
	"io"
	"log/slog"
	"net/http"
	"sort"
	"strconv"
	"strings"
	"testing"
	"time"

	"github.com/quic-go/qpack"
	quic "github.com/refraction-networking/uquic"
	"github.com/refraction-networking/uquic/http3"
	"github.com/refraction-networking/uquic/internal/verifharness/vh"
	"github.com/refraction-networking/uquic/qlogwriter"
	"github.com/refraction-networking/uquic/quicvarint"
)

// ---------------------------------------------------------------- the QUIC stream stand-in

const (
	tOpen = iota
	tFin
	tReset
	tCancelled
	tConnClosed
)

const (
	sOK = iota
	sFailAfter
	sStopped
	sCancelled
	sClosed
)

var errBlock = errors.New("stub: read would block")
var errClosedWrite = errors.New("stub: write on closed stream")

type stub struct {
	conn *quic.Conn
	// receive side
	chunks   [][]byte
	term     int
	termCode uint64
	// send side
	sendSt   int
	sendK    int
	sendCode uint64
	writes   [][]byte // writes of the current operation
	sent     []byte   // everything written and not yet piped back
	evs      []string
}

var _ http3.VerifDatagramStream = &stub{}

// sync applies a connection close that happened since the last call (a closed connection fails its streams)
func (s *stub) sync() {
	if code, closed := s.conn.VerifCloseCode(); closed {
		s.abort(tConnClosed, code)
	}
}

func (s *stub) abort(term int, code uint64) {
	if s.term == tOpen || (s.term == tFin && len(s.chunks) > 0) {
		s.chunks, s.term, s.termCode = nil, term, code
	}
}

func (s *stub) termErr() error {
	switch s.term {
	case tOpen:
		return errBlock
	case tFin:
		return io.EOF
	case tReset:
		return &quic.StreamError{StreamID: 0, ErrorCode: quic.StreamErrorCode(s.termCode), Remote: true}
	case tCancelled:
		return &quic.StreamError{StreamID: 0, ErrorCode: quic.StreamErrorCode(s.termCode), Remote: false}
	}
	return &quic.ApplicationError{ErrorCode: quic.ApplicationErrorCode(s.termCode), Remote: false}
}

func (s *stub) Read(b []byte) (int, error) {
	s.sync()
	if len(s.chunks) == 0 {
		if len(b) == 0 && s.term == tOpen {
			return 0, nil
		}
		return 0, s.termErr()
	}
	c := s.chunks[0]
	k := copy(b, c)
	if k == len(c) {
		s.chunks = s.chunks[1:]
	} else {
		s.chunks[0] = c[k:]
	}
	return k, nil
}

func (s *stub) Write(b []byte) (int, error) {
	s.sync()
	if code, closed := s.conn.VerifCloseCode(); closed {
		return 0, &quic.ApplicationError{ErrorCode: quic.ApplicationErrorCode(code), Remote: false}
	}
	switch s.sendSt {
	case sFailAfter:
		if s.sendK == 0 {
			s.sendSt = sStopped
			return 0, &quic.StreamError{StreamID: 0, ErrorCode: quic.StreamErrorCode(s.sendCode), Remote: true}
		}
		s.sendK--
	case sStopped:
		return 0, &quic.StreamError{StreamID: 0, ErrorCode: quic.StreamErrorCode(s.sendCode), Remote: true}
	case sCancelled:
		return 0, &quic.StreamError{StreamID: 0, ErrorCode: quic.StreamErrorCode(s.sendCode), Remote: false}
	case sClosed:
		return 0, errClosedWrite
	}
	c := append([]byte(nil), b...)
	s.writes = append(s.writes, c)
	s.sent = append(s.sent, c...)
	return len(b), nil
}

func (s *stub) live() bool { return s.sendSt == sOK || s.sendSt == sFailAfter }

func (s *stub) Close() error {
	s.sync()
	s.evs = append(s.evs, "close")
	if s.live() {
		s.sendSt = sClosed
	}
	return nil
}

func (s *stub) CancelRead(c quic.StreamErrorCode) {
	s.sync()
	s.evs = append(s.evs, fmt.Sprintf("cr:%d", uint64(c)))
	s.abort(tCancelled, uint64(c))
}

func (s *stub) CancelWrite(c quic.StreamErrorCode) {
	s.sync()
	s.evs = append(s.evs, fmt.Sprintf("cw:%d", uint64(c)))
	if s.live() {
		s.sendSt, s.sendCode = sCancelled, uint64(c)
	}
}

func (s *stub) StreamID() quic.StreamID                  { return 0 }
func (s *stub) Context() context.Context                 { return context.Background() }
func (s *stub) SetDeadline(time.Time) error              { return nil }
func (s *stub) SetReadDeadline(time.Time) error          { return nil }
func (s *stub) SetWriteDeadline(time.Time) error         { return nil }
func (s *stub) SendDatagram([]byte) error                { return nil }
func (s *stub) ReceiveDatagram(context.Context) ([]byte, error) {
	return nil, errors.New("stub: no datagrams")
}
func (s *stub) QUICStream() *quic.Stream { return nil }

type nopRecorder struct{ n int }

func (r *nopRecorder) RecordEvent(qlogwriter.Event) { r.n++ }
func (r *nopRecorder) Close() error                 { return nil }

// ---------------------------------------------------------------- fixture

const maxHdr = 1000 // size limit of the trailer callback (stands for maxHeaderBytes)

type fixture struct {
	st      *stub
	str     *http3.Stream
	body    io.Reader
	viaBody bool
	rw      *http3.VerifRW
	trailer []byte
	lastHdr uint64
	q       bool
	peer    *fixture // the reader created by `pipe` (the other end of the stream)
}

func newFixture(via string, cl int64, q, head, lg bool) *fixture {
	f := &fixture{q: q}
	f.st = &stub{conn: quic.VerifStubConn()}
	var ql qlogwriter.Recorder
	if q {
		ql = &nopRecorder{}
	}
	f.str = http3.VerifNewStream(f.st, f.st.conn, func(r io.Reader, l uint64) error {
		// decodeTrailers without QPACK
		if l > maxHdr {
			return fmt.Errorf("http3: HEADERS frame too large: %d bytes (max: %d)", l, maxHdr)
		}
		b := make([]byte, l)
		if _, err := io.ReadFull(r, b); err != nil {
			return err
		}
		f.trailer = b
		return nil
	}, ql)
	f.viaBody = via == "B"
	f.body = http3.VerifNewBody(f.str, cl)
	var logger *slog.Logger
	if lg {
		logger = slog.New(slog.NewTextHandler(io.Discard, nil))
	}
	f.rw = http3.VerifNewResponseWriter(f.str, f.st.conn, head, logger)
	return f
}

func fmtErr(err error) string {
	if err == nil {
		return "-"
	}
	var h3e *http3.Error
	var se *quic.StreamError
	var ae *quic.ApplicationError
	switch {
	case errors.Is(err, errBlock):
		return "E:block"
	case err == io.EOF:
		return "E:eof"
	case err == io.ErrUnexpectedEOF:
		return "E:ueof"
	case errors.As(err, &h3e):
		r := 0
		if h3e.Remote {
			r = 1
		}
		return fmt.Sprintf("E:h3:%d:%d", uint64(h3e.ErrorCode), r)
	case errors.As(err, &se):
		r := 0
		if se.Remote {
			r = 1
		}
		return fmt.Sprintf("E:str:%d:%d", uint64(se.ErrorCode), r)
	case errors.As(err, &ae):
		return fmt.Sprintf("E:app:%d", uint64(ae.ErrorCode))
	case errors.Is(err, http3.VerifErrTooMuchData()):
		return "E:toomuch"
	case errors.Is(err, http.ErrBodyNotAllowed):
		return "E:bodynotallowed"
	case errors.Is(err, http.ErrContentLength):
		return "E:contentlength"
	case errors.Is(err, errClosedWrite):
		return "E:closed"
	}
	msg := err.Error()
	for _, p := range [][2]string{
		{"reserved frame type", "E:reserved"},
		{"DATA frame received after trailers", "E:data-after-trailers"},
		{"additional HEADERS frame received after trailers", "E:headers-after-trailers"},
		{"peer sent an unexpected frame", "E:unexpected-frame"},
		{"unexpected size for SETTINGS frame", "E:settings-size"},
		{"duplicate setting", "E:settings-dup"},
		{"invalid value for SETTINGS", "E:settings-val"},
		{"GOAWAY frame: inconsistent length", "E:goaway-len"},
		{"HEADERS frame too large", "E:headers-too-large"},
	} {
		if strings.Contains(msg, p[0]) {
			return p[1]
		}
	}
	return "E:other:" + strings.ReplaceAll(msg, " ", "_")
}

func hx(b []byte) string {
	if len(b) == 0 {
		return "-"
	}
	return hex.EncodeToString(b)
}

// pattern is the payload generator shared with the oracle: every byte has the top bit set, so a
// payload write can never look like a complete HEADERS frame.
func pattern(n int, seed int) []byte {
	b := make([]byte, n)
	for i := range b {
		b[i] = 0x80 | byte((seed+i*7+i/256)&0x7f)
	}
	return b
}

// fmtWrite prints one write: a complete HEADERS frame as its decoded, name-sorted field list
// (plus the raw bytes as a witness for the oracle), anything else as raw bytes.
func fmtWrite(w []byte) string {
	if len(w) >= 2 && w[0] == 0x01 {
		if l, n, err := quicvarint.Parse(w[1:]); err == nil && int(l) == len(w)-1-n {
			dec := qpack.NewDecoder()
			fn := dec.Decode(w[1+n:])
			type kv struct{ k, v string }
			var fs []kv
			ok := true
			for {
				hf, err := fn()
				if err == io.EOF {
					break
				}
				if err != nil {
					ok = false
					break
				}
				v := hf.Value
				if hf.Name == "date" || (hf.Name == "content-type" && !strings.HasPrefix(v, "ct/")) {
					v = "*"
				}
				v = strings.NewReplacer(" ", "~", ",", "|").Replace(v)
				fs = append(fs, kv{hf.Name, v})
			}
			if ok {
				sort.SliceStable(fs, func(i, j int) bool { return fs[i].k < fs[j].k })
				var sb strings.Builder
				sb.WriteString("H{")
				for i, f := range fs {
					if i > 0 {
						sb.WriteByte(';')
					}
					sb.WriteString(f.k + "=" + f.v)
				}
				sb.WriteString("}#" + hex.EncodeToString(w))
				return sb.String()
			}
		}
	}
	return "B" + hex.EncodeToString(w)
}

func (st *stub) drain() (out, ev, cc string) {
	var ws []string
	for _, w := range st.writes {
		ws = append(ws, fmtWrite(w))
	}
	st.writes = nil
	out = "-"
	if len(ws) > 0 {
		out = strings.Join(ws, ",")
	}
	ev = "-"
	if len(st.evs) > 0 {
		ev = strings.Join(st.evs, ",")
	}
	st.evs = nil
	cc = "-"
	if code, closed := st.conn.VerifCloseCode(); closed {
		cc = strconv.FormatUint(code, 10)
	}
	return
}

// suffix: writes / stream calls / connection close code on the writer's side, then stream calls and
// connection close code on the peer reader's side.
func (f *fixture) suffix() string {
	out, ev, cc := f.st.drain()
	pev, pcc := "-", "-"
	if f.peer != nil {
		_, pev, pcc = f.peer.st.drain()
	}
	return fmt.Sprintf(" out=%s ev=%s cc=%s pev=%s pcc=%s", out, ev, cc, pev, pcc)
}

// ---------------------------------------------------------------- runner

type runner struct {
	f    *fixture
	plan []string
}

func (rn *runner) GenOp(r *vh.Rand, i int) string {
	if i >= len(rn.plan) {
		return ""
	}
	return rn.plan[i]
}

func (rn *runner) AfterPanic(op string) string {
	if rn.f == nil {
		return "PANIC"
	}
	return "PANIC" + rn.f.suffix()
}

func atoi(s string) int { n, _ := strconv.Atoi(s); return n }

func (rn *runner) Exec(op string) string {
	a := strings.Fields(op)
	if a[0] == "new" {
		if len(a) < 7 {
			return "bad-op"
		}
		cl, _ := strconv.ParseInt(a[2], 10, 64)
		rn.f = newFixture(a[1], cl, a[4] == "1", a[5] == "1", a[6] == "1")
		return "ok" + rn.f.suffix()
	}
	f := rn.f
	if f == nil {
		return "skip"
	}
	res := "bad-op"
	wf := f // the writer's side
	if f.peer != nil && (a[0] == "feed" || a[0] == "fin" || a[0] == "reset" || a[0] == "read" || a[0] == "pn" || a[0] == "skip" || a[0] == "skiph") {
		f = f.peer
	}
	switch a[0] {
	case "feed":
		f.st.sync()
		b, _ := hex.DecodeString(a[1])
		if f.st.term == tOpen && len(b) > 0 {
			f.st.chunks = append(f.st.chunks, b)
			res = "ok"
		} else {
			res = "ignored"
		}
	case "fin":
		f.st.sync()
		if f.st.term == tOpen {
			f.st.term = tFin
			res = "ok"
		} else {
			res = "ignored"
		}
	case "reset":
		f.st.sync()
		c, _ := strconv.ParseUint(a[1], 10, 64)
		f.st.abort(tReset, c)
		res = "ok"
	case "read":
		buf := make([]byte, atoi(a[1]))
		var n int
		var err error
		if f.viaBody {
			n, err = f.body.Read(buf)
		} else {
			n, err = f.str.Read(buf)
		}
		res = fmt.Sprintf("%s %s rem=%d", hx(buf[:n]), fmtErr(err), http3.VerifRemaining(f.str))
	case "pn":
		d, err := http3.VerifParseNext(f.str)
		f.lastHdr = 0
		if err != nil {
			res = fmtErr(err)
		} else {
			res = d
			if strings.HasPrefix(d, "headers ") {
				f.lastHdr, _ = strconv.ParseUint(strings.Fields(d)[1], 10, 64)
			}
		}
	case "skip", "skiph":
		n := uint64(0)
		if a[0] == "skiph" {
			n = f.lastHdr
			f.lastHdr = 0
		} else {
			n, _ = strconv.ParseUint(a[1], 10, 64)
		}
		if n > 1<<20 {
			n = 1 << 20
		}
		buf := make([]byte, n)
		k, err := io.ReadFull(f.st, buf)
		res = fmt.Sprintf("%d %s", k, fmtErr(err))
	case "wfail":
		c, _ := strconv.ParseUint(a[2], 10, 64)
		if f.st.live() {
			f.st.sendSt, f.st.sendK, f.st.sendCode = sFailAfter, atoi(a[1]), c
		}
		res = "ok"
	case "sw":
		n, err := f.str.Write(pattern(atoi(a[1]), atoi(a[2])))
		res = fmt.Sprintf("%d %s", n, fmtErr(err))
	case "h":
		hd := f.rw.RW().Header()
		v := ""
		if len(a) > 3 {
			v = strings.ReplaceAll(strings.TrimPrefix(a[3], "v:"), "~", " ")
		}
		switch a[1] {
		case "set":
			hd.Set(a[2], v)
		case "add":
			hd.Add(a[2], v)
		case "del":
			hd.Del(a[2])
		case "nil":
			hd[a[2]] = nil
		}
		res = "ok"
	case "wh":
		f.rw.RW().WriteHeader(atoi(a[1]))
		res = "ok"
	case "w":
		n, err := f.rw.RW().Write(pattern(atoi(a[1]), atoi(a[2])))
		res = fmt.Sprintf("%d %s", n, fmtErr(err))
	case "fl":
		f.rw.RW().(http.Flusher).Flush()
		res = "ok"
	case "fle":
		res = fmtErr(f.rw.FlushError())
	case "ft":
		f.rw.FlushTrailers()
		res = "ok"
	case "finish":
		f.rw.Finish()
		res = "ok"
	case "pipe":
		if len(a) < 3 {
			break
		}
		f.st.sync()
		data := f.st.sent
		f.st.sent = nil
		cl, _ := strconv.ParseInt(a[2], 10, 64)
		p := newFixture(a[1], cl, f.q, false, false)
		sizes := []int{}
		for _, s := range a[3:] {
			if n := atoi(s); n > 0 {
				sizes = append(sizes, n)
			}
		}
		moved := len(data)
		for i := 0; len(data) > 0; i++ {
			k := len(data)
			if len(sizes) > 0 && sizes[i%len(sizes)] < k {
				k = sizes[i%len(sizes)]
			}
			p.st.chunks = append(p.st.chunks, append([]byte(nil), data[:k]...))
			data = data[k:]
		}
		f.peer = p
		res = strconv.Itoa(moved)
	}
	return res + wf.suffix()
}

// ---------------------------------------------------------------- generators

func newRunner(r *vh.Rand) vh.Runner {
	rn := &runner{}
	switch r.Pick(55, 30, 15) {
	case 0:
		rn.plan = genReader(r)
	case 1:
		rn.plan = genWriter(r)
	default:
		rn.plan = genRoundTrip(r)
	}
	return rn
}

func b01(r *vh.Rand, p int) int {
	if r.Chance(p) {
		return 1
	}
	return 0
}

// appendVarintLen encodes v with 2^k bytes (k large enough), to exercise non-minimal encodings.
func appendVarintLen(b []byte, v uint64, k int) []byte {
	for k < 3 && v >= uint64(1)<<(8*(1<<k)-2) {
		k++
	}
	n := 1 << k
	for i := n - 1; i >= 0; i-- {
		x := byte(v >> (8 * i))
		if i == n-1 {
			x |= byte(k << 6)
		}
		b = append(b, x)
	}
	return b
}

func encVar(r *vh.Rand, b []byte, v uint64) []byte {
	if r.Chance(12) {
		return appendVarintLen(b, v, r.Intn(4))
	}
	return quicvarint.Append(b, v)
}

type gframe struct {
	bytes   []byte
	payload int // DATA payload bytes contributed (before anything that stops the body)
}

func pickLen(r *vh.Rand) int {
	switch r.Pick(25, 30, 25, 15, 5) {
	case 0:
		return []int{0, 1, 2, 3, 63, 64, 65}[r.Intn(7)]
	case 1:
		return r.Intn(20)
	case 2:
		return r.Intn(200)
	case 3:
		return r.Intn(1500)
	}
	return 16380 + r.Intn(10)
}

var unknownTypes = []uint64{0x3, 0x5, 0xd, 0x21, 0x40, 0x4000, 0x1f*7 + 0x21, 0x3fffffff, 0x3fffffffffffffff, 0xa, 0xb}
var reservedTypes = []uint64{0x2, 0x6, 0x8, 0x9}

func genSettingsPayload(r *vh.Rand) []byte {
	var b []byte
	n := r.Intn(5)
	for i := 0; i < n; i++ {
		id := []uint64{0x6, 0x8, 0x33, 0x1, 0x7, 0x21, 0x4242, 0x6}[r.Intn(8)]
		val := uint64(r.Intn(3))
		if r.Chance(30) {
			val = uint64(r.Intn(100000))
		}
		b = encVar(r, b, id)
		b = encVar(r, b, val)
	}
	if r.Chance(12) { // truncated inside
		b = append(b, 0xc0, 0x01)
	}
	return b
}

// genFrames returns the wire bytes of a frame sequence, their boundaries, and the DATA payload
// total a conforming reader delivers.
func genFrames(r *vh.Rand, n int, clean bool) (wire []byte, bounds []int, total int) {
	stopped := false
	for i := 0; i < n; i++ {
		var b []byte
		kind := r.Pick(58, 16, 9, 5, 5, 4, 3)
		if clean && kind >= 3 {
			kind = 0
		}
		switch kind {
		case 0: // DATA
			l := pickLen(r)
			b = encVar(r, b, 0)
			b = encVar(r, b, uint64(l))
			b = append(b, r.Bytes(l)...)
			if !stopped {
				total += l
			}
		case 1: // unknown
			l := r.Intn(40)
			if r.Chance(20) {
				l = 0
			}
			b = encVar(r, b, unknownTypes[r.Intn(len(unknownTypes))])
			b = encVar(r, b, uint64(l))
			b = append(b, r.Bytes(l)...)
		case 2: // HEADERS (trailers)
			l := r.Intn(50)
			if r.Chance(10) {
				l = maxHdr + 1 + r.Intn(3)
			}
			b = encVar(r, b, 1)
			b = encVar(r, b, uint64(l))
			b = append(b, r.Bytes(l)...)
			stopped = true
		case 3: // reserved
			l := r.Intn(10)
			b = encVar(r, b, reservedTypes[r.Intn(4)])
			b = encVar(r, b, uint64(l))
			b = append(b, r.Bytes(l)...)
			stopped = true
		case 4: // SETTINGS
			p := genSettingsPayload(r)
			l := uint64(len(p))
			if r.Chance(8) {
				l = 8193 + uint64(r.Intn(100))
			}
			b = encVar(r, b, 4)
			b = encVar(r, b, l)
			b = append(b, p...)
			stopped = true
		case 5: // GOAWAY
			var p []byte
			p = encVar(r, p, uint64(r.Intn(1000))*4)
			l := uint64(len(p))
			if r.Chance(25) {
				l += uint64(r.Intn(3)) + 1
				p = append(p, r.Bytes(int(l)-len(p))...)
			}
			b = encVar(r, b, 7)
			b = encVar(r, b, l)
			b = append(b, p...)
			stopped = true
		default: // huge declared length, few bytes
			b = encVar(r, b, []uint64{0, 0x21, 1}[r.Intn(3)])
			b = encVar(r, b, uint64(1)<<40+uint64(r.Intn(1000)))
			b = append(b, r.Bytes(r.Intn(20))...)
			stopped = true
		}
		wire = append(wire, b...)
		bounds = append(bounds, len(wire))
	}
	return
}

func chunkSizes(r *vh.Rand, total int, bounds []int) []int {
	var cuts []int
	switch r.Pick(20, 10, 45, 25) {
	case 0:
		cuts = []int{total}
	case 1:
		if total <= 400 {
			for i := 1; i <= total; i++ {
				cuts = append(cuts, i)
			}
		} else {
			cuts = []int{total}
		}
	case 2:
		m := 1 + r.Intn(40)
		if r.Chance(30) {
			m = 1 + r.Intn(1500)
		}
		for p := 0; p < total; {
			p += 1 + r.Intn(m)
			if p > total {
				p = total
			}
			cuts = append(cuts, p)
		}
	default:
		cuts = append(cuts, bounds...)
	}
	var sizes []int
	prev := 0
	for _, c := range cuts {
		if c > prev && c <= total {
			sizes = append(sizes, c-prev)
			prev = c
		}
	}
	if prev < total {
		sizes = append(sizes, total-prev)
	}
	return sizes
}

func readSize(r *vh.Rand, style int) int {
	switch style {
	case 0:
		return 4096
	case 1:
		return 1 + r.Intn(7)
	case 2:
		return r.Intn(4) // includes 0
	case 3:
		return []int{1, 2, 63, 64, 65, 512, 100000}[r.Intn(7)]
	}
	return 1 + r.Intn(300)
}

func genReader(r *vh.Rand) []string {
	nf := 1 + r.Intn(8)
	if r.Chance(10) {
		nf = r.Intn(30)
	}
	clean := r.Chance(45)
	wire, bounds, total := genFrames(r, nf, clean)
	if r.Chance(10) && len(wire) > 0 { // truncate the stream
		wire = wire[:r.Intn(len(wire)+1)]
	}
	via := "S"
	cl := int64(-1)
	if r.Chance(60) {
		via = "B"
		switch r.Pick(45, 18, 18, 7, 12) {
		case 0:
			cl = int64(total)
		case 1:
			cl = int64(total) - 1 - int64(r.Intn(5))
			if cl < 0 {
				cl = 0
			}
		case 2:
			cl = int64(total) + 1 + int64(r.Intn(5))
		case 3:
			cl = 0
		default:
			cl = -1
		}
	}
	nobody := b01(r, 15)
	plan := []string{fmt.Sprintf("new %s %d %d %d 0 %d", via, cl, nobody, b01(r, 50), b01(r, 50))}
	sizes := chunkSizes(r, len(wire), bounds)
	style := r.Intn(5)
	mode := r.Pick(70, 20, 10) // feed all then read / interleave / parser ops
	end := r.Pick(78, 10, 12)  // fin / reset / left open
	feedOps := []string{}
	p := 0
	for _, s := range sizes {
		feedOps = append(feedOps, "feed "+hex.EncodeToString(wire[p:p+s]))
		p += s
	}
	endOp := func() []string {
		switch end {
		case 0:
			return []string{"fin"}
		case 1:
			return []string{fmt.Sprintf("reset %d", 256+r.Intn(20))}
		}
		return nil
	}
	readOp := func() string {
		if mode == 2 {
			switch r.Pick(50, 25, 25) {
			case 0:
				return "pn"
			case 1:
				return "skiph"
			}
			return fmt.Sprintf("skip %d", r.Intn(30))
		}
		return fmt.Sprintf("read %d", readSize(r, style))
	}
	if mode == 1 {
		for _, fo := range feedOps {
			plan = append(plan, fo)
			for k := r.Intn(3); k > 0; k-- {
				plan = append(plan, readOp())
			}
		}
		plan = append(plan, endOp()...)
	} else {
		plan = append(plan, feedOps...)
		if r.Chance(8) && len(plan) > 2 { // reset in the middle
			i := 1 + r.Intn(len(plan)-1)
			plan = append(plan[:i], append([]string{fmt.Sprintf("reset %d", 256+r.Intn(20))}, plan[i:]...)...)
		}
		plan = append(plan, endOp()...)
	}
	nreads := 6 + total/60
	if style == 1 || style == 2 {
		nreads = 10 + total/2
	}
	if nreads > 120 {
		nreads = 120
	}
	for i := 0; i < nreads; i++ {
		plan = append(plan, readOp())
	}
	return plan
}

var hdrNames = []string{"X-A", "X-B", "Set-Cookie", "X-C1", "Server", "Etag"}
var trailerNames = []string{"X-T1", "X-T2", "Content-Length", "If-Match", "X-T4"}
var prefixedTrailers = []string{"Trailer:X-P1", "Trailer:X-P2", "Trailer:Host"}

func hval(r *vh.Rand) string {
	if r.Chance(10) {
		return "v:"
	}
	return "v:" + []string{"a", "b1", "c.d", "x_y", "0", "zz9"}[r.Intn(6)]
}

func genWriter(r *vh.Rand) []string {
	head := b01(r, 15)
	lg := b01(r, 35)
	plan := []string{fmt.Sprintf("new S -1 0 %d %d %d", b01(r, 50), head, lg)}
	if r.Chance(15) {
		plan = append(plan, fmt.Sprintf("wfail %d %d", r.Intn(6), 256+r.Intn(20)))
	}
	// headers
	for k := r.Intn(5); k > 0; k-- {
		n := hdrNames[r.Intn(len(hdrNames))]
		switch r.Pick(50, 35, 8, 7) {
		case 0:
			plan = append(plan, fmt.Sprintf("h set %s %s", n, hval(r)))
		case 1:
			plan = append(plan, fmt.Sprintf("h add %s %s", n, hval(r)))
		case 2:
			plan = append(plan, fmt.Sprintf("h del %s", n))
		default:
			plan = append(plan, fmt.Sprintf("h nil %s", n))
		}
	}
	declCL := int64(-1)
	total := 0
	n1xx := 0
	if r.Chance(30) {
		v := []string{"0", "5", "10", "100", "4096", "5000", "abc", "-1", "007", "99999999999999999999", ""}[r.Intn(11)]
		plan = append(plan, "h set Content-Length v:"+v)
		if n, err := strconv.ParseInt(v, 10, 64); err == nil && n >= 0 {
			declCL = n
		}
	}
	if r.Chance(25) {
		plan = append(plan, "h set Content-Type v:ct/"+[]string{"a", "b"}[r.Intn(2)])
	}
	if r.Chance(8) {
		plan = append(plan, "h nil Content-Type")
	}
	if r.Chance(8) {
		plan = append(plan, "h set Content-Encoding v:gzip")
	}
	if r.Chance(10) {
		plan = append(plan, "h nil Date")
	}
	var declared []string
	if r.Chance(40) {
		k := 1 + r.Intn(3)
		var names []string
		for i := 0; i < k; i++ {
			n := trailerNames[r.Intn(len(trailerNames))]
			declared = append(declared, n)
			if r.Chance(30) {
				n = strings.ToLower(n)
			}
			names = append(names, n)
		}
		sep := []string{",", ",~"}[r.Intn(2)]
		plan = append(plan, "h set Trailer v:"+strings.Join(names, sep))
		if r.Chance(30) {
			plan = append(plan, "h add Trailer v:"+trailerNames[r.Intn(len(trailerNames))])
		}
	}
	body := func() {
		// 1xx
		for k := r.Pick(75, 18, 7); k > 0; k-- {
			plan = append(plan, fmt.Sprintf("wh %d", []int{100, 103, 199}[r.Intn(3)]))
			n1xx++
		}
		if r.Chance(55) {
			plan = append(plan, fmt.Sprintf("wh %d", []int{200, 200, 201, 204, 304, 404, 500, 99, 1000, 0}[r.Intn(10)]))
		}
		nw := r.Pick(15, 35, 30, 20)
		for i := 0; i < nw; i++ {
			var l int
			switch r.Pick(30, 30, 20, 20) {
			case 0:
				l = r.Intn(20)
			case 1:
				l = r.Intn(600)
			case 2:
				l = []int{4095, 4096, 4097, 2048, 2047, 0}[r.Intn(6)]
			default:
				l = r.Intn(6000)
			}
			plan = append(plan, fmt.Sprintf("w %d %d", l, r.Intn(128)))
			total += l
			if r.Chance(15) {
				plan = append(plan, []string{"fl", "fle"}[r.Intn(2)])
			}
			if r.Chance(5) {
				plan = append(plan, fmt.Sprintf("wfail %d %d", r.Intn(3), 256+r.Intn(20)))
			}
			if r.Chance(4) {
				plan = append(plan, fmt.Sprintf("wh %d", 200+r.Intn(5)))
			}
		}
	}
	body()
	// trailer values
	for _, n := range declared {
		if r.Chance(75) {
			plan = append(plan, fmt.Sprintf("h set %s %s", n, hval(r)))
			if r.Chance(20) {
				plan = append(plan, fmt.Sprintf("h add %s %s", n, hval(r)))
			}
		}
	}
	if r.Chance(25) {
		n := prefixedTrailers[r.Intn(len(prefixedTrailers))]
		plan = append(plan, fmt.Sprintf("h set %s %s", n, hval(r)))
	}
	if r.Chance(6) {
		plan = append(plan, fmt.Sprintf("wfail %d %d", r.Intn(2), 256+r.Intn(20)))
	}
	plan = append(plan, "finish")
	if r.Chance(6) {
		plan = append(plan, "w 3 1", "fl", "ft")
	}
	if r.Chance(60) { // read the response back
		pcl := declCL
		if pcl < 0 && r.Chance(40) {
			pcl = int64(total)
		}
		ps := fmt.Sprintf("pipe %s %d", []string{"S", "B"}[r.Intn(2)], pcl)
		for k := r.Intn(4); k > 0; k-- {
			ps += fmt.Sprintf(" %d", 1+r.Intn(50))
		}
		plan = append(plan, ps, "fin")
		for k := 0; k <= n1xx; k++ {
			plan = append(plan, "pn", "skiph")
		}
		style := r.Intn(5)
		nreads := 12 + total/100
		if style == 1 || style == 2 {
			nreads = 12 + total/4
		}
		if nreads > 150 {
			nreads = 150
		}
		for i := 0; i < nreads; i++ {
			plan = append(plan, fmt.Sprintf("read %d", readSize(r, style)*4))
		}
	}
	return plan
}

func genRoundTrip(r *vh.Rand) []string {
	via := "S"
	cl := int64(-1)
	var lens []int
	total := 0
	for k := 1 + r.Intn(6); k > 0; k-- {
		var l int
		switch r.Pick(30, 30, 25, 15) {
		case 0:
			l = []int{0, 1, 63, 64, 65}[r.Intn(5)]
		case 1:
			l = r.Intn(100)
		case 2:
			l = r.Intn(3000)
		default:
			l = 16383 + r.Intn(3)
		}
		lens = append(lens, l)
		total += l
	}
	if r.Chance(40) {
		via = "B"
		cl = int64(total)
		if r.Chance(25) {
			cl += int64(r.Intn(5)) - 2
			if cl < 0 {
				cl = 0
			}
		}
	}
	plan := []string{fmt.Sprintf("new S -1 0 %d 0 %d", b01(r, 50), b01(r, 50))}
	if r.Chance(5) {
		plan = append(plan, fmt.Sprintf("wfail %d %d", r.Intn(4), 256+r.Intn(20)))
	}
	for _, l := range lens {
		plan = append(plan, fmt.Sprintf("sw %d %d", l, r.Intn(128)))
	}
	ps := fmt.Sprintf("pipe %s %d", via, cl)
	for k := r.Intn(4); k > 0; k-- {
		ps += fmt.Sprintf(" %d", 1+r.Intn(200))
	}
	plan = append(plan, ps)
	if r.Chance(90) {
		plan = append(plan, "fin")
	}
	style := r.Intn(5)
	nreads := 8 + total/100
	if style == 1 || style == 2 {
		nreads = 10 + total/2
	}
	if nreads > 150 {
		nreads = 150
	}
	for i := 0; i < nreads; i++ {
		plan = append(plan, fmt.Sprintf("read %d", readSize(r, style)*8))
	}
	return plan
}

var _ = bytes.Equal

func TestDriver(t *testing.T) { vh.Main(t, "h3s", newRunner) }
