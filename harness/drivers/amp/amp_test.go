//go:build verif

// Package amp drives the real ackhandler.NewSentPacketHandler through histories of datagram arrivals,
// processed packets, SendMode consultations and sends (property C14, anti-amplification limit).
//
// Line protocol (result = `<head> s=<bytesSent> r=<bytesReceived> v=<peerAddressValidated> lim=<isAmplificationLimited> | <tail>`; the
// model predicts everything before ` | `, the tail is environment information for the monitors):
//
//	new <S|C> <cav>                         construct (server/client, clientAddressValidated)   => ok
//	rcvbytes <n> <t>                        ReceivedBytes(n)                                    => ok
//	rcvpkt <I|H|Z|A> <t>                    ReceivedPacket(level)                               => ok
//	mode? <t>                               SendMode(t)                                         => <code>
//	send <rogue> <ae> <t> <L:size>...       one datagram; SentPacket per coalesced packet       => ok | skip
//	                                        (rogue=0: only executed when the last `mode?` since the previous
//	                                        send answered != SendNone; rogue=1: sent regardless)
//	timeout <t>                             OnLossDetectionTimeout(max(t, alarm))               => done
//	ack <I|H|A> <t> <pn,pn,...>             ReceivedAck for these packet numbers                => done
//	drop <I|H> <t>                          DropPackets(level)                                  => done
package amp

import (
	"fmt"
	"sort"
	"strings"
	"testing"
	"time"

	"github.com/refraction-networking/uquic/internal/ackhandler"
	"github.com/refraction-networking/uquic/internal/monotime"
	"github.com/refraction-networking/uquic/internal/protocol"
	"github.com/refraction-networking/uquic/internal/utils"
	"github.com/refraction-networking/uquic/internal/verifharness/vh"
	"github.com/refraction-networking/uquic/internal/wire"
)

type recHandler struct{ acked, lost int }

func (h *recHandler) OnAcked(wire.Frame) { h.acked++ }
func (h *recHandler) OnLost(wire.Frame)  { h.lost++ }

type runner struct {
	h       ackhandler.SentPacketHandler
	stats   *utils.ConnectionStats
	rec     *recHandler
	dropped [3]bool
	sentPNs [3][]int64 // packet numbers handed to SentPacket, per space
	// permission discipline
	lastMode  ackhandler.SendMode
	permitted bool
	// generator state
	now        int64
	isServer   bool
	rogueCase  bool
	noHSCase   bool
	lastQueued string
	execT      int64 // the latest time stamp an executed op carried
}

func newRunner(r *vh.Rand) vh.Runner {
	return &runner{now: 1 + r.Range(0, 1_000_000_000)}
}

func lvlOf(s string) (protocol.EncryptionLevel, int, bool) {
	switch s {
	case "I":
		return protocol.EncryptionInitial, 0, true
	case "H":
		return protocol.EncryptionHandshake, 1, true
	case "Z":
		return protocol.Encryption0RTT, 2, true
	case "A":
		return protocol.Encryption1RTT, 2, true
	}
	return 0, 0, false
}

func (rn *runner) state() (s, r int64, v bool) {
	if rn.h == nil {
		return 0, 0, false
	}
	bs, br, val := ackhandler.VerifAmpState(rn.h)
	return int64(bs), int64(br), val
}

func (rn *runner) GenOp(r *vh.Rand, i int) string {
	rn.now += r.Range(0, 40_000_000)
	if i == 0 {
		rn.rogueCase = r.Chance(20)
		rn.noHSCase = r.Chance(55)
		switch r.Pick(70, 15, 15) {
		case 0:
			rn.isServer = true
			return "new S 0"
		case 1:
			rn.isServer = true
			return "new S 1"
		default:
			return "new C 0"
		}
	}
	s, rc, _ := rn.state()
	// weights: rcvbytes, rcvpkt, mode?, send, timeout, ack, drop
	wts := []int{8, 7, 5, 63, 5, 10, 2}
	if !rn.permitted {
		wts = []int{20, 9, 40, 0, 10, 10, 3}
		if rn.rogueCase {
			wts[3] = 10
		}
	}
	switch r.Pick(wts...) {
	case 0:
		var n int64
		switch r.Pick(35, 40, 20, 5) {
		case 0:
			n = 1200
		case 1:
			n = r.Range(1, 1500)
		case 2:
			n = r.Range(1, 50)
		default:
			n = 0
		}
		return fmt.Sprintf("rcvbytes %d %d", n, rn.now)
	case 1:
		hs := 18
		if rn.noHSCase {
			hs = 0
		}
		l := []string{"I", "H", "Z", "A"}[r.Pick(55, hs, 10, 17)]
		return fmt.Sprintf("rcvpkt %s %d", l, rn.now)
	case 2:
		return fmt.Sprintf("mode? %d", rn.now)
	case 3:
		rogue := 0
		if !rn.permitted {
			rogue = 1
		}
		// total datagram size: often exactly up to the limit, or one below/above it
		total := r.Range(20, 1452)
		if room := 3*rc - s; room > 0 && room <= 1500 && r.Chance(45) {
			total = room + []int64{0, 0, 0, -1, 1}[r.Intn(5)]
			if total <= 0 {
				total = 1
			}
		} else if r.Chance(30) {
			total = 1200
		}
		// packets: 1..3 coalesced, in non-dropped spaces
		var lv []string
		for _, l := range []string{"I", "H", "A"} {
			_, sp, _ := lvlOf(l)
			if !rn.dropped[sp] {
				lv = append(lv, l)
			}
		}
		n := 1 + r.Pick(60, 30, 10)
		if n > len(lv) {
			n = len(lv)
		}
		start := r.Intn(len(lv) - n + 1)
		lv = lv[start : start+n]
		ae := 1
		if rn.lastMode == ackhandler.SendAck || rn.lastMode == ackhandler.SendPacingLimited || r.Chance(20) {
			ae = 0
		}
		var sb strings.Builder
		fmt.Fprintf(&sb, "send %d %d %d", rogue, ae, rn.now)
		rest := total
		for k, l := range lv {
			sz := rest
			if k < len(lv)-1 {
				sz = r.Range(0, rest)
			}
			rest -= sz
			fmt.Fprintf(&sb, " %s:%d", l, sz)
		}
		return sb.String()
	case 4:
		rn.now += r.Range(0, 2_000_000_000)
		return fmt.Sprintf("timeout %d", rn.now)
	case 5:
		sp := r.Intn(3)
		l := []string{"I", "H", "A"}[sp]
		if rn.dropped[sp] || len(rn.sentPNs[sp]) == 0 {
			return fmt.Sprintf("mode? %d", rn.now)
		}
		// acknowledge a suffix or a random subset of what was sent
		var pns []string
		k := r.Intn(len(rn.sentPNs[sp]))
		for _, pn := range rn.sentPNs[sp][k:] {
			if r.Chance(80) {
				pns = append(pns, fmt.Sprint(pn))
			}
		}
		if len(pns) == 0 {
			pns = []string{fmt.Sprint(rn.sentPNs[sp][len(rn.sentPNs[sp])-1])}
		}
		return fmt.Sprintf("ack %s %d %s", l, rn.now, strings.Join(pns, ","))
	default:
		l := "I"
		if rn.dropped[0] {
			l = "H"
		}
		return fmt.Sprintf("drop %s %d", l, rn.now)
	}
}

func (rn *runner) suffix(tail string) string {
	s, r, v := rn.state()
	vi := 0
	if v {
		vi = 1
	}
	lim, alarm := 0, 0
	var cs, cr uint64
	if rn.h != nil {
		// observed through the exported interface: SendMode answers SendNone (a case has < 1000 SentPacket calls, MaxTrackedSentPackets is 25000)
		if ackhandler.VerifAmpLimited(rn.h, monotime.Time(rn.execT)) {
			lim = 1
		}
		if !rn.h.GetLossDetectionTimeout().IsZero() {
			alarm = 1
		}
		cs, cr = rn.stats.BytesSent.Load(), rn.stats.BytesReceived.Load()
	}
	return fmt.Sprintf(" s=%d r=%d v=%d lim=%d | a=%d cs=%d cr=%d%s", s, r, vi, lim, alarm, cs, cr, tail)
}

func (rn *runner) AfterPanic(op string) string { return "PANIC" + rn.suffix("") }

func (rn *runner) Exec(op string) string {
	f := strings.Fields(op)
	if len(f) == 0 {
		return "bad-op"
	}
	if f[0] == "new" {
		if rn.h != nil || len(f) != 3 {
			return "skip" + rn.suffix("")
		}
		pers := protocol.PerspectiveServer
		if f[1] == "C" {
			pers = protocol.PerspectiveClient
		}
		rn.stats = &utils.ConnectionStats{}
		rn.rec = &recHandler{}
		rn.h = ackhandler.NewSentPacketHandler(0, 1280, utils.NewRTTStats(), rn.stats, f[2] == "1", false,
			func(protocol.PacketNumber) {}, pers, nil, utils.DefaultLogger)
		return "ok" + rn.suffix("")
	}
	if rn.h == nil {
		return "skip" + rn.suffix("")
	}
	if i, ok := map[string]int{"rcvbytes": 2, "rcvpkt": 2, "mode?": 1, "send": 3, "timeout": 1, "ack": 2, "drop": 2}[f[0]]; ok && len(f) > i {
		if t := vh.Atoi64(f[i]); t > rn.execT {
			rn.execT = t
		}
	}
	switch f[0] {
	case "rcvbytes":
		rn.h.ReceivedBytes(protocol.ByteCount(vh.Atoi64(f[1])), monotime.Time(vh.Atoi64(f[2])))
		return "ok" + rn.suffix("")
	case "rcvpkt":
		l, _, ok := lvlOf(f[1])
		if !ok {
			return "bad-op"
		}
		rn.h.ReceivedPacket(l, monotime.Time(vh.Atoi64(f[2])))
		return "ok" + rn.suffix("")
	case "mode?":
		m := rn.h.SendMode(monotime.Time(vh.Atoi64(f[1])))
		rn.lastMode = m
		rn.permitted = m != ackhandler.SendNone
		return fmt.Sprintf("%d", m) + rn.suffix("")
	case "send":
		if len(f) < 5 {
			return "bad-op"
		}
		rogue, ae, t := f[1] == "1", f[2] == "1", monotime.Time(vh.Atoi64(f[3]))
		type pk struct {
			l    protocol.EncryptionLevel
			sp   int
			size int64
		}
		var pks []pk
		for _, a := range f[4:] {
			ls, sz, ok := strings.Cut(a, ":")
			l, sp, ok2 := lvlOf(ls)
			if !ok || !ok2 || ls == "Z" {
				return "bad-op"
			}
			if rn.dropped[sp] {
				return "skip" + rn.suffix("")
			}
			pks = append(pks, pk{l, sp, vh.Atoi64(sz)})
		}
		if !rogue && !rn.permitted {
			return "skip" + rn.suffix("")
		}
		tail := ""
		if !rogue {
			// what connection.go sendProbePacket does before packing a probe
			switch rn.lastMode {
			case ackhandler.SendPTOInitial, ackhandler.SendPTOHandshake, ackhandler.SendPTOAppData:
				lvl := map[ackhandler.SendMode]protocol.EncryptionLevel{
					ackhandler.SendPTOInitial: protocol.EncryptionInitial, ackhandler.SendPTOHandshake: protocol.EncryptionHandshake,
					ackhandler.SendPTOAppData: protocol.Encryption1RTT,
				}[rn.lastMode]
				_, sp, _ := lvlOf(map[protocol.EncryptionLevel]string{protocol.EncryptionInitial: "I", protocol.EncryptionHandshake: "H", protocol.Encryption1RTT: "A"}[lvl])
				if !rn.dropped[sp] {
					tail = fmt.Sprintf(" q=%v", rn.h.QueueProbePacket(lvl))
				}
			}
		}
		for _, p := range pks {
			pn := rn.h.PopPacketNumber(p.l)
			var frames []ackhandler.Frame
			if ae {
				frames = []ackhandler.Frame{{Frame: &wire.PingFrame{}, Handler: rn.rec}}
			}
			rn.h.SentPacket(t, pn, protocol.InvalidPacketNumber, nil, frames, p.l, protocol.ECNNon, protocol.ByteCount(p.size), false, false)
			rn.sentPNs[p.sp] = append(rn.sentPNs[p.sp], int64(pn))
		}
		rn.permitted = false
		return "ok" + rn.suffix(tail)
	case "timeout":
		t := monotime.Time(vh.Atoi64(f[1]))
		if a := rn.h.GetLossDetectionTimeout(); !a.IsZero() && a.After(t) {
			t = a
		}
		err := rn.h.OnLossDetectionTimeout(t)
		return "done" + rn.suffix(fmt.Sprintf(" err=%v", err != nil))
	case "ack":
		l, sp, ok := lvlOf(f[1])
		if !ok || len(f) != 4 || f[1] == "Z" {
			return "bad-op"
		}
		if rn.dropped[sp] {
			return "skip" + rn.suffix("")
		}
		var pns []int64
		for _, s := range strings.Split(f[3], ",") {
			pns = append(pns, vh.Atoi64(s))
		}
		sort.Slice(pns, func(i, j int) bool { return pns[i] > pns[j] })
		var ranges []wire.AckRange
		for _, pn := range pns {
			p := protocol.PacketNumber(pn)
			if n := len(ranges); n > 0 && ranges[n-1].Smallest == p+1 {
				ranges[n-1].Smallest = p
			} else if n == 0 || ranges[n-1].Smallest > p+1 {
				ranges = append(ranges, wire.AckRange{Smallest: p, Largest: p})
			}
		}
		_, err := rn.h.ReceivedAck(&wire.AckFrame{AckRanges: ranges, DelayTime: time.Millisecond}, l, monotime.Time(vh.Atoi64(f[2])))
		return "done" + rn.suffix(fmt.Sprintf(" err=%v acked=%d lost=%d", err != nil, rn.rec.acked, rn.rec.lost))
	case "drop":
		l, sp, ok := lvlOf(f[1])
		if !ok || sp == 2 {
			return "bad-op"
		}
		if rn.dropped[sp] {
			return "skip" + rn.suffix("")
		}
		rn.h.DropPackets(l, monotime.Time(vh.Atoi64(f[2])))
		rn.dropped[sp] = true
		return "done" + rn.suffix("")
	}
	return "bad-op"
}

func TestDriver(t *testing.T) { vh.Main(t, "amp", newRunner) }
