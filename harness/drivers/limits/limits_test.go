//go:build verif

// Package limits is the C12 driver: for a built-in QUICID (or a spec derived from one by editing
// its QUICTransportParametersExtension, or the plain client) and a user quic.Config it dials the
// in-tree server over simnet inside a synctest bubble, reads back the connection's own record of
// its transport parameters, the bytes it marshals, what the server parsed from the wire and what
// the connection's components enforce, and then lets the (conformant) in-tree server use each
// advertised limit to its boundary. One connection per op, virtual time, no wall clock.
package limits

import (
	"context"
	"encoding/hex"
	"errors"
	"fmt"
	"io"
	"sort"
	"strconv"
	"strings"
	"sync/atomic"
	"testing"
	"testing/synctest"
	"time"

	quic "github.com/refraction-networking/uquic"
	"github.com/refraction-networking/uquic/internal/qerr"
	"github.com/refraction-networking/uquic/internal/verifharness/e2e"
	"github.com/refraction-networking/uquic/internal/verifharness/vh"
	"github.com/refraction-networking/uquic/qlog"
	"github.com/refraction-networking/uquic/qlogwriter"
	tls "github.com/refraction-networking/utls"
)

var theT *testing.T

// ---------------------------------------------------------------- specs

var bases = map[string]quic.QUICID{
	"chrome115":   quic.QUICChrome_115_IPv4,
	"chrome115v6": quic.QUICChrome_115_IPv6,
	"firefox116a": quic.QUICFirefox_116A,
	"firefox116b": quic.QUICFirefox_116B,
	"firefox116c": quic.QUICFirefox_116C,
	"chrome146":   quic.QUICChrome_146_IPv4,
	"chrome146v6": quic.QUICChrome_146_IPv6,
}

var baseNames = []string{"chrome115", "chrome115v6", "firefox116a", "firefox116b", "firefox116c", "chrome146", "chrome146v6"}

// keys of the parameters this property is about, in canonical print order
var keys = []string{"mit", "mups", "imd", "imsdbl", "imsdbr", "imsdu", "imsb", "imsu", "ade", "mad", "acil", "mdfs", "dam"}

var keyID = map[string]uint64{"mit": 0x1, "mups": 0x3, "imd": 0x4, "imsdbl": 0x5, "imsdbr": 0x6, "imsdu": 0x7,
	"imsb": 0x8, "imsu": 0x9, "ade": 0xa, "mad": 0xb, "dam": 0xc, "acil": 0xe, "mdfs": 0x20}

func mkParam(key string, v uint64) tls.TransportParameter {
	switch key {
	case "mit":
		return tls.MaxIdleTimeout(v)
	case "mups":
		return tls.MaxUDPPayloadSize(v)
	case "imd":
		return tls.InitialMaxData(v)
	case "imsdbl":
		return tls.InitialMaxStreamDataBidiLocal(v)
	case "imsdbr":
		return tls.InitialMaxStreamDataBidiRemote(v)
	case "imsdu":
		return tls.InitialMaxStreamDataUni(v)
	case "imsb":
		return tls.InitialMaxStreamsBidi(v)
	case "imsu":
		return tls.InitialMaxStreamsUni(v)
	case "mad":
		return tls.MaxAckDelay(v)
	case "acil":
		return tls.ActiveConnectionIDLimit(v)
	case "mdfs":
		return tls.MaxDatagramFrameSize(v)
	}
	return nil
}

func paramValue(p tls.TransportParameter) (key string, v uint64, ok bool) {
	switch x := p.(type) {
	case tls.MaxIdleTimeout:
		return "mit", uint64(x), true
	case tls.MaxUDPPayloadSize:
		return "mups", uint64(x), true
	case tls.InitialMaxData:
		return "imd", uint64(x), true
	case tls.InitialMaxStreamDataBidiLocal:
		return "imsdbl", uint64(x), true
	case tls.InitialMaxStreamDataBidiRemote:
		return "imsdbr", uint64(x), true
	case tls.InitialMaxStreamDataUni:
		return "imsdu", uint64(x), true
	case tls.InitialMaxStreamsBidi:
		return "imsb", uint64(x), true
	case tls.InitialMaxStreamsUni:
		return "imsu", uint64(x), true
	case tls.MaxAckDelay:
		return "mad", uint64(x), true
	case tls.ActiveConnectionIDLimit:
		return "acil", uint64(x), true
	case tls.MaxDatagramFrameSize:
		return "mdfs", uint64(x), true
	case *tls.DisableActiveMigration:
		return "dam", 1, true
	}
	return "", 0, false
}

func qtpExt(spec *quic.QUICSpec) *tls.QUICTransportParametersExtension {
	if spec == nil || spec.ClientHelloSpec == nil {
		return nil
	}
	for _, e := range spec.ClientHelloSpec.Extensions {
		if q, ok := e.(*tls.QUICTransportParametersExtension); ok {
			return q
		}
	}
	return nil
}

// buildSpec executes the real QUICID2Spec and applies the edits (set:k=v, del:k, sup:k).
func buildSpec(base string, edits []string) (*quic.QUICSpec, error) {
	id, ok := bases[base]
	if !ok {
		return nil, fmt.Errorf("unknown base %q", base)
	}
	spec, err := quic.QUICID2Spec(id)
	if err != nil {
		return nil, err
	}
	ext := qtpExt(&spec)
	if ext == nil {
		return nil, errors.New("no QUICTransportParametersExtension")
	}
	for _, e := range edits {
		switch {
		case strings.HasPrefix(e, "set:"):
			kv := strings.SplitN(e[4:], "=", 2)
			if len(kv) != 2 {
				return nil, fmt.Errorf("bad edit %q", e)
			}
			v, err := strconv.ParseUint(kv[1], 10, 64)
			p := mkParam(kv[0], v)
			if err != nil || p == nil {
				return nil, fmt.Errorf("bad edit %q", e)
			}
			done := false
			for i, old := range ext.TransportParameters {
				if k, _, ok := paramValue(old); ok && k == kv[0] {
					ext.TransportParameters[i] = p
					done = true
				}
			}
			if !done {
				ext.TransportParameters = append(ext.TransportParameters, p)
			}
		case strings.HasPrefix(e, "del:"):
			kept := ext.TransportParameters[:0:0]
			for _, old := range ext.TransportParameters {
				if k, _, ok := paramValue(old); ok && k == e[4:] {
					continue
				}
				kept = append(kept, old)
			}
			ext.TransportParameters = kept
		case strings.HasPrefix(e, "sup:"):
			id, ok := keyID[e[4:]]
			if !ok {
				return nil, fmt.Errorf("bad edit %q", e)
			}
			spec.SuppressTransportParameters = append(spec.SuppressTransportParameters, id)
		default:
			return nil, fmt.Errorf("bad edit %q", e)
		}
	}
	return &spec, nil
}

type adv map[string]int64 // -1 = not listed

// listSpec is the advertised parameter list as the spec will put it on the wire (after suppression).
func listSpec(spec *quic.QUICSpec) (adv, int) {
	a := adv{}
	for _, k := range keys {
		a[k] = -1
	}
	ext := qtpExt(spec)
	sup := map[uint64]bool{}
	for _, id := range spec.SuppressTransportParameters {
		sup[id] = true
	}
	n := 0
	for _, p := range ext.TransportParameters {
		k, v, ok := paramValue(p)
		if ok && sup[keyID[k]] {
			continue
		}
		n++
		if ok {
			a[k] = int64(v)
		}
	}
	return a, n
}

func (a adv) String() string {
	var sb strings.Builder
	for i, k := range keys {
		if i > 0 {
			sb.WriteByte(' ')
		}
		if a[k] < 0 {
			fmt.Fprintf(&sb, "%s=-", k)
		} else {
			fmt.Fprintf(&sb, "%s=%d", k, a[k])
		}
	}
	return sb.String()
}

func (a adv) get(k string) int64 {
	if v, ok := a[k]; ok && v > 0 {
		return v
	}
	return 0
}

// ---------------------------------------------------------------- runner

type runner struct {
	haveSpec bool
	base     string // "plain" or a base name
	edits    []string
	adv      adv
	cfg      quic.Config
	cfgText  string
	// generator
	plan []string
}

func newRunner(r *vh.Rand) vh.Runner { return &runner{} }

func parseKV(fs []string) map[string]int64 {
	m := map[string]int64{}
	for _, f := range fs {
		kv := strings.SplitN(f, "=", 2)
		if len(kv) == 2 {
			m[kv[0]] = vh.Atoi64(kv[1])
		}
	}
	return m
}

func (rn *runner) setCfg(fs []string) {
	m := parseKV(fs)
	rn.cfg = quic.Config{
		InitialConnectionReceiveWindow: uint64(m["icrw"]),
		MaxConnectionReceiveWindow:     uint64(m["mcrw"]),
		InitialStreamReceiveWindow:     uint64(m["isrw"]),
		MaxStreamReceiveWindow:         uint64(m["msrw"]),
		MaxIncomingStreams:             m["mis"],
		MaxIncomingUniStreams:          m["mius"],
		EnableDatagrams:                m["dg"] == 1,
		MaxIdleTimeout:                 time.Duration(m["mit"]) * time.Millisecond,
	}
}

// effective user config values (mirror of populateConfig, used only to derive the advertised
// values of the PLAIN client for sizing the exercises; the oracle has its own model)
func (rn *runner) plainAdv() adv {
	a := adv{}
	for _, k := range keys {
		a[k] = -1
	}
	def := func(v, d int64) int64 {
		if v == 0 {
			return d
		}
		return v
	}
	streams := func(v int64) int64 {
		if v == 0 {
			return 100
		}
		if v < 0 {
			return 0
		}
		return v
	}
	a["imd"] = def(int64(rn.cfg.InitialConnectionReceiveWindow), 786432)
	w := def(int64(rn.cfg.InitialStreamReceiveWindow), 524288)
	a["imsdbl"], a["imsdbr"], a["imsdu"] = w, w, w
	a["imsb"] = streams(rn.cfg.MaxIncomingStreams)
	a["imsu"] = streams(rn.cfg.MaxIncomingUniStreams)
	a["mit"] = def(int64(rn.cfg.MaxIdleTimeout/time.Millisecond), 30000)
	a["acil"] = 4
	if rn.cfg.EnableDatagrams {
		a["mdfs"] = 16383
	}
	return a
}

const serverIdle = 10 * time.Minute

func serverConf() *quic.Config {
	return &quic.Config{EnableDatagrams: true, MaxIdleTimeout: serverIdle, MaxIncomingStreams: 4096, MaxIncomingUniStreams: 4096}
}

// canonErr maps the client connection's terminal error to local:/remote: + code.
func canonErr(err error) string {
	if err == nil {
		return "nil"
	}
	var te *qerr.TransportError
	if errors.As(err, &te) {
		side := "local"
		if te.Remote {
			side = "remote"
		}
		return fmt.Sprintf("%s:0x%x", side, uint64(te.ErrorCode))
	}
	var ie *qerr.IdleTimeoutError
	if errors.As(err, &ie) {
		return "local:idle_timeout"
	}
	var he *qerr.HandshakeTimeoutError
	if errors.As(err, &he) {
		return "local:handshake_timeout"
	}
	var ae *qerr.ApplicationError
	if errors.As(err, &ae) {
		side := "local"
		if ae.Remote {
			side = "remote"
		}
		return fmt.Sprintf("app-%s:0x%x", side, uint64(ae.ErrorCode))
	}
	if errors.Is(err, context.DeadlineExceeded) {
		return "deadline"
	}
	return "other:" + strings.ReplaceAll(fmt.Sprintf("%T", err), " ", "_")
}

// scenario state shared by the exercises
type scn struct {
	env    *e2e.Env
	ctx    context.Context
	cancel context.CancelFunc
	cli    *quic.Conn
	srv    *quic.Conn
	a      adv
	t0     time.Time // (virtual) instant the network was started; Datagram.At is relative to it
}

func connErr(c *quic.Conn) error {
	select {
	case <-c.Context().Done():
		return context.Cause(c.Context())
	default:
		return nil
	}
}

// open dials; on failure it returns the canonical client error.
func (rn *runner) open(timeout time.Duration) (*scn, string) {
	var spec *quic.QUICSpec
	a := rn.adv
	if rn.base != "plain" {
		s, err := buildSpec(rn.base, rn.edits)
		if err != nil {
			return nil, "badspec"
		}
		spec = s
	} else {
		a = rn.plainAdv()
	}
	cfg := rn.cfg
	t0 := time.Now()
	env, err := e2e.Start(e2e.Setup{Spec: spec, ClientConf: &cfg, ServerConf: serverConf(), Qlog: true})
	if err != nil {
		return nil, "starterr"
	}
	ctx, cancel := context.WithTimeout(context.Background(), timeout)
	s := &scn{env: env, ctx: ctx, cancel: cancel, a: a, t0: t0}
	acc := make(chan *quic.Conn, 1)
	go func() {
		c, err := env.Listener.Accept(ctx)
		if err != nil {
			acc <- nil
			return
		}
		acc <- c
	}()
	c, err := env.Dial(ctx)
	if err != nil {
		cancel()
		<-acc
		env.Close()
		return nil, "dial:" + canonErr(err)
	}
	s.cli = c
	s.srv = <-acc
	if s.srv == nil {
		// the client finished its handshake but the server did not: the client error (if any) tells why
		time.Sleep(time.Second)
		res := "dial:noserver:" + canonErr(connErr(c))
		s.close()
		return nil, res
	}
	return s, ""
}

func (s *scn) close() {
	if s.cli != nil {
		s.cli.CloseWithError(0, "")
	}
	if s.srv != nil {
		s.srv.CloseWithError(0, "")
	}
	s.cancel()
	time.Sleep(100 * time.Millisecond)
	s.env.Close()
	time.Sleep(100 * time.Millisecond)
}

// clientFailed reports the client's terminal error after letting in-flight packets land.
func (s *scn) clientFailed(settle time.Duration) (string, bool) {
	time.Sleep(settle)
	if err := connErr(s.cli); err != nil {
		return canonErr(err), true
	}
	return "", false
}

func inBubble(f func() string) (res string) {
	res = "bubble-failed"
	synctest.Test(theT, func(t *testing.T) { res = f() })
	return res
}

// ---------------------------------------------------------------- readback

func fmtOwn(o quic.VerifLimitsOwn) string {
	dam := 0
	if o.DisableActiveMigration {
		dam = 1
	}
	return fmt.Sprintf("mit=%d mups=%d imd=%d imsdbl=%d imsdbr=%d imsdu=%d imsb=%d imsu=%d ade=%d mad=%d acil=%d mdfs=%d dam=%d",
		int64(o.MaxIdleTimeout/time.Millisecond), o.MaxUDPPayloadSize, o.InitialMaxData, o.InitialMaxStreamDataBidiLocal,
		o.InitialMaxStreamDataBidiRemote, o.InitialMaxStreamDataUni, o.MaxBidiStreamNum, o.MaxUniStreamNum,
		o.AckDelayExponent, int64(o.MaxAckDelay/time.Millisecond), o.ActiveConnectionIDLimit, o.MaxDatagramFrameSize, dam)
}

func fmtPS(p qlog.ParametersSet) string {
	dam := 0
	if p.DisableActiveMigration {
		dam = 1
	}
	return fmt.Sprintf("mit=%d mups=%d imd=%d imsdbl=%d imsdbr=%d imsdu=%d imsb=%d imsu=%d ade=%d mad=%d acil=%d mdfs=%d dam=%d",
		int64(p.MaxIdleTimeout/time.Millisecond), int64(p.MaxUDPPayloadSize), int64(p.InitialMaxData), int64(p.InitialMaxStreamDataBidiLocal),
		int64(p.InitialMaxStreamDataBidiRemote), int64(p.InitialMaxStreamDataUni), p.InitialMaxStreamsBidi, p.InitialMaxStreamsUni,
		p.AckDelayExponent, int64(p.MaxAckDelay/time.Millisecond), p.ActiveConnectionIDLimit, int64(p.MaxDatagramFrameSize), dam)
}

func findPS(r *e2e.Recorder, ini qlog.Initiator) (qlog.ParametersSet, bool) {
	for _, ev := range snapshot(r) {
		if ps, ok := ev.(qlog.ParametersSet); ok && ps.Initiator == ini && !ps.Restore {
			return ps, true
		}
	}
	return qlog.ParametersSet{}, false
}

// snapshot copies the recorded qlog events; called only when the connections are quiescent.
func snapshot(r *e2e.Recorder) []qlogwriter.Event {
	synctest.Wait()
	return append([]qlogwriter.Event(nil), r.Events...)
}

func b2i(b bool) int {
	if b {
		return 1
	}
	return 0
}

func (rn *runner) readback() string {
	return inBubble(func() string {
		s, fail := rn.open(30 * time.Second)
		if s == nil {
			return fail
		}
		defer s.close()
		time.Sleep(500 * time.Millisecond)
		synctest.Wait()
		if err := connErr(s.cli); err != nil {
			return "closed:" + canonErr(err)
		}
		own := quic.VerifLimitsOwnParams(s.cli)
		enf := quic.VerifLimitsEnforcedNow(s.cli)
		var sb strings.Builder
		fmt.Fprintf(&sb, "own: %s", fmtOwn(own))
		if ps, ok := findPS(s.env.ClientLog, qlog.InitiatorLocal); ok {
			fmt.Fprintf(&sb, " | qlog: %s", fmtPS(ps))
		} else {
			sb.WriteString(" | qlog: none")
		}
		fmt.Fprintf(&sb, " | wire: iscid=%s bytes=%s", hex.EncodeToString(own.InitialSourceConnectionID), hex.EncodeToString(own.Wire))
		if ps, ok := findPS(s.env.ServerLog, qlog.InitiatorRemote); ok {
			fmt.Fprintf(&sb, " | peer: %s iscid=%s", fmtPS(ps), hex.EncodeToString(ps.InitialSourceConnectionID.Bytes()))
		} else {
			sb.WriteString(" | peer: none")
		}
		fmt.Fprintf(&sb, " | enf: cw=%d cwmax=%d swbl=%d swbr=%d swu=%d swmax=%d swmaxr=%d swmaxu=%d mib=%d miu=%d cid=%d dg=%d idle=%d",
			enf.ConnWindow, enf.ConnWindowMax, enf.StreamWindowBidiLocal, enf.StreamWindowBidiRemote, enf.StreamWindowUni,
			enf.StreamWindowMax, enf.StreamWindowMaxBidiRemote, enf.StreamWindowMaxUni, enf.MaxIncomingBidi, enf.MaxIncomingUni, enf.ConnIDLimit, b2i(enf.Datagrams),
			int64(enf.IdleTimeout/time.Millisecond))
		return sb.String()
	})
}

// ---------------------------------------------------------------- exercises

const chunk = 32 << 10

func writeN(st io.Writer, n int64) error {
	buf := make([]byte, chunk)
	for i := range buf {
		buf[i] = byte(i*7 + 1)
	}
	for n > 0 {
		k := int64(len(buf))
		if k > n {
			k = n
		}
		if _, err := st.Write(buf[:k]); err != nil {
			return err
		}
		n -= k
	}
	return nil
}

func readCount(st io.Reader) (int64, error) {
	n, err := io.Copy(io.Discard, st)
	return n, err
}

// exStreamData: the server fills ONE stream of the given kind up to the advertised stream limit
// (bounded by the advertised connection limit) while the client application does not read.
func (rn *runner) exStreamData(kind string) string {
	return inBubble(func() string {
		s, fail := rn.open(10 * time.Minute)
		if s == nil {
			return fail
		}
		defer s.close()
		key := map[string]string{"bl": "imsdbl", "br": "imsdbr", "uni": "imsdu"}[kind]
		n := min(s.a.get(key), s.a.get("imd"))
		if kind == "br" && s.a.get("imsb") < 1 || kind == "uni" && s.a.get("imsu") < 1 {
			return "nostream"
		}
		var srvW io.WriteCloser
		var cliR io.Reader
		switch kind {
		case "bl": // opened by the client
			cs, err := s.cli.OpenStreamSync(s.ctx)
			if err != nil {
				return "cli-open:" + canonErr(err)
			}
			if _, err := cs.Write([]byte{1}); err != nil {
				return "cli-write:" + canonErr(err)
			}
			ss, err := s.srv.AcceptStream(s.ctx)
			if err != nil {
				if c, bad := s.clientFailed(time.Second); bad {
					return c
				}
				return "srv-accept:" + canonErr(err)
			}
			srvW, cliR = ss, cs
		case "br":
			ss, err := s.srv.OpenStream()
			if err != nil {
				if c, bad := s.clientFailed(time.Second); bad {
					return c
				}
				return "srv-open:" + canonErr(err)
			}
			srvW = ss
		case "uni":
			ss, err := s.srv.OpenUniStream()
			if err != nil {
				if c, bad := s.clientFailed(time.Second); bad {
					return c
				}
				return "srv-open:" + canonErr(err)
			}
			srvW = ss
		default:
			return "bad-op"
		}
		werr := make(chan error, 1)
		go func() {
			err := writeN(srvW, n)
			if err == nil {
				err = srvW.Close()
			}
			werr <- err
		}()
		var we error
		select {
		case we = <-werr:
		case <-s.ctx.Done():
			we = context.DeadlineExceeded
		}
		if c, bad := s.clientFailed(2 * time.Second); bad {
			s.cancel()
			return c
		}
		if we != nil {
			return "srv-write:" + canonErr(we)
		}
		// the client application now reads: everything the peer was allowed to send must be there
		switch kind {
		case "br":
			st, err := s.cli.AcceptStream(s.ctx)
			if err != nil {
				return "cli-accept:" + canonErr(err)
			}
			cliR = st
		case "uni":
			st, err := s.cli.AcceptUniStream(s.ctx)
			if err != nil {
				return "cli-accept:" + canonErr(err)
			}
			cliR = st
		}
		got, err := readCount(cliR)
		if err != nil {
			return fmt.Sprintf("cli-read:%s n=%d", canonErr(err), got)
		}
		return fmt.Sprintf("ok n=%d", got)
	})
}

const refillExtraMax = 64 << 10
const refillPatience = 5 * time.Second

// exRefill: the client application READS while the server sends more than the advertised stream limit on
// one stream (the advertised value plus up to 64 KiB, within the advertised connection limit): the extra
// bytes need the MAX_STREAM_DATA the client owes once the advertised credit is consumed.
func (rn *runner) exRefill(kind string) string {
	return inBubble(func() string {
		s, fail := rn.open(10 * time.Minute)
		if s == nil {
			return fail
		}
		defer s.close()
		key := map[string]string{"bl": "imsdbl", "br": "imsdbr", "uni": "imsdu"}[kind]
		if kind == "br" && s.a.get("imsb") < 1 || kind == "uni" && s.a.get("imsu") < 1 {
			return "nostream"
		}
		w := s.a.get(key)
		if w < 1 {
			return "nowindow"
		}
		n := w + min(w, refillExtraMax)
		if n > s.a.get("imd") {
			return "connbound"
		}
		var srvW io.WriteCloser
		var cliR io.Reader
		switch kind {
		case "bl":
			cs, err := s.cli.OpenStreamSync(s.ctx)
			if err != nil {
				return "cli-open:" + canonErr(err)
			}
			if _, err := cs.Write([]byte{1}); err != nil {
				return "cli-write:" + canonErr(err)
			}
			ss, err := s.srv.AcceptStream(s.ctx)
			if err != nil {
				if c, bad := s.clientFailed(time.Second); bad {
					return c
				}
				return "srv-accept:" + canonErr(err)
			}
			srvW, cliR = ss, cs
		case "br":
			ss, err := s.srv.OpenStream()
			if err != nil {
				return "srv-open:" + canonErr(err)
			}
			srvW = ss
		case "uni":
			ss, err := s.srv.OpenUniStream()
			if err != nil {
				return "srv-open:" + canonErr(err)
			}
			srvW = ss
		default:
			return "bad-op"
		}
		werr := make(chan error, 1)
		go func() {
			err := writeN(srvW, n)
			if err == nil {
				err = srvW.Close()
			}
			werr <- err
		}()
		type rres struct {
			n   int64
			err error
		}
		var got atomic.Int64
		rdone := make(chan rres, 1)
		go func() {
			if cliR == nil {
				var err error
				if kind == "br" {
					cliR, err = s.cli.AcceptStream(s.ctx)
				} else {
					cliR, err = s.cli.AcceptUniStream(s.ctx)
				}
				if err != nil {
					rdone <- rres{0, err}
					return
				}
			}
			buf := make([]byte, chunk)
			for {
				k, err := cliR.Read(buf)
				got.Add(int64(k))
				if err != nil {
					if err == io.EOF {
						err = nil
					}
					rdone <- rres{got.Load(), err}
					return
				}
			}
		}()
		// progress watchdog on the virtual clock: the transfer needs a few round trips of 20 ms
		last, lastAt := int64(-1), time.Now()
		for {
			select {
			case r := <-rdone:
				if c, bad := s.clientFailed(500 * time.Millisecond); bad {
					return c
				}
				if r.err != nil {
					return fmt.Sprintf("cli-read:%s n=%d", canonErr(r.err), r.n)
				}
				if we := <-werr; we != nil {
					return "srv-write:" + canonErr(we)
				}
				return fmt.Sprintf("ok n=%d", r.n)
			case <-time.After(250 * time.Millisecond):
			}
			if err := connErr(s.cli); err != nil {
				s.cancel()
				return canonErr(err)
			}
			if g := got.Load(); g != last {
				last, lastAt = g, time.Now()
			} else if time.Since(lastAt) > refillPatience {
				s.cancel()
				return fmt.Sprintf("stall n=%d", g)
			}
		}
	})
}

const connStreamsPerKind = 16

// connPlan: how the server spreads the advertised connection window over streams: up to 16
// client-opened bidi streams, then up to 16 server uni streams, then up to 16 server bidi streams,
// each filled to its advertised stream limit. Returns per-stream byte counts and the total.
func connPlan(a adv) (bl, uni, br []int64, total int64) {
	rem := a.get("imd")
	fill := func(cnt int64, per int64) []int64 {
		var out []int64
		for i := int64(0); i < cnt && rem > 0 && per > 0; i++ {
			k := min(per, rem)
			out = append(out, k)
			rem -= k
			total += k
		}
		return out
	}
	bl = fill(connStreamsPerKind, a.get("imsdbl"))
	uni = fill(min(connStreamsPerKind, a.get("imsu")), a.get("imsdu"))
	br = fill(min(connStreamsPerKind, a.get("imsb")), a.get("imsdbr"))
	return
}

// exConnData: the server sends the advertised connection window over several streams while the
// client application does not read.
func (rn *runner) exConnData() string {
	return inBubble(func() string {
		s, fail := rn.open(10 * time.Minute)
		if s == nil {
			return fail
		}
		defer s.close()
		bl, uni, br, total := connPlan(s.a)
		type wr struct {
			w io.WriteCloser
			n int64
		}
		var ws []wr
		var readers []io.Reader
		for _, n := range bl {
			cs, err := s.cli.OpenStreamSync(s.ctx)
			if err != nil {
				return "cli-open:" + canonErr(err)
			}
			if _, err := cs.Write([]byte{1}); err != nil {
				return "cli-write:" + canonErr(err)
			}
			ss, err := s.srv.AcceptStream(s.ctx)
			if err != nil {
				if c, bad := s.clientFailed(time.Second); bad {
					return c
				}
				return "srv-accept:" + canonErr(err)
			}
			ws = append(ws, wr{ss, n})
			readers = append(readers, cs)
		}
		for _, n := range uni {
			ss, err := s.srv.OpenUniStream()
			if err != nil {
				return "srv-open:" + canonErr(err)
			}
			ws = append(ws, wr{ss, n})
		}
		for _, n := range br {
			ss, err := s.srv.OpenStream()
			if err != nil {
				return "srv-open:" + canonErr(err)
			}
			ws = append(ws, wr{ss, n})
		}
		werr := make(chan error, len(ws))
		for _, w := range ws {
			go func() {
				err := writeN(w.w, w.n)
				if err == nil {
					err = w.w.Close()
				}
				werr <- err
			}()
		}
		var we error
		for range ws {
			select {
			case err := <-werr:
				if err != nil && we == nil {
					we = err
				}
			case <-s.ctx.Done():
				we = context.DeadlineExceeded
			}
		}
		if c, bad := s.clientFailed(2 * time.Second); bad {
			s.cancel()
			for range ws { // let the writers end
				select {
				case <-werr:
				default:
				}
			}
			return c
		}
		if we != nil {
			return "srv-write:" + canonErr(we)
		}
		for range uni {
			st, err := s.cli.AcceptUniStream(s.ctx)
			if err != nil {
				return "cli-accept:" + canonErr(err)
			}
			readers = append(readers, st)
		}
		for range br {
			st, err := s.cli.AcceptStream(s.ctx)
			if err != nil {
				return "cli-accept:" + canonErr(err)
			}
			readers = append(readers, st)
		}
		var got int64
		for _, r := range readers {
			n, err := readCount(r)
			got += n
			if err != nil {
				return fmt.Sprintf("cli-read:%s n=%d", canonErr(err), got)
			}
		}
		if got != total {
			return fmt.Sprintf("short n=%d want=%d", got, total)
		}
		return fmt.Sprintf("ok n=%d", got)
	})
}

const maxStreamsExercised = 3000

// exStreams: the server opens as many streams of one type as the client advertised, concurrently
// (the client application accepts none of them until all are open).
func (rn *runner) exStreams(kind string) string {
	return inBubble(func() string {
		s, fail := rn.open(2 * time.Minute)
		if s == nil {
			return fail
		}
		defer s.close()
		key := map[string]string{"bidi": "imsb", "uni": "imsu"}[kind]
		want := min(s.a.get(key), maxStreamsExercised)
		time.Sleep(300 * time.Millisecond)
		var opened int64
		for opened < want {
			var w io.WriteCloser
			var err error
			if kind == "bidi" {
				w, err = s.srv.OpenStream()
			} else {
				w, err = s.srv.OpenUniStream()
			}
			if err != nil {
				break
			}
			w.Close() // an empty STREAM frame with FIN opens the stream at the receiver, whatever its data limit
			opened++
		}
		// the peer may not go beyond what was advertised (sanity check of the conformant peer)
		over := 0
		if want < maxStreamsExercised {
			var err error
			if kind == "bidi" {
				_, err = s.srv.OpenStream()
			} else {
				_, err = s.srv.OpenUniStream()
			}
			if err == nil {
				over = 1
			}
		}
		if c, bad := s.clientFailed(2 * time.Second); bad {
			return c
		}
		var got int64
		for got < opened {
			var r io.Reader
			var err error
			if kind == "bidi" {
				r, err = s.cli.AcceptStream(s.ctx)
			} else {
				r, err = s.cli.AcceptUniStream(s.ctx)
			}
			if err != nil {
				return fmt.Sprintf("cli-accept:%s n=%d", canonErr(err), got)
			}
			if _, err := readCount(r); err != nil {
				return fmt.Sprintf("cli-read:%s n=%d", canonErr(err), got)
			}
			got++
		}
		return fmt.Sprintf("ok n=%d over=%d", got, over)
	})
}

func countNCID(r *e2e.Recorder) int {
	n := 0
	for _, ev := range snapshot(r) {
		if pr, ok := ev.(qlog.PacketReceived); ok {
			for _, f := range pr.Frames {
				if _, ok := f.Frame.(*qlog.NewConnectionIDFrame); ok {
					n++
				}
			}
		}
	}
	return n
}

// exCIDs: the server issues connection IDs up to the advertised active_connection_id_limit
// (the in-tree server stops at protocol.MaxIssuedConnectionIDs).
func (rn *runner) exCIDs() string {
	return inBubble(func() string {
		s, fail := rn.open(30 * time.Second)
		if s == nil {
			return fail
		}
		defer s.close()
		if c, bad := s.clientFailed(2 * time.Second); bad {
			return c
		}
		return fmt.Sprintf("ok ncid=%d", countNCID(s.env.ClientLog))
	})
}

// exDatagram: the server sends the largest DATAGRAM frame it may (advertised size, path MTU).
func (rn *runner) exDatagram() string {
	return inBubble(func() string {
		s, fail := rn.open(30 * time.Second)
		if s == nil {
			return fail
		}
		defer s.close()
		time.Sleep(300 * time.Millisecond)
		err := s.srv.SendDatagram(make([]byte, 1<<17))
		var tl *quic.DatagramTooLargeError
		if !errors.As(err, &tl) {
			if err != nil && strings.Contains(err.Error(), "datagram support disabled") {
				return "nodgram"
			}
			return "srv-send:" + canonErr(err)
		}
		size := tl.MaxDatagramPayloadSize
		if size <= 0 {
			return "nodgram"
		}
		// The sender's estimate of the largest payload is optimistic when the path MTU (not the advertised
		// frame size) is the bound: its packer silently discards a DATAGRAM frame that does not fit. Step
		// down until one is actually delivered (or the client fails).
		for try := 0; try < 16 && size > 0; try++ {
			payload := make([]byte, size)
			for i := range payload {
				payload[i] = byte(i*13 + 5)
			}
			if err := s.srv.SendDatagram(payload); err != nil {
				return "srv-send:" + canonErr(err)
			}
			// (short waits: the RTT is 20 ms, and the whole search must fit well inside a 5 s idle timeout)
			if c, bad := s.clientFailed(100 * time.Millisecond); bad {
				return c
			}
			rctx, cancel := context.WithTimeout(s.ctx, 50*time.Millisecond)
			got, err := s.cli.ReceiveDatagram(rctx)
			cancel()
			if err != nil {
				// (with datagrams disabled locally the API refuses at once; a DATAGRAM frame that really
				// arrives then fails the connection, which clientFailed reports)
				if strings.Contains(err.Error(), "datagram support disabled") || errors.Is(err, context.DeadlineExceeded) {
					size -= 4
					continue
				}
				return "cli-recv:" + canonErr(err)
			}
			if len(got) != len(payload) || string(got) != string(payload) {
				return fmt.Sprintf("corrupt n=%d", len(got))
			}
			return "ok"
		}
		return "undelivered"
	})
}

const idleSettle = 2 * time.Second
const idleMargin = 500 * time.Millisecond

// exIdle: after the handshake traffic has died down both sides stay silent (no keep-alives) until
// just under the advertised max_idle_timeout has passed since the last datagram; then the server speaks.
func (rn *runner) exIdle() string {
	return inBubble(func() string {
		s, fail := rn.open(3 * serverIdle)
		if s == nil {
			return fail
		}
		defer s.close()
		mit := time.Duration(s.a.get("mit")) * time.Millisecond
		if mit == 0 {
			return "noidle"
		}
		if s.a.get("imsu") < 1 || s.a.get("imsdu") < 1 || s.a.get("imd") < 1 {
			return "nochannel"
		}
		if mit <= idleSettle+idleMargin || mit >= serverIdle {
			return "outofrange"
		}
		time.Sleep(idleSettle)
		var last time.Duration
		for _, d := range append(s.env.Net.Datagrams(e2e.ToServer), s.env.Net.Datagrams(e2e.ToClient)...) {
			if d.At > last {
				last = d.At
			}
		}
		wake := s.t0.Add(last + mit - idleMargin)
		if err := connErr(s.cli); err != nil {
			return canonErr(err)
		}
		time.Sleep(time.Until(wake))
		if err := connErr(s.srv); err != nil {
			return "srv-closed:" + canonErr(err)
		}
		st, err := s.srv.OpenUniStream()
		if err != nil {
			return "srv-open:" + canonErr(err)
		}
		st.Write([]byte{42})
		st.Close()
		if c, bad := s.clientFailed(300 * time.Millisecond); bad {
			return c
		}
		rctx, cancel := context.WithTimeout(s.ctx, 5*time.Second)
		defer cancel()
		r, err := s.cli.AcceptUniStream(rctx)
		if err != nil {
			return "cli-accept:" + canonErr(err)
		}
		n, err := readCount(r)
		if err != nil || n != 1 {
			return fmt.Sprintf("cli-read:%s n=%d", canonErr(err), n)
		}
		return "ok"
	})
}

const idleAckDiv = 5
const idleAckRounds = 8

// exIdleAck: the CLIENT keeps sending (one byte every max_idle_timeout/5, for 1.6 timeouts) while the server
// application only reads, so that everything the server sends is an ACK-only packet. Every packet received,
// ack-eliciting or not, restarts the idle timer: the client must still be there at the end.
func (rn *runner) exIdleAck() string {
	return inBubble(func() string {
		s, fail := rn.open(3 * serverIdle)
		if s == nil {
			return fail
		}
		defer s.close()
		mit := time.Duration(s.a.get("mit")) * time.Millisecond
		if mit == 0 {
			return "noidle"
		}
		if mit <= idleSettle+idleMargin || mit >= serverIdle {
			return "outofrange"
		}
		time.Sleep(idleSettle)
		if err := connErr(s.cli); err != nil {
			return canonErr(err)
		}
		cs, err := s.cli.OpenUniStreamSync(s.ctx)
		if err != nil {
			return "cli-open:" + canonErr(err)
		}
		go func() {
			rs, err := s.srv.AcceptUniStream(s.ctx)
			if err == nil {
				io.Copy(io.Discard, rs)
			}
		}()
		for i := 0; i < idleAckRounds; i++ {
			if _, err := cs.Write([]byte{byte(i)}); err != nil {
				if c, bad := s.clientFailed(100 * time.Millisecond); bad {
					return c
				}
				return "cli-write:" + canonErr(err)
			}
			time.Sleep(mit / idleAckDiv)
			if err := connErr(s.cli); err != nil {
				return canonErr(err)
			}
			if err := connErr(s.srv); err != nil {
				return "srv-closed:" + canonErr(err)
			}
		}
		return "ok"
	})
}

// ---------------------------------------------------------------- vh.Runner

func (rn *runner) Exec(op string) string {
	f := strings.Fields(op)
	if len(f) == 0 {
		return "bad-op"
	}
	switch f[0] {
	case "spec":
		if len(f) < 2 {
			return "bad-op"
		}
		rn.base, rn.edits, rn.haveSpec = f[1], f[2:], false
		if f[1] == "plain" {
			rn.haveSpec = true
			return "plain"
		}
		spec, err := buildSpec(f[1], f[2:])
		if err != nil {
			return "badspec"
		}
		a, n := listSpec(spec)
		rn.adv, rn.haveSpec = a, true
		return fmt.Sprintf("%s n=%d", a, n)
	case "cfg":
		rn.setCfg(f[1:])
		return "ok"
	}
	if !rn.haveSpec {
		return "skip"
	}
	switch f[0] {
	case "readback":
		return rn.readback()
	case "ex":
		if len(f) < 2 {
			return "bad-op"
		}
		switch f[1] {
		case "sdata":
			if len(f) < 3 {
				return "bad-op"
			}
			return rn.exStreamData(f[2])
		case "refill":
			if len(f) < 3 {
				return "bad-op"
			}
			return rn.exRefill(f[2])
		case "cdata":
			return rn.exConnData()
		case "streams":
			if len(f) < 3 {
				return "bad-op"
			}
			return rn.exStreams(f[2])
		case "cids":
			return rn.exCIDs()
		case "datagram":
			return rn.exDatagram()
		case "idle":
			return rn.exIdle()
		case "idleack":
			return rn.exIdleAck()
		}
	}
	return "bad-op"
}

// ---------------------------------------------------------------- generator

func pickVal(r *vh.Rand, around []int64, lo, hi int64) int64 {
	if len(around) > 0 && r.Chance(60) {
		v := around[r.Intn(len(around))] + []int64{0, 0, 1, -1}[r.Intn(4)]
		if v < 0 {
			v = 0
		}
		return v
	}
	return r.Range(lo, hi)
}

func (rn *runner) mkPlan(r *vh.Rand) {
	// user Config
	var icrw, isrw, mcrw, msrw, mis, mius, dg, mit int64
	if r.Chance(55) {
		if r.Chance(50) {
			icrw = r.Range(4<<10, 3<<20)
		}
		if r.Chance(50) {
			isrw = r.Range(1<<10, 2<<20)
		}
		if r.Chance(15) {
			mcrw = r.Range(1<<10, 20<<20)
		}
		if r.Chance(15) {
			msrw = r.Range(1<<10, 8<<20)
		}
		if r.Chance(40) {
			mis = []int64{-1, 1, 7, 16, 99, 100, 101, 150, 1000}[r.Intn(9)]
		}
		if r.Chance(40) {
			mius = []int64{-1, 1, 3, 16, 100, 102, 103, 104, 500}[r.Intn(9)]
		}
		if r.Chance(40) {
			dg = 1
		}
		if r.Chance(40) {
			mit = []int64{6000, 10000, 20000, 28000, 30000, 32000, 45000, 60000}[r.Intn(8)]
		}
	}
	cfg := fmt.Sprintf("cfg icrw=%d mcrw=%d isrw=%d msrw=%d mis=%d mius=%d dg=%d mit=%d", icrw, mcrw, isrw, msrw, mis, mius, dg, mit)
	def := func(v, d int64) int64 {
		if v == 0 {
			return d
		}
		return v
	}
	enfConn, enfStream := def(icrw, 786432), def(isrw, 524288)
	enfBidi, enfUni := def(mis, 100), def(mius, 100)
	if enfBidi < 0 {
		enfBidi = 0
	}
	if enfUni < 0 {
		enfUni = 0
	}
	enfIdle := def(mit, 30000)

	spec := "spec "
	switch k := r.Pick(30, 12, 58); k {
	case 0: // built-in, unedited
		spec += baseNames[r.Intn(len(baseNames))]
	case 1:
		spec += "plain"
	default: // derived parameter list
		spec += baseNames[r.Intn(len(baseNames))]
		ed := func(key string, v int64) {
			if r.Chance(6) {
				if r.Bool() {
					spec += " del:" + key
				} else {
					spec += " sup:" + key
				}
				return
			}
			spec += fmt.Sprintf(" set:%s=%d", key, v)
		}
		nEd := 0
		pe := func(p int) bool {
			if r.Chance(p) {
				nEd++
				return true
			}
			return false
		}
		if pe(60) {
			ed("imd", pickVal(r, []int64{enfConn}, 1<<10, 3<<20))
		}
		if pe(50) {
			ed("imsdbl", pickVal(r, []int64{enfStream}, 0, 2<<20))
		}
		if pe(50) {
			ed("imsdbr", pickVal(r, []int64{enfStream}, 0, 2<<20))
		}
		if pe(50) {
			ed("imsdu", pickVal(r, []int64{enfStream}, 1, 2<<20))
		}
		if pe(50) {
			ed("imsb", pickVal(r, []int64{enfBidi}, 0, 300))
		}
		if pe(50) {
			ed("imsu", pickVal(r, []int64{enfUni}, 1, 300))
		}
		if pe(40) {
			ed("acil", r.Range(2, 9))
		}
		if pe(40) {
			ed("mdfs", []int64{0, 1, 50, 1200, 1500, 16383, 16384, 65535, 65536}[r.Intn(9)])
		}
		if pe(40) {
			// at the enforced value, or at least 2 s away from it (the exercise speaks 0.5 s before the advertised timeout)
			ed("mit", max(4000, []int64{enfIdle, enfIdle + 2000, enfIdle - 2000, enfIdle + 15000, 8000, 5000}[r.Intn(6)]))
		}
		if nEd == 0 {
			ed("imd", enfConn)
		}
	}
	exs := []string{"ex sdata bl", "ex sdata br", "ex sdata uni", "ex cdata", "ex streams bidi", "ex streams uni", "ex cids", "ex datagram", "ex idle",
		"ex refill bl", "ex refill br", "ex refill uni", "ex idleack"}
	for i := len(exs) - 1; i > 0; i-- {
		j := r.Intn(i + 1)
		exs[i], exs[j] = exs[j], exs[i]
	}
	rn.plan = append([]string{spec, cfg, "readback"}, exs...)
}

func (rn *runner) GenOp(r *vh.Rand, i int) string {
	if i == 0 {
		rn.mkPlan(r)
	}
	if i >= len(rn.plan) {
		return ""
	}
	return rn.plan[i]
}

var _ = sort.Strings

func TestDriver(t *testing.T) {
	theT = t
	vh.Main(t, "limits", newRunner)
}
