//go:build verif

// Memory-ownership ops of the C08 driver: who may write which bytes.
//
//	at <pre> <slk> <inner op>   the inner codec call works INSIDE a caller-owned buffer: an encoder appends to a
//	                            slice that already holds <pre> bytes and has <slk> bytes of spare capacity (as the
//	                            packer's buffer does), a parser gets its input as a window of a larger buffer (as
//	                            a coalesced packet in a pooled receive buffer is). Reported after the call: the
//	                            caller's bytes, and — after the whole buffer has been overwritten, as happens when
//	                            the receive buffer goes back to its pool — the parsed value once more.
//	                            (Only for values the connection keeps beyond the life of the receive buffer:
//	                            frames — STREAM/CRYPTO/DATAGRAM data, NEW_TOKEN, reason phrases —, the token of
//	                            a Retry header, transport parameters, session tickets, connection IDs. Results
//	                            that are consumed while the buffer is still held — Version Negotiation lists,
//	                            arbitrary-length connection IDs, Initial tokens — may legitimately alias it.)
//	dirty <inner dec|ssplit op> the inner parse (or MaybeSplitOffFrame, which takes its new frame from the pool) runs twice, each time right after the StreamFrame pool has been
//	                            filled with objects that were used before (all header fields and the data buffer
//	                            dirty; flags all false the first time, all true the second).
//	vnc via=c|g d= s= v= voff= vslk= boff= bslk=
//	                            ComposeVersionNegotiation (c) / GetGreasedVersions (g) on ONE versions slice that
//	                            lives in a larger array (voff cells in front, vslk cells of spare capacity) and on
//	                            connection IDs that are windows of one receive buffer; consecutive ops with the
//	                            same parameters reuse the same memory, as a Transport reuses its Config.Versions.
package wire

import (
	"fmt"
	"strings"

	"github.com/refraction-networking/uquic/internal/protocol"
	"github.com/refraction-networking/uquic/internal/verifharness/vh"
	"github.com/refraction-networking/uquic/internal/wire"
)

type memCtx struct {
	pre, slk int
	// encoder side
	dstArena []byte
	gotPre   []byte
	outSeen  bool
	// parser side
	inArena  []byte
	rerender func() string
}

// memPattern is the content of caller-owned bytes at arena position i (the oracle recomputes it).
func memPattern(i int) byte { return byte(0xc5 + 3*i) }

// dst is the slice an encoder appends to: nil normally; inside `at` a slice with content and spare capacity.
func (rn *runner) dst() []byte {
	m := rn.mem
	if m == nil || m.dstArena != nil || m.inArena != nil {
		return nil
	}
	m.dstArena = make([]byte, m.pre+m.slk)
	for i := range m.dstArena {
		m.dstArena[i] = memPattern(i)
	}
	return m.dstArena[:m.pre]
}

// out strips the caller's prefix from what the encoder returned (and remembers it).
func (rn *runner) out(b []byte) []byte {
	m := rn.mem
	if m == nil || m.dstArena == nil || m.outSeen {
		return b
	}
	m.outSeen = true
	n := m.pre
	if n > len(b) {
		n = len(b)
	}
	m.gotPre = append([]byte{}, b[:n]...)
	return b[n:]
}

// in is the input of a parser: a private slice normally; inside `at` a window of a larger buffer.
func (rn *runner) in(h string) []byte {
	m := rn.mem
	if m == nil || m.inArena != nil || m.dstArena != nil {
		return unhx(h)
	}
	data := unhx(h)
	m.inArena = make([]byte, m.pre+len(data)+m.slk)
	for i := range m.inArena {
		m.inArena[i] = memPattern(i)
	}
	copy(m.inArena[m.pre:], data)
	return m.inArena[m.pre : m.pre+len(data)]
}

// keep renders a parsed value now and remembers how to render it again later.
func (rn *runner) keep(render func() string) string {
	if rn.mem != nil {
		rn.mem.rerender = render
	}
	return render()
}

var poisonCount uint64

// poisonStreamFramePool hands used StreamFrame objects to the pool, as the connection does after it has
// handled a frame (and the send path after a packet was acknowledged).
func poisonStreamFramePool(ones bool) {
	var fs []*wire.StreamFrame
	for i := 0; i < 3; i++ {
		fs = append(fs, wire.GetStreamFrame())
	}
	for _, f := range fs {
		poisonCount++
		f.StreamID = protocol.StreamID(1<<61 + poisonCount)
		f.Offset = protocol.ByteCount(1<<50 + poisonCount)
		f.Fin = ones
		f.DataLenPresent = ones
		f.Data = f.Data[:cap(f.Data)]
		for i := range f.Data {
			f.Data[i] = 0xdd
		}
		f.Data = f.Data[:9]
		f.PutBack()
	}
}

func (rn *runner) execMem(ws []string, gen bool) string {
	switch ws[0] {
	case "at":
		if len(ws) < 4 || rn.mem != nil {
			return "skip"
		}
		switch ws[3] {
		case "at", "dirty", "vnc":
			return "skip"
		}
		pre, slk := int(u64(ws[1])), int(u64(ws[2]))
		if pre > 4096 || slk > 4096 {
			return "skip"
		}
		m := &memCtx{pre: pre, slk: slk}
		rn.mem = m
		defer func() { rn.mem = nil }()
		rn.fromGen = gen
		res := rn.Exec(strings.Join(ws[3:], " "))
		rn.mem = nil
		switch {
		case m.dstArena != nil:
			got := "?"
			if m.outSeen {
				got = hx(m.gotPre)
			}
			return fmt.Sprintf("%s @@ pre=%s mem=%s", res, got, hx(m.dstArena[:m.pre]))
		case m.inArena != nil:
			after := hx(m.inArena)
			// the buffer is reused for the next datagram
			for i := range m.inArena {
				m.inArena[i] ^= 0xff
			}
			again := "-"
			if m.rerender != nil {
				again = m.rerender()
			}
			return fmt.Sprintf("%s @@ mem=%s @@ %s", res, after, again)
		}
		return res + " @@ untouched"
	case "dirty":
		if len(ws) < 2 || (ws[1] != "dec" && ws[1] != "ssplit") {
			return "skip"
		}
		inner := strings.Join(ws[1:], " ")
		poisonStreamFramePool(false)
		r1 := rn.Exec(inner)
		poisonStreamFramePool(true)
		rn.fromGen = gen
		r2 := rn.Exec(inner)
		return r1 + " @@ " + r2
	case "vnc":
		return rn.execVNC(ws, gen)
	}
	return "skip"
}

const canaryVersion = protocol.Version(0xc5c5c5c5)

func (rn *runner) execVNC(ws []string, _ bool) string {
	via := kv(ws, "via=")
	var vs []protocol.Version
	if s := kv(ws, "v="); s != "-" && s != "" {
		for _, x := range strings.Split(s, ",") {
			vs = append(vs, protocol.Version(u64(x)))
		}
	}
	d, s := unhx(kv(ws, "d=")), unhx(kv(ws, "s="))
	voff, vslk, boff, bslk := int(u64(kv(ws, "voff="))), int(u64(kv(ws, "vslk="))), int(u64(kv(ws, "boff="))), int(u64(kv(ws, "bslk=")))
	if voff > 64 || vslk > 64 || boff > 64 || bslk > 64 || len(vs) > 64 || len(d) > 255 || len(s) > 255 {
		return "skip"
	}
	var keyWords []string
	for _, w := range ws[1:] {
		if !strings.HasPrefix(w, "via=") {
			keyWords = append(keyWords, w)
		}
	}
	key := strings.Join(keyWords, " ")
	if rn.vnKey != key || rn.vnVers == nil {
		rn.vnKey = key
		rn.vnVers = make([]protocol.Version, voff+len(vs)+vslk)
		for i := range rn.vnVers {
			rn.vnVers[i] = canaryVersion
		}
		copy(rn.vnVers[voff:], vs)
		rn.vnBuf = make([]byte, boff+len(d)+len(s)+bslk)
		for i := range rn.vnBuf {
			rn.vnBuf[i] = memPattern(i)
		}
		copy(rn.vnBuf[boff:], d)
		copy(rn.vnBuf[boff+len(d):], s)
	}
	// the caller's slices: length as given, capacity up to the end of their arrays
	supported := rn.vnVers[voff : voff+len(vs)]
	dest := protocol.ArbitraryLenConnectionID(rn.vnBuf[boff : boff+len(d)])
	src := protocol.ArbitraryLenConnectionID(rn.vnBuf[boff+len(d) : boff+len(d)+len(s)])
	var r string
	if via == "g" {
		r = vlist(protocol.GetGreasedVersions(supported))
	} else {
		b := wire.ComposeVersionNegotiation(dest, src, supported)
		rn.push("vn " + hx(b)) // every packet is parsed back, also those of a pushed run
		r = hx(b)
	}
	return fmt.Sprintf("r=%s vmem=%s bmem=%s", r, vlist(rn.vnVers), hx(rn.vnBuf))
}

// ---------------------------------------------------------------- generators

var atKinds = map[string]bool{"enc": true, "venc": true, "vencl": true, "enclhdr": true, "encshdr": true, "tpst": true,
	"vparse": true, "dec": true, "lhdr": true, "shdr": true, "cid": true, "acid": true, "vn": true, "pred": true,
	"tpdec": true, "tpstdec": true, "tokdec": true, "stkdec": true}

func firstWord(op string) string {
	if i := strings.IndexByte(op, ' '); i >= 0 {
		return op[:i]
	}
	return op
}

func vncText(r *vh.Rand) string {
	var vs []string
	for k := []int{0, 1, 2, 2, 3, 4, 7}[r.Intn(7)]; k > 0; k-- {
		v := []uint64{1, 0x6b3343cf, 0xff00001d, r.U64() & 0xffffffff, 0x0a0a0a0a}[[]int{0, 1, 2, 3, 0, 1, 3, 4}[r.Intn(8)]]
		vs = append(vs, fmt.Sprint(v))
	}
	v := "-"
	if len(vs) > 0 {
		v = strings.Join(vs, ",")
	}
	return fmt.Sprintf("d=%s s=%s v=%s voff=%d vslk=%d boff=%d bslk=%d", hx(r.Bytes([]int{0, 4, 8, 8, 20, 29}[r.Intn(6)])), hx(r.Bytes([]int{0, 4, 8, 20, 29}[r.Intn(5)])), v,
		[]int{0, 0, 1, 3}[r.Intn(4)], []int{0, 1, 2, 6, 6}[r.Intn(5)], []int{0, 1, 5}[r.Intn(3)], []int{0, 2, 7}[r.Intn(3)])
}
