//go:build verif

// Package wire is the correspondence driver for property C08 (wire codecs).
// Every op is self-contained (all inputs are in the op text), except `reenc`,
// which re-encodes the Go frame object produced by the last successful `dec`, and
// parse ops whose exponent is `=`: they run on the case's FrameParser of that flag
// set with the ACK delay exponent it holds (last `setexp` / numeric exponent; 0 when fresh).
package wire

import (
	"bytes"
	"encoding/hex"
	"errors"
	"fmt"
	"io"
	"net"
	"net/netip"
	"os"
	"strconv"
	"strings"
	"testing"
	"time"

	fuzzframes "github.com/refraction-networking/uquic/fuzzing/frames"
	fuzzheader "github.com/refraction-networking/uquic/fuzzing/header"
	fuzztokens "github.com/refraction-networking/uquic/fuzzing/tokens"
	fuzztp "github.com/refraction-networking/uquic/fuzzing/transportparameters"
	"github.com/refraction-networking/uquic/internal/handshake"
	"github.com/refraction-networking/uquic/internal/protocol"
	"github.com/refraction-networking/uquic/internal/qerr"
	"github.com/refraction-networking/uquic/internal/verifharness/vh"
	"github.com/refraction-networking/uquic/internal/wire"
	"github.com/refraction-networking/uquic/quicvarint"
)

func TestDriver(t *testing.T) { vh.Main(t, "wire", newRunner) }

var caseCounter int

type runner struct {
	caseNo  int
	pending []string
	fromGen bool
	last    wire.Frame // frame object of the last successful dec
	lastCtx string
	thorough bool
	sweepHi int
	// one FrameParser per flag combination serves the whole case, as one serves a whole connection
	parsers map[string]*wire.FrameParser
	// memory-ownership ops (mem_test.go)
	mem    *memCtx
	vnKey  string
	vnVers []protocol.Version
	vnBuf  []byte
}

func (rn *runner) parser(flags string) *wire.FrameParser {
	for len(flags) < 3 {
		flags += "0"
	}
	flags = flags[:3]
	if rn.parsers == nil {
		rn.parsers = map[string]*wire.FrameParser{}
	}
	p := rn.parsers[flags]
	if p == nil {
		p = wire.NewFrameParser(flags[0] == '1', flags[1] == '1', flags[2] == '1')
		rn.parsers[flags] = p
	}
	return p
}

func newRunner(r *vh.Rand) vh.Runner {
	caseCounter++
	return &runner{caseNo: caseCounter, thorough: vh.EnvInt("VH_THOROUGH", 0) == 1 || strings.EqualFold(os.Getenv("VH_TIER"), "thorough")}
}


// ---------------------------------------------------------------- text helpers

func hx(b []byte) string {
	if len(b) == 0 {
		return "-"
	}
	return hex.EncodeToString(b)
}

func unhx(s string) []byte {
	if s == "-" || s == "" {
		return nil
	}
	b, err := hex.DecodeString(s)
	if err != nil {
		return nil
	}
	return b
}

func u64(s string) uint64 { n, _ := strconv.ParseUint(s, 10, 64); return n }

// kv returns the value of key "k=" among the words.
func kv(ws []string, k string) string {
	for _, w := range ws {
		if strings.HasPrefix(w, k) {
			return w[len(k):]
		}
	}
	return ""
}

// ---------------------------------------------------------------- error classes

func frameErrClass(msg string) string {
	switch {
	case msg == "EOF":
		return "eof"
	case msg == "unexpected EOF":
		return "ueof"
	case msg == "unknown frame type":
		return "unknown"
	case strings.Contains(msg, "not allowed at encryption level"):
		return "enclevel"
	case msg == "invalid first ACK range":
		return "ack_first"
	case strings.Contains(msg, "invalid ACK ranges"):
		return "ack_ranges"
	case msg == "stream data overflows maximum offset":
		return "stream_overflow"
	case strings.HasPrefix(msg, "RESET_STREAM_AT: reliable size"):
		return "reliable_gt_final"
	case msg == "token must not be empty":
		return "empty_token"
	case strings.HasSuffix(msg, "exceeds the maximum stream count"):
		return "stream_count"
	case strings.HasPrefix(msg, "Retire Prior To value"):
		return "retire_gt_seq"
	case msg == "invalid zero-length connection ID":
		return "zero_cid"
	case msg == "invalid Connection ID length":
		return "cid_len"
	}
	return "other(" + strings.ReplaceAll(msg, " ", "_") + ")"
}

func hdrErrClass(err error) string {
	msg := err.Error()
	switch {
	case err == io.EOF:
		return "eof"
	case err == io.ErrUnexpectedEOF:
		return "ueof"
	case msg == "not a long header packet":
		return "notlong"
	case msg == "not a short header packet":
		return "notshort"
	case msg == "not a QUIC packet":
		return "notquic"
	case errors.Is(err, protocol.ErrInvalidConnectionIDLen):
		return "cid_len"
	case errors.Is(err, wire.ErrUnsupportedVersion):
		return "unsupported"
	case strings.HasPrefix(msg, "packet length"):
		return "short_packet"
	case errors.Is(err, wire.ErrInvalidReservedBits):
		return "reserved"
	case strings.HasPrefix(msg, "invalid packet number length"):
		return "pnlen"
	case strings.HasSuffix(msg, "empty version list"):
		return "vn_empty"
	case strings.HasSuffix(msg, "version list with an invalid length"):
		return "vn_len"
	case strings.HasPrefix(msg, "invalid connection ID length"):
		return "cid_len"
	}
	return "other(" + strings.ReplaceAll(msg, " ", "_") + ")"
}

func tpErrClass(msg string) string {
	switch {
	case msg == "EOF":
		return "eof"
	case msg == "unexpected EOF":
		return "ueof"
	case strings.HasPrefix(msg, "remaining length"):
		return "param_len"
	case strings.HasPrefix(msg, "error while reading transport parameter"):
		return "read"
	case strings.HasPrefix(msg, "inconsistent transport parameter length"):
		return "inconsistent_len"
	case strings.HasPrefix(msg, "initial_max_streams_"):
		return "streams_too_large"
	case strings.HasPrefix(msg, "invalid value for max_udp_payload_size"):
		return "udp_payload"
	case strings.HasPrefix(msg, "invalid value for ack_delay_exponent"):
		return "ack_delay_exponent"
	case strings.HasPrefix(msg, "invalid value for max_ack_delay"):
		return "max_ack_delay"
	case strings.HasPrefix(msg, "invalid value for active_connection_id_limit"):
		return "active_cid_limit"
	case strings.HasPrefix(msg, "client sent a"):
		return "client_sent"
	case strings.HasPrefix(msg, "wrong length for"):
		return "wrong_len"
	case msg == "invalid Connection ID length":
		return "cid_len"
	case strings.HasPrefix(msg, "invalid connection ID length"):
		return "pa_cid_len"
	case strings.HasPrefix(msg, "expected preferred_address to be"):
		return "pa_len"
	case strings.HasPrefix(msg, "min_ack_delay"):
		return "min_gt_max"
	case msg == "missing original_destination_connection_id":
		return "missing_odcid"
	case msg == "missing initial_source_connection_id":
		return "missing_iscid"
	case strings.HasPrefix(msg, "received duplicate transport parameter"):
		return "duplicate"
	case strings.HasPrefix(msg, "unknown transport parameter marshaling version"):
		return "ticket_version"
	}
	return "other(" + strings.ReplaceAll(msg, " ", "_") + ")"
}

// ---------------------------------------------------------------- frames <-> text

func stName(t protocol.StreamType) string {
	if t == protocol.StreamTypeUni {
		return "uni"
	}
	return "bidi"
}

func b01(b bool) string {
	if b {
		return "1"
	}
	return "0"
}

func fmtFrame(f wire.Frame) string {
	switch f := f.(type) {
	case *wire.PingFrame:
		return "ping"
	case *wire.AckFrame:
		var sb strings.Builder
		fmt.Fprintf(&sb, "ack d=%d e=%d,%d,%d r=", uint64(f.DelayTime), f.ECT0, f.ECT1, f.ECNCE)
		for i, r := range f.AckRanges {
			if i > 0 {
				sb.WriteByte(';')
			}
			fmt.Fprintf(&sb, "%d-%d", uint64(r.Smallest), uint64(r.Largest))
		}
		if len(f.AckRanges) == 0 {
			sb.WriteByte('-')
		}
		return sb.String()
	case *wire.ResetStreamFrame:
		return fmt.Sprintf("rst sid=%d ec=%d fs=%d rs=%d", uint64(f.StreamID), uint64(f.ErrorCode), uint64(f.FinalSize), uint64(f.ReliableSize))
	case *wire.StopSendingFrame:
		return fmt.Sprintf("stop sid=%d ec=%d", uint64(f.StreamID), uint64(f.ErrorCode))
	case *wire.CryptoFrame:
		return fmt.Sprintf("crypto off=%d data=%s", uint64(f.Offset), hx(f.Data))
	case *wire.NewTokenFrame:
		return fmt.Sprintf("newtoken tok=%s", hx(f.Token))
	case *wire.StreamFrame:
		return fmt.Sprintf("stream sid=%d off=%d fin=%s len=%s data=%s", uint64(f.StreamID), uint64(f.Offset), b01(f.Fin), b01(f.DataLenPresent), hx(f.Data))
	case *wire.MaxDataFrame:
		return fmt.Sprintf("maxdata v=%d", uint64(f.MaximumData))
	case *wire.MaxStreamDataFrame:
		return fmt.Sprintf("maxsd sid=%d v=%d", uint64(f.StreamID), uint64(f.MaximumStreamData))
	case *wire.MaxStreamsFrame:
		return fmt.Sprintf("maxstreams t=%s v=%d", stName(f.Type), uint64(f.MaxStreamNum))
	case *wire.DataBlockedFrame:
		return fmt.Sprintf("blocked v=%d", uint64(f.MaximumData))
	case *wire.StreamDataBlockedFrame:
		return fmt.Sprintf("sdblocked sid=%d v=%d", uint64(f.StreamID), uint64(f.MaximumStreamData))
	case *wire.StreamsBlockedFrame:
		return fmt.Sprintf("sblocked t=%s v=%d", stName(f.Type), uint64(f.StreamLimit))
	case *wire.NewConnectionIDFrame:
		return fmt.Sprintf("ncid seq=%d rpt=%d cid=%s srt=%s", f.SequenceNumber, f.RetirePriorTo, hx(f.ConnectionID.Bytes()), hx(f.StatelessResetToken[:]))
	case *wire.RetireConnectionIDFrame:
		return fmt.Sprintf("rcid seq=%d", f.SequenceNumber)
	case *wire.PathChallengeFrame:
		return fmt.Sprintf("pchal d=%s", hx(f.Data[:]))
	case *wire.PathResponseFrame:
		return fmt.Sprintf("presp d=%s", hx(f.Data[:]))
	case *wire.ConnectionCloseFrame:
		return fmt.Sprintf("close app=%s ec=%d ft=%d reason=%s", b01(f.IsApplicationError), f.ErrorCode, f.FrameType, hx([]byte(f.ReasonPhrase)))
	case *wire.HandshakeDoneFrame:
		return "hsdone"
	case *wire.DatagramFrame:
		return fmt.Sprintf("dgram len=%s data=%s", b01(f.DataLenPresent), hx(f.Data))
	case *wire.AckFrequencyFrame:
		return fmt.Sprintf("ackfreq seq=%d aet=%d mad=%d rt=%d", f.SequenceNumber, f.AckElicitingThreshold, uint64(f.RequestMaxAckDelay), uint64(f.ReorderingThreshold))
	case *wire.ImmediateAckFrame:
		return "immack"
	case nil:
		return "nil"
	}
	return fmt.Sprintf("unknown(%T)", f)
}

func parseStreamType(s string) protocol.StreamType {
	if s == "uni" {
		return protocol.StreamTypeUni
	}
	return protocol.StreamTypeBidi
}

func arr8(b []byte) (a [8]byte) { copy(a[:], b); return }

// frameOf builds the Go frame object described by the words (kind first).
func frameOf(ws []string) wire.Frame {
	if len(ws) == 0 {
		return nil
	}
	n := func(k string) uint64 { return u64(kv(ws, k)) }
	switch ws[0] {
	case "ping":
		return &wire.PingFrame{}
	case "ack":
		f := &wire.AckFrame{DelayTime: time.Duration(n("d="))}
		e := strings.Split(kv(ws, "e="), ",")
		if len(e) == 3 {
			f.ECT0, f.ECT1, f.ECNCE = u64(e[0]), u64(e[1]), u64(e[2])
		}
		if rs := kv(ws, "r="); rs != "-" && rs != "" {
			for _, p := range strings.Split(rs, ";") {
				sl := strings.Split(p, "-")
				if len(sl) == 2 {
					f.AckRanges = append(f.AckRanges, wire.AckRange{Smallest: protocol.PacketNumber(u64(sl[0])), Largest: protocol.PacketNumber(u64(sl[1]))})
				}
			}
		}
		return f
	case "rst":
		return &wire.ResetStreamFrame{StreamID: protocol.StreamID(n("sid=")), ErrorCode: qerr.StreamErrorCode(n("ec=")), FinalSize: protocol.ByteCount(n("fs=")), ReliableSize: protocol.ByteCount(n("rs="))}
	case "stop":
		return &wire.StopSendingFrame{StreamID: protocol.StreamID(n("sid=")), ErrorCode: qerr.StreamErrorCode(n("ec="))}
	case "crypto":
		return &wire.CryptoFrame{Offset: protocol.ByteCount(n("off=")), Data: unhx(kv(ws, "data="))}
	case "newtoken":
		return &wire.NewTokenFrame{Token: unhx(kv(ws, "tok="))}
	case "stream":
		return &wire.StreamFrame{StreamID: protocol.StreamID(n("sid=")), Offset: protocol.ByteCount(n("off=")), Fin: kv(ws, "fin=") == "1", DataLenPresent: kv(ws, "len=") == "1", Data: unhx(kv(ws, "data="))}
	case "maxdata":
		return &wire.MaxDataFrame{MaximumData: protocol.ByteCount(n("v="))}
	case "maxsd":
		return &wire.MaxStreamDataFrame{StreamID: protocol.StreamID(n("sid=")), MaximumStreamData: protocol.ByteCount(n("v="))}
	case "maxstreams":
		return &wire.MaxStreamsFrame{Type: parseStreamType(kv(ws, "t=")), MaxStreamNum: protocol.StreamNum(n("v="))}
	case "blocked":
		return &wire.DataBlockedFrame{MaximumData: protocol.ByteCount(n("v="))}
	case "sdblocked":
		return &wire.StreamDataBlockedFrame{StreamID: protocol.StreamID(n("sid=")), MaximumStreamData: protocol.ByteCount(n("v="))}
	case "sblocked":
		return &wire.StreamsBlockedFrame{Type: parseStreamType(kv(ws, "t=")), StreamLimit: protocol.StreamNum(n("v="))}
	case "ncid":
		cid := unhx(kv(ws, "cid="))
		if len(cid) > 20 {
			cid = cid[:20]
		}
		f := &wire.NewConnectionIDFrame{SequenceNumber: n("seq="), RetirePriorTo: n("rpt="), ConnectionID: protocol.ParseConnectionID(cid)}
		copy(f.StatelessResetToken[:], unhx(kv(ws, "srt=")))
		return f
	case "rcid":
		return &wire.RetireConnectionIDFrame{SequenceNumber: n("seq=")}
	case "pchal":
		return &wire.PathChallengeFrame{Data: arr8(unhx(kv(ws, "d=")))}
	case "presp":
		return &wire.PathResponseFrame{Data: arr8(unhx(kv(ws, "d=")))}
	case "close":
		return &wire.ConnectionCloseFrame{IsApplicationError: kv(ws, "app=") == "1", ErrorCode: n("ec="), FrameType: n("ft="), ReasonPhrase: string(unhx(kv(ws, "reason=")))}
	case "hsdone":
		return &wire.HandshakeDoneFrame{}
	case "dgram":
		return &wire.DatagramFrame{DataLenPresent: kv(ws, "len=") == "1", Data: unhx(kv(ws, "data="))}
	case "ackfreq":
		return &wire.AckFrequencyFrame{SequenceNumber: n("seq="), AckElicitingThreshold: n("aet="), RequestMaxAckDelay: time.Duration(n("mad=")), ReorderingThreshold: protocol.PacketNumber(n("rt="))}
	case "immack":
		return &wire.ImmediateAckFrame{}
	}
	return nil
}

func kindOf(f wire.Frame) string {
	s := fmtFrame(f)
	if i := strings.IndexByte(s, ' '); i >= 0 {
		return s[:i]
	}
	return s
}

func lvlOf(s string) protocol.EncryptionLevel {
	switch s {
	case "I":
		return protocol.EncryptionInitial
	case "H":
		return protocol.EncryptionHandshake
	case "Z":
		return protocol.Encryption0RTT
	}
	return protocol.Encryption1RTT
}

// decodeOne mirrors connection.handleFrames for a single frame.
func (rn *runner) decodeOne(lvl, flags, exp string, data []byte) (wire.Frame, int, string) {
	p := rn.parser(flags)
	// a numeric exponent: the peer's transport parameters arrive right before this parse; "=": the parser
	// keeps whatever it holds (the connection calls SetAckDelayExponent once, then parses for its whole life)
	if exp != "=" {
		p.SetAckDelayExponent(uint8(u64(exp)))
	}
	encLevel := lvlOf(lvl)
	errText := func(err error) string {
		if err == io.EOF {
			return "END"
		}
		var te *qerr.TransportError
		if errors.As(err, &te) {
			if te.ErrorCode != qerr.FrameEncodingError {
				return fmt.Sprintf("E:code(%d)", uint64(te.ErrorCode))
			}
			return fmt.Sprintf("E:%s ft=%d", frameErrClass(te.ErrorMessage), te.FrameType)
		}
		return "E:plain(" + strings.ReplaceAll(err.Error(), " ", "_") + ")"
	}
	frameType, l, err := p.ParseType(data, encLevel)
	if err != nil {
		return nil, 0, errText(err)
	}
	rest := data[l:]
	var f wire.Frame
	var n int
	switch {
	case frameType.IsStreamFrameType():
		var sf *wire.StreamFrame
		sf, n, err = p.ParseStreamFrame(frameType, rest, protocol.Version1)
		if err == nil {
			f = sf
		}
	case frameType.IsAckFrameType():
		var af *wire.AckFrame
		af, n, err = p.ParseAckFrame(frameType, rest, encLevel, protocol.Version1)
		if err == nil {
			// the parser owns and reuses this frame: keep a copy
			cp := *af
			cp.AckRanges = append([]wire.AckRange(nil), af.AckRanges...)
			f = &cp
		}
	case frameType.IsDatagramFrameType():
		var df *wire.DatagramFrame
		df, n, err = p.ParseDatagramFrame(frameType, rest, protocol.Version1)
		if err == nil {
			f = df
		}
	default:
		f, n, err = p.ParseLessCommonFrame(frameType, rest, protocol.Version1)
	}
	if err != nil {
		return nil, 0, errText(err)
	}
	return f, l + n, ""
}

func (rn *runner) encodeFrame(f wire.Frame) string {
	if f == nil {
		return "skip"
	}
	l := f.Length(protocol.Version1)
	b, err := f.Append(rn.dst(), protocol.Version1)
	if err != nil {
		msg := err.Error()
		switch {
		case strings.Contains(msg, "empty frame without FIN"):
			return "E:empty_stream"
		case strings.HasPrefix(msg, "invalid connection ID length"):
			return "E:cid_len"
		}
		return "E:other(" + strings.ReplaceAll(msg, " ", "_") + ")"
	}
	b = rn.out(b)
	return fmt.Sprintf("%s len=%d", hx(b), int64(l))
}

// ---------------------------------------------------------------- transport parameters <-> text

func fmtCIDPtr(c *protocol.ConnectionID) string {
	if c == nil {
		return "nil"
	}
	return hx(c.Bytes())
}

func fmtAddrPort(a netip.AddrPort, n int) string {
	if !a.IsValid() {
		return "-"
	}
	var ip []byte
	if n == 4 {
		x := a.Addr().As4()
		ip = x[:]
	} else {
		x := a.Addr().As16()
		ip = x[:]
	}
	return fmt.Sprintf("%s:%d", hex.EncodeToString(ip), a.Port())
}

func fmtTP(p *wire.TransportParameters) string {
	dg := "-"
	if p.MaxDatagramFrameSize != protocol.InvalidByteCount {
		dg = fmt.Sprint(uint64(p.MaxDatagramFrameSize))
	}
	minad := "-"
	if p.MinAckDelay != nil {
		minad = fmt.Sprint(uint64(*p.MinAckDelay))
	}
	srt := "nil"
	if p.StatelessResetToken != nil {
		srt = hx(p.StatelessResetToken[:])
	}
	pa := "nil"
	if p.PreferredAddress != nil {
		a := p.PreferredAddress
		pa = fmt.Sprintf("%s,%s,%s,%s", fmtAddrPort(a.IPv4, 4), fmtAddrPort(a.IPv6, 16), hx(a.ConnectionID.Bytes()), hx(a.StatelessResetToken[:]))
	}
	return fmt.Sprintf("bl=%d br=%d un=%d md=%d sb=%d su=%d idle=%d udp=%d mad=%d ade=%d dam=%s acl=%d dg=%s rsa=%s minad=%s odcid=%s iscid=%s rscid=%s srt=%s pa=%s",
		uint64(p.InitialMaxStreamDataBidiLocal), uint64(p.InitialMaxStreamDataBidiRemote), uint64(p.InitialMaxStreamDataUni), uint64(p.InitialMaxData),
		uint64(p.MaxBidiStreamNum), uint64(p.MaxUniStreamNum), uint64(p.MaxIdleTimeout), uint64(p.MaxUDPPayloadSize), uint64(p.MaxAckDelay), p.AckDelayExponent,
		b01(p.DisableActiveMigration), p.ActiveConnectionIDLimit, dg, b01(p.EnableResetStreamAt), minad,
		hx(p.OriginalDestinationConnectionID.Bytes()), hx(p.InitialSourceConnectionID.Bytes()), fmtCIDPtr(p.RetrySourceConnectionID), srt, pa)
}

func cidOf(s string) protocol.ConnectionID {
	b := unhx(s)
	if len(b) > 20 {
		b = b[:20]
	}
	return protocol.ParseConnectionID(b)
}

func addrPortOf(s string, n int) netip.AddrPort {
	if s == "-" || s == "" {
		return netip.AddrPort{}
	}
	i := strings.IndexByte(s, ':')
	if i < 0 {
		return netip.AddrPort{}
	}
	ip := unhx(s[:i])
	port := uint16(u64(s[i+1:]))
	if n == 4 {
		var a [4]byte
		copy(a[:], ip)
		return netip.AddrPortFrom(netip.AddrFrom4(a), port)
	}
	var a [16]byte
	copy(a[:], ip)
	return netip.AddrPortFrom(netip.AddrFrom16(a), port)
}

func tpOf(ws []string) *wire.TransportParameters {
	n := func(k string) uint64 { return u64(kv(ws, k)) }
	p := &wire.TransportParameters{
		InitialMaxStreamDataBidiLocal:  protocol.ByteCount(n("bl=")),
		InitialMaxStreamDataBidiRemote: protocol.ByteCount(n("br=")),
		InitialMaxStreamDataUni:        protocol.ByteCount(n("un=")),
		InitialMaxData:                 protocol.ByteCount(n("md=")),
		MaxBidiStreamNum:               protocol.StreamNum(n("sb=")),
		MaxUniStreamNum:                protocol.StreamNum(n("su=")),
		MaxIdleTimeout:                 time.Duration(n("idle=")),
		MaxUDPPayloadSize:              protocol.ByteCount(n("udp=")),
		MaxAckDelay:                    time.Duration(n("mad=")),
		AckDelayExponent:               uint8(n("ade=")),
		DisableActiveMigration:         kv(ws, "dam=") == "1",
		ActiveConnectionIDLimit:        n("acl="),
		MaxDatagramFrameSize:           protocol.InvalidByteCount,
		EnableResetStreamAt:            kv(ws, "rsa=") == "1",
		OriginalDestinationConnectionID: cidOf(kv(ws, "odcid=")),
		InitialSourceConnectionID:       cidOf(kv(ws, "iscid=")),
	}
	if s := kv(ws, "dg="); s != "-" {
		p.MaxDatagramFrameSize = protocol.ByteCount(u64(s))
	}
	if s := kv(ws, "minad="); s != "-" {
		d := time.Duration(u64(s))
		p.MinAckDelay = &d
	}
	if s := kv(ws, "rscid="); s != "nil" {
		c := cidOf(s)
		p.RetrySourceConnectionID = &c
	}
	if s := kv(ws, "srt="); s != "nil" {
		var t protocol.StatelessResetToken
		copy(t[:], unhx(s))
		p.StatelessResetToken = &t
	}
	if s := kv(ws, "pa="); s != "nil" && s != "" {
		parts := strings.Split(s, ",")
		if len(parts) == 4 {
			pa := &wire.PreferredAddress{IPv4: addrPortOf(parts[0], 4), IPv6: addrPortOf(parts[1], 16), ConnectionID: cidOf(parts[2])}
			copy(pa.StatelessResetToken[:], unhx(parts[3]))
			p.PreferredAddress = pa
		}
	}
	return p
}

// ---------------------------------------------------------------- Exec

func (rn *runner) push(ops ...string) { rn.pending = append(ops, rn.pending...) }

func vlist(vs []protocol.Version) string {
	if len(vs) == 0 {
		return "-"
	}
	ss := make([]string, len(vs))
	for i, v := range vs {
		ss[i] = fmt.Sprint(uint32(v))
	}
	return strings.Join(ss, ",")
}

func (rn *runner) Exec(op string) string {
	gen := rn.fromGen
	rn.fromGen = false
	ws := strings.Fields(op)
	if len(ws) == 0 {
		return "skip"
	}
	arg := func(i int) string {
		if i < len(ws) {
			return ws[i]
		}
		return ""
	}
	switch ws[0] {
	case "at", "dirty", "vnc":
		return rn.execMem(ws, gen)
	case "vparse":
		v, n, err := quicvarint.Parse(rn.in(arg(1)))
		if err != nil {
			if err == io.EOF {
				return "E:eof"
			}
			if err == io.ErrUnexpectedEOF {
				return "E:ueof"
			}
			return "E:other"
		}
		return fmt.Sprintf("ok v=%d n=%d", v, n)
	case "vread":
		b := unhx(arg(1))
		r := bytes.NewReader(b)
		v, err := quicvarint.Read(r)
		if err != nil {
			if err == io.EOF {
				return fmt.Sprintf("E:eof n=%d", len(b)-r.Len())
			}
			return "E:other"
		}
		return fmt.Sprintf("ok v=%d n=%d", v, len(b)-r.Len())
	case "venc":
		v := u64(arg(1))
		l := quicvarint.Len(v)
		b := rn.out(quicvarint.Append(rn.dst(), v))
		if gen {
			rn.push("vparse " + hx(b))
		}
		return fmt.Sprintf("%s len=%d", hx(b), l)
	case "vencl":
		b := rn.out(quicvarint.AppendWithLen(rn.dst(), u64(arg(1)), int(u64(arg(2)))))
		if gen {
			rn.push("vparse " + hx(b))
		}
		return hx(b)
	case "vsweep1":
		var sb strings.Builder
		for i := 0; i < 256; i++ {
			if i > 0 {
				sb.WriteByte(';')
			}
			v, n, err := quicvarint.Parse([]byte{byte(i)})
			switch {
			case err == io.EOF:
				sb.WriteByte('e')
			case err == io.ErrUnexpectedEOF:
				sb.WriteByte('u')
			case err != nil:
				sb.WriteByte('x')
			default:
				fmt.Fprintf(&sb, "%d/%d", v, n)
			}
		}
		return sb.String()
	case "vsweep2":
		hi := byte(u64(arg(1)))
		var sb strings.Builder
		for i := 0; i < 256; i++ {
			if i > 0 {
				sb.WriteByte(';')
			}
			v, n, err := quicvarint.Parse([]byte{hi, byte(i)})
			switch {
			case err == io.EOF:
				sb.WriteByte('e')
			case err == io.ErrUnexpectedEOF:
				sb.WriteByte('u')
			case err != nil:
				sb.WriteByte('x')
			default:
				// encoder side of the same value: minimal length and bytes
				fmt.Fprintf(&sb, "%d/%d/%s/%d", v, n, hx(quicvarint.Append(nil, v)), quicvarint.Len(v))
			}
		}
		return sb.String()
	case "enc":
		f := frameOf(ws[1:])
		res := rn.encodeFrame(f)
		if gen && !strings.HasPrefix(res, "E:") && res != "skip" {
			h := strings.Fields(res)[0]
			rn.push("dec A 111 3 " + h)
		}
		return res
	case "setexp":
		rn.parser(arg(1)).SetAckDelayExponent(uint8(u64(arg(2))))
		return "ok"
	case "dec":
		data := rn.in(arg(4))
		f, n, e := rn.decodeOne(arg(1), arg(2), arg(3), data)
		if e != "" {
			rn.last = nil
			return e
		}
		rn.last = f
		rn.lastCtx = strings.Join(ws[1:4], " ")
		if gen {
			var fu []string
			fu = append(fu, "reenc")
			if n < len(data) {
				fu = append(fu, "dec "+rn.lastCtx+" "+hx(data[:n]))
			}
			rn.push(fu...)
		}
		return rn.keep(func() string { return fmt.Sprintf("ok %s n=%d", fmtFrame(f), n) })
	case "reenc":
		if rn.last == nil {
			return "skip"
		}
		res := rn.encodeFrame(rn.last)
		if !strings.HasPrefix(res, "E:") {
			rn.push("dec " + rn.lastCtx + " " + strings.Fields(res)[0])
		}
		return res
	case "sweep":
		tail := unhx(arg(4))
		var sb strings.Builder
		for t := 0; t < 256; t++ {
			if t > 0 {
				sb.WriteByte(';')
			}
			data := append([]byte{byte(t)}, tail...)
			sb.WriteString(func() (s string) {
				defer func() {
					if recover() != nil {
						s = "PANIC"
					}
				}()
				f, n, e := rn.decodeOne(arg(1), arg(2), arg(3), data)
				if e != "" {
					return strings.ReplaceAll(e, " ", ",")
				}
				return fmt.Sprintf("ok:%s:%d", kindOf(f), n)
			}())
		}
		return sb.String()
	case "fuzz":
		data := unhx(arg(2))
		switch arg(1) {
		case "f":
			fuzzframes.Fuzz(data)
		case "h":
			fuzzheader.Fuzz(data)
		case "t":
			fuzztp.Fuzz(data)
		case "k":
			fuzztokens.Fuzz(data)
		}
		return "ok"
	case "lhdr":
		data := rn.in(arg(1))
		hdr, pkt, rest, err := wire.ParsePacket(data)
		if err != nil {
			if errors.Is(err, wire.ErrUnsupportedVersion) && hdr != nil {
				return fmt.Sprintf("unsup v=%d d=%s s=%s pl=%d", uint32(hdr.Version), hx(hdr.DestConnectionID.Bytes()), hx(hdr.SrcConnectionID.Bytes()), int64(hdr.ParsedLen()))
			}
			return "E:" + hdrErrClass(err)
		}
		ext := "-"
		if hdr.Type != protocol.PacketTypeRetry && hdr.Version != 0 {
			eh, err := hdr.ParseExtended(data)
			switch {
			case err == nil:
				ext = fmt.Sprintf("%d/%d/%d/ok", int64(eh.PacketNumber), eh.PacketNumberLen, int64(eh.ParsedLen()))
			case errors.Is(err, wire.ErrInvalidReservedBits) && eh != nil:
				ext = fmt.Sprintf("%d/%d/%d/bad", int64(eh.PacketNumber), eh.PacketNumberLen, int64(eh.ParsedLen()))
			default:
				ext = "E:" + hdrErrClass(err)
			}
		}
		npkt, nrest := len(pkt), len(rest)
		render := func() string {
			return fmt.Sprintf("ok t=%d v=%d d=%s s=%s len=%d tok=%s pl=%d pkt=%d rest=%d ext=%s", hdr.Type, uint32(hdr.Version),
				hx(hdr.DestConnectionID.Bytes()), hx(hdr.SrcConnectionID.Bytes()), int64(hdr.Length), hx(hdr.Token), int64(hdr.ParsedLen()), npkt, nrest, ext)
		}
		if hdr.Type == protocol.PacketTypeRetry {
			// the client keeps a Retry token for every later Initial packet (packer.SetToken), long after the
			// receive buffer is gone; an Initial token is validated by the server while it still holds the buffer
			return rn.keep(render)
		}
		return render()
	case "shdr":
		n, pn, pnl, kp, err := wire.ParseShortHeader(rn.in(arg(2)), int(u64(arg(1))))
		if err != nil && !errors.Is(err, wire.ErrInvalidReservedBits) {
			return "E:" + hdrErrClass(err)
		}
		res := "ok"
		if err != nil {
			res = "bad"
		}
		return fmt.Sprintf("ok n=%d pn=%d pnl=%d kp=%d res=%s", n, int64(pn), pnl, kp, res)
	case "cid":
		c, err := wire.ParseConnectionID(rn.in(arg(2)), int(u64(arg(1))))
		if err != nil {
			return "E:" + hdrErrClass(err)
		}
		return rn.keep(func() string { return "ok " + hx(c.Bytes()) })
	case "acid":
		n, d, s, err := wire.ParseArbitraryLenConnectionIDs(rn.in(arg(1)))
		if err != nil {
			return "E:" + hdrErrClass(err)
		}
		return fmt.Sprintf("ok n=%d d=%s s=%s", n, hx(d), hx(s))
	case "vn":
		d, s, vs, err := wire.ParseVersionNegotiationPacket(rn.in(arg(1)))
		if err != nil {
			return "E:" + hdrErrClass(err)
		}
		return fmt.Sprintf("ok d=%s s=%s v=%s", hx(d), hx(s), vlist(vs))
	case "pred":
		data := rn.in(arg(1))
		long, quic := "-", "-"
		if len(data) > 0 {
			long, quic = b01(wire.IsLongHeaderPacket(data[0])), b01(wire.IsPotentialQUICPacket(data[0]))
		}
		ver := "E:eof"
		if v, err := wire.ParseVersion(data); err == nil {
			ver = fmt.Sprint(uint32(v))
		}
		return fmt.Sprintf("long=%s quic=%s vn=%s 0rtt=%s ver=%s", long, quic, b01(wire.IsVersionNegotiationPacket(data)), b01(wire.Is0RTTPacket(data)), ver)
	case "enclhdr":
		n := func(k string) uint64 { return u64(kv(ws, k)) }
		h := &wire.ExtendedHeader{
			Header: wire.Header{Type: protocol.PacketType(n("t=")), Version: protocol.Version(n("v=")), DestConnectionID: cidOf(kv(ws, "d=")),
				SrcConnectionID: cidOf(kv(ws, "s=")), Length: protocol.ByteCount(n("len=")), Token: unhx(kv(ws, "tok="))},
			PacketNumber: protocol.PacketNumber(n("pn=")), PacketNumberLen: protocol.PacketNumberLen(n("pnl=")),
		}
		gl := h.GetLength(h.Version)
		b, err := h.Append(rn.dst(), h.Version)
		if err != nil {
			return "E:" + hdrErrClass(err)
		}
		b = rn.out(b)
		if gen && h.Type != protocol.PacketTypeRetry && h.Length <= 3000 && int(h.Length) >= int(h.PacketNumberLen) {
			pad := make([]byte, int(h.Length)-int(h.PacketNumberLen))
			rn.push("lhdr " + hx(append(append([]byte{}, b...), pad...)))
		} else if gen {
			rn.push("lhdr " + hx(b))
		}
		return fmt.Sprintf("%s len=%d", hx(b), int64(gl))
	case "encshdr":
		n := func(k string) uint64 { return u64(kv(ws, k)) }
		d := cidOf(kv(ws, "d="))
		b, err := wire.AppendShortHeader(rn.dst(), d, protocol.PacketNumber(n("pn=")), protocol.PacketNumberLen(n("pnl=")), protocol.KeyPhaseBit(n("kp=")))
		if err != nil {
			return "E:" + hdrErrClass(err)
		}
		b = rn.out(b)
		if gen {
			rn.push(fmt.Sprintf("shdr %d %s", d.Len(), hx(b)))
		}
		return fmt.Sprintf("%s len=%d", hx(b), int64(wire.ShortHeaderLen(d, protocol.PacketNumberLen(n("pnl=")))))
	case "encvn":
		var vs []protocol.Version
		if s := kv(ws, "v="); s != "-" && s != "" {
			for _, x := range strings.Split(s, ",") {
				vs = append(vs, protocol.Version(u64(x)))
			}
		}
		b := wire.ComposeVersionNegotiation(protocol.ArbitraryLenConnectionID(unhx(kv(ws, "d="))), protocol.ArbitraryLenConnectionID(unhx(kv(ws, "s="))), vs)
		if gen {
			rn.push("vn " + hx(b))
		}
		return hx(b)
	case "tpdec":
		pers := protocol.PerspectiveClient
		if arg(1) == "s" {
			pers = protocol.PerspectiveServer
		}
		p := &wire.TransportParameters{}
		if err := p.Unmarshal(rn.in(arg(2)), pers); err != nil {
			var te *qerr.TransportError
			if errors.As(err, &te) && te.ErrorCode == qerr.TransportParameterError {
				return "E:" + tpErrClass(te.ErrorMessage)
			}
			return "E:plain"
		}
		_ = p.String()
		return rn.keep(func() string { return "ok " + fmtTP(p) })
	case "tpenc":
		pers := protocol.PerspectiveClient
		if arg(1) == "s" {
			pers = protocol.PerspectiveServer
		}
		b := tpOf(ws[2:]).Marshal(pers)
		if gen {
			rn.push("tpdec " + arg(1) + " " + hx(b))
		}
		return hx(b)
	case "tpst":
		b := rn.out(tpOf(ws[1:]).MarshalForSessionTicket(rn.dst()))
		if gen {
			rn.push("tpstdec " + hx(b))
		}
		return hx(b)
	case "tpstdec":
		p := &wire.TransportParameters{}
		if err := p.UnmarshalFromSessionTicket(rn.in(arg(1))); err != nil {
			return "E:" + tpErrClass(err.Error())
		}
		return rn.keep(func() string { return "ok " + fmtTP(p) })
	case "stk": // (*sessionTicket).Marshal: the revision, then the parameters appended behind it
		b := handshake.VerifC08TicketMarshal(tpOf(ws[1:]))
		if gen {
			rn.push("stkdec " + hx(b))
		}
		return hx(b)
	case "stkdec":
		p, err := handshake.VerifC08TicketUnmarshal(rn.in(arg(1)))
		if err != nil {
			msg := err.Error()
			const tpPrefix = "unmarshaling transport parameters from session ticket failed: "
			switch {
			case msg == "failed to read session ticket revision":
				return "E:revread"
			case strings.HasPrefix(msg, "unknown session ticket revision: "):
				return "E:rev(" + strings.TrimPrefix(msg, "unknown session ticket revision: ") + ")"
			case strings.HasPrefix(msg, tpPrefix):
				return "E:tp:" + tpErrClass(strings.TrimPrefix(msg, tpPrefix))
			}
			return "E:other(" + strings.ReplaceAll(msg, " ", "_") + ")"
		}
		return rn.keep(func() string { return "ok " + fmtTP(p) })
	case "stkx": // stkx <own|-> <entry,entry,…>: entries are hex; `+hex` is tagged by addSessionStateExtraPrefix first
		var extras [][]byte
		if arg(1) != "-" && arg(1) != "" {
			for _, e := range strings.Split(arg(1), ",") {
				if strings.HasPrefix(e, "+") {
					extras = append(extras, handshake.VerifC08AddExtraPrefix(unhx(e[1:])))
				} else {
					extras = append(extras, unhx(e))
				}
			}
		}
		var all []string
		for _, e := range extras {
			all = append(all, hx(e))
		}
		r := handshake.VerifC08FindExtra(extras)
		if r == nil {
			return "nil entries=" + strings.Join(all, ",")
		}
		return "ok " + hx(r) + " entries=" + strings.Join(all, ",")
	case "smax":
		f := &wire.StreamFrame{StreamID: protocol.StreamID(u64(kv(ws, "sid="))), Offset: protocol.ByteCount(u64(kv(ws, "off="))), DataLenPresent: kv(ws, "len=") == "1"}
		return fmt.Sprint(int64(f.MaxDataLen(protocol.ByteCount(u64(arg(1))), protocol.Version1)))
	case "cmax":
		f := &wire.CryptoFrame{Offset: protocol.ByteCount(u64(kv(ws, "off=")))}
		return fmt.Sprint(int64(f.MaxDataLen(protocol.ByteCount(u64(arg(1))))))
	case "dmax":
		f := &wire.DatagramFrame{DataLenPresent: kv(ws, "len=") == "1"}
		return fmt.Sprint(int64(f.MaxDataLen(protocol.ByteCount(u64(arg(1))), protocol.Version1)))
	case "ssplit":
		f, ok := frameOf(ws[2:]).(*wire.StreamFrame)
		if !ok {
			return "skip"
		}
		nf, split := f.MaybeSplitOffFrame(protocol.ByteCount(u64(arg(1))), protocol.Version1)
		switch {
		case !split:
			return "nosplit"
		case nf == nil:
			return "nil"
		}
		return fmtFrame(nf) + " | " + fmtFrame(f)
	case "csplit":
		f, ok := frameOf(ws[2:]).(*wire.CryptoFrame)
		if !ok {
			return "skip"
		}
		nf, split := f.MaybeSplitOffFrame(protocol.ByteCount(u64(arg(1))), protocol.Version1)
		switch {
		case !split:
			return "nosplit"
		case nf == nil:
			return "nil"
		}
		return fmtFrame(nf) + " | " + fmtFrame(f)
	case "tpb":
		// tpb <pers> <prefixhex> <id> <valuehex> <followhex>: every declared-length variant of one parameter
		pre, id, v, fol := unhx(arg(2)), u64(arg(3)), unhx(arg(4)), unhx(arg(5))
		var out []string
		one := func(declared uint64, val []byte) {
			body := append([]byte{}, pre...)
			body = putVarint(body, id, vlen(id))
			body = putVarint(body, declared, vlen(declared))
			body = append(body, val...)
			out = append(out, rn.summ("tpdec", []string{arg(1)}, body), rn.summ("tpdec", []string{arg(1)}, append(append([]byte{}, body...), fol...)))
		}
		for l := 0; l <= len(v)+2; l++ { // the value cut (or padded) to every length, declared consistently
			val := append([]byte{}, v...)
			for len(val) < l {
				val = append(val, 0x5a)
			}
			one(uint64(l), val[:l])
		}
		for _, d := range []int{-2, -1, 1, 2} { // the declared length off by d, value unchanged
			if len(v)+d >= 0 {
				one(uint64(len(v)+d), v)
			}
		}
		return strings.Join(out, ";")
	case "cut":
		// cut <kind> <args…> <hex>: the parser on every prefix of the input
		if len(ws) < 3 {
			return "skip"
		}
		data := unhx(ws[len(ws)-1])
		var out []string
		for k := 0; k <= len(data); k++ {
			out = append(out, rn.summ(ws[1], ws[2:len(ws)-1], data[:k]))
		}
		return strings.Join(out, ";")
	case "lenb":
		// lenb <kind> <args…> <prehex> <v> <width> <posthex> <followhex>: a length field set to v-2 … v+2
		if len(ws) < 7 {
			return "skip"
		}
		n := len(ws)
		pre, v, width, post, fol := unhx(ws[n-5]), u64(ws[n-4]), int(u64(ws[n-3])), unhx(ws[n-2]), unhx(ws[n-1])
		var out []string
		for d := -2; d <= 2; d++ {
			if int64(v)+int64(d) < 0 {
				continue
			}
			nv := uint64(int64(v) + int64(d))
			b := append([]byte{}, pre...)
			if width == 0 {
				if nv > 255 {
					continue
				}
				b = append(b, byte(nv))
			} else {
				if nv > 1<<62-1 {
					continue
				}
				w := width
				if vlen(nv) > w {
					w = vlen(nv)
				}
				b = putVarint(b, nv, w)
			}
			b = append(b, post...)
			out = append(out, rn.summ(ws[1], ws[2:n-5], b), rn.summ(ws[1], ws[2:n-5], append(append([]byte{}, b...), fol...)))
		}
		return strings.Join(out, ";")
	case "tokrt":
		return execTokenRoundTrip(ws)
	case "tokdec":
		var key handshake.TokenProtectorKey
		copy(key[:], unhx(arg(1)))
		tg := handshake.NewTokenGenerator(key)
		tok, err := tg.DecodeToken(rn.in(arg(2)))
		if err != nil {
			if strings.HasPrefix(err.Error(), "token too short") {
				return "E:short"
			}
			if strings.Contains(err.Error(), "message authentication failed") {
				return "E:auth"
			}
			return "E:other(" + strings.ReplaceAll(err.Error(), " ", "_") + ")"
		}
		if tok == nil {
			return "nil"
		}
		return "ok"
	}
	return "skip"
}

// summ runs one parser on data and returns a one-word summary (panics trapped per entry).
func (rn *runner) summ(kind string, args []string, data []byte) (res string) {
	defer func() {
		if recover() != nil {
			res = "PANIC"
		}
	}()
	switch kind {
	case "dec":
		if len(args) < 3 {
			return "skip"
		}
		f, n, e := rn.decodeOne(args[0], args[1], args[2], data)
		if e != "" {
			return strings.ReplaceAll(e, " ", ",")
		}
		return fmt.Sprintf("ok:%s:%d", kindOf(f), n)
	case "tpdec", "tpstdec", "lhdr", "shdr", "cid", "acid", "vn":
		r := rn.Exec(kind + " " + strings.Join(append(append([]string{}, args...), hx(data)), " "))
		if (kind == "tpdec" || kind == "tpstdec") && strings.HasPrefix(r, "ok") {
			return "ok"
		}
		return strings.ReplaceAll(r, " ", ",")
	}
	return "skip"
}

// tokrt <keyhex> retry|new <addrkind u|t> <iphex> <port> <odcid> <rscid> <rtt_us>
func execTokenRoundTrip(ws []string) string {
	if len(ws) < 9 {
		return "skip"
	}
	var key handshake.TokenProtectorKey
	copy(key[:], unhx(ws[1]))
	tg := handshake.NewTokenGenerator(key)
	ip := net.IP(unhx(ws[4]))
	var addr net.Addr
	if ws[3] == "u" {
		addr = &net.UDPAddr{IP: ip, Port: int(u64(ws[5]))}
	} else {
		addr = &net.TCPAddr{IP: ip, Port: int(u64(ws[5]))}
	}
	odcid, rscid := cidOf(ws[6]), cidOf(ws[7])
	rtt := time.Duration(u64(ws[8])) * time.Microsecond
	before := time.Now()
	var enc []byte
	var err error
	if ws[2] == "retry" {
		enc, err = tg.NewRetryToken(addr, odcid, rscid)
	} else {
		enc, err = tg.NewToken(addr, rtt)
	}
	if err != nil {
		return "E:new"
	}
	tok, err := tg.DecodeToken(enc)
	if err != nil || tok == nil {
		return "E:decode"
	}
	after := time.Now()
	timeOK := !tok.SentTime.Before(before.Add(-time.Millisecond)) && !tok.SentTime.After(after.Add(time.Millisecond))
	// a flipped byte anywhere must be rejected (AEAD), a truncated token too
	tamperOK := true
	for _, i := range []int{0, 31, 32, len(enc) - 1} {
		c := append([]byte{}, enc...)
		c[i] ^= 0x01
		if t2, err := tg.DecodeToken(c); err == nil && t2 != nil {
			tamperOK = false
		}
	}
	if t2, err := tg.DecodeToken(enc[:len(enc)-1]); err == nil && t2 != nil {
		tamperOK = false
	}
	// a different address must not validate
	other := &net.UDPAddr{IP: append(net.IP{}, ip...), Port: int(u64(ws[5]))}
	if len(other.IP) > 0 {
		other.IP[len(other.IP)-1] ^= 1
	} else {
		other.IP = net.IP{1}
	}
	return fmt.Sprintf("ok retry=%s addr=%s other=%s odcid=%s rscid=%s rtt=%d time=%s tamper=%s n=%d", b01(tok.IsRetryToken), b01(tok.ValidateRemoteAddr(addr)),
		b01(tok.ValidateRemoteAddr(other)), hx(tok.OriginalDestConnectionID.Bytes()), hx(tok.RetrySrcConnectionID.Bytes()), int64(tok.RTT), b01(timeOK), b01(tamperOK), len(enc))
}
