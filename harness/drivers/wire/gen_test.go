//go:build verif

package wire

import (
	"fmt"
	"strings"

	"github.com/refraction-networking/uquic/internal/verifharness/vh"
)

// ---------------------------------------------------------------- value generators

var boundary = []uint64{0, 1, 2, 62, 63, 64, 65, 255, 256, 16382, 16383, 16384, 16385, 1<<30 - 1, 1 << 30, 1<<30 + 1,
	1<<32 - 1, 1 << 32, 1<<60 - 1, 1 << 60, 1<<60 + 1, 1<<62 - 2, 1<<62 - 1}

var tooBig = []uint64{1 << 62, 1<<62 + 1, 1<<63 - 1, 1 << 63, 1<<64 - 1}

// val returns a varint-range value, biased to width boundaries.
func val(r *vh.Rand) uint64 {
	switch r.Pick(40, 15, 15, 15, 15) {
	case 0:
		return boundary[r.Intn(len(boundary))]
	case 1:
		return r.U64() & 63
	case 2:
		return r.U64() & 16383
	case 3:
		return r.U64() & (1<<30 - 1)
	}
	return r.U64() & (1<<62 - 1)
}

// encVal is val plus, rarely, a value the encoders must refuse (panic).
func encVal(r *vh.Rand) uint64 {
	if r.Chance(3) {
		return tooBig[r.Intn(len(tooBig))]
	}
	return val(r)
}

// upTo returns a value in [0, m].
func upTo(r *vh.Rand, m uint64) uint64 {
	if m == 1<<64-1 {
		return r.U64()
	}
	return r.U64() % (m + 1)
}

func small(r *vh.Rand) uint64 {
	if r.Chance(70) {
		return uint64(r.Intn(100))
	}
	return val(r)
}

func dataLen(r *vh.Rand) int {
	switch r.Pick(50, 20, 12, 10, 8) {
	case 0:
		return r.Intn(20)
	case 1:
		return 0
	case 2:
		return 60 + r.Intn(10) // 63/64 boundary of the length varint
	case 3:
		return 126 + r.Intn(4) // MinStreamFrameBufferSize boundary
	}
	return []int{1451, 1452, 1453, 1500, 300}[r.Intn(5)]
}

// minimal varint width
func vlen(v uint64) int {
	switch {
	case v <= 63:
		return 1
	case v <= 16383:
		return 2
	case v <= 1<<30-1:
		return 4
	}
	return 8
}

// putVarint writes v with the given width (1,2,4,8); independent of quicvarint.
func putVarint(b []byte, v uint64, width int) []byte {
	switch width {
	case 1:
		return append(b, byte(v&0x3f))
	case 2:
		return append(b, 0x40|byte(v>>8)&0x3f, byte(v))
	case 4:
		return append(b, 0x80|byte(v>>24)&0x3f, byte(v>>16), byte(v>>8), byte(v))
	}
	return append(b, 0xc0|byte(v>>56)&0x3f, byte(v>>48), byte(v>>40), byte(v>>32), byte(v>>24), byte(v>>16), byte(v>>8), byte(v))
}

// vi writes a varint, usually minimal, sometimes with a wider encoding.
func vi(r *vh.Rand, b []byte, v uint64) []byte {
	w := vlen(v)
	if r.Chance(15) {
		for _, c := range []int{2, 4, 8} {
			if c > w && r.Bool() {
				w = c
				break
			}
		}
	}
	return putVarint(b, v, w)
}

func ctxOf(r *vh.Rand) string {
	lvl := []string{"I", "H", "Z", "A"}[r.Pick(10, 10, 15, 65)]
	flags := "111"
	if r.Chance(35) {
		flags = fmt.Sprintf("%d%d%d", r.Intn(2), r.Intn(2), r.Intn(2))
	}
	exp := 3
	switch r.Pick(60, 30, 10) {
	case 1:
		exp = r.Intn(21)
	case 2:
		exp = []int{0, 20, 21, 43, 63, 64, 255}[r.Intn(7)]
	}
	if r.Chance(35) {
		// no SetAckDelayExponent before this parse: the case's parser of that flag set keeps its exponent
		return fmt.Sprintf("%s %s =", lvl, flags)
	}
	return fmt.Sprintf("%s %s %d", lvl, flags, exp)
}

func expOf(r *vh.Rand) int {
	switch r.Pick(25, 60, 15) {
	case 1:
		return r.Intn(21)
	case 2:
		return []int{0, 20, 21, 43, 63, 64, 255}[r.Intn(7)]
	}
	return 3
}

// ackBytes is a small valid ACK / ACK_ECN frame with a non-zero ACK Delay.
func ackBytes(r *vh.Rand) []byte {
	ecn := r.Chance(30)
	b := []byte{0x02}
	if ecn {
		b[0] = 0x03
	}
	largest := 2 + small(r)%1000
	b = putVarint(b, largest, vlen(largest))
	delay := 1 + small(r)%5000
	b = putVarint(b, delay, vlen(delay))
	if largest >= 6 && r.Bool() {
		b = append(b, 1, 1, 0, 1) // two ranges
	} else {
		b = append(b, 0, byte(r.Intn(2)))
	}
	if ecn {
		b = append(b, byte(r.Intn(64)), byte(r.Intn(64)), byte(r.Intn(64)))
	}
	return b
}

// parserLife is what one connection does with its FrameParser: the peer's ack_delay_exponent is stored
// once, then frames of all packet number spaces (late Initial / Handshake ACKs between 1-RTT ACKs, other
// frames, rejected frames) go through the same object without the exponent being set again.
func parserLife(r *vh.Rand) []string {
	flags := "111"
	if r.Chance(35) {
		flags = fmt.Sprintf("%d%d%d", r.Intn(2), r.Intn(2), r.Intn(2))
	}
	ops := []string{fmt.Sprintf("setexp %s %d", flags, expOf(r))}
	for k := 3 + r.Intn(6); k > 0; k-- {
		lvl := []string{"I", "H", "Z", "A"}[r.Pick(20, 20, 5, 55)]
		var b []byte
		switch r.Pick(70, 15, 15) {
		case 0:
			b = ackBytes(r)
		case 1:
			b = ackBytes(r)
			b = b[:r.Intn(len(b))] // an ACK that fails to parse
		default:
			b, _ = frameBytes(r)
		}
		ops = append(ops, fmt.Sprintf("dec %s %s = %s", lvl, flags, hx(b)))
		if r.Chance(8) { // a second set of transport parameters is never applied, but the setter is public
			ops = append(ops, fmt.Sprintf("setexp %s %d", flags, expOf(r)))
		}
	}
	return ops
}

// ---------------------------------------------------------------- byte-level frames

type fieldPos struct{ off, n int }

// frameBytes builds a (mostly) valid frame at the byte level. It returns the bytes and
// the positions of the varint fields (for mutations).
func frameBytes(r *vh.Rand) ([]byte, []fieldPos) {
	var b []byte
	var fields []fieldPos
	v := func(x uint64) {
		o := len(b)
		b = vi(r, b, x)
		fields = append(fields, fieldPos{o, len(b) - o})
	}
	raw := func(n int) { b = append(b, r.Bytes(n)...) }
	// leading PADDING
	if r.Chance(10) {
		for k := r.Intn(4); k >= 0; k-- {
			if r.Chance(15) {
				b = append(b, 0x40, 0x00) // PADDING as a 2-byte varint
			} else {
				b = append(b, 0)
			}
		}
	}
	types := []uint64{0x01, 0x02, 0x03, 0x04, 0x05, 0x06, 0x07, 0x08, 0x09, 0x0a, 0x0b, 0x0c, 0x0d, 0x0e, 0x0f, 0x10, 0x11, 0x12, 0x13,
		0x14, 0x15, 0x16, 0x17, 0x18, 0x19, 0x1a, 0x1b, 0x1c, 0x1d, 0x1e, 0x1f, 0x24, 0x30, 0x31, 0xaf, 0x02, 0x03, 0x08, 0x0e, 0x06, 0x18, 0x1c}
	t := types[r.Intn(len(types))]
	if r.Chance(4) {
		b = putVarint(b, t, []int{2, 4, 8}[r.Intn(3)]) // non-minimal frame type
	} else {
		b = putVarint(b, t, vlen(t))
	}
	switch {
	case t == 0x01 || t == 0x1e || t == 0x1f:
	case t == 0x02 || t == 0x03:
		largest := val(r)
		v(largest)
		if r.Chance(12) {
			v([]uint64{1152921504606846, 1152921504606847, 1152921504606976, 1<<62 - 1, 1 << 61, 1<<53 + 7, 2305843009213693, 2305843009213694}[r.Intn(8)])
		} else {
			v(small(r))
		}
		nblk := 0
		switch r.Pick(45, 35, 12, 8) {
		case 1:
			nblk = 1 + r.Intn(3)
		case 2:
			nblk = 4 + r.Intn(8)
		case 3:
			nblk = 62 + r.Intn(6)
		}
		declared := uint64(nblk)
		if r.Chance(5) {
			declared = uint64(nblk) + 1 + uint64(r.Intn(3)) // more blocks declared than present
		}
		v(declared)
		first := uint64(0)
		if largest > 0 {
			first = r.U64() % (min(largest, 40) + 1)
			if r.Chance(10) {
				first = largest
			}
		}
		if r.Chance(4) {
			first = largest + 1 + uint64(r.Intn(3))
		}
		v(first)
		smallest := largest - first
		for k := 0; k < nblk; k++ {
			var gap, blk uint64
			if smallest >= 2 && !r.Chance(3) {
				gap = r.U64() % (min(smallest-2, 20) + 1)
				lg := smallest - gap - 2
				blk = r.U64() % (min(lg, 20) + 1)
				smallest = lg - blk
			} else {
				gap, blk = small(r), small(r) // invalid: runs below zero
				smallest = 0
			}
			v(gap)
			v(blk)
		}
		if t == 0x03 {
			if r.Chance(15) {
				v(0)
				v(0)
				v(0)
			} else {
				v(small(r))
				v(small(r))
				v(val(r))
			}
		}
	case t == 0x04 || t == 0x24:
		v(val(r))
		v(val(r))
		fs := val(r)
		v(fs)
		if t == 0x24 {
			switch r.Pick(50, 20, 20, 10) {
			case 0:
				v(upTo(r, fs))
			case 1:
				v(fs)
			case 2:
				v(fs + 1)
			default:
				v(0)
			}
		}
	case t == 0x05:
		v(val(r))
		v(val(r))
	case t == 0x06:
		v(val(r))
		n := dataLen(r)
		v(lenField(r, n))
		raw(n)
	case t == 0x07:
		n := dataLen(r)
		v(lenField(r, n))
		raw(n)
	case t >= 0x08 && t <= 0x0f:
		v(val(r))
		n := dataLen(r)
		if t&4 != 0 {
			switch r.Pick(70, 10, 10, 10) {
			case 0:
				v(val(r))
			case 1:
				v(0)
			case 2:
				v(1<<62 - 1 - uint64(n))
			default:
				v(1<<62 - uint64(n))
			}
		}
		if t&2 != 0 {
			v(lenField(r, n))
		}
		raw(n)
	case t == 0x10 || t == 0x14 || t == 0x19:
		v(val(r))
	case t == 0x11 || t == 0x15:
		v(val(r))
		v(val(r))
	case t == 0x12 || t == 0x13 || t == 0x16 || t == 0x17:
		if r.Chance(40) {
			v([]uint64{1<<60 - 1, 1 << 60, 1<<60 + 1, 1<<62 - 1, 1 << 61}[r.Intn(5)])
		} else {
			v(val(r))
		}
	case t == 0x18:
		seq := val(r)
		v(seq)
		switch r.Pick(60, 20, 20) {
		case 0:
			v(upTo(r, seq))
		case 1:
			v(seq)
		default:
			v(seq + 1)
		}
		cl := 1 + r.Intn(20)
		switch r.Pick(80, 7, 7, 6) {
		case 1:
			cl = 0
		case 2:
			cl = 21
		case 3:
			cl = 20
		}
		fields = append(fields, fieldPos{len(b), 0}) // raw length byte
		b = append(b, byte(cl))
		raw(cl)
		raw(16)
	case t == 0x1a || t == 0x1b:
		raw(8)
	case t == 0x1c || t == 0x1d:
		v(val(r))
		if t == 0x1c {
			v(val(r))
		}
		n := dataLen(r)
		v(lenField(r, n))
		raw(n)
	case t == 0x30:
		raw(dataLen(r))
	case t == 0x31:
		n := dataLen(r)
		v(lenField(r, n))
		raw(n)
	case t == 0xaf:
		v(val(r))
		v(val(r))
		if r.Chance(30) {
			v([]uint64{9223372036854775, 9223372036854776, 18446744073709551, 18446744073709552, 1<<62 - 1}[r.Intn(5)])
		} else {
			v(val(r))
		}
		v(val(r))
	}
	return b, fields
}

// lenField is the declared length for n data bytes: exact, or (rarely) off.
func lenField(r *vh.Rand, n int) uint64 {
	switch r.Pick(90, 4, 3, 3) {
	case 1:
		return uint64(n) + 1
	case 2:
		return uint64(n) + uint64(r.Intn(1000))
	case 3:
		return 1<<62 - 1
	}
	return uint64(n)
}

// ---------------------------------------------------------------- structured frames (enc)

func rhex(r *vh.Rand, n int) string { return hx(r.Bytes(n)) }

func ackRangesText(r *vh.Rand) string {
	n := 1
	switch r.Pick(40, 40, 12, 8) {
	case 1:
		n = 2 + r.Intn(4)
	case 2:
		n = 6 + r.Intn(20)
	case 3:
		n = 62 + r.Intn(8)
	}
	if r.Chance(2) {
		return "-"
	}
	top := val(r)
	if top < uint64(4*n+8) {
		top += uint64(4*n + 8)
	}
	if top > 1<<62-1 {
		top = 1<<62 - 1
	}
	var parts []string
	largest := top
	for k := 0; k < n; k++ {
		span := uint64(r.Intn(3))
		if k == 0 && r.Chance(20) {
			span = min(largest, uint64(r.Intn(100)))
		}
		if span > largest {
			span = largest
		}
		smallest := largest - span
		if r.Chance(2) { // invalid range or ordering
			smallest, largest = largest+1, smallest
		}
		parts = append(parts, fmt.Sprintf("%d-%d", smallest, largest))
		gap := uint64(2 + r.Intn(3))
		if smallest < gap {
			break
		}
		largest = smallest - gap
	}
	return strings.Join(parts, ";")
}

func frameText(r *vh.Rand) string {
	st := func() string { return []string{"bidi", "uni"}[r.Intn(2)] }
	switch r.Intn(23) {
	case 0:
		return "ping"
	case 1, 22:
		d := uint64(r.Intn(1<<20)) * 8000
		switch r.Pick(60, 20, 10, 10) {
		case 1:
			d = r.U64() & (1<<40 - 1)
		case 2:
			d = []uint64{1<<63 - 1, (1<<63 - 1) / 8000 * 8000, 7999, 8000, 1<<62 - 1}[r.Intn(5)]
		case 3:
			d = val(r) / 8000 * 8000
		}
		e := "0,0,0"
		if r.Chance(40) {
			e = fmt.Sprintf("%d,%d,%d", encVal(r), small(r), small(r))
		}
		return fmt.Sprintf("ack d=%d e=%s r=%s", d, e, ackRangesText(r))
	case 2:
		fs := encVal(r)
		rs := uint64(0)
		switch r.Pick(50, 30, 10, 10) {
		case 1:
			rs = upTo(r, fs)
		case 2:
			rs = fs
		case 3:
			rs = encVal(r)
		}
		return fmt.Sprintf("rst sid=%d ec=%d fs=%d rs=%d", encVal(r), encVal(r), fs, rs)
	case 3:
		return fmt.Sprintf("stop sid=%d ec=%d", encVal(r), encVal(r))
	case 4:
		return fmt.Sprintf("crypto off=%d data=%s", encVal(r), rhex(r, dataLen(r)))
	case 5:
		return fmt.Sprintf("newtoken tok=%s", rhex(r, dataLen(r)))
	case 6, 7, 8:
		n := dataLen(r)
		off := encVal(r)
		if r.Chance(25) {
			off = 0
		}
		return fmt.Sprintf("stream sid=%d off=%d fin=%d len=%d data=%s", encVal(r), off, r.Intn(2), r.Intn(2), rhex(r, n))
	case 9:
		return fmt.Sprintf("maxdata v=%d", encVal(r))
	case 10:
		return fmt.Sprintf("maxsd sid=%d v=%d", encVal(r), encVal(r))
	case 11:
		return fmt.Sprintf("maxstreams t=%s v=%d", st(), encVal(r))
	case 12:
		return fmt.Sprintf("blocked v=%d", encVal(r))
	case 13:
		return fmt.Sprintf("sdblocked sid=%d v=%d", encVal(r), encVal(r))
	case 14:
		return fmt.Sprintf("sblocked t=%s v=%d", st(), encVal(r))
	case 15:
		seq := encVal(r)
		rpt := upTo(r, seq)
		if r.Chance(10) {
			rpt = encVal(r)
		}
		cl := 1 + r.Intn(20)
		if r.Chance(8) {
			cl = 0
		}
		return fmt.Sprintf("ncid seq=%d rpt=%d cid=%s srt=%s", seq, rpt, rhex(r, cl), rhex(r, 16))
	case 16:
		return fmt.Sprintf("rcid seq=%d", encVal(r))
	case 17:
		return fmt.Sprintf("pchal d=%s", rhex(r, 8))
	case 18:
		return fmt.Sprintf("presp d=%s", rhex(r, 8))
	case 19:
		return fmt.Sprintf("close app=%d ec=%d ft=%d reason=%s", r.Intn(2), encVal(r), encVal(r), rhex(r, dataLen(r)))
	case 20:
		if r.Bool() {
			return "hsdone"
		}
		if r.Bool() {
			return "immack"
		}
		mad := val(r) / 1000 * 1000
		if r.Chance(30) {
			mad = r.U64() & (1<<62 - 1)
		}
		return fmt.Sprintf("ackfreq seq=%d aet=%d mad=%d rt=%d", encVal(r), encVal(r), mad, encVal(r))
	default:
		return fmt.Sprintf("dgram len=%d data=%s", r.Intn(2), rhex(r, dataLen(r)))
	}
}

// ---------------------------------------------------------------- headers

func cidLen(r *vh.Rand) int {
	switch r.Pick(60, 15, 15, 10) {
	case 1:
		return 0
	case 2:
		return 20
	case 3:
		return 8
	}
	return r.Intn(21)
}

func versionOf(r *vh.Rand) uint64 {
	switch r.Pick(50, 30, 5, 15) {
	case 1:
		return 0x6b3343cf
	case 2:
		return 0
	case 3:
		return []uint64{0xff00001d, 2, 0x0a0a0a0a, 0xffffffff, 0x6b3343ce}[r.Intn(5)]
	}
	return 1
}

// longHeaderBytes builds a long-header packet at the byte level.
func longHeaderBytes(r *vh.Rand) []byte {
	b, _ := longHeaderFields(r)
	return b
}

// longHeaderFields also returns the positions of the length fields (connection ID length bytes
// as raw fields with n = 0, token length and Length as varints).
func longHeaderFields(r *vh.Rand) ([]byte, []fieldPos) {
	var fields []fieldPos
	ver := versionOf(r)
	first := byte(0xc0 | r.Intn(64))
	if r.Chance(5) {
		first &^= 0x40
	}
	if r.Chance(50) {
		first &^= 0x0c // valid reserved bits
	}
	b := []byte{first, byte(ver >> 24), byte(ver >> 16), byte(ver >> 8), byte(ver)}
	dl, sl := cidLen(r), cidLen(r)
	if r.Chance(4) {
		dl = 21 + r.Intn(235)
	}
	if r.Chance(4) {
		sl = 21 + r.Intn(235)
	}
	fields = append(fields, fieldPos{len(b), 0})
	b = append(b, byte(dl))
	b = append(b, r.Bytes(dl)...)
	fields = append(fields, fieldPos{len(b), 0})
	b = append(b, byte(sl))
	b = append(b, r.Bytes(sl)...)
	if ver == 0 {
		for k := r.Intn(4); k > 0; k-- {
			b = append(b, r.Bytes(4)...)
		}
		if r.Chance(10) {
			b = append(b, r.Bytes(1+r.Intn(3))...)
		}
		return b, fields
	}
	bits := int(first>>4) & 3
	typ := bits // v1: 0 initial 1 0rtt 2 hs 3 retry
	if ver == 0x6b3343cf {
		typ = []int{3, 0, 1, 2}[bits]
	}
	switch typ {
	case 3: // retry: token + 16 byte tag
		b = append(b, r.Bytes([]int{0, 1, 15, 16, 17, 30}[r.Intn(6)])...)
		return b, fields
	case 0:
		n := []int{0, 0, 5, 63, 64, 70}[r.Intn(6)]
		o := len(b)
		b = vi(r, b, lenField(r, n))
		fields = append(fields, fieldPos{o, len(b) - o})
		b = append(b, r.Bytes(n)...)
	}
	payload := r.Intn(30)
	if r.Chance(10) {
		payload = []int{0, 1, 2, 3, 4, 16383, 16384}[r.Intn(7)]
	}
	declared := uint64(payload)
	switch r.Pick(85, 5, 5, 5) {
	case 1:
		declared++
	case 2:
		declared = val(r)
	case 3:
		if declared > 0 {
			declared--
		}
	}
	o := len(b)
	b = vi(r, b, declared)
	fields = append(fields, fieldPos{o, len(b) - o})
	if payload > 64 {
		payload = 64 // keep lines short: long declared lengths are exercised as short_packet
	}
	b = append(b, r.Bytes(payload)...)
	if r.Chance(20) {
		b = append(b, r.Bytes(r.Intn(10))...) // coalesced rest
	}
	return b, fields
}

func shortHeaderBytes(r *vh.Rand, cl int) []byte {
	first := byte(0x40 | r.Intn(64))
	if r.Chance(60) {
		first &^= 0x18
	}
	if r.Chance(4) {
		first &^= 0x40
	}
	if r.Chance(4) {
		first |= 0x80
	}
	b := []byte{first}
	b = append(b, r.Bytes(cl)...)
	b = append(b, r.Bytes(r.Intn(7))...)
	return b
}

// ---------------------------------------------------------------- transport parameters

type tpParam struct {
	id  uint64
	val []byte
}

func tpNumeric(r *vh.Rand, id uint64) uint64 {
	switch id {
	case 0x08, 0x09:
		return []uint64{0, 100, 1<<60 - 1, 1 << 60, 1<<60 + 1, 1<<62 - 1}[r.Pick(20, 40, 10, 15, 10, 5)]
	case 0x03:
		return []uint64{1199, 1200, 1201, 1452, 65527, 0, 1<<62 - 1}[r.Intn(7)]
	case 0x0a:
		return []uint64{0, 3, 19, 20, 21, 255, 1 << 30}[r.Intn(7)]
	case 0x0b:
		return []uint64{0, 1, 25, 26, 16382, 16383, 16384, 1 << 40}[r.Intn(8)]
	case 0x0e:
		return []uint64{0, 1, 2, 3, 4, 8, 1<<62 - 1}[r.Intn(7)]
	case 0x01:
		return []uint64{0, 1, 4999, 5000, 5001, 30000, 9223372036854, 9223372036855, 18446744073709, 18446744073710, 1<<62 - 1}[r.Intn(11)]
	case 0xff04de1b:
		return []uint64{0, 1, 1000, 24999, 25000, 25001, 9223372036854775, 9223372036854776, 1<<62 - 1}[r.Intn(9)]
	}
	return val(r)
}

var numericIDs = []uint64{0x01, 0x03, 0x04, 0x05, 0x06, 0x07, 0x08, 0x09, 0x0a, 0x0b, 0x0e, 0x20, 0xff04de1b}

func tpBytes(r *vh.Rand, server bool) []byte {
	var ps []tpParam
	add := func(id uint64, v []byte) { ps = append(ps, tpParam{id, v}) }
	num := func(id uint64) {
		v := tpNumeric(r, id)
		add(id, vi(r, nil, v))
	}
	// mandatory ones (mostly present)
	if !r.Chance(6) {
		add(0x0f, r.Bytes(cidLen(r)))
	}
	if server && !r.Chance(6) {
		add(0x00, r.Bytes(cidLen(r)))
	}
	for _, id := range numericIDs {
		if r.Chance(45) {
			num(id)
		}
	}
	if r.Chance(20) {
		add(0x0c, nil)
	}
	if r.Chance(15) {
		add(0x17f7586d2cb571, nil)
	}
	if r.Chance(server2p(server, 30, 6)) {
		add(0x02, r.Bytes(16))
	}
	if r.Chance(server2p(server, 25, 5)) {
		add(0x10, r.Bytes(cidLen(r)))
	}
	if r.Chance(server2p(server, 25, 5)) {
		cl := 1 + r.Intn(20)
		if r.Chance(10) {
			cl = []int{0, 21}[r.Intn(2)]
		}
		var v []byte
		if r.Chance(30) {
			v = make([]byte, 6)
		} else {
			v = r.Bytes(6)
		}
		if r.Chance(30) {
			v = append(v, make([]byte, 18)...)
		} else {
			v = append(v, r.Bytes(18)...)
		}
		v = append(v, byte(cl))
		v = append(v, r.Bytes(cl)...)
		v = append(v, r.Bytes(16)...)
		if r.Chance(8) {
			v = v[:len(v)-1-r.Intn(3)]
		}
		if r.Chance(5) {
			v = append(v, 0)
		}
		add(0x0d, v)
	}
	if r.Chance(30) { // unknown / greased
		add(27+31*uint64(r.Intn(100)), r.Bytes(r.Intn(10)))
	}
	// faults
	switch r.Pick(64, 8, 6, 6, 5, 5, 6) {
	case 6: // an uninterpreted (unknown / greased) id twice
		id := []uint64{27 + 31*uint64(r.Intn(100)), 0x21 + uint64(r.Intn(1000)), 1<<62 - 1 - uint64(r.Intn(3))}[r.Intn(3)]
		add(id, r.Bytes(r.Intn(6)))
		add(id, r.Bytes(r.Intn(6)))
	case 1: // duplicate
		if len(ps) > 0 {
			ps = append(ps, ps[r.Intn(len(ps))])
		}
	case 2: // wrong length for a fixed-size parameter
		add([]uint64{0x0c, 0x02, 0x17f7586d2cb571}[r.Intn(3)], r.Bytes(1+r.Intn(17)))
	case 3: // connection ID too long
		add([]uint64{0x00, 0x0f, 0x10}[r.Intn(3)], r.Bytes(21+r.Intn(3)))
	case 4: // numeric with trailing garbage (inconsistent length)
		id := numericIDs[r.Intn(len(numericIDs))]
		add(id, append(vi(r, nil, tpNumeric(r, id)), r.Bytes(1+r.Intn(2))...))
	case 5: // empty numeric
		add(numericIDs[r.Intn(len(numericIDs))], nil)
	}
	// shuffle
	for i := len(ps) - 1; i > 0; i-- {
		j := r.Intn(i + 1)
		ps[i], ps[j] = ps[j], ps[i]
	}
	var b []byte
	for _, p := range ps {
		b = vi(r, b, p.id)
		l := uint64(len(p.val))
		if r.Chance(2) {
			l += 1 + uint64(r.Intn(50))
		}
		b = vi(r, b, l)
		b = append(b, p.val...)
	}
	return b
}

func server2p(server bool, a, b int) int {
	if server {
		return a
	}
	return b
}

func tpText(r *vh.Rand) string {
	dur := func(unit uint64, choices ...uint64) uint64 { return choices[r.Intn(len(choices))] * unit }
	opt := func(p int, s string, none string) string {
		if r.Chance(p) {
			return s
		}
		return none
	}
	pa := "nil"
	if r.Chance(35) {
		v4, v6 := "-", "-"
		if r.Chance(70) {
			v4 = fmt.Sprintf("%s:%d", hexNZ(r, 4), 1+r.Intn(65535))
		}
		if r.Chance(70) {
			v6 = fmt.Sprintf("%s:%d", hexNZ(r, 16), 1+r.Intn(65535))
		}
		pa = fmt.Sprintf("%s,%s,%s,%s", v4, v6, rhex(r, 1+r.Intn(20)), rhex(r, 16))
	}
	acl := []uint64{2, 2, 3, 4, 8, 0, 1, 1<<62 - 1}[r.Intn(8)]
	return fmt.Sprintf("bl=%d br=%d un=%d md=%d sb=%d su=%d idle=%d udp=%d mad=%d ade=%d dam=%d acl=%d dg=%s rsa=%d minad=%s odcid=%s iscid=%s rscid=%s srt=%s pa=%s",
		encVal(r), val(r), val(r), val(r), []uint64{0, 100, 1 << 60, 1<<60 + 1}[r.Pick(20, 50, 20, 10)], val(r)&(1<<60-1),
		dur(1000000, 0, 5000, 30000, 4999, 1, 123456789), []uint64{0, 1200, 1452, 65527, 1199, 1<<62 - 1}[r.Intn(6)],
		dur(1000000, 25, 25, 0, 1, 26, 16383, 16384), []uint64{3, 3, 0, 20, 21, 255}[r.Intn(6)], r.Intn(2), acl,
		opt(50, fmt.Sprint(val(r)), "-"), r.Intn(2), opt(30, fmt.Sprint(dur(1000, 0, 1, 1000, 25000, 25001)), "-"),
		rhex(r, cidLen(r)), rhex(r, cidLen(r)), opt(40, rhex(r, cidLen(r)), "nil"), opt(40, rhex(r, 16), "nil"), pa)
}

func hexNZ(r *vh.Rand, n int) string {
	b := r.Bytes(n)
	b[0] |= 1
	return hx(b)
}

// ---------------------------------------------------------------- declared-length boundaries

// getVarint decodes the varint stored in b (any width).
func getVarint(b []byte) uint64 {
	if len(b) == 0 {
		return 0
	}
	v := uint64(b[0] & 0x3f)
	for _, x := range b[1:] {
		v = v<<8 | uint64(x)
	}
	return v
}

// lenbOp sets the length field f of b to v-2 … v+2 (op `lenb`), as the last element and followed by fol.
func lenbOp(kind string, b []byte, f fieldPos, fol []byte) string {
	if f.n == 0 {
		return fmt.Sprintf("lenb %s %s %d 0 %s %s", kind, hx(b[:f.off]), b[f.off], hx(b[f.off+1:]), hx(fol))
	}
	return fmt.Sprintf("lenb %s %s %d %d %s %s", kind, hx(b[:f.off]), getVarint(b[f.off:f.off+f.n]), f.n, hx(b[f.off+f.n:]), hx(fol))
}

func tpEnc(id uint64, v []byte) []byte {
	b := putVarint(nil, id, vlen(id))
	b = putVarint(b, uint64(len(v)), vlen(uint64(len(v))))
	return append(b, v...)
}

// tpbOp: every declared-length variant of parameter (id, v) after the mandatory parameters.
func tpbOp(pers string, id uint64, v []byte, iscidFirst bool) string {
	var pre, fol []byte
	iscid := tpEnc(0x0f, []byte{0xde, 0xca, 0xfb, 0xad})
	if pers == "s" && id != 0x00 {
		pre = append(pre, tpEnc(0x00, []byte{0xde, 0xad, 0xbe, 0xef})...)
	}
	if id == 0x0f {
		fol = tpEnc(0x04, []byte{0x40, 0x64})
	} else if iscidFirst {
		pre = append(pre, iscid...)
		fol = tpEnc(0x04, []byte{0x40, 0x64})
	} else {
		fol = iscid // the mandatory parameter only arrives in the "followed" variant
	}
	return fmt.Sprintf("tpb %s %s %d %s %s", pers, hx(pre), id, hx(v), hx(fol))
}

func paValue(v4, v6 []byte, cid []byte, tok []byte) []byte {
	b := append([]byte{}, v4...)
	b = append(b, v6...)
	b = append(b, byte(len(cid)))
	b = append(b, cid...)
	return append(b, tok...)
}

func seq(n int, start byte) []byte {
	b := make([]byte, n)
	for i := range b {
		b[i] = start + byte(i)
	}
	return b
}

// detOps are emitted as the first op of cases 16, 17, … in every tier: for every structured
// transport parameter, frame and header with internal length structure, ALL declared-length
// variants (value cut or padded to every length with a consistent length field; length field off by
// -2 … +2), as the last element and followed by another one, from both perspectives.
var detOps = func() []string {
	var ops []string
	pa := paValue([]byte{127, 0, 0, 1, 0, 42}, append(seq(16, 1), 13, 37), []byte{0xde, 0xad, 0xbe, 0xef}, seq(16, 0x10))
	pa20 := paValue(make([]byte, 6), make([]byte, 18), seq(20, 0x30), seq(16, 0x50))
	pa1 := paValue([]byte{10, 0, 0, 1, 1, 187}, make([]byte, 18), []byte{7}, seq(16, 0x70))
	for _, pers := range []string{"s", "c"} {
		for _, first := range []bool{true, false} {
			for _, v := range [][]byte{pa, pa20, pa1} {
				ops = append(ops, tpbOp(pers, 0x0d, v, first))
			}
			ops = append(ops, tpbOp(pers, 0x02, seq(16, 0xa0), first)) // stateless_reset_token
			for _, id := range []uint64{0x00, 0x0f, 0x10} {         // connection IDs: empty, 4, 20 bytes (21, 22 via padding)
				for _, n := range []int{0, 4, 20} {
					ops = append(ops, tpbOp(pers, id, seq(n, 0xc0), first))
				}
			}
			for _, id := range numericIDs { // numeric: 1-, 2-, 4-, 8-byte values
				for _, val := range []uint64{5, 1452, 1 << 20, 1 << 40} {
					ops = append(ops, tpbOp(pers, id, putVarint(nil, val, vlen(val)), first))
				}
			}
			ops = append(ops, tpbOp(pers, 0x0c, nil, first), tpbOp(pers, 0x17f7586d2cb571, nil, first), tpbOp(pers, 27+31*5, seq(5, 1), first))
		}
		// a complete parameter block, parsed at every prefix
		full := tpEnc(0x0f, seq(8, 1))
		if pers == "s" {
			full = append(full, tpEnc(0x00, seq(8, 9))...)
			full = append(full, tpEnc(0x02, seq(16, 0x20))...)
			full = append(full, tpEnc(0x10, seq(5, 0x40))...)
			full = append(full, tpEnc(0x0d, pa)...)
		}
		for _, id := range numericIDs {
			full = append(full, tpEnc(id, putVarint(nil, 2000, 2))...)
		}
		ops = append(ops, "cut tpdec "+pers+" "+hx(full))
	}
	ops = append(ops, "cut tpstdec "+hx(append([]byte{1}, tpEnc(0x04, []byte{0x40, 0x64})...)))

	// frames with internal length structure
	ctxs := []string{"A 111 3", "I 111 3", "Z 000 3"}
	type fr struct {
		b      []byte
		fields []fieldPos
	}
	mk := func(parts ...any) fr { // []byte = raw, uint64 = varint field, int = raw length byte
		var f fr
		for _, p := range parts {
			switch x := p.(type) {
			case []byte:
				f.b = append(f.b, x...)
			case uint64:
				o := len(f.b)
				f.b = putVarint(f.b, x, vlen(x))
				f.fields = append(f.fields, fieldPos{o, len(f.b) - o})
			case int:
				f.fields = append(f.fields, fieldPos{len(f.b), 0})
				f.b = append(f.b, byte(x))
			}
		}
		return f
	}
	frames := []fr{
		mk([]byte{0x18}, uint64(9), uint64(3), 4, seq(4, 1), seq(16, 0x10)),                 // NEW_CONNECTION_ID
		mk([]byte{0x18}, uint64(70), uint64(70), 20, seq(20, 1), seq(16, 0x10)),             // … 20-byte CID
		mk([]byte{0x18}, uint64(1), uint64(0), 1, seq(1, 1), seq(16, 0x10)),                 // … 1-byte CID
		mk([]byte{0x1c}, uint64(10), uint64(6), uint64(5), seq(5, 0x61)),                    // CONNECTION_CLOSE + reason
		mk([]byte{0x1c}, uint64(10), uint64(6), uint64(0)),                                  // … empty reason
		mk([]byte{0x1d}, uint64(77), uint64(64), seq(64, 0x20)),                             // application close, 2-byte length
		mk([]byte{0x07}, uint64(6), seq(6, 0x30)),                                           // NEW_TOKEN
		mk([]byte{0x07}, uint64(1), seq(1, 0x30)),                                           // … one byte
		mk([]byte{0x06}, uint64(1000), uint64(7), seq(7, 0x40)),                             // CRYPTO
		mk([]byte{0x0e}, uint64(4), uint64(100), uint64(3), seq(3, 0x50)),                   // STREAM off+len
		mk([]byte{0x0b}, uint64(4), uint64(0), seq(0, 0)),                                   // STREAM len=0 fin
		mk([]byte{0x31}, uint64(4), seq(4, 0x60)),                                           // DATAGRAM with length
		mk([]byte{0x03}, uint64(100), uint64(1), uint64(2), uint64(3), uint64(1), uint64(2), uint64(0), uint64(1), uint64(7), uint64(8), uint64(9)), // ACK_ECN, 2 blocks
		mk([]byte{0x24}, uint64(4), uint64(1), uint64(50), uint64(50)),                      // RESET_STREAM_AT
		mk([]byte{0x12}, uint64(1<<60)),                                                     // MAX_STREAMS at the limit
	}
	ping := []byte{0x01}
	for _, f := range frames {
		for _, c := range ctxs[:2] {
			ops = append(ops, "cut dec "+c+" "+hx(f.b))
		}
		for _, fp := range f.fields {
			ops = append(ops, lenbOp("dec "+ctxs[0], f.b, fp, ping))
		}
	}

	// long headers: Initial (v1, v2) with token, Handshake, 0-RTT, Retry, version negotiation, unknown version
	hdr := func(first byte, ver uint32, dcid, scid []byte, rest ...any) fr {
		parts := []any{[]byte{first, byte(ver >> 24), byte(ver >> 16), byte(ver >> 8), byte(ver)}, len(dcid), dcid, len(scid), scid}
		return mk(append(parts, rest...)...)
	}
	hdrs := []fr{
		hdr(0xc1, 1, seq(8, 1), seq(4, 9), uint64(5), seq(5, 0x70), uint64(6), seq(6, 0x80)),  // Initial v1, token, pn 2 bytes
		hdr(0xd0, 0x6b3343cf, seq(20, 1), seq(0, 0), uint64(0), uint64(3), seq(3, 0x80)),     // Initial v2, 20-byte DCID
		hdr(0xe3, 1, seq(4, 1), seq(20, 9), uint64(8), seq(8, 0x80)),                         // Handshake
		hdr(0xd2, 1, seq(0, 1), seq(8, 9), uint64(20), seq(20, 0x80)),                        // 0-RTT
		hdr(0xf0, 1, seq(8, 1), seq(8, 9), seq(6, 0x90), seq(16, 0xa0)),                      // Retry: token + tag
		hdr(0xc0, 0, seq(8, 1), seq(8, 9), seq(8, 0xb0)),                                     // version negotiation
		hdr(0xc0, 0xff00001d, seq(8, 1), seq(8, 9), seq(4, 0xb0)),                            // unsupported version
	}
	for _, h := range hdrs {
		ops = append(ops, "cut lhdr "+hx(h.b), "cut cid 8 "+hx(h.b), "cut acid "+hx(h.b), "cut vn "+hx(h.b))
		for _, fp := range h.fields {
			ops = append(ops, lenbOp("lhdr", h.b, fp, seq(3, 0xe0)), lenbOp("acid", h.b, fp, seq(3, 0xe0)), lenbOp("vn", h.b, fp, seq(4, 0xe0)))
		}
	}
	// one parser, several frames: ACK_ECN with counts, then plain ACK (same and other level / flags), then ACK_ECN again
	for _, fl := range []string{"111", "000"} {
		ops = append(ops, strings.Join([]string{
			"dec A " + fl + " 3 030a01000005060700",
			"dec A " + fl + " 3 020a010000",
			"dec I " + fl + " 3 020a010000",
			"dec A " + fl + " 3 0314020100020109",
			"dec A " + fl + " 3 02140201000201",
			"dec A " + fl + " 3 020a010000",
			"dec A " + fl + " 3 030a01000005060700",
			"dec H " + fl + " 3 0608021122",
			"dec A " + fl + " 3 020a010000",
		}, " ;; "))
	}
	// one parser per connection: the exponent is stored once, then ACKs of all packet number spaces (and a
	// truncated one) pass through the same object; 1-RTT ACKs must keep the stored exponent
	for _, fl := range []string{"111", "000"} {
		var dd []string
		for _, e := range []int{5, 0, 20, 1, 3, 255} {
			dd = append(dd,
				fmt.Sprintf("setexp %s %d", fl, e),
				"dec A "+fl+" = 020a080000",
				"dec H "+fl+" = 020a080000",
				"dec A "+fl+" = 020a080000",
				"dec I "+fl+" = 030a08000005060700",
				"dec A "+fl+" = 030a08000005060700",
				"dec H "+fl+" = 020a08",
				"dec A "+fl+" = 020a080000",
				"dec Z "+fl+" = 0608021122",
				"dec A "+fl+" = 02144001010001",
			)
		}
		ops = append(ops, strings.Join(dd, " ;; "))
	}
	// an id the implementation does not interpret, twice (adjacent, separated, equal or different values), both
	// perspectives and session tickets; also every known id twice
	for _, pers := range []string{"c", "s"} {
		base := tpEnc(0x0f, seq(4, 1))
		if pers == "s" {
			base = append(base, tpEnc(0x00, seq(4, 9))...)
		}
		var dd []string
		for _, id := range []uint64{0x42, 27, 27 + 31*7, 0x21, 0x3fff, 0x17f7586d2cb570, 1<<62 - 1} {
			u1, u2 := tpEnc(id, seq(3, 1)), tpEnc(id, seq(2, 7))
			mid := tpEnc(0x04, []byte{0x40, 0x64})
			for _, b := range [][]byte{
				append(append(append([]byte{}, base...), u1...), u1...),
				append(append(append([]byte{}, base...), u1...), u2...),
				append(append(append(append([]byte{}, u1...), base...), mid...), u2...),
				append(append(append([]byte{}, u1...), u2...), base...),
				append(append([]byte{}, base...), u1...), // once: accepted
			} {
				dd = append(dd, "tpdec "+pers+" "+hx(b))
			}
		}
		for _, id := range append([]uint64{0x0c, 0x0f, 0x17f7586d2cb571}, numericIDs...) {
			v := []byte{0x40, 0x64}
			if id == 0x0c || id == 0x17f7586d2cb571 {
				v = nil
			} else if id == 0x0f {
				v = seq(4, 1)
			}
			dd = append(dd, "tpdec "+pers+" "+hx(append(append(append([]byte{}, base...), tpEnc(id, v)...), tpEnc(id, v)...)))
		}
		ops = append(ops, strings.Join(dd, " ;; "))
	}
	{
		var dd []string
		for _, id := range []uint64{0x42, 27, 0x04, 0x0e} {
			v := []byte{0x40, 0x64}
			one := append([]byte{1}, tpEnc(id, v)...)
			dd = append(dd, "tpstdec "+hx(append(append([]byte{}, one...), tpEnc(id, v)...)), "tpstdec "+hx(one))
		}
		ops = append(ops, strings.Join(dd, " ;; "))
	}
	for _, cl := range []int{0, 8, 20} {
		sh := append([]byte{0x43}, seq(cl+4, 1)...)
		ops = append(ops, fmt.Sprintf("cut shdr %d %s", cl, hx(sh)), fmt.Sprintf("cut cid %d %s", cl, hx(sh)))
	}
	ops = append(ops, memDetOps()...)
	return ops
}()

// memDetOps: deterministic memory-ownership scenarios (mem_test.go). One versions slice with spare capacity
// serves eight Version Negotiation packets; large STREAM frames of every flag combination are parsed into
// pooled objects that were used before; encoders append behind existing content with and without spare
// capacity; parsers read windows of a larger buffer that is overwritten afterwards.
func memDetOps() []string {
	var ops []string
	rep := func(op string, n int) string {
		l := make([]string, n)
		for i := range l {
			l[i] = op
		}
		return strings.Join(l, " ;; ")
	}
	for _, via := range []string{"c", "g"} {
		ops = append(ops,
			rep("vnc via="+via+" d=0102030405060708 s=090a0b0c v=1798521807,1 voff=0 vslk=6 boff=0 bslk=0", 8),
			rep("vnc via="+via+" d=- s=a1a2a3a4a5a6a7a8a9aaabacadaeafb0b1b2b3b4b5 v=10,18,29 voff=1 vslk=3 boff=2 bslk=3", 8),
			rep("vnc via="+via+" d=0102 s=03 v=1 voff=0 vslk=1 boff=0 bslk=0", 6)+" ;; "+rep("vnc via="+via+" d=0102 s=03 v=1,1798521807,4278190109 voff=2 vslk=0 boff=0 bslk=1", 3))
	}
	// STREAM frames with >= MinStreamFrameBufferSize data bytes, every type-bit combination
	var dd []string
	for bits := 0; bits < 8; bits++ {
		for _, n := range []int{128, 131, 1200} {
			b := []byte{byte(0x08 | bits)}
			b = putVarint(b, uint64(4*bits+1), 1)
			if bits&4 != 0 {
				b = putVarint(b, 70000, 4)
			}
			if bits&2 != 0 {
				b = putVarint(b, uint64(n), 2)
			}
			b = append(b, seq(n, byte(bits))...)
			dd = append(dd, "dirty dec A 111 3 "+hx(b))
		}
	}
	ops = append(ops, strings.Join(dd[:12], " ;; "), strings.Join(dd[12:], " ;; "))
	ops = append(ops, strings.Join([]string{
		"dirty ssplit 40 stream sid=5 off=1000 fin=1 len=1 data=" + hx(seq(100, 1)),
		"dirty ssplit 40 stream sid=5 off=1000 fin=0 len=0 data=" + hx(seq(100, 1)),
		"dirty ssplit 70 stream sid=9 off=0 fin=1 len=0 data=" + hx(seq(200, 7)),
		"dirty ssplit 200 stream sid=9 off=16383 fin=0 len=1 data=" + hx(seq(1300, 9)),
	}, " ;; "))
	stream := "stream sid=5 off=70000 fin=1 len=1 data=" + hx(seq(140, 3))
	lh := "t=1 v=1 d=0102030405060708 s=0a0b0c0d tok=f1f2f3 len=300 pn=77 pnl=2"
	var at []string
	for _, ps := range [][2]int{{0, 0}, {7, 0}, {7, 3}, {7, 400}, {33, 5000}} {
		at = append(at, fmt.Sprintf("at %d %d enc %s", ps[0], ps[1], stream), fmt.Sprintf("at %d %d enclhdr %s", ps[0], ps[1], lh),
			fmt.Sprintf("at %d %d encshdr d=0102030405060708 pn=4660 pnl=3 kp=1", ps[0], ps[1]),
			fmt.Sprintf("at %d %d enc ack d=8000 e=1,2,3 r=10-20;1-5", ps[0], ps[1]), fmt.Sprintf("at %d %d venc 16384", ps[0], ps[1]),
			fmt.Sprintf("at %d %d enc crypto off=16383 data=%s", ps[0], ps[1], hx(seq(64, 9))))
	}
	ops = append(ops, strings.Join(at, " ;; "))
	return ops
}

// ---------------------------------------------------------------- GenOp

var sweepTail = "0101010101010101010101010101010101010101010101010101010101010101"

func (rn *runner) GenOp(r *vh.Rand, i int) string {
	if len(rn.pending) > 0 {
		op := rn.pending[0]
		rn.pending = rn.pending[1:]
		rn.fromGen = false
		return op
	}
	rn.fromGen = true
	if i == 0 {
		// deterministic exhaustive sweeps at the head of the first cases
		c := rn.caseNo
		switch {
		case c >= 1 && c <= 8:
			return fmt.Sprintf("sweep %s %s 3 %s", []string{"I", "H", "Z", "A"}[(c-1)%4], []string{"111", "000"}[(c-1)/4], sweepTail)
		case c == 9:
			return "vsweep1"
		case c >= 10 && c <= 15:
			return fmt.Sprintf("vsweep2 %d", []int{0x40, 0x7f, 0x3f, 0x80, 0x55, 0xc0}[c-10])
		case c >= 16 && c < 16+len(detOps):
			seq := strings.Split(detOps[c-16], " ;; ")
			if len(seq) > 1 {
				rn.push(seq[1:]...)
				rn.fromGen = false
			}
			return seq[0]
		case rn.thorough && c >= 16+len(detOps) && c < 16+len(detOps)+256:
			return fmt.Sprintf("vsweep2 %d", c-16-len(detOps))
		}
	}
	if r.Chance(2) { // one versions slice serves a run of Version Negotiation packets
		via := []string{"c", "g"}[r.Pick(70, 30)]
		text := vncText(r)
		n := 2 + r.Intn(6)
		var seq []string
		for k := 0; k < n; k++ {
			if r.Chance(8) {
				text = vncText(r) // the application swaps in another list
			}
			seq = append(seq, "vnc via="+via+" "+text)
		}
		// the follow-up parse of each packet comes right behind it (Exec pushes it in front of the rest)
		rn.push(seq[1:]...)
		return seq[0]
	}
	if r.Chance(2) { // a large STREAM frame parsed into a used pool object
		bits := r.Intn(8)
		n := []int{128, 129, 200, 1000, 1452}[r.Intn(5)]
		b := []byte{byte(0x08 | bits)}
		b = vi(r, b, small(r))
		if bits&4 != 0 {
			b = vi(r, b, val(r)&(1<<40-1))
		}
		if bits&2 != 0 {
			b = vi(r, b, uint64(n))
			if r.Chance(20) {
				b = append(b, r.Bytes(3)...)
			}
		}
		b = append(b, r.Bytes(n)...)
		return "dirty dec " + ctxOf(r) + " " + hx(b)
	}
	op := rn.genRandom(r)
	if firstWord(op) == "ssplit" && r.Chance(25) {
		return "dirty " + op
	}
	if atKinds[firstWord(op)] && len(op) < 8000 {
		switch {
		case r.Chance(9):
			return fmt.Sprintf("at %d %d %s", []int{0, 1, 7, 33}[r.Intn(4)], []int{0, 0, 1, 3, 9, 64, 2000}[r.Intn(7)], op)
		case firstWord(op) == "dec" && r.Chance(3):
			return "dirty " + op
		}
	}
	return op
}

func (rn *runner) genRandom(r *vh.Rand) string {
	switch r.Pick(22, 26, 14, 6, 6, 12, 8, 4, 2, 4, 4) {
	case 0: // structured frame -> enc (+ dec of the output)
		return "enc " + frameText(r)
	case 1: // valid byte-level frame -> dec (+ reenc, dec, prefix re-parse)
		b, _ := frameBytes(r)
		if r.Chance(30) {
			b = append(b, r.Bytes(1+r.Intn(6))...) // following frames / garbage
		}
		return "dec " + ctxOf(r) + " " + hx(b)
	case 2: // mutated frame
		b, fields := frameBytes(r)
		ctx := ctxOf(r)
		if r.Chance(30) && len(b) <= 200 { // declared-length boundaries
			if len(fields) > 0 && r.Bool() {
				fol, _ := frameBytes(r)
				if len(fol) > 40 {
					fol = fol[:40]
				}
				return lenbOp("dec "+ctx, b, fields[r.Intn(len(fields))], fol)
			}
			return "cut dec " + ctx + " " + hx(b)
		}
		switch r.Pick(30, 30, 25, 15) {
		case 0: // truncations at every length
			if len(b) <= 48 {
				var ops []string
				for k := 0; k < len(b); k++ {
					ops = append(ops, "dec "+ctx+" "+hx(b[:k]))
				}
				rn.push(ops...)
				rn.fromGen = false
				return "dec " + ctx + " " + hx(b)
			}
			return "dec " + ctx + " " + hx(b[:r.Intn(len(b))])
		case 1: // replace one varint field by a boundary value of the same width
			if len(fields) > 0 {
				f := fields[r.Intn(len(fields))]
				if f.n == 0 {
					b[f.off] = byte(r.Intn(256))
					break
				}
				nv := val(r)
				if vlen(nv) <= f.n {
					copy(b[f.off:], putVarint(nil, nv, f.n))
				} else {
					mask := map[int]uint64{1: 63, 2: 16383, 4: 1<<30 - 1, 8: 1<<62 - 1}[f.n]
					copy(b[f.off:], putVarint(nil, mask-uint64(r.Intn(2)), f.n))
				}
			}
		case 2: // flip a byte
			if len(b) > 0 {
				b[r.Intn(len(b))] ^= byte(1 << r.Intn(8))
			}
		default: // drop or insert a byte
			if len(b) > 1 && r.Bool() {
				k := r.Intn(len(b))
				b = append(b[:k:k], b[k+1:]...)
			} else {
				k := r.Intn(len(b) + 1)
				b = append(b[:k:k], append([]byte{byte(r.U64())}, b[k:]...)...)
			}
		}
		return "dec " + ctx + " " + hx(b)
	case 3: // random bytes
		n := r.Intn(24)
		b := r.Bytes(n)
		if n > 0 && r.Chance(70) {
			b[0] = byte(r.Intn(0x32)) // a plausible type
		}
		return "dec " + ctxOf(r) + " " + hx(b)
	case 4: // the repository's fuzz entry points on frames / headers / parameters
		switch r.Intn(4) {
		case 0:
			b, _ := frameBytes(r)
			b2, _ := frameBytes(r)
			return "fuzz f " + hx(append(append([]byte{byte(r.Intn(4))}, b...), b2...))
		case 1:
			if r.Bool() {
				return "fuzz h " + hx(append([]byte{byte(r.Intn(21))}, longHeaderBytes(r)...))
			}
			cl := r.Intn(21)
			return "fuzz h " + hx(append([]byte{byte(cl)}, shortHeaderBytes(r, cl)...))
		case 2:
			sv := r.Bool()
			cfg := byte(0)
			if sv {
				cfg = 2
			}
			return "fuzz t " + hx(append([]byte{cfg}, tpBytes(r, sv)...))
		default:
			return "fuzz k " + hx(r.Bytes(33+r.Intn(60)))
		}
	case 5: // varints
		switch r.Pick(30, 25, 15, 15, 10, 5) {
		case 0:
			v := encVal(r)
			return fmt.Sprintf("venc %d", v)
		case 1:
			b := putVarint(nil, val(r), []int{1, 2, 4, 8}[r.Intn(4)])
			b = append(b, r.Bytes(r.Intn(3))...)
			return "vparse " + hx(b[:r.Intn(len(b)+1)])
		case 2:
			return "vparse " + hx(r.Bytes(r.Intn(10)))
		case 3:
			b := putVarint(nil, val(r), []int{1, 2, 4, 8}[r.Intn(4)])
			b = append(b, r.Bytes(r.Intn(3))...)
			return "vread " + hx(b[:r.Intn(len(b)+1)])
		case 4:
			return fmt.Sprintf("vencl %d %d", encVal(r), []int{1, 2, 4, 8, 2, 2, 3, 0}[r.Intn(8)])
		default:
			return fmt.Sprintf("vsweep2 %d", r.Intn(256))
		}
	case 6: // headers
		if r.Chance(20) { // declared-length boundaries and every prefix
			b, fields := longHeaderFields(r)
			if len(b) > 160 {
				b = b[:160]
			}
			kind := []string{"lhdr", "acid", "vn", fmt.Sprintf("cid %d", cidLen(r))}[r.Intn(4)]
			if r.Bool() {
				var ok []fieldPos
				for _, f := range fields {
					if f.off+f.n <= len(b) && f.off < len(b) {
						ok = append(ok, f)
					}
				}
				if len(ok) > 0 && !strings.HasPrefix(kind, "cid") {
					return lenbOp(kind, b, ok[r.Intn(len(ok))], r.Bytes(r.Intn(6)))
				}
			}
			if r.Chance(25) {
				cl := cidLen(r)
				return fmt.Sprintf("cut shdr %d %s", cl, hx(shortHeaderBytes(r, cl)))
			}
			return "cut " + kind + " " + hx(b)
		}
		switch r.Pick(30, 15, 8, 8, 8, 12, 10, 9) {
		case 0:
			b := longHeaderBytes(r)
			if r.Chance(25) {
				b = b[:r.Intn(len(b)+1)]
			}
			return "lhdr " + hx(b)
		case 1:
			cl := cidLen(r)
			b := shortHeaderBytes(r, cl)
			return fmt.Sprintf("shdr %d %s", cl, hx(b))
		case 2:
			var b []byte
			sl := cidLen(r)
			if r.Bool() {
				b = longHeaderBytes(r)
			} else {
				b = shortHeaderBytes(r, sl)
			}
			if r.Chance(30) {
				b = b[:r.Intn(len(b)+1)]
			}
			return fmt.Sprintf("cid %d %s", sl, hx(b))
		case 3:
			b := longHeaderBytes(r)
			if r.Chance(40) {
				b = b[:r.Intn(len(b)+1)]
			}
			if r.Bool() {
				return "acid " + hx(b)
			}
			return "pred " + hx(b)
		case 4:
			b := []byte{byte(0x80 | r.Intn(128)), 0, 0, 0, 0}
			dl, sl := r.Intn(30), r.Intn(30)
			if r.Chance(10) {
				dl = 255
			}
			b = append(b, byte(dl))
			b = append(b, r.Bytes(dl)...)
			b = append(b, byte(sl))
			b = append(b, r.Bytes(sl)...)
			b = append(b, r.Bytes([]int{0, 4, 8, 12, 1, 2, 3, 5, 7}[r.Pick(10, 30, 20, 10, 6, 6, 6, 6, 6)])...)
			if r.Chance(20) {
				b = b[:r.Intn(len(b)+1)]
			}
			return "vn " + hx(b)
		case 5:
			t := 1 + r.Intn(4)
			v := []uint64{1, 0x6b3343cf}[r.Intn(2)]
			tok := "-"
			if t == 1 || t == 2 {
				tok = rhex(r, []int{0, 3, 63, 64, 20}[r.Intn(5)])
			}
			ln := uint64(4 + r.Intn(1200))
			if r.Chance(10) {
				ln = []uint64{0, 1, 16383, 16384, 1 << 62}[r.Intn(5)]
			}
			pnl := 1 + r.Intn(4)
			if r.Chance(4) {
				pnl = []int{0, 5}[r.Intn(2)]
			}
			return fmt.Sprintf("enclhdr t=%d v=%d d=%s s=%s tok=%s len=%d pn=%d pnl=%d", t, v, rhex(r, cidLen(r)), rhex(r, cidLen(r)), tok, ln, r.U64()&(1<<32-1), pnl)
		case 6:
			pnl := 1 + r.Intn(4)
			if r.Chance(4) {
				pnl = []int{0, 5}[r.Intn(2)]
			}
			return fmt.Sprintf("encshdr d=%s pn=%d pnl=%d kp=%d", rhex(r, cidLen(r)), r.U64()&(1<<32-1), pnl, 1+r.Intn(2))
		default:
			var vs []string
			for k := r.Intn(4); k > 0; k-- {
				vs = append(vs, fmt.Sprint([]uint64{1, 0x6b3343cf, 0xff00001d, uint64(r.U64() & 0xffffffff)}[r.Intn(4)]))
			}
			v := "-"
			if len(vs) > 0 {
				v = strings.Join(vs, ",")
			}
			return fmt.Sprintf("encvn d=%s s=%s v=%s", rhex(r, r.Intn(30)), rhex(r, r.Intn(30)), v)
		}
	case 7: // transport parameters
		if r.Chance(30) { // declared-length boundaries of one structured parameter
			pers := []string{"c", "s"}[r.Pick(35, 65)]
			var id uint64
			var v []byte
			switch r.Pick(35, 10, 25, 20, 10) {
			case 0:
				cl := []int{1, 4, 8, 20, 0, 21}[r.Pick(20, 25, 25, 20, 5, 5)]
				v4, v6 := r.Bytes(6), r.Bytes(18)
				if r.Chance(25) {
					v4 = make([]byte, 6)
				}
				if r.Chance(25) {
					v6 = make([]byte, 18)
				}
				id, v = 0x0d, paValue(v4, v6, r.Bytes(cl), r.Bytes(16))
			case 1:
				id, v = 0x02, r.Bytes(16)
			case 2:
				id, v = []uint64{0x00, 0x0f, 0x10}[r.Intn(3)], r.Bytes(cidLen(r))
			case 3:
				id = numericIDs[r.Intn(len(numericIDs))]
				v = vi(r, nil, tpNumeric(r, id))
			default:
				id, v = []uint64{0x0c, 0x17f7586d2cb571, 27 + 31*uint64(r.Intn(50))}[r.Intn(3)], r.Bytes(r.Intn(4))
			}
			if r.Chance(15) {
				sv := pers == "s"
				return "cut tpdec " + pers + " " + hx(tpBytes(r, sv))
			}
			return tpbOp(pers, id, v, r.Chance(70))
		}
		if r.Chance(12) { // the session ticket envelope of internal/handshake/session_ticket.go
			switch r.Pick(40, 40, 20) {
			case 0:
				return "stk " + tpText(r)
			case 1:
				rev := uint64(5)
				if r.Chance(25) {
					rev = []uint64{0, 4, 6, 63, 64, 1 << 40}[r.Intn(6)]
				}
				b := vi(r, nil, rev)
				if r.Chance(85) {
					b = append(b, 1)
				} else {
					b = append(b, byte(r.Intn(4)))
				}
				b = append(b, tpBytes(r, true)...)
				if r.Chance(10) {
					b = b[:r.Intn(len(b)+1)]
				}
				return "stkdec " + hx(b)
			default:
				var es []string
				for k := r.Intn(5); k > 0; k-- {
					switch r.Pick(35, 35, 15, 15) {
					case 0:
						es = append(es, "+"+rhex(r, r.Intn(12)))
					case 1:
						es = append(es, rhex(r, 1+r.Intn(12)))
					case 2:
						es = append(es, hx([]byte("quic-go1")[:1+r.Intn(8)]))
					default:
						es = append(es, hx(append([]byte("quic-go1"), r.Bytes(r.Intn(4))...)))
					}
				}
				if len(es) == 0 {
					return "stkx -"
				}
				return "stkx " + strings.Join(es, ",")
			}
		}
		switch r.Pick(55, 25, 10, 10) {
		case 0:
			sv := r.Bool()
			b := tpBytes(r, sv)
			if r.Chance(8) {
				b = b[:r.Intn(len(b)+1)]
			}
			return fmt.Sprintf("tpdec %s %s", map[bool]string{true: "s", false: "c"}[sv], hx(b))
		case 1:
			return fmt.Sprintf("tpenc %s %s", []string{"c", "s"}[r.Intn(2)], tpText(r))
		case 2:
			return "tpst " + tpText(r)
		default:
			b := tpBytes(r, true)
			ver := []byte{1}
			if r.Chance(15) {
				ver = []byte{byte(r.Intn(4))}
			}
			if r.Chance(5) {
				ver = nil
			}
			return "tpstdec " + hx(append(ver, b...))
		}
	case 9: // MaxDataLen / MaybeSplitOffFrame
		sid, off := val(r), val(r)
		if r.Chance(30) {
			off = 0
		}
		hdr := 1 + vlen(sid)
		if off != 0 {
			hdr += vlen(off)
		}
		maxSize := r.Intn(90)
		switch r.Pick(40, 30, 30) {
		case 1:
			maxSize = hdr + 60 + r.Intn(10) // the 63/64 boundary of the length varint
		case 2:
			maxSize = hdr + r.Intn(4)
		}
		n := []int{0, 1, 5, 62, 63, 64, 65, 66, 100, 200}[r.Intn(10)]
		switch r.Intn(5) {
		case 0:
			return fmt.Sprintf("smax %d sid=%d off=%d len=%d", maxSize, sid, off, r.Intn(2))
		case 1:
			if r.Bool() {
				return fmt.Sprintf("cmax %d off=%d", maxSize, off)
			}
			return fmt.Sprintf("dmax %d len=%d", maxSize, r.Intn(2))
		case 2:
			return fmt.Sprintf("csplit %d crypto off=%d data=%s", maxSize, off&(1<<61-1), rhex(r, n))
		default:
			return fmt.Sprintf("ssplit %d stream sid=%d off=%d fin=%d len=%d data=%s", maxSize, sid, off&(1<<61-1), r.Intn(2), r.Intn(2), rhex(r, n))
		}
	case 10: // the life of one FrameParser
		if r.Chance(25) {
			return fmt.Sprintf("setexp %s %d", strings.Fields(ctxOf(r))[1], expOf(r))
		}
		seq := parserLife(r)
		rn.push(seq[1:]...)
		rn.fromGen = false
		return seq[0]
	default: // tokens
		key := rhex(r, 32)
		if r.Chance(40) {
			n := []int{0, 1, 31, 32, 33, 48, 80}[r.Intn(7)]
			return fmt.Sprintf("tokdec %s %s", key, rhex(r, n))
		}
		kind := []string{"retry", "new"}[r.Intn(2)]
		ak := []string{"u", "t"}[r.Pick(80, 20)]
		ip := rhex(r, []int{4, 16, 0}[r.Pick(45, 45, 10)])
		if ak == "t" { // (*net.TCPAddr).String() is modelled for empty and 4-byte IPs only
			ip = rhex(r, []int{4, 0}[r.Pick(85, 15)])
		}
		return fmt.Sprintf("tokrt %s %s %s %s %d %s %s %d", key, kind, ak, ip, r.Intn(65536), rhex(r, cidLen(r)), rhex(r, cidLen(r)),
			[]uint64{0, 1, 127, 128, 255, 256, 32767, 32768, 100000, 1 << 40}[r.Intn(10)])
	}
}
