//go:build verif

// Package spair: real SendStream -> (any delivery schedule) -> real ReceiveStream (core in sscore).
package spair

import (
	"testing"

	"github.com/refraction-networking/uquic/internal/verifharness/sscore"
	"github.com/refraction-networking/uquic/internal/verifharness/vh"
)

func TestDriver(t *testing.T) {
	vh.Main(t, "spair", func(r *vh.Rand) vh.Runner { return sscore.NewRunner(t, r, true) })
}
