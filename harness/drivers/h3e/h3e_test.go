//go:build verif

// Package h3e is the end-to-end SUPPORT driver of property C18: a real http3.Server and a real
// http3.Transport (client) over testutils/simnet inside a testing/synctest bubble. One operation is
// one connection carrying 1..4 concurrent request/response exchanges that are spelled out in the
// operation line; the result lists what the handler and the client observed. The oracle's "echo"
// specification says what they must observe. Nothing here is a proof.
//
//	conn loss=<m> reord=<k> lat=<ms> | m=GET p=/r0/a?x=1 h=x-a:1,cookie:c=1 b=<len>:<seed> t=x-rt:v st=200 i=103 rh=x-b:2 rb=<len>:<seed> rt=x-st:v fl=1 gz=0 cl=1 | …
//	 => srv m=GET p=/r0/a?x=1 h=… b=<len>:<fnv64> t=… | cli st=200 i=103 h=… b=<len>:<fnv64> t=… err=- || …
//
// loss=m drops every m-th datagram of each direction (0 = none), reord=k delays every k-th by 3 RTT.
//
// Round 4: win=<n> gives both endpoints stream receive windows of n bytes (0 = default), so that a
// HEADERS frame larger than n is still being written when the next exchange of the connection is
// encoded; a field value `*<len>.<seed>` stands for a generated string of that length (observed as
// `#<len>.<fnv64>`); ta=0|1|2: request trailers announced in the Trailer field not at all / all /
// only the first name; ov=<len>:<seed> sj=<0|1>: the handler declares Content-Length = the bytes of
// the regular payload, takes over the stream and sends <len> further bytes (a second gzip member when
// gz=1) in the same or a separate DATA frame; ae=1: the client asks for gzip itself (no transparent
// decompression). The client additionally reports res.ContentLength, res.Uncompressed and the
// Content-Encoding header.
//
// Round 5: "many" connections carry 6..16 concurrent exchanges with bodies of 1.5..300 kB.
package h3e

import (
	"bytes"
	"compress/gzip"
	"context"
	"crypto/x509"
	"errors"
	"fmt"
	"io"
	"net"
	"net/http"
	"net/http/httptrace"
	"net/textproto"
	"sort"
	"strconv"
	"strings"
	"sync"
	"sync/atomic"
	"testing"
	"testing/synctest"
	"time"

	quic "github.com/refraction-networking/uquic"
	"github.com/refraction-networking/uquic/http3"
	"github.com/refraction-networking/uquic/integrationtests/tools"
	"github.com/refraction-networking/uquic/internal/verifharness/vh"
	"github.com/refraction-networking/uquic/testutils/simnet"
	tls "github.com/refraction-networking/utls"
)

var (
	theT         *testing.T
	srvTLS       *tls.Config
	cliTLS       *tls.Config
	tlsSetupOnce sync.Once
)

func setupTLS() {
	ca, caKey, err := tools.GenerateCA()
	if err != nil {
		panic(err)
	}
	leaf, leafKey, err := tools.GenerateLeafCert(ca, caKey)
	if err != nil {
		panic(err)
	}
	srvTLS = &tls.Config{
		Certificates: []tls.Certificate{{Certificate: [][]byte{leaf.Raw}, PrivateKey: leafKey}},
		NextProtos:   []string{http3.NextProtoH3},
	}
	root := x509.NewCertPool()
	root.AddCert(ca)
	cliTLS = &tls.Config{ServerName: "localhost", RootCAs: root, NextProtos: []string{http3.NextProtoH3}}
}

// ---------------------------------------------------------------- scenario

type kv struct{ k, v string }

type exch struct {
	method, path string
	h            []kv
	bLen, bSeed  int
	t            []kv
	status       int
	info         []int
	rh           []kv
	rbLen        int
	rbSeed       int
	rt           []kv
	flush        bool
	gz           bool
	cl           bool // the client declares the request Content-Length
	bf           int  // >= 0: the request body's Read fails after this many bytes
	tw           int  // >= 0: this exchange is the HEAD twin of exchange tw (same handler script)
	ta           int  // request trailers announced: 0 none, 1 all, 2 only the first name
	ovLen        int  // >= 0: over-length response, that many bytes beyond the declared Content-Length
	ovSeed       int
	sj           bool // the extra bytes share a DATA frame with the end of the declared payload
	ae           bool // the client sets Accept-Encoding: gzip itself
}

type scenario struct {
	loss, reord, lat int
	win              int
	ex               []exch
}

const padAlphabet = "abcdefghijklmnopqrstuvwxyz0123456789"

// expandVal turns `*<len>.<seed>` into the generated string it stands for
func expandVal(v string) string {
	if !strings.HasPrefix(v, "*") {
		return v
	}
	var n, seed int
	if _, err := fmt.Sscanf(v, "*%d.%d", &n, &seed); err != nil || n < 0 || n > 1<<16 {
		return v
	}
	b := make([]byte, n)
	for i := range b {
		b[i] = padAlphabet[(seed+i*7+i/13)%36]
	}
	return string(b)
}

// abbrevVal is how a long field value is reported
func abbrevVal(v string) string {
	if len(v) <= 40 {
		return v
	}
	return fmt.Sprintf("#%d.%016x", len(v), fnv64([]byte(v)))
}

func parseKVs(s string) []kv {
	if s == "-" || s == "" {
		return nil
	}
	var out []kv
	for _, p := range strings.Split(s, ",") {
		i := strings.IndexByte(p, ':')
		if i < 0 {
			continue
		}
		out = append(out, kv{p[:i], p[i+1:]})
	}
	return out
}

func fmtKVs(l []kv) string {
	if len(l) == 0 {
		return "-"
	}
	var ps []string
	for _, x := range l {
		ps = append(ps, x.k+":"+x.v)
	}
	return strings.Join(ps, ",")
}

func parseScenario(op string) (scenario, bool) {
	var sc scenario
	parts := strings.Split(op, " | ")
	f := strings.Fields(parts[0])
	if len(f) == 0 || f[0] != "conn" {
		return sc, false
	}
	get := func(fs []string, key string) string {
		for _, x := range fs {
			if strings.HasPrefix(x, key+"=") {
				return x[len(key)+1:]
			}
		}
		return ""
	}
	sc.loss, _ = strconv.Atoi(get(f, "loss"))
	sc.reord, _ = strconv.Atoi(get(f, "reord"))
	sc.lat, _ = strconv.Atoi(get(f, "lat"))
	if sc.lat <= 0 {
		sc.lat = 5
	}
	sc.win, _ = strconv.Atoi(get(f, "win"))
	if sc.win < 0 || (sc.win > 0 && sc.win < 200) {
		return sc, false
	}
	for _, p := range parts[1:] {
		fs := strings.Fields(p)
		var e exch
		e.method, e.path = get(fs, "m"), get(fs, "p")
		e.h, e.t, e.rh, e.rt = parseKVs(get(fs, "h")), parseKVs(get(fs, "t")), parseKVs(get(fs, "rh")), parseKVs(get(fs, "rt"))
		fmt.Sscanf(get(fs, "b"), "%d:%d", &e.bLen, &e.bSeed)
		fmt.Sscanf(get(fs, "rb"), "%d:%d", &e.rbLen, &e.rbSeed)
		e.status, _ = strconv.Atoi(get(fs, "st"))
		if i := get(fs, "i"); i != "-" && i != "" {
			for _, x := range strings.Split(i, ",") {
				n, _ := strconv.Atoi(x)
				e.info = append(e.info, n)
			}
		}
		e.flush, e.gz, e.cl = get(fs, "fl") == "1", get(fs, "gz") == "1", get(fs, "cl") == "1"
		e.bf, e.tw = -1, -1
		e.ta, e.ovLen = 1, -1
		if v := get(fs, "ta"); v != "" {
			e.ta, _ = strconv.Atoi(v)
		}
		if v := get(fs, "ov"); v != "" && v != "-" {
			fmt.Sscanf(v, "%d:%d", &e.ovLen, &e.ovSeed)
		}
		e.sj, e.ae = get(fs, "sj") == "1", get(fs, "ae") == "1"
		if v := get(fs, "bf"); v != "" && v != "-" {
			e.bf, _ = strconv.Atoi(v)
		}
		if v := get(fs, "tw"); v != "" && v != "-" {
			e.tw, _ = strconv.Atoi(v)
		}
		if e.method == "" || !strings.HasPrefix(e.path, "/r") || e.status < 200 || e.status > 999 || e.bLen > 1<<20 || e.rbLen > 1<<20 || e.ovLen > 1<<20 {
			return sc, false
		}
		sc.ex = append(sc.ex, e)
	}
	if len(sc.ex) == 0 || len(sc.ex) > 24 {
		return sc, false
	}
	return sc, true
}

func pattern(n, seed int) []byte {
	b := make([]byte, n)
	for i := range b {
		b[i] = 0x80 | byte((seed+i*7+i/256)&0x7f)
	}
	return b
}

func fnv64(b []byte) uint64 {
	h := uint64(14695981039346656037)
	for _, c := range b {
		h ^= uint64(c)
		h *= 1099511628211
	}
	return h
}

func bodySig(b []byte) string { return fmt.Sprintf("%d:%016x", len(b), fnv64(b)) }

// canonical view of the header fields the scenario controls (x-*, cookie, set-cookie), sorted by name
func obsHeader(h http.Header) string {
	var l []kv
	for k, vs := range h {
		lk := strings.ToLower(k)
		if !(strings.HasPrefix(lk, "x-") || lk == "cookie" || lk == "set-cookie") {
			continue
		}
		for _, v := range vs {
			l = append(l, kv{lk, abbrevVal(strings.ReplaceAll(v, " ", "~"))})
		}
	}
	sort.SliceStable(l, func(i, j int) bool { return l[i].k < l[j].k })
	return fmtKVs(l)
}

// chunked reader: hands out the body in seeded chunk sizes, fills the request trailers at EOF
type chunkReader struct {
	data []byte
	r    *vh.Rand
	eof  func()
	fail  int // >= 0: fail once this many bytes were handed out
	done  int
	delay time.Duration
}

var errBoom = errors.New("h3e: request body source failed")

func (c *chunkReader) Read(p []byte) (int, error) {
	if c.fail >= 0 && c.done >= c.fail {
		time.Sleep(c.delay) // virtual: lets what was written so far reach the handler in about half of the cases
		return 0, errBoom
	}
	if len(c.data) == 0 {
		if c.eof != nil {
			c.eof()
			c.eof = nil
		}
		return 0, io.EOF
	}
	n := 1 + c.r.Intn(4096)
	if c.r.Chance(20) {
		n = 1 + c.r.Intn(16)
	}
	if n > len(p) {
		n = len(p)
	}
	if n > len(c.data) {
		n = len(c.data)
	}
	if c.fail >= 0 && c.done+n > c.fail {
		n = c.fail - c.done
	}
	copy(p, c.data[:n])
	c.data = c.data[n:]
	c.done += n
	return n, nil
}
func (c *chunkReader) Close() error { return nil }

func readChunked(rd io.Reader, r *vh.Rand) ([]byte, error) {
	var out []byte
	for {
		buf := make([]byte, 1+r.Intn(8192))
		n, err := rd.Read(buf)
		out = append(out, buf[:n]...)
		if err == io.EOF {
			return out, nil
		}
		if err != nil {
			return out, err
		}
	}
}

func errStr(err error) string {
	if err == nil {
		return "-"
	}
	if strings.Contains(err.Error(), "peer sent too much data") {
		return "E:toomuch"
	}
	return strings.ReplaceAll(strings.ReplaceAll(err.Error(), " ", "_"), "|", "/")
}

func gz(b []byte) []byte {
	var zb bytes.Buffer
	zw := gzip.NewWriter(&zb)
	zw.Write(b)
	zw.Close()
	return zb.Bytes()
}

type faultRouter struct {
	simnet.PerfectRouter
	loss   int
	cnt    [2]atomic.Int64
	server string
}

func (r *faultRouter) SendPacket(p simnet.Packet) error {
	d := 0
	if p.From.String() == r.server {
		d = 1
	}
	n := r.cnt[d].Add(1)
	if r.loss > 0 && n%int64(r.loss) == 0 {
		return nil
	}
	return r.PerfectRouter.SendPacket(p)
}

func idxOfPath(p string) int {
	// /r<i>/...
	p = strings.TrimPrefix(p, "/r")
	if i := strings.IndexByte(p, '/'); i >= 0 {
		p = p[:i]
	}
	n, err := strconv.Atoi(p)
	if err != nil {
		return -1
	}
	return n
}

func runScenario(sc scenario) string {
	srvObs := make([]string, len(sc.ex))
	cliObs := make([]string, len(sc.ex))
	for i := range srvObs {
		srvObs[i], cliObs[i] = "srv none", "cli none"
	}
	var mu sync.Mutex

	handler := http.HandlerFunc(func(w http.ResponseWriter, req *http.Request) {
		i := idxOfPath(req.URL.Path)
		if i < 0 || i >= len(sc.ex) {
			w.WriteHeader(500)
			return
		}
		e := sc.ex[i]
		r := vh.NewRand(uint64(e.bSeed*977 + e.rbSeed*131 + i))
		body, err := readChunked(req.Body, r)
		obs := fmt.Sprintf("srv m=%s p=%s h=%s b=%s t=%s", req.Method, req.RequestURI, obsHeader(req.Header), bodySig(body), obsHeader(req.Trailer))
		if err != nil {
			obs += " rerr=1" // the handler's body read ended with an error (class not compared: it depends on timing)
		}
		mu.Lock()
		srvObs[i] = obs
		mu.Unlock()

		for _, x := range e.rh {
			w.Header().Add(x.k, strings.ReplaceAll(expandVal(x.v), "~", " "))
		}
		if len(e.rt) > 0 {
			seen := map[string]bool{}
			for _, x := range e.rt {
				if !seen[x.k] {
					w.Header().Add("Trailer", textproto.CanonicalMIMEHeaderKey(x.k))
					seen[x.k] = true
				}
			}
		}
		for _, c := range e.info {
			w.WriteHeader(c)
		}
		payload := pattern(e.rbLen, e.rbSeed)
		zipped := e.gz && strings.Contains(req.Header.Get("Accept-Encoding"), "gzip")
		if zipped {
			payload = gz(payload)
			w.Header().Set("Content-Encoding", "gzip")
		}
		if e.ovLen >= 0 {
			// over-length response: declare the regular payload, take over the stream, send more
			extra := pattern(e.ovLen, e.ovSeed)
			if zipped {
				extra = gz(extra)
			}
			w.Header().Set("Content-Length", strconv.Itoa(len(payload)))
			w.WriteHeader(e.status)
			hs := w.(http3.HTTPStreamer).HTTPStream()
			defer hs.Close()
			for len(payload) > 0 {
				n := 1 + r.Intn(6000)
				if n >= len(payload) {
					n = len(payload)
					if e.sj {
						break
					}
				}
				if _, err := hs.Write(payload[:n]); err != nil {
					return
				}
				payload = payload[n:]
			}
			hs.Write(append(append([]byte{}, payload...), extra...))
			return
		}
		w.WriteHeader(e.status)
		for len(payload) > 0 {
			n := 1 + r.Intn(6000)
			if r.Chance(20) {
				n = 1 + r.Intn(32)
			}
			if n > len(payload) {
				n = len(payload)
			}
			if _, err := w.Write(payload[:n]); err != nil {
				break
			}
			payload = payload[n:]
			if e.flush && r.Chance(30) {
				w.(http.Flusher).Flush()
			}
		}
		for _, x := range e.rt {
			w.Header().Add(textproto.CanonicalMIMEHeaderKey(x.k), x.v)
		}
	})

	run := func(t *testing.T) {
		serverAddr := &net.UDPAddr{IP: net.ParseIP("1.0.0.2"), Port: 443}
		router := &faultRouter{loss: sc.loss, server: serverAddr.String()}
		lat := time.Duration(sc.lat) * time.Millisecond
		var lcnt atomic.Int64
		settings := simnet.NodeBiDiLinkSettings{LatencyFunc: func(simnet.Packet) time.Duration {
			if sc.reord > 0 && lcnt.Add(1)%int64(sc.reord) == 0 {
				return 7 * lat
			}
			return lat
		}}
		n := &simnet.Simnet{Router: router}
		cconn := n.NewEndpoint(&net.UDPAddr{IP: net.ParseIP("1.0.0.1"), Port: 9001}, settings)
		sconn := n.NewEndpoint(serverAddr, settings)
		if err := n.Start(); err != nil {
			panic(err)
		}
		qconf := &quic.Config{MaxIdleTimeout: 120 * time.Second, HandshakeIdleTimeout: 60 * time.Second}
		if sc.win > 0 {
			qconf.InitialStreamReceiveWindow, qconf.MaxStreamReceiveWindow = uint64(sc.win), uint64(sc.win)
		}
		server := &http3.Server{TLSConfig: srvTLS.Clone(), QUICConfig: qconf.Clone(), Handler: handler} // Logger left unset on purpose
		sdone := make(chan struct{})
		go func() { defer close(sdone); server.Serve(sconn) }()

		ctr := &quic.Transport{Conn: cconn}
		tr := &http3.Transport{
			TLSClientConfig: cliTLS.Clone(),
			QUICConfig:      qconf.Clone(),
			Dial: func(ctx context.Context, addr string, tlsCfg *tls.Config, cfg *quic.Config) (*quic.Conn, error) {
				return ctr.DialEarly(ctx, serverAddr, tlsCfg, cfg)
			},
		}
		var wg sync.WaitGroup
		for i := range sc.ex {
			wg.Add(1)
			go func(i int) {
				defer wg.Done()
				e := sc.ex[i]
				r := vh.NewRand(uint64(e.bSeed*31 + e.rbSeed*17 + i*7))
				ctx, cancel := context.WithTimeout(context.Background(), 300*time.Second)
				defer cancel()
				var info []string
				ctx = httptrace.WithClientTrace(ctx, &httptrace.ClientTrace{
					Got1xxResponse: func(code int, _ textproto.MIMEHeader) error {
						info = append(info, strconv.Itoa(code))
						return nil
					},
				})
				var body io.ReadCloser
				req, err := http.NewRequestWithContext(ctx, e.method, "https://localhost"+e.path, nil)
				if err != nil {
					cliObs[i] = "cli err=" + errStr(err)
					return
				}
				hasBody := e.method == "POST" || e.method == "PUT"
				if hasBody {
					cr := &chunkReader{data: pattern(e.bLen, e.bSeed), r: r, fail: e.bf, delay: time.Duration(r.Intn(2)*(40+r.Intn(200))) * time.Millisecond}
					if len(e.t) > 0 {
						req.Trailer = http.Header{}
						for j, x := range e.t {
							if e.ta == 1 || (e.ta == 2 && j == 0) {
								req.Trailer[textproto.CanonicalMIMEHeaderKey(x.k)] = nil
							}
						}
						cr.eof = func() {
							for _, x := range e.t {
								req.Trailer.Add(textproto.CanonicalMIMEHeaderKey(x.k), x.v)
							}
						}
					}
					body = cr
					req.Body = body
					if e.cl {
						req.ContentLength = int64(e.bLen)
					} else {
						req.ContentLength = -1
					}
				}
				for _, x := range e.h {
					req.Header.Add(x.k, strings.ReplaceAll(expandVal(x.v), "~", " "))
				}
				if e.ae {
					req.Header.Set("Accept-Encoding", "gzip")
				}
				res, err := tr.RoundTrip(req)
				if err != nil {
					cliObs[i] = "cli err=" + errStr(err)
					return
				}
				rb, rerr := readChunked(res.Body, r)
				res.Body.Close()
				ce := "-"
				if v := res.Header.Get("Content-Encoding"); v != "" {
					ce = v
					if v == "gzip" && !res.Uncompressed && len(rb) > 0 {
						// not decompressed by the transport: report the decompressed bytes
						if zr, err := gzip.NewReader(bytes.NewReader(rb)); err == nil {
							if pb, err := io.ReadAll(zr); err == nil {
								rb = pb
							} else {
								ce = "gzip-bad"
							}
						} else {
							ce = "gzip-bad"
						}
					}
				}
				unc := 0
				if res.Uncompressed {
					unc = 1
				}
				is := "-"
				if len(info) > 0 {
					is = strings.Join(info, ",")
				}
				clh := "-"
				if v, ok := res.Header["Content-Length"]; ok && len(v) > 0 {
					clh = v[0]
				}
				cliObs[i] = fmt.Sprintf("cli st=%d i=%s h=%s b=%s t=%s err=%s cl=%s rcl=%d unc=%d ce=%s", res.StatusCode, is, obsHeader(res.Header), bodySig(rb), obsHeader(res.Trailer), errStr(rerr), clh, res.ContentLength, unc, ce)
			}(i)
		}
		wg.Wait()
		tr.Close()
		server.Close()
		<-sdone
		ctr.Close()
		cconn.Close()
		sconn.Close()
		n.Close()
	}
	synctest.Test(theT, run)
	var parts []string
	for i := range sc.ex {
		parts = append(parts, srvObs[i]+" | "+cliObs[i])
	}
	return strings.Join(parts, " || ")
}

// ---------------------------------------------------------------- runner + generator

type runner struct{}

func (rn *runner) Exec(op string) string {
	sc, ok := parseScenario(op)
	if !ok {
		return "bad-op"
	}
	return runScenario(sc)
}

var methods = []string{"GET", "POST", "HEAD", "PUT"}

func genKVs(r *vh.Rand, names []string, max int) []kv {
	var l []kv
	for k := r.Intn(max + 1); k > 0; k-- {
		n := names[r.Intn(len(names))]
		v := []string{"a", "b1", "c.d", "x_y", "0", "zz9", "p=1", "q=two"}[r.Intn(8)]
		l = append(l, kv{n, v})
	}
	return l
}

func pickBody(r *vh.Rand) int {
	switch r.Pick(20, 30, 25, 25) {
	case 0:
		return 0
	case 1:
		return r.Intn(200)
	case 2:
		return r.Intn(5000)
	}
	return r.Intn(65536)
}

func (rn *runner) GenOp(r *vh.Rand, i int) string {
	loss, reord := 0, 0
	if r.Chance(45) {
		loss = 7 + r.Intn(20)
	}
	if r.Chance(35) {
		reord = 3 + r.Intn(8)
	}
	n := 1 + r.Intn(4)
	// big-header mode: 2..4 concurrent exchanges whose HEADERS frames exceed the peer's stream window
	big, win, padLen := false, 0, 0
	if r.Chance(22) {
		big = true
		n = 2 + r.Intn(3)
		win = []int{600, 1000, 2000}[r.Intn(3)]
		padLen = 2500 + r.Intn(11000)
	}
	// many-requests mode (round 5): 6..16 concurrent exchanges on one connection, most of them with bodies of
	// several packets in one or both directions, so that the sender's stream scheduling queue rotates
	// (streams with more data are re-queued) while further request streams become active
	many := !big && r.Chance(12)
	if many {
		n = 6 + r.Intn(11)
		if r.Chance(50) {
			loss, reord = 0, 0
		}
	}
	var sb strings.Builder
	fmt.Fprintf(&sb, "conn loss=%d reord=%d lat=%d win=%d", loss, reord, 1+r.Intn(20), win)
	for k := 0; k < n; k++ {
		var e exch
		e.method = methods[r.Pick(35, 35, 12, 18)]
		e.path = fmt.Sprintf("/r%d/%s", k, []string{"a", "b/c", "d.e", "x-y/z_1"}[r.Intn(4)])
		if r.Chance(40) {
			e.path += "?" + []string{"q=1", "a=b&c=d", "x=%20y"}[r.Intn(3)]
		}
		e.h = genKVs(r, []string{"x-a", "x-b", "cookie", "x-long-header-name"}, 5)
		pickB := pickBody
		if big {
			pickB = func(r *vh.Rand) int { return r.Intn(3000) }
			l := padLen
			if r.Chance(50) {
				l = 2500 + r.Intn(11000)
			}
			pad := kv{"x-pad", fmt.Sprintf("*%d.%d", l, r.Intn(36))}
			at := r.Intn(len(e.h) + 1)
			e.h = append(e.h[:at:at], append([]kv{pad}, e.h[at:]...)...)
		}
		if many {
			e.method = methods[r.Pick(15, 50, 5, 30)]
			pickB = func(r *vh.Rand) int {
				if r.Chance(25) {
					return 60000 + r.Intn(240000)
				}
				return 1500 + r.Intn(40000)
			}
		}
		hasBody := e.method == "POST" || e.method == "PUT"
		e.ta = 1
		if hasBody {
			e.bLen, e.bSeed = pickB(r), r.Intn(128)
			e.cl = r.Chance(60)
			if r.Chance(35) {
				e.t = genKVs(r, []string{"x-rt1", "x-rt2"}, 3)
				e.ta = r.Pick(25, 50, 25)
			}
		}
		e.status = []int{200, 200, 200, 201, 404, 204, 304, 500}[r.Intn(8)]
		if r.Chance(20) {
			e.info = append(e.info, 103)
			if r.Chance(30) {
				e.info = append(e.info, 103)
			}
		}
		e.rh = genKVs(r, []string{"x-c", "x-d", "set-cookie"}, 5)
		if big && r.Chance(50) {
			e.rh = append(e.rh, kv{"x-rpad", fmt.Sprintf("*%d.%d", 2500+r.Intn(11000), r.Intn(36))})
		}
		noBody := e.method == "HEAD" || e.status == 204 || e.status == 304
		e.rbLen, e.rbSeed = pickB(r), r.Intn(128)
		if noBody && r.Chance(50) {
			e.rbLen = 0
		}
		if !noBody && r.Chance(35) {
			e.rt = genKVs(r, []string{"x-st1", "x-st2"}, 3)
		}
		e.flush = r.Chance(40)
		e.gz = !noBody && e.rbLen > 0 && r.Chance(25)
		e.ae = !noBody && r.Chance(12)
		// over-length response (declared Content-Length < DATA bytes sent), with and without gzip
		ov, sj := "-", 0
		if !noBody && r.Chance(18) {
			e.rt = nil
			if r.Chance(50) {
				e.gz = true
			}
			ov = fmt.Sprintf("%d:%d", 1+r.Intn(3000), r.Intn(128))
			sj = r.Intn(2)
		}
		is := "-"
		if len(e.info) > 0 {
			var ps []string
			for _, c := range e.info {
				ps = append(ps, strconv.Itoa(c))
			}
			is = strings.Join(ps, ",")
		}
		b2i := func(b bool) int {
			if b {
				return 1
			}
			return 0
		}
		bf, tw := "-", "-"
		if hasBody && e.bLen > 0 && r.Chance(25) {
			bf = strconv.Itoa(r.Intn(e.bLen))
			e.t = nil
		}
		emit := func(e exch, bf, tw, ov string) {
			fmt.Fprintf(&sb, " | m=%s p=%s h=%s b=%d:%d t=%s st=%d i=%s rh=%s rb=%d:%d rt=%s fl=%d gz=%d cl=%d bf=%s tw=%s ta=%d ov=%s sj=%d ae=%d",
				e.method, e.path, fmtKVs(e.h), e.bLen, e.bSeed, fmtKVs(e.t), e.status, is, fmtKVs(e.rh), e.rbLen, e.rbSeed, fmtKVs(e.rt), b2i(e.flush), b2i(e.gz), b2i(e.cl), bf, tw,
				e.ta, ov, sj, b2i(e.ae))
		}
		emit(e, bf, tw, ov)
		// HEAD twin of a GET: the same handler script, asked for with HEAD
		if e.method == "GET" && !noBody && ov == "-" && !e.ae && k+1 < n && r.Chance(45) {
			h := e
			h.method = "HEAD"
			h.path = fmt.Sprintf("/r%d/%s", k+1, strings.SplitN(e.path, "/", 3)[2])
			h.rt = nil
			emit(h, "-", strconv.Itoa(k), "-")
			k++
		}
	}
	return sb.String()
}

func newRunner(r *vh.Rand) vh.Runner { return &runner{} }

func TestDriver(t *testing.T) {
	theT = t
	tlsSetupOnce.Do(setupTLS)
	vh.Main(t, "h3e", newRunner)
}
