//go:build verif

// Package chwire (property C11, end to end): "the ClientHello a spec-driven client sends is what uTLS produces" judged
// on EVERY Initial packet the client ever puts on the wire, not only on the first flight: PTO probes towards a silent
// peer, retransmissions after the loss of any one datagram of the flight (client->server or server->client), the
// flight sent again after a Retry (new keys, token), the second ClientHello after a HelloRetryRequest, the new
// connection after a Version Negotiation, a second dial over the same UTransport with the same spec value.
//
// A real server (quic.Transport + Listener) and a UTransport client run over testutils/simnet inside a
// testing/synctest bubble (virtual time; harness/e2e). Two independent observations are reported per dial:
//
//	ch  what the client's TLS stack handed over for the Initial CRYPTO stream (hook verif_qtp.go: a forwarding wrapper
//	    around the connection's crypto setup that copies EventWriteInitialData — upstream of the crypto stream, the
//	    frame builders, the retransmission queue and the packer), one entry per connection created in the dial;
//	pk  every Initial packet the router saw leaving the client, decrypted here (RFC 9001 §5) with the keys of its
//	    connection ID, with all its frames.
//
//	env <spec> <rnd> <pad> <fb> <srv> <rtt> <faults>   build the scenario (nothing is sent yet)
//	     spec  built-in QUICID name          rnd  RandomizeTransportParameters
//	     pad   bytes of an extra raw transport parameter (a ClientHello that needs more datagrams); 0 = none
//	     fb    = (the spec's frame builder) | nil (pass-through) | rf (QUICRandomFrames) | fl (QUICRandomFlightFrames,
//	           tail first)
//	     srv   plain | retry (VerifySourceAddress) | hrr (server accepts P-384 only) | vn (server speaks QUIC v2 only)
//	           | silent (nothing the client sends arrives)
//	     faults  - or <c|s><index>:<drop|dup|delay>[:<ms>],…   (c = client->server datagram index, s = server->client)
//	dial <ms>                                           dial (same UTransport, same spec value), give it <ms> of virtual
//	                                                    time, close; report
//
// result of dial: `hs=<ok|err> pp=<-|panics> tl=<-|tails> ch=<ver>:<hex>[+<hex>…]|… pk=<ver>,<key>,<pn>,<tok>:<frames>;…`
//
//	pp = panics inside the client's packer (hook: opt-in guard around Conn.packer, so that the process survives and
//	the panic is an observation): `<innermost uquic function><<its caller>:<panic value>`, ';'-separated,
//	tl = for every datagram with an Initial packet, what follows its last long header packet (if anything): z<n> = n
//	zero bytes (UDPDatagramMinSize padding), s<n> = a short header packet, g<n> = n bytes that are neither,
//	key = index (in order of first use) of the connection ID whose Initial keys open the packet (a Retry changes it),
//	tok = token length, frames = c<off>.<hex> (CRYPTO) | p (PING) | z<n> (n bytes of PADDING) | a (ACK) |
//	x<code> (CONNECTION_CLOSE), '/'-separated. A packet no key opens is reported as `<ver>,?,0,0:`.
package chwire

import (
	"context"
	"encoding/hex"
	"fmt"
	"net"
	"os"
	"strconv"
	"strings"
	"testing"
	"testing/synctest"
	"time"

	quic "github.com/refraction-networking/uquic"
	"github.com/refraction-networking/uquic/internal/handshake"
	"github.com/refraction-networking/uquic/internal/protocol"
	"github.com/refraction-networking/uquic/internal/verifharness/e2e"
	"github.com/refraction-networking/uquic/internal/verifharness/vh"
	"github.com/refraction-networking/uquic/internal/wire"
	tls "github.com/refraction-networking/utls"
)

var builtins = map[string]quic.QUICID{
	"QUICFirefox_116A": quic.QUICFirefox_116A, "QUICFirefox_116B": quic.QUICFirefox_116B, "QUICFirefox_116C": quic.QUICFirefox_116C,
	"QUICChrome_115_IPv4": quic.QUICChrome_115_IPv4, "QUICChrome_115_IPv6": quic.QUICChrome_115_IPv6,
	"QUICChrome_146_IPv4": quic.QUICChrome_146_IPv4, "QUICChrome_146_IPv6": quic.QUICChrome_146_IPv6,
}

var builtinNames = []string{"QUICFirefox_116A", "QUICFirefox_116B", "QUICFirefox_116C", "QUICChrome_115_IPv4",
	"QUICChrome_115_IPv6", "QUICChrome_146_IPv4", "QUICChrome_146_IPv6"}

func hx(b []byte) string {
	if len(b) == 0 {
		return "-"
	}
	return hex.EncodeToString(b)
}

type runner struct {
	env     *e2e.Env
	srv     string
	accepts chan struct{}
	stop    context.CancelFunc
	logPos  int // c2s datagrams already reported
	dials   int
}

func newRunner(r *vh.Rand) vh.Runner { return &runner{} }

func (rn *runner) Close() {
	if rn.env == nil {
		return
	}
	rn.stop()
	rn.env.Close()
	synctest.Wait()
	time.Sleep(2 * time.Second)
	synctest.Wait()
	rn.env = nil
}

// ---------------------------------------------------------------- generator

var srvNames = []string{"plain", "retry", "hrr", "vn", "silent"}

func genFaults(r *vh.Rand, srv string) string {
	if srv == "silent" || r.Chance(25) {
		return "-"
	}
	var fs []string
	n := 1 + r.Pick(60, 30, 10)
	used := map[string]bool{}
	for i := 0; i < n; i++ {
		d := "c"
		idx := r.Intn(4)
		if r.Chance(35) {
			d = "s"
			idx = r.Intn(3)
		}
		k := fmt.Sprintf("%s%d", d, idx)
		if used[k] {
			continue
		}
		used[k] = true
		switch r.Pick(70, 15, 15) {
		case 0:
			fs = append(fs, k+":drop")
		case 1:
			fs = append(fs, k+":dup")
		default:
			fs = append(fs, fmt.Sprintf("%s:delay:%d", k, []int{5, 30, 150, 400}[r.Intn(4)]))
		}
	}
	if len(fs) == 0 {
		return "-"
	}
	return strings.Join(fs, ",")
}

func (rn *runner) GenOp(r *vh.Rand, i int) string {
	if i == 0 {
		spec := builtinNames[r.Pick(10, 6, 6, 14, 8, 34, 22)]
		pad := 0
		if r.Chance(30) {
			pad = []int{200, 700, 1100, 1500}[r.Intn(4)]
		}
		fb := []string{"=", "nil", "rf", "fl"}[r.Pick(64, 12, 12, 12)]
		srv := srvNames[r.Pick(34, 18, 14, 8, 26)]
		return fmt.Sprintf("env %s %d %d %s %s %d %s", spec, r.Intn(2), pad, fb, srv, []int{20, 20, 60, 4}[r.Intn(4)], genFaults(r, srv))
	}
	if i > 2 {
		return ""
	}
	return fmt.Sprintf("dial %d", []int{700, 1500, 2500}[r.Pick(40, 40, 20)])
}

// enumerate: every built-in spec x every server kind x the loss of each single early datagram (thorough tier).
func enumerate(emit func(ops []string)) {
	for _, spec := range builtinNames {
		for _, srv := range srvNames {
			faults := []string{"-", "c0:drop", "c1:drop", "c2:drop", "s0:drop", "s1:drop", "c0:delay:150", "c1:dup"}
			if srv == "silent" {
				faults = []string{"-"}
			}
			for _, f := range faults {
				for _, fb := range []string{"=", "nil"} {
					emit([]string{fmt.Sprintf("env %s 0 0 %s %s 20 %s", spec, fb, srv, f), "dial 1500"})
				}
			}
		}
	}
}

// ---------------------------------------------------------------- execution

func parseFaults(s string) ([]e2e.Fault, bool) {
	if s == "-" {
		return nil, true
	}
	var out []e2e.Fault
	for _, p := range strings.Split(s, ",") {
		q := strings.Split(p, ":")
		if len(q) < 2 || len(q[0]) < 2 {
			return nil, false
		}
		idx, err := strconv.Atoi(q[0][1:])
		if err != nil || idx < 0 || idx > 64 {
			return nil, false
		}
		f := e2e.Fault{Index: idx, Kind: q[1]}
		switch q[0][0] {
		case 'c':
			f.Dir = e2e.ToServer
		case 's':
			f.Dir = e2e.ToClient
		default:
			return nil, false
		}
		switch q[1] {
		case "drop", "dup":
		case "delay":
			if len(q) != 3 {
				return nil, false
			}
			ms, err := strconv.Atoi(q[2])
			if err != nil || ms < 0 || ms > 5000 {
				return nil, false
			}
			f.Arg = ms
		default:
			return nil, false
		}
		out = append(out, f)
	}
	return out, true
}

func qtpExt(spec *quic.QUICSpec) *tls.QUICTransportParametersExtension {
	if spec.ClientHelloSpec == nil {
		return nil
	}
	for _, e := range spec.ClientHelloSpec.Extensions {
		if q, ok := e.(*tls.QUICTransportParametersExtension); ok {
			return q
		}
	}
	return nil
}

func (rn *runner) Exec(op string) string {
	f := strings.Fields(op)
	if len(f) == 0 {
		return "bad-op"
	}
	if os.Getenv("VH_DEBUG") != "" {
		fmt.Fprintf(os.Stderr, "op: %s\n", op)
	}
	switch f[0] {
	case "env":
		if len(f) != 8 || rn.env != nil {
			return "bad-op"
		}
		id, ok := builtins[f[1]]
		if !ok {
			return "bad-op"
		}
		spec, err := quic.QUICID2Spec(id)
		if err != nil {
			return "E:spec"
		}
		spec.RandomizeTransportParameters = f[2] == "1"
		pad, err := strconv.Atoi(f[3])
		if err != nil || pad < 0 || pad > 4000 {
			return "bad-op"
		}
		if pad > 0 {
			ext := qtpExt(&spec)
			if ext == nil {
				return "E:noqtp"
			}
			val := make([]byte, pad)
			for i := range val {
				val[i] = byte(i*7 + 3)
			}
			ext.TransportParameters = append(ext.TransportParameters, &tls.FakeQUICTransportParameter{Id: 0x3a7f, Val: val})
		}
		switch f[4] {
		case "=":
		case "nil":
			spec.InitialPacketSpec.FrameBuilder = nil
		case "rf":
			spec.InitialPacketSpec.FrameBuilder = &quic.QUICRandomFrames{MinPING: 1, MaxPING: 3, MinCRYPTO: 2, MaxCRYPTO: 5, MinPADDING: 1, MaxPADDING: 3, Length: 1100}
		case "fl":
			spec.InitialPacketSpec.FrameBuilder = &quic.QUICRandomFlightFrames{PerDatagram: []quic.QUICRandomFlightDatagram{
				{CryptoRanges: []quic.QUICCryptoRange{{Offset: -100}, {Offset: 0, Length: 60}}, Frames: quic.QUICRandomFrames{MinCRYPTO: 2, MaxCRYPTO: 4, MinPING: 1, MaxPING: 3}},
				{CryptoRanges: []quic.QUICCryptoRange{{Offset: 60, Length: -100}}, Frames: quic.QUICRandomFrames{MinCRYPTO: 1, MaxCRYPTO: 3}},
			}}
		default:
			return "bad-op"
		}
		rtt, err := strconv.Atoi(f[6])
		if err != nil || rtt < 1 || rtt > 1000 {
			return "bad-op"
		}
		faults, ok := parseFaults(f[7])
		if !ok {
			return "bad-op"
		}
		su := e2e.Setup{Spec: &spec, RTT: time.Duration(rtt) * time.Millisecond, Faults: faults}
		ctls := e2e.ClientTLSConfig()
		ctls.NextProtos = []string{"h3"}
		su.ClientTLS = ctls
		switch f[5] {
		case "plain", "silent":
		case "retry":
			su.ServerTransport = func(t *quic.Transport) { t.VerifySourceAddress = func(net.Addr) bool { return true } }
		case "hrr":
			stls := e2e.ServerTLSConfig()
			stls.CurvePreferences = []tls.CurveID{tls.CurveP384}
			su.ServerTLS = stls
		case "vn":
			su.ServerConf = &quic.Config{Versions: []quic.Version{quic.Version2}}
			su.ClientConf = &quic.Config{Versions: []quic.Version{quic.Version1, quic.Version2}}
		default:
			return "bad-op"
		}
		quic.VerifTakeCH()
		quic.VerifGuardPacker(true)
		quic.VerifTakePackerPanics()
		quic.VerifPoisonPacketBuffers(24)
		env, err := e2e.Start(su)
		if err != nil {
			return "E:start"
		}
		if f[5] == "silent" {
			env.Net.DropAll[e2e.ToServer] = true
		}
		rn.env, rn.srv = env, f[5]
		ctx, cancel := context.WithCancel(context.Background())
		rn.stop = cancel
		go func() {
			for {
				c, err := env.Listener.Accept(ctx)
				if err != nil {
					return
				}
				go func() {
					<-c.Context().Done()
				}()
			}
		}()
		return "ok"
	case "dial":
		if len(f) != 2 {
			return "bad-op"
		}
		if rn.env == nil {
			return "skip"
		}
		ms, err := strconv.Atoi(f[1])
		if err != nil || ms < 1 || ms > 20000 {
			return "bad-op"
		}
		return rn.dial(time.Duration(ms) * time.Millisecond)
	}
	return "bad-op"
}

func (rn *runner) dial(d time.Duration) string {
	env := rn.env
	ctx, cancel := context.WithTimeout(context.Background(), d)
	hs := "err"
	done := make(chan struct{})
	go func() {
		defer close(done)
		defer func() {
			if e := recover(); e != nil {
				if os.Getenv("VH_DEBUG") != "" {
					fmt.Fprintf(os.Stderr, "dial panic: %v\n", e)
				}
				hs = "panic"
			}
		}()
		c, err := env.Dial(ctx)
		if err != nil {
			if os.Getenv("VH_DEBUG") != "" {
				fmt.Fprintf(os.Stderr, "dial: %v\n", err)
			}
			return
		}
		hs = "ok"
		c.CloseWithError(0, "")
	}()
	<-done
	cancel()
	// let close / retransmissions drain so that the next dial's datagrams are its own
	time.Sleep(3 * time.Second)
	synctest.Wait()

	recs := quic.VerifTakeCH()
	var chs []string
	for _, r := range recs {
		var ws []string
		for _, w := range r.Writes {
			ws = append(ws, hx(w))
		}
		if len(ws) == 0 {
			ws = []string{"-"}
		}
		chs = append(chs, fmt.Sprintf("%d:%s", r.Version, strings.Join(ws, "+")))
	}
	if len(chs) == 0 {
		chs = []string{"-"}
	}
	dgs := env.Net.Datagrams(e2e.ToServer)
	var keys []protocol.ConnectionID
	var pks, tails []string
	for _, dg := range dgs[rn.logPos:] {
		ps, tail := decodeDatagram(dg.Data, &keys)
		pks = append(pks, ps...)
		if len(ps) > 0 && tail != "" {
			tails = append(tails, tail)
		}
	}
	tl := "-"
	if len(tails) > 0 {
		tl = strings.Join(tails, ",")
	}
	rn.logPos = len(dgs)
	if len(pks) == 0 {
		pks = []string{"-"}
	}
	pp := "-"
	if ps := quic.VerifTakePackerPanics(); len(ps) > 0 {
		if len(ps) > 4 {
			ps = ps[:4]
		}
		pp = strings.Join(ps, ";")
	}
	return fmt.Sprintf("hs=%s pp=%s tl=%s ch=%s pk=%s", hs, pp, tl, strings.Join(chs, "|"), strings.Join(pks, ";"))
}

// decodeDatagram: one entry per Initial packet of the datagram, and what follows the last long header packet:
// "" nothing, z<n> n zero bytes, s<n> n bytes that start like a short header packet (fixed bit set), g<n> anything
// else (bytes a receiver can only misread).
func decodeDatagram(dg []byte, keys *[]protocol.ConnectionID) (out []string, tail string) {
	data := dg
	for len(data) > 0 {
		if !wire.IsLongHeaderPacket(data[0]) {
			break
		}
		hdr, pkt, rest, err := wire.ParsePacket(data)
		if err != nil {
			break
		}
		data = rest
		if hdr.Type != protocol.PacketTypeInitial {
			continue
		}
		out = append(out, decodeInitial(hdr, pkt, keys))
	}
	if len(data) > 0 {
		kind := "z"
		for _, b := range data {
			if b != 0 {
				kind = "g"
				break
			}
		}
		if kind == "g" && data[0]&0xc0 == 0x40 {
			kind = "s"
		}
		tail = fmt.Sprintf("%s%d", kind, len(data))
	}
	return out, tail
}

func decodeInitial(hdr *wire.Header, pkt []byte, keys *[]protocol.ConnectionID) string {
	ver := uint32(hdr.Version)
	try := func(id protocol.ConnectionID) (int64, []byte, bool) {
		_, opener := handshake.NewInitialAEAD(id, protocol.PerspectiveServer, hdr.Version)
		pnOff := int(hdr.ParsedLen())
		if len(pkt) < pnOff+4+16 {
			return 0, nil, false
		}
		raw := append([]byte(nil), pkt...)
		opener.DecryptHeader(raw[pnOff+4:pnOff+4+16], &raw[0], raw[pnOff:pnOff+4])
		pnLen := int(raw[0]&0b11) + 1
		var pn protocol.PacketNumber
		for _, b := range raw[pnOff : pnOff+pnLen] {
			pn = pn<<8 | protocol.PacketNumber(b)
		}
		copy(raw[pnOff+pnLen:pnOff+4], pkt[pnOff+pnLen:pnOff+4])
		payload, err := opener.Open(nil, raw[pnOff+pnLen:], pn, raw[:pnOff+pnLen])
		if err != nil {
			return 0, nil, false
		}
		return int64(pn), payload, true
	}
	for i, id := range *keys {
		if pn, payload, ok := try(id); ok {
			return fmt.Sprintf("%d,%d,%d,%d:%s", ver, i, pn, len(hdr.Token), frames(payload))
		}
	}
	if pn, payload, ok := try(hdr.DestConnectionID); ok {
		*keys = append(*keys, hdr.DestConnectionID)
		return fmt.Sprintf("%d,%d,%d,%d:%s", ver, len(*keys)-1, pn, len(hdr.Token), frames(payload))
	}
	return fmt.Sprintf("%d,?,0,0:", ver)
}

func readVarint(b []byte) (uint64, int, bool) {
	if len(b) == 0 {
		return 0, 0, false
	}
	l := 1 << (b[0] >> 6)
	if len(b) < l {
		return 0, 0, false
	}
	v := uint64(b[0] & 0x3f)
	for _, x := range b[1:l] {
		v = v<<8 | uint64(x)
	}
	return v, l, true
}

// frames renders the frames of a decrypted Initial payload; `!` marks where parsing stopped.
func frames(p []byte) string {
	var out []string
	vi := func() (uint64, bool) {
		v, n, ok := readVarint(p)
		if ok {
			p = p[n:]
		}
		return v, ok
	}
	for len(p) > 0 {
		if p[0] == 0 {
			n := 0
			for len(p) > 0 && p[0] == 0 {
				p = p[1:]
				n++
			}
			out = append(out, fmt.Sprintf("z%d", n))
			continue
		}
		t, ok := vi()
		if !ok {
			return strings.Join(append(out, "!"), "/")
		}
		switch t {
		case 1:
			out = append(out, "p")
		case 2, 3:
			_, ok1 := vi()
			_, ok2 := vi()
			cnt, ok3 := vi()
			_, ok4 := vi()
			if !ok1 || !ok2 || !ok3 || !ok4 || cnt > 256 {
				return strings.Join(append(out, "!"), "/")
			}
			for i := uint64(0); i < 2*cnt; i++ {
				if _, ok := vi(); !ok {
					return strings.Join(append(out, "!"), "/")
				}
			}
			if t == 3 {
				for i := 0; i < 3; i++ {
					if _, ok := vi(); !ok {
						return strings.Join(append(out, "!"), "/")
					}
				}
			}
			out = append(out, "a")
		case 6:
			off, ok1 := vi()
			l, ok2 := vi()
			if !ok1 || !ok2 || uint64(len(p)) < l {
				return strings.Join(append(out, "!"), "/")
			}
			out = append(out, fmt.Sprintf("c%d.%s", off, hx(p[:l])))
			p = p[l:]
		case 0x1c:
			code, ok1 := vi()
			_, ok2 := vi()
			l, ok3 := vi()
			if !ok1 || !ok2 || !ok3 || uint64(len(p)) < l {
				return strings.Join(append(out, "!"), "/")
			}
			p = p[l:]
			out = append(out, fmt.Sprintf("x%d", code))
		default:
			return strings.Join(append(out, fmt.Sprintf("!%d", t)), "/")
		}
	}
	if len(out) == 0 {
		return "-"
	}
	return strings.Join(out, "/")
}

func TestDriver(t *testing.T) {
	synctest.Test(t, func(t *testing.T) { vh.MainEnum(t, "chwire", newRunner, enumerate) })
}
