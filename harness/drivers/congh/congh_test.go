//go:build verif

// Package congh drives the real ackhandler.sentPacketHandler (all three packet number spaces, client or
// server, ECN on or off) with a recording proxy in front of its real congestion controller, for property
// C20: what the handler reports to the controller (which packet number for a loss / an ECN-CE signal,
// which bytes in flight), how the window, seen through the handler, reacts, and that the bytes in flight
// the handler reports stay equal to what is really outstanding across every reset of its state
// (MigratedPath, ResetForRetry, 0-RTT rejection, dropped Initial / Handshake spaces, QueueProbePacket).
// A simulated peer acknowledges what a simulated network delivered and counts ECN marks as RFC 9000
// section 13.4 says. Times are explicit nanoseconds.
package congh

import (
	"fmt"
	"sort"
	"strings"
	"testing"
	"time"

	"github.com/refraction-networking/uquic/internal/ackhandler"
	"github.com/refraction-networking/uquic/internal/monotime"
	"github.com/refraction-networking/uquic/internal/protocol"
	"github.com/refraction-networking/uquic/internal/utils"
	"github.com/refraction-networking/uquic/internal/verifharness/vh"
	"github.com/refraction-networking/uquic/internal/wire"
)

type spkt struct {
	sp          int // packet number space: 0 Initial, 1 Handshake, 2 application data
	pn, size, t int64
	ae          bool
	zero        bool // sent with 0-RTT keys
	ecn         protocol.ECN
	filled      bool // Exec has told the generator the packet number and codepoint
	void        bool // Exec skipped the send, or the packet's space was reset
	delivered   bool // the network delivers it
	ce          bool // … CE-marked
	counted     bool // the peer has received (and counted) it
}

type lostRec struct {
	rn *runner
	sp int
	pn int64
}

func (l *lostRec) OnAcked(wire.Frame) {}
func (l *lostRec) OnLost(wire.Frame)  { l.rn.lostNow = append(l.rn.lostNow, [2]int64{int64(l.sp), l.pn}) }

var spLetter = [3]string{"i", "h", "a"}

type runner struct {
	h       ackhandler.SentPacketHandler
	rtt     *utils.RTTStats
	calls   []string
	lostNow [][2]int64

	// facts Exec needs to turn dangling operations into `skip`
	dropped     [3]bool // Initial / Handshake space dropped
	zeroDropped bool    // 0-RTT rejected
	sent1RTT    bool
	sentHS      bool
	client      bool

	// generator: simulated network and peer
	style            int
	started          bool
	queue            []string
	now              int64
	mds              int64
	ecn              bool
	baseRTT          int64
	pkts             []*spkt
	peerIdx          int // packets [0,peerIdx) have reached the peer (or were dropped)
	ect0, ect1, ce   int64
	lastAck          string
	ceBurst          int
	dropP, ceP       int
	retried, sentIni bool
}

func (rn *runner) mk(mds int64, ecn, client, confirmed bool, initialPN int64) {
	rn.rtt = utils.NewRTTStats()
	rn.rtt.SetMaxAckDelay(25 * time.Millisecond)
	pers := protocol.PerspectiveServer
	if client {
		pers = protocol.PerspectiveClient
	}
	rn.h = ackhandler.NewSentPacketHandler(protocol.PacketNumber(initialPN), protocol.ByteCount(mds), rn.rtt, &utils.ConnectionStats{}, true, ecn,
		func(protocol.PacketNumber) {}, pers, nil, utils.DefaultLogger)
	rn.dropped = [3]bool{}
	rn.zeroDropped, rn.sent1RTT, rn.sentHS, rn.client = false, false, false, client
	if confirmed {
		rn.h.DropPackets(protocol.EncryptionInitial, 1)
		rn.h.DropPackets(protocol.EncryptionHandshake, 1) // handshake confirmed
		rn.dropped[0], rn.dropped[1] = true, true
	}
	rn.calls = nil
	rn.lostNow = nil
	ackhandler.VerifWrapCongestion(rn.h, func(s string) { rn.calls = append(rn.calls, s) })
}

func newRunner(r *vh.Rand) vh.Runner {
	rn := &runner{mds: 1252}
	rn.mk(1252, false, false, true, 0)
	rn.style = r.Pick(28, 24, 16, 12, 20) // steady / CE bursts / lossy / reordered ACKs / handshake with resets
	rn.now = 1_000_000 + r.Range(0, 1_000_000_000_000)
	rn.baseRTT = []int64{200_000, 2_000_000, 20_000_000, 80_000_000}[r.Intn(4)]
	rn.dropP = []int{0, 1, 8, 2, 3}[rn.style]
	rn.ceP = []int{2, 4, 3, 3, 2}[rn.style]
	return rn
}

// kind: 0 ordinary, 1 Path MTU probe, 2 path probe
func (rn *runner) genSendAt(r *vh.Rand, sp int, lvl string, kind int) string {
	size := rn.mds
	if r.Chance(20) {
		size = r.Range(40, rn.mds)
	}
	ae := 1
	switch kind {
	case 1:
		size = rn.mds + r.Range(1, 200)
	case 2:
		size = r.Range(1200, rn.mds)
	default:
		if r.Chance(6) {
			ae = 0
			size = r.Range(25, 60)
		}
	}
	drop := rn.dropP
	if kind == 1 {
		drop = 50
	}
	p := &spkt{sp: sp, pn: -1, size: size, t: rn.now, ae: ae == 1, zero: lvl == "z", delivered: !r.Chance(drop)}
	if rn.style == 1 && rn.ceBurst == 0 && r.Chance(6) {
		rn.ceBurst = int(r.Range(3, 25))
	}
	if rn.ceBurst > 0 {
		rn.ceBurst--
		p.ce = r.Chance(70)
	} else {
		p.ce = r.Chance(rn.ceP)
	}
	rn.pkts = append(rn.pkts, p) // pn and codepoint are filled in by Exec
	return fmt.Sprintf("send %s %d %d %d %d", lvl, rn.now, size, ae, kind)
}

func (rn *runner) genSend(r *vh.Rand) string {
	kind := 0
	switch {
	case r.Chance(3):
		kind = 1
	case r.Chance(2):
		kind = 2
	}
	return rn.genSendAt(r, 2, "a", kind)
}

// the peer receives everything sent at least half an RTT ago (in send order, minus drops), then
// acknowledges in one packet number space: all received packet numbers as ranges (the most recent 32
// ranges), cumulative ECN counts.
func (rn *runner) genAck(r *vh.Rand, stale bool) string {
	if stale && rn.lastAck != "" {
		f := strings.Fields(rn.lastAck)
		if sp := strings.Index("iha", f[1]); sp >= 0 && !rn.dropped[sp] {
			f[2] = fmt.Sprint(rn.now)
			return strings.Join(f, " ")
		}
	}
	adv := 0
	sp := -1
	for rn.peerIdx < len(rn.pkts) && (adv == 0 || r.Chance(55)) {
		p := rn.pkts[rn.peerIdx]
		if !p.filled && !p.void {
			break
		}
		rn.peerIdx++
		if p.void {
			continue
		}
		adv++
		if !p.delivered {
			continue
		}
		p.counted = true
		if !rn.dropped[p.sp] {
			sp = p.sp
		}
		switch {
		case p.ecn == protocol.ECT0 && p.ce, p.ecn == protocol.ECT1 && p.ce:
			rn.ce++
		case p.ecn == protocol.ECT0:
			rn.ect0++
		case p.ecn == protocol.ECT1:
			rn.ect1++
		}
		if arrive := p.t + rn.baseRTT/2; arrive > rn.now {
			rn.now = arrive
		}
	}
	if sp < 0 {
		for _, c := range []int{2, 1, 0} {
			if !rn.dropped[c] {
				sp = c
				break
			}
		}
	}
	var pns []int64
	for _, p := range rn.pkts[:rn.peerIdx] {
		if p.counted && !p.void && p.sp == sp {
			pns = append(pns, p.pn)
		}
	}
	if len(pns) == 0 {
		return rn.genAnySend(r)
	}
	sort.Slice(pns, func(i, j int) bool { return pns[i] < pns[j] })
	var ranges []string
	lo, hi := pns[0], pns[0]
	for _, x := range pns[1:] {
		if x == hi+1 {
			hi = x
			continue
		}
		ranges = append(ranges, fmt.Sprintf("%d-%d", lo, hi))
		lo, hi = x, x
	}
	ranges = append(ranges, fmt.Sprintf("%d-%d", lo, hi))
	if len(ranges) > 32 {
		ranges = ranges[len(ranges)-32:]
	}
	rn.now += rn.baseRTT/2 + r.Range(0, rn.baseRTT/8+1)
	delay := int64(0)
	if r.Chance(40) {
		delay = r.Range(0, 25_000_000)
	}
	e0, e1, ce := rn.ect0, rn.ect1, rn.ce
	if r.Chance(2) || sp != 2 { // a peer that does not report ECN counts / a bleaching path / a long-header ACK
		e0, e1, ce = 0, 0, 0
	}
	op := fmt.Sprintf("ack %s %d %d %d %d %d r=%s", spLetter[sp], rn.now, delay, e0, e1, ce, strings.Join(ranges, ";"))
	rn.lastAck = op
	return op
}

func (rn *runner) genTimeout(r *vh.Rand) string {
	if t := int64(rn.h.GetLossDetectionTimeout()); t != 0 {
		if t > rn.now {
			rn.now = t
		}
		if r.Chance(30) {
			rn.now += r.Range(0, 3_000_000)
		}
		return fmt.Sprintf("timeout %d", rn.now)
	}
	return rn.genAck(r, false)
}

func (rn *runner) voidSpace(sp int, only0RTT bool) {
	for _, p := range rn.pkts {
		if p.sp == sp && (!only0RTT || p.zero) {
			p.void = true
		}
	}
}

func (rn *runner) genAnySend(r *vh.Rand) string {
	if rn.dropped[0] && rn.dropped[1] {
		return rn.genSend(r)
	}
	return rn.genHandshakeSend(r)
}

// handshake phase: Initial, Handshake, 0-RTT (a client before its first 1-RTT packet) and 1-RTT packets
func (rn *runner) genHandshakeSend(r *vh.Rand) string {
	if r.Chance(25) {
		rn.now += r.Range(0, 500_000)
	}
	switch {
	case !rn.dropped[0] && r.Chance(45):
		rn.sentIni = true
		return rn.genSendAt(r, 0, "i", 0)
	case rn.client && !rn.sent1RTT && !rn.zeroDropped && r.Chance(60):
		return rn.genSendAt(r, 2, "z", 0)
	case !rn.dropped[1] && (!rn.client || rn.dropped[0] || r.Chance(8)) && r.Chance(50):
		return rn.genSendAt(r, 1, "h", 0)
	default:
		return rn.genSendAt(r, 2, "a", 0)
	}
}

func (rn *runner) genHandshake(r *vh.Rand) string {
	switch r.Pick(50, 24, 5, 6, 3, 12) {
	case 0:
		return rn.genHandshakeSend(r)
	case 1:
		return rn.genAck(r, false)
	case 2:
		return rn.genTimeout(r)
	case 3:
		var live []int
		for sp := 0; sp < 3; sp++ {
			if !rn.dropped[sp] {
				live = append(live, sp)
			}
		}
		return "qprobe " + spLetter[live[r.Intn(len(live))]]
	case 4:
		return fmt.Sprintf("mode %d", rn.now)
	default:
		switch {
		case rn.client && !rn.retried && !rn.sentHS && !rn.sent1RTT && rn.sentIni && !rn.dropped[0] && r.Chance(70):
			rn.retried = true
			rn.voidSpace(0, false)
			rn.voidSpace(2, false)
			rn.now += rn.baseRTT
			return fmt.Sprintf("retry %d", rn.now)
		case rn.client && !rn.zeroDropped && r.Chance(40):
			rn.voidSpace(2, true)
			return fmt.Sprintf("drop z %d", rn.now)
		case !rn.dropped[0]:
			rn.voidSpace(0, false)
			return fmt.Sprintf("drop i %d", rn.now)
		default:
			rn.voidSpace(1, false)
			return fmt.Sprintf("drop h %d", rn.now)
		}
	}
}

func (rn *runner) GenOp(r *vh.Rand, i int) string {
	if len(rn.queue) > 0 {
		op := rn.queue[0]
		rn.queue = rn.queue[1:]
		return op
	}
	if !rn.started {
		rn.started = true
		rn.mds = []int64{1200, 1252, 1280, 1452, r.Range(1200, 1500)}[r.Intn(5)]
		rn.ecn = !r.Chance(15)
		e, c, conf := 0, 0, 1
		ipn := int64(0) // a uQUIC spec may start the Initial packet number space anywhere
		if rn.ecn {
			e = 1
		}
		if rn.style == 4 {
			conf = 0
			if r.Chance(60) {
				c = 1
			}
			if r.Chance(25) {
				ipn = []int64{1, 300, 70000, r.Range(2, 1<<31)}[r.Intn(4)]
			}
		}
		return fmt.Sprintf("init %d %d %d %d %d", rn.mds, e, c, conf, ipn)
	}
	if !rn.dropped[0] || !rn.dropped[1] {
		return rn.genHandshake(r)
	}
	wSend, wAck := 60, 30
	if len(rn.pkts)-rn.peerIdx > 40 {
		wSend, wAck = 20, 70
	}
	switch r.Pick(wSend, wAck, 4, 1, 2, 2, 3) {
	case 0:
		switch rn.h.SendMode(monotime.Time(rn.now)) {
		case ackhandler.SendAny:
			if r.Chance(30) {
				rn.now += r.Range(0, 500_000)
			}
			return rn.genSend(r)
		case ackhandler.SendPacingLimited:
			if t := int64(rn.h.TimeUntilSend()); t > rn.now {
				rn.now = t
			} else {
				rn.now += r.Range(1, 2_000_000)
			}
			return rn.genSend(r)
		case ackhandler.SendPTOAppData:
			if r.Chance(25) {
				return "qprobe a"
			}
			return rn.genSendAt(r, 2, "a", 0) // a probe packet
		default: // congestion limited
			if r.Chance(10) {
				return rn.genSend(r)
			}
			return rn.genAck(r, false)
		}
	case 1:
		return rn.genAck(r, rn.style == 3 && r.Chance(25))
	case 2:
		return rn.genTimeout(r)
	case 3:
		if rn.mds < 1452 {
			rn.mds = 1452
		} else {
			rn.mds += r.Range(0, 60)
		}
		return fmt.Sprintf("mds %d", rn.mds)
	case 4:
		rn.now += r.Range(0, 3*rn.baseRTT)
		return rn.genAck(r, false)
	case 5:
		if !r.Chance(40) {
			return rn.genAck(r, false)
		}
		// a path migration, in most cases with a Path MTU probe and / or path probes still outstanding
		var ops []string
		if r.Chance(60) {
			ops = append(ops, rn.genSendAt(r, 2, "a", 1))
		}
		for r.Chance(40) && len(ops) < 4 {
			ops = append(ops, rn.genSendAt(r, 2, "a", 2))
		}
		if r.Chance(30) {
			ops = append(ops, rn.genSendAt(r, 2, "a", 0))
		}
		rn.now += r.Range(0, rn.baseRTT)
		rn.mds = []int64{1200, 1252, 1280, rn.mds}[r.Intn(4)]
		ops = append(ops, fmt.Sprintf("migrate %d %d", rn.now, rn.mds), fmt.Sprintf("mode %d", rn.now))
		rn.queue = ops[1:]
		return ops[0]
	default:
		return fmt.Sprintf("mode %d", rn.now)
	}
}

func b2s(b bool) string {
	if b {
		return "1"
	}
	return "0"
}

func joinKeys(xs [][2]int64) string {
	if len(xs) == 0 {
		return "-"
	}
	sort.Slice(xs, func(i, j int) bool {
		if xs[i][0] != xs[j][0] {
			return xs[i][0] < xs[j][0]
		}
		return xs[i][1] < xs[j][1]
	})
	var sb strings.Builder
	for i, x := range xs {
		if i > 0 {
			sb.WriteByte(';')
		}
		fmt.Fprintf(&sb, "%s%d", spLetter[x[0]], x[1])
	}
	return sb.String()
}

func joinPNs(xs []protocol.PacketNumber) string {
	if len(xs) == 0 {
		return "-"
	}
	var sb strings.Builder
	for i, x := range xs {
		if i > 0 {
			sb.WriteByte(';')
		}
		fmt.Fprintf(&sb, "%d", int64(x))
	}
	return sb.String()
}

func (rn *runner) suffix() string {
	w, bfl, ss := ackhandler.VerifCongView(rn.h)
	calls := "-"
	if len(rn.calls) > 0 {
		calls = strings.Join(rn.calls, ",")
	}
	trk, pp, ph := ackhandler.VerifTrackedAll(rn.h)
	var keys [][2]int64
	for sp := range trk {
		for _, pn := range trk[sp] {
			keys = append(keys, [2]int64{int64(sp), int64(pn)})
		}
	}
	s := fmt.Sprintf(" | w=%d bif=%d ss=%s calls=%s lost=%s trk=%s pp=%s ph=%s r=%d,%d,%d", int64(w), int64(bfl), b2s(ss), calls,
		joinKeys(rn.lostNow), joinKeys(keys), joinPNs(pp), joinPNs(ph), int64(rn.rtt.LatestRTT()), int64(rn.rtt.MinRTT()), int64(rn.rtt.SmoothedRTT()))
	rn.calls = nil
	rn.lostNow = nil
	return s
}

func (rn *runner) AfterPanic(op string) string { return "PANIC" + rn.suffix() }

func parseRanges(s string) []wire.AckRange {
	var out []wire.AckRange
	for _, part := range strings.Split(strings.TrimPrefix(s, "r="), ";") {
		var lo, hi int64
		if _, err := fmt.Sscanf(part, "%d-%d", &lo, &hi); err == nil && lo <= hi {
			out = append(out, wire.AckRange{Smallest: protocol.PacketNumber(lo), Largest: protocol.PacketNumber(hi)})
		}
	}
	// wire order: highest range first
	sort.Slice(out, func(i, j int) bool { return out[i].Smallest > out[j].Smallest })
	return out
}

var modeNames = map[ackhandler.SendMode]string{
	ackhandler.SendNone: "none", ackhandler.SendAck: "ack", ackhandler.SendPTOInitial: "pto-initial",
	ackhandler.SendPTOHandshake: "pto-handshake", ackhandler.SendPTOAppData: "pto-appdata",
	ackhandler.SendPacingLimited: "pacing", ackhandler.SendAny: "any",
}

// level letter -> packet number space, encryption level
func level(l string) (int, protocol.EncryptionLevel, bool) {
	switch l {
	case "i":
		return 0, protocol.EncryptionInitial, true
	case "h":
		return 1, protocol.EncryptionHandshake, true
	case "z":
		return 2, protocol.Encryption0RTT, true
	case "a":
		return 2, protocol.Encryption1RTT, true
	}
	return 0, 0, false
}

func (rn *runner) skipSend() {
	for _, p := range rn.pkts {
		if !p.filled && !p.void {
			p.void = true
			break
		}
	}
}

func (rn *runner) Exec(op string) string {
	f := strings.Fields(op)
	a := func(i int) int64 {
		if i < len(f) {
			return vh.Atoi64(f[i])
		}
		return 0
	}
	s := func(i int) string {
		if i < len(f) {
			return f[i]
		}
		return ""
	}
	res := "bad-op"
	switch f[0] {
	case "init":
		rn.mk(a(1), a(2) == 1, a(3) == 1, a(4) == 1, max(a(5), 0))
		res = "ok"
	case "send":
		sp, enc, ok := level(s(1))
		kind := a(5)
		if !ok || rn.dropped[sp] || (s(1) == "z" && (rn.sent1RTT || rn.zeroDropped)) || (kind != 0 && s(1) != "a") || (kind == 2 && a(4) != 1) {
			rn.skipSend()
			res = "skip"
			break
		}
		pn := rn.h.PopPacketNumber(enc)
		ecn := rn.h.ECNMode(enc == protocol.Encryption1RTT)
		var frames []ackhandler.Frame
		if a(4) == 1 {
			frames = []ackhandler.Frame{{Frame: &wire.PingFrame{}, Handler: &lostRec{rn: rn, sp: sp, pn: int64(pn)}}}
		}
		rn.h.SentPacket(monotime.Time(a(2)), pn, protocol.InvalidPacketNumber, nil, frames, enc, ecn, protocol.ByteCount(a(3)), kind == 1, kind == 2)
		switch s(1) {
		case "a":
			rn.sent1RTT = true
		case "h":
			rn.sentHS = true
		}
		// tell the generator which number and codepoint the packet got
		for _, p := range rn.pkts {
			if !p.filled && !p.void {
				p.pn, p.ecn, p.filled = int64(pn), ecn, true
				break
			}
		}
		res = fmt.Sprintf("pn=%d e=%d", int64(pn), int(ecn))
	case "ack":
		sp, enc, ok := level(s(1))
		if len(f) < 8 || !ok || s(1) == "z" || rn.dropped[sp] {
			res = "skip"
			break
		}
		rs := parseRanges(f[7])
		if len(rs) == 0 {
			res = "skip"
			break
		}
		_, err := rn.h.ReceivedAck(&wire.AckFrame{AckRanges: rs, DelayTime: time.Duration(a(3)), ECT0: uint64(a(4)), ECT1: uint64(a(5)), ECNCE: uint64(a(6))},
			enc, monotime.Time(a(2)))
		if err != nil {
			res = "err"
		} else {
			res = "ok"
		}
	case "timeout":
		t := rn.h.GetLossDetectionTimeout()
		if t == 0 || int64(t) > a(1) {
			res = "skip"
			break
		}
		if err := rn.h.OnLossDetectionTimeout(monotime.Time(a(1))); err != nil {
			res = "err"
		} else {
			res = "ok"
		}
	case "mds":
		rn.h.SetMaxDatagramSize(protocol.ByteCount(a(1)))
		res = "ok"
	case "migrate":
		if a(2) <= 0 {
			res = "skip"
			break
		}
		rn.h.MigratedPath(monotime.Time(a(1)), protocol.ByteCount(a(2)))
		ackhandler.VerifWrapCongestion(rn.h, func(s string) { rn.calls = append(rn.calls, s) })
		res = "ok"
	case "drop":
		sp, enc, ok := level(s(1))
		if !ok || s(1) == "a" || (s(1) != "z" && rn.dropped[sp]) || (s(1) == "z" && rn.zeroDropped) {
			res = "skip"
			break
		}
		rn.h.DropPackets(enc, monotime.Time(a(2)))
		if s(1) == "z" {
			rn.zeroDropped = true
		} else {
			rn.dropped[sp] = true
		}
		res = "ok"
	case "retry":
		// a Retry is only processed before any Handshake or 1-RTT packet was sent
		if rn.dropped[0] || rn.sentHS || rn.sent1RTT {
			res = "skip"
			break
		}
		rn.h.ResetForRetry(monotime.Time(a(1)))
		res = "ok"
	case "qprobe":
		sp, enc, ok := level(s(1))
		if !ok || s(1) == "z" || rn.dropped[sp] {
			res = "skip"
			break
		}
		res = b2s(rn.h.QueueProbePacket(enc))
	case "mode":
		res = modeNames[rn.h.SendMode(monotime.Time(a(1)))]
	}
	return res + rn.suffix()
}

func TestDriver(t *testing.T) { vh.Main(t, "congh", newRunner) }
