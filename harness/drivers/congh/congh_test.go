//go:build verif

// Package congh drives the real ackhandler.sentPacketHandler (application-data space, ECN on or off)
// with a recording proxy in front of its real congestion controller, for property C20: what the
// handler reports to the controller (which packet number for a loss / an ECN-CE signal) and how the
// window, seen through the handler, reacts. A simulated peer acknowledges what a simulated network
// delivered and counts ECN marks as RFC 9000 section 13.4 says. Times are explicit nanoseconds.
package congh

import (
	"fmt"
	"sort"
	"strings"
	"testing"
	"time"

	"github.com/refraction-networking/uquic/internal/ackhandler"
	"github.com/refraction-networking/uquic/internal/monotime"
	"github.com/refraction-networking/uquic/internal/protocol"
	"github.com/refraction-networking/uquic/internal/utils"
	"github.com/refraction-networking/uquic/internal/verifharness/vh"
	"github.com/refraction-networking/uquic/internal/wire"
)

type spkt struct {
	pn, size, t int64
	ae          bool
	ecn         protocol.ECN
	delivered   bool // the network delivers it
	ce          bool // … CE-marked
	counted     bool // the peer has received (and counted) it
}

type lostRec struct {
	rn *runner
	pn int64
}

func (l *lostRec) OnAcked(wire.Frame) {}
func (l *lostRec) OnLost(wire.Frame)  { l.rn.lostNow = append(l.rn.lostNow, l.pn) }

type runner struct {
	h       ackhandler.SentPacketHandler
	rtt     *utils.RTTStats
	calls   []string
	lostNow []int64

	// generator: simulated network and peer
	style   int
	started bool
	queue   []string
	now     int64
	mds     int64
	ecn     bool
	baseRTT int64
	pkts    []*spkt
	peerIdx int // packets [0,peerIdx) have reached the peer (or were dropped)
	ect0, ect1, ce int64
	lastAck string
	ceBurst int
	dropP, ceP int
}

func (rn *runner) mk(mds int64, ecn bool) {
	rn.rtt = utils.NewRTTStats()
	rn.rtt.SetMaxAckDelay(25 * time.Millisecond)
	rn.h = ackhandler.NewSentPacketHandler(0, protocol.ByteCount(mds), rn.rtt, &utils.ConnectionStats{}, true, ecn,
		func(protocol.PacketNumber) {}, protocol.PerspectiveServer, nil, utils.DefaultLogger)
	rn.h.DropPackets(protocol.EncryptionInitial, 1)
	rn.h.DropPackets(protocol.EncryptionHandshake, 1) // handshake confirmed
	rn.calls = nil
	ackhandler.VerifWrapCongestion(rn.h, func(s string) { rn.calls = append(rn.calls, s) })
}

func newRunner(r *vh.Rand) vh.Runner {
	rn := &runner{mds: 1252}
	rn.mk(1252, false)
	rn.style = r.Pick(35, 30, 20, 15) // steady / CE bursts / lossy / reordered ACKs
	rn.now = 1_000_000 + r.Range(0, 1_000_000_000_000)
	rn.baseRTT = []int64{200_000, 2_000_000, 20_000_000, 80_000_000}[r.Intn(4)]
	rn.dropP = []int{0, 1, 8, 2}[rn.style]
	rn.ceP = []int{2, 4, 3, 3}[rn.style]
	return rn
}

func (rn *runner) genSend(r *vh.Rand) string {
	size := rn.mds
	if r.Chance(20) {
		size = r.Range(40, rn.mds)
	}
	ae := 1
	if r.Chance(6) {
		ae = 0
		size = r.Range(25, 60)
	}
	p := &spkt{pn: -1, size: size, t: rn.now, ae: ae == 1, delivered: !r.Chance(rn.dropP)}
	if rn.style == 1 && rn.ceBurst == 0 && r.Chance(6) {
		rn.ceBurst = int(r.Range(3, 25))
	}
	if rn.ceBurst > 0 {
		rn.ceBurst--
		p.ce = r.Chance(70)
	} else {
		p.ce = r.Chance(rn.ceP)
	}
	rn.pkts = append(rn.pkts, p) // pn and codepoint are filled in by Exec
	return fmt.Sprintf("send %d %d %d", rn.now, size, ae)
}

// the peer receives everything sent at least half an RTT ago (in send order, minus drops), then
// acknowledges: all received packet numbers as ranges (the most recent 32 ranges), cumulative ECN counts.
func (rn *runner) genAck(r *vh.Rand, stale bool) string {
	if stale && rn.lastAck != "" {
		f := strings.Fields(rn.lastAck)
		f[1] = fmt.Sprint(rn.now)
		return strings.Join(f, " ")
	}
	adv := 0
	for rn.peerIdx < len(rn.pkts) && (adv == 0 || r.Chance(55)) {
		p := rn.pkts[rn.peerIdx]
		if p.pn < 0 {
			break
		}
		rn.peerIdx++
		adv++
		if !p.delivered {
			continue
		}
		p.counted = true
		switch {
		case p.ecn == protocol.ECT0 && p.ce, p.ecn == protocol.ECT1 && p.ce:
			rn.ce++
		case p.ecn == protocol.ECT0:
			rn.ect0++
		case p.ecn == protocol.ECT1:
			rn.ect1++
		}
		if arrive := p.t + rn.baseRTT/2; arrive > rn.now {
			rn.now = arrive
		}
	}
	var pns []int64
	for _, p := range rn.pkts[:rn.peerIdx] {
		if p.counted {
			pns = append(pns, p.pn)
		}
	}
	if len(pns) == 0 {
		return rn.genSend(r)
	}
	sort.Slice(pns, func(i, j int) bool { return pns[i] < pns[j] })
	var ranges []string
	lo, hi := pns[0], pns[0]
	for _, x := range pns[1:] {
		if x == hi+1 {
			hi = x
			continue
		}
		ranges = append(ranges, fmt.Sprintf("%d-%d", lo, hi))
		lo, hi = x, x
	}
	ranges = append(ranges, fmt.Sprintf("%d-%d", lo, hi))
	if len(ranges) > 32 {
		ranges = ranges[len(ranges)-32:]
	}
	rn.now += rn.baseRTT/2 + r.Range(0, rn.baseRTT/8+1)
	delay := int64(0)
	if r.Chance(40) {
		delay = r.Range(0, 25_000_000)
	}
	e0, e1, ce := rn.ect0, rn.ect1, rn.ce
	if r.Chance(2) { // a peer that does not report ECN counts / a bleaching path
		e0, e1, ce = 0, 0, 0
	}
	op := fmt.Sprintf("ack %d %d %d %d %d r=%s", rn.now, delay, e0, e1, ce, strings.Join(ranges, ";"))
	rn.lastAck = op
	return op
}

func (rn *runner) GenOp(r *vh.Rand, i int) string {
	if len(rn.queue) > 0 {
		op := rn.queue[0]
		rn.queue = rn.queue[1:]
		return op
	}
	if !rn.started {
		rn.started = true
		rn.mds = []int64{1200, 1252, 1280, 1452, r.Range(1200, 1500)}[r.Intn(5)]
		rn.ecn = !r.Chance(15)
		e := 0
		if rn.ecn {
			e = 1
		}
		return fmt.Sprintf("init %d %d", rn.mds, e)
	}
	wSend, wAck := 60, 30
	if len(rn.pkts)-rn.peerIdx > 40 {
		wSend, wAck = 20, 70
	}
	switch r.Pick(wSend, wAck, 4, 1, 2) {
	case 0:
		switch rn.h.SendMode(monotime.Time(rn.now)) {
		case ackhandler.SendAny:
			if r.Chance(30) {
				rn.now += r.Range(0, 500_000)
			}
			return rn.genSend(r)
		case ackhandler.SendPacingLimited:
			if t := int64(rn.h.TimeUntilSend()); t > rn.now {
				rn.now = t
			} else {
				rn.now += r.Range(1, 2_000_000)
			}
			return rn.genSend(r)
		case ackhandler.SendPTOAppData:
			return rn.genSend(r) // a probe packet
		default: // congestion limited
			if r.Chance(10) {
				return rn.genSend(r)
			}
			return rn.genAck(r, false)
		}
	case 1:
		return rn.genAck(r, rn.style == 3 && r.Chance(25))
	case 2:
		if t := int64(rn.h.GetLossDetectionTimeout()); t != 0 {
			if t > rn.now {
				rn.now = t
			}
			if r.Chance(30) {
				rn.now += r.Range(0, 3_000_000)
			}
			return fmt.Sprintf("timeout %d", rn.now)
		}
		return rn.genAck(r, false)
	case 3:
		if rn.mds < 1452 {
			rn.mds = 1452
		} else {
			rn.mds += r.Range(0, 60)
		}
		return fmt.Sprintf("mds %d", rn.mds)
	default:
		rn.now += r.Range(0, 3*rn.baseRTT)
		return rn.genAck(r, false)
	}
}

func b2s(b bool) string {
	if b {
		return "1"
	}
	return "0"
}

func joinInts(xs []int64) string {
	if len(xs) == 0 {
		return "-"
	}
	var sb strings.Builder
	for i, x := range xs {
		if i > 0 {
			sb.WriteByte(';')
		}
		fmt.Fprintf(&sb, "%d", x)
	}
	return sb.String()
}

func (rn *runner) suffix() string {
	w, bfl, ss := ackhandler.VerifCongView(rn.h)
	calls := "-"
	if len(rn.calls) > 0 {
		calls = strings.Join(rn.calls, ",")
	}
	var trk []int64
	for _, p := range ackhandler.VerifTrackedApp(rn.h) {
		trk = append(trk, int64(p))
	}
	s := fmt.Sprintf(" | w=%d bif=%d ss=%s calls=%s lost=%s trk=%s r=%d,%d,%d", int64(w), int64(bfl), b2s(ss), calls,
		joinInts(rn.lostNow), joinInts(trk), int64(rn.rtt.LatestRTT()), int64(rn.rtt.MinRTT()), int64(rn.rtt.SmoothedRTT()))
	rn.calls = nil
	rn.lostNow = nil
	return s
}

func (rn *runner) AfterPanic(op string) string { return "PANIC" + rn.suffix() }

func parseRanges(s string) []wire.AckRange {
	var out []wire.AckRange
	for _, part := range strings.Split(strings.TrimPrefix(s, "r="), ";") {
		var lo, hi int64
		if _, err := fmt.Sscanf(part, "%d-%d", &lo, &hi); err == nil && lo <= hi {
			out = append(out, wire.AckRange{Smallest: protocol.PacketNumber(lo), Largest: protocol.PacketNumber(hi)})
		}
	}
	// wire order: highest range first
	sort.Slice(out, func(i, j int) bool { return out[i].Smallest > out[j].Smallest })
	return out
}

func (rn *runner) Exec(op string) string {
	f := strings.Fields(op)
	a := func(i int) int64 {
		if i < len(f) {
			return vh.Atoi64(f[i])
		}
		return 0
	}
	res := "bad-op"
	switch f[0] {
	case "init":
		rn.mk(a(1), a(2) == 1)
		res = "ok"
	case "send":
		pn := rn.h.PopPacketNumber(protocol.Encryption1RTT)
		ecn := rn.h.ECNMode(true)
		var frames []ackhandler.Frame
		if a(3) == 1 {
			frames = []ackhandler.Frame{{Frame: &wire.PingFrame{}, Handler: &lostRec{rn: rn, pn: int64(pn)}}}
		}
		rn.h.SentPacket(monotime.Time(a(1)), pn, protocol.InvalidPacketNumber, nil, frames, protocol.Encryption1RTT, ecn, protocol.ByteCount(a(2)), false, false)
		// tell the generator which number and codepoint the packet got
		for _, p := range rn.pkts {
			if p.pn < 0 {
				p.pn, p.ecn = int64(pn), ecn
				break
			}
		}
		res = fmt.Sprintf("pn=%d e=%d", int64(pn), int(ecn))
	case "ack":
		if len(f) < 7 {
			break
		}
		rs := parseRanges(f[6])
		if len(rs) == 0 {
			res = "err"
			break
		}
		_, err := rn.h.ReceivedAck(&wire.AckFrame{AckRanges: rs, DelayTime: time.Duration(a(2)), ECT0: uint64(a(3)), ECT1: uint64(a(4)), ECNCE: uint64(a(5))},
			protocol.Encryption1RTT, monotime.Time(a(1)))
		if err != nil {
			res = "err"
		} else {
			res = "ok"
		}
	case "timeout":
		t := rn.h.GetLossDetectionTimeout()
		if t == 0 || int64(t) > a(1) {
			res = "skip"
			break
		}
		if err := rn.h.OnLossDetectionTimeout(monotime.Time(a(1))); err != nil {
			res = "err"
		} else {
			res = "ok"
		}
	case "mds":
		rn.h.SetMaxDatagramSize(protocol.ByteCount(a(1)))
		res = "ok"
	}
	return res + rn.suffix()
}

func TestDriver(t *testing.T) { vh.Main(t, "congh", newRunner) }
