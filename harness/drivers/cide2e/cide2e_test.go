//go:build verif

// Package cide2e is the end-to-end driver of property C16: a real client and a real server (Transport.Listen) over
// testutils/simnet inside a testing/synctest bubble. One op = one complete connection: handshake (with or without a
// Retry), some time, a little traffic, close by either side, the closing period — and then the routing table and the
// reset-token table of BOTH transports are read. It covers the glue that connection.go / server.go / transport.go put
// around connIDGenerator, connIDManager and packetHandlerMap (which connection IDs are handed to the generator, that
// the run loop sweeps retired IDs, that handleCloseError picks a close path that empties the tables).
//
// op:     scn retry=<0|1> ccid=<len> scid=<len> closer=<c|s> rtt=<ms> hold=<ms> wait=<ms>
// result: hs=<ok|err..> mid_stale=<k> mid_routes=<n> end_srv_routes=<n> end_srv_tokens=<n> end_cli_routes=<n> end_cli_tokens=<n>
package cide2e

import (
	"bytes"
	"context"
	"fmt"
	"io"
	"net"
	"os"
	"strconv"
	"strings"
	"testing"
	"testing/synctest"
	"time"

	quic "github.com/refraction-networking/uquic"
	"github.com/refraction-networking/uquic/internal/verifharness/e2e"
	"github.com/refraction-networking/uquic/internal/verifharness/vh"
)

var theT *testing.T

type runner struct{}

func (rn *runner) GenOp(r *vh.Rand, i int) string {
	ccid := []int{0, 4, 4, 8, 12, 20}[r.Intn(6)]
	scid := []int{4, 4, 8, 16}[r.Intn(4)]
	closer := "c"
	if r.Bool() {
		closer = "s"
	}
	return fmt.Sprintf("scn retry=%d ccid=%d scid=%d closer=%s rtt=%d hold=%d wait=%d",
		r.Intn(2), ccid, scid, closer, r.Range(2, 80), r.Range(2000, 5000), r.Range(5000, 9000))
}

func field(op, key string, def int64) int64 {
	for _, w := range strings.Fields(op) {
		if strings.HasPrefix(w, key+"=") {
			n, err := strconv.ParseInt(w[len(key)+1:], 10, 64)
			if err == nil {
				return n
			}
		}
	}
	return def
}

func sfield(op, key, def string) string {
	for _, w := range strings.Fields(op) {
		if strings.HasPrefix(w, key+"=") {
			return w[len(key)+1:]
		}
	}
	return def
}

// longHeader extracts packet type (QUIC v1: 0 Initial, 1 0-RTT, 2 Handshake, 3 Retry), destination and source
// connection ID of a long-header packet at the start of a datagram.
func longHeader(b []byte) (typ int, dcid, scid []byte, ok bool) {
	if len(b) < 7 || b[0]&0x80 == 0 {
		return 0, nil, nil, false
	}
	l := int(b[5])
	if l > 20 || len(b) < 7+l {
		return 0, nil, nil, false
	}
	dcid = b[6 : 6+l]
	sl := int(b[6+l])
	if sl > 20 || len(b) < 7+l+sl {
		return 0, nil, nil, false
	}
	return int(b[0]&0x30) >> 4, dcid, b[7+l : 7+l+sl], true
}

func contains(l [][]byte, x []byte) bool {
	for _, y := range l {
		if bytes.Equal(x, y) {
			return true
		}
	}
	return false
}

func (rn *runner) Exec(op string) (res string) {
	if !strings.HasPrefix(op, "scn") {
		return "skip"
	}
	retry := field(op, "retry", 0) == 1
	ccid := int(field(op, "ccid", 4))
	scid := int(field(op, "scid", 4))
	closer := sfield(op, "closer", "c")
	rtt := time.Duration(field(op, "rtt", 20)) * time.Millisecond
	hold := time.Duration(field(op, "hold", 3000)) * time.Millisecond
	wait := time.Duration(field(op, "wait", 6000)) * time.Millisecond
	res = "hs=bubble-failed"
	ok := theT.Run("scn", func(t *testing.T) {
		synctest.Test(t, func(t *testing.T) {
			env, err := e2e.Start(e2e.Setup{RTT: rtt,
				ServerTransport: func(tr *quic.Transport) {
					tr.ConnectionIDLength = scid
					tr.VerifySourceAddress = func(net.Addr) bool { return retry }
				},
				ClientTransport: func(tr *quic.Transport) { tr.ConnectionIDLength = ccid },
			})
			if err != nil {
				res = "hs=start:" + e2e.ErrString(err)
				return
			}
			defer env.Close()
			srvConn := make(chan *quic.Conn, 1)
			go func() {
				c, err := env.Listener.Accept(context.Background())
				if err != nil {
					close(srvConn)
					return
				}
				srvConn <- c
				for {
					s, err := c.AcceptStream(context.Background())
					if err != nil {
						return
					}
					go func() { io.Copy(io.Discard, s) }()
				}
			}()
			ctx, cancel := context.WithTimeout(context.Background(), 20*time.Second)
			defer cancel()
			c, err := env.Dial(ctx)
			if err != nil {
				res = "hs=dial:" + e2e.ErrString(err)
				return
			}
			sc, okc := <-srvConn
			if !okc {
				res = "hs=accept-failed"
				return
			}
			// the connection lives for a while: the handshake IDs expire 3 PTO after the handshake
			time.Sleep(hold)
			if s, err := c.OpenStreamSync(ctx); err == nil { // some traffic so that both run loops come round
				s.Write([]byte("ping"))
				s.Close()
			}
			time.Sleep(300 * time.Millisecond)
			synctest.Wait()
			// the handshake-only destination connection IDs: what the client puts into its Initial packets before it has
			// heard from the server connection (the original random DCID; after a Retry the Retry packet's SCID).
			// Later Initial packets already carry connection IDs the server issued (NEW_CONNECTION_ID in its 0.5-RTT flight).
			var own, first [][]byte
			heard := false
			for _, d := range env.Net.Log {
				typ, dcid, scid, ok := longHeader(d.Data)
				if !ok {
					continue
				}
				switch {
				case d.Dir == e2e.ToClient && typ == 3:
					if !contains(first, scid) {
						first = append(first, append([]byte{}, scid...))
					}
				case d.Dir == e2e.ToClient:
					heard = true
					own = append(own, append([]byte{}, scid...))
				case d.Dir == e2e.ToServer && typ == 0 && !heard:
					if !contains(first, dcid) {
						first = append(first, append([]byte{}, dcid...))
					}
				}
			}
			ids, _, _ := quic.VerifTransportRouting(env.ServerTr)
			stale := 0
			for _, id := range ids {
				for _, f := range first {
					if bytes.Equal(id, f) {
						stale++
					}
				}
			}
			midRoutes := len(ids)
			if os.Getenv("VH_DEBUG") != "" {
				for _, d := range env.Net.Log {
					if typ, dcid, scid, ok := longHeader(d.Data); ok {
						fmt.Fprintf(os.Stderr, "%s #%d at=%v typ=%d dcid=%x scid=%x len=%d hdr=%x\n", d.Dir, d.Index, d.At, typ, dcid, scid, len(d.Data), d.Data[:24])
					}
				}
				fmt.Fprintf(os.Stderr, "own=%x first=%x routes=%x\n", own, first, ids)
			}
			if closer == "s" {
				sc.CloseWithError(7, "bye")
			} else {
				c.CloseWithError(7, "bye")
			}
			time.Sleep(wait)
			synctest.Wait()
			sids, _, stok := quic.VerifTransportRouting(env.ServerTr)
			cids, _, ctok := quic.VerifTransportRouting(env.ClientTr)
			mr := "some"
			if midRoutes == 0 {
				mr = "none"
			}
			res = fmt.Sprintf("hs=ok mid_stale=%d mid_routes=%s end_srv_routes=%d end_srv_tokens=%d end_cli_routes=%d end_cli_tokens=%d",
				stale, mr, len(sids), stok, len(cids), ctok)
		})
	})
	if !ok && res == "hs=bubble-failed" {
		res = "hs=bubble-failed"
	}
	return res
}

func TestDriver(t *testing.T) {
	theT = t
	vh.Main(t, "cide2e", func(r *vh.Rand) vh.Runner { return &runner{} })
}
