//go:build verif

// Package cide2e is the end-to-end driver of property C16: a real client and a real server (Transport.Listen) over
// testutils/simnet inside a testing/synctest bubble. One op = one complete connection: handshake (with or without a
// Retry), some time, a little traffic, close by either side, the closing period — and then the routing table and the
// reset-token table of BOTH transports are read. It covers the glue that connection.go / server.go / transport.go put
// around connIDGenerator, connIDManager and packetHandlerMap (which connection IDs are handed to the generator, that
// the run loop sweeps retired IDs, that handleCloseError picks a close path that empties the tables).
//
// op:     scn retry=<0|1> ccid=<len> scid=<len> closer=<c|s> rtt=<ms> hold=<ms> wait=<ms>
// result: hs=<ok|err..> mid_stale=<k> mid_routes=<n> end_srv_routes=<n> end_srv_tokens=<n> end_cli_routes=<n> end_cli_tokens=<n>
package cide2e

import (
	"bytes"
	"context"
	"fmt"
	"io"
	"net"
	"os"
	"strconv"
	"strings"
	"sync/atomic"
	"testing"
	"testing/synctest"
	"time"

	quic "github.com/refraction-networking/uquic"
	"github.com/refraction-networking/uquic/internal/protocol"
	"github.com/refraction-networking/uquic/internal/verifharness/e2e"
	"github.com/refraction-networking/uquic/internal/verifharness/vh"
	"github.com/refraction-networking/uquic/qlog"
)

var theT *testing.T

type runner struct{}

// redialOps: every kind of client x every way the first connection on the transport ends, with the second dial inside and
// after the closing period of the first; walked through first, then drawn at random.
func redialOps() []string {
	var out []string
	for _, cli := range []string{"plain0", "chrome", "plain4", "firefox", "uplain"} {
		for _, how := range []string{"closec", "closes", "vn", "cancel"} {
			for _, gap := range []int{0, 40, 2500} {
				if (how == "vn" && gap != 0) || (how == "cancel" && gap == 2500) {
					continue
				}
				out = append(out, fmt.Sprintf("redial cli=%s how=%s gap=%d scid=8 rtt=20 hold=2500 wait=6000 retry=%d", cli, how, gap, len(out)%2))
			}
		}
	}
	return out
}

var opCounter atomic.Int64

func (rn *runner) GenOp(r *vh.Rand, i int) string {
	if n := int(opCounter.Add(1)) - 1; n%3 == 2 && n/3 < len(redialOps()) {
		return redialOps()[n/3]
	}
	if r.Chance(22) { // a second connection on the same transport: re-dial after a close / after Version Negotiation
		how := []string{"closec", "closes", "vn", "cancel"}[r.Intn(4)]
		gap := []int64{0, r.Range(0, 100), r.Range(0, 700), r.Range(1500, 4000)}[r.Intn(4)]
		if how == "vn" {
			gap = 0
		}
		rtt := r.Range(2, 80)
		extra := ""
		if how == "cancel" && r.Chance(60) {
			extra = fmt.Sprintf(" cancelat=%d", r.Range(0, 3*rtt))
		}
		return fmt.Sprintf("redial cli=%s how=%s gap=%d scid=%d rtt=%d hold=%d wait=%d retry=%d%s",
			[]string{"plain0", "chrome", "chrome", "plain4", "firefox", "uplain"}[r.Intn(6)], how, gap,
			[]int{4, 8, 16}[r.Intn(3)], rtt, r.Range(1500, 4000), r.Range(5000, 9000), r.Intn(2), extra)
	}
	if r.Chance(40) { // a client that probes one or two more paths (second / third Transport), possibly migrates, possibly back
		closer := "c"
		if r.Bool() {
			closer = "s"
		}
		if r.Chance(35) {
			// the peer retires one of our connection IDs (it abandons a probed path when we migrate), then a further path is
			// added, then the peer retires another one, then the connection closes while both still wait for their expiry
			return fmt.Sprintf("mig ccid=%d scid=%d closer=%s rtt=%d paths=2 switch=2 back=0 gap=0 wait=%d plan=r2",
				[]int{4, 8, 12}[r.Intn(3)], []int{4, 8, 16}[r.Intn(3)], closer, r.Range(4, 70), r.Range(5000, 9000))
		}
		paths := 1 + r.Intn(2)
		return fmt.Sprintf("mig ccid=%d scid=%d closer=%s rtt=%d paths=%d switch=%d back=%d gap=%d wait=%d",
			[]int{4, 4, 8, 12, 20}[r.Intn(5)], []int{4, 8, 16}[r.Intn(3)], closer, r.Range(2, 80), paths, r.Intn(paths+1), r.Intn(2),
			r.Range(0, 400), r.Range(5000, 9000))
	}
	ccid := []int{0, 4, 4, 8, 12, 20}[r.Intn(6)]
	scid := []int{4, 4, 8, 16}[r.Intn(4)]
	closer := "c"
	if r.Bool() {
		closer = "s"
	}
	return fmt.Sprintf("scn retry=%d ccid=%d scid=%d closer=%s rtt=%d hold=%d wait=%d",
		r.Intn(2), ccid, scid, closer, r.Range(2, 80), r.Range(2000, 5000), r.Range(5000, 9000))
}

func field(op, key string, def int64) int64 {
	for _, w := range strings.Fields(op) {
		if strings.HasPrefix(w, key+"=") {
			n, err := strconv.ParseInt(w[len(key)+1:], 10, 64)
			if err == nil {
				return n
			}
		}
	}
	return def
}

func sfield(op, key, def string) string {
	for _, w := range strings.Fields(op) {
		if strings.HasPrefix(w, key+"=") {
			return w[len(key)+1:]
		}
	}
	return def
}

// longHeader extracts packet type (QUIC v1: 0 Initial, 1 0-RTT, 2 Handshake, 3 Retry), destination and source
// connection ID of a long-header packet at the start of a datagram.
func longHeader(b []byte) (typ int, dcid, scid []byte, ok bool) {
	if len(b) < 7 || b[0]&0x80 == 0 {
		return 0, nil, nil, false
	}
	l := int(b[5])
	if l > 20 || len(b) < 7+l {
		return 0, nil, nil, false
	}
	dcid = b[6 : 6+l]
	sl := int(b[6+l])
	if sl > 20 || len(b) < 7+l+sl {
		return 0, nil, nil, false
	}
	return int(b[0]&0x30) >> 4, dcid, b[7+l : 7+l+sl], true
}

// errWord: an error as one word of the result line
func errWord(err error) string { return strings.ReplaceAll(e2e.ErrString(err), " ", "_") }

func contains(l [][]byte, x []byte) bool {
	for _, y := range l {
		if bytes.Equal(x, y) {
			return true
		}
	}
	return false
}

func (rn *runner) Exec(op string) (res string) {
	if strings.HasPrefix(op, "mig") {
		return rn.execMig(op)
	}
	if strings.HasPrefix(op, "redial") {
		return rn.execRedial(op)
	}
	if !strings.HasPrefix(op, "scn") {
		return "skip"
	}
	retry := field(op, "retry", 0) == 1
	ccid := int(field(op, "ccid", 4))
	scid := int(field(op, "scid", 4))
	closer := sfield(op, "closer", "c")
	rtt := time.Duration(field(op, "rtt", 20)) * time.Millisecond
	hold := time.Duration(field(op, "hold", 3000)) * time.Millisecond
	wait := time.Duration(field(op, "wait", 6000)) * time.Millisecond
	res = "hs=bubble-failed"
	ok := theT.Run("scn", func(t *testing.T) {
		synctest.Test(t, func(t *testing.T) {
			env, err := e2e.Start(e2e.Setup{RTT: rtt,
				ServerTransport: func(tr *quic.Transport) {
					tr.ConnectionIDLength = scid
					tr.VerifySourceAddress = func(net.Addr) bool { return retry }
				},
				ClientTransport: func(tr *quic.Transport) { tr.ConnectionIDLength = ccid },
			})
			if err != nil {
				res = "hs=start:" + e2e.ErrString(err)
				return
			}
			defer env.Close()
			srvConn := make(chan *quic.Conn, 1)
			go func() {
				c, err := env.Listener.Accept(context.Background())
				if err != nil {
					close(srvConn)
					return
				}
				srvConn <- c
				for {
					s, err := c.AcceptStream(context.Background())
					if err != nil {
						return
					}
					go func() { io.Copy(io.Discard, s) }()
				}
			}()
			ctx, cancel := context.WithTimeout(context.Background(), 20*time.Second)
			defer cancel()
			c, err := env.Dial(ctx)
			if err != nil {
				res = "hs=dial:" + e2e.ErrString(err)
				return
			}
			sc, okc := <-srvConn
			if !okc {
				res = "hs=accept-failed"
				return
			}
			// the connection lives for a while: the handshake IDs expire 3 PTO after the handshake
			time.Sleep(hold)
			if s, err := c.OpenStreamSync(ctx); err == nil { // some traffic so that both run loops come round
				s.Write([]byte("ping"))
				s.Close()
			}
			time.Sleep(300 * time.Millisecond)
			synctest.Wait()
			// the handshake-only destination connection IDs: what the client puts into its Initial packets before it has
			// heard from the server connection (the original random DCID; after a Retry the Retry packet's SCID).
			// Later Initial packets already carry connection IDs the server issued (NEW_CONNECTION_ID in its 0.5-RTT flight).
			var own, first [][]byte
			heard := false
			for _, d := range env.Net.Log {
				typ, dcid, scid, ok := longHeader(d.Data)
				if !ok {
					continue
				}
				switch {
				case d.Dir == e2e.ToClient && typ == 3:
					if !contains(first, scid) {
						first = append(first, append([]byte{}, scid...))
					}
				case d.Dir == e2e.ToClient:
					heard = true
					own = append(own, append([]byte{}, scid...))
				case d.Dir == e2e.ToServer && typ == 0 && !heard:
					if !contains(first, dcid) {
						first = append(first, append([]byte{}, dcid...))
					}
				}
			}
			ids, _, _ := quic.VerifTransportRouting(env.ServerTr)
			stale := 0
			for _, id := range ids {
				for _, f := range first {
					if bytes.Equal(id, f) {
						stale++
					}
				}
			}
			midRoutes := len(ids)
			if os.Getenv("VH_DEBUG") != "" {
				for _, d := range env.Net.Log {
					if typ, dcid, scid, ok := longHeader(d.Data); ok {
						fmt.Fprintf(os.Stderr, "%s #%d at=%v typ=%d dcid=%x scid=%x len=%d hdr=%x\n", d.Dir, d.Index, d.At, typ, dcid, scid, len(d.Data), d.Data[:24])
					}
				}
				fmt.Fprintf(os.Stderr, "own=%x first=%x routes=%x\n", own, first, ids)
			}
			if closer == "s" {
				sc.CloseWithError(7, "bye")
			} else {
				c.CloseWithError(7, "bye")
			}
			time.Sleep(wait)
			synctest.Wait()
			sids, _, stok := quic.VerifTransportRouting(env.ServerTr)
			cids, _, ctok := quic.VerifTransportRouting(env.ClientTr)
			mr := "some"
			if midRoutes == 0 {
				mr = "none"
			}
			res = fmt.Sprintf("hs=ok mid_stale=%d mid_routes=%s end_srv_routes=%d end_srv_tokens=%d end_cli_routes=%d end_cli_tokens=%d",
				stale, mr, len(sids), stok, len(cids), ctok)
		})
	})
	if !ok && res == "hs=bubble-failed" {
		res = "hs=bubble-failed"
	}
	return res
}

// execMig: one connection of a client that uses several transports (Conn.AddPath / Path.Probe / Path.Switch).
//
// op:     mig ccid=<len> scid=<len> closer=<c|s> rtt=<ms> paths=<1|2> switch=<0..paths> back=<0|1> gap=<ms> wait=<ms>
// result: hs=ok probe=<ok|…> sw=<ok|-|…> mid=<ok|…> end_srv=<routes>/<tokens> end_cli=<routes>/<tokens> end_p1=… end_p2=…
//
// mid: after the probes (and the migration) every extra transport that was probed routes at least one connection ID
// to the connection, and only connection IDs that the first transport routes too.
func (rn *runner) execMig(op string) (res string) {
	ccid := int(field(op, "ccid", 4))
	scid := int(field(op, "scid", 4))
	closer := sfield(op, "closer", "c")
	rtt := time.Duration(field(op, "rtt", 20)) * time.Millisecond
	paths := int(field(op, "paths", 1))
	sw := int(field(op, "switch", 0))
	back := field(op, "back", 0) == 1
	gap := time.Duration(field(op, "gap", 100)) * time.Millisecond
	wait := time.Duration(field(op, "wait", 6000)) * time.Millisecond
	plan := sfield(op, "plan", "")
	if paths < 1 || paths > 3 || sw > paths || ccid == 0 || (plan == "r2" && paths != 2) || (plan != "" && plan != "r2") {
		return "skip"
	}
	res = "hs=bubble-failed"
	theT.Run("mig", func(t *testing.T) {
		synctest.Test(t, func(t *testing.T) {
			env, err := e2e.Start(e2e.Setup{RTT: rtt, ExtraClientEndpoints: paths, Qlog: plan == "r2",
				ServerTransport: func(tr *quic.Transport) { tr.ConnectionIDLength = scid },
				ClientTransport: func(tr *quic.Transport) { tr.ConnectionIDLength = ccid },
			})
			if err != nil {
				res = "hs=start:" + errWord(err)
				return
			}
			defer env.Close()
			var extra []*quic.Transport
			for _, pc := range env.ExtraPC {
				tr := &quic.Transport{Conn: pc, ConnectionIDLength: ccid}
				extra = append(extra, tr)
				defer tr.Close()
			}
			srvConn := make(chan *quic.Conn, 1)
			go func() {
				c, err := env.Listener.Accept(context.Background())
				if err != nil {
					close(srvConn)
					return
				}
				srvConn <- c
				for {
					s, err := c.AcceptStream(context.Background())
					if err != nil {
						return
					}
					go func() { io.Copy(io.Discard, s) }()
				}
			}()
			ctx, cancel := context.WithTimeout(context.Background(), 30*time.Second)
			defer cancel()
			c, err := env.Dial(ctx)
			if err != nil {
				res = "hs=dial:" + errWord(err)
				return
			}
			sc, okc := <-srvConn
			if !okc {
				res = "hs=accept-failed"
				return
			}
			var pingStream *quic.Stream
			ping := func() { // a little traffic on one long-lived stream (so that both run loops come round)
				if pingStream == nil {
					s, err := c.OpenStreamSync(ctx)
					if err != nil {
						return
					}
					pingStream = s
				}
				pingStream.Write([]byte("ping"))
			}
			time.Sleep(500*time.Millisecond + gap)
			ping()
			probe, swres := "ok", "-"
			var ps []*quic.Path
			var validated []int // indices of the extra transports whose path was validated
			// RETIRE_CONNECTION_ID frames the client has received so far (its qlog)
			retired := func() int {
				n := 0
				for _, ev := range env.ClientLog.Snapshot() {
					if pr, ok := ev.(qlog.PacketReceived); ok {
						for _, f := range pr.Frames {
							if _, ok := f.Frame.(*qlog.RetireConnectionIDFrame); ok {
								n++
							}
						}
					}
				}
				return n
			}
			waitRetired := func(n int, atMost time.Duration, pings bool) bool {
				rounds := int(atMost / (rtt/4 + time.Millisecond))
				for i := 0; i < rounds; i++ {
					if retired() >= n {
						return true
					}
					if pings && i%4 == 0 {
						ping()
					}
					time.Sleep(rtt/4 + time.Millisecond)
				}
				return retired() >= n
			}
			start := time.Now()
			dbg := func(what string) {
				if os.Getenv("VH_DEBUG") == "" {
					return
				}
				a, _, _ := quic.VerifTransportRouting(env.ClientTr)
				if what == "retire-1" {
					for _, ev := range env.ClientLog.Snapshot() {
						switch x := ev.(type) {
						case qlog.PacketReceived:
							for _, f := range x.Frames {
								switch fr := f.Frame.(type) {
								case *qlog.RetireConnectionIDFrame:
									fmt.Fprintf(os.Stderr, "   rcvd pn=%d RETIRE %d\n", x.Header.PacketNumber, fr.SequenceNumber)
								case *qlog.NewConnectionIDFrame:
									fmt.Fprintf(os.Stderr, "   rcvd pn=%d NEW %d rpt=%d\n", x.Header.PacketNumber, fr.SequenceNumber, fr.RetirePriorTo)
								}
							}
						case qlog.PacketSent:
							for _, f := range x.Frames {
								switch fr := f.Frame.(type) {
								case *qlog.RetireConnectionIDFrame:
									fmt.Fprintf(os.Stderr, "   sent pn=%d RETIRE %d\n", x.Header.PacketNumber, fr.SequenceNumber)
								case *qlog.NewConnectionIDFrame:
									fmt.Fprintf(os.Stderr, "   sent pn=%d NEW %d\n", x.Header.PacketNumber, fr.SequenceNumber)
								case *qlog.PathChallengeFrame:
									fmt.Fprintf(os.Stderr, "   sent pn=%d PATH_CHALLENGE\n", x.Header.PacketNumber)
								}
							}
						}
					}
				}
				fmt.Fprintf(os.Stderr, "%v %s: retired=%d cli=%d", time.Since(start), what, retired(), len(a))
				for i := range extra {
					b, _, _ := quic.VerifTransportRouting(extra[i])
					fmt.Fprintf(os.Stderr, " p%d=%d", i+1, len(b))
				}
				fmt.Fprintln(os.Stderr)
			}
			probeOne := func(i int) bool {
				p, err := c.AddPath(extra[i])
				if err != nil {
					probe = "addpath:" + errWord(err)
					return false
				}
				pctx, pcancel := context.WithTimeout(ctx, 5*time.Second)
				err = p.Probe(pctx)
				pcancel()
				if os.Getenv("VH_DEBUG") != "" {
					fmt.Fprintf(os.Stderr, "probe %d: %v retired=%d\n", i, err, retired())
					for _, d := range env.Net.Log {
						if d.At > 500*time.Millisecond {
							fmt.Fprintf(os.Stderr, "  %v %s -> %s len=%d %s first=%x\n", d.At, d.From, d.To, len(d.Data), d.Fate, d.Data[:min(12, len(d.Data))])
						}
					}
				}
				if err != nil {
					probe = fmt.Sprintf("probe%d:", i+1) + errWord(err)
					return false
				}
				ps = append(ps, p)
				validated = append(validated, i)
				return true
			}
			if plan == "r2" {
				paths = 0 // the loop below is not used
				sw = 0
				swres = "ok"
				before := retired()
				// 1. a probe of the second path whose answers never arrive: the server allocates one of our connection IDs for
				//    that path, declares its PATH_CHALLENGE lost after a second and retires the ID (first RETIRE_CONNECTION_ID)
				env.Net.SetDropTo(e2e.ExtraClientAddr(0), true)
				p1, err := c.AddPath(extra[0])
				if err != nil {
					probe = "addpath:" + errWord(err)
				} else {
					pctx, pcancel := context.WithTimeout(ctx, 3*time.Second)
					defer pcancel()
					go p1.Probe(pctx)
					if !waitRetired(before+1, 1600*time.Millisecond, true) {
						swres = "no-retire-1"
					} else {
						dbg("retire-1")
						// 2. the dead path is probed again (the server allocates another of our IDs for it) and, at the same time,
						//    a third transport is added: it never hears of the ID just retired
						go p1.Probe(pctx)
						if probeOne(1) {
							dbg("probed-2")
							// 3. the client migrates to the third transport: the server abandons the dead path and retires its ID
							//    (second RETIRE_CONNECTION_ID)
							if err := ps[0].Switch(); err != nil {
								swres = "switch:" + errWord(err)
							} else if !waitRetired(before+2, 10*rtt+100*time.Millisecond, true) {
								swres = "no-retire-2"
							}
						}
						dbg("retire-2")
					}
				}
			}
			for i := 0; i < paths; i++ {
				if !probeOne(i) {
					break
				}
				time.Sleep(gap)
			}
			if probe == "ok" && sw > 0 {
				swres = "ok"
				if err := ps[sw-1].Switch(); err != nil {
					swres = "switch:" + errWord(err)
				}
				time.Sleep(gap)
				ping()
				time.Sleep(4 * rtt)
				if back && swres == "ok" { // the application returns to the first path: AddPath on a transport already registered
					p, err := c.AddPath(env.ClientTr)
					if err != nil {
						swres = "back-addpath:" + errWord(err)
					} else {
						pctx, pcancel := context.WithTimeout(ctx, 5*time.Second)
						if err := p.Probe(pctx); err != nil {
							swres = "back-probe:" + errWord(err)
						} else if err := p.Switch(); err != nil {
							swres = "back-switch:" + errWord(err)
						}
						pcancel()
					}
					ping()
				}
			}
			if plan != "r2" {
				time.Sleep(gap + 4*rtt)
			}
			synctest.Wait()
			mid := "ok"
			first, _, _ := quic.VerifTransportRouting(env.ClientTr)
			for _, i := range validated {
				ids, kinds, _ := quic.VerifTransportRouting(extra[i])
				if len(ids) == 0 {
					mid = fmt.Sprintf("p%d-routes-nothing", i+1)
				}
				for j, id := range ids {
					if kinds[j] != "conn" || !contains(first, id) {
						mid = fmt.Sprintf("p%d-routes-%x-%s", i+1, id, kinds[j])
					}
				}
			}
			if os.Getenv("VH_DEBUG") != "" {
				a, _, _ := quic.VerifTransportRouting(env.ClientTr)
				fmt.Fprintf(os.Stderr, "before close: retired=%d cli=%x", retired(), a)
				for i := range extra {
					b, _, _ := quic.VerifTransportRouting(extra[i])
					fmt.Fprintf(os.Stderr, " p%d=%x", i+1, b)
				}
				fmt.Fprintln(os.Stderr)
			}
			if closer == "s" {
				sc.CloseWithError(7, "bye")
			} else {
				c.CloseWithError(7, "bye")
			}
			time.Sleep(wait)
			synctest.Wait()
			sids, _, stok := quic.VerifTransportRouting(env.ServerTr)
			cids, _, ctok := quic.VerifTransportRouting(env.ClientTr)
			res = fmt.Sprintf("hs=ok probe=%s sw=%s mid=%s end_srv=%d/%d end_cli=%d/%d", probe, swres, mid, len(sids), stok, len(cids), ctok)
			for i := 0; i < 3; i++ {
				if i < len(extra) {
					ids, _, tok := quic.VerifTransportRouting(extra[i])
					res += fmt.Sprintf(" end_p%d=%d/%d", i+1, len(ids), tok)
				} else {
					res += fmt.Sprintf(" end_p%d=0/0", i+1)
				}
			}
		})
	})
	return res
}

// execRedial: TWO connections, one after the other, dialled on the SAME client transport (the glue under test is
// Transport.doDial / UTransport.doDial: the new connection's source connection ID is registered in the transport's
// routing table). With zero-length connection IDs (cli=plain0: ConnectionIDGenerator of length 0; cli=chrome: the
// QUICSpec says SrcConnIDLength 0) both connections use the same - empty - ID, and while the first connection's closing
// period lasts that ID is held by its closed stand-in.
//
// op:     redial cli=<plain0|plain4|chrome|firefox|uplain> how=<closec|closes|vn|cancel> [cancelat=<ms>] retry=<0|1> gap=<ms> scid=<len> rtt=<ms> hold=<ms> wait=<ms>
//
//	how=closec / closes: the first connection completes its handshake and is closed by the client / the server; the second
//	                     dial starts <gap> ms after the client saw the close
//	how=vn:              the server only speaks QUIC v2: the first attempt (v1) is answered with Version Negotiation,
//	                     closed, and Dial itself immediately dials again with v2
//
//	how=cancel:          the context of the first Dial ends while the handshake is under way (doDial destroys the connection)
//	retry=1:             the server answers every first Initial with a Retry
//
// result: d1=<ok|vn|cancelled|err> after1=<entries of the client's table that still route to a live connection when the
//
//	        second dial begins; vn: -> d2reg=<kind of the handler of the new connection's ID the instant after the second dial registered it; vn: -> d2=<ok|err> d2route=<kind of the handler of the new connection's ID right after Dial returned>
//
//		echo=<ok|…: a stream echoed by the server long after the first connection's closing period> late=<kind then>
//		end_srv=<routes>/<tokens> end_cli=<routes>/<tokens>
func (rn *runner) execRedial(op string) (res string) {
	cli := sfield(op, "cli", "plain4")
	how := sfield(op, "how", "closec")
	retry := field(op, "retry", 0) == 1
	gap := time.Duration(field(op, "gap", 0)) * time.Millisecond
	scid := int(field(op, "scid", 8))
	rtt := time.Duration(field(op, "rtt", 20)) * time.Millisecond
	hold := time.Duration(field(op, "hold", 2500)) * time.Millisecond
	wait := time.Duration(field(op, "wait", 6000)) * time.Millisecond
	var spec *quic.QUICSpec
	switch cli {
	case "plain0", "plain4", "uplain":
	case "chrome":
		s, err := quic.QUICID2Spec(quic.QUICChrome_115)
		if err != nil {
			return "skip"
		}
		spec = &s
	case "firefox":
		s, err := quic.QUICID2Spec(quic.QUICFirefox_116)
		if err != nil {
			return "skip"
		}
		spec = &s
	default:
		return "skip"
	}
	if how != "closec" && how != "closes" && how != "vn" && how != "cancel" {
		return "skip"
	}
	res = "d1=bubble-failed"
	theT.Run("redial", func(t *testing.T) {
		synctest.Test(t, func(t *testing.T) {
			setup := e2e.Setup{RTT: rtt, Spec: spec,
				ServerTransport: func(tr *quic.Transport) {
					tr.ConnectionIDLength = scid
					tr.VerifySourceAddress = func(net.Addr) bool { return retry }
				},
				ClientTransport: func(tr *quic.Transport) {
					switch cli {
					case "plain0":
						tr.ConnectionIDGenerator = &protocol.ExpEmptyConnectionIDGenerator{}
					case "plain4", "uplain":
						tr.ConnectionIDLength = 4
					}
				},
			}
			if how == "vn" {
				setup.ServerConf = &quic.Config{Versions: []quic.Version{quic.Version2}}
				setup.ClientConf = &quic.Config{Versions: []quic.Version{quic.Version1, quic.Version2}}
			}
			env, err := e2e.Start(setup)
			if err != nil {
				res = "d1=start:" + errWord(err)
				return
			}
			defer env.Close()
			if cli == "uplain" { // UTransport.doDial without a QUICSpec
				env.ClientUTr = &quic.UTransport{Transport: env.ClientTr}
			}
			srvConns := make(chan *quic.Conn, 4)
			go func() {
				for {
					c, err := env.Listener.Accept(context.Background())
					if err != nil {
						return
					}
					select {
					case srvConns <- c:
					default:
					}
					go func() {
						for {
							s, err := c.AcceptStream(context.Background())
							if err != nil {
								return
							}
							go func() {
								b, _ := io.ReadAll(s)
								s.Write(b)
								s.Close()
							}()
						}
					}()
				}
			}()
			ctx, cancel := context.WithTimeout(context.Background(), 60*time.Second)
			defer cancel()
			dial := func() (*quic.Conn, error) {
				dctx, dcancel := context.WithTimeout(ctx, 12*time.Second)
				defer dcancel()
				return env.Dial(dctx)
			}
			d1 := "ok"
			d2reg := "-"
			after1 := "-"
			var c2 *quic.Conn
			mark := 0 // datagrams the client had sent when the second dial began
			// the source connection ID of the second connection (attempt): the SCID of the first long header packet the client
			// sent after the second dial began (how=vn: the first one that carries QUIC v2)
			var newID []byte
			findNewID := func() {
				newID = nil
				for _, d := range env.Net.Datagrams(e2e.ToServer) {
					if _, _, src, ok := longHeader(d.Data); ok {
						if how == "vn" && !bytes.Equal(d.Data[1:5], []byte{0x6b, 0x33, 0x43, 0xcf}) {
							continue
						}
						if how != "vn" && d.Index < mark {
							continue
						}
						newID = append([]byte{}, src...)
						break
					}
				}
			}
			kindOf := func() string {
				ids, kinds, _ := quic.VerifTransportRouting(env.ClientTr)
				for i, id := range ids {
					if bytes.Equal(id, newID) {
						return kinds[i]
					}
				}
				return "none"
			}
			if how == "vn" {
				d1 = "vn"
				c2, err = dial()
			} else {
				if how == "cancel" {
					// the application gives up while the first flight is on its way (3/4 RTT: no answer yet, or cancelat ms)
					d1 = "cancelled"
					at := time.Duration(field(op, "cancelat", int64(rtt*3/4/time.Millisecond))) * time.Millisecond
					cctx, ccancel := context.WithTimeout(ctx, at)
					c1, err1 := env.Dial(cctx)
					ccancel()
					if err1 == nil { // a very early cancel can lose against a fast handshake: then it is a plain close
						d1 = "ok"
						c1.CloseWithError(7, "bye")
						<-c1.Context().Done()
					}
				} else {
					c1, err1 := dial()
					if err1 != nil {
						res = "d1=dial:" + errWord(err1)
						return
					}
					var sc1 *quic.Conn
					select {
					case sc1 = <-srvConns:
					case <-time.After(5 * time.Second):
						res = "d1=accept-failed"
						return
					}
					time.Sleep(300 * time.Millisecond)
					if how == "closes" {
						sc1.CloseWithError(7, "bye")
					} else {
						c1.CloseWithError(7, "bye")
					}
					select {
					case <-c1.Context().Done():
					case <-time.After(5 * time.Second):
						res = "d1=close-not-seen"
						return
					}
				}
				time.Sleep(gap)
				synctest.Wait()
				// the first connection is over: whatever is left of it in the table is a closed stand-in
				after1 = "0"
				if _, kinds, _ := quic.VerifTransportRouting(env.ClientTr); true {
					n := 0
					for _, k := range kinds {
						if k == "conn" {
							n++
						}
					}
					after1 = strconv.Itoa(n)
				}
				mark = len(env.Net.Datagrams(e2e.ToServer))
				type dres struct {
					c   *quic.Conn
					err error
				}
				dch := make(chan dres, 1)
				go func() {
					c, err := dial()
					dch <- dres{c, err}
				}()
				// the instant after doDial registered the new connection and its first flight left
				synctest.Wait()
				findNewID()
				d2reg = kindOf()
				r := <-dch
				c2, err = r.c, r.err
			}
			d2 := "ok"
			if err != nil {
				d2 = "err:" + errWord(err)
			}
			synctest.Wait()
			findNewID()
			d2route := kindOf()
			if os.Getenv("VH_DEBUG") != "" {
				ids, kinds, _ := quic.VerifTransportRouting(env.ClientTr)
				fmt.Fprintf(os.Stderr, "after dial 2 (%v): newID=%x routes=%x kinds=%v\n", err, newID, ids, kinds)
			}
			echo, late := "-", "-"
			if c2 != nil {
				time.Sleep(hold) // well beyond the first connection's closing period
				echo = "ok"
				ectx, ecancel := context.WithTimeout(ctx, 5*time.Second)
				s, err := c2.OpenStreamSync(ectx)
				if err != nil {
					echo = "open:" + errWord(err)
				} else {
					s.SetDeadline(time.Now().Add(5 * time.Second))
					s.Write([]byte("ping"))
					s.Close()
					if b, err := io.ReadAll(s); err != nil || string(b) != "ping" {
						echo = "read:" + errWord(err)
					}
				}
				ecancel()
				synctest.Wait()
				// (the server may retire the first ID of a connection with non-zero-length IDs; some ID must be routed)
				late = "none"
				if _, kinds, _ := quic.VerifTransportRouting(env.ClientTr); len(kinds) > 0 {
					late = "stale"
					for _, k := range kinds {
						if k == "conn" {
							late = "conn"
						}
					}
				}
				c2.CloseWithError(7, "bye")
			}
			time.Sleep(wait)
			synctest.Wait()
			sids, _, stok := quic.VerifTransportRouting(env.ServerTr)
			cids, _, ctok := quic.VerifTransportRouting(env.ClientTr)
			res = fmt.Sprintf("d1=%s after1=%s d2reg=%s d2=%s d2route=%s echo=%s late=%s end_srv=%d/%d end_cli=%d/%d", d1, after1, d2reg, d2, d2route, echo, late, len(sids), stok, len(cids), ctok)
		})
	})
	return res
}

func TestDriver(t *testing.T) {
	theT = t
	vh.Main(t, "cide2e", func(r *vh.Rand) vh.Runner { return &runner{} })
}
