//go:build verif

// Package cide2e is the end-to-end driver of property C16: a real client and a real server (Transport.Listen) over
// testutils/simnet inside a testing/synctest bubble. One op = one complete connection: handshake (with or without a
// Retry), some time, a little traffic, close by either side, the closing period — and then the routing table and the
// reset-token table of BOTH transports are read. It covers the glue that connection.go / server.go / transport.go put
// around connIDGenerator, connIDManager and packetHandlerMap (which connection IDs are handed to the generator, that
// the run loop sweeps retired IDs, that handleCloseError picks a close path that empties the tables).
//
// op:     scn retry=<0|1> ccid=<len> scid=<len> closer=<c|s> rtt=<ms> hold=<ms> wait=<ms>
// result: hs=<ok|err..> mid_stale=<k> mid_routes=<n> end_srv_routes=<n> end_srv_tokens=<n> end_cli_routes=<n> end_cli_tokens=<n>
package cide2e

import (
	"bytes"
	"context"
	"fmt"
	"io"
	"net"
	"os"
	"strconv"
	"strings"
	"testing"
	"testing/synctest"
	"time"

	quic "github.com/refraction-networking/uquic"
	"github.com/refraction-networking/uquic/internal/verifharness/e2e"
	"github.com/refraction-networking/uquic/internal/verifharness/vh"
	"github.com/refraction-networking/uquic/qlog"
)

var theT *testing.T

type runner struct{}

func (rn *runner) GenOp(r *vh.Rand, i int) string {
	if r.Chance(40) { // a client that probes one or two more paths (second / third Transport), possibly migrates, possibly back
		closer := "c"
		if r.Bool() {
			closer = "s"
		}
		if r.Chance(35) {
			// the peer retires one of our connection IDs (it abandons a probed path when we migrate), then a further path is
			// added, then the peer retires another one, then the connection closes while both still wait for their expiry
			return fmt.Sprintf("mig ccid=%d scid=%d closer=%s rtt=%d paths=2 switch=2 back=0 gap=0 wait=%d plan=r2",
				[]int{4, 8, 12}[r.Intn(3)], []int{4, 8, 16}[r.Intn(3)], closer, r.Range(4, 70), r.Range(5000, 9000))
		}
		paths := 1 + r.Intn(2)
		return fmt.Sprintf("mig ccid=%d scid=%d closer=%s rtt=%d paths=%d switch=%d back=%d gap=%d wait=%d",
			[]int{4, 4, 8, 12, 20}[r.Intn(5)], []int{4, 8, 16}[r.Intn(3)], closer, r.Range(2, 80), paths, r.Intn(paths+1), r.Intn(2),
			r.Range(0, 400), r.Range(5000, 9000))
	}
	ccid := []int{0, 4, 4, 8, 12, 20}[r.Intn(6)]
	scid := []int{4, 4, 8, 16}[r.Intn(4)]
	closer := "c"
	if r.Bool() {
		closer = "s"
	}
	return fmt.Sprintf("scn retry=%d ccid=%d scid=%d closer=%s rtt=%d hold=%d wait=%d",
		r.Intn(2), ccid, scid, closer, r.Range(2, 80), r.Range(2000, 5000), r.Range(5000, 9000))
}

func field(op, key string, def int64) int64 {
	for _, w := range strings.Fields(op) {
		if strings.HasPrefix(w, key+"=") {
			n, err := strconv.ParseInt(w[len(key)+1:], 10, 64)
			if err == nil {
				return n
			}
		}
	}
	return def
}

func sfield(op, key, def string) string {
	for _, w := range strings.Fields(op) {
		if strings.HasPrefix(w, key+"=") {
			return w[len(key)+1:]
		}
	}
	return def
}

// longHeader extracts packet type (QUIC v1: 0 Initial, 1 0-RTT, 2 Handshake, 3 Retry), destination and source
// connection ID of a long-header packet at the start of a datagram.
func longHeader(b []byte) (typ int, dcid, scid []byte, ok bool) {
	if len(b) < 7 || b[0]&0x80 == 0 {
		return 0, nil, nil, false
	}
	l := int(b[5])
	if l > 20 || len(b) < 7+l {
		return 0, nil, nil, false
	}
	dcid = b[6 : 6+l]
	sl := int(b[6+l])
	if sl > 20 || len(b) < 7+l+sl {
		return 0, nil, nil, false
	}
	return int(b[0]&0x30) >> 4, dcid, b[7+l : 7+l+sl], true
}

// errWord: an error as one word of the result line
func errWord(err error) string { return strings.ReplaceAll(e2e.ErrString(err), " ", "_") }

func contains(l [][]byte, x []byte) bool {
	for _, y := range l {
		if bytes.Equal(x, y) {
			return true
		}
	}
	return false
}

func (rn *runner) Exec(op string) (res string) {
	if strings.HasPrefix(op, "mig") {
		return rn.execMig(op)
	}
	if !strings.HasPrefix(op, "scn") {
		return "skip"
	}
	retry := field(op, "retry", 0) == 1
	ccid := int(field(op, "ccid", 4))
	scid := int(field(op, "scid", 4))
	closer := sfield(op, "closer", "c")
	rtt := time.Duration(field(op, "rtt", 20)) * time.Millisecond
	hold := time.Duration(field(op, "hold", 3000)) * time.Millisecond
	wait := time.Duration(field(op, "wait", 6000)) * time.Millisecond
	res = "hs=bubble-failed"
	ok := theT.Run("scn", func(t *testing.T) {
		synctest.Test(t, func(t *testing.T) {
			env, err := e2e.Start(e2e.Setup{RTT: rtt,
				ServerTransport: func(tr *quic.Transport) {
					tr.ConnectionIDLength = scid
					tr.VerifySourceAddress = func(net.Addr) bool { return retry }
				},
				ClientTransport: func(tr *quic.Transport) { tr.ConnectionIDLength = ccid },
			})
			if err != nil {
				res = "hs=start:" + e2e.ErrString(err)
				return
			}
			defer env.Close()
			srvConn := make(chan *quic.Conn, 1)
			go func() {
				c, err := env.Listener.Accept(context.Background())
				if err != nil {
					close(srvConn)
					return
				}
				srvConn <- c
				for {
					s, err := c.AcceptStream(context.Background())
					if err != nil {
						return
					}
					go func() { io.Copy(io.Discard, s) }()
				}
			}()
			ctx, cancel := context.WithTimeout(context.Background(), 20*time.Second)
			defer cancel()
			c, err := env.Dial(ctx)
			if err != nil {
				res = "hs=dial:" + e2e.ErrString(err)
				return
			}
			sc, okc := <-srvConn
			if !okc {
				res = "hs=accept-failed"
				return
			}
			// the connection lives for a while: the handshake IDs expire 3 PTO after the handshake
			time.Sleep(hold)
			if s, err := c.OpenStreamSync(ctx); err == nil { // some traffic so that both run loops come round
				s.Write([]byte("ping"))
				s.Close()
			}
			time.Sleep(300 * time.Millisecond)
			synctest.Wait()
			// the handshake-only destination connection IDs: what the client puts into its Initial packets before it has
			// heard from the server connection (the original random DCID; after a Retry the Retry packet's SCID).
			// Later Initial packets already carry connection IDs the server issued (NEW_CONNECTION_ID in its 0.5-RTT flight).
			var own, first [][]byte
			heard := false
			for _, d := range env.Net.Log {
				typ, dcid, scid, ok := longHeader(d.Data)
				if !ok {
					continue
				}
				switch {
				case d.Dir == e2e.ToClient && typ == 3:
					if !contains(first, scid) {
						first = append(first, append([]byte{}, scid...))
					}
				case d.Dir == e2e.ToClient:
					heard = true
					own = append(own, append([]byte{}, scid...))
				case d.Dir == e2e.ToServer && typ == 0 && !heard:
					if !contains(first, dcid) {
						first = append(first, append([]byte{}, dcid...))
					}
				}
			}
			ids, _, _ := quic.VerifTransportRouting(env.ServerTr)
			stale := 0
			for _, id := range ids {
				for _, f := range first {
					if bytes.Equal(id, f) {
						stale++
					}
				}
			}
			midRoutes := len(ids)
			if os.Getenv("VH_DEBUG") != "" {
				for _, d := range env.Net.Log {
					if typ, dcid, scid, ok := longHeader(d.Data); ok {
						fmt.Fprintf(os.Stderr, "%s #%d at=%v typ=%d dcid=%x scid=%x len=%d hdr=%x\n", d.Dir, d.Index, d.At, typ, dcid, scid, len(d.Data), d.Data[:24])
					}
				}
				fmt.Fprintf(os.Stderr, "own=%x first=%x routes=%x\n", own, first, ids)
			}
			if closer == "s" {
				sc.CloseWithError(7, "bye")
			} else {
				c.CloseWithError(7, "bye")
			}
			time.Sleep(wait)
			synctest.Wait()
			sids, _, stok := quic.VerifTransportRouting(env.ServerTr)
			cids, _, ctok := quic.VerifTransportRouting(env.ClientTr)
			mr := "some"
			if midRoutes == 0 {
				mr = "none"
			}
			res = fmt.Sprintf("hs=ok mid_stale=%d mid_routes=%s end_srv_routes=%d end_srv_tokens=%d end_cli_routes=%d end_cli_tokens=%d",
				stale, mr, len(sids), stok, len(cids), ctok)
		})
	})
	if !ok && res == "hs=bubble-failed" {
		res = "hs=bubble-failed"
	}
	return res
}

// execMig: one connection of a client that uses several transports (Conn.AddPath / Path.Probe / Path.Switch).
//
// op:     mig ccid=<len> scid=<len> closer=<c|s> rtt=<ms> paths=<1|2> switch=<0..paths> back=<0|1> gap=<ms> wait=<ms>
// result: hs=ok probe=<ok|…> sw=<ok|-|…> mid=<ok|…> end_srv=<routes>/<tokens> end_cli=<routes>/<tokens> end_p1=… end_p2=…
//
// mid: after the probes (and the migration) every extra transport that was probed routes at least one connection ID
// to the connection, and only connection IDs that the first transport routes too.
func (rn *runner) execMig(op string) (res string) {
	ccid := int(field(op, "ccid", 4))
	scid := int(field(op, "scid", 4))
	closer := sfield(op, "closer", "c")
	rtt := time.Duration(field(op, "rtt", 20)) * time.Millisecond
	paths := int(field(op, "paths", 1))
	sw := int(field(op, "switch", 0))
	back := field(op, "back", 0) == 1
	gap := time.Duration(field(op, "gap", 100)) * time.Millisecond
	wait := time.Duration(field(op, "wait", 6000)) * time.Millisecond
	plan := sfield(op, "plan", "")
	if paths < 1 || paths > 3 || sw > paths || ccid == 0 || (plan == "r2" && paths != 2) || (plan != "" && plan != "r2") {
		return "skip"
	}
	res = "hs=bubble-failed"
	theT.Run("mig", func(t *testing.T) {
		synctest.Test(t, func(t *testing.T) {
			env, err := e2e.Start(e2e.Setup{RTT: rtt, ExtraClientEndpoints: paths, Qlog: plan == "r2",
				ServerTransport: func(tr *quic.Transport) { tr.ConnectionIDLength = scid },
				ClientTransport: func(tr *quic.Transport) { tr.ConnectionIDLength = ccid },
			})
			if err != nil {
				res = "hs=start:" + errWord(err)
				return
			}
			defer env.Close()
			var extra []*quic.Transport
			for _, pc := range env.ExtraPC {
				tr := &quic.Transport{Conn: pc, ConnectionIDLength: ccid}
				extra = append(extra, tr)
				defer tr.Close()
			}
			srvConn := make(chan *quic.Conn, 1)
			go func() {
				c, err := env.Listener.Accept(context.Background())
				if err != nil {
					close(srvConn)
					return
				}
				srvConn <- c
				for {
					s, err := c.AcceptStream(context.Background())
					if err != nil {
						return
					}
					go func() { io.Copy(io.Discard, s) }()
				}
			}()
			ctx, cancel := context.WithTimeout(context.Background(), 30*time.Second)
			defer cancel()
			c, err := env.Dial(ctx)
			if err != nil {
				res = "hs=dial:" + errWord(err)
				return
			}
			sc, okc := <-srvConn
			if !okc {
				res = "hs=accept-failed"
				return
			}
			var pingStream *quic.Stream
			ping := func() { // a little traffic on one long-lived stream (so that both run loops come round)
				if pingStream == nil {
					s, err := c.OpenStreamSync(ctx)
					if err != nil {
						return
					}
					pingStream = s
				}
				pingStream.Write([]byte("ping"))
			}
			time.Sleep(500*time.Millisecond + gap)
			ping()
			probe, swres := "ok", "-"
			var ps []*quic.Path
			var validated []int // indices of the extra transports whose path was validated
			// RETIRE_CONNECTION_ID frames the client has received so far (its qlog)
			retired := func() int {
				n := 0
				for _, ev := range env.ClientLog.Snapshot() {
					if pr, ok := ev.(qlog.PacketReceived); ok {
						for _, f := range pr.Frames {
							if _, ok := f.Frame.(*qlog.RetireConnectionIDFrame); ok {
								n++
							}
						}
					}
				}
				return n
			}
			waitRetired := func(n int, atMost time.Duration, pings bool) bool {
				rounds := int(atMost / (rtt/4 + time.Millisecond))
				for i := 0; i < rounds; i++ {
					if retired() >= n {
						return true
					}
					if pings && i%4 == 0 {
						ping()
					}
					time.Sleep(rtt/4 + time.Millisecond)
				}
				return retired() >= n
			}
			start := time.Now()
			dbg := func(what string) {
				if os.Getenv("VH_DEBUG") == "" {
					return
				}
				a, _, _ := quic.VerifTransportRouting(env.ClientTr)
				if what == "retire-1" {
					for _, ev := range env.ClientLog.Snapshot() {
						switch x := ev.(type) {
						case qlog.PacketReceived:
							for _, f := range x.Frames {
								switch fr := f.Frame.(type) {
								case *qlog.RetireConnectionIDFrame:
									fmt.Fprintf(os.Stderr, "   rcvd pn=%d RETIRE %d\n", x.Header.PacketNumber, fr.SequenceNumber)
								case *qlog.NewConnectionIDFrame:
									fmt.Fprintf(os.Stderr, "   rcvd pn=%d NEW %d rpt=%d\n", x.Header.PacketNumber, fr.SequenceNumber, fr.RetirePriorTo)
								}
							}
						case qlog.PacketSent:
							for _, f := range x.Frames {
								switch fr := f.Frame.(type) {
								case *qlog.RetireConnectionIDFrame:
									fmt.Fprintf(os.Stderr, "   sent pn=%d RETIRE %d\n", x.Header.PacketNumber, fr.SequenceNumber)
								case *qlog.NewConnectionIDFrame:
									fmt.Fprintf(os.Stderr, "   sent pn=%d NEW %d\n", x.Header.PacketNumber, fr.SequenceNumber)
								case *qlog.PathChallengeFrame:
									fmt.Fprintf(os.Stderr, "   sent pn=%d PATH_CHALLENGE\n", x.Header.PacketNumber)
								}
							}
						}
					}
				}
				fmt.Fprintf(os.Stderr, "%v %s: retired=%d cli=%d", time.Since(start), what, retired(), len(a))
				for i := range extra {
					b, _, _ := quic.VerifTransportRouting(extra[i])
					fmt.Fprintf(os.Stderr, " p%d=%d", i+1, len(b))
				}
				fmt.Fprintln(os.Stderr)
			}
			probeOne := func(i int) bool {
				p, err := c.AddPath(extra[i])
				if err != nil {
					probe = "addpath:" + errWord(err)
					return false
				}
				pctx, pcancel := context.WithTimeout(ctx, 5*time.Second)
				err = p.Probe(pctx)
				pcancel()
				if os.Getenv("VH_DEBUG") != "" {
					fmt.Fprintf(os.Stderr, "probe %d: %v retired=%d\n", i, err, retired())
					for _, d := range env.Net.Log {
						if d.At > 500*time.Millisecond {
							fmt.Fprintf(os.Stderr, "  %v %s -> %s len=%d %s first=%x\n", d.At, d.From, d.To, len(d.Data), d.Fate, d.Data[:min(12, len(d.Data))])
						}
					}
				}
				if err != nil {
					probe = fmt.Sprintf("probe%d:", i+1) + errWord(err)
					return false
				}
				ps = append(ps, p)
				validated = append(validated, i)
				return true
			}
			if plan == "r2" {
				paths = 0 // the loop below is not used
				sw = 0
				swres = "ok"
				before := retired()
				// 1. a probe of the second path whose answers never arrive: the server allocates one of our connection IDs for
				//    that path, declares its PATH_CHALLENGE lost after a second and retires the ID (first RETIRE_CONNECTION_ID)
				env.Net.SetDropTo(e2e.ExtraClientAddr(0), true)
				p1, err := c.AddPath(extra[0])
				if err != nil {
					probe = "addpath:" + errWord(err)
				} else {
					pctx, pcancel := context.WithTimeout(ctx, 3*time.Second)
					defer pcancel()
					go p1.Probe(pctx)
					if !waitRetired(before+1, 1600*time.Millisecond, true) {
						swres = "no-retire-1"
					} else {
						dbg("retire-1")
						// 2. the dead path is probed again (the server allocates another of our IDs for it) and, at the same time,
						//    a third transport is added: it never hears of the ID just retired
						go p1.Probe(pctx)
						if probeOne(1) {
							dbg("probed-2")
							// 3. the client migrates to the third transport: the server abandons the dead path and retires its ID
							//    (second RETIRE_CONNECTION_ID)
							if err := ps[0].Switch(); err != nil {
								swres = "switch:" + errWord(err)
							} else if !waitRetired(before+2, 10*rtt+100*time.Millisecond, true) {
								swres = "no-retire-2"
							}
						}
						dbg("retire-2")
					}
				}
			}
			for i := 0; i < paths; i++ {
				if !probeOne(i) {
					break
				}
				time.Sleep(gap)
			}
			if probe == "ok" && sw > 0 {
				swres = "ok"
				if err := ps[sw-1].Switch(); err != nil {
					swres = "switch:" + errWord(err)
				}
				time.Sleep(gap)
				ping()
				time.Sleep(4 * rtt)
				if back && swres == "ok" { // the application returns to the first path: AddPath on a transport already registered
					p, err := c.AddPath(env.ClientTr)
					if err != nil {
						swres = "back-addpath:" + errWord(err)
					} else {
						pctx, pcancel := context.WithTimeout(ctx, 5*time.Second)
						if err := p.Probe(pctx); err != nil {
							swres = "back-probe:" + errWord(err)
						} else if err := p.Switch(); err != nil {
							swres = "back-switch:" + errWord(err)
						}
						pcancel()
					}
					ping()
				}
			}
			if plan != "r2" {
				time.Sleep(gap + 4*rtt)
			}
			synctest.Wait()
			mid := "ok"
			first, _, _ := quic.VerifTransportRouting(env.ClientTr)
			for _, i := range validated {
				ids, kinds, _ := quic.VerifTransportRouting(extra[i])
				if len(ids) == 0 {
					mid = fmt.Sprintf("p%d-routes-nothing", i+1)
				}
				for j, id := range ids {
					if kinds[j] != "conn" || !contains(first, id) {
						mid = fmt.Sprintf("p%d-routes-%x-%s", i+1, id, kinds[j])
					}
				}
			}
			if os.Getenv("VH_DEBUG") != "" {
				a, _, _ := quic.VerifTransportRouting(env.ClientTr)
				fmt.Fprintf(os.Stderr, "before close: retired=%d cli=%x", retired(), a)
				for i := range extra {
					b, _, _ := quic.VerifTransportRouting(extra[i])
					fmt.Fprintf(os.Stderr, " p%d=%x", i+1, b)
				}
				fmt.Fprintln(os.Stderr)
			}
			if closer == "s" {
				sc.CloseWithError(7, "bye")
			} else {
				c.CloseWithError(7, "bye")
			}
			time.Sleep(wait)
			synctest.Wait()
			sids, _, stok := quic.VerifTransportRouting(env.ServerTr)
			cids, _, ctok := quic.VerifTransportRouting(env.ClientTr)
			res = fmt.Sprintf("hs=ok probe=%s sw=%s mid=%s end_srv=%d/%d end_cli=%d/%d", probe, swres, mid, len(sids), stok, len(cids), ctok)
			for i := 0; i < 3; i++ {
				if i < len(extra) {
					ids, _, tok := quic.VerifTransportRouting(extra[i])
					res += fmt.Sprintf(" end_p%d=%d/%d", i+1, len(ids), tok)
				} else {
					res += fmt.Sprintf(" end_p%d=0/0", i+1)
				}
			}
		})
	})
	return res
}

func TestDriver(t *testing.T) {
	theT = t
	vh.Main(t, "cide2e", func(r *vh.Rand) vh.Runner { return &runner{} })
}
