//go:build verif

// Driver "flowcall" (property C04, caller level): a real *Conn built far enough to run the real
// handleTransportParameters / applyTransportParameters, the real streams map (every stream flow
// controller comes out of the real Conn.newFlowController closure), real SendStreams / ReceiveStreams,
// the real framer and the streams map's frame dispatch. No packer / crypto / run loop: the driver plays
// the run loop. The oracle predicts the initial windows of each stream (model of the closure) and runs
// the C04 monitors on the trace; the frames themselves are echoed (modelled by other properties).
//
//	init <c|s> <crw> <cmaxrw> <srw> <smaxrw> <pMaxData> <pBidiLocal> <pBidiRemote> <pUni>   => ok
//	     (perspective, our receive-window configuration, the peer's transport parameters)
//	uinit <ff|ch> <crw> <cmaxrw> <srw> <smaxrw> <aMaxData> <aBidiLocal> <aBidiRemote> <aUni> <pMaxData> <pBidiLocal> <pBidiRemote> <pUni>
//	     => ok adv=<maxData>,<bidiLocal>,<bidiRemote>,<uni>
//	     (a spec-driven client built by the real newUClientConnection from the built-in Firefox / Chrome QUICSpec whose
//	      advertised flow-control parameters are replaced by a* (-1: keep the built-in value); adv= is the list that
//	      goes on the wire)
//	open <lb|lu|pb|pu>                       => s=<sidx|-> r=<ridx|-> id=<streamID> sw=<n|-> rw=<n|->
//	     (we open a bidi / uni stream; the peer opens a bidi / uni stream)
//	w <sid> <n>                              => n=<k> | started    (a Write that does not fit the frame buffer runs in a goroutine)
//	close <sid>                              => ok | E:other
//	rb <sid>                                 => ok             (SetReliableBoundary)
//	cw <sid>                                 => ok             (CancelWrite)
//	smax <sid> <v> | cmax <v>                => ok             (MAX_STREAM_DATA / MAX_DATA received)
//	pack <maxLen> <now>                      => S:<sid>:<off>:<len>:<fin> SB:<sid>:<limit> DB:<limit> MS:<rid>:<v> MD:<v> RS:<sid>:<final>:<reliable> X:<other> ... | -
//	lost <k> | acked <k>                     => ok             (k-th outstanding STREAM frame)
//	frame <rid> <off> <len> <fin> <now>      => ok | gone | E:FLOW_CONTROL_ERROR | E:FINAL_SIZE_ERROR | E:other
//	rst <rid> <final> <reliable> <now>       => ok | gone | E:..   (RESET_STREAM / RESET_STREAM_AT received)
//	rd <rid> <n>                             => n=<k> ok|eof|E:cancel|E:reset|E:other
//	cancel <rid>                             => ok
//	rdb <rid> <n>                            => started          (a Read in its own goroutine: it may park in readImpl's wait loop)
//	batch <op> ; <op> [; <op>]               => <res> ; <res> …  (frame / rst / cancel / smax / cmax / cw executed back to back: a
//	     parked Read or Write is woken by the first but — the driver runs on one P — only gets to run after the last)
//
// a Read started by rdb that has returned is reported as ` rdone:<rid>:<k>:<ok|eof|E:…>` at the end of the result of the
// operation after which it was found finished.
//	cupd <now>                               => <v>            (MAX_DATA step of Conn.sendPackets, replayed by the hook)
//
// Round 5: the connection comes from the REAL constructors (newConnection / newClientConnection /
// newUClientConnection), traced (qlog) or not — a trailing `t` on the init line; init / init0 answer
// `ok adv=<maxData>,<bidiLocal>,<bidiRemote>,<uni>` = the transport parameters handed to the TLS stack.
//	pkt <now> ; <f> ; <f> …                  => ok|E:… gone=<i,j|->   (ONE 1-RTT packet with these frames through the real
//	     handleShortHeaderPacket → handleFrames → handleFrame; f = frame … | rst … | smax … | cmax … | ping | sdb <rid> | db | stop <sid>;
//	     gone= lists the frames whose receive stream had already been deleted from the streams map)
//	send <maxLen> <now>                      => like pack          (the real Conn.sendPackets: MAX_DATA step, then the packer
//	     stand-in asks the real framer for one payload)
//	pkt0 <now> ; <f> …                       => like pkt           (a server receives the frames in a 0-RTT packet: the real
//	     handleLongHeaderPacket → handleUnpackedLongHeaderPacket → handleFrames)
//	rdl <rid> <0|1> | wdl <sid> <0|1>        => ok               (Set{Read,Write}Deadline: 1 = a time in the past — a parked or later
//	     Read / Write returns with what it did so far and a deadline error —, 0 = no deadline)
//	poison <n>                               => ok               (n dirty STREAM frames are put into wire's frame pool)
//	init0 <crw> <cmaxrw> <srw> <smaxrw> <rMaxData> <rBidiLocal> <rBidiRemote> <rUni> [t]   => ok adv=…
//	     (a client resuming a session: the real restoreTransportParameters with the REMEMBERED parameters; 0-RTT data)
//	reject <now>                             => ok | E:other     (0-RTT rejected: the real dropEncryptionLevel(0-RTT))
//	params <pMaxData> <pBidiLocal> <pBidiRemote> <pUni>   => ok | E:other   (the server's transport parameters arrive: real
//	     handleTransportParameters + applyTransportParameters; after a rejection also the real NextConnection)
//
// every result is followed by ` | c=<connection controller dump>`.
package flowcall

import (
	"errors"
	"fmt"
	"io"
	"os"
	"runtime"
	"sort"
	"strconv"
	"strings"
	"testing"
	"testing/synctest"
	"time"

	quic "github.com/refraction-networking/uquic"
	"github.com/refraction-networking/uquic/internal/ackhandler"
	"github.com/refraction-networking/uquic/internal/flowcontrol"
	"github.com/refraction-networking/uquic/internal/monotime"
	"github.com/refraction-networking/uquic/internal/protocol"
	"github.com/refraction-networking/uquic/internal/qerr"
	"github.com/refraction-networking/uquic/internal/verifharness/vh"
	"github.com/refraction-networking/uquic/internal/wire"
	tls "github.com/refraction-networking/utls"
)

type sendSt struct {
	s         *quic.SendStream
	id        protocol.StreamID
	written   int64 // bytes accepted by completed Write calls + bytes of a running Write
	newEnd    int64 // highest offset+len of any STREAM frame popped
	writing   bool  // a Write goroutine is running
	closed    bool
	cancelled bool // CancelWrite was called
	wdone     chan int
	wdlPast   bool // a write deadline in the past is set
}

type recvSt struct {
	s         *quic.ReceiveStream
	id        protocol.StreamID
	advLimit  int64      // spec mode: the limit advertised for this kind of stream
	ivs       [][2]int64 // received intervals (merged, sorted) — to know whether Read would block
	readPos   int64
	final     int64 // -1 unknown
	reliable  int64 // reliable size after RESET_STREAM_AT (same update rule as the stream)
	cancelled bool
	reset     bool
	dead      bool // EOF or error was returned
	reading   bool // a Read goroutine (rdb) is running
	rdlPast   bool // a read deadline in the past is set
	rdone     chan rdResult
}

type rdResult struct {
	k   int
	err error
}

type outFrame struct {
	f   *wire.StreamFrame
	h   ackhandler.FrameHandler
	sid int
}

type runner struct {
	conn   flowcontrol.ConnectionFlowController
	h      *quic.VerifFCConn
	client bool
	snd    []*sendSt
	rcv    []*recvSt
	sidx   map[protocol.StreamID]int
	ridx   map[protocol.StreamID]int
	nPeer  [2]int64 // peer-opened bidi / uni streams so far
	adv    [3]int64 // spec mode: advertised bidi_local, bidi_remote, uni (generator steering); -1 otherwise
	spec   bool
	out    []outFrame // outstanding STREAM frames
	doneToks []string // finished rdb Reads not yet reported

	now     int64
	style   int
	errored bool
	dead    int

	zero     bool // a client in its 0-RTT phase (restored parameters; the server's have not arrived yet)
	rejected bool // 0-RTT was rejected
	restored [4]int64
	gen0     int // send streams with index < gen0 were discarded by a 0-RTT rejection
	queue    []string // scripted continuation of a scenario: emitted before anything else is drawn
	saw1RTT  bool // a 1-RTT packet was handled: 0-RTT packets (higher packet numbers) are a protocol violation from now on
	rgen0    int // the same for receive streams (their ids are used again by the streams opened afterwards)
}

func newRunner(r *vh.Rand) vh.Runner {
	return &runner{now: 1 + r.Range(0, 1_000_000_000), style: r.Pick(30, 50, 20),
		sidx: map[protocol.StreamID]int{}, ridx: map[protocol.StreamID]int{}}
}

func (rn *runner) win(r *vh.Rand) int64 {
	switch rn.style {
	case 0:
		return r.Range(1, 300)
	case 1:
		return r.Range(200, 6000)
	}
	return r.Range(3000, 200_000)
}

var kinds = []string{"lb", "lu", "pb", "pu"}

func (rn *runner) GenOp(r *vh.Rand, i int) string {
	if i == 0 {
		crw := rn.win(r) * 2
		srw := rn.win(r)
		// the peer's limits for the three kinds of streams are drawn independently (asymmetric)
		pl, pr, pu := rn.win(r), rn.win(r), rn.win(r)
		if r.Chance(15) {
			pl = 0
		}
		if r.Chance(15) {
			pr = 0
		}
		pmd := rn.win(r) * int64(1+r.Intn(3))
		if r.Chance(20) {
			pmd = 0
		}
		tr := []string{"", " t"}[r.Pick(50, 50)]
		if r.Chance(12) {
			// a client that resumes a session and sends 0-RTT data under the remembered limits
			return fmt.Sprintf("init0 %d %d %d %d %d %d %d %d%s", crw, crw*int64(1+r.Intn(4)), srw, srw*int64(1+r.Intn(4)),
				max(pmd, 1), pl, pr, pu, tr)
		}
		if r.Chance(30) {
			// a spec-driven client: what is advertised comes from the QUICSpec, independently of the Config
			a := [4]int64{rn.win(r) * int64(1+r.Intn(3)), rn.win(r), rn.win(r), rn.win(r)}
			switch r.Pick(60, 15, 25) {
			case 1: // everything as built in (Firefox: bidi_local 12 MiB, others 1 MiB; Chrome: all equal)
				a = [4]int64{-1, -1, -1, -1}
			case 2: // only some replaced
				for i := range a {
					if r.Bool() {
						a[i] = -1
					}
				}
			}
			return fmt.Sprintf("uinit %s %d %d %d %d %d %d %d %d %d %d %d %d%s", []string{"ff", "ch"}[r.Pick(70, 30)], crw, crw*int64(1+r.Intn(4)),
				srw, srw*int64(1+r.Intn(4)), a[0], a[1], a[2], a[3], pmd, pl, pr, pu, tr)
		}
		return fmt.Sprintf("init %s %d %d %d %d %d %d %d %d%s", []string{"c", "s"}[r.Intn(2)], crw, crw*int64(1+r.Intn(4)),
			srw, srw*int64(1+r.Intn(4)), pmd, pl, pr, pu, tr)
	}
	if rn.conn == nil {
		return ""
	}
	if rn.errored {
		if rn.dead <= 0 {
			return ""
		}
		rn.dead--
	}
	rn.now += r.Range(0, 30_000_000)
	if len(rn.queue) > 0 {
		op := strings.ReplaceAll(rn.queue[0], "NOW", strconv.FormatInt(rn.now, 10))
		rn.queue = rn.queue[1:]
		return op
	}
	if rn.zero {
		return rn.genZero(r)
	}
	if r.Chance(2) {
		return fmt.Sprintf("poison %d", 1+r.Intn(4))
	}
	if len(rn.snd)-rn.gen0 < 1 {
		return "open " + kinds[r.Pick(40, 20, 40, 0)]
	}
	if len(rn.snd) < 1 {
		return "open " + kinds[r.Pick(40, 20, 40, 0)]
	}
	if len(rn.rcv)-rn.rgen0 < 1 {
		return "open " + kinds[r.Pick(35, 0, 35, 30)]
	}
	if len(rn.snd)+len(rn.rcv) < 10 && r.Chance(7) {
		return "open " + kinds[r.Intn(4)]
	}
	si := rn.pickSend(r)
	ss := rn.snd[si]
	ri := rn.pickRecv(r)
	rs := rn.rcv[ri]
	switch r.Pick(14, 2, 7, 5, 16, 3, 2, 16, 4, 16, 2, 7, 3, 2, 5, 6, 12, 7, 3) {
	case 18: // deadlines: on a stream with a parked Read / Write if there is one; cleared again later
		if r.Bool() {
			for i := rn.rgen0; i < len(rn.rcv); i++ {
				if (rn.rcv[i].reading || rn.rcv[i].rdlPast) && r.Chance(70) {
					ri, rs = i, rn.rcv[i]
				}
			}
			return fmt.Sprintf("rdl %d %d", ri, b2i(!rs.rdlPast))
		}
		for i := rn.gen0; i < len(rn.snd); i++ {
			if (rn.snd[i].writing || rn.snd[i].wdlPast) && r.Chance(70) {
				si, ss = i, rn.snd[i]
			}
		}
		return fmt.Sprintf("wdl %d %d", si, b2i(!ss.wdlPast))
	case 16:
		if !rn.client && !rn.saw1RTT && r.Chance(75) {
			return "pkt0" + rn.genPkt(r)[3:]
		}
		return rn.genPkt(r)
	case 17:
		return fmt.Sprintf("send %d %d", []int64{r.Range(1, 200), r.Range(200, 1300), r.Range(1300, 1452)}[r.Pick(20, 40, 40)], rn.now)
	case 14: // a Read in its own goroutine, preferably on a stream where it has to wait
		for try := 0; try < 4 && (rs.reading || rs.readable()); try++ {
			ri = rn.pickRecv(r)
			rs = rn.rcv[ri]
		}
		return fmt.Sprintf("rdb %d %d", ri, []int64{r.Range(1, 100), r.Range(100, 2000), 100_000}[r.Intn(3)])
	case 15:
		return rn.genBatch(r, ri, si)
	case 12:
		return fmt.Sprintf("rb %d", si)
	case 13:
		if !ss.closed && !ss.writing && r.Chance(50) {
			// a reset with a reliable size that covers data still blocked by flow control: more is written than the
			// windows allow, all of it is marked reliable, the stream is reset, and packets are composed before and
			// after the limits move
			sw := int64(rn.conn.SendWindowSize())
			rn.queue = []string{fmt.Sprintf("rb %d", si), fmt.Sprintf("cw %d", si), "pack 1200 NOW", "pack 1300 NOW",
				[]string{fmt.Sprintf("smax %d %d", si, ss.newEnd+sw+r.Range(1, 2000)), fmt.Sprintf("cmax %d", r.Range(1, 100000))}[r.Intn(2)],
				"send 1400 NOW"}
			return fmt.Sprintf("w %d %d", si, sw+r.Range(1, 3000))
		}
		return fmt.Sprintf("cw %d", si)
	case 0: // write
		var n int64
		switch r.Pick(50, 30, 20) {
		case 0:
			n = r.Range(1, 400)
		case 1:
			n = r.Range(400, 1400)
		default:
			n = r.Range(1400, 9000)
		}
		return fmt.Sprintf("w %d %d", si, n)
	case 1:
		return fmt.Sprintf("close %d", si)
	case 2: // MAX_STREAM_DATA
		cur := field(quic.VerifFCSendDump(ss.s), 1)
		var v int64
		switch r.Pick(60, 15, 25) {
		case 0:
			v = max(cur, ss.newEnd) + r.Range(1, 3000)
		case 1:
			v = cur
		default:
			v = r.Range(0, max(cur, 1))
		}
		return fmt.Sprintf("smax %d %d", si, v)
	case 3: // MAX_DATA
		var tot int64
		for _, s := range rn.snd {
			tot += s.newEnd
		}
		var v int64
		switch r.Pick(65, 35) {
		case 0:
			v = tot + int64(rn.conn.SendWindowSize()) + r.Range(1, 5000)
		default:
			v = r.Range(0, tot+int64(rn.conn.SendWindowSize())+1)
		}
		return fmt.Sprintf("cmax %d", v)
	case 4: // pack
		var ml int64
		switch r.Pick(25, 50, 25) {
		case 0:
			ml = r.Range(1, 200)
		case 1:
			ml = r.Range(200, 1300)
		default:
			ml = r.Range(1300, 1452)
		}
		return fmt.Sprintf("pack %d %d", ml, rn.now)
	case 5:
		if len(rn.out) == 0 {
			return fmt.Sprintf("pack 1200 %d", rn.now)
		}
		return fmt.Sprintf("lost %d", r.Intn(len(rn.out)))
	case 6:
		if len(rn.out) == 0 {
			return fmt.Sprintf("pack 1200 %d", rn.now)
		}
		return fmt.Sprintf("acked %d", r.Intn(len(rn.out)))
	case 7: // incoming STREAM frame
		hr, lim, climRoom := rn.recvRoom(ri)
		var off, ln int64
		fin := 0
		if rs.final >= 0 {
			// the final size is known (FIN or RESET_STREAM[_AT]): data within it, mostly filling in order
			// (a reset stream still needs its reliable part), rarely something inconsistent
			switch r.Pick(60, 30, 10) {
			case 0:
				off = rs.avail()
				ln = r.Range(0, max(min(rs.final-off, 1200), 0))
			default:
				ln = r.Range(0, min(rs.final, 1200))
				off = r.Range(0, rs.final-ln)
			}
			if off+ln == rs.final && r.Bool() {
				fin = 1
			}
			if r.Chance(3) {
				off = rs.final + r.Range(0, 3)
				ln = r.Range(1, 10)
			}
			return fmt.Sprintf("frame %d %d %d %d %d", ri, off, ln, fin, rn.now)
		}
		room := min(lim-hr, climRoom)
		if rn.spec && rs.advLimit > hr && r.Chance(20) {
			// what the peer was told it may send on this kind of stream, whatever is enforced
			off = max(rs.advLimit-r.Range(1, 1200), hr)
			return fmt.Sprintf("frame %d %d %d %d %d", ri, off, rs.advLimit-off, 0, rn.now)
		}
		switch r.Pick(62, 10, 12, 8, 2, 2, 4) {
		case 0: // in order, inside the windows
			off = hr
			ln = r.Range(1, max(min(room, 1200), 1))
			if ln > room {
				ln = max(room, 0)
			}
		case 1: // exactly up to the limit
			off = hr
			ln = max(min(room, 1400), 0)
			if ln < room {
				off = hr + room - ln
			}
		case 2: // duplicate / overlapping old data
			ln = r.Range(0, min(hr, 800))
			off = r.Range(0, hr-ln)
		case 3: // a gap, still inside the windows
			gap := r.Range(1, 50)
			off = hr + gap
			ln = r.Range(1, 200)
			if off+ln-hr > room {
				off, ln = hr, max(min(room, 100), 0)
			}
		case 4: // one byte beyond the stream limit
			off = hr
			ln = lim - hr + 1
			if ln > 1400 {
				off, ln = lim-100, 101
			}
		case 5: // one byte beyond the connection limit
			off = hr
			ln = climRoom + 1
			if ln > 1400 {
				off, ln = hr+climRoom-100, 101
			}
		default: // empty frame
			off, ln = r.Range(0, hr), 0
		}
		if off < 0 {
			off = 0
		}
		if r.Chance(5) {
			fin = 1
		}
		return fmt.Sprintf("frame %d %d %d %d %d", ri, off, ln, fin, rn.now)
	case 8: // RESET_STREAM / RESET_STREAM_AT
		hr, lim, climRoom := rn.recvRoom(ri)
		fs := hr + r.Range(0, max(min(lim-hr, climRoom), 0))
		if rs.final >= 0 {
			fs = rs.final
		}
		if r.Chance(6) {
			fs = max(fs-1, 0)
		}
		// reliable size: 0 (plain RESET_STREAM), before / at / after the read position, at / beyond the
		// contiguous data, the whole stream
		var rel int64
		av := rs.avail()
		switch r.Pick(30, 10, 10, 20, 10, 10, 10) {
		case 0:
			rel = 0
		case 1:
			rel = r.Range(0, rs.readPos)
		case 2:
			rel = rs.readPos
		case 3:
			rel = r.Range(rs.readPos, max(av, rs.readPos))
		case 4:
			rel = av
		case 5:
			rel = r.Range(av, max(fs, av))
		default:
			rel = fs
		}
		rel = min(rel, fs)
		return fmt.Sprintf("rst %d %d %d %d", ri, fs, rel, rn.now)
	case 9: // read
		var n int64
		left := rs.avail() - rs.readPos
		if rs.reset && rs.reliable > rs.readPos {
			left = rs.reliable - rs.readPos // what is still to be read reliably
		}
		switch r.Pick(25, 25, 20, 15, 15) {
		case 0:
			n = r.Range(1, 100)
		case 1:
			n = r.Range(100, 2000)
		case 2:
			n = 100_000 // larger than anything buffered
		case 3:
			n = max(left, 1) // exact fit
		default:
			n = max(left, 0) + r.Range(1, 3) // just over
		}
		return fmt.Sprintf("rd %d %d", ri, n)
	case 10:
		return fmt.Sprintf("cancel %d", ri)
	default:
		return fmt.Sprintf("cupd %d", rn.now)
	}
}

func (rn *runner) pickRecv(r *vh.Rand) int { return rn.rgen0 + r.Intn(len(rn.rcv)-rn.rgen0) }

// pickSend prefers send streams that survived a 0-RTT rejection.
func (rn *runner) pickSend(r *vh.Rand) int {
	if rn.gen0 < len(rn.snd) && !r.Chance(5) {
		return rn.gen0 + r.Intn(len(rn.snd)-rn.gen0)
	}
	return r.Intn(len(rn.snd))
}

// genZero: the 0-RTT phase of a resuming client — only the sending side is active; then the server either
// accepts (its parameters are at least the remembered ones) or rejects 0-RTT (anything may follow).
func (rn *runner) genZero(r *vh.Rand) string {
	if len(rn.snd) < 1 {
		return "open " + kinds[r.Pick(70, 30, 0, 0)]
	}
	if !rn.rejected && r.Chance(8) {
		return fmt.Sprintf("reject %d", rn.now)
	}
	if r.Chance(map[bool]int{false: 6, true: 30}[rn.rejected]) {
		p := rn.restored
		if rn.rejected {
			// after a rejection the new limits are unrelated to the remembered ones: often smaller
			for i := range p {
				switch r.Pick(40, 20, 40) {
				case 0:
					p[i] = r.Range(0, max(p[i], 1))
				case 1:
					p[i] = rn.win(r)
				}
			}
		} else {
			for i := range p {
				p[i] += []int64{0, r.Range(1, 3000)}[r.Intn(2)]
			}
		}
		return fmt.Sprintf("params %d %d %d %d", p[0], p[1], p[2], p[3])
	}
	si := r.Intn(len(rn.snd))
	switch r.Pick(10, 30, 25, 10, 4, 4, 4, 5, 8) {
	case 0:
		return "open " + kinds[r.Pick(70, 30, 0, 0)]
	case 1:
		return fmt.Sprintf("w %d %d", si, []int64{r.Range(1, 400), r.Range(400, 1400), r.Range(1400, 9000)}[r.Pick(50, 30, 20)])
	case 2:
		return fmt.Sprintf("pack %d %d", []int64{r.Range(1, 200), r.Range(200, 1300), r.Range(1300, 1452)}[r.Pick(25, 50, 25)], rn.now)
	case 3:
		return fmt.Sprintf("send %d %d", r.Range(1200, 1452), rn.now)
	case 4:
		return fmt.Sprintf("close %d", si)
	case 5:
		return fmt.Sprintf("cw %d", si)
	case 6:
		return fmt.Sprintf("rb %d", si)
	case 7:
		return fmt.Sprintf("poison %d", 1+r.Intn(4))
	default:
		if len(rn.out) == 0 {
			return fmt.Sprintf("pack 1200 %d", rn.now)
		}
		return fmt.Sprintf("%s %d", []string{"lost", "acked"}[r.Intn(2)], r.Intn(len(rn.out)))
	}
}

// genPkt: ONE packet with 1..5 frames for the real handleFrames: STREAM frames that stay within the limits (new data on
// distinct streams sharing what is left of the connection window, old data anywhere), RESET_STREAM, MAX_STREAM_DATA,
// MAX_DATA, PING, *_BLOCKED — and, in 22% of the packets, at a random position ONE frame that is a single byte beyond its
// stream's or the connection's limit (or contradicts a final size), followed by whatever comes next.
func (rn *runner) genPkt(r *vh.Rand) string {
	n := 1 + r.Pick(20, 30, 25, 15, 10)
	offendAt := -1
	if r.Chance(22) {
		offendAt = r.Intn(n)
	}
	used := map[int]bool{}
	c := flowcontrol.VerifDump(rn.conn)
	budget := field(c, 5) - field(c, 4) // what is left of the connection window
	var subs []string
	fresh := func() int { // a receive stream not touched by this packet yet, preferably still open
		ri := rn.pickRecv(r)
		for try := 0; try < 6 && (used[ri] || rn.rcv[ri].final >= 0 || rn.rcv[ri].cancelled); try++ {
			ri = rn.pickRecv(r)
		}
		return ri
	}
	oldData := func(ri int) string {
		hr, _, _ := rn.recvRoom(ri)
		ln := r.Range(0, min(hr, 800))
		return fmt.Sprintf("frame %d %d %d 0 %d", ri, r.Range(0, hr-ln), ln, rn.now)
	}
	for i := 0; i < n; i++ {
		if i == offendAt {
			ri := fresh()
			rs := rn.rcv[ri]
			hr, lim, _ := rn.recvRoom(ri)
			if used[ri] || rs.cancelled {
				subs = append(subs, "ping")
				continue
			}
			used[ri] = true
			var off, ln int64
			switch {
			case rs.final >= 0: // beyond / contradicting the final size
				off, ln = rs.final+r.Range(0, 2), r.Range(1, 10)
			case r.Chance(60) || lim-hr <= budget: // one byte beyond the stream limit
				off, ln = hr, lim-hr+1
				if ln > 1400 {
					off, ln = lim-100, 101
				}
			default: // one byte beyond the connection limit
				off, ln = hr, budget+1
				if ln > 1400 {
					off, ln = hr+budget-100, 101
				}
			}
			if r.Chance(15) {
				subs = append(subs, fmt.Sprintf("rst %d %d 0 %d", ri, off+ln, rn.now))
			} else {
				subs = append(subs, fmt.Sprintf("frame %d %d %d %d %d", ri, max(off, 0), ln, r.Pick(85, 15), rn.now))
			}
			continue
		}
		switch r.Pick(50, 8, 12, 8, 10, 6, 6, 3) {
		case 7: // STOP_SENDING: the send side answers with RESET_STREAM (final size = what was sent)
			subs = append(subs, fmt.Sprintf("stop %d", rn.pickSend(r)))
		case 0: // STREAM
			ri := fresh()
			rs := rn.rcv[ri]
			if used[ri] || rs.final >= 0 || rs.cancelled {
				if rs.cancelled && used[ri] {
					subs = append(subs, "ping")
				} else {
					used[ri] = true
					subs = append(subs, oldData(ri))
				}
				continue
			}
			used[ri] = true
			hr, lim, _ := rn.recvRoom(ri)
			room := max(min(lim-hr, budget), 0)
			var off, ln int64
			switch r.Pick(60, 20, 10, 10) {
			case 0: // in order
				off, ln = hr, min(r.Range(1, 1200), room)
			case 1: // exactly up to the limit
				ln = min(room, 1400)
				off = hr + room - ln
			case 2: // a gap
				off = hr + r.Range(1, 50)
				ln = r.Range(1, 200)
				if off+ln-hr > room {
					off, ln = hr, min(room, 100)
				}
			default:
				subs = append(subs, oldData(ri))
				continue
			}
			fin := 0
			if r.Chance(8) {
				fin = 1
			}
			budget -= max(off+ln-hr, 0)
			subs = append(subs, fmt.Sprintf("frame %d %d %d %d %d", ri, off, ln, fin, rn.now))
		case 1: // RESET_STREAM / RESET_STREAM_AT within the limits
			ri := fresh()
			rs := rn.rcv[ri]
			if used[ri] {
				subs = append(subs, "ping")
				continue
			}
			used[ri] = true
			hr, lim, _ := rn.recvRoom(ri)
			fs := hr + r.Range(0, max(min(lim-hr, budget, 500), 0))
			if rs.final >= 0 {
				fs = rs.final
			}
			budget -= max(fs-hr, 0)
			rel := []int64{0, 0, rs.readPos, r.Range(0, fs), fs}[r.Intn(5)]
			subs = append(subs, fmt.Sprintf("rst %d %d %d %d", ri, fs, min(rel, fs), rn.now))
		case 2: // MAX_STREAM_DATA
			si := rn.pickSend(r)
			ss := rn.snd[si]
			cur := field(quic.VerifFCSendDump(ss.s), 1)
			subs = append(subs, fmt.Sprintf("smax %d %d", si, []int64{max(cur, ss.newEnd) + r.Range(1, 3000), cur, r.Range(0, max(cur, 1))}[r.Pick(60, 15, 25)]))
		case 3: // MAX_DATA
			var tot int64
			for _, s := range rn.snd {
				tot += s.newEnd
			}
			subs = append(subs, fmt.Sprintf("cmax %d", []int64{tot + int64(rn.conn.SendWindowSize()) + r.Range(1, 5000), r.Range(0, tot+int64(rn.conn.SendWindowSize())+1)}[r.Pick(65, 35)]))
		case 4:
			subs = append(subs, "ping")
		case 5:
			subs = append(subs, fmt.Sprintf("sdb %d", rn.pickRecv(r)))
		default:
			subs = append(subs, "db")
		}
	}
	return fmt.Sprintf("pkt %d ; %s", rn.now, strings.Join(subs, " ; "))
}

// genBatch: two or three events handled back to back (one packet carrying several frames, or the application acting
// between the arrival of a frame and the moment a parked Read / Write gets to run): preferably on a receive stream
// with a parked Read — the rest of the stream (with FIN) / a reset / CancelRead in every order — or on a send stream
// with a parked Write — MAX_STREAM_DATA / MAX_DATA / CancelWrite.
func (rn *runner) genBatch(r *vh.Rand, ri, si int) string {
	for i, s := range rn.rcv {
		if i >= rn.rgen0 && s.reading && r.Chance(70) {
			ri = i
		}
	}
	for i, s := range rn.snd {
		if i >= rn.gen0 && s.writing && r.Chance(70) {
			si = i
		}
	}
	rs, ss := rn.rcv[ri], rn.snd[si]
	var ops []string
	if r.Chance(25) { // send side
		cur := field(quic.VerifFCSendDump(ss.s), 1)
		var tot int64
		for _, s := range rn.snd {
			tot += s.newEnd
		}
		perm := []int{0, 1, 2}
		for i := 2; i > 0; i-- {
			j := r.Intn(i + 1)
			perm[i], perm[j] = perm[j], perm[i]
		}
		for _, k := range perm[:2+r.Intn(2)] {
			switch k {
			case 0:
				ops = append(ops, fmt.Sprintf("smax %d %d", si, max(cur, ss.newEnd)+r.Range(1, 3000)))
			case 1:
				ops = append(ops, fmt.Sprintf("cmax %d", tot+int64(rn.conn.SendWindowSize())+r.Range(1, 5000)))
			default:
				ops = append(ops, fmt.Sprintf("cw %d", si))
			}
		}
		return "batch " + strings.Join(ops, " ; ")
	}
	hr, lim, climRoom := rn.recvRoom(ri)
	room := max(min(lim-hr, climRoom), 0)
	end := max(hr, rs.avail()) // where in-order data continues
	final := rs.final
	n := 2 + r.Intn(2)
	cancelled := rs.cancelled
	for try := 0; len(ops) < n && try < 12; try++ {
		k := r.Pick(50, 30, 20)
		if final >= 0 && end >= final && k == 0 {
			k = 1
		}
		if k == 1 && cancelled {
			continue
		}
		switch k {
		case 0: // the next in-order piece, often the last one
			ln := r.Range(1, max(min(room, 600), 1))
			if ln > room {
				ln = room
			}
			fin := 0
			if final >= 0 {
				ln = min(ln, max(final-end, 0))
				if end+ln == final {
					fin = 1
				}
			} else if r.Chance(60) {
				fin, final = 1, end+ln
			}
			ops = append(ops, fmt.Sprintf("frame %d %d %d %d %d", ri, end, ln, fin, rn.now))
			end += ln
			room -= ln
		case 1:
			ops = append(ops, fmt.Sprintf("cancel %d", ri))
			cancelled = true
		default:
			fs := final
			if fs < 0 {
				fs = end + r.Range(0, min(room, 300))
				final = fs
			}
			rel := []int64{0, 0, rs.readPos, r.Range(0, fs), fs}[r.Intn(5)]
			ops = append(ops, fmt.Sprintf("rst %d %d %d %d", ri, fs, min(rel, fs), rn.now))
		}
	}
	if len(ops) == 0 {
		return fmt.Sprintf("cupd %d", rn.now)
	}
	return "batch " + strings.Join(ops, " ; ")
}

func field(dump string, i int) int64 {
	f := strings.Split(dump, "/")
	if i < len(f) {
		return vh.Atoi64(f[i])
	}
	return 0
}

// recvRoom peeks at the real controllers (generator steering only): stream highest, stream limit, connection room.
func (rn *runner) recvRoom(ri int) (hr, lim, connRoom int64) {
	d := quic.VerifFCReceiveDump(rn.rcv[ri].s)
	c := flowcontrol.VerifDump(rn.conn)
	return field(d, 4), field(d, 5), field(c, 5) - field(c, 4)
}

func errClass(err error) string {
	if err == nil {
		return "ok"
	}
	var te *qerr.TransportError
	if errors.As(err, &te) {
		switch te.ErrorCode {
		case qerr.FlowControlError:
			return "E:FLOW_CONTROL_ERROR"
		case qerr.FinalSizeError:
			return "E:FINAL_SIZE_ERROR"
		}
	}
	return "E:other"
}

func (rn *runner) suffix() string {
	return " | c=" + flowcontrol.VerifDump(rn.conn)
}

func (rn *runner) settle() {
	synctest.Wait()
	for _, s := range rn.snd {
		if s.writing {
			select {
			case <-s.wdone:
				s.writing = false
			default:
			}
		}
	}
	for i, s := range rn.rcv {
		if s.reading {
			select {
			case d := <-s.rdone:
				s.reading = false
				rn.doneToks = append(rn.doneToks, fmt.Sprintf("rdone:%d:%d:%s", i, d.k, s.readResult(d.k, d.err)))
			default:
			}
		}
	}
}

// readResult books a finished Read and names its outcome.
func (s *recvSt) readResult(k int, err error) string {
	s.readPos += int64(k)
	var se *quic.StreamError
	switch {
	case err == nil:
		return "ok"
	case err == io.EOF:
		s.dead = true
		return "eof"
	case errors.As(err, &se) && se.Remote:
		s.dead = true
		return "E:reset"
	case errors.As(err, &se):
		s.dead = true
		return "E:cancel"
	}
	return "E:other"
}

func (rn *runner) takeDone() string {
	if len(rn.doneToks) == 0 {
		return ""
	}
	t := " " + strings.Join(rn.doneToks, " ")
	rn.doneToks = nil
	return t
}

func addInterval(ivs [][2]int64, a, b int64) [][2]int64 {
	if a >= b {
		return ivs
	}
	ivs = append(ivs, [2]int64{a, b})
	sort.Slice(ivs, func(i, j int) bool { return ivs[i][0] < ivs[j][0] })
	out := ivs[:0]
	for _, iv := range ivs {
		if n := len(out); n > 0 && iv[0] <= out[n-1][1] {
			if iv[1] > out[n-1][1] {
				out[n-1][1] = iv[1]
			}
		} else {
			out = append(out, iv)
		}
	}
	return out
}

// avail is the end of the contiguous data starting at readPos.
func (s *recvSt) avail() int64 {
	for _, iv := range s.ivs {
		if iv[0] <= s.readPos && s.readPos < iv[1] {
			return iv[1]
		}
	}
	return s.readPos
}

func (rn *runner) AfterPanic(op string) string {
	if rn.conn == nil {
		return "PANIC"
	}
	return "PANIC" + rn.suffix()
}

func (rn *runner) addSend(s *quic.SendStream, id protocol.StreamID) int {
	rn.snd = append(rn.snd, &sendSt{s: s, id: id, wdone: make(chan int, 1)})
	rn.sidx[id] = len(rn.snd) - 1
	return len(rn.snd) - 1
}

func (rn *runner) addRecv(s *quic.ReceiveStream, id protocol.StreamID, advLimit int64) int {
	rn.rcv = append(rn.rcv, &recvSt{s: s, id: id, final: -1, advLimit: advLimit, rdone: make(chan rdResult, 1)})
	rn.ridx[id] = len(rn.rcv) - 1
	return len(rn.rcv) - 1
}

var debugOps = os.Getenv("FC_DEBUG") != ""

var batchable = map[string]bool{"frame": true, "rst": true, "cancel": true, "smax": true, "cmax": true, "cw": true}

func (rn *runner) Exec(op string) string {
	if strings.HasPrefix(op, "pkt ") || strings.HasPrefix(op, "pkt0 ") {
		if rn.conn == nil || rn.zero || (strings.HasPrefix(op, "pkt0 ") && (rn.client || rn.saw1RTT)) {
			return "skip"
		}
		res := rn.execPkt(strings.Split(op, " ; "))
		if res == "skip" {
			return res
		}
		rn.settle()
		return res + rn.takeDone() + rn.suffix()
	}
	if strings.HasPrefix(op, "batch ") {
		if rn.conn == nil {
			return "skip"
		}
		var outs []string
		for _, sub := range strings.Split(op[len("batch "):], " ; ") {
			if f := strings.Fields(sub); len(f) == 0 || !batchable[f[0]] {
				outs = append(outs, "skip")
				continue
			}
			outs = append(outs, rn.exec1(sub))
		}
		rn.settle()
		return strings.Join(outs, " ; ") + rn.takeDone() + rn.suffix()
	}
	res := rn.exec1(op)
	if res == "skip" || rn.conn == nil || strings.Contains(res, " | c=") {
		return res
	}
	rn.settle()
	return res + rn.takeDone() + rn.suffix()
}

// exec1 runs one operation; goroutines it wakes are not waited for.
func (rn *runner) exec1(op string) string {
	if debugOps { // a hang cannot be seen in the (buffered) .ops file
		fmt.Fprintln(os.Stderr, "exec:", op)
	}
	f := strings.Fields(op)
	if len(f) == 0 {
		return "skip"
	}
	arg := func(i int) int64 {
		if i < len(f) {
			return vh.Atoi64(f[i])
		}
		return 0
	}
	traced := len(f) > 0 && f[len(f)-1] == "t"
	if traced {
		f = f[:len(f)-1]
	}
	if f[0] == "init" || f[0] == "init0" {
		zero := f[0] == "init0"
		if zero {
			f = append([]string{"init", "c"}, f[1:]...)
		}
		if rn.conn != nil || len(f) < 10 {
			return "skip"
		}
		for i := 2; i <= 5; i++ {
			if arg(i) <= 0 { // 0 would be replaced by the default values in populateConfig
				return "skip"
			}
		}
		rn.client = f[1] == "c"
		kind := "server"
		if rn.client {
			kind = "client"
		}
		h, err := quic.VerifFCNew(kind, &quic.Config{
			InitialConnectionReceiveWindow: uint64(arg(2)), MaxConnectionReceiveWindow: uint64(arg(3)),
			InitialStreamReceiveWindow: uint64(arg(4)), MaxStreamReceiveWindow: uint64(arg(5)),
			EnableStreamResetPartialDelivery: true,
		}, nil, traced)
		if err != nil {
			return "E:other"
		}
		rn.h = h
		pp := &wire.TransportParameters{
			InitialMaxData:                 protocol.ByteCount(arg(6)),
			InitialMaxStreamDataBidiLocal:  protocol.ByteCount(arg(7)),
			InitialMaxStreamDataBidiRemote: protocol.ByteCount(arg(8)),
			InitialMaxStreamDataUni:        protocol.ByteCount(arg(9)),
			MaxBidiStreamNum:               1000,
			MaxUniStreamNum:                1000,
			EnableResetStreamAt:            true,
		}
		if zero {
			rn.zero = true
			rn.restored = [4]int64{arg(6), arg(7), arg(8), arg(9)}
			rn.h.RestoreParameters(pp)
		} else {
			err = rn.h.PeerParameters(pp)
		}
		rn.conn = rn.h.ConnFC()
		if err != nil {
			return "E:other" + rn.suffix()
		}
		a0, a1, a2, a3, ok := rn.h.Advertised()
		if !ok {
			return "E:other" + rn.suffix()
		}
		return fmt.Sprintf("ok adv=%d,%d,%d,%d", a0, a1, a2, a3) + rn.suffix()
	}
	if f[0] == "uinit" {
		if rn.conn != nil || len(f) < 14 {
			return "skip"
		}
		for i := 2; i <= 5; i++ {
			if arg(i) <= 0 {
				return "skip"
			}
		}
		id := quic.QUICFirefox_116
		if f[1] == "ch" {
			id = quic.QUICChrome_115
		}
		spec, err := quic.QUICID2Spec(id)
		if err != nil || spec.ClientHelloSpec == nil {
			return "skip"
		}
		var ext *tls.QUICTransportParametersExtension
		for _, e := range spec.ClientHelloSpec.Extensions {
			if q, ok := e.(*tls.QUICTransportParametersExtension); ok {
				ext = q
			}
		}
		if ext == nil {
			return "skip"
		}
		// replace the advertised flow-control parameters; read back what the list now says
		adv := [4]int64{0, 0, 0, 0}
		for i, p := range ext.TransportParameters {
			switch x := p.(type) {
			case tls.InitialMaxData:
				if arg(6) >= 0 {
					ext.TransportParameters[i] = tls.InitialMaxData(arg(6))
				} else {
					_ = x
				}
			case tls.InitialMaxStreamDataBidiLocal:
				if arg(7) >= 0 {
					ext.TransportParameters[i] = tls.InitialMaxStreamDataBidiLocal(arg(7))
				}
			case tls.InitialMaxStreamDataBidiRemote:
				if arg(8) >= 0 {
					ext.TransportParameters[i] = tls.InitialMaxStreamDataBidiRemote(arg(8))
				}
			case tls.InitialMaxStreamDataUni:
				if arg(9) >= 0 {
					ext.TransportParameters[i] = tls.InitialMaxStreamDataUni(arg(9))
				}
			}
		}
		for _, p := range ext.TransportParameters {
			switch x := p.(type) {
			case tls.InitialMaxData:
				adv[0] = int64(x)
			case tls.InitialMaxStreamDataBidiLocal:
				adv[1] = int64(x)
			case tls.InitialMaxStreamDataBidiRemote:
				adv[2] = int64(x)
			case tls.InitialMaxStreamDataUni:
				adv[3] = int64(x)
			}
		}
		h, err := quic.VerifFCNew("uclient", &quic.Config{
			InitialConnectionReceiveWindow: uint64(arg(2)), MaxConnectionReceiveWindow: uint64(arg(3)),
			InitialStreamReceiveWindow: uint64(arg(4)), MaxStreamReceiveWindow: uint64(arg(5)),
			EnableStreamResetPartialDelivery: true,
		}, &spec, traced)
		if err != nil {
			return "E:other"
		}
		rn.h, rn.client, rn.spec = h, true, true
		rn.adv = [3]int64{adv[1], adv[2], adv[3]}
		err = rn.h.PeerParameters(&wire.TransportParameters{
			InitialMaxData:                 protocol.ByteCount(arg(10)),
			InitialMaxStreamDataBidiLocal:  protocol.ByteCount(arg(11)),
			InitialMaxStreamDataBidiRemote: protocol.ByteCount(arg(12)),
			InitialMaxStreamDataUni:        protocol.ByteCount(arg(13)),
			MaxBidiStreamNum:               1000,
			MaxUniStreamNum:                1000,
			EnableResetStreamAt:            true,
		})
		rn.conn = rn.h.ConnFC()
		if err != nil {
			return "E:other" + rn.suffix()
		}
		return fmt.Sprintf("ok adv=%d,%d,%d,%d", adv[0], adv[1], adv[2], adv[3]) + rn.suffix()
	}
	if rn.conn == nil {
		return "skip"
	}
	sidx := func() *sendSt {
		if len(f) >= 2 && arg(1) >= 0 && int(arg(1)) < len(rn.snd) {
			return rn.snd[arg(1)]
		}
		return nil
	}
	ridx := func() *recvSt {
		if len(f) >= 2 && arg(1) >= int64(rn.rgen0) && int(arg(1)) < len(rn.rcv) {
			return rn.rcv[arg(1)]
		}
		return nil
	}
	var res string
	switch f[0] {
	case "open":
		if len(f) < 2 {
			return "skip"
		}
		var ss *quic.SendStream
		var rs *quic.ReceiveStream
		var id protocol.StreamID
		var err error
		switch f[1] {
		case "lb":
			ss, rs, id, err = rn.h.OpenBidi()
		case "lu":
			ss, id, err = rn.h.OpenUni()
		case "pb", "pu":
			// ids of peer-initiated streams: low bit = initiator (0 client, 1 server), 0x2 = unidirectional
			k := 0
			if f[1] == "pu" {
				k = 1
			}
			id = protocol.StreamID(4*rn.nPeer[k] + int64(2*k))
			if rn.client {
				id++
			}
			ss, rs, err = rn.h.PeerOpens(id)
			if err == nil {
				rn.nPeer[k]++
			}
		default:
			return "skip"
		}
		if err != nil {
			res = "E:other"
			break
		}
		sp, rp, sw, rw := "-", "-", "-", "-"
		if ss != nil {
			sp = strconv.Itoa(rn.addSend(ss, id))
			sw = strconv.FormatInt(field(quic.VerifFCSendDump(ss), 1), 10)
		}
		if rs != nil {
			al := int64(-1)
			if rn.spec {
				al = rn.adv[map[string]int{"lb": 0, "pb": 1, "pu": 2}[f[1]]]
			}
			rp = strconv.Itoa(rn.addRecv(rs, id, al))
			rw = strconv.FormatInt(field(quic.VerifFCReceiveDump(rs), 5), 10)
		}
		res = fmt.Sprintf("s=%s r=%s id=%d sw=%s rw=%s", sp, rp, int64(id), sw, rw)
	case "w":
		s := sidx()
		n := arg(2)
		if s == nil || s.writing || s.closed || n <= 0 || n > 1<<20 {
			return "skip"
		}
		// never call Write on the driver's goroutine: whether it returns at once is the implementation's business
		s.writing = true
		s.written += n
		go func() {
			k, _ := s.s.Write(make([]byte, n))
			s.wdone <- k
		}()
		synctest.Wait()
		select {
		case k := <-s.wdone:
			s.writing = false
			s.written -= n - int64(k)
			res = fmt.Sprintf("n=%d", k)
			if int64(k) < n {
				res += " E:other"
			}
		default:
			res = "started"
		}
	case "close":
		s := sidx()
		if s == nil || s.writing {
			return "skip"
		}
		s.closed = true
		if err := s.s.Close(); err != nil {
			res = "E:other"
		} else {
			res = "ok"
		}
	case "rb":
		s := sidx()
		// not after CancelWrite: a reliable boundary set on a stream that was already reset without one makes a
		// later OnLost/OnAcked of an old frame panic ("numOutStandingFrames negative") with the stream mutex held
		if s == nil || s.cancelled {
			return "skip"
		}
		s.s.SetReliableBoundary()
		res = "ok"
	case "cw":
		s := sidx()
		if s == nil {
			return "skip"
		}
		s.s.CancelWrite(11)
		s.closed, s.cancelled = true, true
		res = "ok"
	case "smax":
		s := sidx()
		if s == nil || arg(1) < int64(rn.gen0) { // the id of a discarded stream now belongs to another stream
			return "skip"
		}
		res = errClass(rn.h.HandleMaxStreamDataFrame(&wire.MaxStreamDataFrame{StreamID: s.id, MaximumStreamData: protocol.ByteCount(arg(2))}))
	case "cmax":
		rn.h.HandleMaxDataFrame(&wire.MaxDataFrame{MaximumData: protocol.ByteCount(arg(1))})
		res = "ok"
	case "pack", "send":
		if arg(1) <= 0 {
			return "skip"
		}
		var frames []ackhandler.Frame
		var sfs []ackhandler.StreamFrame
		var parts []string
		if f[0] == "send" {
			var err error
			frames, sfs, err = rn.h.SendPackets(protocol.ByteCount(arg(1)), monotime.Time(arg(2)))
			if err != nil {
				parts = append(parts, "X:send-error")
			}
		} else {
			frames, sfs = rn.h.Pack(protocol.ByteCount(arg(1)), monotime.Time(arg(2)))
		}
		// what the peer sees: every frame is serialised by its real Append and parsed back (as the packer and the
		// peer's frame parser would); the tokens below are made from the PARSED frames
		wframes, wsfs, werr := onTheWire(frames, sfs)
		if werr != "" {
			parts = append(parts, werr)
		}
		for i, sf := range sfs {
			w := wsfs[i]
			si, ok := rn.sidx[w.StreamID]
			if !ok {
				parts = append(parts, fmt.Sprintf("X:stream-frame-for-unknown-stream:%d", int64(w.StreamID)))
				continue
			}
			end := int64(w.Offset) + int64(w.DataLen())
			if end > rn.snd[si].newEnd {
				rn.snd[si].newEnd = end
			}
			parts = append(parts, fmt.Sprintf("S:%d:%d:%d:%d", si, int64(w.Offset), int64(w.DataLen()), b2i(w.Fin)))
			rn.out = append(rn.out, outFrame{f: sf.Frame, h: sf.Handler, sid: si})
		}
		var ctl []string
		for _, fr := range wframes {
			switch x := fr.(type) {
			case *wire.StreamDataBlockedFrame:
				ctl = append(ctl, fmt.Sprintf("SB:%d:%d", rn.sidx[x.StreamID], int64(x.MaximumStreamData)))
			case *wire.DataBlockedFrame:
				ctl = append(ctl, fmt.Sprintf("DB:%d", int64(x.MaximumData)))
			case *wire.MaxStreamDataFrame:
				ctl = append(ctl, fmt.Sprintf("MS:%d:%d", rn.ridx[x.StreamID], int64(x.MaximumStreamData)))
			case *wire.MaxDataFrame:
				ctl = append(ctl, fmt.Sprintf("MD:%d", int64(x.MaximumData)))
			case *wire.ResetStreamFrame:
				ctl = append(ctl, fmt.Sprintf("RS:%d:%d:%d", rn.sidx[x.StreamID], int64(x.FinalSize), int64(x.ReliableSize)))
			case *wire.StopSendingFrame:
				ctl = append(ctl, fmt.Sprintf("X:stop_sending:%d", rn.ridx[x.StreamID]))
			case *wire.MaxStreamsFrame:
				ctl = append(ctl, fmt.Sprintf("X:max_streams:%d:%d", x.Type, int64(x.MaxStreamNum)))
			default:
				ctl = append(ctl, fmt.Sprintf("X:%T", x))
			}
		}
		sort.Strings(ctl) // stream control frames come out of a Go map
		parts = append(parts, ctl...)
		if len(parts) == 0 {
			res = "-"
		} else {
			res = strings.Join(parts, " ")
		}
	case "lost", "acked":
		k := int(arg(1))
		if len(f) < 2 || k < 0 || k >= len(rn.out) {
			return "skip"
		}
		o := rn.out[k]
		rn.out = append(rn.out[:k], rn.out[k+1:]...)
		if f[0] == "lost" {
			o.h.OnLost(o.f)
		} else {
			o.h.OnAcked(o.f)
		}
		res = "ok"
	case "frame":
		s := ridx()
		off, ln := arg(2), arg(3)
		if s == nil || off < 0 || ln < 0 || ln > 1<<16 {
			return "skip"
		}
		if rn.h.ReceiveStreamGone(s.id) {
			res = "gone" // completed and deleted from the streams map: the frame would be dropped
			break
		}
		err := rn.h.HandleStreamFrame(&wire.StreamFrame{StreamID: s.id,
			Offset: protocol.ByteCount(off), Data: make([]byte, ln), Fin: arg(4) == 1}, monotime.Time(arg(5)))
		res = errClass(err)
		if err == nil {
			if !s.cancelled {
				s.ivs = addInterval(s.ivs, off, off+ln)
			}
			if arg(4) == 1 {
				s.final = off + ln
			}
		} else if !rn.errored {
			rn.errored, rn.dead = true, 3
		}
	case "rst":
		s := ridx()
		if s == nil || arg(2) < 0 || arg(3) < 0 || arg(3) > arg(2) {
			return "skip"
		}
		if rn.h.ReceiveStreamGone(s.id) {
			res = "gone"
			break
		}
		err := rn.h.HandleResetStreamFrame(&wire.ResetStreamFrame{StreamID: s.id,
			FinalSize: protocol.ByteCount(arg(2)), ReliableSize: protocol.ByteCount(arg(3)), ErrorCode: 7}, monotime.Time(arg(4)))
		res = errClass(err)
		if err == nil {
			s.final = arg(2)
			if !s.cancelled {
				if (!s.reset && s.reliable == 0) || arg(3) < s.reliable {
					s.reliable = arg(3)
				}
				s.reset = true
			}
		} else if !rn.errored {
			rn.errored, rn.dead = true, 3
		}
	case "rd":
		s := ridx()
		n := arg(2)
		if s == nil || n <= 0 || n > 1<<20 {
			return "skip"
		}
		// Read blocks when nothing is readable and the stream is not finished: never call it then
		if (!s.readable() && !s.rdlPast) || s.reading {
			return "skip"
		}
		// the driver's book-keeping says this Read returns at once; should the implementation disagree (a frame the
		// driver counted was not delivered), the Read must not hang the driver: it runs in a goroutine like rdb
		s.reading = true
		go func() {
			k, err := s.s.Read(make([]byte, n))
			s.rdone <- rdResult{k, err}
		}()
		synctest.Wait()
		select {
		case d := <-s.rdone:
			s.reading = false
			res = fmt.Sprintf("n=%d %s", d.k, s.readResult(d.k, d.err))
		default:
			res = "started"
		}
	case "rdb":
		s := ridx()
		n := arg(2)
		if s == nil || n <= 0 || n > 1<<20 || s.reading {
			return "skip"
		}
		s.reading = true
		go func() {
			k, err := s.s.Read(make([]byte, n))
			s.rdone <- rdResult{k, err}
		}()
		res = "started"
	case "cancel":
		s := ridx()
		if s == nil {
			return "skip"
		}
		s.s.CancelRead(9)
		s.cancelled = true
		res = "ok"
	case "rdl":
		s := ridx()
		if s == nil || len(f) < 3 {
			return "skip"
		}
		s.rdlPast = arg(2) == 1
		if s.rdlPast {
			s.s.SetReadDeadline(time.Now().Add(-time.Second))
		} else {
			s.s.SetReadDeadline(time.Time{})
		}
		res = "ok"
	case "wdl":
		s := sidx()
		if s == nil || len(f) < 3 {
			return "skip"
		}
		s.wdlPast = arg(2) == 1
		if s.wdlPast {
			s.s.SetWriteDeadline(time.Now().Add(-time.Second))
		} else {
			s.s.SetWriteDeadline(time.Time{})
		}
		res = "ok"
	case "poison":
		if arg(1) <= 0 || arg(1) > 16 {
			return "skip"
		}
		wire.VerifPoisonPool(int(arg(1)))
		res = "ok"
	case "reject":
		if !rn.zero || rn.rejected {
			return "skip"
		}
		rn.rejected = true
		err := rn.h.Reject0RTT(monotime.Time(arg(1)))
		// the 0-RTT packets are dropped without telling the streams; every stream is discarded
		rn.out = nil
		rn.gen0, rn.rgen0 = len(rn.snd), len(rn.rcv)
		for _, s := range rn.snd {
			s.closed, s.cancelled = true, true
		}
		if err != nil {
			res = "E:other"
		} else {
			res = "ok"
		}
	case "params":
		if !rn.zero || len(f) < 5 {
			return "skip"
		}
		rn.zero = false
		err := rn.h.PeerParameters(&wire.TransportParameters{
			InitialMaxData:                 protocol.ByteCount(arg(1)),
			InitialMaxStreamDataBidiLocal:  protocol.ByteCount(arg(2)),
			InitialMaxStreamDataBidiRemote: protocol.ByteCount(arg(3)),
			InitialMaxStreamDataUni:        protocol.ByteCount(arg(4)),
			MaxBidiStreamNum:               1000,
			MaxUniStreamNum:                1000,
			EnableResetStreamAt:            true,
		})
		if err == nil && rn.rejected {
			err = rn.h.NextConnection()
		}
		if err != nil {
			res = "E:other"
		} else {
			res = "ok"
		}
	case "cupd":
		res = strconv.FormatInt(int64(rn.h.QueueMaxData(monotime.Time(arg(1)))), 10)
	default:
		return "skip"
	}
	return res
}

// onTheWire serialises the frames of one payload (control frames first, STREAM frames last, as the packer does) with
// their real Append methods and parses the bytes back with a frame parser. On any failure the original frame stands in
// and an X: token says so.
func onTheWire(frames []ackhandler.Frame, sfs []ackhandler.StreamFrame) ([]wire.Frame, []*wire.StreamFrame, string) {
	outF := make([]wire.Frame, len(frames))
	outS := make([]*wire.StreamFrame, len(sfs))
	for i, f := range frames {
		outF[i] = f.Frame
	}
	for i, f := range sfs {
		outS[i] = f.Frame
	}
	var b []byte
	var err error
	for _, f := range frames {
		if b, err = f.Frame.Append(b, protocol.Version1); err != nil {
			return outF, outS, "X:frame-not-serialisable"
		}
	}
	for _, f := range sfs {
		if b, err = f.Frame.Append(b, protocol.Version1); err != nil {
			return outF, outS, "X:frame-not-serialisable"
		}
	}
	p := wire.NewFrameParser(true, true, true)
	nf, ns := 0, 0
	for len(b) > 0 {
		ft, l, err := p.ParseType(b, protocol.Encryption1RTT)
		if err != nil {
			break // PADDING up to the end
		}
		b = b[l:]
		if ft.IsStreamFrameType() {
			sf, l, err := p.ParseStreamFrame(ft, b, protocol.Version1)
			if err != nil || ns >= len(outS) {
				return outF, outS, "X:frame-not-parsable"
			}
			b = b[l:]
			// (a parsed frame may come from the frame pool; it is not put back: the poisoned pool stays poisoned)
			outS[ns] = sf
			ns++
			continue
		}
		fr, l, err := p.ParseLessCommonFrame(ft, b, protocol.Version1)
		if err != nil || nf >= len(outF) {
			return outF, outS, "X:frame-not-parsable"
		}
		b = b[l:]
		outF[nf] = fr
		nf++
	}
	if nf != len(outF) || ns != len(outS) {
		return outF, outS, "X:frames-lost-on-the-wire"
	}
	return outF, outS, ""
}

// execPkt: one 1-RTT packet. parts[0] = "pkt <now>", the rest are the frames in order.
func (rn *runner) execPkt(parts []string) string {
	hd := strings.Fields(parts[0])
	if len(hd) < 2 || len(parts) < 2 || len(parts) > 9 {
		return "skip"
	}
	now := vh.Atoi64(hd[1])
	var payload []byte
	var gone []string
	var after []func()
	var stops []*sendSt
	seen := map[*recvSt]int{}
	for i, sub := range parts[1:] {
		f := strings.Fields(sub)
		if len(f) == 0 {
			return "skip"
		}
		arg := func(i int) int64 {
			if i < len(f) {
				return vh.Atoi64(f[i])
			}
			return 0
		}
		var rs *recvSt
		var ss *sendSt
		if len(f) >= 2 {
			if arg(1) >= int64(rn.rgen0) && int(arg(1)) < len(rn.rcv) {
				rs = rn.rcv[arg(1)]
			}
			if arg(1) >= int64(rn.gen0) && int(arg(1)) < len(rn.snd) {
				ss = rn.snd[arg(1)]
			}
		}
		var fr wire.Frame
		switch f[0] {
		case "frame":
			off, ln := arg(2), arg(3)
			if rs == nil || off < 0 || ln < 0 || ln > 1<<14 {
				return "skip"
			}
			seen[rs]++
			fin := arg(4) == 1
			fr = &wire.StreamFrame{StreamID: rs.id, Offset: protocol.ByteCount(off), Data: make([]byte, ln), Fin: fin,
				DataLenPresent: i+2 < len(parts) || ln%2 == 0}
			after = append(after, func() {
				if !rs.cancelled {
					rs.ivs = addInterval(rs.ivs, off, off+ln)
				}
				if fin {
					rs.final = off + ln
				}
			})
		case "rst":
			fs, rel := arg(2), arg(3)
			if rs == nil || fs < 0 || rel < 0 || rel > fs {
				return "skip"
			}
			seen[rs]++
			fr = &wire.ResetStreamFrame{StreamID: rs.id, FinalSize: protocol.ByteCount(fs), ReliableSize: protocol.ByteCount(rel), ErrorCode: 7}
			after = append(after, func() {
				rs.final = fs
				if !rs.cancelled {
					if (!rs.reset && rs.reliable == 0) || rel < rs.reliable {
						rs.reliable = rel
					}
					rs.reset = true
				}
			})
		case "smax":
			if ss == nil || arg(2) < 0 {
				return "skip"
			}
			fr = &wire.MaxStreamDataFrame{StreamID: ss.id, MaximumStreamData: protocol.ByteCount(arg(2))}
		case "cmax":
			if len(f) < 2 || arg(1) < 0 {
				return "skip"
			}
			fr = &wire.MaxDataFrame{MaximumData: protocol.ByteCount(arg(1))}
		case "ping":
			fr = &wire.PingFrame{}
		case "stop":
			if ss == nil {
				return "skip"
			}
			fr = &wire.StopSendingFrame{StreamID: ss.id, ErrorCode: 5}
			stops = append(stops, ss)
		case "sdb":
			if rs == nil {
				return "skip"
			}
			fr = &wire.StreamDataBlockedFrame{StreamID: rs.id, MaximumStreamData: 1}
		case "db":
			fr = &wire.DataBlockedFrame{MaximumData: 1}
		default:
			return "skip"
		}
		if rs != nil && f[0] != "smax" && rn.h.ReceiveStreamGone(rs.id) {
			gone = append(gone, strconv.Itoa(i))
		}
		var err error
		if payload, err = fr.Append(payload, protocol.Version1); err != nil {
			return "skip"
		}
	}
	// a read-cancelled stream completes (and is deleted from the streams map) as soon as its final size is known:
	// whether a second frame for it in the same packet still reaches the stream cannot be told from outside
	for rs, k := range seen {
		if k > 1 && rs.cancelled {
			return "skip"
		}
	}
	for _, ss := range stops { // STOP_SENDING resets the send side (whether the frame is reached or not: be conservative)
		ss.closed, ss.cancelled = true, true
	}
	var processed bool
	var err error
	if hd[0] == "pkt0" {
		processed, err = rn.h.Handle0RTTPacket(payload, monotime.Time(now))
	} else {
		rn.saw1RTT = true
		processed, err = rn.h.HandlePacket(payload, monotime.Time(now))
	}
	res := errClass(err)
	if err == nil && !processed {
		res = "dropped"
	}
	if err == nil {
		for _, fn := range after {
			fn()
		}
	} else if !rn.errored {
		rn.errored, rn.dead = true, 3
	}
	g := "-"
	if len(gone) > 0 {
		g = strings.Join(gone, ",")
	}
	return res + " gone=" + g
}

// readable: a Read would return without waiting
func (s *recvSt) readable() bool {
	return s.avail() > s.readPos || s.cancelled || s.dead || (s.reset && s.readPos >= s.reliable) ||
		(!s.reset && s.final >= 0 && s.readPos >= s.final)
}

func (rn *runner) Close() {
	for _, s := range rn.snd {
		quic.VerifFCShutdownSend(s.s)
	}
	for _, s := range rn.rcv {
		quic.VerifFCShutdownReceive(s.s)
	}
	synctest.Wait()
}

func b2i(b bool) int {
	if b {
		return 1
	}
	return 0
}

func TestDriver(t *testing.T) {
	// one P: a goroutine woken by an operation (a parked Read / Write) runs only when the driver goroutine waits in
	// settle(), so the operations of a `batch` are atomic with respect to it and the trace is reproducible
	runtime.GOMAXPROCS(1)
	synctest.Test(t, func(t *testing.T) { vh.Main(t, "flowcall", newRunner) })
}
