//go:build verif

// Driver "flowcall" (property C04, caller level): real SendStreams, ReceiveStreams and the real framer,
// each stream with a real stream flow controller, all sharing one real connection flow controller —
// wired as connection.go wires them. The oracle does not predict the frames (the stream machinery is
// modelled by other properties); it runs the C04 monitors on the trace:
//
//	init <crw> <cmaxrw>                      => ok
//	snd.new <sw>                             => <sid>          rcv.new <rw> <maxrw> => <rid>
//	w <sid> <n>                              => n=<k> | started    (a Write that does not fit the frame buffer runs in a goroutine)
//	close <sid>                              => ok | E:other
//	smax <sid> <v> | cmax <v>                => ok             (MAX_STREAM_DATA / MAX_DATA received)
//	pack <maxLen> <now>                      => S:<sid>:<off>:<len>:<fin> SB:<sid>:<limit> DB:<limit> MS:<rid>:<v> MD:<v> X:<other> ... | -
//	lost <k> | acked <k>                     => ok             (k-th outstanding STREAM frame)
//	frame <rid> <off> <len> <fin> <now>      => ok | E:FLOW_CONTROL_ERROR | E:FINAL_SIZE_ERROR | E:other
//	rst <rid> <final> <now>                  => ok | E:..      (RESET_STREAM received)
//	rd <rid> <n>                             => n=<k> ok|eof|E:cancel|E:reset|E:other
//	cancel <rid>                             => ok
//	cupd <now>                               => <v>            (connection.go: GetWindowUpdate, queue MAX_DATA if > 0)
//
// every result is followed by ` | c=<connection controller dump> done=<completed stream ids>`.
package flowcall

import (
	"errors"
	"fmt"
	"io"
	"sort"
	"strconv"
	"strings"
	"testing"
	"testing/synctest"

	quic "github.com/refraction-networking/uquic"
	"github.com/refraction-networking/uquic/internal/ackhandler"
	"github.com/refraction-networking/uquic/internal/flowcontrol"
	"github.com/refraction-networking/uquic/internal/monotime"
	"github.com/refraction-networking/uquic/internal/protocol"
	"github.com/refraction-networking/uquic/internal/qerr"
	"github.com/refraction-networking/uquic/internal/utils"
	"github.com/refraction-networking/uquic/internal/verifharness/vh"
	"github.com/refraction-networking/uquic/internal/wire"
)

type sendSt struct {
	s       *quic.SendStream
	fc      flowcontrol.StreamFlowController
	written int64 // bytes accepted by completed Write calls + bytes of a running Write
	newEnd  int64 // highest offset+len of any STREAM frame popped
	writing bool  // a Write goroutine is running
	closed  bool
	wdone   chan int
}

type recvSt struct {
	s         *quic.ReceiveStream
	fc        flowcontrol.StreamFlowController
	ivs       [][2]int64 // received intervals (merged, sorted) — to know whether Read would block
	readPos   int64
	final     int64 // -1 unknown
	cancelled bool
	reset     bool
	dead      bool // EOF or error was returned
}

type outFrame struct {
	f   *wire.StreamFrame
	h   ackhandler.FrameHandler
	sid int
}

type runner struct {
	rtt  *utils.RTTStats
	conn flowcontrol.ConnectionFlowController
	h    *quic.VerifFCHarness
	snd  []*sendSt
	rcv  []*recvSt
	out  []outFrame // outstanding STREAM frames

	now     int64
	style   int
	errored bool
	dead    int
}

func newRunner(r *vh.Rand) vh.Runner {
	return &runner{now: 1 + r.Range(0, 1_000_000_000), style: r.Pick(30, 50, 20)}
}

func (rn *runner) win(r *vh.Rand) int64 {
	switch rn.style {
	case 0:
		return r.Range(0, 300)
	case 1:
		return r.Range(200, 6000)
	}
	return r.Range(3000, 200_000)
}

func (rn *runner) GenOp(r *vh.Rand, i int) string {
	if i == 0 {
		w := rn.win(r) * 2
		return fmt.Sprintf("init %d %d", w, w*int64(1+r.Intn(4)))
	}
	if rn.conn == nil {
		return ""
	}
	if rn.errored {
		if rn.dead <= 0 {
			return ""
		}
		rn.dead--
	}
	rn.now += r.Range(0, 30_000_000)
	if len(rn.snd) < 1 || (len(rn.snd) < 4 && r.Chance(6)) {
		sw := rn.win(r)
		if r.Chance(25) {
			sw = 0
		}
		return fmt.Sprintf("snd.new %d", sw)
	}
	if len(rn.rcv) < 1 || (len(rn.rcv) < 4 && r.Chance(6)) {
		w := rn.win(r)
		return fmt.Sprintf("rcv.new %d %d", w, w*int64(1+r.Intn(4)))
	}
	si := r.Intn(len(rn.snd))
	ss := rn.snd[si]
	ri := r.Intn(len(rn.rcv))
	rs := rn.rcv[ri]
	switch r.Pick(14, 2, 7, 5, 22, 3, 2, 20, 2, 14, 2, 7) {
	case 0: // write
		var n int64
		switch r.Pick(50, 30, 20) {
		case 0:
			n = r.Range(1, 400)
		case 1:
			n = r.Range(400, 1400)
		default:
			n = r.Range(1400, 9000)
		}
		return fmt.Sprintf("w %d %d", si, n)
	case 1:
		return fmt.Sprintf("close %d", si)
	case 2: // MAX_STREAM_DATA
		cur := int64(ss.fc.SendWindowSize()) + ss.newEnd
		var v int64
		switch r.Pick(60, 15, 25) {
		case 0:
			v = max(cur, ss.newEnd) + r.Range(1, 3000)
		case 1:
			v = cur
		default:
			v = r.Range(0, max(cur, 1))
		}
		return fmt.Sprintf("smax %d %d", si, v)
	case 3: // MAX_DATA
		var tot int64
		for _, s := range rn.snd {
			tot += s.newEnd
		}
		var v int64
		switch r.Pick(65, 35) {
		case 0:
			v = tot + int64(rn.conn.SendWindowSize()) + r.Range(1, 5000)
		default:
			v = r.Range(0, tot+int64(rn.conn.SendWindowSize())+1)
		}
		return fmt.Sprintf("cmax %d", v)
	case 4: // pack
		var ml int64
		switch r.Pick(25, 50, 25) {
		case 0:
			ml = r.Range(1, 200)
		case 1:
			ml = r.Range(200, 1300)
		default:
			ml = r.Range(1300, 1452)
		}
		return fmt.Sprintf("pack %d %d", ml, rn.now)
	case 5:
		if len(rn.out) == 0 {
			return fmt.Sprintf("pack 1200 %d", rn.now)
		}
		return fmt.Sprintf("lost %d", r.Intn(len(rn.out)))
	case 6:
		if len(rn.out) == 0 {
			return fmt.Sprintf("pack 1200 %d", rn.now)
		}
		return fmt.Sprintf("acked %d", r.Intn(len(rn.out)))
	case 7: // incoming STREAM frame
		hr, lim, climRoom := rn.recvRoom(ri)
		var off, ln int64
		fin := 0
		if rs.final >= 0 {
			// retransmissions within the final size, rarely something inconsistent
			ln = r.Range(0, min(rs.final, 1200))
			off = r.Range(0, rs.final-ln)
			if off+ln == rs.final && r.Bool() {
				fin = 1
			}
			if r.Chance(3) {
				off = rs.final + r.Range(0, 3)
				ln = r.Range(1, 10)
			}
			return fmt.Sprintf("frame %d %d %d %d %d", ri, off, ln, fin, rn.now)
		}
		room := min(lim-hr, climRoom)
		switch r.Pick(62, 10, 12, 8, 2, 2, 4) {
		case 0: // in order, inside the windows
			off = hr
			ln = r.Range(1, max(min(room, 1200), 1))
			if ln > room {
				ln = max(room, 0)
			}
		case 1: // exactly up to the limit
			off = hr
			ln = max(min(room, 1400), 0)
			if ln < room {
				off = hr + room - ln
			}
		case 2: // duplicate / overlapping old data
			ln = r.Range(0, min(hr, 800))
			off = r.Range(0, hr-ln)
		case 3: // a gap, still inside the windows
			gap := r.Range(1, 50)
			off = hr + gap
			ln = r.Range(1, 200)
			if off+ln-hr > room {
				off, ln = hr, max(min(room, 100), 0)
			}
		case 4: // one byte beyond the stream limit
			off = hr
			ln = lim - hr + 1
			if ln > 1400 {
				off, ln = lim-100, 101
			}
		case 5: // one byte beyond the connection limit
			off = hr
			ln = climRoom + 1
			if ln > 1400 {
				off, ln = hr+climRoom-100, 101
			}
		default: // empty frame
			off, ln = r.Range(0, hr), 0
		}
		if off < 0 {
			off = 0
		}
		if r.Chance(5) {
			fin = 1
		}
		return fmt.Sprintf("frame %d %d %d %d %d", ri, off, ln, fin, rn.now)
	case 8: // RESET_STREAM
		hr, lim, climRoom := rn.recvRoom(ri)
		fs := hr + r.Range(0, max(min(lim-hr, climRoom), 0))
		if rs.final >= 0 {
			fs = rs.final
		}
		if r.Chance(8) {
			fs = max(fs-1, 0)
		}
		return fmt.Sprintf("rst %d %d %d", ri, fs, rn.now)
	case 9: // read
		var n int64
		switch r.Pick(40, 40, 20) {
		case 0:
			n = r.Range(1, 100)
		case 1:
			n = r.Range(100, 2000)
		default:
			n = 100_000
		}
		return fmt.Sprintf("rd %d %d", ri, n)
	case 10:
		return fmt.Sprintf("cancel %d", ri)
	default:
		return fmt.Sprintf("cupd %d", rn.now)
	}
}

func field(dump string, i int) int64 {
	f := strings.Split(dump, "/")
	if i < len(f) {
		return vh.Atoi64(f[i])
	}
	return 0
}

// recvRoom peeks at the real controllers (generator steering only): stream highest, stream limit, connection room.
func (rn *runner) recvRoom(ri int) (hr, lim, connRoom int64) {
	d := flowcontrol.VerifDump(rn.rcv[ri].fc)
	c := flowcontrol.VerifDump(rn.conn)
	return field(d, 4), field(d, 5), field(c, 5) - field(c, 4)
}

func errClass(err error) string {
	if err == nil {
		return "ok"
	}
	var te *qerr.TransportError
	if errors.As(err, &te) {
		switch te.ErrorCode {
		case qerr.FlowControlError:
			return "E:FLOW_CONTROL_ERROR"
		case qerr.FinalSizeError:
			return "E:FINAL_SIZE_ERROR"
		}
	}
	return "E:other"
}

func (rn *runner) suffix() string {
	ids := make([]int, 0, len(rn.h.Completed))
	for _, id := range rn.h.Completed {
		ids = append(ids, int(id))
	}
	sort.Ints(ids)
	var sb strings.Builder
	for i, id := range ids {
		if i > 0 {
			sb.WriteByte(',')
		}
		sb.WriteString(strconv.Itoa(id))
	}
	if len(ids) == 0 {
		sb.WriteByte('-')
	}
	return " | c=" + flowcontrol.VerifDump(rn.conn) + " done=" + sb.String()
}

func (rn *runner) settle() {
	synctest.Wait()
	for _, s := range rn.snd {
		if s.writing {
			select {
			case <-s.wdone:
				s.writing = false
			default:
			}
		}
	}
}

func addInterval(ivs [][2]int64, a, b int64) [][2]int64 {
	if a >= b {
		return ivs
	}
	ivs = append(ivs, [2]int64{a, b})
	sort.Slice(ivs, func(i, j int) bool { return ivs[i][0] < ivs[j][0] })
	out := ivs[:0]
	for _, iv := range ivs {
		if n := len(out); n > 0 && iv[0] <= out[n-1][1] {
			if iv[1] > out[n-1][1] {
				out[n-1][1] = iv[1]
			}
		} else {
			out = append(out, iv)
		}
	}
	return out
}

// avail is the end of the contiguous data starting at readPos.
func (s *recvSt) avail() int64 {
	for _, iv := range s.ivs {
		if iv[0] <= s.readPos && s.readPos < iv[1] {
			return iv[1]
		}
	}
	return s.readPos
}

func (rn *runner) AfterPanic(op string) string {
	if rn.conn == nil {
		return "PANIC"
	}
	return "PANIC" + rn.suffix()
}

func (rn *runner) Exec(op string) string {
	f := strings.Fields(op)
	if len(f) == 0 {
		return "skip"
	}
	arg := func(i int) int64 {
		if i < len(f) {
			return vh.Atoi64(f[i])
		}
		return 0
	}
	if f[0] == "init" {
		if rn.conn != nil {
			return "skip"
		}
		rn.rtt = utils.NewRTTStats()
		rn.conn = flowcontrol.NewConnectionFlowController(protocol.ByteCount(arg(1)), protocol.ByteCount(arg(2)),
			func(protocol.ByteCount) bool { return true }, rn.rtt, utils.DefaultLogger)
		rn.h = quic.VerifFCNew(rn.conn)
		return "ok" + rn.suffix()
	}
	if rn.conn == nil {
		return "skip"
	}
	sidx := func() *sendSt {
		if len(f) >= 2 && arg(1) >= 0 && int(arg(1)) < len(rn.snd) {
			return rn.snd[arg(1)]
		}
		return nil
	}
	ridx := func() *recvSt {
		if len(f) >= 2 && arg(1) >= 0 && int(arg(1)) < len(rn.rcv) {
			return rn.rcv[arg(1)]
		}
		return nil
	}
	var res string
	switch f[0] {
	case "snd.new":
		id := protocol.StreamID(4 * len(rn.snd))
		fc := flowcontrol.NewStreamFlowController(id, rn.conn, 0, 0, protocol.ByteCount(arg(1)), rn.rtt, utils.DefaultLogger)
		rn.snd = append(rn.snd, &sendSt{s: rn.h.NewSendStream(id, fc), fc: fc, wdone: make(chan int, 1)})
		res = strconv.Itoa(len(rn.snd) - 1)
	case "rcv.new":
		id := protocol.StreamID(4*len(rn.rcv) + 2)
		fc := flowcontrol.NewStreamFlowController(id, rn.conn, protocol.ByteCount(arg(1)), protocol.ByteCount(arg(2)), 0, rn.rtt, utils.DefaultLogger)
		rn.rcv = append(rn.rcv, &recvSt{s: rn.h.NewReceiveStream(id, fc), fc: fc, final: -1})
		res = strconv.Itoa(len(rn.rcv) - 1)
	case "w":
		s := sidx()
		n := arg(2)
		if s == nil || s.writing || s.closed || n <= 0 || n > 1<<20 {
			return "skip"
		}
		pending := s.written - s.newEnd
		if pending+n <= int64(protocol.MaxPacketBufferSize) {
			k, err := s.s.Write(make([]byte, n))
			s.written += int64(k)
			res = fmt.Sprintf("n=%d", k)
			if err != nil {
				res += " E:other"
			}
		} else {
			s.writing = true
			s.written += n
			go func() {
				k, _ := s.s.Write(make([]byte, n))
				s.wdone <- k
			}()
			res = "started"
		}
	case "close":
		s := sidx()
		if s == nil || s.writing {
			return "skip"
		}
		s.closed = true
		if err := s.s.Close(); err != nil {
			res = "E:other"
		} else {
			res = "ok"
		}
	case "smax":
		s := sidx()
		if s == nil {
			return "skip"
		}
		quic.VerifFCUpdateSendWindow(s.s, protocol.ByteCount(arg(2)))
		res = "ok"
	case "cmax":
		rn.conn.UpdateSendWindow(protocol.ByteCount(arg(1)))
		res = "ok"
	case "pack":
		if arg(1) <= 0 {
			return "skip"
		}
		frames, sfs := rn.h.Pack(protocol.ByteCount(arg(1)), monotime.Time(arg(2)))
		var parts []string
		for _, sf := range sfs {
			si := int(sf.Frame.StreamID) / 4
			end := int64(sf.Frame.Offset) + int64(sf.Frame.DataLen())
			if si < len(rn.snd) && end > rn.snd[si].newEnd {
				rn.snd[si].newEnd = end
			}
			parts = append(parts, fmt.Sprintf("S:%d:%d:%d:%d", si, int64(sf.Frame.Offset), int64(sf.Frame.DataLen()), b2i(sf.Frame.Fin)))
			rn.out = append(rn.out, outFrame{f: sf.Frame, h: sf.Handler, sid: si})
		}
		var ctl []string
		for _, fr := range frames {
			switch x := fr.Frame.(type) {
			case *wire.StreamDataBlockedFrame:
				ctl = append(ctl, fmt.Sprintf("SB:%d:%d", int(x.StreamID)/4, int64(x.MaximumStreamData)))
			case *wire.DataBlockedFrame:
				ctl = append(ctl, fmt.Sprintf("DB:%d", int64(x.MaximumData)))
			case *wire.MaxStreamDataFrame:
				ctl = append(ctl, fmt.Sprintf("MS:%d:%d", (int(x.StreamID)-2)/4, int64(x.MaximumStreamData)))
			case *wire.MaxDataFrame:
				ctl = append(ctl, fmt.Sprintf("MD:%d", int64(x.MaximumData)))
			case *wire.StopSendingFrame:
				ctl = append(ctl, fmt.Sprintf("X:stop_sending:%d", (int(x.StreamID)-2)/4))
			default:
				ctl = append(ctl, fmt.Sprintf("X:%T", x))
			}
		}
		sort.Strings(ctl) // stream control frames come out of a Go map
		parts = append(parts, ctl...)
		if len(parts) == 0 {
			res = "-"
		} else {
			res = strings.Join(parts, " ")
		}
	case "lost", "acked":
		k := int(arg(1))
		if len(f) < 2 || k < 0 || k >= len(rn.out) {
			return "skip"
		}
		o := rn.out[k]
		rn.out = append(rn.out[:k], rn.out[k+1:]...)
		if f[0] == "lost" {
			o.h.OnLost(o.f)
		} else {
			o.h.OnAcked(o.f)
		}
		res = "ok"
	case "frame":
		s := ridx()
		off, ln := arg(2), arg(3)
		if s == nil || off < 0 || ln < 0 || ln > 1<<16 {
			return "skip"
		}
		err := quic.VerifFCHandleStreamFrame(s.s, &wire.StreamFrame{StreamID: protocol.StreamID(4*arg(1) + 2),
			Offset: protocol.ByteCount(off), Data: make([]byte, ln), Fin: arg(4) == 1}, monotime.Time(arg(5)))
		res = errClass(err)
		if err == nil {
			if !s.cancelled {
				s.ivs = addInterval(s.ivs, off, off+ln)
			}
			if arg(4) == 1 {
				s.final = off + ln
			}
		} else if !rn.errored {
			rn.errored, rn.dead = true, 3
		}
	case "rst":
		s := ridx()
		if s == nil || arg(2) < 0 {
			return "skip"
		}
		err := quic.VerifFCHandleResetStreamFrame(s.s, &wire.ResetStreamFrame{StreamID: protocol.StreamID(4*arg(1) + 2),
			FinalSize: protocol.ByteCount(arg(2)), ErrorCode: 7}, monotime.Time(arg(3)))
		res = errClass(err)
		if err == nil {
			s.final = arg(2)
			s.reset = true
		} else if !rn.errored {
			rn.errored, rn.dead = true, 3
		}
	case "rd":
		s := ridx()
		n := arg(2)
		if s == nil || n <= 0 || n > 1<<20 {
			return "skip"
		}
		// Read blocks when nothing is readable and the stream is not finished: never call it then
		readable := s.avail() > s.readPos || s.cancelled || s.reset || s.dead || (s.final >= 0 && s.readPos >= s.final)
		if !readable {
			return "skip"
		}
		k, err := s.s.Read(make([]byte, n))
		s.readPos += int64(k)
		st := "ok"
		var se *quic.StreamError
		switch {
		case err == nil:
		case err == io.EOF:
			st = "eof"
			s.dead = true
		case errors.As(err, &se) && se.Remote:
			st = "E:reset"
			s.dead = true
		case errors.As(err, &se):
			st = "E:cancel"
			s.dead = true
		default:
			st = "E:other"
		}
		res = fmt.Sprintf("n=%d %s", k, st)
	case "cancel":
		s := ridx()
		if s == nil {
			return "skip"
		}
		s.s.CancelRead(9)
		s.cancelled = true
		res = "ok"
	case "cupd":
		// connection.go (sendPackets / maybeSendAckOnlyPacket): if offset := c.connFlowController.GetWindowUpdate(now); offset > 0 { queue MAX_DATA }
		off := rn.conn.GetWindowUpdate(monotime.Time(arg(1)))
		if off > 0 {
			rn.h.QueueControlFrame(&wire.MaxDataFrame{MaximumData: off})
		}
		res = strconv.FormatInt(int64(off), 10)
	default:
		return "skip"
	}
	rn.settle()
	return res + rn.suffix()
}

func (rn *runner) Close() {
	for _, s := range rn.snd {
		quic.VerifFCShutdownSend(s.s)
	}
	for _, s := range rn.rcv {
		quic.VerifFCShutdownReceive(s.s)
	}
	synctest.Wait()
}

func b2i(b bool) int {
	if b {
		return 1
	}
	return 0
}

func TestDriver(t *testing.T) {
	synctest.Test(t, func(t *testing.T) { vh.Main(t, "flowcall", newRunner) })
}
